(* written by tools/pin_sources.py *)
From Coq Require Import List String Bool.
From UsimGen Require Import Generated SourcePins.
Import ListNotations. Open Scope string_scope.
Definition pins : list string := ["usim/_primitives/locks.py:Lock.__init__";
  "usim/_primitives/locks.py:Lock.available";
  "usim/_primitives/locks.py:Lock.__aenter__";
  "usim/_primitives/locks.py:Lock.__aexit__";
  "usim/_primitives/locks.py:Lock.__release__";
  "usim/_primitives/locks.py:Lock.__repr__";
  "usim/_primitives/locks.py:<module>";
  "usim/_primitives/locks.py:Lock.<attrs>";
  "usim/_primitives/notification.py:postpone";
  "usim/_primitives/notification.py:suspend";
  "usim/_primitives/notification.py:Notification.__init__";
  "usim/_primitives/notification.py:Notification.__await__";
  "usim/_primitives/notification.py:Notification.__awake_next__";
  "usim/_primitives/notification.py:Notification.__awake_all__";
  "usim/_primitives/notification.py:Notification.__subscribe__";
  "usim/_primitives/notification.py:Notification.__unsubscribe__";
  "usim/_primitives/notification.py:Notification.__subscription__";
  "usim/_primitives/notification.py:Notification.__del__";
  "usim/_primitives/notification.py:Notification.__repr__";
  "usim/_primitives/notification.py:<module>";
  "usim/_primitives/notification.py:Notification.<attrs>"].
(** the functions the model of C09 was transcribed from are unchanged in /repo *)
Lemma src_unchanged : forallb pin_ok pins = true.
Proof. vm_compute. reflexivity. Qed.
