(* written by tools/pin_sources.py *)
From Coq Require Import List String Bool.
From UsimGen Require Import Generated SourcePins.
Import ListNotations. Open Scope string_scope.
Definition pins : list string := ["usim/_basics/streams.py:Channel.closed";
  "usim/_basics/streams.py:Channel.__init__";
  "usim/_basics/streams.py:Channel.close";
  "usim/_basics/streams.py:Channel.__await__";
  "usim/_basics/streams.py:Channel.__aiter__";
  "usim/_basics/streams.py:Channel.put";
  "usim/_basics/streams.py:Channel.__repr__";
  "usim/_basics/streams.py:StreamClosed.__init__";
  "usim/_primitives/notification.py:postpone";
  "usim/_primitives/notification.py:suspend";
  "usim/_primitives/notification.py:Notification.__init__";
  "usim/_primitives/notification.py:Notification.__await__";
  "usim/_primitives/notification.py:Notification.__awake_next__";
  "usim/_primitives/notification.py:Notification.__awake_all__";
  "usim/_primitives/notification.py:Notification.__subscribe__";
  "usim/_primitives/notification.py:Notification.__unsubscribe__";
  "usim/_primitives/notification.py:Notification.__subscription__";
  "usim/_primitives/notification.py:Notification.__del__";
  "usim/_primitives/notification.py:Notification.__repr__";
  "usim/_primitives/notification.py:<module>";
  "usim/_primitives/notification.py:Notification.<attrs>";
  "usim/_basics/streams.py:<module>";
  "usim/_basics/streams.py:Queue.__init__"].
(** the functions the model of C11 was transcribed from are unchanged in /repo *)
Lemma src_unchanged : forallb pin_ok pins = true.
Proof. vm_compute. reflexivity. Qed.
