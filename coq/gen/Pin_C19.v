(* written by tools/pin_sources.py *)
From Coq Require Import List String Bool.
From UsimGen Require Import Generated SourcePins.
Import ListNotations. Open Scope string_scope.
Definition pins : list string := ["usim/py/resources/__init__.py:<module>";
  "usim/py/resources/base.py:BaseRequest.__init__";
  "usim/py/resources/base.py:BaseRequest.__enter__";
  "usim/py/resources/base.py:BaseRequest.__exit__";
  "usim/py/resources/base.py:BaseRequest.cancel";
  "usim/py/resources/base.py:Put.__init__";
  "usim/py/resources/base.py:Put.cancel";
  "usim/py/resources/base.py:Get.__init__";
  "usim/py/resources/base.py:Get.cancel";
  "usim/py/resources/base.py:BaseResource.__init__";
  "usim/py/resources/base.py:BaseResource.capacity";
  "usim/py/resources/base.py:BaseResource.put";
  "usim/py/resources/base.py:BaseResource.get";
  "usim/py/resources/base.py:BaseResource._trigger_put";
  "usim/py/resources/base.py:BaseResource._trigger_get";
  "usim/py/resources/base.py:BaseResource._do_get";
  "usim/py/resources/base.py:BaseResource._do_put";
  "usim/py/resources/base.py:<module>";
  "usim/py/resources/base.py:BaseResource.<attrs>";
  "usim/py/resources/container.py:ContainerPut.__init__";
  "usim/py/resources/container.py:ContainerGet.__init__";
  "usim/py/resources/container.py:Container.__init__";
  "usim/py/resources/container.py:Container.level";
  "usim/py/resources/container.py:Container.put";
  "usim/py/resources/container.py:Container.get";
  "usim/py/resources/container.py:Container._do_put";
  "usim/py/resources/container.py:Container._do_get";
  "usim/py/resources/container.py:<module>";
  "usim/py/resources/resource.py:Request.__exit__";
  "usim/py/resources/resource.py:Release.__init__";
  "usim/py/resources/resource.py:Resource.__init__";
  "usim/py/resources/resource.py:Resource.queue";
  "usim/py/resources/resource.py:Resource.count";
  "usim/py/resources/resource.py:Resource.put";
  "usim/py/resources/resource.py:Resource.get";
  "usim/py/resources/resource.py:Resource.request";
  "usim/py/resources/resource.py:Resource.release";
  "usim/py/resources/resource.py:Resource._do_put";
  "usim/py/resources/resource.py:Resource._do_get";
  "usim/py/resources/resource.py:PriorityRequest.__init__";
  "usim/py/resources/resource.py:SortedQueue.__init__";
  "usim/py/resources/resource.py:SortedQueue.append";
  "usim/py/resources/resource.py:PriorityResource.request";
  "usim/py/resources/resource.py:Preempted.__init__";
  "usim/py/resources/resource.py:PreemptiveResource.__init__";
  "usim/py/resources/resource.py:PreemptiveResource._do_put";
  "usim/py/resources/resource.py:<module>";
  "usim/py/resources/resource.py:Request.<attrs>";
  "usim/py/resources/resource.py:Release.<attrs>";
  "usim/py/resources/resource.py:PriorityResource.<attrs>";
  "usim/py/resources/resource.py:Preempted.<attrs>";
  "usim/py/resources/store.py:StorePut.__init__";
  "usim/py/resources/store.py:Store.__init__";
  "usim/py/resources/store.py:Store.items";
  "usim/py/resources/store.py:Store.get";
  "usim/py/resources/store.py:Store.put";
  "usim/py/resources/store.py:Store._do_put";
  "usim/py/resources/store.py:Store._do_get";
  "usim/py/resources/store.py:FilterStoreGet.__init__";
  "usim/py/resources/store.py:accept_any";
  "usim/py/resources/store.py:FilterStore.__init__";
  "usim/py/resources/store.py:FilterStore.get";
  "usim/py/resources/store.py:FilterStore._trigger_get";
  "usim/py/resources/store.py:FilterStore._do_get";
  "usim/py/resources/store.py:PriorityItem.__lt__";
  "usim/py/resources/store.py:PriorityItem.__gt__";
  "usim/py/resources/store.py:PriorityItem.__le__";
  "usim/py/resources/store.py:PriorityItem.__ge__";
  "usim/py/resources/store.py:PriorityItem.__eq__";
  "usim/py/resources/store.py:PriorityItem.__ne__";
  "usim/py/resources/store.py:PriorityStore.__init__";
  "usim/py/resources/store.py:PriorityStore._do_put";
  "usim/py/resources/store.py:PriorityStore._do_get";
  "usim/py/resources/store.py:<module>";
  "usim/py/resources/store.py:PriorityItem.<attrs>"].
(** the functions the model of C19 was transcribed from are unchanged in /repo *)
Lemma src_unchanged : forallb pin_ok pins = true.
Proof. vm_compute. reflexivity. Qed.
