(* written by tools/pin_sources.py *)
From Coq Require Import List String Bool.
From UsimGen Require Import Generated SourcePins.
Import ListNotations. Open Scope string_scope.
Definition pins : list string := ["usim/_core/loop.py:ActivityLeak.__init__";
  "usim/_core/loop.py:Hibernate.__await__";
  "usim/_core/loop.py:Loop.__init__";
  "usim/_core/loop.py:Loop.run";
  "usim/_core/loop.py:Loop._run_events";
  "usim/_core/loop.py:Loop._run_coroutine";
  "usim/_core/loop.py:Loop.schedule";
  "usim/_core/loop.py:Interrupt.__init__";
  "usim/_core/loop.py:Interrupt.__bool__";
  "usim/_core/loop.py:Interrupt.revoke";
  "usim/_core/loop.py:Activation.__init__";
  "usim/_core/loop.py:Activation.__bool__";
  "usim/_core/loop.py:<module>";
  "usim/_core/loop.py:Hibernate.<attrs>";
  "usim/_core/loop.py:Loop.<attrs>";
  "usim/_core/loop.py:Interrupt.<attrs>";
  "usim/_core/loop.py:Activation.<attrs>";
  "usim/_core/waitq.py:HQWaitQueue.__init__";
  "usim/_core/waitq.py:HQWaitQueue.__bool__";
  "usim/_core/waitq.py:HQWaitQueue.__len__";
  "usim/_core/waitq.py:HQWaitQueue.push";
  "usim/_core/waitq.py:HQWaitQueue.pop";
  "usim/_core/waitq.py:SDWaitQueue.__init__";
  "usim/_core/waitq.py:SDWaitQueue.__bool__";
  "usim/_core/waitq.py:SDWaitQueue.__len__";
  "usim/_core/waitq.py:SDWaitQueue.push";
  "usim/_core/waitq.py:SDWaitQueue.pop";
  "usim/_core/waitq.py:<module>";
  "usim/_core/waitq.py:HQWaitQueue.<attrs>";
  "usim/_core/waitq.py:SDWaitQueue.<attrs>";
  "usim/_primitives/notification.py:postpone";
  "usim/_primitives/notification.py:suspend";
  "usim/_primitives/timing.py:After.__init__";
  "usim/_primitives/timing.py:After.__bool__";
  "usim/_primitives/timing.py:After.__invert__";
  "usim/_primitives/timing.py:After._ensure_trigger";
  "usim/_primitives/timing.py:After._async_trigger";
  "usim/_primitives/timing.py:After.__await__";
  "usim/_primitives/timing.py:After.__subscribe__";
  "usim/_primitives/timing.py:After.<attrs>";
  "usim/_primitives/timing.py:Before.__init__";
  "usim/_primitives/timing.py:Before.__bool__";
  "usim/_primitives/timing.py:Before.__invert__";
  "usim/_primitives/timing.py:Before.__await__";
  "usim/_primitives/timing.py:Before.<attrs>";
  "usim/_primitives/timing.py:Moment.__init__";
  "usim/_primitives/timing.py:Moment.__bool__";
  "usim/_primitives/timing.py:Moment.__invert__";
  "usim/_primitives/timing.py:Moment.__await__";
  "usim/_primitives/timing.py:Moment.__subscribe__";
  "usim/_primitives/timing.py:Moment.__unsubscribe__";
  "usim/_primitives/timing.py:Moment.<attrs>";
  "usim/_primitives/timing.py:Eternity.__bool__";
  "usim/_primitives/timing.py:Eternity.__invert__";
  "usim/_primitives/timing.py:Eternity.__await__";
  "usim/_primitives/timing.py:Eternity.<attrs>";
  "usim/_primitives/timing.py:Instant.__bool__";
  "usim/_primitives/timing.py:Instant.__invert__";
  "usim/_primitives/timing.py:Instant.__await__";
  "usim/_primitives/timing.py:Instant.<attrs>";
  "usim/_primitives/timing.py:Delay.__init__";
  "usim/_primitives/timing.py:Delay.__subscribe__";
  "usim/_primitives/timing.py:Delay.__and__";
  "usim/_primitives/timing.py:Delay.__or__";
  "usim/_primitives/timing.py:Delay.__invert__";
  "usim/_primitives/timing.py:Delay.<attrs>";
  "usim/_primitives/timing.py:Time.now";
  "usim/_primitives/timing.py:Time.__add__";
  "usim/_primitives/timing.py:Time.__ge__";
  "usim/_primitives/timing.py:Time.__eq__";
  "usim/_primitives/timing.py:Time.__lt__";
  "usim/_primitives/timing.py:Time.__le__";
  "usim/_primitives/timing.py:Time.__gt__";
  "usim/_primitives/timing.py:Time.__await__";
  "usim/_primitives/timing.py:Time.<attrs>";
  "usim/_primitives/timing.py:<module>";
  "usim/_primitives/task.py:Task.__init__";
  "usim/_primitives/context.py:Scope.do";
  "usim/__init__.py:run"].
(** the functions the model of C01 was transcribed from are unchanged in /repo *)
Lemma src_unchanged : forallb pin_ok pins = true.
Proof. vm_compute. reflexivity. Qed.
