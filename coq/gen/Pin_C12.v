(* written by tools/pin_sources.py *)
From Coq Require Import List String Bool.
From UsimGen Require Import Generated SourcePins.
Import ListNotations. Open Scope string_scope.
Definition pins : list string := ["usim/_basics/resource.py:ResourcesUnavailable.__init__";
  "usim/_basics/resource.py:BaseResources.levels";
  "usim/_basics/resource.py:BaseResources.resource_type";
  "usim/_basics/resource.py:BaseResources.__insert_resources__";
  "usim/_basics/resource.py:BaseResources.__remove_resources__";
  "usim/_basics/resource.py:BaseResources.borrow";
  "usim/_basics/resource.py:BaseResources.claim";
  "usim/_basics/resource.py:BaseResources.__repr__";
  "usim/_basics/resource.py:BaseResources.__eq__";
  "usim/_basics/resource.py:BaseResources.__ne__";
  "usim/_basics/resource.py:BaseResources.__gt__";
  "usim/_basics/resource.py:BaseResources.__ge__";
  "usim/_basics/resource.py:BaseResources.__le__";
  "usim/_basics/resource.py:BaseResources.__lt__";
  "usim/_basics/resource.py:BorrowedResources._levels_type";
  "usim/_basics/resource.py:BorrowedResources.limits";
  "usim/_basics/resource.py:BorrowedResources.__init__";
  "usim/_basics/resource.py:BorrowedResources.__aenter__";
  "usim/_basics/resource.py:BorrowedResources.__aexit__";
  "usim/_basics/resource.py:BorrowedResources.__release_nowait__";
  "usim/_basics/resource.py:BorrowedResources.borrow";
  "usim/_basics/resource.py:ClaimedResources.__aenter__";
  "usim/_basics/resource.py:Capacities.__init__";
  "usim/_basics/resource.py:Resources.__init__";
  "usim/_basics/resource.py:Resources.set";
  "usim/_basics/resource.py:Resources.increase";
  "usim/_basics/resource.py:Resources.decrease";
  "usim/_basics/resource.py:<module>";
  "usim/_basics/resource.py:ResourcesUnavailable.<attrs>";
  "usim/_basics/resource.py:BaseResources.<attrs>";
  "usim/_basics/_resource_level.py:ResourceLevels.__init__";
  "usim/_basics/_resource_level.py:ResourceLevels.__add__";
  "usim/_basics/_resource_level.py:ResourceLevels.__sub__";
  "usim/_basics/_resource_level.py:ResourceLevels.__gt__";
  "usim/_basics/_resource_level.py:ResourceLevels.__ge__";
  "usim/_basics/_resource_level.py:ResourceLevels.__le__";
  "usim/_basics/_resource_level.py:ResourceLevels.__lt__";
  "usim/_basics/_resource_level.py:ResourceLevels.__eq__";
  "usim/_basics/_resource_level.py:ResourceLevels.__ne__";
  "usim/_basics/_resource_level.py:ResourceLevels.__iter__";
  "usim/_basics/_resource_level.py:ResourceLevels.__repr__";
  "usim/_basics/_resource_level.py:__specialise__";
  "usim/_basics/_resource_level.py:__make_init__";
  "usim/_basics/_resource_level.py:__binary_op__";
  "usim/_basics/_resource_level.py:__comparison_op__";
  "usim/_basics/_resource_level.py:<module>";
  "usim/_basics/_resource_level.py:ResourceLevels.<attrs>";
  "usim/_basics/_resource_level.py:SpecialisedResourceLevels.<attrs>";
  "usim/_basics/tracked.py:Tracked.set";
  "usim/_basics/tracked.py:AsyncComparison.__bool__";
  "usim/_basics/tracked.py:AsyncComparison.__invert__";
  "usim/_basics/tracked.py:AsyncComparison.__init__";
  "usim/_basics/tracked.py:AsyncComparison.__on_changed__";
  "usim/_basics/tracked.py:AsyncComparison.__str__";
  "usim/_basics/tracked.py:AsyncComparison.__repr__";
  "usim/_basics/tracked.py:AsyncComparison.<attrs>";
  "usim/_basics/tracked.py:<module>";
  "usim/_basics/tracked.py:Tracked.<attrs>";
  "usim/_basics/tracked.py:Tracked.__add_listener__";
  "usim/_basics/tracked.py:Tracked.__ge__";
  "usim/_basics/tracked.py:Tracked.__init__";
  "usim/_basics/tracked.py:Tracked.value"].
(** the functions the model of C12 was transcribed from are unchanged in /repo *)
Lemma src_unchanged : forallb pin_ok pins = true.
Proof. vm_compute. reflexivity. Qed.
