(* written by tools/pin_sources.py *)
From Coq Require Import List String Bool.
From UsimGen Require Import Generated SourcePins.
Import ListNotations. Open Scope string_scope.
Definition pins : list string := ["usim/_primitives/context.py:CancelScope.__init__";
  "usim/_primitives/context.py:ScopeClosed.__init__";
  "usim/_primitives/context.py:Scope.__init__";
  "usim/_primitives/context.py:Scope.__await__";
  "usim/_primitives/context.py:Scope.do";
  "usim/_primitives/context.py:Scope.__cancel__";
  "usim/_primitives/context.py:Scope.__child_finished__";
  "usim/_primitives/context.py:Scope._disable_interrupts";
  "usim/_primitives/context.py:Scope._await_children";
  "usim/_primitives/context.py:Scope._close_children";
  "usim/_primitives/context.py:Scope._close_volatile";
  "usim/_primitives/context.py:Scope.__aenter__";
  "usim/_primitives/context.py:Scope.__aexit__";
  "usim/_primitives/context.py:Scope._close_scope";
  "usim/_primitives/context.py:Scope._collect_exceptions";
  "usim/_primitives/context.py:Scope._propagate_exceptions";
  "usim/_primitives/context.py:Scope._is_suppressed";
  "usim/_primitives/context.py:Scope.__repr__";
  "usim/_primitives/context.py:InterruptScope.__init__";
  "usim/_primitives/context.py:InterruptScope.__aenter__";
  "usim/_primitives/context.py:InterruptScope._disable_interrupts";
  "usim/_primitives/context.py:InterruptScope._is_suppressed";
  "usim/_primitives/context.py:InterruptScope.__repr__";
  "usim/_primitives/context.py:until";
  "usim/_primitives/context.py:<module>";
  "usim/_primitives/context.py:CancelScope.<attrs>";
  "usim/_primitives/context.py:ScopeClosed.<attrs>";
  "usim/_primitives/context.py:Scope.<attrs>";
  "usim/_primitives/context.py:InterruptScope.<attrs>";
  "usim/_primitives/task.py:Task.__init__";
  "usim/_primitives/concurrent_exception.py:Concurrent.__new__";
  "usim/_primitives/concurrent_exception.py:Concurrent.__init__";
  "usim/_primitives/concurrent_exception.py:<module>";
  "usim/_primitives/concurrent_exception.py:Concurrent.<attrs>";
  "usim/_primitives/concurrent_exception.py:Concurrent.__repr__";
  "usim/_primitives/concurrent_exception.py:Concurrent.flattened";
  "usim/_primitives/concurrent_exception.py:MetaConcurrent.<attrs>";
  "usim/_primitives/concurrent_exception.py:MetaConcurrent.__getitem__";
  "usim/_primitives/concurrent_exception.py:MetaConcurrent.__instancecheck__";
  "usim/_primitives/concurrent_exception.py:MetaConcurrent.__new__";
  "usim/_primitives/concurrent_exception.py:MetaConcurrent.__subclasscheck__";
  "usim/_primitives/concurrent_exception.py:MetaConcurrent._get_specialisation";
  "usim/_primitives/task.py:<module>";
  "usim/_primitives/task.py:CancelTask.<attrs>";
  "usim/_primitives/task.py:CancelTask.__init__";
  "usim/_primitives/task.py:CancelTask.__transcript__";
  "usim/_primitives/task.py:Done.<attrs>";
  "usim/_primitives/task.py:Done.__bool__";
  "usim/_primitives/task.py:Done.__init__";
  "usim/_primitives/task.py:Done.__invert__";
  "usim/_primitives/task.py:Done.__set_done__";
  "usim/_primitives/task.py:NotDone.<attrs>";
  "usim/_primitives/task.py:NotDone.__bool__";
  "usim/_primitives/task.py:NotDone.__init__";
  "usim/_primitives/task.py:Task.<attrs>";
  "usim/_primitives/task.py:Task.__await__";
  "usim/_primitives/task.py:Task.__close__";
  "usim/_primitives/task.py:Task.__del__";
  "usim/_primitives/task.py:Task.__exception__";
  "usim/_primitives/task.py:Task.__repr__";
  "usim/_primitives/task.py:Task.cancel";
  "usim/_primitives/task.py:Task.done";
  "usim/_primitives/task.py:Task.status";
  "usim/_primitives/task.py:TaskCancelled.<attrs>";
  "usim/_primitives/task.py:TaskCancelled.__init__";
  "usim/_primitives/task.py:try_close"].
(** the functions the model of C05 was transcribed from are unchanged in /repo *)
Lemma src_unchanged : forallb pin_ok pins = true.
Proof. vm_compute. reflexivity. Qed.
