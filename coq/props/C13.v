(** C13 - Pipe shares throughput proportionally; transfers end at the fluid-model time.
    Statements only; model in theories/PipeFluid.v, proofs in theories/PipeFluidProps.v. *)
From Coq Require Import QArith Qminmax ZArith List.
From Usim Require Import PipeFluid PipeFluidProps.
Import ListNotations.
Open Scope Q_scope.

(** the sharing formula: limit * scale = min(limit, limit * T / sum of limits) *)
Theorem C13_rate_spec : forall t d l,
  0 < t -> 0 < d -> 0 <= l -> rate_of (Fin t) d l == Qmin l (l * t / d).
Proof. exact rate_spec. Qed.
Print Assumptions C13_rate_spec.

(** ... in a crowded pipe: n transfers of equal limit that together exceed the throughput get t / n each, for every n *)
Theorem C13_equal_shares : forall t l (n : positive),
  0 < t -> 0 < l -> t < inject_Z (Zpos n) * l ->
  rate_of (Fin t) (inject_Z (Zpos n) * l) l == t / inject_Z (Zpos n).
Proof. exact equal_shares. Qed.
Print Assumptions C13_equal_shares.

(** every state reachable by any history satisfies the invariant ... *)
Theorem C13_reachable_inv : forall T ops,
  Tpos T -> Forall op_ok ops -> Inv (fold_left apply ops (init T)).
Proof. exact reach_Inv. Qed.
Print Assumptions C13_reachable_inv.

Theorem C13_inv_tick : forall s, Inv s -> Inv (tick s).
Proof. exact tick_Inv. Qed.
Print Assumptions C13_inv_tick.

(** ... in which the rate of every active transfer's current window is the formula, *)
Theorem C13_window_rate_spec : forall s x t,
  Inv s -> thr s = Fin t -> In x (act s) ->
  xwr x == Qmin (xlim x) (xlim x * t / sum_lim (act s)).
Proof. exact window_rate_spec. Qed.
Print Assumptions C13_window_rate_spec.

(** the combined flow is at most the throughput, *)
Theorem C13_sum_le_throughput : forall s t, Inv s -> thr s = Fin t -> sum_wr (act s) <= t.
Proof. exact sum_le_throughput. Qed.
Print Assumptions C13_sum_le_throughput.

(** and an uncongested (or infinite) pipe slows nobody down *)
Theorem C13_uncongested_full_speed : forall s x,
  Inv s -> match thr s with Fin t => sum_lim (act s) <= t | Inf => True end ->
  In x (act s) -> xwr x == xlim x.
Proof. exact uncongested_full_speed. Qed.
Print Assumptions C13_uncongested_full_speed.

(** the windowed bookkeeping and the fluid integral are the same function of the history:
    same amounts in every reachable state ([R]: [famt y == xtr x + (now - xws x) * xwr x]) ... *)
Theorem C13_windowed_state_equals_fluid : forall T ops,
  Tpos T -> Forall op_ok ops ->
  R (fold_left apply ops (init T)) (fold_left fapply ops (finit T)).
Proof. exact reach_R. Qed.
Print Assumptions C13_windowed_state_equals_fluid.

(** ... and the same completion times *)
Theorem C13_windowed_equals_fluid : forall T ops,
  Tpos T -> Forall op_ok ops -> Forall2 Rfin (run T ops) (frun T ops).
Proof. exact windowed_equals_fluid. Qed.
Print Assumptions C13_windowed_equals_fluid.

(** the rate the fluid machine integrates is the property's formula *)
Theorem C13_fluid_rate_spec : forall f tt y,
  fthr f = Fin tt -> 0 < tt -> Forall (fun y => 0 < flim y) (fact f) -> In y (fact f) ->
  frate f y == Qmin (flim y) (flim y * tt / sum_flim (fact f)).
Proof. exact frate_spec. Qed.
Print Assumptions C13_fluid_rate_spec.

(** completion exactly when the integral reaches the volume: at a completion the amount is the
    volume and nobody else is above theirs; ... *)
Theorem C13_tick_exact : forall s i d,
  Inv s -> argmin (map due (act s)) = Some (i, d) ->
  exists x, nth_error (act s) i = Some x /\ now s <= d /\ got d x == xvol x /\
            Forall (fun z => got d z <= xvol z) (act s).
Proof. exact tick_exact. Qed.
Print Assumptions C13_tick_exact.

Theorem C13_fluid_tick_exact : forall f y, 0 < frate f y ->
  famt y + (freach f y - fnow f) * frate f y == fvol y.
Proof. exact ftick_exact. Qed.
Print Assumptions C13_fluid_tick_exact.

(** ... amounts never exceed volumes; ... *)
Theorem C13_fluid_no_overshoot : forall T ops,
  Tpos T -> Forall op_ok ops ->
  Forall (fun y => famt y <= fvol y) (fact (fold_left fapply ops (finit T))).
Proof. exact fluid_no_overshoot. Qed.
Print Assumptions C13_fluid_no_overshoot.

(** ... and whoever is still active after time passed to [t] is strictly below its volume *)
Theorem C13_advance_settled : forall fuel s t,
  Inv s -> (length (act s) <= fuel)%nat -> now s <= t ->
  now (advance fuel s (Fin t)) == t /\
  Forall (fun x => got t x < xvol x) (act (advance fuel s (Fin t))).
Proof. exact advance_settled. Qed.
Print Assumptions C13_advance_settled.

(** zero volume and infinite throughput take no time *)
Theorem C13_zero_volume_no_time : forall s id l b,
  Inv s -> 0 < l -> le_ext (now s) b = true ->
  let s1 := join s id 0 (Fin l) in
  exists d, d == now s /\ In (id, d) (fin (advance (length (act s1)) s1 b)).
Proof. exact zero_volume_no_time. Qed.
Print Assumptions C13_zero_volume_no_time.

Theorem C13_infinite_takes_no_time : forall s id v,
  fin (join s id v Inf) = fin s ++ [(id, now s)] /\ act (join s id v Inf) = act s /\
  now (join s id v Inf) = now s.
Proof. exact infinite_takes_no_time. Qed.
Print Assumptions C13_infinite_takes_no_time.

Theorem C13_infinite_pipe_full_speed : forall d l, rate_of Inf d l == l.
Proof. exact rate_inf. Qed.
Print Assumptions C13_infinite_pipe_full_speed.

(** a cancelled transfer stops occupying bandwidth immediately: the others run at the rates
    of the pipe without it *)
Theorem C13_leave_frees_bandwidth : forall s id x',
  Inv s -> In x' (act (cancel s id)) ->
  xid x' <> id /\
  xwr x' == rate_of (thr s) (sum_lim (filter (fun x => negb (has_id id x)) (act s))) (xlim x').
Proof. exact leave_frees_bandwidth. Qed.
Print Assumptions C13_leave_frees_bandwidth.

Example C13_hypotheses_satisfiable :
  Tpos (Fin 3) /\ Forall op_ok [Join 0 0 15 (Fin 3); Join 0 1 15 (Fin 3); Cancel 2 0].
Proof. exact ex_hyps. Qed.

Example C13_docstring_example :
  run_case 3 1 [[0;0;0;1;15;1;3;1];[0;1;0;1;15;1;3;1]]%Z = [[0;10;1];[1;10;1]]%Z.
Proof. exact ex_doc. Qed.

Example C13_mixed_example :
  run_case 3 1 [[0;0;0;1;15;1;3;1];[0;1;1;1;7;1;2;1];[0;2;2;1;0;1;2;1];[1;0;3;1]]%Z
  = [[2;2;1];[1;53;10]]%Z.
Proof. exact ex_mixed. Qed.

(** (A) the tie to /repo's current source: every function this property's models were transcribed from has, in the
    tree this run is checking, the normalised source it had when the models were validated (hashes regenerated from
    /repo into gen/Generated.v on every run; pins in gen/SourcePins.v).  A change to one of them invalidates the
    transcription until it is re-validated. *)
From UsimGen Require SourcePins Pin_C13.
Theorem C13_modelled_source_unchanged : forallb SourcePins.pin_ok Pin_C13.pins = true.
Proof. exact Pin_C13.src_unchanged. Qed.
