(** C14 -- interval() ticks on a fixed grid, delay() pauses a fixed span, for any body.
    Model: theories/Ticker.v, proofs: theories/TickerProps.v.  Quantified over every start time,
    every period, every list of body durations (no bound on length or size). *)
From Coq Require Import List ZArith Bool Lia.
From Usim Require Import Ticker TickerProps.
Import ListNotations.
Open Scope Z_scope.

(** every tick that happens is at start + (k+1) p, whatever the earlier bodies did *)
Theorem interval_on_grid : forall start p ds l o, 0 <= p ->
  interval_run None start p ds = (l, o) ->
  forall k tk, nth_error l k = Some tk -> tk_time tk = start + (Z.of_nat k + 1) * p.
Proof. exact TickerProps.interval_on_grid. Qed.
Print Assumptions interval_on_grid.

(** the k-th tick happens, on the grid, yielding the current time, as long as every earlier body
    took at most p *)
Theorem interval_grid : forall start p ds l o, 0 <= p ->
  interval_run None start p ds = (l, o) ->
  forall k, (k <= length ds)%nat ->
  (forall j d, (j < k)%nat -> nth_error ds j = Some d -> d <= p) ->
  exists tk, nth_error l k = Some tk /\ tk_time tk = start + (Z.of_nat k + 1) * p /\ tk_value tk = tk_time tk.
Proof. exact TickerProps.interval_grid. Qed.
Print Assumptions interval_grid.

(** IntervalExceeded exactly at the first body longer than p (after k+1 ticks), never otherwise *)
Theorem interval_exceeded_at : forall start p ds l o, 0 <= p ->
  interval_run None start p ds = (l, o) ->
  match first_over p ds with
  | Some k => o = Exceeded /\ length l = S k
  | None => o = Completed /\ length l = S (length ds)
  end.
Proof. exact TickerProps.interval_exceeded_at. Qed.
Print Assumptions interval_exceeded_at.

Theorem interval_exceeded_iff : forall start p ds l o, 0 <= p ->
  interval_run None start p ds = (l, o) ->
  (o = Exceeded <-> Exists (fun d => p < d) ds).
Proof. exact TickerProps.interval_exceeded_iff. Qed.
Print Assumptions interval_exceeded_iff.

(** [first_over] means what it says *)
Theorem first_over_spec : forall p ds k,
  first_over p ds = Some k <->
  (exists d, nth_error ds k = Some d /\ p < d) /\
  (forall j d, (j < k)%nat -> nth_error ds j = Some d -> d <= p).
Proof. exact TickerProps.first_over_spec. Qed.
Print Assumptions first_over_spec.

(** delay: never raises; first tick at start + p; each later tick exactly p after the end of the
    previous body run *)
Theorem delay_span : forall start p ds l o, 0 <= p ->
  delay_run None start p ds = (l, o) ->
  o = Completed /\ length l = S (length ds) /\
  (forall tk, nth_error l 0 = Some tk -> tk_time tk = start + p) /\
  (forall k a b d, nth_error l k = Some a -> nth_error l (S k) = Some b -> nth_error ds k = Some d ->
                   tk_time b = (tk_time a + d) + p).
Proof. exact TickerProps.delay_span. Qed.
Print Assumptions delay_span.

Theorem delay_closed_form : forall start p ds l o, 0 <= p ->
  delay_run None start p ds = (l, o) ->
  forall k tk, nth_error l k = Some tk -> tk_time tk = start + (Z.of_nat k + 1) * p + sum_firstn k ds.
Proof. exact TickerProps.delay_closed_form. Qed.
Print Assumptions delay_closed_form.

Theorem yield_is_now : forall H start p ds l o,
  (interval_run H start p ds = (l, o) \/ delay_run H start p ds = (l, o)) ->
  Forall (fun tk => tk_value tk = tk_time tk) l.
Proof. exact TickerProps.yield_is_now. Qed.
Print Assumptions yield_is_now.

Theorem negative_rejected : forall H start p ds,
  p < 0 -> interval_run H start p ds = ([], ValueErr) /\ delay_run H start p ds = ([], ValueErr).
Proof. exact TickerProps.negative_rejected. Qed.
Print Assumptions negative_rejected.

(** every step postpones or suspends for a positive time: other activities run between iterations *)
Theorem always_yields : forall H start p ds l o, 0 <= p ->
  (interval_run H start p ds = (l, o) \/ delay_run H start p ds = (l, o)) ->
  Forall (fun tk => tk_how tk = Postpone \/ exists r, 0 < r /\ tk_how tk = Suspend r) l.
Proof. exact TickerProps.always_yields. Qed.
Print Assumptions always_yields.

Theorem zero_period_postpones : forall H start ds l o,
  Forall (fun d => 0 <= d) ds ->
  (interval_run H start 0 ds = (l, o) \/ delay_run H start 0 ds = (l, o)) ->
  Forall (fun tk => tk_how tk = Postpone) l.
Proof. exact TickerProps.zero_period_postpones. Qed.
Print Assumptions zero_period_postpones.

(** nested in until(): a prefix of the same ticks; identical when not interrupted *)
Theorem nested_is_prefix : forall H start p ds l o,
  (interval_run H start p ds = (l, o) ->
   exists l' o', interval_run None start p ds = (l ++ l', o') /\ (o <> Interrupted -> l' = [] /\ o' = o)) /\
  (delay_run H start p ds = (l, o) ->
   exists l' o', delay_run None start p ds = (l ++ l', o') /\ (o <> Interrupted -> l' = [] /\ o' = o)).
Proof. exact TickerProps.nested_is_prefix. Qed.
Print Assumptions nested_is_prefix.

(** hypotheses are satisfiable: concrete runs of the model *)
Example interval_run_example :
  run_case (false, None, 3, 5, [2; 5; 0]) = ([(8, 8, 5); (13, 13, 3); (18, 18, 0); (23, 23, 5)], 0).
Proof. exact TickerProps.interval_short_bodies. Qed.
Example interval_exceeded_example :
  run_case (false, None, 0, 5, [2; 6; 1]) = ([(5, 5, 5); (10, 10, 3)], 1).
Proof. exact TickerProps.interval_long_body. Qed.
Example delay_run_example :
  run_case (true, None, 0, 5, [2; 6; 0]) = ([(5, 5, 5); (12, 12, 5); (23, 23, 5); (28, 28, 5)], 0).
Proof. exact TickerProps.delay_bodies. Qed.

(** (A) the tie to /repo's current source: every function this property's models were transcribed from has, in the
    tree this run is checking, the normalised source it had when the models were validated (hashes regenerated from
    /repo into gen/Generated.v on every run; pins in gen/SourcePins.v).  A change to one of them invalidates the
    transcription until it is re-validated. *)
From UsimGen Require SourcePins Pin_C14.
Theorem C14_modelled_source_unchanged : forallb SourcePins.pin_ok Pin_C14.pins = true.
Proof. exact Pin_C14.src_unchanged. Qed.
