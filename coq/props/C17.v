(** C17 - Concurrent[...] handlers select exactly the documented sets of failures.
    Statements only; models in theories/ConcMatch.v, proofs in theories/ConcMatchProps.v.
    [sub] is an arbitrary inheritance relation between plain exception classes. *)
From Coq Require Import List Bool Arith Permutation.
From Usim Require Import ConcMatch ConcMatchProps.
Import ListNotations.

(** the class of a failure depends only on the SET of its children's classes *)
Theorem type_of_children_set : forall l1 l2,
  l1 <> [] -> (forall t, In t (map type_of l1) <-> In t (map type_of l2)) ->
  same (type_of (Node l1)) (type_of (Node l2)) = true.
Proof. exact ConcMatchProps.type_of_children_set. Qed.
Print Assumptions type_of_children_set.

Theorem type_of_children_order_irrelevant : forall l1 l2,
  Permutation l1 l2 -> same (type_of (Node l1)) (type_of (Node l2)) = true.
Proof. exact type_of_children_perm. Qed.
Print Assumptions type_of_children_order_irrelevant.

Theorem type_of_children_multiplicity_irrelevant : forall a l,
  same (type_of (Node (a :: a :: l))) (type_of (Node (a :: l))) = true.
Proof. exact type_of_children_dup. Qed.
Print Assumptions type_of_children_multiplicity_irrelevant.

(** Concurrent(c1, c2, ..) has the class Concurrent[tuple(type(c) for c in children)] *)
Theorem new_is_getitem : forall l, type_of (Node l) = new_type l.
Proof. exact type_of_is_getitem. Qed.
Print Assumptions new_is_getitem.

(** Concurrent[...]: order, multiplicity and the position of `...` in the subscript are irrelevant *)
Theorem getitem_set_only : forall l1 l2,
  (forall i, In i l1 <-> In i l2) -> same (getitem (Tuple l1)) (getitem (Tuple l2)) = true.
Proof. exact getitem_set. Qed.
Print Assumptions getitem_set_only.

(** class identity is an equivalence *)
Theorem same_equivalence :
  (forall t, same t t = true) /\
  (forall a b, same a b = true -> same b a = true) /\
  (forall a b c, same a b = true -> same b c = true -> same a c = true).
Proof. exact (conj same_refl (conj same_sym same_trans)). Qed.
Print Assumptions same_equivalence.

(** equal specialisations are the identical class: in every reachable state of the weak cache, asking
    again for an equal key returns the class created first, as long as that class is alive ... *)
Theorem same_spec_same_class : forall c k1 k2 ops,
  cache_inv c -> key_same k1 k2 = true ->
  (forall o, In o ops -> o <> Evict (snd (get_spec c k1))) ->
  snd (get_spec (crun (fst (get_spec c k1)) ops) k2) = snd (get_spec c k1).
Proof. exact ConcMatchProps.same_spec_same_class. Qed.
Print Assumptions same_spec_same_class.

(** ... and the identical class is only ever returned for an equal key, even across collections *)
Theorem same_class_same_spec : forall c k1 k2 ops,
  cache_inv c ->
  snd (get_spec (crun (fst (get_spec c k1)) ops) k2) = snd (get_spec c k1) ->
  key_same k1 k2 = true.
Proof. exact ConcMatchProps.same_class_same_spec. Qed.
Print Assumptions same_class_same_spec.

Theorem cache_reachable_inv : forall ops, cache_inv (crun empty_cache ops).
Proof. exact reachable_inv. Qed.
Print Assumptions cache_reachable_inv.

(** the matching rule *)
Theorem match_iff_spec : forall sub, (forall a, sub a a = true) ->
  forall children hs hi, children <> [] ->
  (isinstance sub (Node children) (Spec hs hi) = true <->
   (forall s, In s hs -> exists ch, In ch children /\ issub sub (type_of ch) s = true) /\
   (hi = true \/ forall ch, In ch children -> exists s, In s hs /\ issub sub (type_of ch) s = true)).
Proof. exact ConcMatchProps.match_iff_spec. Qed.
Print Assumptions match_iff_spec.

(** ... where a child matches a listed plain class iff it is an instance of a subclass *)
Theorem child_match_plain : forall sub ch s,
  issub sub (type_of ch) (Plain s) = true <-> exists k i, ch = Leaf k i /\ sub k s = true.
Proof. exact ConcMatchProps.child_match_plain. Qed.
Print Assumptions child_match_plain.

(** ... and a listed bare `Concurrent` iff it is a Concurrent *)
Theorem child_match_bare : forall sub ch, issub sub (type_of ch) Bare = is_node ch.
Proof. exact ConcMatchProps.child_match_bare. Qed.
Print Assumptions child_match_bare.

(** the rule one level down: on classes (listed specialised classes are matched by the same rule) *)
Theorem issub_spec_rule : forall sub, (forall a, sub a a = true) ->
  forall cs ci hs hi,
  issub sub (Spec cs ci) (Spec hs hi) = true <->
  (forall s, In s hs -> exists ch, In ch cs /\ issub sub ch s = true) /\
  (hi = true \/ forall ch, In ch cs -> exists s, In s hs /\ issub sub ch s = true).
Proof. exact ConcMatchProps.issub_spec_rule. Qed.
Print Assumptions issub_spec_rule.

Theorem bare_matches_all : forall sub l,
  isinstance sub (Node l) Bare = true /\ except_catches sub (Node l) Bare = true.
Proof. exact ConcMatchProps.bare_matches_all. Qed.
Print Assumptions bare_matches_all.

Theorem ellipsis_allows_extras : forall sub, (forall a, sub a a = true) ->
  forall children extra hs, children <> [] ->
  isinstance sub (Node children) (Spec hs true) = true ->
  isinstance sub (Node (children ++ extra)) (Spec hs true) = true /\
  isinstance sub (Node (extra ++ children)) (Spec hs true) = true.
Proof. exact ConcMatchProps.ellipsis_allows_extras. Qed.
Print Assumptions ellipsis_allows_extras.

Theorem exclusive_rejects_extra : forall sub, (forall a, sub a a = true) ->
  forall children x hs, In x children ->
  (forall s, In s hs -> issub sub (type_of x) s = false) ->
  isinstance sub (Node children) (Spec hs false) = false.
Proof. exact ConcMatchProps.exclusive_rejects_extra. Qed.
Print Assumptions exclusive_rejects_extra.

(** subclasses count, at every depth *)
Theorem subclasses_count : forall sub,
  (forall a, sub a a = true) -> (forall a b c, sub a b = true -> sub b c = true -> sub a c = true) ->
  forall h r r', narrow sub r' r -> issub sub r h = true -> issub sub r' h = true.
Proof. exact ConcMatchProps.subclasses_count. Qed.
Print Assumptions subclasses_count.

(** only the sets matter, in every position (raised failure, handler, nested member, cache key) *)
Theorem spec_order_irrelevant : forall sub, (forall a, sub a a = true) ->
  forall l1 l2 hs1 hs2 hi, l1 <> [] ->
  (forall t, In t (map type_of l1) <-> In t (map type_of l2)) ->
  (forall t, In t hs1 <-> In t hs2) ->
  isinstance sub (Node l1) (Spec hs1 hi) = isinstance sub (Node l2) (Spec hs2 hi)
  /\ (forall h, isinstance sub (Node l1) h = isinstance sub (Node l2) h)
  /\ (forall c, issub sub c (Spec hs1 hi) = issub sub c (Spec hs2 hi))
  /\ (forall c, issub sub c (type_of (Node l1)) = issub sub c (type_of (Node l2)))
  /\ key_same (map type_of l1, false) (map type_of l2, false) = true
  /\ key_same (hs1, hi) (hs2, hi) = true.
Proof. exact spec_set_only. Qed.
Print Assumptions spec_order_irrelevant.

Theorem identical_classes_indistinguishable : forall sub c c' h h', same c c' = true -> same h h' = true -> issub sub c h = issub sub c' h'.
Proof. exact issub_same. Qed.
Print Assumptions identical_classes_indistinguishable.

(** isinstance = issubclass on the type *)
Theorem isinstance_is_issubclass : forall sub, (forall a, sub a a = true) ->
  forall e h, isinstance sub e h = issub sub (type_of e) h.
Proof. exact ConcMatchProps.isinstance_is_issubclass. Qed.
Print Assumptions isinstance_is_issubclass.

(** the real `except` clause (MRO test): sound, agrees on bare / plain / identical handlers, and
    differs from isinstance exactly on the signature of known finding D10 *)
Theorem except_sound : forall sub, (forall a, sub a a = true) ->
  forall e h, except_catches sub e h = true -> isinstance sub e h = true.
Proof. exact ConcMatchProps.except_sound. Qed.
Print Assumptions except_sound.

Theorem except_agrees_partial : forall sub, (forall a, sub a a = true) ->
  forall e h, (match h with Spec _ _ => same (type_of e) h = true | _ => True end) ->
  except_catches sub e h = isinstance sub e h.
Proof. exact ConcMatchProps.except_agrees_partial. Qed.
Print Assumptions except_agrees_partial.

Theorem except_disagrees_iff : forall sub, (forall a, sub a a = true) ->
  forall e h,
  except_catches sub e h <> isinstance sub e h <->
  exists cs ci hs hi, type_of e = Spec cs ci /\ h = Spec hs hi /\
                      same (type_of e) h = false /\ isinstance sub e h = true.
Proof. exact ConcMatchProps.except_disagrees_iff. Qed.
Print Assumptions except_disagrees_iff.

Theorem except_agrees_refuted : forall sub, (forall a, sub a a = true) ->
  exists e h, isinstance sub e h = true /\ except_catches sub e h = false.
Proof. exact ConcMatchProps.except_agrees_refuted. Qed.
Print Assumptions except_agrees_refuted.

(** flattened() *)
Theorem flatten_leaves_in_order : forall l,
  flattened (Node l) = Node (map leaf_exc (leaves (Node l)))
  /\ leaves (flattened (Node l)) = leaves (Node l).
Proof. exact ConcMatchProps.flatten_leaves_in_order. Qed.
Print Assumptions flatten_leaves_in_order.

Theorem flattened_is_flat : forall l ch, In ch (flat_children (Node l)) -> is_node ch = false.
Proof. exact ConcMatchProps.flattened_is_flat. Qed.
Print Assumptions flattened_is_flat.

Theorem flattened_idempotent : forall e, flattened (flattened e) = flattened e.
Proof. exact ConcMatchProps.flattened_idempotent. Qed.
Print Assumptions flattened_idempotent.

Theorem flattened_type : forall l,
  type_of (flattened (Node l)) = new_type (map leaf_exc (leaves (Node l))).
Proof. exact ConcMatchProps.flattened_type. Qed.
Print Assumptions flattened_type.

(** the hypotheses are satisfiable: the hierarchy of the correspondence check is a preorder ... *)
Example hier_is_preorder :
  (forall a, hier_sub a a = true) /\
  (forall a b c, hier_sub a b = true -> hier_sub b c = true -> hier_sub a c = true).
Proof. exact (conj hier_sub_refl hier_sub_trans). Qed.

(** ... and some verdicts on it (0=A 1=B(A) 2=C(B) 3=D 4=E(D) 5=F) *)
Example ex_both : isinstance hier_sub (Node [Leaf 2 0; Leaf 3 1]) (Spec [Plain 3; Plain 0] false) = true.
Proof. vm_compute. reflexivity. Qed.
Example ex_extra_rejected : isinstance hier_sub (Node [Leaf 0 0; Leaf 3 1]) (Spec [Plain 0] false) = false.
Proof. vm_compute. reflexivity. Qed.
Example ex_extra_allowed : isinstance hier_sub (Node [Leaf 0 0; Leaf 3 1]) (Spec [Plain 0] true) = true.
Proof. vm_compute. reflexivity. Qed.
Example ex_nested :
  isinstance hier_sub (Node [Node [Leaf 2 0]; Leaf 5 1]) (Spec [Spec [Plain 1] false; Plain 5] false) = true.
Proof. vm_compute. reflexivity. Qed.
Example ex_d10 :
  except_catches hier_sub (Node [Leaf 0 0; Leaf 3 1]) (Spec [Plain 0] true) = false.
Proof. vm_compute. reflexivity. Qed.
Example ex_flatten :
  leaves (flattened (Node [Node [Leaf 2 0; Node [Leaf 0 1]]; Leaf 3 2])) = [(2, 0); (0, 1); (3, 2)].
Proof. vm_compute. reflexivity. Qed.
Example ex_cache :
  snd (get_spec (fst (get_spec empty_cache ([Plain 0; Plain 1], false))) ([Plain 1; Plain 0; Plain 1], false)) = 0.
Proof. vm_compute. reflexivity. Qed.

(** observation (not part of the property): issubclass is not transitive through a `...` class *)
Theorem issubclass_transitive_refuted :
  exists a b c, issub hier_sub a b = true /\ issub hier_sub b c = true /\ issub hier_sub a c = false.
Proof. exact issub_transitive_refuted. Qed.
Print Assumptions issubclass_transitive_refuted.

(** (A) the tie to /repo's current source: every function this property's models were transcribed from has, in the
    tree this run is checking, the normalised source it had when the models were validated (hashes regenerated from
    /repo into gen/Generated.v on every run; pins in gen/SourcePins.v).  A change to one of them invalidates the
    transcription until it is re-validated. *)
From UsimGen Require SourcePins Pin_C17.
Theorem C17_modelled_source_unchanged : forallb SourcePins.pin_ok Pin_C17.pins = true.
Proof. exact Pin_C17.src_unchanged. Qed.
