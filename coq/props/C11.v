(* C11 -- Channel broadcasts every message to every subscribed consumer, in order, once.
   Statements over ChanProto (theories/ChanProto.v): ALL operation sequences of a fully
   nondeterministic environment, any number of consumers, faults at any suspension point. *)
Require Import ZArith List Bool.
Import ListNotations.
From Usim Require Import ChanProto ChanProtoProps.

Theorem broadcast_exact : forall s c,
  reachable s -> In c (conss s) -> registered c = true ->
  crecv c ++ cbuf c = skipn (csub c) (puts s).
Proof. exact broadcast_exact_thm. Qed.
Print Assumptions broadcast_exact.

Theorem received_prefix : forall s c,
  reachable s -> In c (conss s) -> exists rest, crecv c ++ rest = skipn (csub c) (puts s).
Proof. exact received_prefix_thm. Qed.
Print Assumptions received_prefix.

Theorem sleeping_has_nothing : forall s c,
  reachable s -> In c (conss s) -> cph c = Waiting ->
  cbuf c = [] /\ closed s = false /\ crecv c = skipn (csub c) (puts s).
Proof. exact sleeping_has_nothing_thm. Qed.
Print Assumptions sleeping_has_nothing.

Theorem woken_has_reason : forall s c,
  reachable s -> In c (conss s) -> cph c = Woken -> cbuf c <> [] \/ closed s = true.
Proof. exact woken_has_reason_thm. Qed.
Print Assumptions woken_has_reason.

Theorem isolation : forall s o i j,
  actor o = Some i -> j <> i ->
  find j (conss (fst (step s o))) = find j (conss s) /\
  closed (fst (step s o)) = closed s /\ puts (fst (step s o)) = puts s.
Proof. exact isolation_thm. Qed.
Print Assumptions isolation.

Theorem independence : forall j tr s1 s2, view j s1 = view j s2 ->
  view j (run s1 tr) = view j (run s2 (filter (relevant j) tr)).
Proof. exact independence_thm. Qed.
Print Assumptions independence.

Theorem independence_outs : forall j tr s1 s2, view j s1 = view j s2 ->
  outs_of j s1 tr = outs_of j s2 (filter (relevant j) tr).
Proof. exact independence_outs_thm. Qed.
Print Assumptions independence_outs.

Theorem single_get_first : forall s c,
  reachable s -> In c (conss s) -> ckind c = Single -> cph c = Done ->
  match cout c with
  | OGot x => crecv c = [x] /\ nth_error (puts s) (csub c) = Some x
  | OClosed => crecv c = [] /\ closed s = true /\ skipn (csub c) (puts s) = []
  | OFault => crecv c = []
  | _ => False
  end.
Proof. exact single_get_first_thm. Qed.
Print Assumptions single_get_first.

Theorem close_then_end : forall s c,
  reachable s -> In c (conss s) -> cout c = OEnded ->
  ckind c = Iter /\ closed s = true /\ crecv c = skipn (csub c) (puts s).
Proof. exact close_then_end_thm. Qed.
Print Assumptions close_then_end.

Theorem closed_rejects : forall s, closed s = true ->
  (forall x, step s (Put x) = (s, RRaised)) /\
  step s Close = (s, RNone) /\
  (forall i, find i (conss s) = None -> snd (step s (Sub i Single)) = RRaised) /\
  (forall i, find i (conss s) = None -> snd (step s (Sub i Iter)) = REnded) /\
  (forall o, closed (fst (step s o)) = true /\ puts (fst (step s o)) = puts s).
Proof. exact closed_rejects_thm. Qed.
Print Assumptions closed_rejects.

Theorem closed_drains : forall s c i, closed s = true ->
  find i (conss s) = Some c -> ckind c = Iter ->
  (cph c = Woken ->
     snd (step s (Resume i)) = match cbuf c with x :: _ => RYield x | [] => REnded end) /\
  (cph c = Body ->
     snd (step s (Next i)) = match cbuf c with _ :: _ => RPostpone | [] => REnded end) /\
  (cph c = Postponed ->
     snd (step s (Resume i)) = match cbuf c with x :: _ => RYield x | [] => RError end).
Proof. exact closed_drains_thm. Qed.
Print Assumptions closed_drains.

Theorem postponed_has_message : forall s c,
  reachable s -> In c (conss s) -> cph c = Postponed -> cbuf c <> [].
Proof. exact postponed_has_message_thm. Qed.
Print Assumptions postponed_has_message.

(* ---- the hypotheses are satisfiable: a run with an early iterating consumer (0), a late
   one (1), a single get (2) that is cancelled, a slow consumer, close with pending messages *)
Example demo_outs : run_outs init demo =
  [RSleep; RNone; RSleep; RSleep; RNone; RRaised; RYield 10%Z; RNone; RNone;
   RPostpone; RYield 11%Z; RYield 11%Z; RPostpone; RPostpone; RYield 12%Z; RYield 12%Z; REnded;
   RNone; RNone].
Proof. vm_compute. reflexivity. Qed.

Example demo_received :
  map (fun c => (cid c, crecv c, cout c)) (conss (run init demo)) =
  [(0, [10; 11; 12]%Z, OEnded); (1, [11; 12]%Z, OLeft); (2, [], OFault)].
Proof. vm_compute. reflexivity. Qed.

Example demo_put_after_close : snd (step (run init demo) (Put 13)) = RRaised.
Proof. vm_compute. reflexivity. Qed.

(* erasing consumers 1 and 2 from the run changes nothing for consumer 0 *)
Example demo_independent :
  view 0 (run init demo) = view 0 (run init (filter (relevant 0) demo)) /\
  length (filter (relevant 0) demo) = 11.
Proof. vm_compute. split; reflexivity. Qed.

(* a signal during the postponement before the pop: the victim is gone, nobody else is touched *)
Example demo_fault_in_postponement :
  let s := run init [Sub 0 Iter; Sub 1 Iter; Put 1; Put 2; Resume 0; Resume 1; Next 0; Fault 0; Next 1; Resume 1] in
  map (fun c => (cid c, cph c, crecv c, cout c)) (conss s) =
  [(0, Done, [1]%Z, OFault); (1, Body, [1; 2]%Z, ONone)] /\ proj s = (false, [[]]).
Proof. vm_compute. split; reflexivity. Qed.

(** (A) the tie to /repo's current source: every function this property's models were transcribed from has, in the
    tree this run is checking, the normalised source it had when the models were validated (hashes regenerated from
    /repo into gen/Generated.v on every run; pins in gen/SourcePins.v).  A change to one of them invalidates the
    transcription until it is re-validated. *)
From UsimGen Require SourcePins Pin_C11.
Theorem C11_modelled_source_unchanged : forallb SourcePins.pin_ok Pin_C11.pins = true.
Proof. exact Pin_C11.src_unchanged. Qed.
