(* C07 -- until(n) ends the block exactly when the notification fires, else never.
   Statements over ScopeProto with kind Until: conditional on the label Fire (= the notification's
   __awake_all__ reaches this subscription) or on "true on entry" (Condition.__subscribe__).
   WHICH notifications ever fire is not part of this model (known finding D4b: a connective that is
   false on entry is never triggered). *)
Require Import List Bool Arith.
Import ListNotations.
From Usim Require Import ScopeProto ScopeProtoProps.

Theorem C07_fire_schedules : forall s, intr s = Subscribed ->
  step s Fire = Some (set_fired (set_intr IScheduled s)).
Proof. exact fire_schedules_thm. Qed.
Print Assumptions C07_fire_schedules.

(* a scheduled interrupt: the block is still active, it was scheduled in the current time step, time cannot
   advance before it is consumed, and its delivery is enabled right now *)
Theorem C07_scheduled_now : forall k s, reachable k s -> intr s = IScheduled ->
  active (ph s) = true /\ fired_at s = Some (now s) /\ step s Tick = None /\
  step s DeliverInterrupt = Some (set_intr IDelivered (enter_closing COwnInterrupt s)).
Proof. exact scheduled_now_thm. Qed.
Print Assumptions C07_scheduled_now.

(* whatever happens after the trigger (delivery, or another exit cause winning the race):
   the block is left in the time step of the trigger *)
Theorem C07_exit_same_step : forall k s t, reachable k s -> fired_at s = Some t ->
  (isexited (ph s) = false /\ now s = t) \/ (exists c o, ph s = Exited c o /\ exited_at s = Some t).
Proof. exact exit_same_step_thm. Qed.
Print Assumptions C07_exit_same_step.

(* after delivery no body code runs any more, the only way on is _close_scope and the exit, at the
   time of the trigger, with the until-interrupt as cause *)
Theorem C07_until_exit_no_later_than_trigger : forall k s s1 ls s2, reachable k s ->
  step s DeliverInterrupt = Some s1 -> run s1 ls = Some s2 ->
  fired_at s = Some (now s) /\ bsteps s2 = bsteps s /\
  ((isexited (ph s2) = false /\ now s2 = now s /\ ph s2 = Closing COwnInterrupt) \/
   (exists o, ph s2 = Exited COwnInterrupt o /\ exited_at s2 = Some (now s))).
Proof. exact until_exit_thm. Qed.
Print Assumptions C07_until_exit_no_later_than_trigger.

Theorem C07_until_no_raise : forall k s c o, reachable k s -> ph s = Exited c o ->
  c = CGraceful \/ c = COwnCancel \/ c = COwnInterrupt ->
  o = (if existsb isfailed (kids s) then ChildExc else NoExc) /\
  ((forall x, In x (kids s) -> st x <> Done Failed) -> o = NoExc).
Proof. exact until_no_raise_thm. Qed.
Print Assumptions C07_until_no_raise.

Theorem C07_until_closes_children : forall k s c o, reachable k s -> ph s = Exited c o ->
  Forall (fun x => isdone x = true) (kids s) /\
  (forall i, step s (ChildStart i) = None /\ step s (ChildStep i) = None /\ step s (ChildReturn i) = None /\
             step s (ChildFail i) = None /\ step s (ChildCancel i) = None /\
             forall d, step s (CloseChild i d) = None) /\
  (forall v, step s (Spawn v) = Some (set_kids (kids s ++ [refused v]) s)) /\
  (forall ls s', run s ls = Some s' ->
     ph s' = Exited c o /\ cwork s' = cwork s /\ bsteps s' = bsteps s /\ frame (kids s) (kids s')).
Proof. exact contained_thm. Qed.
Print Assumptions C07_until_closes_children.

(* once _close_scope has begun (any cause, incl. body and children finishing first) the interrupt is
   unsubscribed / revoked / consumed for good: never deliverable, a later Fire has no effect *)
Theorem C07_until_inert_after : forall k s ls s', reachable k s -> active (ph s) = false ->
  run s ls = Some s' ->
  active (ph s') = false /\ inert (intr s') = true /\ step s' DeliverInterrupt = None /\ step s' Fire = None.
Proof. exact until_inert_after_thm. Qed.
Print Assumptions C07_until_inert_after.

Theorem C07_already_true_on_entry :
  intr (init (Until true)) = IScheduled /\ fired_at (init (Until true)) = Some 0 /\
  step (init (Until true)) Tick = None /\
  exists s', step (init (Until true)) DeliverInterrupt = Some s' /\ ph s' = Closing COwnInterrupt /\ bsteps s' = 0.
Proof. exact already_true_on_entry_thm. Qed.
Print Assumptions C07_already_true_on_entry.

(* non-vacuity *)
Example C07_ex_trigger : exists s, reachable (Until false) s /\ ph s = Exited COwnInterrupt NoExc /\
  fired_at s = Some 1 /\ exited_at s = Some 1 /\ intr s = IDelivered.
Proof.
  destruct (run (init (Until false)) ex_until) as [s|] eqn:E; [|vm_compute in E; discriminate].
  exists s. split; [eapply reachable_of_run; eauto|]. vm_compute in E. inversion E. auto.
Qed.
Example C07_ex_completion_first : exists s, reachable (Until false) s /\ ph s = Exited CGraceful NoExc /\
  intr s = IRevoked /\ fired_at s = Some 0 /\ exited_at s = Some 0.
Proof.
  destruct (run (init (Until false)) ex_race) as [s|] eqn:E; [|vm_compute in E; discriminate].
  exists s. split; [eapply reachable_of_run; eauto|]. vm_compute in E. inversion E. auto.
Qed.

(** (A) the tie to /repo's current source: every function this property's models were transcribed from has, in the
    tree this run is checking, the normalised source it had when the models were validated (hashes regenerated from
    /repo into gen/Generated.v on every run; pins in gen/SourcePins.v).  A change to one of them invalidates the
    transcription until it is re-validated. *)
From UsimGen Require SourcePins Pin_C07.
Theorem C07_modelled_source_unchanged : forallb SourcePins.pin_ok Pin_C07.pins = true.
Proof. exact Pin_C07.src_unchanged. Qed.

(** ** known finding D4b: for a connective that is false on entry the notification never fires; witness on the faithful
    machine (the implementation shows the same trace): flag0 is set at time 1, the block is left at 5 *)
From Coq Require Import ZArith.
From Usim Require Refuted.
Theorem C07_until_fires_for_every_notification_refuted :
  exists s, In [1; 1; 4]%Z (Scenario.run_scenario 6000 200000 s) /\ In [5; 1; 2]%Z (Scenario.run_scenario 6000 200000 s) /\
            In [5; 1; 3]%Z (Scenario.run_scenario 6000 200000 s).
Proof. exact Refuted.until_connective_never_fires_refuted. Qed.
Print Assumptions C07_until_fires_for_every_notification_refuted.
