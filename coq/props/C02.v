(** C02 -- The trace is a function of the program alone (deterministic FIFO turn order). *)
From Coq Require Import ZArith List Sorted Bool.
From Coq Require String.
From Usim Require Import XTime Tables Kernel KernelProps Machine MachineProps Scenario ScenarioProps WaitQ.
From UsimGen Require Import Generated GeneratedProps.
Import ListNotations.

(** activities that become runnable for the same time run in the order in which they were made runnable
    (the order of the [schedule] calls), for ARBITRARY clients of the kernel; no activation runs twice *)
Theorem C02_fifo_turn_order :
  forall (S : Type) (client : S -> loop -> activation -> S * list kop) n st l,
    inv l -> StronglySorted (ev_lt) (kexec S client n st l).
Proof. exact exec_sorted. Qed.
Print Assumptions C02_fifo_turn_order.

(** ... and for every scenario program on the whole-program machine *)
Theorem C02_scenarios_fifo :
  forall s fuel n, StronglySorted ev_lt (mtrace n fuel (init_state s)).
Proof. exact scenario_exec_sorted. Qed.
Print Assumptions C02_scenarios_fifo.

(** the model is a function: one trace per program (this is definitional for the model; that the
    implementation agrees with this one trace under every configuration is checked by differential
    execution on every run) *)
Theorem C02_model_trace_is_a_function :
  forall steps fuel s t1 t2, run_scenario steps fuel s = t1 -> run_scenario steps fuel s = t2 -> t1 = t2.
Proof. intros steps fuel s t1 t2 H1 H2. exact (eq_trans (eq_sym H1) H2). Qed.
Print Assumptions C02_model_trace_is_a_function.

(** (A) regenerated from /repo on this run: no loop or comprehension in usim/** iterates over a set,
    frozenset or WeakSet, except the whitelisted specialisation key of Concurrent (order irrelevant: C17) *)
Theorem C02_no_unordered_iteration :
  forallb (fun s => existsb (String.eqb s) model_unordered_whitelist) gen_unordered_iterations = true.
Proof. exact iterations_ordered. Qed.
Print Assumptions C02_no_unordered_iteration.

(** both wait-queue back ends (USIM_WAITQUEUE: heapq+dict, SortedDict) behave identically: for EVERY sequence of
    push/pop operations they return the same (key, bucket) for every pop and the same truth value; both refine the
    abstract queue the kernel model uses.  Assumed contracts: heappop removes a minimum, popitem(0) the smallest key *)
Theorem C02_backends_equivalent : forall ops, hq_run ops hq_empty = sd_run ops sd_empty.
Proof. exact hq_sd_equiv. Qed.
Print Assumptions C02_backends_equivalent.

Theorem C02_heap_backend_refines_kernel_queue :
  forall k v h f, R h f -> R (hq_push k v h) (wq_push k v f).
Proof. exact hq_push_refines. Qed.
Theorem C02_heap_backend_pop_refines :
  forall h f, R h f ->
    match f with [] => hq_pop h = None | (k, b) :: f' => exists h', hq_pop h = Some (k, b, h') /\ R h' f' end.
Proof. exact hq_pop_refines. Qed.
Print Assumptions C02_heap_backend_pop_refines.

(** The waiter list of a Notification (subscribe / unsubscribe / awake_next / awake_all, WaiterList.v - compared on every
    run with the real Notification driven under a stand-in loop): for EVERY history of operations, what has been scheduled
    followed by what still waits is a subsequence of the subscriptions in the order in which they were made - waking is
    FIFO, nobody is woken who did not subscribe; awake_all wakes everybody, oldest first; awake_next the oldest only;
    unsubscribing removes exactly that pair. *)
From Usim Require WaiterList.
Theorem C02_waiters_are_woken_in_subscription_order :
  forall ops, WaiterList.subseq (WaiterList.scheduled (WaiterList.run ops) ++ WaiterList.waiting (WaiterList.run ops))
                                (WaiterList.all_subs ops).
Proof. exact WaiterList.scheduled_in_subscription_order. Qed.
Print Assumptions C02_waiters_are_woken_in_subscription_order.

(** ... and nobody is woken twice: with a token of its own per subscription (they are fresh Interrupt objects) no pair
    occurs twice among the scheduled and the waiting ones, for every history *)
Theorem C02_nobody_woken_twice :
  forall ops, NoDup (WaiterList.all_subs ops) ->
    NoDup (WaiterList.scheduled (WaiterList.run ops) ++ WaiterList.waiting (WaiterList.run ops)).
Proof. exact WaiterList.nobody_woken_twice. Qed.
Print Assumptions C02_nobody_woken_twice.

(** ... and nobody is lost: every subscriber of a history still waits, or has been scheduled, or withdrew itself *)
Theorem C02_no_waiter_is_lost :
  forall ops p, In p (WaiterList.all_subs ops) ->
    WaiterList.accounted (WaiterList.run ops) p \/ In p (WaiterList.unsubs_of ops).
Proof. exact WaiterList.nobody_is_lost. Qed.
Print Assumptions C02_no_waiter_is_lost.

Theorem C02_awake_all_wakes_everybody_oldest_first :
  forall ops, WaiterList.waiting (WaiterList.run (ops ++ [WaiterList.AwakeAll])) = [] /\
    WaiterList.scheduled (WaiterList.run (ops ++ [WaiterList.AwakeAll])) =
    WaiterList.scheduled (WaiterList.run ops) ++ WaiterList.waiting (WaiterList.run ops).
Proof. exact WaiterList.awake_all_wakes_everybody. Qed.
Print Assumptions C02_awake_all_wakes_everybody_oldest_first.

Theorem C02_awake_next_wakes_the_oldest_only :
  forall ops p r, WaiterList.waiting (WaiterList.run ops) = p :: r ->
    WaiterList.waiting (WaiterList.run (ops ++ [WaiterList.AwakeNext])) = r /\
    WaiterList.scheduled (WaiterList.run (ops ++ [WaiterList.AwakeNext])) = WaiterList.scheduled (WaiterList.run ops) ++ [p].
Proof. exact WaiterList.awake_next_wakes_the_oldest. Qed.
Print Assumptions C02_awake_next_wakes_the_oldest_only.

Theorem C02_unsubscribe_removes_exactly_that_pair :
  forall ops w t l, WaiterList.is_scheduled (WaiterList.run ops) t = false ->
    WaiterList.remove_first (w, t) (WaiterList.waiting (WaiterList.run ops)) = Some l ->
    WaiterList.waiting (WaiterList.run (ops ++ [WaiterList.Unsub w t])) = l /\
    WaiterList.scheduled (WaiterList.run (ops ++ [WaiterList.Unsub w t])) = WaiterList.scheduled (WaiterList.run ops) /\
    WaiterList.subseq l (WaiterList.waiting (WaiterList.run ops)) /\
    length (WaiterList.waiting (WaiterList.run ops)) = S (length l).
Proof. exact WaiterList.unsubscribe_removes_exactly_that_pair. Qed.
Print Assumptions C02_unsubscribe_removes_exactly_that_pair.

(** (A) the tie to /repo's current source: every function this property's models were transcribed from has, in the
    tree this run is checking, the normalised source it had when the models were validated (hashes regenerated from
    /repo into gen/Generated.v on every run; pins in gen/SourcePins.v).  A change to one of them invalidates the
    transcription until it is re-validated. *)
From UsimGen Require SourcePins Pin_C02.
Theorem C02_modelled_source_unchanged : forallb SourcePins.pin_ok Pin_C02.pins = true.
Proof. exact Pin_C02.src_unchanged. Qed.
