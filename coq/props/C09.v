(* C09 - Lock: mutual exclusion, re-entrancy, FIFO hand-off, always released.
   Statements over ALL reachable states of LockProto (any number of activities, any interleaving of
   requests, wake-up deliveries, exits, and foreign signals - cancel / until-interrupt / close - at any
   waiter, designated or not).  Proofs in theories/LockProtoProps.v. *)
From Coq Require Import List Arith Sorting.Sorted.
From Usim Require Import LockProto LockProtoProps.
Import ListNotations.

Theorem C09_mutex : forall s, reachable s -> forall a b n m,
  ph s a = Inside n -> ph s b = Inside m -> a = b /\ owner s = Some a.
Proof. exact mutex. Qed.
Print Assumptions C09_mutex.

Theorem C09_reentrant_depth : forall s, reachable s -> forall a n,
  ph s a = Inside n -> owner s = Some a /\ depth s = n /\ 1 <= n.
Proof. exact reentrant_depth. Qed.
Print Assumptions C09_reentrant_depth.

Theorem C09_reenter_immediate : forall s a n, reachable s -> ph s a = Inside n ->
  exists s', step s (Request a) = Some s' /\ ph s' a = Inside (S n) /\ owner s' = Some a /\
             depth s' = S n /\ waiting s' = waiting s.
Proof. exact reenter_immediate. Qed.
Print Assumptions C09_reenter_immediate.

Theorem C09_exit_inner_keeps : forall s a n s', reachable s -> ph s a = Inside (S (S n)) ->
  step s (Exit a) = Some s' ->
  owner s' = Some a /\ ph s' a = Inside (S n) /\ depth s' = S n /\ waiting s' = waiting s.
Proof. exact exit_inner_keeps. Qed.
Print Assumptions C09_exit_inner_keeps.

Theorem C09_handoff_on_exit : forall s a s', reachable s -> ph s a = Inside 1 ->
  step s (Exit a) = Some s' ->
  ph s' a = Idle /\ owner s' = hd_error (waiting s) /\ depth s' = 0 /\
  woken s' = match waiting s with [] => [] | b :: _ => [b] end /\ waiting s' = tl (waiting s).
Proof. exact exit_outermost_hands_off. Qed.
Print Assumptions C09_handoff_on_exit.

Theorem C09_handoff_on_signal_at_designated : forall s a s', reachable s -> ph s a = Waiting ->
  owner s = Some a -> step s (DeliverForeign a) = Some s' ->
  ph s' a = Idle /\ owner s' = hd_error (waiting s) /\ depth s' = 0 /\
  woken s' = match waiting s with [] => [] | b :: _ => [b] end /\ waiting s' = tl (waiting s).
Proof. exact foreign_designated_hands_off. Qed.
Print Assumptions C09_handoff_on_signal_at_designated.

Theorem C09_signal_at_waiter_withdraws : forall s a s', reachable s -> ph s a = Waiting ->
  owner s <> Some a -> step s (DeliverForeign a) = Some s' ->
  ph s' a = Idle /\ owner s' = owner s /\ depth s' = depth s /\ woken s' = woken s /\
  waiting s' = rem1 a (waiting s) /\ ~ In a (waiting s').
Proof. exact foreign_waiter_leaves. Qed.
Print Assumptions C09_signal_at_waiter_withdraws.

Theorem C09_free_iff_idle : forall s, reachable s -> (owner s = None <-> forall a, ph s a = Idle).
Proof. exact free_iff_idle. Qed.
Print Assumptions C09_free_iff_idle.

Theorem C09_owner_can_move : forall s o, reachable s -> owner s = Some o ->
  (exists n, ph s o = Inside (S n) /\ step s (Exit o) <> None) \/
  (ph s o = Waiting /\ In o (woken s) /\ step s (DeliverWake o) <> None).
Proof. exact owner_can_move. Qed.
Print Assumptions C09_owner_can_move.

Theorem C09_available_spec : forall s a, reachable s -> ph s a <> Waiting ->
  (available s a = true <-> (forall b, ph s b = Idle) \/ inside s a).
Proof. exact available_spec. Qed.
Print Assumptions C09_available_spec.

Theorem C09_available_predicts_request : forall s a s', reachable s ->
  step s (Request a) = Some s' ->
  (available s a = true -> inside s' a) /\ (available s a = false -> ph s' a = Waiting).
Proof. exact available_predicts_request. Qed.
Print Assumptions C09_available_predicts_request.

Theorem C09_fifo_grant : forall s, reachable s ->
  StronglySorted lt (grants s ++ map (tick s) (pendq s)) /\
  Forall (fun t => t < ntick s) (grants s ++ map (tick s) (pendq s)).
Proof. exact fifo_grant. Qed.
Print Assumptions C09_fifo_grant.

Theorem C09_ticket_fresh : forall s a s', step s (Request a) = Some s' -> ph s a = Idle ->
  tick s' a = ntick s /\ ntick s' = S (ntick s) /\ (forall b, b <> a -> tick s' b = tick s b).
Proof. exact ticket_fresh. Qed.
Print Assumptions C09_ticket_fresh.

Theorem C09_grant_is_oldest : forall s t s', reachable s -> step s t = Some s' ->
  (gets_inside s s' (actor t) ->
     grants s' = grants s ++ [tick s' (actor t)] /\
     ((pendq s = actor t :: pendq s') \/ (pendq s = [] /\ pendq s' = [] /\ t = Request (actor t)))) /\
  (~ gets_inside s s' (actor t) -> grants s' = grants s).
Proof. exact grant_is_oldest. Qed.
Print Assumptions C09_grant_is_oldest.

Theorem C09_unsubscribe_safe : forall s a, reachable s -> ph s a = Waiting ->
  (In a (woken s) /\ ~ In a (waiting s)) \/ (In a (waiting s) /\ ~ In a (woken s)).
Proof. exact unsubscribe_safe. Qed.
Print Assumptions C09_unsubscribe_safe.

Theorem C09_enabled_by_phase : forall s a, reachable s ->
  match ph s a with
  | Idle => step s (Request a) <> None
  | Waiting => step s (DeliverForeign a) <> None
  | Inside n => step s (Request a) <> None /\ step s (Exit a) <> None
  end.
Proof. exact enabled_by_phase. Qed.
Print Assumptions C09_enabled_by_phase.

(* the hypotheses are satisfiable: three contenders, a re-entry, a cancelled waiter, hand-off *)
Example C09_ex_run :
  option_map project
    (run init [Request 0; Request 1; Request 2; Request 0; DeliverForeign 1; Exit 0; Exit 0])
  = Some (3, 0, [], [2]).
Proof. reflexivity. Qed.

Example C09_ex_reachable : exists s, reachable s /\ owner s = Some 2 /\ ph s 2 = Waiting.
Proof.
  destruct (run init [Request 0; Request 1; Request 2; Request 0; DeliverForeign 1; Exit 0; Exit 0])
    as [s|] eqn:E; [|discriminate].
  exists s. split.
  - eapply run_reachable; [apply reach_init | exact E].
  - cbv in E. injection E as <-. split; reflexivity.
Qed.

(** (A) the tie to /repo's current source: every function this property's models were transcribed from has, in the
    tree this run is checking, the normalised source it had when the models were validated (hashes regenerated from
    /repo into gen/Generated.v on every run; pins in gen/SourcePins.v).  A change to one of them invalidates the
    transcription until it is re-validated. *)
From UsimGen Require SourcePins Pin_C09.
Theorem C09_modelled_source_unchanged : forallb SourcePins.pin_ok Pin_C09.pins = true.
Proof. exact Pin_C09.src_unchanged. Qed.

(** ** link to the whole-program machine (LockLink.v): under an explicit relation [link] between the machine's object
    state and a protocol state, every atomic section of the machine's lock code is a protocol transition (by symbolic
    execution of [exec] for an arbitrary machine state, stack and continuation), so the protocol invariants hold of
    the machine's lock objects *)
From Usim Require LockLink.
Theorem C09_machine_mutex :
  forall o l wk s, LockLink.link o l wk s -> LockProto.reachable s ->
    forall a b n m, LockProto.ph s a = LockProto.Inside n -> LockProto.ph s b = LockProto.Inside m ->
      a = b /\ Machine.l_owner (Lib.get_lock o l) = Some a /\
      Machine.l_depth (Lib.get_lock o l) = BinInt.Z.of_nat n /\ 1 <= n.
Proof. exact LockLink.machine_mutex. Qed.
Theorem C09_machine_free_iff_idle :
  forall o l wk s, LockLink.link o l wk s -> LockProto.reachable s ->
    (Machine.l_owner (Lib.get_lock o l) = None <-> (forall a, LockProto.ph s a = LockProto.Idle)).
Proof. exact LockLink.machine_free_iff_idle. Qed.
Theorem C09_machine_exit_is_protocol_exit :
  forall o l wk s a n, LockLink.link o l wk s -> LockProtoProps.inv s -> LockProto.ph s a = LockProto.Inside (S n) ->
    exists s', LockProto.step s (LockProto.Exit a) = Some s' /\ LockLink.link (LockLink.sec_exit o l) l wk s'.
Proof. exact LockLink.sim_exit. Qed.
Print Assumptions C09_machine_mutex.
Print Assumptions C09_machine_exit_is_protocol_exit.
