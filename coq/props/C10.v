(* C10 - Queue delivers every accepted item exactly once, in order, to waiters in order.
   Statements over ALL reachable states of QueueProto (any number of producers and receivers, any
   interleaving of put / close / get phases, and a foreign signal - cancel / until-interrupt / close -
   at any suspension point of any receiver; a signal at a producer's only suspension point, the
   postponement after the append, does not touch the queue).  Proofs in theories/QueueProtoProps.v. *)
From Coq Require Import List Arith Sorting.Sorted.
From Usim Require Import LockProto LockProtoProps QueueProto QueueProtoProps.
Import ListNotations.

Theorem C10_exactly_once : forall q, qreachable q -> accepted q = map snd (delivered q) ++ buf q.
Proof. exact exactly_once. Qed.
Print Assumptions C10_exactly_once.

Theorem C10_order : forall q, qreachable q ->
  map snd (delivered q) = firstn (length (delivered q)) (accepted q).
Proof. exact order. Qed.
Print Assumptions C10_order.

(* what every step does to buffer / accepted / delivered, classified by what the caller sees;
   `ORaised` is the fault case: nothing but the receiver's phase changes; `OCrash` never happens *)
Theorem C10_step_spec : forall q t q' o, qreachable q -> qstep q t = Some (q', o) ->
  match o with
  | OGot x =>
      exists r, receiver_of t = Some r /\ buf q = x :: buf q' /\
                delivered q' = delivered q ++ [(r, x)] /\
                served q' = served q ++ [tick (mutex q) r] /\
                accepted q' = accepted q /\ closed q' = closed q
  | OClosed =>
      closed q = true /\ closed q' = true /\ buf q' = buf q /\ accepted q' = accepted q /\
      delivered q' = delivered q /\ (receiver_of t <> None -> buf q = [])
  | ORaised =>
      exists r, t = Foreign r /\ rph q' r = RIdle /\ buf q' = buf q /\ closed q' = closed q /\
                accepted q' = accepted q /\ delivered q' = delivered q
  | ONone =>
      delivered q' = delivered q /\
      match t with
      | Put x => closed q = false /\ buf q' = buf q ++ [x] /\ accepted q' = accepted q ++ [x] /\
                 closed q' = false
      | Close => closed q' = true /\ buf q' = buf q /\ accepted q' = accepted q
      | _ => buf q' = buf q /\ closed q' = closed q /\ accepted q' = accepted q
      end
  | OCrash => False
  end.
Proof. exact step_spec. Qed.
Print Assumptions C10_step_spec.

Theorem C10_fault_possible_everywhere : forall q r, qreachable q -> rph q r <> RIdle ->
  exists q', qstep q (Foreign r) = Some (q', ORaised).
Proof. exact foreign_enabled. Qed.
Print Assumptions C10_fault_possible_everywhere.

Theorem C10_receivers_fifo : forall q, qreachable q -> StronglySorted lt (served q).
Proof. exact receivers_fifo. Qed.
Print Assumptions C10_receivers_fifo.

Theorem C10_get_draws_ticket : forall q r q' o, qreachable q -> qstep q (Get r) = Some (q', o) ->
  tick (mutex q') r = ntick (mutex q) /\ ntick (mutex q') = S (ntick (mutex q)) /\
  Forall (fun t => t < ntick (mutex q)) (served q).
Proof. exact get_draws_ticket. Qed.
Print Assumptions C10_get_draws_ticket.

Theorem C10_receivers_exclusive : forall q, qreachable q -> forall r r',
  (rph q r = RPostpone \/ rph q r = RWaitItem) -> (rph q r' = RPostpone \/ rph q r' = RWaitItem) ->
  r = r'.
Proof. exact receivers_exclusive. Qed.
Print Assumptions C10_receivers_exclusive.

Theorem C10_close_drains_then_raises : forall q t q' o, qreachable q -> closed q = true ->
  qstep q t = Some (q', o) ->
  accepted q' = accepted q /\ closed q' = true /\
  (receiver_of t <> None -> o = OClosed -> buf q = [] /\ buf q' = []) /\
  (forall x, o = OGot x -> buf q = x :: buf q') /\
  (buf q <> [] -> o <> OClosed \/ receiver_of t = None).
Proof. exact close_drains_then_raises. Qed.
Print Assumptions C10_close_drains_then_raises.

Theorem C10_no_lost_wakeup : forall q r, qreachable q -> rph q r = RWaitItem ->
  (buf q <> [] \/ closed q = true) ->
  In r (nwoken q) /\ exists q' o, qstep q (ItemWake r) = Some (q', o).
Proof. exact no_lost_wakeup. Qed.
Print Assumptions C10_no_lost_wakeup.

Theorem C10_postponed_gets_item : forall q r, qreachable q -> rph q r = RPostpone ->
  exists x q', qstep q (PostponeDone r) = Some (q', OGot x) /\ buf q = x :: buf q'.
Proof. exact postponed_gets_item. Qed.
Print Assumptions C10_postponed_gets_item.

Theorem C10_put_closed_rejected : forall q x, closed q = true -> qstep q (Put x) = Some (q, OClosed).
Proof. exact put_closed_rejected. Qed.
Print Assumptions C10_put_closed_rejected.

Theorem C10_put_open_accepted : forall q x, closed q = false ->
  exists q', qstep q (Put x) = Some (q', ONone) /\ buf q' = buf q ++ [x] /\
             accepted q' = accepted q ++ [x].
Proof. exact put_open_accepted. Qed.
Print Assumptions C10_put_open_accepted.

Theorem C10_get_enabled : forall q r, qreachable q -> rph q r = RIdle ->
  exists q' o, qstep q (Get r) = Some (q', o).
Proof. exact get_enabled. Qed.
Print Assumptions C10_get_enabled.

(* hypotheses are satisfiable: receiver 0 is woken for item 7 and cancelled before it resumes; the
   item stays and goes to receiver 1; after close, StreamClosed *)
Example C10_ex_cancel_after_wake :
  option_map snd (qrun qinit [Get 0; Get 1; Put 7; Foreign 0; MutexWake 1; PostponeDone 1; Close;
                              Put 8; Get 0])
  = Some [ONone; ONone; ONone; ORaised; ONone; OGot 7; ONone; OClosed; OClosed].
Proof. reflexivity. Qed.

(** (A) the tie to /repo's current source: every function this property's models were transcribed from has, in the
    tree this run is checking, the normalised source it had when the models were validated (hashes regenerated from
    /repo into gen/Generated.v on every run; pins in gen/SourcePins.v).  A change to one of them invalidates the
    transcription until it is re-validated. *)
From UsimGen Require SourcePins Pin_C10.
Theorem C10_modelled_source_unchanged : forallb SourcePins.pin_ok Pin_C10.pins = true.
Proof. exact Pin_C10.src_unchanged. Qed.

(** ** link to the whole-program machine (QueueLink.v): exactly-once delivery transferred to the machine's queue objects *)
From Usim Require QueueLink.
Theorem C10_machine_exactly_once :
  forall o q wkm wkn s, QueueLink.qlink o q wkm wkn s -> QueueProto.qreachable s ->
    List.map BinInt.Z.of_nat (QueueProto.accepted s) =
    (List.map BinInt.Z.of_nat (List.map snd (QueueProto.delivered s)) ++ Machine.q_buf (Lib.get_queue o q))%list.
Proof. exact QueueLink.machine_exactly_once. Qed.
Print Assumptions C10_machine_exactly_once.
