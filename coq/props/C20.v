(** C20 -- Every awaitable operation yields to the other runnable activities at least once.
    Kernel level, ARBITRARY clients (theories/YieldProps.v): whatever ends an operation -- a postponement, a
    suspension, or a subscription that somebody else wakes by scheduling the waiter "now" -- the resuming
    activation runs after everything that was queued for that time before the request.
    Which primitive each listed operation ends with: design_notes/C20.md (checked against the implementation
    by the harness).  Only statements closed by [exact]. *)
From Coq Require Import ZArith List Bool Sorted.
From Usim Require Import XTime Kernel KernelProps YieldProps.
Import ListNotations.

(** the general order lemma: [b] queued, [b] before [p] in (due time, schedule order) => when [p] executes,
    [b] has executed, unless [b] is revoked by then *)
Theorem C20_earlier_runs_first :
  forall (S : Type) (client : S -> loop -> activation -> S * list kop) b p n st l i x,
    inv l -> In b (queued l) -> klt b p ->
    nth_error (kexec_x S client n st l) i = Some x -> e_act (x_ev x) = p ->
    is_revoked (revoked (x_loop x)) b = false ->
    exists j y, j < i /\ nth_error (kexec_x S client n st l) j = Some y /\ e_act (x_ev y) = b.
Proof. exact earlier_runs_first. Qed.
Print Assumptions C20_earlier_runs_first.

(** postpone() -- and every wake-up of a subscribed waiter by awake_next / awake_all / a true condition,
    which is the same request [KNow waiter (Some w)] issued by the waker *)
Theorem C20_postpone_lets_others_run :
  forall (S : Type) (client : S -> loop -> activation -> S * list kop) l a s ops n st i x b,
    inv l -> In b (pending l) ->
    nth_error (kexec_x S client n st (kapply_all (kapply l (KNow a s)) ops)) i = Some x ->
    e_act (x_ev x) = {| a_tgt := a; a_sig := s; a_seq := nseq l; a_due := now l |} ->
    is_revoked (revoked (x_loop x)) b = false ->
    exists j y, j < i /\ nth_error (kexec_x S client n st (kapply_all (kapply l (KNow a s)) ops)) j = Some y /\
                e_act (x_ev y) = b.
Proof. exact postpone_lets_others_run. Qed.
Print Assumptions C20_postpone_lets_others_run.

(** suspend(delay=d), Delay subscriptions *)
Theorem C20_suspend_advances :
  forall (S : Type) (client : S -> loop -> activation -> S * list kop) l d a s ops n st x,
    inv l -> xpos d && xltb (now l) (xadd (now l) d) = true ->
    In x (kexec_x S client n st (kapply_all (kapply l (KAfter d a s)) ops)) ->
    e_act (x_ev x) = {| a_tgt := a; a_sig := s; a_seq := nseq l; a_due := xadd (now l) d |} ->
    e_time (x_ev x) = xadd (now l) d /\ xlt (now l) (e_time (x_ev x)).
Proof. exact suspend_advances. Qed.
Print Assumptions C20_suspend_advances.

(** suspend(until=t) *)
Theorem C20_suspend_until_advances :
  forall (S : Type) (client : S -> loop -> activation -> S * list kop) l t a s ops n st x,
    inv l -> xltb (now l) t = true ->
    In x (kexec_x S client n st (kapply_all (kapply l (KAt t a s)) ops)) ->
    e_act (x_ev x) = {| a_tgt := a; a_sig := s; a_seq := nseq l; a_due := t |} ->
    e_time (x_ev x) = t /\ xlt (now l) (e_time (x_ev x)).
Proof. exact suspend_until_advances. Qed.
Print Assumptions C20_suspend_until_advances.

(** the clock advanced, hence everything runnable at the time of the request ran before *)
Theorem C20_suspend_lets_others_run :
  forall (S : Type) (client : S -> loop -> activation -> S * list kop) l o p ops n st i x b,
    inv l -> In b (pending l) -> xlt (now l) (a_due p) ->
    nth_error (kexec_x S client n st (kapply_all (kapply l o) ops)) i = Some x -> e_act (x_ev x) = p ->
    is_revoked (revoked (x_loop x)) b = false ->
    exists j y, j < i /\ nth_error (kexec_x S client n st (kapply_all (kapply l o) ops)) j = Some y /\
                e_act (x_ev y) = b.
Proof. exact suspend_lets_others_run. Qed.
Print Assumptions C20_suspend_lets_others_run.

(** the instrumented execution is the kernel execution of KernelProps *)
Theorem C20_kexec_x_is_kexec :
  forall (S : Type) (client : S -> loop -> activation -> S * list kop) n st l,
    map x_ev (kexec_x S client n st l) = kexec S client n st l.
Proof. exact kexec_x_erase. Qed.
Print Assumptions C20_kexec_x_is_kexec.

(** non-vacuity: a loop satisfying [inv] with queued activations; root 0 postpones and runs again after roots
    1 and 2; root 1 suspends for 2 and resumes at time 2 *)
Example C20_inv_init : inv (loop_init 3 (Fin 0)) /\ length (pending (loop_init 3 (Fin 0))) = 3.
Proof. split; [exact (loop_init_inv 3 (Fin 0)) | reflexivity]. Qed.

Example C20_demo_order :
  map (fun x => (e_time (x_ev x), a_tgt (e_act (x_ev x)), a_sig (e_act (x_ev x))))
      (kexec_x unit demo_client 10 tt (loop_init 3 (Fin 0)))
  = [(Fin 0, 0, None); (Fin 0, 1, None); (Fin 0, 2, None); (Fin 0, 0, Some 7); (Fin 2, 1, Some 8)].
Proof. exact demo_order. Qed.

(** ** machine level: [postpone()] for an arbitrary machine state, activity and continuation requests exactly one
    wake-up of the running activity for the CURRENT time step (appended behind everything already queued),
    hibernates, and continues only when resumed by it -- so by [C20_postpone_lets_others_run] every activity
    that was runnable before runs first *)
From Coq Require Import List.
From RecordUpdate Require Import RecordSet.
From Usim Require Import Machine MachineProps Lib WaitSpecs.
Import ListNotations.
Theorem C20_postpone_requests_one_wakeup_now :
  forall k a m st,
    exec (12 + k) a m (MRun postpone) {| c_aid := a; c_stack := st |} []
    = asleep m a [KNow a (Some (length (sigs (ob m))))] st.
Proof. exact postpone_sleeps. Qed.
Print Assumptions C20_postpone_requests_one_wakeup_now.

Theorem C20_wakeup_is_queued_last :
  forall l t s b,
    In b (queued (kapply l (KNow t s))) ->
    In b (queued l) \/ (a_tgt b = t /\ a_sig b = s /\ a_due b = now l /\ a_seq b = nseq l).
Proof. exact know_due. Qed.
Print Assumptions C20_wakeup_is_queued_last.

(** (A) the tie to /repo's current source: every function this property's models were transcribed from has, in the
    tree this run is checking, the normalised source it had when the models were validated (hashes regenerated from
    /repo into gen/Generated.v on every run; pins in gen/SourcePins.v).  A change to one of them invalidates the
    transcription until it is re-validated. *)
From UsimGen Require SourcePins Pin_C20.
Theorem C20_modelled_source_unchanged : forallb SourcePins.pin_ok Pin_C20.pins = true.
Proof. exact Pin_C20.src_unchanged. Qed.
