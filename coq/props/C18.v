(** C18 - SimPy layer: events fire once; processes resume with the right value and time.
    Statements only; proofs are in theories/SimEventProps.v, the model in theories/SimEvent.v. *)
From Coq Require Import List ZArith Bool.
Import ListNotations.
From Usim Require Import SimEvent SimEventProps.
Open Scope Z_scope.

(** a second succeed / fail / trigger leaves the state unchanged (the caller gets the error) *)
Theorem C18_trigger_once : forall p e o o',
  e_val (get_ev p e) = Some o' -> exec_op p (OpTrigger e o) = p.
Proof. exact trigger_once. Qed.
Print Assumptions C18_trigger_once.

(** ... and the outcome and trigger time of an event never change afterwards, for all histories *)
Theorem C18_value_stable : forall p e o ops,
  e_val (get_ev p e) = Some o ->
  e_val (get_ev (exec_ops p ops) e) = Some o /\ e_time (get_ev (exec_ops p ops) e) = e_time (get_ev p e).
Proof. exact value_stable. Qed.
Print Assumptions C18_value_stable.

(** every waiter is resumed at exactly the trigger time (or is still queued while the clock has not
    moved), and the event still carries the outcome it was triggered with *)
Theorem C18_waiters_get_value_at_trigger_time : forall p e o w ops,
  agenda_ok p -> e_val (get_ev p e) = None -> In w (e_wait (get_ev p e)) ->
  let T := now p in
  let p' := exec_ops (exec_op p (OpTrigger e o)) ops in
  e_val (get_ev p' e) = Some o /\ e_time (get_ev p' e) = T
  /\ ((In (T, IWake (fst w) (snd w)) (agenda p') /\ now p' = T)
      \/ In (T, IWake (fst w) (snd w)) (delivered p')).
Proof. exact waiters_resume_at_trigger_time. Qed.
Print Assumptions C18_waiters_get_value_at_trigger_time.

(** any scheduled activation runs at exactly its time; the clock never runs backwards *)
Theorem C18_delivered_exactly_at : forall p t it ops,
  agenda_ok p -> In (t, it) (agenda p) -> pending_or_done t it (exec_ops p ops).
Proof. exact delivered_exactly_at. Qed.
Print Assumptions C18_delivered_exactly_at.

Theorem C18_now_mono : forall ops p, agenda_ok p -> now p <= now (exec_ops p ops).
Proof. exact now_mono. Qed.
Print Assumptions C18_now_mono.

(** callbacks: never before the event is processed, each exactly once (in order) when it is *)
Theorem C18_callbacks_once : forall ops p, cb_inv p -> cb_inv (exec_ops p ops).
Proof. exact callbacks_once. Qed.
Print Assumptions C18_callbacks_once.

(** a Timeout created at [born] with delay [d] resumes at exactly [born + d] ... *)
Theorem C18_timeout_exact : forall ops p,
  agenda_ok p -> delivered_wf p ->
  forall t e v born d, In (t, ITmoFire e v born d) (delivered (exec_ops p ops)) -> t = born + d.
Proof. exact timeout_exact. Qed.
Print Assumptions C18_timeout_exact.

(** ... and that resumption triggers the event with the fixed value at that time *)
Theorem C18_timeout_fired : forall p t e v born d rest,
  agenda p = (t, ITmoFire e v born d) :: rest -> closed p = false ->
  e_val (get_ev p e) = None -> (e < length (evs p))%nat ->
  let p' := exec_op p OpPop in
  now p' = t /\ e_val (get_ev p' e) = Some (OVal v) /\ e_time (get_ev p' e) = t.
Proof. exact timeout_fired. Qed.
Print Assumptions C18_timeout_fired.

(** a process is an event: the end of the generator triggers it with the return value *)
Theorem C18_process_is_event : forall g p r tid pi pc a,
  nth_error (pscript g pi) pc = Some a ->
  match a with
  | ARet v => fst (proc_act g p r tid pi pc) = [OpTrigger (pev g pi) (OVal v)]
  | ARaise k => fst (proc_act g p r tid pi pc) = [OpTrigger (pev g pi) (OFail k)]
  | _ => True
  end.
Proof. exact process_is_event. Qed.
Print Assumptions C18_process_is_event.

(** AllOf / AnyOf *)
Theorem C18_allof_fires_iff : forall trig ok ms u o,
  (forall m, ok m = true -> trig m = true) ->
  scan trig ok ms 0 = ScanOk u o ->
  (evaluate true ms o = true <-> forall m, In m ms -> ok m = true).
Proof. exact allof_fires_iff. Qed.
Print Assumptions C18_allof_fires_iff.

Theorem C18_anyof_fires_iff : forall trig ok ms u o,
  (forall m, ok m = true -> trig m = true) ->
  scan trig ok ms 0 = ScanOk u o ->
  (evaluate false ms o = true <-> ms = [] \/ exists m, In m ms /\ ok m = true).
Proof. exact anyof_fires_iff. Qed.
Print Assumptions C18_anyof_fires_iff.

Theorem C18_check_events_any_trigger_order : forall trig1 ok1 trig2 ok2 ms,
  (forall m, trig1 m = true -> trig2 m = true /\ ok2 m = ok1 m) ->
  forall obs u o k, scan trig1 ok1 ms obs = ScanOk u o ->
  scan trig2 ok2 u (o + k) = scan trig2 ok2 ms (obs + k).
Proof. exact scan_incremental. Qed.
Print Assumptions C18_check_events_any_trigger_order.

Theorem C18_condition_fails_with_failed_member : forall trig ok ms obs m,
  scan trig ok ms obs = ScanFail m -> In m ms /\ trig m = true /\ ok m = false.
Proof. exact cond_fails_with. Qed.
Print Assumptions C18_condition_fails_with_failed_member.

Theorem C18_condition_value_members : forall p leafs x,
  match cond_value p leafs with
  | OCond l => In x l <-> In x leafs /\ ev_ok p x = true
  | _ => False
  end.
Proof. exact condition_value_members. Qed.
Print Assumptions C18_condition_value_members.

(** interrupts *)
Theorem C18_interrupt_fifo : forall ops p, iq_inv p -> iq_inv (exec_ops p ops).
Proof. exact interrupt_fifo. Qed.
Print Assumptions C18_interrupt_fifo.

Theorem C18_interrupt_one_per_yield : forall g p r tid pi pc e pre,
  count_pops pre = O ->
  let ops := fst (deliver g p r tid pi pc e pre) in
  match q_causes (get_iq p pi) with
  | c :: _ => count_pops ops = 1%nat /\ In (OpEmit (Z.of_nat pi) (Z.of_nat pc) (enc (OIntr c))) ops
  | [] => count_pops ops = O /\ In (OpEmit (Z.of_nat pi) (Z.of_nat pc) (enc (val_of p e))) ops
          /\ (ev_ok p e = false -> In (OpDefuse e) ops)
  end.
Proof. exact deliver_spec. Qed.
Print Assumptions C18_interrupt_one_per_yield.

Theorem C18_interrupt_pop_oldest : forall p q c r,
  q_causes (get_iq p q) = c :: r -> (q < length (iqs p))%nat ->
  let x := get_iq (exec_op p (OpIntPop q)) q in
  q_causes x = r /\ q_del x = q_del (get_iq p q) ++ [c].
Proof. exact interrupt_pop_oldest. Qed.
Print Assumptions C18_interrupt_pop_oldest.

Theorem C18_interrupt_wakes_now : forall p q c w,
  triggered p (q_ev (get_iq p q)) = false -> q_causes (get_iq p q) = [] ->
  In w (q_wait (get_iq p q)) ->
  let p' := exec_op p (OpIntPush q c) in
  now p' = now p /\ In (now p, IWake (fst w) (snd w)) (agenda p').
Proof. exact interrupt_wakes_now. Qed.
Print Assumptions C18_interrupt_wakes_now.

Theorem C18_interrupt_finished_noop : forall p q c,
  triggered p (q_ev (get_iq p q)) = true -> exec_op p (OpIntPush q c) = p.
Proof. exact interrupt_finished_noop. Qed.
Print Assumptions C18_interrupt_finished_noop.

(** run(until=...) *)
Theorem C18_run_until_stops : forall g n m,
  closed (pr m) = true -> env_only (rs m) ->
  let m' := iter n (micro g) m in
  log (pr m') = log (pr m) /\ evs (pr m') = evs (pr m) /\ calls (pr m') = calls (pr m).
Proof. exact run_until_stops. Qed.
Print Assumptions C18_run_until_stops.

Theorem C18_closed_pop_void : forall p,
  closed p = true ->
  let p' := exec_op p OpPop in
  log p' = log p /\ evs p' = evs p /\ calls p' = calls p /\ iqs p' = iqs p /\ nfs p' = nfs p
  /\ fails p' = fails p /\ closed p' = true.
Proof. exact closed_pop_void. Qed.
Print Assumptions C18_closed_pop_void.

Theorem C18_closed_env_task_void : forall g p r it,
  closed p = true -> (forall tid, is_env (kind (get_task r tid)) = true) ->
  dispatch g p r it = ([], set_mode Idle r).
Proof. exact closed_env_task_void. Qed.
Print Assumptions C18_closed_env_task_void.

Theorem C18_until_event_result : forall g p e o,
  g_until g = UEvent e -> e_val (get_ev p e) = Some o -> until_result g p = 10 :: enc o.
Proof. exact until_event_result. Qed.
Print Assumptions C18_until_event_result.

(** every run of the machine is an operation history; the invariants hold in all its states *)
Theorem C18_run_is_history : forall g n m, exists ops, pr (run g n m) = exec_ops (pr m) ops.
Proof. exact run_is_history. Qed.
Print Assumptions C18_run_is_history.

Theorem C18_model_invariants : forall g n,
  let p := pr (run g n (init g)) in
  agenda_ok p /\ cb_inv p /\ iq_inv p
  /\ (forall t e v born d, In (t, ITmoFire e v born d) (delivered p) -> t = born + d).
Proof. exact model_invariants. Qed.
Print Assumptions C18_model_invariants.

(** the hypotheses are satisfiable: a process waits for a timeout, gets its value at time 3, then
    AllOf of an event (succeeded by a second process at 5) and a second timeout *)
Definition ex_graph : graph :=
  mkG false UNone 7 0
    [(2%nat, true, [AYield (TTo 4 3 7) true; ASucc 0 5; AYield (TCond 5 true [TEv 0; TTo 6 2 1]) true; ARet 9]);
     (3%nat, true, [AYield (TEv 0) true; AYield (TEv 2) true])]
    [] 0.
Example ex_model :
  model ex_graph = [[0; 0; 3; 0; 7]; [1; 0; 3; 0; 5]; [0; 2; 5; 4; 0; 6]; [1; 1; 5; 0; 9]; [300; 0; 0; 10; 5]].
Proof. vm_compute. reflexivity. Qed.

Example ex_second_trigger_is_noop :
  let p := exec_op (pr (init ex_graph)) (OpTrigger 0 (OVal 1)) in
  e_val (get_ev p 0%nat) = Some (OVal 1) /\ exec_op p (OpTrigger 0 (OFail 2)) = p.
Proof. vm_compute. split; reflexivity. Qed.

(** (A) the tie to /repo's current source: every function this property's models were transcribed from has, in the
    tree this run is checking, the normalised source it had when the models were validated (hashes regenerated from
    /repo into gen/Generated.v on every run; pins in gen/SourcePins.v).  A change to one of them invalidates the
    transcription until it is re-validated. *)
From UsimGen Require SourcePins Pin_C18.
Theorem C18_modelled_source_unchanged : forallb SourcePins.pin_ok Pin_C18.pins = true.
Proof. exact Pin_C18.src_unchanged. Qed.
