(** C16 -- collect()/first() give the right results at the right time and abort the rest.
    Two layers:
    (1) the transcription of first()/collect() that the whole-program machine executes (first_gen, SCollect in Lib.v /
        Scenario.v): the `_partial` statements below plus whole-trace correspondence on the `flows` family;
    (2) the mechanism-level model FlowProto.v (agenda of activations, monitors, queue, consumer, internal scope) with
        theorems for ALL inputs further down: finish order, what is yielded and when, ValueError, the stop and the
        aborts, collect's result / failure - tied to usim/_concurrent/basics.py by the correspondence of
        harness/flowcorr.py.
    Aborting the rest inside arbitrary programs is structured-concurrency containment (C04); FIFO delivery is C10. *)
From Coq Require Import ZArith List Bool.
From Usim Require Import XTime Tables Kernel Machine Lib FlowProps.
Import ListNotations.

Theorem C16_first_valueerror_iff_count_exceeds_partial :
  forall scname k acts,
    (length acts < k -> first_gen scname (Some k) acts = Raise EValueError) /\
    (k <= length acts -> first_gen scname (Some k) acts <> Raise EValueError) /\
    first_gen scname None acts <> Raise EValueError.
Proof.
  intros scname k acts. split; [exact (first_count_exceeds scname k acts)|].
  split; [exact (first_count_ok scname k acts) | exact (first_count_none scname acts)].
Qed.
Print Assumptions C16_first_valueerror_iff_count_exceeds_partial.

Theorem C16_first_yields_prefix_in_arrival_order_partial :
  forall count arrivals,
    length (first_results count arrivals) = Nat.min count (length arrivals) /\
    (exists rest, arrivals = first_results count arrivals ++ rest) /\
    first_results (length arrivals) arrivals = arrivals.
Proof.
  intros count arrivals. split; [exact (first_results_length count arrivals)|].
  split; [exact (first_results_prefix count arrivals) | exact (first_results_all arrivals)].
Qed.
Print Assumptions C16_first_yields_prefix_in_arrival_order_partial.

(** (A) the tie to /repo's current source: every function this property's models were transcribed from has, in the
    tree this run is checking, the normalised source it had when the models were validated (hashes regenerated from
    /repo into gen/Generated.v on every run; pins in gen/SourcePins.v).  A change to one of them invalidates the
    transcription until it is re-validated. *)
From UsimGen Require SourcePins Pin_C16.
Theorem C16_modelled_source_unchanged : forallb SourcePins.pin_ok Pin_C16.pins = true.
Proof. exact Pin_C16.src_unchanged. Qed.

(** ** known finding D11: a contestant failing while the consumer is suspended in its own loop body makes the cancel
    signal of first()'s internal scope escape; witness on the faithful machine *)
From Coq Require Import ZArith.
From Usim Require Refuted.
Theorem C16_first_failure_is_contained_refuted :
  exists s, In [2; 91; 21; 2]%Z (Scenario.run_scenario 6000 200000 s).
Proof. exact Refuted.internal_signal_escapes_refuted. Qed.
Print Assumptions C16_first_failure_is_contained_refuted.

(** ** mechanism-level model (FlowProto.v: agenda = the kernel's queue of activations, monitors, queue, consumer,
    internal scope) and its theorems for ALL inputs (FlowProtoProps.v): any number of activities, any non-negative
    delays, any count, any think times of the consumer.  The model is tied to usim/_concurrent/basics.py by the
    correspondence of harness/flowcorr.py (same random inputs through the real first()/collect() and through
    [first_run]/[collect_run]).
    Notation: [finish_order t0 acts] = [(finish time, index)] of all activities sorted by finish time, equal times
    in argument order ([C16_finish_order_is_sorted_by_time_then_index]); [successes] = its successful entries;
    [ftime t0 acts i] = [t0 + delay of i]; a trace is [body ++ ab ++ [fe]]: [EFin]/[EYield] events, then the aborts,
    then the event that ends the call. *)
From Coq Require Import Lia Sorting.Sorted Sorting.Permutation.
From Usim Require Import FlowProto FlowProtoProps.
Open Scope Z_scope.

Theorem C16_finish_order_is_sorted_by_time_then_index :
  forall t0 acts,
    StronglySorted lexlt (finish_order t0 acts) /\
    Permutation (finish_order t0 acts) (map (fun j => (ftime t0 acts j, j)) (seq 0 (length acts))).
Proof. exact finish_order_spec. Qed.
Print Assumptions C16_finish_order_is_sorted_by_time_then_index.

(** (a) first() yields the successful activities in finish order (ties: argument order), at most [count], each
    not before it finished and exactly when it finished if the consumer is prompt; exactly [count] of them if
    the iteration ends normally.  Holds with failing activities too. *)
Theorem C16_first_yields_in_finish_order :
  forall t0 acts count thinks,
    nonneg acts -> (count_of acts count <= length acts)%nat ->
    let ys := yields (first_run t0 acts count thinks) in
    (length ys <= count_of acts count)%nat /\
    map snd ys = map (value_at acts) (firstn (length ys) (successes t0 acts)) /\
    (forall j y p, nth_error ys j = Some y -> nth_error (successes t0 acts) j = Some p -> fst p <= fst y) /\
    (prompt_consumer thinks -> map fst ys = map fst (firstn (length ys) (successes t0 acts))) /\
    (forall pre S, first_run t0 acts count thinks = pre ++ [EReturn S] -> length ys = count_of acts count).
Proof. exact first_yields_in_finish_order. Qed.
Print Assumptions C16_first_yields_in_finish_order.

(** (a) no activity fails: exactly the first [count] activities of the finish order; the iteration ends normally *)
Theorem C16_first_yields_first_count_results :
  forall t0 acts count thinks,
    nonneg acts -> (count_of acts count <= length acts)%nat -> all_succeed acts ->
    let tr := first_run t0 acts count thinks in
    let k := count_of acts count in
    map snd (yields tr) = map (value_at acts) (firstn k (finish_order t0 acts)) /\
    (forall j y p, nth_error (yields tr) j = Some y -> nth_error (finish_order t0 acts) j = Some p -> fst p <= fst y) /\
    (prompt_consumer thinks -> map fst (yields tr) = map fst (firstn k (finish_order t0 acts))) /\
    (exists pre S, tr = pre ++ [EReturn S]).
Proof. exact first_yields_first_k. Qed.
Print Assumptions C16_first_yields_first_count_results.

(** (b) ValueError exactly when count exceeds the number of activities; nothing runs in that case *)
Theorem C16_first_valueerror_iff_count_exceeds :
  forall t0 acts count thinks,
    nonneg acts ->
    ((length acts < count_of acts count)%nat -> first_run t0 acts count thinks = [EValueError t0]) /\
    ((exists t, In (EValueError t) (first_run t0 acts count thinks)) -> (length acts < count_of acts count)%nat).
Proof. exact first_valueerror_iff. Qed.
Print Assumptions C16_first_valueerror_iff_count_exceeds.

(** (c) the stop of first(): everything that would finish later than the stop time [S] is aborted at [S]; nothing
    happens after the aborts; no activity both finishes and is aborted; every activity does one of the two;
    with count > 0 the activities that finish AT the stop time still finish *)
Theorem C16_first_aborts_the_rest_at_the_stop :
  forall t0 acts count thinks,
    nonneg acts -> (count_of acts count <= length acts)%nat ->
    exists S body ab fe,
      first_run t0 acts count thinks = body ++ ab ++ [fe] /\ is_final fe /\ ev_time fe = S /\
      Forall body_event body /\ Forall (fun e => ev_time e <= S) body /\
      (forall t i, In (EFin t i) body ->
         (i < length acts)%nat /\ t = ftime t0 acts i /\ t <= S /\ ~ In (EAbort S i) ab) /\
      (forall e, In e ab -> exists i, e = EAbort S i /\ (i < length acts)%nat /\
                                      S <= ftime t0 acts i /\ forall t, ~ In (EFin t i) body) /\
      (forall i, (i < length acts)%nat -> S < ftime t0 acts i -> In (EAbort S i) ab) /\
      (forall i, (i < length acts)%nat -> (exists t, In (EFin t i) body) \/ In (EAbort S i) ab) /\
      ((0 < count_of acts count)%nat ->
       (forall i, (i < length acts)%nat -> ftime t0 acts i <= S -> In (EFin (ftime t0 acts i) i) body) /\
       (forall i, In (EAbort S i) ab -> S < ftime t0 acts i)).
Proof. exact first_stop. Qed.
Print Assumptions C16_first_aborts_the_rest_at_the_stop.

(** if first() raises: at the earliest failure time, exactly the failures of that time in argument order *)
Theorem C16_first_raises_the_first_failures :
  forall t0 acts count thinks pre S es,
    nonneg acts -> (count_of acts count <= length acts)%nat ->
    first_run t0 acts count thinks = pre ++ [ERaise S es] ->
    es = failures_at t0 S acts /\ es <> [] /\
    (forall i e, (i < length acts)%nat -> out_of acts i = Fail e -> S <= ftime t0 acts i).
Proof. exact first_raise. Qed.
Print Assumptions C16_first_raises_the_first_failures.

(** the escape of known finding D11 needs a consumer that suspends in its own loop body *)
Theorem C16_first_prompt_consumer_no_escape :
  forall t0 acts count thinks,
    nonneg acts -> prompt_consumer thinks -> forall t, ~ In (EEscape t) (first_run t0 acts count thinks).
Proof. exact first_prompt_no_escape. Qed.
Print Assumptions C16_first_prompt_consumer_no_escape.

(** (d) collect(): all results in argument order at the time the slowest activity finishes; the whole trace *)
Theorem C16_collect_returns_all_at_the_slowest :
  forall t0 acts,
    nonneg acts -> all_succeed acts ->
    collect_run t0 acts =
    map fin_event (finish_order t0 acts) ++
    [EResult (max_finish t0 acts) (map (fun a : activity => value_of (snd a)) acts)].
Proof. exact collect_returns_all. Qed.
Print Assumptions C16_collect_returns_all_at_the_slowest.

(** (e) collect() with a failing activity: the call ends at the earliest failure time [S] raising exactly the
    failures of that time in argument order; everything with a finish time up to [S] has finished, everything
    later is aborted at [S] *)
Theorem C16_collect_raises_first_failure_and_aborts_the_rest :
  forall t0 acts i e,
    nonneg acts -> (i < length acts)%nat -> out_of acts i = Fail e ->
    exists S body ab,
      collect_run t0 acts = body ++ ab ++ [ERaise S (failures_at t0 S acts)] /\
      failures_at t0 S acts <> [] /\
      (forall j e', (j < length acts)%nat -> out_of acts j = Fail e' -> S <= ftime t0 acts j) /\
      Forall body_event body /\
      (forall t j, In (EFin t j) body -> (j < length acts)%nat /\ t = ftime t0 acts j /\ t <= S) /\
      (forall j, (j < length acts)%nat -> ftime t0 acts j <= S -> In (EFin (ftime t0 acts j) j) body) /\
      (forall x, In x ab <-> exists j, x = EAbort S j /\ (j < length acts)%nat /\ S < ftime t0 acts j).
Proof. exact collect_raises_first_failure. Qed.
Print Assumptions C16_collect_raises_first_failure_and_aborts_the_rest.

(** the model always finishes (its fuel is a measure that every step decreases) *)
Theorem C16_flow_model_never_stuck :
  forall t0 acts count thinks,
    nonneg acts -> ~ In EStuck (first_run t0 acts count thinks) /\ ~ In EStuck (collect_run t0 acts).
Proof. exact runs_finish. Qed.
Print Assumptions C16_flow_model_never_stuck.

(** non-trivial instances *)
Example C16_ex_tie_at_the_kth_result :
  first_run 0 [(2, Val 10); (2, Val 11); (3, Val 12)] (Some 1%nat) []
  = [EFin 2 0; EFin 2 1; EYield 2 10; EAbort 2 2; EReturn 2].
Proof. exact ex_first_tie. Qed.

Example C16_ex_collect_failure :
  let acts := [(3, Val 10); (1, Val 11); (2, Fail 90); (2, Fail 91); (2, Val 13); (0, Val 14); (4, Fail 92)] in
  collect_run 0 acts
  = [EFin 0 5; EFin 1 1; EFin 2 2; EFin 2 3; EFin 2 4; EAbort 2 0; EAbort 2 6; ERaise 2 [90; 91]] /\
  failures_at 0 2 acts = [90; 91].
Proof. exact ex_collect_failure. Qed.

Example C16_ex_hypotheses_satisfiable :
  nonneg [(3, Val 10); (0, Fail 90)] /\ all_succeed [(3, Val 10); (1, Val 11)] /\ prompt_consumer [0; 0].
Proof. exact ex_hypotheses. Qed.

(** full-strength readings that are false of the faithful model and of the library (see ex_first_failure,
    ex_first_count_zero): with a failing activity first() does not deliver min(count, successes) results; for
    count = 0 an activity whose finish time is the stop time is aborted *)
Theorem C16_first_yields_min_count_successes_refuted :
  exists t0 acts count thinks,
    nonneg acts /\ (count_of acts count <= length acts)%nat /\ prompt_consumer thinks /\
    (length (yields (first_run t0 acts count thinks))
     < Nat.min (count_of acts count) (length (successes t0 acts)))%nat.
Proof. exact first_yields_min_count_successes_refuted. Qed.
Print Assumptions C16_first_yields_min_count_successes_refuted.

Theorem C16_first_tie_with_stop_finishes_refuted :
  exists t0 acts count thinks i,
    nonneg acts /\ (count_of acts count <= length acts)%nat /\ (i < length acts)%nat /\
    In (EReturn (ftime t0 acts i)) (first_run t0 acts count thinks) /\
    In (EAbort (ftime t0 acts i) i) (first_run t0 acts count thinks).
Proof. exact first_tie_with_stop_finishes_refuted. Qed.
Print Assumptions C16_first_tie_with_stop_finishes_refuted.
