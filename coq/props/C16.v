(** C16 -- collect()/first() give the right results at the right time and abort the rest.
    PARTIAL at proof level: the statements below are about the transcription of first()/collect() that the
    whole-program machine executes; results-at-the-right-time for whole programs is tied to the code by
    whole-trace correspondence on the `flows` family and checked by an oracle on the implementation.
    Aborting the rest is structured-concurrency containment (C04); FIFO delivery is C10. *)
From Coq Require Import ZArith List Bool.
From Usim Require Import XTime Tables Kernel Machine Lib FlowProps.
Import ListNotations.

Theorem C16_first_valueerror_iff_count_exceeds_partial :
  forall scname k acts,
    (length acts < k -> first_gen scname (Some k) acts = Raise EValueError) /\
    (k <= length acts -> first_gen scname (Some k) acts <> Raise EValueError) /\
    first_gen scname None acts <> Raise EValueError.
Proof.
  intros scname k acts. split; [exact (first_count_exceeds scname k acts)|].
  split; [exact (first_count_ok scname k acts) | exact (first_count_none scname acts)].
Qed.
Print Assumptions C16_first_valueerror_iff_count_exceeds_partial.

Theorem C16_first_yields_prefix_in_arrival_order_partial :
  forall count arrivals,
    length (first_results count arrivals) = Nat.min count (length arrivals) /\
    (exists rest, arrivals = first_results count arrivals ++ rest) /\
    first_results (length arrivals) arrivals = arrivals.
Proof.
  intros count arrivals. split; [exact (first_results_length count arrivals)|].
  split; [exact (first_results_prefix count arrivals) | exact (first_results_all arrivals)].
Qed.
Print Assumptions C16_first_yields_prefix_in_arrival_order_partial.

(** (A) the tie to /repo's current source: every function this property's models were transcribed from has, in the
    tree this run is checking, the normalised source it had when the models were validated (hashes regenerated from
    /repo into gen/Generated.v on every run; pins in gen/SourcePins.v).  A change to one of them invalidates the
    transcription until it is re-validated. *)
From UsimGen Require SourcePins Pin_C16.
Theorem C16_modelled_source_unchanged : forallb SourcePins.pin_ok Pin_C16.pins = true.
Proof. exact Pin_C16.src_unchanged. Qed.

(** ** known finding D11: a contestant failing while the consumer is suspended in its own loop body makes the cancel
    signal of first()'s internal scope escape; witness on the faithful machine *)
From Coq Require Import ZArith.
From Usim Require Refuted.
Theorem C16_first_failure_is_contained_refuted :
  exists s, In [2; 91; 21; 2]%Z (Scenario.run_scenario 6000 200000 s).
Proof. exact Refuted.internal_signal_escapes_refuted. Qed.
Print Assumptions C16_first_failure_is_contained_refuted.
