(* C04 -- No task outlives its scope.
   Statements over ScopeProto (theories/ScopeProto.v): ONE scope instance (Scope or until), its owner and
   its direct children, fully nondeterministic environment, every exit cause at every suspension point.
   Containment of all descendants follows by induction on the scope tree (design_notes/C04.md). *)
Require Import List Bool Arith.
Import ListNotations.
From Usim Require Import ScopeProto ScopeProtoProps.

(* Once the block is left (any cause): every child is done; no child transition is enabled any more;
   do() is refused; and over every continuation the phase stays Exited, the child-code counter and the
   body counter never move, old children keep their status, new "children" are refused payloads. *)
Theorem C04_contained : forall k s c o, reachable k s -> ph s = Exited c o ->
  Forall (fun x => isdone x = true) (kids s) /\
  (forall i, step s (ChildStart i) = None /\ step s (ChildStep i) = None /\ step s (ChildReturn i) = None /\
             step s (ChildFail i) = None /\ step s (ChildCancel i) = None /\
             forall d, step s (CloseChild i d) = None) /\
  (forall v, step s (Spawn v) = Some (set_kids (kids s ++ [refused v]) s)) /\
  (forall ls s', run s ls = Some s' ->
     ph s' = Exited c o /\ cwork s' = cwork s /\ bsteps s' = bsteps s /\ frame (kids s) (kids s')).
Proof. exact contained_thm. Qed.
Print Assumptions C04_contained.

(* Graceful exit: a non-volatile child is never closed; it succeeded, was cancelled individually, failed
   (then the block raises), or is a payload refused after the close. *)
Theorem C04_graceful_complete : forall k s o x, reachable k s -> ph s = Exited CGraceful o ->
  In x (kids s) -> vol x = false ->
  st x = Done Success \/ st x = Done CancelledInd \/ st x = Done Discarded \/ (st x = Done Failed /\ o = ChildExc).
Proof. exact graceful_complete_thm. Qed.
Print Assumptions C04_graceful_complete.

Theorem C04_late_children_awaited : forall k s o x, reachable k s -> ph s = Exited CGraceful o ->
  In x (kids s) -> vol x = false -> late x = true ->
  st x = Done Success \/ st x = Done CancelledInd \/ (st x = Done Failed /\ o = ChildExc).
Proof. exact late_children_awaited_thm. Qed.
Print Assumptions C04_late_children_awaited.

Theorem C04_late_spawn_accepted : forall k s v, reachable k s -> ph s = SetDone \/ ph s = AwaitChildren ->
  step s (Spawn v) = Some (set_kids (kids s ++ [accepted v true]) s).
Proof. exact late_spawn_accepted_thm. Qed.
Print Assumptions C04_late_spawn_accepted.

(* _await_children cannot be left while any non-volatile child (early or late) is unfinished *)
Theorem C04_await_blocks : forall k s x, reachable k s -> ph s = SetDone \/ ph s = AwaitChildren ->
  In x (kids s) -> vol x = false -> isdone x = false -> step s AwaitStep = Some (set_ph AwaitChildren s).
Proof. exact await_blocks_thm. Qed.
Print Assumptions C04_await_blocks.

(* a child becomes closed-as-volatile only inside _close_scope, when every non-volatile child is finished *)
Theorem C04_volatile_last_step : forall k s l s' i x', reachable k s -> step s l = Some s' ->
  nth_error (kids s') i = Some x' -> st x' = Done ClosedVolatile ->
  (exists x, nth_error (kids s) i = Some x /\ st x = Done ClosedVolatile) \/
  (exists c x, ph s = Closing c /\ nth_error (kids s) i = Some x /\ isdone x = false /\ vol x = true /\
               forallb nv_done (kids s) = true).
Proof. exact volatile_last_step_thm. Qed.
Print Assumptions C04_volatile_last_step.

Theorem C04_volatile_last : forall k s x, reachable k s -> In x (kids s) -> st x = Done ClosedVolatile ->
  vol x = true /\ active (ph s) = false /\ forall y, In y (kids s) -> vol y = false -> isdone y = true.
Proof. exact volatile_last_thm. Qed.
Print Assumptions C04_volatile_last.

Theorem C04_closed_scope_refuses : forall k s, reachable k s -> active (ph s) = false ->
  interruptable s = false /\
  (forall v, step s (Spawn v) = Some (set_kids (kids s ++ [refused v]) s)) /\
  (forall v ls s', run (set_kids (kids s ++ [refused v]) s) ls = Some s' ->
     exists x', nth_error (kids s') (length (kids s)) = Some x' /\ st x' = Done Discarded /\ ran x' = false).
Proof. exact closed_scope_refuses_thm. Qed.
Print Assumptions C04_closed_scope_refuses.

Theorem C04_discarded_never_runs : forall k s i x, reachable k s -> nth_error (kids s) i = Some x ->
  st x = Done Discarded ->
  ran x = false /\ listed x = false /\
  step s (ChildStart i) = None /\ step s (ChildReap i) = None /\ step s (ChildStep i) = None /\
  step s (ChildReturn i) = None /\ step s (ChildFail i) = None /\ step s (ChildCancel i) = None.
Proof. exact discarded_never_runs_thm. Qed.
Print Assumptions C04_discarded_never_runs.

(* non-vacuity: concrete reachable exits (graceful with a late and a volatile child; child failure) *)
Example C04_ex_graceful : exists s, reachable Plain s /\ ph s = Exited CGraceful NoExc /\
  map st (kids s) = [Done Success; Done ClosedVolatile; Done CancelledInd; Done Discarded].
Proof.
  destruct (run (init Plain) ex_graceful) as [s|] eqn:E; [|vm_compute in E; discriminate].
  exists s. split; [eapply reachable_of_run; eauto|]. vm_compute in E. inversion E. auto.
Qed.
Example C04_ex_fail : exists s, reachable (Until false) s /\ ph s = Exited COwnCancel ChildExc /\
  map st (kids s) = [Done Failed; Done ClosedScope; Done Discarded].
Proof.
  destruct (run (init (Until false)) ex_fail) as [s|] eqn:E; [|vm_compute in E; discriminate].
  exists s. split; [eapply reachable_of_run; eauto|]. vm_compute in E. inversion E. auto.
Qed.

(* Containment at any depth: the per-scope statement above (children of ONE scope) and block structure (a task's own
   `async with` blocks are left before its coroutine ends) lift to all descendants by induction on ancestry; the tree
   may branch and grow arbitrarily.  [local] is exactly those two local facts; C04_local_from_scope_protocol shows that
   the first one is what C04_contained provides for every reachable state of a scope. *)
From Usim Require ScopeTree.
Theorem C04_tree_contained :
  forall (node : Type) (parent : node -> node -> Prop) (alive : node -> nat -> Prop),
    (forall c p n, parent c p -> alive c n -> alive p n) ->
    forall d r n, ScopeTree.descendant node parent d r -> ~ alive r n -> ~ alive d n.
Proof. exact ScopeTree.nothing_outlives. Qed.
Print Assumptions C04_tree_contained.

Theorem C04_local_from_scope_protocol : forall k s i x, reachable k s -> nth_error (kids s) i = Some x ->
  isdone x = false -> forall c o, ph s <> Exited c o.
Proof. exact ScopeTree.local_from_proto. Qed.
Print Assumptions C04_local_from_scope_protocol.

(** (A) the tie to /repo's current source: every function this property's models were transcribed from has, in the
    tree this run is checking, the normalised source it had when the models were validated (hashes regenerated from
    /repo into gen/Generated.v on every run; pins in gen/SourcePins.v).  A change to one of them invalidates the
    transcription until it is re-validated. *)
From UsimGen Require SourcePins Pin_C04.
Theorem C04_modelled_source_unchanged : forallb SourcePins.pin_ok Pin_C04.pins = true.
Proof. exact Pin_C04.src_unchanged. Qed.
