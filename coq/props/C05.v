(** C05 -- A scope fails as itself or as Concurrent: promptly, with exactly the right content.
    Statements about [Scope._collect_exceptions]/[_propagate_exceptions] as transcribed in theories/Lib.v
    (the very functions the whole-program machine executes), for all failure lists. *)
From Coq Require Import ZArith List Bool.
From Coq Require String.
From Usim Require Import XTime Tables Kernel Machine Lib ScopeExcProps.
From UsimGen Require Import Generated GeneratedProps.
Import ListNotations.

Theorem C05_concurrent_content :
  forall failures own exc l,
    ending_of failures own exc = Conc l ->
    l = filter reportable failures /\ l <> [] /\
    existsb exn_is_promoted failures = false /\
    (exc = None \/ exists e, exc = Some e /\ own = true) /\
    Forall (fun e => exn_is_suppressed e = false /\ exn_is_promoted e = false) l.
Proof. exact conc_content. Qed.
Print Assumptions C05_concurrent_content.

Theorem C05_never_regular_and_concurrent :
  forall failures e,
    ending_of failures false (Some e) = BodyExc e \/
    exists p, ending_of failures false (Some e) = Priv p /\ In p failures /\ exn_is_promoted p = true.
Proof. exact body_exception_wins. Qed.
Print Assumptions C05_never_regular_and_concurrent.

Theorem C05_privileged_unwrapped :
  forall failures own exc p,
    ending_of failures own exc = Priv p ->
    In p failures /\ exn_is_promoted p = true /\
    exists pre post, failures = pre ++ p :: post /\ existsb exn_is_promoted pre = false.
Proof. exact priv_unwrapped. Qed.
Print Assumptions C05_privileged_unwrapped.

Theorem C05_quiet_without_failures :
  forall failures own exc,
    (exc = None \/ own = true /\ exists e, exc = Some e /\ exn_type_promoted e = false) ->
    filter reportable failures = [] -> existsb exn_is_promoted failures = false ->
    ending_of failures own exc = NoExc.
Proof. exact quiet_without_failures. Qed.
Print Assumptions C05_quiet_without_failures.

(** tables regenerated from /repo on this run: the classes the source suppresses / promotes are the ones
    the model's [exn_is_suppressed] / [exn_is_promoted] stand for, and they are disjoint *)
Theorem C05_suppress_table : gen_suppress = model_suppress.
Proof. exact suppress_agrees. Qed.
Theorem C05_promote_table : gen_promote = model_promote.
Proof. exact promote_agrees. Qed.
Theorem C05_tables_disjoint :
  forallb (fun s => negb (existsb (String.eqb s) gen_env_promote)) gen_suppress = true.
Proof. exact suppress_promote_disjoint. Qed.
Print Assumptions C05_tables_disjoint.

(** "promptly": over the scope protocol (theories/ScopeProto.v, tied to /repo by the label replay of harness/scopecorr.py),
    for every environment.  From the failure of a child of an open scope on, virtual time stands still until the block
    is left; the block is left at the time of the failure, and - unless the body itself raised or a foreign signal
    arrived - with the children's failure. *)
From Usim Require ScopeProto ScopeProtoProps ScopePrompt.
Theorem C05_first_failure_ends_the_block_in_its_time_step :
  forall k s i s1 ls s2, ScopeProto.reachable k s -> ScopeProto.interruptable s = true ->
    ScopeProto.step s (ScopeProto.ChildFail i) = Some s1 -> ScopeProto.run s1 ls = Some s2 ->
    (ScopeProtoProps.isexited (ScopeProto.ph s2) = false /\ ScopeProto.now s2 = ScopeProto.now s /\
     ScopeProto.step s2 ScopeProto.Tick = None) \/
    (exists c o, ScopeProto.ph s2 = ScopeProto.Exited c o /\ ScopeProto.exited_at s2 = Some (ScopeProto.now s)).
Proof. exact ScopePrompt.child_failure_prompt_thm. Qed.
Print Assumptions C05_first_failure_ends_the_block_in_its_time_step.

Theorem C05_failed_child_is_reported :
  forall k s i s1 ls s2 c o, ScopeProto.reachable k s ->
    ScopeProto.step s (ScopeProto.ChildFail i) = Some s1 -> ScopeProto.run s1 ls = Some s2 ->
    ScopeProto.ph s2 = ScopeProto.Exited c o -> o = ScopeProto.outcome_of c true.
Proof. exact ScopePrompt.child_failure_reported_thm. Qed.
Print Assumptions C05_failed_child_is_reported.

Theorem C05_first_failure_aborts_body_and_children :
  forall k s i s1 ls s2 c o, ScopeProto.reachable k s -> ScopeProto.interruptable s = true ->
    ScopeProto.step s (ScopeProto.ChildFail i) = Some s1 -> ScopeProto.run s1 ls = Some s2 ->
    ScopeProto.ph s2 = ScopeProto.Exited c o ->
    ScopeProto.exited_at s2 = Some (ScopeProto.now s) /\ o = ScopeProto.outcome_of c true /\
    Forall (fun x => ScopeProto.isdone x = true) (ScopeProto.kids s2) /\
    (forall j, ScopeProto.step s2 (ScopeProto.ChildStart j) = None /\ ScopeProto.step s2 (ScopeProto.ChildStep j) = None).
Proof. exact ScopePrompt.first_failure_aborts_all_thm. Qed.
Print Assumptions C05_first_failure_aborts_body_and_children.

(** (A) the tie to /repo's current source: every function this property's models were transcribed from has, in the
    tree this run is checking, the normalised source it had when the models were validated (hashes regenerated from
    /repo into gen/Generated.v on every run; pins in gen/SourcePins.v).  A change to one of them invalidates the
    transcription until it is re-validated. *)
From UsimGen Require SourcePins Pin_C05.
Theorem C05_modelled_source_unchanged : forallb SourcePins.pin_ok Pin_C05.pins = true.
Proof. exact Pin_C05.src_unchanged. Qed.
