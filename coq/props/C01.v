(** C01 -- Virtual time is monotone and every timed wait resumes at exactly its date.
    Only statements closed by [exact]; see theories/KernelProps.v, MachineProps.v, ScenarioProps.v. *)
From Coq Require Import ZArith List Sorted Bool.
From Usim Require Import XTime Kernel KernelProps Machine MachineProps Scenario ScenarioProps.
Import ListNotations.

(** for ARBITRARY clients of the kernel (any program, any schedule of requests, any state of its own): *)
Theorem C01_clock_never_decreases :
  forall (S : Type) (client : S -> loop -> activation -> S * list kop) n st l,
    inv l -> StronglySorted (fun x y => xle (e_time x) (e_time y)) (kexec S client n st l).
Proof. exact time_monotone. Qed.
Print Assumptions C01_clock_never_decreases.

(** an activation scheduled with [delay=d] at time t (due = t + d), [at=t] (due = t) or for now executes
    at exactly its due time, never earlier than the current time *)
Theorem C01_exact_due_time :
  forall (S : Type) (client : S -> loop -> activation -> S * list kop) n st l,
    inv l -> Forall (fun e => e_time e = a_due (e_act e) /\ xle (now l) (e_time e)) (kexec S client n st l).
Proof. exact exec_at_due. Qed.
Print Assumptions C01_exact_due_time.

(** all work scheduled for a time t runs before the clock moves past t: what executes next is the minimum
    (due time, schedule order) of everything queued and not revoked *)
Theorem C01_drain_before_advance :
  forall l a l', inv l -> next l = Some (a, l') ->
    forall b, In b (queued l) -> is_revoked (revoked l) b = false -> b = a \/ klt a b.
Proof. exact next_is_minimum. Qed.
Print Assumptions C01_drain_before_advance.

(** the due time computed by [Loop.schedule]: the request adds nothing to the queue but an activation with a
    fresh sequence number whose due time is not before now *)
Theorem C01_schedule_only_forward :
  forall l o a, In a (queued (kapply l o)) ->
    In a (queued l) \/ (nseq l <= a_seq a /\ xle (now l) (a_due a)).
Proof. exact kapply_queued. Qed.
Print Assumptions C01_schedule_only_forward.

(** every execution of every scenario program on the whole-program machine is a kernel execution *)
Theorem C01_machine_is_a_kernel_client :
  forall fuel n m, mtrace n fuel m = kexec mstate (mclient fuel) n m (kern_of m).
Proof. exact machine_refines_kernel. Qed.
Print Assumptions C01_machine_is_a_kernel_client.

Theorem C01_scenarios_clock_monotone :
  forall s fuel n, StronglySorted (fun x y => xle (e_time x) (e_time y)) (mtrace n fuel (init_state s)).
Proof. exact scenario_time_monotone. Qed.
Print Assumptions C01_scenarios_clock_monotone.

Theorem C01_scenarios_exact_due :
  forall s fuel n,
    Forall (fun e => e_time e = a_due (e_act e) /\ xle (sc_start s) (e_time e)) (mtrace n fuel (init_state s)).
Proof. exact scenario_exec_at_due. Qed.
Print Assumptions C01_scenarios_exact_due.

(** the hypotheses are satisfiable: the initial loop of any run satisfies the invariant *)
Example C01_inv_init : inv (loop_init 3 (Fin 5)).
Proof. exact (loop_init_inv 3 (Fin 5)). Qed.

(** ** machine level: the suspension primitives, for an arbitrary state, activity and continuation *)
From Usim Require Import Lib WaitSpecs.

(** [suspend(delay=d)] (used by `await (time + d)` through Delay.__subscribe__, by interval/delay and by
    task start delays) requests exactly one wake-up of the running activity, due [d] after now, and
    hibernates ... *)
Theorem C01_delay_requests_one_wakeup :
  forall k a m st d,
    xpos d && xltb (onow (ob m)) (xadd (onow (ob m)) d) = true ->
    exec (12 + k) a m (MRun (suspend_delay d)) {| c_aid := a; c_stack := st |} []
    = asleep m a [KAfter d a (Some (length (sigs (ob m))))] st.
Proof. exact suspend_delay_sleeps. Qed.
Print Assumptions C01_delay_requests_one_wakeup.

(** ... the requested activation is due at exactly now + d (and by C01_exact_due_time executes exactly then,
    unless revoked) ... *)
Theorem C01_delay_wakeup_due :
  forall l d t s b,
    xpos d && xltb (now l) (xadd (now l) d) = true ->
    In b (queued (kapply l (KAfter d t s))) ->
    In b (queued l) \/ (a_tgt b = t /\ a_sig b = s /\ a_due b = xadd (now l) d /\ a_seq b = nseq l).
Proof. exact kafter_due. Qed.
Print Assumptions C01_delay_wakeup_due.

(** ... and the sleeper continues normally exactly when resumed by that wake-up; any other exception thrown
    into it (cancel, until-interrupt, GeneratorExit) propagates; both paths revoke the wake-up *)
Theorem C01_sleeper_resumes_by_own_wakeup :
  forall k a m w st outer,
    exec (9 + k) a m (MThrow (ESig w)) {| c_aid := a; c_stack := sleep_frames w ++ st |} outer
    = exec k a (issue m [KRevoke w]) (MRet VU) {| c_aid := a; c_stack := st |} outer.
Proof. exact wake_own. Qed.
Theorem C01_sleeper_left_by_foreign_signal :
  forall k a m w e st outer,
    is_sig e w = false ->
    exec (9 + k) a m (MThrow e) {| c_aid := a; c_stack := sleep_frames w ++ st |} outer
    = exec k a (issue m [KRevoke w]) (MThrow e) {| c_aid := a; c_stack := st |} outer.
Proof. exact wake_foreign. Qed.
Print Assumptions C01_sleeper_left_by_foreign_signal.

(** Waits for [&] / [|] formulas over dates ([time >= d], [time < d], [time == d], nested in any shape): such a formula can
    only BECOME true at one of the dates it mentions, and it already holds AT the first such date - so the wait, which
    starts at [t0] with the formula false, cannot end at any time other than a mentioned date later than [t0]; and once all
    dates are behind it never ends.  (This is what makes the arithmetic oracle for the `time-connectives` family complete:
    it evaluates the formula at [t0] and at the mentioned dates only.) *)
From Usim Require TimeFormula.
Theorem C01_time_formula_turns_true_only_at_its_dates :
  forall w t0 t, (t0 < t)%Z -> TimeFormula.tholds w t0 = false -> TimeFormula.tholds w t = true ->
    exists d, In d (TimeFormula.tdates w) /\ (t0 < d <= t)%Z /\ TimeFormula.tholds w d = true.
Proof. exact TimeFormula.candidates_complete. Qed.
Print Assumptions C01_time_formula_turns_true_only_at_its_dates.

Theorem C01_time_formula_never_after_its_dates :
  forall w t0, (forall d, In d (TimeFormula.tdates w) -> (d <= t0)%Z) -> TimeFormula.tholds w t0 = false ->
    forall t, (t0 < t)%Z -> TimeFormula.tholds w t = false.
Proof. exact TimeFormula.never_after_all_dates. Qed.
Print Assumptions C01_time_formula_never_after_its_dates.

(** One [time >= d] / [time == d] object used by several simulations (finding D24, repaired in /repo): with the repaired
    [After._ensure_trigger] - which remembers the LOOP in which its trigger lives - every loop in which somebody subscribes
    has a trigger of its own, for every history of uses (successive, repeated, nested), and no other loop gets one; with
    the boolean it used before, a second loop never got one.  (Implementation side: the `reused-conditions` family.) *)
From Usim Require AfterReuse.
Theorem C01_reused_condition_every_loop_has_its_trigger :
  forall uses l, In l uses <-> In l (AfterReuse.triggers (AfterReuse.run AfterReuse.ensure_fixed None uses)).
Proof.
  exact (fun uses l => conj (AfterReuse.fixed_every_loop_has_a_trigger uses l) (AfterReuse.fixed_only_subscribed_loops uses l)).
Qed.
Print Assumptions C01_reused_condition_every_loop_has_its_trigger.

Theorem C01_reused_condition_with_a_sticky_flag_refuted :
  exists uses l, In l uses /\ ~ In l (AfterReuse.triggers (AfterReuse.run AfterReuse.ensure_flag false uses)).
Proof. exact AfterReuse.flag_second_loop_has_no_trigger_refuted. Qed.
Print Assumptions C01_reused_condition_with_a_sticky_flag_refuted.

(** (A) the tie to /repo's current source: every function this property's models were transcribed from has, in the
    tree this run is checking, the normalised source it had when the models were validated (hashes regenerated from
    /repo into gen/Generated.v on every run; pins in gen/SourcePins.v).  A change to one of them invalidates the
    transcription until it is re-validated. *)
From UsimGen Require SourcePins Pin_C01.
Theorem C01_modelled_source_unchanged : forallb SourcePins.pin_ok Pin_C01.pins = true.
Proof. exact Pin_C01.src_unchanged. Qed.
