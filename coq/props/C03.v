(** C03 -- The kernel never fails on its own: no leaked signal, internal error or livelock.
    Protocol level: every wait / scope / task and the interrupt object that belongs to it, against a fully
    nondeterministic environment (theories/NotifProto.v, NotifProtoProps.v); kernel level: arbitrary
    clients (KernelProps.v, YieldProps.v).  Only statements closed by [exact]. *)
From Coq Require Import ZArith List Bool Sorted.
From Usim Require Import XTime Kernel KernelProps NotifProto NotifProtoProps YieldProps.
Import ListNotations.

(** ** no internal signal is delivered after its activity left the wait it belongs to
    (postpone, suspend, Notification/Condition/Delay subscriptions, until-scopes; [me] = the waiter,
    [tr] = ANY sequence of subscribe / awake / kernel pop / foreign signal / unwind events) *)
Theorem C03_never_after_leaving :
  forall me tr h, let s := wrun me winit tr in
    w_ph s = Left h ->
    (w_list s = [] /\ (w_q s = [] \/ w_revk s = true)) /\
    forall tr', w_got (wrun me s tr') = w_got s /\ w_ph (wrun me s tr') = Left h.
Proof. exact never_after_leaving. Qed.
Print Assumptions C03_never_after_leaving.

(** ... at most once, only while the waiter waits ([w_late] counts deliveries in any other phase), and
    [_waiting.remove] never raises *)
Theorem C03_at_most_once :
  forall me tr, let s := wrun me winit tr in length (w_got s) <= 1 /\ w_late s = 0 /\ w_err s = false.
Proof. exact at_most_once. Qed.
Print Assumptions C03_at_most_once.

Theorem C03_no_stale_waiter :
  forall me tr h, let s := wrun me winit tr in w_ph s = Left h -> w_list s = [] /\ wstep me s EAwake = s.
Proof. exact no_stale_waiter. Qed.
Print Assumptions C03_no_stale_waiter.

(** ... and never to an activity other than the one it was created for *)
Theorem C03_delivered_only_to_owner :
  forall me tr, let s := wrun me winit tr in Forall (eq me) (w_list s ++ w_q s ++ w_got s).
Proof. exact delivered_only_to_owner. Qed.
Print Assumptions C03_delivered_only_to_owner.

Theorem C03_waiting_is_wakeable :
  forall me tr, let s := wrun me winit tr in
    w_ph s = Waiting -> w_revk s = false /\ ((w_list s = [me] /\ w_q s = []) \/ (w_list s = [] /\ w_q s = [me])).
Proof. exact waiting_is_wakeable. Qed.
Print Assumptions C03_waiting_is_wakeable.

(** ** ... nor after its activity left the scope it belongs to (Scope._cancel_self) *)
Theorem C03_scope_cancel_never_after_exit :
  forall tr, let s := crun cinit tr in
    c_late s = 0 /\
    (c_in s = false -> c_int s = false /\ c_revk s = true /\ forall tr', c_got (crun s tr') = c_got s).
Proof. exact scope_cancel_never_after_exit. Qed.
Print Assumptions C03_scope_cancel_never_after_exit.

(** ** no CancelTask reaches a task that is done *)
Theorem C03_task_cancel_never_after_done :
  forall tr, let s := trun tinit tr in
    t_late s = 0 /\ (t_done s = true -> Forall dead (t_cs s) /\ tstep s TCancel = s).
Proof. exact task_cancel_never_after_done. Qed.
Print Assumptions C03_task_cancel_never_after_done.

(** ** kernel: the run ends exactly when nothing unrevoked is queued; no activation executes twice (the
    executed sequence is strictly increasing in (due time, schedule order)) *)
Theorem C03_ends_iff_quiescent :
  forall l, next l = None <-> Forall (fun b => is_revoked (revoked l) b = true) (queued l).
Proof. exact next_none_iff_quiescent. Qed.
Print Assumptions C03_ends_iff_quiescent.

Theorem C03_no_activation_twice :
  forall (S : Type) (client : S -> loop -> activation -> S * list kop) n st l,
    inv l -> StronglySorted (ev_lt) (kexec S client n st l).
Proof. exact exec_sorted. Qed.
Print Assumptions C03_no_activation_twice.

(** ** kernel: a revoked wake-up is never executed, and revoking is final - whatever any client does.
    (Every leaving waiter revokes: `finally: wake_up.revoke()` of postpone/suspend, `__unsubscribe__` of a scheduled
    subscription, a finished task revoking its pending cancellations.  The harness observes the other half on the real
    loop: no activation is ever executed for a coroutine that has ended - probe 'stale'.) *)
Theorem C03_revoked_never_executed :
  forall (S : Type) (client : S -> loop -> activation -> S * list kop) n st l,
    inv l -> Forall (fun x => is_revoked (revoked (x_loop x)) (e_act (x_ev x)) = false) (kexec_x S client n st l).
Proof. exact revoked_never_executed. Qed.
Print Assumptions C03_revoked_never_executed.

Theorem C03_revoke_is_final :
  forall (S : Type) (client : S -> loop -> activation -> S * list kop) n st l i j xi xj s,
    inv l -> i < j ->
    nth_error (kexec_x S client n st l) i = Some xi -> nth_error (kexec_x S client n st l) j = Some xj ->
    In (KRevoke s) (x_ops xi) -> a_sig (e_act (x_ev xj)) <> Some s.
Proof. exact revoke_is_final. Qed.
Print Assumptions C03_revoke_is_final.

(** non-vacuity: a signal scheduled twice and revoked in between executes neither time *)
Example C03_revoke_example :
  map (fun e => a_sig (e_act e))
      (kexec nat (fun k l a => (S k, nth k [[KAfter (Fin 1) 0%nat (Some 7%nat); KNow 0%nat None]; [KRevoke 7%nat; KAfter (Fin 2) 0%nat (Some 7%nat); KAfter (Fin 3) 0%nat None]] []))
             10 0%nat (loop_init 1 (Fin 0)))
  = [None; None; None].
Proof. vm_compute. reflexivity. Qed.

(** ** livelock, kernel part: the number of activations executed in (the rest of) a time step is bounded by
    the number queued for it plus the number of schedule-for-now requests issued during it.
    _partial: the bound of those requests per API operation (1 + number of waiters woken) is argued in
    design_notes/C03.md and measured by the harness monitor, not proved in Coq. *)
Theorem C03_step_budget_partial :
  forall (S : Type) (client : S -> loop -> activation -> S * list kop) n st l,
    inv l ->
    step_execs (now l) (kexec_x S client n st l)
    <= length (pending l) + step_knows (now l) (kexec_x S client n st l).
Proof. exact step_budget. Qed.
Print Assumptions C03_step_budget_partial.

(** ** non-vacuity: each way of leaving is reachable, with activations still queued / lists non-empty on the way *)
Example C03_wake_then_leave :   (* plain subscription, awake, delivery, finally *)
  let s := wrun 5 winit [ESub Plain; EAwake; EPop; EUnwind; EAwake; EPop] in
  w_ph s = Left ByWake /\ w_got s = [5] /\ w_revk s = true.
Proof. vm_compute. auto. Qed.

Example C03_cancel_races_wakeup :   (* awake, then a foreign signal before the kernel delivers w: revoked, skipped *)
  let s := wrun 5 winit [ESub Plain; EAwake; EForeign] in
  w_ph s = Left BySignal /\ w_q s = [5] /\ w_revk s = true /\
  w_got (wrun 5 s [EPop; EAwake; EPop]) = [].
Proof. vm_compute. auto. Qed.

Example C03_cancel_before_wakeup :  (* foreign signal while still in the waiting list: removed *)
  let s := wrun 5 winit [ESub Plain; EForeign; EAwake; EPop] in
  w_ph s = Left BySignal /\ w_list s = [] /\ w_q s = [] /\ w_sched s = false.
Proof. vm_compute. auto. Qed.

Example C03_already_true :   (* Condition.__subscribe__ of a true condition (until on an already-true date) *)
  let s := wrun 5 winit [ESub CondTrue; EPop; EForeign] in w_ph s = Left BySignal /\ w_got s = [5].
Proof. vm_compute. auto. Qed.

Example C03_scope_two_failures :  (* two children fail, one signal is delivered inside, the other is revoked *)
  let s := crun cinit [CFail; CFail; CPop; CClose; CFail; CPop; CPop] in
  c_got s = 1 /\ c_q s = 0 /\ c_in s = false.
Proof. vm_compute. auto. Qed.

Example C03_task_cancel_twice :  (* two cancels; the first is delivered and the task ends; the second is revoked *)
  let s := trun tinit [TStart; TCancel; TCancel; TPop 0; TEnd; TPop 1; TCancel] in
  t_got s = 1 /\ t_done s = true /\ length (t_cs s) = 2.
Proof. vm_compute. auto. Qed.

Example C03_inv_init : inv (loop_init 3 (Fin 0)).
Proof. exact (loop_init_inv 3 (Fin 0)). Qed.

Example C03_budget_demo :   (* 3 roots, root 0 postpones: 4 executions at time 0 <= 3 queued + 1 request *)
  step_execs (Fin 0) (kexec_x unit demo_client 10 tt (loop_init 3 (Fin 0))) = 4 /\
  length (pending (loop_init 3 (Fin 0))) = 3 /\
  step_knows (Fin 0) (kexec_x unit demo_client 10 tt (loop_init 3 (Fin 0))) = 1.
Proof. exact demo_budget. Qed.

(** (A) the tie to /repo's current source: every function this property's models were transcribed from has, in the
    tree this run is checking, the normalised source it had when the models were validated (hashes regenerated from
    /repo into gen/Generated.v on every run; pins in gen/SourcePins.v).  A change to one of them invalidates the
    transcription until it is re-validated. *)
From UsimGen Require SourcePins Pin_C03.
Theorem C03_modelled_source_unchanged : forallb SourcePins.pin_ok Pin_C03.pins = true.
Proof. exact Pin_C03.src_unchanged. Qed.

(** ** known findings: on the faithful machine the full-strength statement "run() never ends with an internal
    signal / internal assertion" is FALSE; witnesses (also directed scenarios of the check, where the
    implementation shows the same trace) *)
From Coq Require Import ZArith.
From Usim Require Refuted.
Theorem C03_no_internal_signal_escapes_refuted :
  exists s, In [2; 91; 21; 2]%Z (Scenario.run_scenario 6000 200000 s).
Proof. exact Refuted.internal_signal_escapes_refuted. Qed.
Theorem C03_no_internal_assertion_escapes_refuted :
  exists s, In [1; 91; 20]%Z (Scenario.run_scenario 6000 200000 s).
Proof. exact Refuted.internal_assertion_escapes_refuted. Qed.
Print Assumptions C03_no_internal_signal_escapes_refuted.
