(** C06 -- Task lifecycle: forward-only status, stable result, precise cancellation.
    Model: theories/TaskProto.v (one task, nondeterministic environment and payload),
    proofs: theories/TaskProtoProps.v.  All statements range over every reachable state / every
    sequence of transitions (no bound on the number of cancels, awaiters, suspensions). *)
From Coq Require Import List ZArith Bool Lia String.
From Usim Require Import Tables TaskProto TaskProtoProps.
From UsimGen Require Import Generated GeneratedProps.
Import ListNotations.
Open Scope Z_scope.

(** the TaskState enum regenerated from usim/_primitives/task.py is the one the model uses *)
Theorem taskstate_table : gen_taskstate = model_taskstate.
Proof. exact taskstate_agrees. Qed.
Print Assumptions taskstate_table.

Theorem status_in_table : forall st, In (status_name st, status_code_str st) gen_taskstate.
Proof. exact TaskProtoProps.status_in_table. Qed.
Print Assumptions status_in_table.

(** the invariant holds in every reachable state *)
Theorem reachable_inv : forall s, reachable s -> Inv s.
Proof. exact TaskProtoProps.reachable_inv. Qed.
Print Assumptions reachable_inv.

(** 1. status: one step keeps it or moves it strictly forward out of a non-final state *)
Theorem status_step : forall s o s', Inv s -> step s o = Some s' ->
  status_of s' = status_of s \/
  (terminal (status_of s) = false /\ (rank (status_of s) < rank (status_of s'))%nat).
Proof. exact TaskProtoProps.status_step. Qed.
Print Assumptions status_step.

Theorem status_forward_only : forall ops s s', Inv s -> run s ops = Some s' ->
  (rank (status_of s) <= rank (status_of s'))%nat /\
  (terminal (status_of s) = true -> status_of s' = status_of s).
Proof. exact TaskProtoProps.status_forward_only. Qed.
Print Assumptions status_forward_only.

(** 2. Done.__set_done__ is called at most once, its assertion never trips *)
Theorem done_once : forall s, reachable s ->
  assert_failed s = false /\ (done_sets s <= 1)%nat /\ (done s = true <-> done_sets s = 1%nat).
Proof. exact TaskProtoProps.done_once. Qed.
Print Assumptions done_once.

(** 3. the outcome never changes once the task is done *)
Theorem result_stable_after_done : forall ops s s', Inv s -> done s = true -> run s ops = Some s' ->
  result s' = result s /\ done s' = true.
Proof. exact TaskProtoProps.result_stable_after_done. Qed.
Print Assumptions result_stable_after_done.

(** 4. every completed await -- before or after completion, any number -- read the stored outcome *)
Theorem await_reads_result : forall s a s', step s (AwaitComplete a) = Some s' ->
  done s = true /\ observed s' = (a, result s) :: observed s /\ result s' = result s.
Proof. exact TaskProtoProps.await_reads_result. Qed.
Print Assumptions await_reads_result.

Theorem awaiters_agree : forall s, reachable s ->
  forall a o, In (a, o) (observed s) -> o = result s /\ exists r, o = Some r.
Proof. exact TaskProtoProps.awaiters_agree. Qed.
Print Assumptions awaiters_agree.

Theorem awaiters_agree_forever : forall ops s s' a o, reachable s -> In (a, o) (observed s) ->
  run s ops = Some s' -> In (a, o) (observed s') /\ o = result s'.
Proof. exact TaskProtoProps.awaiters_agree_forever. Qed.
Print Assumptions awaiters_agree_forever.

Theorem await_completes_when_done : forall s a, done s = true -> In a (waiting s) ->
  exists s', step s (AwaitComplete a) = Some s'.
Proof. exact TaskProtoProps.await_completes_when_done. Qed.
Print Assumptions await_completes_when_done.

(** 5. cancelled before the first activation: TaskCancelled(task, tok) at once, and no payload code
    ever runs, whatever happens afterwards *)
Theorem cancel_created_runs_nothing : forall s tok, reachable s ->
  phase_of s = Created -> result s = None ->
  exists s1, step s (Cancel tok) = Some s1 /\
    result s1 = Some (Error (ECancelled tok)) /\ done s1 = true /\ status_of s1 = StCancelled /\
    forall ops s2, run s1 ops = Some s2 ->
      ran s2 = false /\ result s2 = Some (Error (ECancelled tok)) /\ ~ In true (reports s2).
Proof. exact TaskProtoProps.cancel_created_runs_nothing. Qed.
Print Assumptions cancel_created_runs_nothing.

Theorem cancelled_created_first_activation : forall s d r s', reachable s ->
  phase_of s = Created -> result s <> None -> step s (Start d r) = Some s' ->
  r = RNone /\ phase_of s' = Finished /\ reports s' = [false] /\ ran s' = false /\
  result s' = result s /\ done_sets s' = done_sets s.
Proof. exact TaskProtoProps.cancelled_created_first_activation. Qed.
Print Assumptions cancelled_created_first_activation.

(** 6. cancelling a started, unfinished task *)
Theorem cancel_schedules_now : forall s tok, result s = None -> phase_of s <> Created ->
  step s (Cancel tok) = Some (set_pending s (pending s ++ [(tok, now s)])%list).
Proof. exact TaskProtoProps.cancel_schedules_now. Qed.
Print Assumptions cancel_schedules_now.

Theorem pending_same_step : forall s, reachable s ->
  forall tok t, In (tok, t) (pending s) -> t = now s.
Proof. exact TaskProtoProps.pending_same_step. Qed.
Print Assumptions pending_same_step.

Theorem no_tick_while_pending : forall s, pending s <> [] -> step s Tick = None.
Proof. exact TaskProtoProps.no_tick_while_pending. Qed.
Print Assumptions no_tick_while_pending.

Theorem deliver_enabled : forall s tok t, reachable s -> In (tok, t) (pending s) ->
  exists s', step s (Deliver tok (match phase_of s with Delaying => RNone | _ => RPropagate end)) = Some s'.
Proof. exact TaskProtoProps.deliver_enabled. Qed.
Print Assumptions deliver_enabled.

Theorem cancel_suspended_same_step : forall s tok r s', reachable s ->
  step s (Deliver tok r) = Some s' ->
  (exists t, In (tok, t) (pending s) /\ t = now s /\ now s' = now s) /\
  ((phase_of s = Suspended /\ r = RPropagate) \/ phase_of s = Delaying ->
   result s' = Some (Error (ECancelled tok)) /\ done s' = true /\ status_of s' = StCancelled /\
   reports s' = [false] /\ pending s' = [] /\ phase_of s' = Finished /\ ran s' = ran s).
Proof. exact TaskProtoProps.cancel_suspended_same_step. Qed.
Print Assumptions cancel_suspended_same_step.

Theorem first_cancellation_wins : forall s tok ops s', reachable s ->
  result s = Some (Error (ECancelled tok)) -> run s ops = Some s' ->
  result s' = Some (Error (ECancelled tok)).
Proof. exact TaskProtoProps.first_cancellation_wins. Qed.
Print Assumptions first_cancellation_wins.

(** 7. cancelling a finished task does nothing at all *)
Theorem cancel_finished_noop : forall s tok, result s <> None -> step s (Cancel tok) = Some s.
Proof. exact TaskProtoProps.cancel_finished_noop. Qed.
Print Assumptions cancel_finished_noop.

(** 8. the parent is told failed=True only for a genuine exception of the payload, and exactly once *)
Theorem report_step : forall s o s', Inv s -> step s o = Some s' ->
  reports s' = reports s \/ (exists b, reports s' = b :: reports s /\ (b = true -> genuine o)).
Proof. exact TaskProtoProps.report_step. Qed.
Print Assumptions report_step.

Theorem cancel_never_fails_parent : forall s, reachable s ->
  (forall tok s', step s (Cancel tok) = Some s' -> reports s' = reports s) /\
  (reports s = [] /\ phase_of s <> Finished \/
   reports s = [false] /\ phase_of s = Finished \/
   reports s = [true] /\ phase_of s = Finished /\ exists e c, result s = Some (Error (ERaised e c))) /\
  (forall x, result s = Some (Error (ECancelled x)) \/ result s = Some (Error (EClosed x)) \/
             result s = Some (Value x) -> ~ In true (reports s)).
Proof. exact TaskProtoProps.cancel_never_fails_parent. Qed.
Print Assumptions cancel_never_fails_parent.

(** the hypotheses are satisfiable: concrete histories of the model *)
Example cancel_while_suspended_example :
  option_map project
    (run init [Start false RSuspend; AwaitStart 1; Cancel 7; Cancel 8; Deliver 7 RPropagate;
               AwaitComplete 1; Tick; AwaitStart 2; AwaitComplete 2; Cancel 9])
  = Some [4; 2; 7; 1; 1; 1; 1; 0; 2; 2; 7].
Proof. exact TaskProtoProps.cancel_while_suspended. Qed.

Example cancel_before_start_example :
  option_map project (run init [AwaitStart 1; Cancel 3; Start false RNone; AwaitComplete 1])
  = Some [4; 2; 3; 1; 1; 0; 1; 0; 1; 2; 3].
Proof. exact TaskProtoProps.cancel_before_start. Qed.

Example reachable_suspended_example : exists s, reachable s /\ phase_of s = Suspended /\ result s = None.
Proof. exact TaskProtoProps.reachable_suspended. Qed.

(** (A) the tie to /repo's current source: every function this property's models were transcribed from has, in the
    tree this run is checking, the normalised source it had when the models were validated (hashes regenerated from
    /repo into gen/Generated.v on every run; pins in gen/SourcePins.v).  A change to one of them invalidates the
    transcription until it is re-validated. *)
From UsimGen Require SourcePins Pin_C06.
Theorem C06_modelled_source_unchanged : forallb SourcePins.pin_ok Pin_C06.pins = true.
Proof. exact Pin_C06.src_unchanged. Qed.
