From Coq Require Import List ZArith Bool Lia String.
From Usim Require Import Tables TaskProto.
From UsimGen Require Import Generated GeneratedProps.
Theorem taskstate_table : gen_taskstate = model_taskstate.
Proof. exact taskstate_agrees. Qed.
Print Assumptions taskstate_table.
