(* C19 -- SimPy resources keep capacity, conserve content, serve requests in policy order.
   Model: theories/SimRes.v, proofs: theories/SimResProps.v.  Every statement quantifies over ALL
   histories (lists of operations put/get/request/release/cancel/process-callbacks/clock) unless it
   is a statement about a single step from an arbitrary state. *)
From Coq Require Import ZArith List Bool Sorted Permutation.
From Usim Require Import SimRes SimResProps.
Import ListNotations.
Local Open Scope Z_scope.

(* Container: level within [0, capacity], level = initial + granted puts - granted gets *)
Theorem container_bounds_conservation : forall cap i h s tr,
    0 <= i <= cap -> run (container cap) (init i) h = (s, tr) ->
    0 <= content s <= cap /\ content s = i + sum_puts tr - sum_gets tr.
Proof. exact SimResProps.container_bounds_conservation. Qed.
Print Assumptions container_bounds_conservation.

(* Store: items handed out = prefix of items accepted, the rest is the content; never above capacity;
   every granted get receives an item *)
Theorem store_fifo_exactly_once : forall cap h s tr,
    run (store cap) (init []) h = (s, tr) ->
    put_items tr = got_items tr ++ content s /\ (length (content s) <= cap)%nat /\
    Forall (@got_something unit) tr.
Proof. exact SimResProps.store_fifo_exactly_once. Qed.
Print Assumptions store_fifo_exactly_once.

(* PriorityStore: the trace is accepted by the bag specification (every get returns an element of the
   bag with minimal key and removes exactly it); the content is that bag, sorted *)
Theorem prioritystore_min_first : forall cap h s tr,
    run (prioritystore cap) (init []) h = (s, tr) ->
    StronglySorted item_leP (content s) /\ (length (content s) <= cap)%nat /\
    exists b, bag_run [] tr = Some b /\ Permutation b (content s).
Proof. exact SimResProps.prioritystore_min_first. Qed.
Print Assumptions prioritystore_min_first.

(* FilterStore: every get receives the first stored item its filter accepts (fs_spec); after anything
   that serves the get queue NO waiting request, wherever it waits, accepts a stored item *)
Theorem filterstore_first_match_nonblocking : forall cap,
    (forall h s tr, run (filterstore cap) (init []) h = (s, tr) ->
                    fs_spec [] tr (content s) /\ (length (content s) <= cap)%nat) /\
    (forall s o s' outs,
        step (filterstore cap) s o = (s', outs) -> triggers_get (filterstore cap) s o = true ->
        forall r x, In r (getq s') -> In x (content s') -> accepts (snd r) x = false).
Proof. exact SimResProps.filterstore_first_match_nonblocking. Qed.
Print Assumptions filterstore_first_match_nonblocking.

(* Resource / PriorityResource / PreemptiveResource: users <= capacity, and the users are exactly the
   requests granted and neither released nor evicted since *)
Theorem resource_capacity : forall k cap h s tr,
    run (res_mach k cap) (init []) h = (s, tr) ->
    (length (content s) <= cap)%nat /\ Permutation (holders tr) (map uid (content s)).
Proof. exact SimResProps.resource_capacity. Qed.
Print Assumptions resource_capacity.

(* Grant order: with request ids issued in increasing order, after every step of every history the
   requests granted by the step (in grant order) followed by the requests still waiting are sorted by
   the policy: request order (FIFO types), (priority, time, not preempt, request order) for
   PriorityResource and PreemptiveResource.  In particular the priority queue stays sorted forever. *)
Theorem grant_policy_order :
    (forall C P G N (M : mach C P G N), fifo_mach M ->
     forall c0 h o s outs0 s' outs,
       incr 0 (h ++ [o]) -> run M (init c0) h = (s, outs0) -> step M s o = (s', outs) ->
       granted_then_waiting M (@idlt P) s' outs) /\
    (forall C G N (M : mach C req G N), prio_mach M ->
     forall c0 h o s outs0 s' outs,
       incr 0 (h ++ [o]) -> run M (init c0) h = (s, outs0) -> step M s o = (s', outs) ->
       granted_then_waiting M rq_lt s' outs) /\
    all_fifo_or_prio.
Proof. exact SimResProps.grant_policy_order. Qed.
Print Assumptions grant_policy_order.

(* PreemptiveResource: every eviction in every history is made for a preempting request whose key is
   STRICTLY smaller than the victim's, when all slots are taken, and the victim is the worst user;
   the other resource types never evict *)
Theorem preempt_strictly_better : forall k cap h s tr,
    run (res_mach k cap) (init []) h = (s, tr) -> Forall (eviction_justified k cap) tr.
Proof. exact SimResProps.preempt_strictly_better. Qed.
Print Assumptions preempt_strictly_better.

(* ... and such a request IS served by evicting the worst user *)
Theorem preempt_complete : forall cap t c r v rc,
    length c = cap -> preempt (snd r) = true -> rev c = v :: rc -> klt (rkey (snd r)) (rkey (ureq v)) ->
    exists c', pre_put cap t c r = Some (c', Some v).
Proof. exact SimResProps.preempt_complete. Qed.
Print Assumptions preempt_complete.

(* No idle capacity with a grantable head *)
Theorem grantable_head_granted : forall C P G N (M : mach C P G N), well_behaved M ->
    (forall s o s' outs, step M s o = (s', outs) -> triggers_put M s o = true -> grantable_put M s' = false) /\
    (forall s o s' outs, step M s o = (s', outs) -> triggers_get M s o = true -> grantable_get M s' = false) /\
    (forall s o s' outs, step M s o = (s', outs) -> is_cancel o = false ->
                         Jput M s /\ Jget M s -> Jput M s' /\ Jget M s') /\
    (forall c0 h s outs, run M (init c0) h = (s, outs) -> cancel_free h -> pend s = [] ->
                         grantable_put M s = false /\ grantable_get M s = false).
Proof. exact SimResProps.grantable_head_granted. Qed.
Print Assumptions grantable_head_granted.

Theorem every_resource_well_behaved : all_well_behaved.
Proof. exact SimResProps.every_resource_well_behaved. Qed.
Print Assumptions every_resource_well_behaved.

(* cancel / release give back exactly what was held *)
Theorem cancel_release_give_back : forall k cap h s tr,
    run (res_mach k cap) (init []) h = (s, tr) ->
    (forall id rid, exists s',
        step (res_mach k cap) s (OGet id rid) = (s', [EGet id rid None]) /\
        content s' = remove_user rid (content s) /\ putq s' = putq s /\ getq s' = [] /\
        length (content s') =
          (length (content s) - (if existsb (fun u => Nat.eqb (uid u) rid) (content s) then 1 else 0))%nat /\
        (forall u, uid u <> rid -> (In u (content s') <-> In u (content s)))) /\
    (forall id, step (res_mach k cap) s (OCancel id) =
                (St (now s) (content s) (remove_id id (putq s)) (remove_id id (getq s)) (pend s), [])).
Proof. exact SimResProps.cancel_release_give_back. Qed.
Print Assumptions cancel_release_give_back.

Theorem cancel_exact : forall C P G N (M : mach C P G N) s id,
    step M s (OCancel id) =
    (St (now s) (content s) (remove_id id (putq s)) (remove_id id (getq s)) (pend s), []).
Proof. exact SimResProps.cancel_exact. Qed.
Print Assumptions cancel_exact.

(* ------------------------------------------------------------------------------------------ *)
(* Examples: the hypotheses are satisfiable, the interesting behaviours occur *)

(* increasing ids *)
Example incr_satisfiable :
  incr 0 [OPut 0%nat (Req 1 0 true 0); OTime 2; OPut 1%nat (Req 0 2 true 1); OGet 2%nat 0%nat; OCancel 1%nat;
          OProc (P := req) (G := nat) 2%nat].
Proof. simpl. repeat split; auto with arith. Qed.

(* PreemptiveResource, capacity 1: user 0 (priority 2) is evicted by request 1 (priority 0); request 2
   (priority 1, does not preempt) waits; the trace carries the Preempted details (victim, usage_since) *)
Example preemption_happens :
  let h := [OPut 0%nat (Req 2 0 true 10); OTime 3; OPut 1%nat (Req 0 3 true 11); OPut 2%nat (Req 1 3 false 12)] in
  snd (run (preemptiveresource 1) (init []) h)
  = [EPut 0%nat (Req 2 0 true 10) None; EPut 1%nat (Req 0 3 true 11) (Some (0%nat, Req 2 0 true 10, 0))]
  /\ map fst (putq (fst (run (preemptiveresource 1) (init []) h))) = [2%nat].
Proof. vm_compute. split; reflexivity. Qed.

(* an equal key does not evict, a non-preempting better request does not evict *)
Example no_eviction_without_strictly_better :
  snd (run (preemptiveresource 1) (init [])
         [OPut 0%nat (Req 1 0 true 10); OPut 1%nat (Req 1 0 true 11); OPut 2%nat (Req 0 0 false 12)])
  = [EPut 0%nat (Req 1 0 true 10) None].
Proof. vm_compute. reflexivity. Qed.

(* PriorityResource: the queue is still sorted after the first grant (regression D8): requests with
   priorities 5, 3, 1 queue behind a user; releases serve 1, then 3, then 5 *)
Example priority_order_after_first_grant :
  let h := [OPut 0%nat (Req 0 0 true 0); OPut 1%nat (Req 5 0 true 1); OGet 2%nat 0%nat; OProc 2%nat;
            OPut 3%nat (Req 3 0 true 3); OPut 4%nat (Req 1 0 true 4); OPut 5%nat (Req 5 0 true 5);
            OGet 6%nat 1%nat; OProc 6%nat; OGet 7%nat 4%nat; OProc 7%nat; OGet 8%nat 3%nat; OProc 8%nat] in
  puts_of (snd (run (priorityresource 1) (init []) h))
  = [(0%nat, Req 0 0 true 0); (1%nat, Req 5 0 true 1); (4%nat, Req 1 0 true 4); (3%nat, Req 3 0 true 3);
     (5%nat, Req 5 0 true 5)].
Proof. vm_compute. reflexivity. Qed.

(* FilterStore: request 0 wants an odd key and matches nothing; the later request 1 is served *)
Example filterstore_blocked_head_does_not_block :
  let r := run (filterstore 2) (init []) [OGet 0%nat (2, 1); OGet 1%nat (2, 0); OPut 2%nat (4, 7)] in
  snd r = [EPut 2%nat (4, 7) None] /\ map fst (getq (fst r)) = [0%nat; 1%nat] /\
  snd (step (filterstore 2) (fst r) (OProc 2%nat)) = [EGet 1%nat (2, 0) (Some (4, 7))].
Proof. vm_compute. repeat split; reflexivity. Qed.

(* SimPy semantics kept on purpose: cancelling the head does not re-trigger the queue.  Container with
   level 2: get 3 waits, get 1 waits behind it; cancelling the first leaves a grantable head and no
   pending callback -- which is why the third part of grantable_head_granted excludes cancel *)
Example cancel_may_leave_grantable_head :
  let s := fst (run (container 5) (init 2) [OGet 0%nat 3; OGet 1%nat 1; OCancel 0%nat]) in
  grantable_get (container 5) s = true /\ pend s = [].
Proof. vm_compute. split; reflexivity. Qed.

(* ... and the next operation that serves the queue grants it *)
Example next_trigger_serves_it :
  snd (run (container 5) (init 2) [OGet 0%nat 3; OGet 1%nat 1; OCancel 0%nat; OGet 2%nat 4])
  = [EGet 1%nat 1 tt].
Proof. vm_compute. reflexivity. Qed.

(* PriorityStore hands out the minimum; Store keeps arrival order *)
Example stores_order :
  got_items (snd (run (prioritystore 3) (init []) [OPut 0%nat (3, 0); OPut 1%nat (1, 1); OPut 2%nat (2, 2);
                                                  OGet 3%nat tt; OGet 4%nat tt])) = [(1, 1); (2, 2)] /\
  got_items (snd (run (store 3) (init []) [OPut 0%nat (3, 0); OPut 1%nat (1, 1); OPut 2%nat (2, 2);
                                          OGet 3%nat tt; OGet 4%nat tt])) = [(3, 0); (1, 1)].
Proof. vm_compute. split; reflexivity. Qed.

(** (A) the tie to /repo's current source: every function this property's models were transcribed from has, in the
    tree this run is checking, the normalised source it had when the models were validated (hashes regenerated from
    /repo into gen/Generated.v on every run; pins in gen/SourcePins.v).  A change to one of them invalidates the
    transcription until it is re-validated. *)
From UsimGen Require SourcePins Pin_C19.
Theorem C19_modelled_source_unchanged : forallb SourcePins.pin_ok Pin_C19.pins = true.
Proof. exact Pin_C19.src_unchanged. Qed.
