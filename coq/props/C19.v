From Usim Require Import SimRes.
