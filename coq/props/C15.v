(** C15 -- run() ends at quiescence, reports failures and keeps simulations isolated. *)
From Coq Require Import ZArith List Bool.
From RecordUpdate Require Import RecordSet.
From Usim Require Import XTime Kernel KernelProps Machine MachineProps Handler HandlerProps.
Import ListNotations.
Import RecordSetNotations.

(** [run()] returns only when no activity can make progress: the loop stops iff every queued activation is revoked *)
Theorem C15_ends_iff_quiescent :
  forall l, next l = None <-> Forall (fun b => is_revoked (revoked l) b = true) (queued l).
Proof. exact next_none_iff_quiescent. Qed.
Print Assumptions C15_ends_iff_quiescent.

Theorem C15_machine_quiet :
  forall fuel m, next (kern_of m) = None -> mstep fuel m = m <| result := RQuiet |>.
Proof. exact mstep_quiet. Qed.

(** the first exception escaping a root activity is re-raised unchanged; an unreceived return value is an error;
    afterwards nothing executes *)
Theorem C15_first_escape_reraised :
  forall m c e, finish_ctx m c [] (inr e) = SDone ((set_act m (c_aid c) ADead) <| result := RRaised e |>).
Proof. exact escape_is_result. Qed.
Theorem C15_leak_reported :
  forall m c v, v <> VU ->
    finish_ctx m c [] (inl v) = SDone ((set_act m (c_aid c) ADead) <| result := RRaised EActivityLeak |>).
Proof. exact leak_reported. Qed.
Theorem C15_nothing_after_the_end :
  forall n fuel m, result m <> RGoing -> mrun (S n) fuel m = m.
Proof. exact mrun_stops. Qed.
Print Assumptions C15_nothing_after_the_end.

(** all root activities are queued for [start] in argument order (and the invariant holds initially) *)
Theorem C15_roots_queued_in_order :
  forall n start, pending (loop_init n start) = root_activations n 0 start /\ inv (loop_init n start).
Proof. intros n start. split; [reflexivity | exact (loop_init_inv n start)]. Qed.

(** the thread-local current simulation: visible while running, restored afterwards however the run ended
    and whatever ran nested inside, and untouched by other threads *)
Theorem C15_visible_while_running :
  forall h t l, cur (hstep h (Enter t l) t) = Some l.
Proof. exact during_run_visible. Qed.
Theorem C15_restored_after_run :
  forall t l inner h,
    Forall (fun o => op_thread o = t) inner -> balanced_from 0 inner = Some 0 ->
    hrun h (Enter t l :: inner ++ [Exit t]) t = h t.
Proof. exact after_run_restored. Qed.
Theorem C15_no_simulation_after_run :
  forall t l inner,
    Forall (fun o => op_thread o = t) inner -> balanced_from 0 inner = Some 0 ->
    cur (hrun hinit (Enter t l :: inner ++ [Exit t]) t) = None.
Proof. exact after_run_missing. Qed.
Theorem C15_threads_isolated :
  forall ops h t', Forall (fun o => op_thread o <> t') ops -> hrun h ops t' = h t'.
Proof. exact threads_independent. Qed.
Print Assumptions C15_threads_isolated.
Print Assumptions C15_restored_after_run.

(** (A) the tie to /repo's current source: every function this property's models were transcribed from has, in the
    tree this run is checking, the normalised source it had when the models were validated (hashes regenerated from
    /repo into gen/Generated.v on every run; pins in gen/SourcePins.v).  A change to one of them invalidates the
    transcription until it is re-validated. *)
From UsimGen Require SourcePins Pin_C15.
Theorem C15_modelled_source_unchanged : forallb SourcePins.pin_ok Pin_C15.pins = true.
Proof. exact Pin_C15.src_unchanged. Qed.
