(** C08 -- Awaiting a condition returns only when it is true, and is never missed.
    Model: the condition objects of the whole-program machine (theories/Machine.v, Lib.v, Scenario.v: the very
    functions that are run against the real library by whole-trace correspondence); proofs: theories/CondProps.v.
    Every statement quantifies over ALL expression trees (no depth bound) and ALL well-formed object states. *)
From Coq Require Import ZArith List Bool Lia.
From Coq Require String.
From RecordUpdate Require Import RecordSet.
From Usim Require Import XTime Tables Kernel Machine Lib Scenario CondProps.
From UsimGen Require Import Generated GeneratedProps.
Import ListNotations.
Import RecordSetNotations.

(** ** 1. derived conditions are boolean algebra on the current values *)
(** [sem] is the reference semantics (and = &&, or = ||, not = negb, atoms read the current time / flag /
    tracked value / task state); [truth o w] evaluates the expression with the library's constructors
    ([mk_notif]: flattening [&]/[|], [__invert__] per class) and then asks [__bool__] ([cond_true]) *)
Theorem C08_mk_notif_sem : forall o w, wf o -> well_formed_wt o w ->
  let '(o', n) := mk_notif o w in cond_true o' n = sem o w.
Proof. exact mk_notif_sem. Qed.
Print Assumptions C08_mk_notif_sem.

Theorem C08_and_is_and : forall o a b, wf o -> well_formed_wt o (WAnd a b) -> truth o (WAnd a b) = truth o a && truth o b.
Proof. exact and_is_and. Qed.
Theorem C08_or_is_or : forall o a b, wf o -> well_formed_wt o (WOr a b) -> truth o (WOr a b) = truth o a || truth o b.
Proof. exact or_is_or. Qed.
Theorem C08_not_is_not : forall o c, wf o -> well_formed_wt o (WNot c) -> truth o (WNot c) = negb (truth o c).
Proof. exact not_is_not. Qed.
Theorem C08_double_inversion : forall o c, wf o -> well_formed_wt o (WNot (WNot c)) -> truth o (WNot (WNot c)) = truth o c.
Proof. exact double_inversion. Qed.
Theorem C08_de_morgan_and : forall o a b, wf o -> well_formed_wt o (WNot (WAnd a b)) ->
  well_formed_wt o (WOr (WNot a) (WNot b)) /\ truth o (WNot (WAnd a b)) = truth o (WOr (WNot a) (WNot b)).
Proof. exact de_morgan_and. Qed.
Theorem C08_de_morgan_or : forall o a b, wf o -> well_formed_wt o (WNot (WOr a b)) ->
  well_formed_wt o (WAnd (WNot a) (WNot b)) /\ truth o (WNot (WOr a b)) = truth o (WAnd (WNot a) (WNot b)).
Proof. exact de_morgan_or. Qed.
Print Assumptions C08_and_is_and. Print Assumptions C08_or_is_or. Print Assumptions C08_not_is_not.
Print Assumptions C08_double_inversion. Print Assumptions C08_de_morgan_and. Print Assumptions C08_de_morgan_or.

(** constructing an expression appends objects only; every existing condition keeps its value and its waiters *)
Theorem C08_construction_preserves_truth : forall o w, wf o -> well_formed_wt o w ->
  let '(o', _) := mk_notif o w in
  (exists l, notifs o' = notifs o ++ l) /\ forall m, m < length (notifs o) -> cond_true o' m = cond_true o m.
Proof. exact mk_notif_preserves. Qed.
Print Assumptions C08_construction_preserves_truth.

(** the well-formedness invariant holds initially and is kept by expression construction, run-time flag
    allocation, the value setters and the waiting-list operations *)
Theorem C08_wf_init : forall s nroots, wf (init_objs s nroots).
Proof. exact wf_init_objs. Qed.
Theorem C08_wf_construction : forall o w, wf o -> well_formed_wt o w ->
  let '(o', n) := mk_notif o w in wf o' /\ ext o o' /\ n < length (notifs o').
Proof. exact mk_notif_wf. Qed.
Theorem C08_wf_alloc_flag : forall o, wf o -> wf (fst (alloc_flag o)).
Proof. exact wf_alloc_flag. Qed.
Theorem C08_wf_setters : forall o, wf o ->
  (forall f b, wf (fst (flag_set_sync o f b))) /\ (forall v z, wf (fst (tracked_set_sync o v z))) /\
  (forall t, wf (fst (set_done o t))) /\ (forall n, wf (fst (awake_all o n))) /\
  (forall n a w, wf (plain_subscribe o n a w)).
Proof.
  exact (fun o W => conj (fun f b => wf_flag_set o f b W) (conj (fun v z => wf_tracked_set o v z W)
           (conj (fun t => wf_set_done o t W) (conj (fun n => wf_awake_all o n W) (fun n a w => wf_plain_subscribe o n a w W))))).
Qed.
Print Assumptions C08_wf_init. Print Assumptions C08_wf_construction. Print Assumptions C08_wf_alloc_flag.
Print Assumptions C08_wf_setters.

(** ** 2. the fuel of [cond_true] is adequate: any fuel above the object's index gives the same answer *)
Theorem C08_fuel_adequate : forall o fuel n, graph_wf o -> n < fuel -> cond_true_f fuel o n = cond_true o n.
Proof. exact cond_true_fuel. Qed.
Theorem C08_wf_graph : forall o, wf o -> graph_wf o.
Proof. exact wf_graph. Qed.
Print Assumptions C08_fuel_adequate.

(** ** 3. never missed: the subscription of a connective to all its false leaves (fix D4a) *)
Theorem C08_pending_sound : forall o, graph_wf o -> forall n c, In c (pending_children o n) ->
  cond_true o c = false /\ is_conn (kind_of o c) = false.
Proof. exact pending_sound. Qed.
Theorem C08_monotone_wake_complete : forall o o', graph_wf o -> same_graph o o' -> forall n,
  is_conn (kind_of o n) = true -> cond_true o n = false -> cond_true o' n = true ->
  exists c, In c (pending_children o n) /\ cond_true o c = false /\ cond_true o' c = true.
Proof. exact monotone_wake_complete. Qed.
Theorem C08_pending_nonempty : forall o, wf o -> forall n,
  is_conn (kind_of o n) = true -> cond_true o n = false -> pending_children o n <> [].
Proof. exact pending_nonempty. Qed.
Theorem C08_pending_all_nil_iff : forall o n cs, wf o -> kind_of o n = NAll cs ->
  (pending_children o n = [] <-> cond_true o n = true).
Proof. exact pending_all_nil_iff. Qed.
Print Assumptions C08_pending_sound. Print Assumptions C08_monotone_wake_complete.
Print Assumptions C08_pending_nonempty. Print Assumptions C08_pending_all_nil_iff.

(** every leaf class schedules its whole waiting list when it becomes true *)
Theorem C08_flag_set_rising : forall o f o' ks, fval (get_flag o f) = false -> flag_set_sync o f true = (o', ks) ->
  let n := fnid (get_flag o f) in
  ks = wake_ops (waiting (get_notif o n)) /\ waiting (get_notif o' n) = [] /\ same_graph o o' /\
  (f < length (flags o) -> fval (get_flag o' f) = true).
Proof. exact flag_set_rising. Qed.
Theorem C08_flag_set_falling : forall o f o' ks, fval (get_flag o f) = true -> flag_set_sync o f false = (o', ks) ->
  let n := finv (get_flag o f) in
  ks = wake_ops (waiting (get_notif o n)) /\ waiting (get_notif o' n) = [] /\ same_graph o o' /\
  (f < length (flags o) -> fval (get_flag o' f) = false).
Proof. exact flag_set_falling. Qed.
Theorem C08_tracked_set_wakes : forall o v z o' ks, graph_wf o -> tracked_set_sync o v z = (o', ks) ->
  let o1 := o <| tracked := list_upd (tracked o) v ((get_track o v) <| tval := z |>) |> in
  same_graph o o' /\ env_same o1 o' /\
  forall n, In n (tlisteners (get_track o v)) -> cond_true o' n = true ->
    waiting (get_notif o' n) = [] /\ forall a w, In (a, w) (waiting (get_notif o n)) -> In (KNow a (Some w)) ks.
Proof. exact tracked_set_wakes. Qed.
Theorem C08_set_done_wakes : forall o t o' ks, set_done o t = (o', ks) ->
  let n := t_done (get_task o t) in
  ks = wake_ops (waiting (get_notif o n)) /\ waiting (get_notif o' n) = [] /\ same_graph o o' /\
  (t < length (tasks o) -> t_doneval (get_task o' t) = true).
Proof. exact set_done_wakes. Qed.
Theorem C08_subscribe_after_false : forall o n d a w, graph_wf o -> n < length (notifs o) -> kind_of o n = NAfter d ->
  cond_true o n = false ->
  exists o' ks sp, subscribe_pres o n a w = mkpres o' ks sp (inl VU) /\
    In (a, w) (waiting (get_notif o' n)) /\ trig (get_notif o' n) = true /\
    (trig (get_notif o n) = false ->
     In (KAt d (length (astat o)) None) ks /\ In (length (astat o), trigger_prog n) sp).
Proof. exact subscribe_after_false. Qed.
Print Assumptions C08_flag_set_rising. Print Assumptions C08_flag_set_falling. Print Assumptions C08_tracked_set_wakes.
Print Assumptions C08_set_done_wakes. Print Assumptions C08_subscribe_after_false.

(** ** 4. subscribing to a true condition delivers immediately: nobody is parked on a true condition *)
Theorem C08_subscribe_true_immediate : forall o n a w, wf o -> cond_true o n = true ->
  subscribe_pres o n a w = okk o [KMark w; KNow a (Some w)].
Proof. exact subscribe_true_immediate. Qed.
Theorem C08_never_parked_on_true : forall o n a w o' ks sp r, wf o -> cond_true o n = true ->
  subscribe_pres o n a w = mkpres o' ks sp r -> o' = o /\ In (KNow a (Some w)) ks /\ r = inl VU.
Proof. exact never_parked_on_true. Qed.
Theorem C08_cond_subscribe_spec : forall o n a w,
  cond_subscribe o n a w = if cond_true o n then okk o [KMark w; KNow a (Some w)] else oku (plain_subscribe o n a w).
Proof. exact cond_subscribe_spec. Qed.
Print Assumptions C08_subscribe_true_immediate. Print Assumptions C08_never_parked_on_true.

(** ** tables regenerated from /repo on this run *)
Theorem C08_gen_inverse_sound : forall o o' a b,
  lookup_cmp gen_cmp_inverse o = Some o' -> cmp_eval o' a b = negb (cmp_eval o a b).
Proof. exact gen_inverse_sound. Qed.
Theorem C08_invert_class_agrees : gen_invert_class = model_invert_class.
Proof. exact invert_class_agrees. Qed.
Theorem C08_time_cmp_agrees : gen_time_cmp = model_time_cmp.
Proof. exact time_cmp_agrees. Qed.
Print Assumptions C08_gen_inverse_sound. Print Assumptions C08_invert_class_agrees. Print Assumptions C08_time_cmp_agrees.

(** ** the hypotheses are satisfiable *)
Definition ex_o : objs := ex_state 2 [0; 5]%Z.
Definition ex_w : wt := WNot (WAnd (WFlag 0) (WOr (WCmp 1 Ge 2) (WNot (WCmp2 0 Lt 1)))).
Example C08_ex_wf : wf ex_o /\ well_formed_wt ex_o ex_w.
Proof. split; [apply wf_ex_state | reflexivity]. Qed.
Example C08_ex_truth : truth ex_o ex_w = true /\ sem ex_o ex_w = true /\ truth ex_o (WNot ex_w) = false.
Proof. vm_compute. auto. Qed.
(** what the library rejects is not well formed *)
Example C08_ex_rejected : wt_ok ex_o (WNot (WMoment (Fin 3))) = false /\ wt_ok ex_o (WAnd (WDelay (Fin 2)) (WFlag 0)) = false
  /\ wt_ok ex_o (WNot (WOr (WFlag 1) (WDelay (Fin 1)))) = false.
Proof. vm_compute. auto. Qed.
Definition ex_and : wt := WAnd (WFlag 0) (WOr (WFlag 1) (WCmp 0 Gt 3)).
(** a nested connective: false with pending leaves [flag0; flag1; tracked0 > 3]; a waiter (activity 7) subscribed
    to the leaves is scheduled by [Flag.set] (connective still false: re-subscription to [flag1; cmp]) and by
    [Tracked.set], after which the connective is true *)
Example C08_ex_wake :
  let '(o1, n) := mk_notif ex_o ex_and in
  let o2 := plain_subscribe (plain_subscribe o1 0 7 70) 4 7 71 in
  let '(o3, k3) := flag_set_sync o2 0 true in
  let '(o4, k4) := tracked_set_sync o3 0 4 in
  cond_true o1 n = false /\ pending_children o1 n = [0; 2; 4] /\
  cond_true o3 n = false /\ k3 = [KNow 7 (Some 70)] /\ pending_children o3 n = [2; 4] /\
  cond_true o4 n = true /\ k4 = [KNow 7 (Some 71)].
Proof. vm_compute. repeat split. Qed.
Example C08_ex_subscribe_true :
  subscribe_pres ex_o 1 7 70 = okk ex_o [KMark 70; KNow 7 (Some 70)] /\ cond_true ex_o 1 = true.
Proof. split; [apply subscribe_true_immediate; [apply wf_ex_state | reflexivity] | reflexivity]. Qed.

(** ** machine level: `await condition` ([Condition.__await__]: `while not self: wait`) leaves its loop only from
    the loop head, in a state in which the condition evaluates true, in the same activation and without any change
    of state -- for an arbitrary machine state, activity and continuation (symbolic execution of the transcription) *)
From Usim Require Import Machine Lib WaitSpecs.
Theorem C08_wait_loop_exits_only_when_true :
  forall k a m n st outer,
    exec (4 + k) a m (MRun (While (fun o => negb (cond_true o n)) (notif_await n))) {| c_aid := a; c_stack := st |} outer
    = if negb (cond_true (ob m) n)
      then exec (1 + k) a m (MRun (notif_await n))
                {| c_aid := a;
                   c_stack := FBind (fun _ => Ret (VCont VU))
                              :: FLoop (fun _ => Dyn (fun o _ => if negb (cond_true o n)
                                                                 then notif_await n ;;; Ret (VCont VU)
                                                                 else Ret (VBreak VU))) :: st |} outer
      else exec k a m (MRet VU) {| c_aid := a; c_stack := st |} outer.
Proof. intros k a m n st outer. exact (while_exit_only_when_false k a m (fun o => negb (cond_true o n)) (notif_await n) st outer). Qed.
Print Assumptions C08_wait_loop_exits_only_when_true.

(** A Flag and its inverse as two waiter lists (FlagList.v - compared on every run with the real Flag driven under a stand-in
    loop): for EVERY history of subscribe / unsubscribe / set, nobody is parked on a side that currently holds (a waiter is
    never left waiting while its condition is true); an edge wakes everybody parked on that side, oldest first, and nobody
    else; a set without an edge wakes nobody; subscribing to a side that holds is answered at once. *)
From Usim Require FlagList.
Theorem C08_flag_nobody_parked_on_a_true_side :
  forall ops, (FlagList.value (FlagList.run ops) = true -> FlagList.wf (FlagList.run ops) = []) /\
              (FlagList.value (FlagList.run ops) = false -> FlagList.wi (FlagList.run ops) = []).
Proof. exact FlagList.never_parked_on_a_side_that_holds. Qed.
Print Assumptions C08_flag_nobody_parked_on_a_true_side.

(** ... and nobody is lost: every subscriber of a history is still parked on one of the two lists, or has been scheduled, or
    withdrew itself - whatever the interleaving of subscriptions, withdrawals and edges *)
Theorem C08_flag_waiters_are_never_lost :
  forall ops p, In p (FlagList.subs_of ops) ->
    FlagList.accounted (FlagList.run ops) p \/ In p (FlagList.unsubs_of ops).
Proof. exact FlagList.nobody_is_lost. Qed.
Print Assumptions C08_flag_waiters_are_never_lost.

Theorem C08_flag_rising_edge_wakes_all_waiters :
  forall ops, FlagList.value (FlagList.run ops) = false ->
    let s := FlagList.run (ops ++ [FlagList.SetTo true]) in
    FlagList.scheduled s = FlagList.scheduled (FlagList.run ops) ++ FlagList.wf (FlagList.run ops) /\ FlagList.wf s = [] /\
    FlagList.wi s = FlagList.wi (FlagList.run ops) /\ FlagList.value s = true.
Proof. exact FlagList.rising_edge_wakes_all_waiters. Qed.
Print Assumptions C08_flag_rising_edge_wakes_all_waiters.

Theorem C08_flag_falling_edge_wakes_all_waiters_of_the_inverse :
  forall ops, FlagList.value (FlagList.run ops) = true ->
    let s := FlagList.run (ops ++ [FlagList.SetTo false]) in
    FlagList.scheduled s = FlagList.scheduled (FlagList.run ops) ++ FlagList.wi (FlagList.run ops) /\ FlagList.wi s = [] /\
    FlagList.wf s = FlagList.wf (FlagList.run ops) /\ FlagList.value s = false.
Proof. exact FlagList.falling_edge_wakes_all_waiters_of_the_inverse. Qed.
Print Assumptions C08_flag_falling_edge_wakes_all_waiters_of_the_inverse.

Theorem C08_flag_subscribe_to_a_true_side_is_answered_at_once :
  forall ops inv w t, FlagList.holds (FlagList.run ops) inv = true ->
    let s := FlagList.run (ops ++ [FlagList.Sub inv w t]) in
    FlagList.scheduled s = FlagList.scheduled (FlagList.run ops) ++ [(w, t)] /\ FlagList.wf s = FlagList.wf (FlagList.run ops) /\
    FlagList.wi s = FlagList.wi (FlagList.run ops).
Proof. exact FlagList.subscribe_when_true_is_scheduled_at_once. Qed.
Print Assumptions C08_flag_subscribe_to_a_true_side_is_answered_at_once.

(** A Tracked value and its comparisons (TrackedList.v - compared on every run with the real Tracked / AsyncComparison driven
    under a stand-in loop): for EVERY history of creating comparisons, subscribing to them and setting the value, nobody is
    parked on a comparison that holds; a set wakes exactly the waiters of the comparisons that hold afterwards (comparison
    by comparison in creation order, each list oldest first) and leaves the others untouched. *)
From Usim Require TrackedList.
Theorem C08_tracked_nobody_parked_on_a_true_comparison :
  forall v ops, Forall (fun x => TrackedList.c_holds (TrackedList.value (TrackedList.run v ops)) x = true -> TrackedList.c_wait x = [])
                       (TrackedList.cmps (TrackedList.run v ops)).
Proof. exact TrackedList.never_parked_on_a_comparison_that_holds. Qed.
Print Assumptions C08_tracked_nobody_parked_on_a_true_comparison.

(** ... and no subscriber of an existing comparison is ever lost: it is parked on a comparison or has been scheduled *)
Theorem C08_tracked_waiters_are_never_lost :
  forall v ops p, In p (TrackedList.valid_subs v ops) -> TrackedList.accounted (TrackedList.run v ops) p.
Proof. exact TrackedList.nobody_is_lost. Qed.
Print Assumptions C08_tracked_waiters_are_never_lost.

Theorem C08_tracked_set_wakes_the_waiters_of_every_true_comparison :
  forall v0 ops v,
    let s := TrackedList.run v0 ops in let s' := TrackedList.run v0 (ops ++ [TrackedList.SetTo v]) in
    TrackedList.scheduled s' = TrackedList.scheduled s ++
      flat_map (fun x => if TrackedList.c_holds v x then TrackedList.c_wait x else []) (TrackedList.cmps s) /\
    TrackedList.value s' = v /\ length (TrackedList.cmps s') = length (TrackedList.cmps s) /\
    (forall i x, nth_error (TrackedList.cmps s) i = Some x -> TrackedList.c_holds v x = false ->
                 nth_error (TrackedList.cmps s') i = Some x).
Proof. exact TrackedList.set_wakes_the_waiters_of_every_true_comparison. Qed.
Print Assumptions C08_tracked_set_wakes_the_waiters_of_every_true_comparison.

(** (A) the tie to /repo's current source: every function this property's models were transcribed from has, in the
    tree this run is checking, the normalised source it had when the models were validated (hashes regenerated from
    /repo into gen/Generated.v on every run; pins in gen/SourcePins.v).  A change to one of them invalidates the
    transcription until it is re-validated. *)
From UsimGen Require SourcePins Pin_C08.
Theorem C08_modelled_source_unchanged : forallb SourcePins.pin_ok Pin_C08.pins = true.
Proof. exact Pin_C08.src_unchanged. Qed.
