(* C12 -- Resources are conserved: never negative, never leaked, claims never wait.
   Statements over BorrowProto (theories/BorrowProto.v): ALL operation sequences of a fully
   nondeterministic environment from any valid initial supply: any number of blocks, amounts,
   nesting depth, interleaving; signals / forceful closes at any suspension point of any
   block (repeated too); concurrent increase / decrease / set. *)
Require Import ZArith List Bool Lia.
Import ListNotations.
From Usim Require Import Levels BorrowProto BorrowProtoProps.
Open Scope Z_scope.

Theorem never_negative : forall n c lv, valid_init lv ->
  forall s, reachable_from (init n c lv) s -> forall k, 0 <= get k (pool 0 s).
Proof. exact never_negative_thm. Qed.
Print Assumptions never_negative.

Theorem borrow_atomic : forall s o i p p', INV s ->
  phs s i = Some p -> held p = false -> phs (fst (step s o)) i = Some p' -> held p' = true ->
  p' = Taking /\ exists q, pars s i = Some q /\
  lge (nkeys s) (pool q s) (debs s i) = true /\
  forall k, get k (pool q (fst (step s o))) = get k (pool q s) - get k (debs s i).
Proof. exact borrow_atomic_thm. Qed.
Print Assumptions borrow_atomic.

(* INV holds in every reachable state (so borrow_atomic applies to every reachable step) *)
Theorem invariant_reachable : forall n c lv s, valid_init lv ->
  reachable_from (init n c lv) s -> INV s.
Proof. exact INV_reachable. Qed.
Print Assumptions invariant_reachable.

Theorem claim_never_waits : forall n c lv, valid_init lv ->
  forall s, reachable_from (init n c lv) s -> forall i b,
  blk s i = Some b -> bclaim b = true -> bph b <> WaitAvail.
Proof. exact claim_never_waits_thm. Qed.
Print Assumptions claim_never_waits.

Theorem claim_entry : forall s i b, blk s i = Some b -> bclaim b = true -> bph b = Idle ->
  owner_ok s (bpar b) = true ->
  (lge (nkeys s) (pool (bpar b) s) (bdeb b) = false ->
     snd (step s (Step i)) = OUnavail /\ phs (fst (step s (Step i))) i = Some Gone /\
     pools (fst (step s (Step i))) = pools s) /\
  (lge (nkeys s) (pool (bpar b) s) (bdeb b) = true ->
     snd (step s (Step i)) = OTook /\ phs (fst (step s (Step i))) i = Some Taking).
Proof. exact claim_entry_thm. Qed.
Print Assumptions claim_entry.

Theorem conservation : forall n c lv, valid_init lv ->
  forall s, reachable_from (init n c lv) s -> forall q k,
  get k (pool q s) = get k (insq q s) - outstanding q k s.
Proof. exact conservation_thm. Qed.
Print Assumptions conservation.

Theorem interval : forall n c lv, valid_init lv ->
  forall s, reachable_from (init n c lv) s -> forall k,
  get k (insq 0 s) - (psum active 0 k (blocks s) + gsum 0 k (gbq s)) <= get k (pool 0 s) /\
  get k (pool 0 s) <= get k (insq 0 s) - psum is_holding 0 k (blocks s).
Proof. exact interval_thm. Qed.
Print Assumptions interval.

Theorem quiescence : forall n c lv, valid_init lv ->
  forall s, reachable_from (init n c lv) s -> quiescent s ->
  forall k, get k (pool 0 s) = get k (insq 0 s).
Proof. exact quiescence_thm. Qed.
Print Assumptions quiescence.

Theorem capacities_supply_const : forall n lv s, valid_init lv ->
  reachable_from (init n (Some lv) lv) s -> cap s = Some lv /\ insq 0 s = lv.
Proof. exact capacities_supply_const_thm. Qed.
Print Assumptions capacities_supply_const.

Theorem giveback_runs : forall s, gbq s <> [] ->
  snd (step s RunGb) = OOk /\ gbq (fst (step s RunGb)) = tl (gbq s).
Proof. exact giveback_runs_thm. Qed.
Print Assumptions giveback_runs.

Theorem nested_le_share : forall n c lv, valid_init lv ->
  forall s, reachable_from (init n c lv) s -> forall i b,
  blk s i = Some b -> forall k, outstanding (S i) k s <= get k (bdeb b).
Proof. exact nested_le_share_thm. Qed.
Print Assumptions nested_le_share.

Theorem nested_request_le_share : forall n c lv, valid_init lv ->
  forall s, reachable_from (init n c lv) s -> forall j cb i b,
  blk s j = Some cb -> bpar cb = S i -> blk s i = Some b ->
  forall k, (k < nkeys s)%nat -> get k (bdeb cb) <= get k (bdeb b).
Proof. exact nested_request_le_share_thm. Qed.
Print Assumptions nested_request_le_share.

Theorem share_bounds_while_held : forall n c lv, valid_init lv ->
  forall s, reachable_from (init n c lv) s -> forall i b,
  blk s i = Some b -> bph b = Filling \/ bph b = Holding ->
  forall k, 0 <= get k (pool (S i) s) <= get k (bdeb b).
Proof. exact share_bounds_while_held_thm. Qed.
Print Assumptions share_bounds_while_held.

Theorem no_missed_wakeup : forall n c lv, valid_init lv ->
  forall s, reachable_from (init n c lv) s -> forall i b,
  blk s i = Some b -> bph b = WaitAvail -> bwok b = false ->
  lge (nkeys s) (pool (bpar b) s) (bdeb b) = false.
Proof. exact no_missed_wakeup_thm. Qed.
Print Assumptions no_missed_wakeup.

(* full-strength "no pool ever below zero" is FALSE for borrowed shares (known finding D18) *)
Theorem share_negative_after_single_fault_refuted :
  ~ (forall s, reachable_from (init 1 (Some [4]) [4]) s -> forall q k, 0 <= get k (pool q s)).
Proof. exact BorrowProtoProps.share_negative_after_single_fault_refuted. Qed.
Print Assumptions share_negative_after_single_fault_refuted.

Theorem share_negative_after_release_fault_refuted :
  ~ (forall s, reachable_from (init 1 (Some [4]) [4]) s -> forall q k, 0 <= get k (pool q s)).
Proof. exact BorrowProtoProps.share_negative_after_release_fault_refuted. Qed.
Print Assumptions share_negative_after_release_fault_refuted.

(* "whatever is in use is not available to others" is FALSE when a nested borrower outlives the block of the share it
   borrowed from (known finding D26): witness on the whole-program machine, which the implementation follows event for
   event (corpus/C12/d26_share_outlived.json): the supply reads full and is claimed in full at time 1 while the nested
   borrower stays inside its block until time 10 *)
From Usim Require Refuted.
Theorem share_outlived_by_nested_borrower_refuted :
  exists s, In [1; 30; 0; 4]%Z (Scenario.run_scenario 6000 200000 s) /\ In [1; 1; 4]%Z (Scenario.run_scenario 6000 200000 s) /\
            In [10; 1; 1]%Z (Scenario.run_scenario 6000 200000 s).
Proof. exact Refuted.share_outlived_by_nested_borrower_refuted. Qed.
Print Assumptions share_outlived_by_nested_borrower_refuted.

(* ---- hypotheses are satisfiable / the model moves *)
Example valid_init_ex : valid_init [4; 2].
Proof. intros k. do 3 (destruct k; [vm_compute; discriminate|]). unfold get. rewrite nth_overflow; simpl; lia. Qed.

Example demo_levels :
  map (fun tr => pools (run (init 1 (Some [4]) [4]) tr))
      [firstn 4 demo; firstn 5 demo; firstn 7 demo; demo] =
  [ [[1]; []; []]; [[1]; []; []]; [[4]; []; []]; [[2]; []; [2]] ].
Proof. vm_compute. reflexivity. Qed.
Example demo_outs :
  snd (step (run (init 1 (Some [4]) [4]) (firstn 3 demo)) (Step 1)) = OWait /\
  snd (step (run (init 1 (Some [4]) [4]) (firstn 4 demo)) (Step 1)) = ODisabled /\
  snd (step (run (init 1 (Some [4]) [4]) (firstn 7 demo)) (Step 1)) = OTook.
Proof. vm_compute. auto. Qed.
Example single_fault_levels :
  pools (run (init 1 (Some [4]) [4]) single_fault) = [[1]; [-1]; []] /\
  pools (run (init 1 (Some [4]) [4]) (single_fault ++ [RunGb; RunGb; Step 0; Step 0])) = [[4]; [0]; []].
Proof. vm_compute. auto. Qed.
Example release_fault_levels :
  pools (run (init 1 (Some [4]) [4]) release_fault) = [[1]; [-1]; [0]] /\
  pools (run (init 1 (Some [4]) [4]) (release_fault ++ [RunGb; RunGb; Step 0; Step 0])) = [[4]; [0]; [0]].
Proof. vm_compute. auto. Qed.
(* D20: the interrupt unwinds through both blocks without suspension; FIFO give-backs keep the share >= 0 *)
Example interrupt_unwinds_levels :
  map (fun k => pools (run (init 1 (Some [4]) [4]) (interrupt_unwinds ++ repeat RunGb k))) [0; 1; 2; 3; 4]%nat =
  [ [[1]; [2]; [1]]; [[1]; [2]; [0]]; [[1]; [3]; [0]]; [[1]; [0]; [0]]; [[4]; [0]; [0]] ].
Proof. vm_compute. reflexivity. Qed.
