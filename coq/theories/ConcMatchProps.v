(** C17 - theorems about the model in ConcMatch.v (all for an arbitrary class relation [sub]) *)
From Coq Require Import List Bool Arith ZArith Lia Permutation.
From Usim Require Import ConcMatch.
Import ListNotations.

(** * induction principles for the two nested types *)
Section TyInd.
  Variable P : ty -> Prop.
  Hypothesis HP : forall c, P (Plain c).
  Hypothesis HB : P Bare.
  Hypothesis HS : forall ms inc, Forall P ms -> P (Spec ms inc).
  Fixpoint ty_ind' (t : ty) : P t :=
    match t with
    | Plain c => HP c
    | Bare => HB
    | Spec ms inc =>
        HS ms inc ((fix go (l : list ty) : Forall P l :=
                      match l with
                      | [] => Forall_nil P
                      | x :: r => Forall_cons x (ty_ind' x) (go r)
                      end) ms)
    end.
End TyInd.

Section ExcInd.
  Variable P : exc -> Prop.
  Hypothesis HL : forall c i, P (Leaf c i).
  Hypothesis HN : forall l, Forall P l -> P (Node l).
  Fixpoint exc_ind' (e : exc) : P e :=
    match e with
    | Leaf c i => HL c i
    | Node l =>
        HN l ((fix go (l : list exc) : Forall P l :=
                 match l with
                 | [] => Forall_nil P
                 | x :: r => Forall_cons x (exc_ind' x) (go r)
                 end) l)
    end.
End ExcInd.

Lemma negb_existsb_negb {A} (f : A -> bool) l :
  negb (existsb (fun x => negb (f x)) l) = forallb f l.
Proof. induction l; cbn; auto. rewrite negb_orb, negb_involutive, IHl. reflexivity. Qed.

(** * class identity is an equivalence that only sees the set of members *)
Lemma same_spec_iff m1 i1 m2 i2 :
  same (Spec m1 i1) (Spec m2 i2) = true <->
  i1 = i2 /\ (forall x, In x m1 -> exists y, In y m2 /\ same x y = true)
          /\ (forall y, In y m2 -> exists x, In x m1 /\ same x y = true).
Proof.
  cbn [same]. rewrite !andb_true_iff, eqb_true_iff, !forallb_forall. split.
  - intros [[Hi H1] H2]. split; [exact Hi|].
    split; intros z Hz; [apply H1 in Hz|apply H2 in Hz]; apply existsb_exists in Hz; exact Hz.
  - intros (Hi & H1 & H2). repeat split; auto; intros z Hz; apply existsb_exists; auto.
Qed.

Lemma same_refl t : same t t = true.
Proof.
  induction t using ty_ind'; cbn [same]; auto using Nat.eqb_refl.
  rewrite Forall_forall in H. apply same_spec_iff. split; [reflexivity|].
  split; intros x Hx; exists x; auto.
Qed.

Lemma same_sym a : forall b, same a b = true -> same b a = true.
Proof.
  induction a using ty_ind'; intros b Hs; destruct b; try (cbn in Hs; discriminate).
  - cbn in *. rewrite Nat.eqb_sym. exact Hs.
  - reflexivity.
  - rewrite Forall_forall in H. apply same_spec_iff in Hs as (Hi & H1 & H2).
    apply same_spec_iff. split; [auto|]. split; intros y Hy.
    + destruct (H2 y Hy) as (x & Hx & Hxy). exists x. split; auto.
    + destruct (H1 y Hy) as (x & Hx & Hxy). exists x. split; auto.
Qed.

Lemma same_trans a : forall b c, same a b = true -> same b c = true -> same a c = true.
Proof.
  induction a using ty_ind'; intros b d H1 H2; destruct b; try (cbn in H1; discriminate);
    destruct d; try (cbn in H2; discriminate).
  - cbn in *. apply Nat.eqb_eq in H1, H2. subst. apply Nat.eqb_refl.
  - reflexivity.
  - rewrite Forall_forall in H.
    apply same_spec_iff in H1 as (Hi1 & A1 & B1). apply same_spec_iff in H2 as (Hi2 & A2 & B2).
    apply same_spec_iff. split; [congruence|]. split.
    + intros x Hx. destruct (A1 x Hx) as (y & Hy & Hxy). destruct (A2 y Hy) as (z & Hz & Hyz).
      exists z. split; eauto.
    + intros z Hz. destruct (B2 z Hz) as (y & Hy & Hyz). destruct (B1 y Hy) as (x & Hx & Hxy).
      exists x. split; eauto.
Qed.

(** classes with the same SET of members (and the same `...` flag) are the same class *)
Lemma same_of_set_eq m1 m2 i :
  (forall t, In t m1 <-> In t m2) -> same (Spec m1 i) (Spec m2 i) = true.
Proof.
  intros H. apply same_spec_iff. split; [reflexivity|].
  split; intros x Hx; exists x; split; auto using same_refl; apply H; exact Hx.
Qed.

Lemma same_permutation m1 m2 i : Permutation m1 m2 -> same (Spec m1 i) (Spec m2 i) = true.
Proof.
  intros HP. apply same_of_set_eq. intros t. split; intros Ht.
  - eapply Permutation_in; eauto.
  - eapply Permutation_in; [apply Permutation_sym|]; eauto.
Qed.

Lemma same_duplicate x m i : same (Spec (x :: x :: m) i) (Spec (x :: m) i) = true.
Proof. apply same_of_set_eq. intros t. cbn. tauto. Qed.

(** * __getitem__: order, multiplicity and the position of `...` are irrelevant *)
Lemma in_item_tys t l : In t (item_tys l) <-> In (ITy t) l.
Proof.
  unfold item_tys. rewrite in_flat_map. split.
  - intros (i & Hi & Ht). destruct i; cbn in Ht; [tauto|]. destruct Ht as [->|[]]. exact Hi.
  - intros Hi. exists (ITy t). split; cbn; auto.
Qed.

Lemma has_ell_in l : has_ell l = true <-> In IEll l.
Proof.
  unfold has_ell. rewrite existsb_exists. split.
  - intros (i & Hi & Ht). destruct i; [exact Hi|discriminate].
  - intros Hi. exists IEll. auto.
Qed.

Lemma getitem_set l1 l2 :
  (forall i, In i l1 <-> In i l2) -> same (getitem (Tuple l1)) (getitem (Tuple l2)) = true.
Proof.
  intros H. cbn [getitem].
  assert (E : has_ell l1 = has_ell l2).
  { apply eq_iff_eq_true. rewrite !has_ell_in. apply H. }
  rewrite E. apply same_of_set_eq. intros t. rewrite !in_item_tys. apply H.
Qed.

Lemma getitem_one t : getitem (One (ITy t)) = getitem (Tuple [ITy t]).
Proof. reflexivity. Qed.

Lemma getitem_ellipsis : getitem (One IEll) = Bare.
Proof. reflexivity. Qed.

Lemma getitem_exclusive_members l : has_ell l = false -> getitem (Tuple l) = Spec (item_tys l) false.
Proof. intros H. cbn. rewrite H. reflexivity. Qed.

(** Concurrent.__new__: the class of an instance is `Concurrent[tuple(type(child) ...)]` *)
Lemma type_of_is_getitem l : type_of (Node l) = new_type l.
Proof.
  destruct l as [|e l]; [reflexivity|].
  unfold new_type. cbn [type_of getitem]. remember (e :: l) as k. clear.
  assert (E1 : item_tys (map (fun e => ITy (type_of e)) k) = map type_of k).
  { induction k; cbn; [reflexivity|]. f_equal. exact IHk. }
  assert (E2 : has_ell (map (fun e => ITy (type_of e)) k) = false).
  { clear E1. unfold has_ell. induction k; cbn; auto. }
  rewrite E1, E2. reflexivity.
Qed.

(** the class of a failure depends only on the set of its children's classes *)
Lemma type_of_children_set l1 l2 :
  l1 <> [] ->
  (forall t, In t (map type_of l1) <-> In t (map type_of l2)) ->
  same (type_of (Node l1)) (type_of (Node l2)) = true.
Proof.
  intros Hne H. destruct l1 as [|a l1]; [congruence|].
  destruct l2 as [|b l2]; [exfalso; apply (H (type_of a)); cbn; auto|].
  cbn [type_of]. apply same_of_set_eq. exact H.
Qed.

Lemma type_of_children_perm l1 l2 :
  Permutation l1 l2 -> same (type_of (Node l1)) (type_of (Node l2)) = true.
Proof.
  intros HP. destruct l1 as [|a l1].
  - apply Permutation_nil in HP. subst. reflexivity.
  - apply type_of_children_set; [discriminate|]. intros t.
    assert (HP' : Permutation (map type_of (a :: l1)) (map type_of l2)) by (apply Permutation_map; exact HP).
    split; intros Ht; [eapply Permutation_in|eapply Permutation_in; [apply Permutation_sym|]]; eauto.
Qed.

Lemma type_of_children_dup a l :
  same (type_of (Node (a :: a :: l))) (type_of (Node (a :: l))) = true.
Proof. apply type_of_children_set; [discriminate|]. intros t. cbn. tauto. Qed.

(** * the cache: equal specialisations are the identical class (and vice versa) *)
Definition cache_inv (c : cache) : Prop :=
  (forall k id, In (k, id) (entries c) -> id < next c) /\
  (forall k k' id, In (k, id) (entries c) -> In (k', id) (entries c) -> k = k') /\
  (forall k1 id1 k2 id2, In (k1, id1) (entries c) -> In (k2, id2) (entries c) ->
                         key_same k1 k2 = true -> id1 = id2).

Lemma key_same_refl k : key_same k k = true.
Proof. apply same_refl. Qed.
Lemma key_same_sym k1 k2 : key_same k1 k2 = true -> key_same k2 k1 = true.
Proof. apply same_sym. Qed.
Lemma key_same_trans k1 k2 k3 : key_same k1 k2 = true -> key_same k2 k3 = true -> key_same k1 k3 = true.
Proof. apply same_trans. Qed.

Lemma inv_empty : cache_inv empty_cache.
Proof. repeat split; cbn; intros; tauto. Qed.

Lemma get_spec_cases c k :
  (exists k', lookup c k = Some (k', snd (get_spec c k)) /\ In (k', snd (get_spec c k)) (entries c)
              /\ key_same k' k = true /\ fst (get_spec c k) = c)
  \/ (lookup c k = None /\ (forall e, In e (entries c) -> key_same (fst e) k = false)
      /\ snd (get_spec c k) = next c
      /\ fst (get_spec c k) = {| next := S (next c); entries := (k, next c) :: entries c |}).
Proof.
  unfold get_spec. destruct (lookup c k) as [[k' id]|] eqn:E.
  - left. exists k'. unfold lookup in E. apply find_some in E as [Hin Hk]. cbn in *. auto.
  - right. unfold lookup in E. split; [reflexivity|]. split; [|auto].
    intros e He. exact (find_none _ _ E e He).
Qed.

Lemma inv_get c k : cache_inv c -> cache_inv (fst (get_spec c k)).
Proof.
  intros (I1 & I2 & I3).
  destruct (get_spec_cases c k) as [(k' & _ & _ & _ & ->)|(_ & Hnone & _ & ->)]; [repeat split; auto|].
  repeat split; cbn [next entries].
  - intros k0 id [E|Hin]; [inversion E; lia|]. apply I1 in Hin. lia.
  - intros k0 k0' id [E|Hin] [E'|Hin'].
    + congruence.
    + inversion E; subst. apply I1 in Hin'. lia.
    + inversion E'; subst. apply I1 in Hin. lia.
    + eauto.
  - intros k1 id1 k2 id2 [E|Hin] [E'|Hin'] Hs.
    + congruence.
    + inversion E; subst. apply key_same_sym in Hs. pose proof (Hnone _ Hin') as Hn. cbn [fst] in Hn. congruence.
    + inversion E'; subst. pose proof (Hnone _ Hin) as Hn. cbn [fst] in Hn. congruence.
    + eauto.
Qed.

Lemma in_evict c id e : In e (entries (evict c id)) <-> In e (entries c) /\ snd e <> id.
Proof.
  unfold evict. cbn [entries]. rewrite filter_In, negb_true_iff, Nat.eqb_neq. tauto.
Qed.

Lemma inv_evict c id : cache_inv c -> cache_inv (evict c id).
Proof.
  intros (I1 & I2 & I3). repeat split.
  - intros k i Hin. apply in_evict in Hin as [Hin _]. apply I1 in Hin. exact Hin.
  - intros k k' i H1 H2. apply in_evict in H1 as [H1 _]. apply in_evict in H2 as [H2 _]. eauto.
  - intros k1 i1 k2 i2 H1 H2. apply in_evict in H1 as [H1 _]. apply in_evict in H2 as [H2 _]. eauto.
Qed.

Lemma inv_step c o : cache_inv c -> cache_inv (cstep c o).
Proof. destruct o; cbn; auto using inv_get, inv_evict. Qed.

Lemma inv_run ops : forall c, cache_inv c -> cache_inv (crun c ops).
Proof. induction ops as [|o ops IH]; intros c H; cbn; [exact H|]. apply IH, inv_step, H. Qed.

Lemma reachable_inv ops : cache_inv (crun empty_cache ops).
Proof. apply inv_run, inv_empty. Qed.

(** an entry stays as long as its class is not collected *)
Lemma entry_persists ops : forall c k id,
  In (k, id) (entries c) -> (forall o, In o ops -> o <> Evict id) -> In (k, id) (entries (crun c ops)).
Proof.
  induction ops as [|o ops IH]; intros c k id Hin Hno; [exact Hin|].
  cbn. apply IH; [|intros o' Ho'; apply Hno; right; exact Ho'].
  destruct o as [k0|id0]; cbn.
  - destruct (get_spec_cases c k0) as [(k' & _ & _ & _ & ->)|(_ & _ & _ & ->)]; cbn; auto.
  - apply in_evict. split; [exact Hin|]. cbn. intros ->. apply (Hno (Evict id0)); cbn; auto.
Qed.

(** numbers are never reused: whatever a later cache holds under an old number was there before *)
Lemma old_entries ops : forall c,
  next c <= next (crun c ops) /\
  forall k id, In (k, id) (entries (crun c ops)) -> id < next c -> In (k, id) (entries c).
Proof.
  induction ops as [|o ops IH]; intros c; [cbn; auto|].
  change (crun c (o :: ops)) with (crun (cstep c o) ops). destruct (IH (cstep c o)) as [Hn Hold].
  assert (Hs : next c <= next (cstep c o) /\
               forall k id, In (k, id) (entries (cstep c o)) -> id < next c -> In (k, id) (entries c)).
  { destruct o as [k0|id0]; cbn.
    - destruct (get_spec_cases c k0) as [(k' & _ & _ & _ & ->)|(_ & _ & _ & ->)]; cbn; [auto|].
      split; [lia|]. intros k id [E|Hin] Hlt; [inversion E; lia|exact Hin].
    - split; [lia|]. intros k id Hin _. apply in_evict in Hin as [Hin _]. exact Hin. }
  destruct Hs as [Hn' Hold']. split; [lia|].
  intros k id Hin Hlt. apply Hold'; [|exact Hlt]. apply Hold; [exact Hin|lia].
Qed.

Lemma same_spec_same_class c k1 k2 ops :
  cache_inv c -> key_same k1 k2 = true ->
  (forall o, In o ops -> o <> Evict (snd (get_spec c k1))) ->
  snd (get_spec (crun (fst (get_spec c k1)) ops) k2) = snd (get_spec c k1).
Proof.
  intros Hinv Hs Hno.
  set (id1 := snd (get_spec c k1)) in *. set (c1 := fst (get_spec c k1)).
  assert (Hinv1 : cache_inv c1) by (apply inv_get; exact Hinv).
  assert (H1 : exists k1', In (k1', id1) (entries c1) /\ key_same k1' k1 = true).
  { subst id1 c1. destruct (get_spec_cases c k1) as [(k' & _ & Hin & Hk & ->)|(_ & _ & -> & ->)].
    - exists k'. split; assumption.
    - exists k1. split; [left; reflexivity|apply key_same_refl]. }
  destruct H1 as (k1' & Hin1 & Hk1).
  set (c2 := crun c1 ops).
  assert (Hin2 : In (k1', id1) (entries c2)) by (apply entry_persists; assumption).
  assert (Hinv2 : cache_inv c2) by (apply inv_run; exact Hinv1).
  destruct (get_spec_cases c2 k2) as [(k' & _ & Hin & Hk & _)|(_ & Hnone & _ & _)].
  - destruct Hinv2 as (_ & _ & I3). eapply I3; [exact Hin|exact Hin2|].
    eapply key_same_trans; [exact Hk|]. apply key_same_sym.
    eapply key_same_trans; [exact Hk1|exact Hs].
  - specialize (Hnone _ Hin2). cbn [fst] in Hnone.
    rewrite (key_same_trans _ _ _ Hk1 Hs) in Hnone. discriminate.
Qed.

Lemma same_class_same_spec c k1 k2 ops :
  cache_inv c ->
  snd (get_spec (crun (fst (get_spec c k1)) ops) k2) = snd (get_spec c k1) ->
  key_same k1 k2 = true.
Proof.
  intros Hinv Heq.
  set (id1 := snd (get_spec c k1)) in *. set (c1 := fst (get_spec c k1)) in *.
  assert (Hinv1 : cache_inv c1) by (apply inv_get; exact Hinv).
  assert (H1 : exists k1', In (k1', id1) (entries c1) /\ key_same k1' k1 = true).
  { subst id1 c1. destruct (get_spec_cases c k1) as [(k' & _ & Hin & Hk & ->)|(_ & _ & -> & ->)].
    - exists k'. split; assumption.
    - exists k1. split; [left; reflexivity|apply key_same_refl]. }
  destruct H1 as (k1' & Hin1 & Hk1).
  assert (Hlt : id1 < next c1) by (destruct Hinv1 as (I1 & _); eapply I1; exact Hin1).
  destruct (old_entries ops c1) as [Hn Hold]. fold c1 in Hn, Hold.
  set (c2 := crun c1 ops) in *.
  destruct (get_spec_cases c2 k2) as [(k' & _ & Hin & Hk & _)|(_ & _ & Hid & _)].
  - rewrite Heq in Hin. apply Hold in Hin; [|exact Hlt].
    destruct Hinv1 as (_ & I2 & _). rewrite (I2 _ _ _ Hin Hin1) in Hk.
    eapply key_same_trans; [apply key_same_sym; exact Hk1|exact Hk].
  - rewrite Heq in Hid. lia.
Qed.

(** * matching *)
Section Match.
  Variable sub : cls -> cls -> bool.
  Hypothesis sub_refl : forall a, sub a a = true.

  Local Notation issub := (issub sub).
  Local Notation isinstance := (isinstance sub).
  Local Notation except_catches := (except_catches sub).

  Lemma issub_spec_iff cs ci hs hi :
    issub (Spec cs ci) (Spec hs hi) = true <->
    same (Spec cs ci) (Spec hs hi) = true \/
    ((forall s, In s hs -> exists ch, In ch cs /\ issub ch s = true) /\
     (hi = true \/ forall ch, In ch cs -> exists s, In s hs /\ issub ch s = true)).
  Proof.
    cbn [ConcMatch.issub]. rewrite negb_existsb_negb, orb_true_iff, andb_true_iff, orb_true_iff,
      !forallb_forall. split.
    - intros [Hs|[Ha Hb]]; [left; exact Hs|right]. split.
      + intros s Hs. apply existsb_exists. auto.
      + destruct Hb as [Hb|Hb]; [left; exact Hb|right]. intros ch Hch. apply existsb_exists. auto.
    - intros [Hs|[Ha Hb]]; [left; exact Hs|right]. split.
      + intros s Hs. apply existsb_exists. auto.
      + destruct Hb as [Hb|Hb]; [left; exact Hb|right]. intros ch Hch. apply existsb_exists. auto.
  Qed.

  (** `cls is subclass` is only a shortcut *)
  Lemma same_issub a b : same a b = true -> issub a b = true.
  Proof.
    intros H. destruct a, b; try (cbn in H; discriminate).
    - cbn in *. apply Nat.eqb_eq in H. subst. apply sub_refl.
    - reflexivity.
    - cbn [ConcMatch.issub]. rewrite H. reflexivity.
  Qed.

  Lemma issub_refl t : issub t t = true.
  Proof. apply same_issub, same_refl. Qed.

  (** the matching rule on classes *)
  Lemma issub_spec_rule cs ci hs hi :
    issub (Spec cs ci) (Spec hs hi) = true <->
    (forall s, In s hs -> exists ch, In ch cs /\ issub ch s = true) /\
    (hi = true \/ forall ch, In ch cs -> exists s, In s hs /\ issub ch s = true).
  Proof.
    rewrite issub_spec_iff. split; [|auto]. intros [Hs|H]; [|exact H].
    apply same_spec_iff in Hs as (_ & H1 & H2). split.
    - intros s Hs. destruct (H2 s Hs) as (x & Hx & Hxs). exists x. auto using same_issub.
    - right. intros ch Hch. destruct (H1 ch Hch) as (y & Hy & Hxy). exists y. auto using same_issub.
  Qed.

  Lemma isinstance_is_issubclass e h : isinstance e h = issub (type_of e) h.
  Proof.
    unfold ConcMatch.isinstance. destruct (same (type_of e) h) eqn:E; [|reflexivity].
    rewrite (same_issub _ _ E). reflexivity.
  Qed.

  Lemma type_of_node_cons a l : type_of (Node (a :: l)) = Spec (map type_of (a :: l)) false.
  Proof. reflexivity. Qed.

  (** match_iff_spec: a failure with children [children] against `Concurrent[hs]` / `Concurrent[hs, ...]` *)
  Theorem match_iff_spec children hs hi :
    children <> [] ->
    (isinstance (Node children) (Spec hs hi) = true <->
     (forall s, In s hs -> exists ch, In ch children /\ issub (type_of ch) s = true) /\
     (hi = true \/ forall ch, In ch children -> exists s, In s hs /\ issub (type_of ch) s = true)).
  Proof.
    intros Hne. rewrite isinstance_is_issubclass.
    destruct children as [|a l]; [congruence|]. rewrite type_of_node_cons, issub_spec_rule.
    remember (a :: l) as k. clear. split; intros [Ha Hb]; split.
    - intros s Hs. destruct (Ha s Hs) as (t & Ht & Hm). apply in_map_iff in Ht as (ch & <- & Hch). eauto.
    - destruct Hb as [Hb|Hb]; [left; exact Hb|right]. intros ch Hch. apply Hb, in_map. exact Hch.
    - intros s Hs. destruct (Ha s Hs) as (ch & Hch & Hm). exists (type_of ch). auto using in_map.
    - destruct Hb as [Hb|Hb]; [left; exact Hb|right]. intros t Ht.
      apply in_map_iff in Ht as (ch & <- & Hch). auto.
  Qed.

  (** what "a child matches a listed type" means for the three kinds of listed types *)
  Lemma child_match_plain ch s : issub (type_of ch) (Plain s) = true <-> exists k i, ch = Leaf k i /\ sub k s = true.
  Proof.
    destruct ch as [k i|l]; cbn.
    - split; [eauto|]. intros (k' & i' & E & H). inversion E; subst. exact H.
    - destruct l; cbn; split; try discriminate; intros (k' & i' & E & _); discriminate.
  Qed.

  Lemma child_match_bare ch : issub (type_of ch) Bare = is_node ch.
  Proof. destruct ch as [k i|[|a l]]; reflexivity. Qed.

  Lemma child_match_spec ch hs hi :
    issub (type_of ch) (Spec hs hi) = true -> exists l, ch = Node l /\ l <> [].
  Proof.
    destruct ch as [k i|[|a l]]; cbn; try discriminate. intros _. eexists. split; [reflexivity|discriminate].
  Qed.

  (** bare `Concurrent` matches every failure *)
  Theorem bare_matches_all l : isinstance (Node l) Bare = true /\ except_catches (Node l) Bare = true.
  Proof. destruct l; split; reflexivity. Qed.

  Lemma bare_rejects_plain c i : isinstance (Leaf c i) Bare = false.
  Proof. reflexivity. Qed.

  (** with `...` only the listed types have to be found; additional children never hurt *)
  Theorem ellipsis_rule children hs :
    children <> [] ->
    (isinstance (Node children) (Spec hs true) = true <->
     forall s, In s hs -> exists ch, In ch children /\ issub (type_of ch) s = true).
  Proof.
    intros Hne. rewrite (match_iff_spec _ _ _ Hne). split; [tauto|]. intros H. split; auto.
  Qed.

  Theorem ellipsis_allows_extras children extra hs :
    children <> [] ->
    isinstance (Node children) (Spec hs true) = true ->
    isinstance (Node (children ++ extra)) (Spec hs true) = true /\
    isinstance (Node (extra ++ children)) (Spec hs true) = true.
  Proof.
    intros Hne H. rewrite (ellipsis_rule _ _ Hne) in H.
    split; apply ellipsis_rule; try (destruct children, extra; cbn; congruence);
      intros s Hs; destruct (H s Hs) as (ch & Hch & Hm); exists ch; split; auto;
      apply in_or_app; auto.
  Qed.

  (** without `...` a child that matches no listed type prevents the match *)
  Theorem exclusive_rejects_extra children x hs :
    In x children ->
    (forall s, In s hs -> issub (type_of x) s = false) ->
    isinstance (Node children) (Spec hs false) = false.
  Proof.
    intros Hx Hno. apply not_true_is_false. intros H.
    assert (Hne : children <> []) by (destruct children; [destruct Hx|discriminate]).
    apply (match_iff_spec _ _ _ Hne) in H as [_ [H|H]]; [discriminate|].
    destruct (H x Hx) as (s & Hs & Hm). rewrite (Hno s Hs) in Hm. discriminate.
  Qed.

  (** ** the verdict only depends on class identity, in both argument positions *)
  Lemma issub_same_l_imp h : forall r r', same r r' = true -> issub r h = true -> issub r' h = true.
  Proof.
    induction h using ty_ind'; intros r r' Hs Hm.
    - destruct r, r'; try (cbn in Hs; discriminate); try (cbn in Hm; discriminate).
      cbn in *. apply Nat.eqb_eq in Hs. subst. exact Hm.
    - destruct r, r'; try (cbn in Hs; discriminate); try (cbn in Hm; discriminate); reflexivity.
    - rewrite Forall_forall in H.
      destruct r as [| |cs ci]; try (cbn in Hm; discriminate).
      destruct r' as [| |cs' ci']; try (cbn in Hs; discriminate).
      apply issub_spec_iff in Hm. apply issub_spec_iff. destruct Hm as [Hm|[Ha Hb]].
      + left. eapply same_trans; [apply same_sym; exact Hs|exact Hm].
      + right. apply same_spec_iff in Hs as (_ & S1 & S2). split.
        * intros s Hs. destruct (Ha s Hs) as (ch & Hch & Hm). destruct (S1 ch Hch) as (ch' & Hch' & Hcc).
          exists ch'. split; [exact Hch'|]. eapply H; eauto.
        * destruct Hb as [Hb|Hb]; [left; exact Hb|right]. intros ch' Hch'.
          destruct (S2 ch' Hch') as (ch & Hch & Hcc). destruct (Hb ch Hch) as (s & Hs & Hm).
          exists s. split; [exact Hs|]. eapply H; eauto.
  Qed.

  Lemma issub_same_r_imp h : forall h' c, same h h' = true -> issub c h = true -> issub c h' = true.
  Proof.
    induction h using ty_ind'; intros h' r Hs Hm.
    - destruct h'; try (cbn in Hs; discriminate). cbn in Hs. apply Nat.eqb_eq in Hs. subst. exact Hm.
    - destruct h'; try (cbn in Hs; discriminate). exact Hm.
    - rewrite Forall_forall in H.
      destruct h' as [| |hs' hi']; try (cbn in Hs; discriminate).
      destruct r as [| |cs ci]; try (cbn in Hm; discriminate).
      apply issub_spec_iff in Hm. apply issub_spec_iff. destruct Hm as [Hm|[Ha Hb]].
      + left. eapply same_trans; eauto.
      + right. apply same_spec_iff in Hs as (Hi & S1 & S2). subst hi'. split.
        * intros s' Hs'. destruct (S2 s' Hs') as (s & Hs & Hss). destruct (Ha s Hs) as (ch & Hch & Hm).
          exists ch. split; [exact Hch|]. eapply H; eauto.
        * destruct Hb as [Hb|Hb]; [left; exact Hb|right]. intros ch Hch.
          destruct (Hb ch Hch) as (s & Hs & Hm). destruct (S1 s Hs) as (s' & Hs' & Hss).
          exists s'. split; [exact Hs'|]. eapply H; eauto.
  Qed.

  Theorem issub_same c c' h h' :
    same c c' = true -> same h h' = true -> issub c h = issub c' h'.
  Proof.
    intros Hc Hh. apply eq_iff_eq_true. split; intros Hm.
    - eapply issub_same_r_imp; [exact Hh|]. eapply issub_same_l_imp; eauto.
    - eapply issub_same_r_imp; [apply same_sym; exact Hh|].
      eapply issub_same_l_imp; [apply same_sym; exact Hc|exact Hm].
  Qed.

  (** spec_order_irrelevant: failures with the same set of child classes and handlers with the same set
      of listed classes are indistinguishable, as raised failure, as handler and as nested member *)
  Theorem spec_set_only l1 l2 hs1 hs2 hi :
    l1 <> [] ->
    (forall t, In t (map type_of l1) <-> In t (map type_of l2)) ->
    (forall t, In t hs1 <-> In t hs2) ->
    isinstance (Node l1) (Spec hs1 hi) = isinstance (Node l2) (Spec hs2 hi)
    /\ (forall h, isinstance (Node l1) h = isinstance (Node l2) h)
    /\ (forall c, issub c (Spec hs1 hi) = issub c (Spec hs2 hi))
    /\ (forall c, issub c (type_of (Node l1)) = issub c (type_of (Node l2)))
    /\ key_same (map type_of l1, false) (map type_of l2, false) = true
    /\ key_same (hs1, hi) (hs2, hi) = true.
  Proof.
    intros Hne Hl Hh.
    assert (S1 : same (type_of (Node l1)) (type_of (Node l2)) = true) by (apply type_of_children_set; assumption).
    assert (S2 : same (Spec hs1 hi) (Spec hs2 hi) = true) by (apply same_of_set_eq; assumption).
    rewrite !isinstance_is_issubclass. split; [|split; [|split; [|split; [|split]]]].
    - apply issub_same; assumption.
    - intros h. rewrite !isinstance_is_issubclass. apply issub_same; auto using same_refl.
    - intros c. apply issub_same; auto using same_refl.
    - intros c. apply issub_same; auto using same_refl.
    - unfold key_same, key_ty. cbn [fst snd]. apply same_of_set_eq. exact Hl.
    - exact S2.
  Qed.

  (** ** the real except clause (known finding D10) *)
  Lemma except_sound e h : except_catches e h = true -> isinstance e h = true.
  Proof.
    rewrite isinstance_is_issubclass. unfold ConcMatch.except_catches.
    destruct (type_of e) as [k| |cs ci] eqn:E, h as [s| |hs hi]; try discriminate; auto.
    apply same_issub.
  Qed.

  (** the two verdicts differ exactly on the signature of D10 *)
  Theorem except_disagrees_iff e h :
    except_catches e h <> isinstance e h <->
    exists cs ci hs hi, type_of e = Spec cs ci /\ h = Spec hs hi /\
                        same (type_of e) h = false /\ isinstance e h = true.
  Proof.
    rewrite isinstance_is_issubclass. unfold ConcMatch.except_catches.
    destruct (type_of e) as [k| |cs ci] eqn:E, h as [s| |hs hi];
      try (split; [intros H; exfalso; apply H; reflexivity
                  |intros (a & b & c & d & H1 & H2 & _); discriminate]).
    split.
    - intros H. exists cs, ci, hs, hi. repeat split.
      + destruct (same (Spec cs ci) (Spec hs hi)) eqn:Es; [|reflexivity].
        exfalso. apply H. rewrite (same_issub _ _ Es). reflexivity.
      + destruct (ConcMatch.issub sub (Spec cs ci) (Spec hs hi)) eqn:Ei; [reflexivity|].
        exfalso. apply H. destruct (same (Spec cs ci) (Spec hs hi)) eqn:Es; [|reflexivity].
        rewrite (same_issub _ _ Es) in Ei. discriminate.
    - intros (a & b & c & d & H1 & H2 & H3 & H4). rewrite H3, H4. discriminate.
  Qed.

  Lemma except_agrees_partial e h :
    (match h with Spec _ _ => same (type_of e) h = true | _ => True end) ->
    except_catches e h = isinstance e h.
  Proof.
    intros Hh. destruct (bool_dec (except_catches e h) (isinstance e h)) as [E|N]; [exact E|].
    apply except_disagrees_iff in N as (cs & ci & hs & hi & H1 & -> & H3 & _).
    rewrite Hh in H3. discriminate.
  Qed.

  (** D10: `except Concurrent[0, ...]` does not catch `Concurrent(0(), 1())` although isinstance says yes *)
  Theorem except_agrees_refuted :
    exists e h, isinstance e h = true /\ except_catches e h = false.
  Proof.
    exists (Node [Leaf 0 0; Leaf 1 1]), (getitem (Tuple [ITy (Plain 0); IEll])).
    split; [|reflexivity]. rewrite isinstance_is_issubclass.
    apply issub_spec_rule. split; [|left; reflexivity].
    intros s [<-|[]]. exists (Plain 0). cbn. auto.
  Qed.

  (** ** subclasses count (needs transitivity of the class relation) *)
  Hypothesis sub_trans : forall a b c, sub a b = true -> sub b c = true -> sub a c = true.

  (** [narrow r' r]: r' is r with plain classes replaced by subclasses *)
  Inductive narrow : ty -> ty -> Prop :=
  | NP a b : sub a b = true -> narrow (Plain a) (Plain b)
  | NB : narrow Bare Bare
  | NS l1 l2 i : Forall2 narrow l1 l2 -> narrow (Spec l1 i) (Spec l2 i).

  Lemma Forall2_in_r {A B} (R : A -> B -> Prop) l1 l2 y :
    Forall2 R l1 l2 -> In y l2 -> exists x, In x l1 /\ R x y.
  Proof.
    induction 1; cbn; [tauto|]. intros [<-|Hy]; [eauto|]. destruct (IHForall2 Hy) as (x' & ? & ?). eauto.
  Qed.
  Lemma Forall2_in_l {A B} (R : A -> B -> Prop) l1 l2 x :
    Forall2 R l1 l2 -> In x l1 -> exists y, In y l2 /\ R x y.
  Proof.
    induction 1; cbn; [tauto|]. intros [<-|Hx]; [eauto|]. destruct (IHForall2 Hx) as (y' & ? & ?). eauto.
  Qed.

  Theorem subclasses_count h : forall r r', narrow r' r -> issub r h = true -> issub r' h = true.
  Proof.
    induction h using ty_ind'; intros r r' Hn Hm.
    - inversion Hn; subst; try (cbn in Hm; discriminate). cbn in *. eauto.
    - inversion Hn; subst; try (cbn in Hm; discriminate); reflexivity.
    - rewrite Forall_forall in H. inversion Hn as [| |l1 l2 i HF]; subst; try (cbn in Hm; discriminate).
      apply issub_spec_rule in Hm as [Ha Hb]. apply issub_spec_rule. split.
      + intros s Hs. destruct (Ha s Hs) as (ch & Hch & Hm).
        destruct (Forall2_in_r _ _ _ _ HF Hch) as (ch' & Hch' & Hcc). exists ch'. split; eauto.
      + destruct Hb as [Hb|Hb]; [left; exact Hb|right]. intros ch' Hch'.
        destruct (Forall2_in_l _ _ _ _ HF Hch') as (ch & Hch & Hcc).
        destruct (Hb ch Hch) as (s & Hs & Hm). exists s. split; eauto.
  Qed.
End Match.

(** * flattened() *)
Definition leaf_exc (p : cls * nat) : exc := Leaf (fst p) (snd p).

Lemma flat_child_eq ch :
  (match ch with Leaf _ _ => [ch] | Node _ => flat_children ch end) = flat_children ch.
Proof. destruct ch; reflexivity. Qed.

Lemma flat_children_spec e : flat_children e = map leaf_exc (leaves e).
Proof.
  induction e using exc_ind'; [reflexivity|].
  cbn [flat_children leaves]. destruct (existsb is_node l) eqn:E; cbn [negb].
  - clear E. induction H as [|x l Hx Hl IH]; [reflexivity|].
    cbn [flat_map]. rewrite map_app, flat_child_eq, Hx, IH. reflexivity.
  - clear H. induction l as [|x l IH]; [reflexivity|]. cbn in E. apply orb_false_iff in E as [Ex El].
    destruct x; [|discriminate]. cbn. rewrite <- IH; auto.
Qed.

Lemma leaves_of_leaf_list ls : flat_map leaves (map leaf_exc ls) = ls.
Proof. induction ls as [|[c i] ls IH]; cbn; [reflexivity|]. f_equal. exact IH. Qed.

(** flatten_leaves_in_order: for every nesting depth the flattened failure has exactly the leaf
    exceptions of the tree as its children, in the same order *)
Theorem flatten_leaves_in_order l :
  flattened (Node l) = Node (map leaf_exc (leaves (Node l)))
  /\ leaves (flattened (Node l)) = leaves (Node l).
Proof.
  unfold flattened. rewrite flat_children_spec. split; [reflexivity|].
  cbn [leaves]. apply leaves_of_leaf_list.
Qed.

Lemma no_node_leaf_list ls : existsb is_node (map leaf_exc ls) = false.
Proof. induction ls; cbn; auto. Qed.

Theorem flattened_is_flat l ch :
  In ch (flat_children (Node l)) -> is_node ch = false.
Proof.
  rewrite flat_children_spec. intros H. apply in_map_iff in H as (p & <- & _). reflexivity.
Qed.

Theorem flattened_idempotent e : flattened (flattened e) = flattened e.
Proof.
  destruct e as [c i|l]; [reflexivity|].
  destruct (flatten_leaves_in_order l) as [-> _]. unfold flattened. cbn [flat_children].
  rewrite no_node_leaf_list. reflexivity.
Qed.

Theorem flattened_self e : flattened_is_self e = true -> flattened e = e.
Proof.
  destruct e as [c i|l]; [reflexivity|]. cbn. intros H. rewrite H. reflexivity.
Qed.

Theorem flattened_type l :
  type_of (flattened (Node l)) = new_type (map leaf_exc (leaves (Node l))).
Proof. destruct (flatten_leaves_in_order l) as [-> _]. apply type_of_is_getitem. Qed.

(** * the concrete hierarchy used by the correspondence check is a preorder *)
Lemma hier_sub_refl a : hier_sub a a = true.
Proof. unfold hier_sub. rewrite Nat.eqb_refl. reflexivity. Qed.

Lemma hier_sub_big a b : 6 <= a -> hier_sub a b = Nat.eqb a b.
Proof.
  intros H. unfold hier_sub.
  do 6 (destruct a as [|a]; [lia|]). cbn [hier_parent]. apply orb_false_r.
Qed.

Lemma hier_sub_small a b : a < 6 -> hier_sub a b = true -> b < 6.
Proof.
  intros H. do 6 (destruct a as [|a]; [do 6 (destruct b as [|b]; [lia|]); cbn; discriminate|]). lia.
Qed.

Lemma hier_sub_trans a b c : hier_sub a b = true -> hier_sub b c = true -> hier_sub a c = true.
Proof.
  intros H1 H2. destruct (le_lt_dec 6 a) as [Ha|Ha].
  - rewrite hier_sub_big in H1 by exact Ha. apply Nat.eqb_eq in H1. subst. exact H2.
  - assert (Hb : b < 6) by (eapply hier_sub_small; eauto).
    assert (Hc : c < 6) by (eapply hier_sub_small; eauto).
    do 6 (destruct a as [|a]; [do 6 (destruct b as [|b]; [do 6 (destruct c as [|c]; [revert H1 H2; cbn; auto; discriminate|]); lia|]); lia|]).
    lia.
Qed.

(** an observation: `issubclass` between classes of the family is NOT transitive once a class with
    `...` stands in the middle (raised failures never have such a class, handlers are only ever on the
    right-hand side, so no handler verdict is affected):
    Concurrent[A, D] <= Concurrent[A, ...] <= Concurrent[A]  but not  Concurrent[A, D] <= Concurrent[A] *)
Lemma issub_transitive_refuted :
  exists a b c, issub hier_sub a b = true /\ issub hier_sub b c = true /\ issub hier_sub a c = false.
Proof.
  exists (Spec [Plain 0; Plain 3] false), (Spec [Plain 0] true), (Spec [Plain 0] false).
  vm_compute. auto.
Qed.
