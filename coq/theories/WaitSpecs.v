(** Machine-level specifications of the two suspension primitives, by symbolic execution of their
    transcriptions for an ARBITRARY machine state, activity and continuation:
    [postpone()] requests exactly one wake-up of the running activity for the current time step, hibernates,
    and afterwards continues normally iff resumed by that wake-up; it always revokes the wake-up.
    [suspend(delay=d)] does the same with a wake-up [d] later.  Together with the kernel theorems
    (every activation executes at exactly its due time; whoever was queued before runs first) this is the
    machine-level content of C01 ("a delay resumes at exactly clock + d") and C20 ("postponing lets every
    other runnable activity run"). *)
From Coq Require Import ZArith List Bool Lia.
From RecordUpdate Require Import RecordSet.
From Usim Require Import XTime Tables Kernel KernelProps Machine MachineProps Lib.
Import ListNotations.
Import RecordSetNotations.

#[local] Arguments xpos : simpl never.
#[local] Arguments xltb : simpl never.
#[local] Arguments xadd : simpl never.

Lemma exec_step n cur m md c outer m' md' c' outer' :
  step1 cur m md c outer = SCont m' md' c' outer' ->
  exec (S n) cur m md c outer = exec n cur m' md' c' outer'.
Proof. intros H. cbn [exec]. rewrite H. reflexivity. Qed.
Lemma exec_done n cur m md c outer m' :
  step1 cur m md c outer = SDone m' -> exec (S n) cur m md c outer = m'.
Proof. intros H. cbn [exec]. rewrite H. reflexivity. Qed.

Ltac mstep := erewrite exec_step; [| cbn; reflexivity ].
Ltac mdone := erewrite exec_done; [| cbn; reflexivity ].

(** the kernel request is recorded and applied; nothing else of the state is needed below *)
Definition issue (m : mstate) (ops : list kop) : mstate :=
  m <| ob := set_kern (ob m) (kapply_all (kern (ob m)) ops) |> <| klog := klog m ++ ops |>.

(** what is left on the stack of an activity sleeping in [postpone()]/[suspend()] with wake-up [w] *)
Definition sleep_frames (w : sid) : list frame :=
  [ FCatch (fun e => if is_sig e w then Ret VU else Raise e);
    FCatch (fun e => Kop (fun _ _ => [KRevoke w]) ;;; Raise e);
    FBind (fun v => Kop (fun _ _ => [KRevoke w]) ;;; Ret v) ].

(** leaving the sleep by the own wake-up: the wake-up is revoked and the program continues normally *)
Lemma wake_own k a m w st outer :
  exec (9 + k) a m (MThrow (ESig w)) {| c_aid := a; c_stack := sleep_frames w ++ st |} outer
  = exec k a (issue m [KRevoke w]) (MRet VU) {| c_aid := a; c_stack := st |} outer.
Proof.
  unfold sleep_frames. cbn [Nat.add app].
  mstep. cbn [is_sig]. rewrite Nat.eqb_refl.
  mstep. mstep. mstep. mstep. mstep. mstep. mstep. mstep.
  unfold issue. reflexivity.
Qed.

(** leaving the sleep by any other exception (a foreign signal, GeneratorExit): the wake-up is revoked and the
    exception continues to propagate *)
Lemma wake_foreign k a m w e st outer :
  is_sig e w = false ->
  exec (9 + k) a m (MThrow e) {| c_aid := a; c_stack := sleep_frames w ++ st |} outer
  = exec k a (issue m [KRevoke w]) (MThrow e) {| c_aid := a; c_stack := st |} outer.
Proof.
  intros He. unfold sleep_frames. cbn [Nat.add app].
  mstep. rewrite He.
  mstep. mstep. mstep. mstep. mstep. mstep. mstep. mstep.
  unfold issue. reflexivity.
Qed.

(** the state in which an activity sleeps after requesting [ops] with the fresh wake-up signal *)
Definition asleep (m : mstate) (a : aid) (ops : list kop) (st : list frame) : mstate :=
  set_act (issue (m <| ob := (ob m) <| sigs := sigs (ob m) ++ [SKWake] |> |>) ops) a
          (ASusp (sleep_frames (length (sigs (ob m))) ++ st)).

(** [postpone()]: one wake-up of the running activity for the current time step, then hibernate *)
Theorem postpone_sleeps k a m st :
  exec (12 + k) a m (MRun postpone) {| c_aid := a; c_stack := st |} []
  = asleep m a [KNow a (Some (length (sigs (ob m))))] st.
Proof.
  cbn [Nat.add]. unfold postpone, new_sig, Kop, Do, Finally.
  do 11 mstep. mdone.
  unfold asleep, issue, set_act, sleep_frames, Kop, Do, set_kern, kapply_all. cbn.
  rewrite !app_nil_r. reflexivity.
Qed.

(** [suspend(delay=d)] for a valid delay: one wake-up [d] later, then hibernate *)
Theorem suspend_delay_sleeps k a m st d :
  xpos d && xltb (onow (ob m)) (xadd (onow (ob m)) d) = true ->
  exec (12 + k) a m (MRun (suspend_delay d)) {| c_aid := a; c_stack := st |} []
  = asleep m a [KAfter d a (Some (length (sigs (ob m))))] st.
Proof.
  intros Hd. cbn [Nat.add]. unfold suspend_delay, new_sig, Kop, Do, Finally.
  unfold onow in Hd.
  do 11 (erewrite exec_step; [| cbn; unfold onow; cbn; try rewrite Hd; reflexivity ]).
  mdone.
  unfold asleep, issue, set_act, sleep_frames, Kop, Do, set_kern, kapply_all. cbn.
  rewrite ?Hd, ?app_nil_r. cbn. rewrite ?Hd, ?app_nil_r. reflexivity.
Qed.

(** ** [while not cond: wait] leaves the loop only in a state where the condition holds

    [While c body] (Lib.v) re-evaluates [c] on the CURRENT state before every iteration.  For an arbitrary
    state, activity, body and continuation: if [c] holds the body runs once more; if it does not, the loop is
    left at once, in the same activation and without any change of state.  So the statement following
    `await condition` ([cond_await]: `while not self: wait`) executes in a state in which the condition is true:
    the machine-level "resume implies true" of C08. *)
Lemma while_head_exits k a m c body st outer :
  c (ob m) = false ->
  exec (3 + k) a m (MRun (Dyn (fun o _ => if c o then body ;;; Ret (VCont VU) else Ret (VBreak VU))))
       {| c_aid := a; c_stack := FLoop (fun _ => Dyn (fun o _ => if c o then body ;;; Ret (VCont VU) else Ret (VBreak VU))) :: st |} outer
  = exec k a m (MRet VU) {| c_aid := a; c_stack := st |} outer.
Proof.
  intros Hc. cbn [Nat.add].
  erewrite exec_step; [| cbn; rewrite Hc; reflexivity ].
  mstep. mstep. reflexivity.
Qed.

Lemma while_head_continues k a m c body st outer :
  c (ob m) = true ->
  exec (2 + k) a m (MRun (Dyn (fun o _ => if c o then body ;;; Ret (VCont VU) else Ret (VBreak VU))))
       {| c_aid := a; c_stack := FLoop (fun _ => Dyn (fun o _ => if c o then body ;;; Ret (VCont VU) else Ret (VBreak VU))) :: st |} outer
  = exec k a m (MRun body)
         {| c_aid := a;
            c_stack := FBind (fun _ => Ret (VCont VU))
                       :: FLoop (fun _ => Dyn (fun o _ => if c o then body ;;; Ret (VCont VU) else Ret (VBreak VU))) :: st |} outer.
Proof.
  intros Hc. cbn [Nat.add].
  erewrite exec_step; [| cbn; rewrite Hc; reflexivity ].
  mstep. reflexivity.
Qed.

(** entering the loop: [While c body] first evaluates the head *)
Lemma while_enters k a m c body st outer :
  exec (1 + k) a m (MRun (While c body)) {| c_aid := a; c_stack := st |} outer
  = exec k a m (MRun (Dyn (fun o _ => if c o then body ;;; Ret (VCont VU) else Ret (VBreak VU))))
         {| c_aid := a; c_stack := FLoop (fun _ => Dyn (fun o _ => if c o then body ;;; Ret (VCont VU) else Ret (VBreak VU))) :: st |} outer.
Proof. cbn [Nat.add]. unfold While. mstep. reflexivity. Qed.

(** the only exit: from the head, in a state where the guard is false *)
Theorem while_exit_only_when_false k a m c body st outer :
  exec (4 + k) a m (MRun (While c body)) {| c_aid := a; c_stack := st |} outer
  = if c (ob m)
    then exec (1 + k) a m (MRun body)
              {| c_aid := a;
                 c_stack := FBind (fun _ => Ret (VCont VU))
                            :: FLoop (fun _ => Dyn (fun o _ => if c o then body ;;; Ret (VCont VU) else Ret (VBreak VU))) :: st |} outer
    else exec k a m (MRet VU) {| c_aid := a; c_stack := st |} outer.
Proof.
  change (4 + k) with (1 + (3 + k)). rewrite while_enters.
  destruct (c (ob m)) eqn:Hc.
  - change (3 + k) with (2 + (1 + k)). apply while_head_continues. exact Hc.
  - apply while_head_exits. exact Hc.
Qed.
