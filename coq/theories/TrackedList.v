(** A Tracked value and its comparisons (usim/_basics/tracked.py):
      tracked OP rhs           creates an AsyncComparison, registered as listener of the Tracked (in creation order)
      Condition.__subscribe__  to a comparison: holds -> schedule at once, else append to the comparison's waiting list
      Tracked.set(v)           value := v; then EVERY listener, in creation order, is told: one that holds wakes ALL its waiters
    Comparisons are identified by their creation index.  Theorems for every history: after each operation no comparison
    that holds has anybody parked; a set wakes exactly the waiters of the comparisons that hold afterwards, comparison by
    comparison in creation order, each list oldest first. *)
From Coq Require Import ZArith List Arith Bool Lia.
From Usim Require Import Tables.
Import ListNotations.

Definition sub := (nat * nat)%type.                                      (* (waiter, token) *)
Record cmp := { c_op : cmpop; c_rhs : Z; c_wait : list sub }.
Inductive op := New (o : cmpop) (rhs : Z) | Sub (c w t : nat) | SetTo (v : Z).

Record tr := { value : Z; cmps : list cmp; scheduled : list sub }.

Definition c_holds (v : Z) (c : cmp) : bool := cmp_eval (c_op c) v (c_rhs c).

Fixpoint upd {A} (l : list A) (i : nat) (f : A -> A) : list A :=
  match l, i with
  | [], _ => []
  | x :: r, O => f x :: r
  | x :: r, S j => x :: upd r j f
  end.

Definition step (s : tr) (o : op) : tr :=
  match o with
  | New o rhs => {| value := value s; cmps := cmps s ++ [{| c_op := o; c_rhs := rhs; c_wait := [] |}]; scheduled := scheduled s |}
  | Sub c w t =>
      match nth_error (cmps s) c with
      | None => s
      | Some x =>
          if c_holds (value s) x
          then {| value := value s; cmps := cmps s; scheduled := scheduled s ++ [(w, t)] |}
          else {| value := value s; cmps := upd (cmps s) c (fun x => {| c_op := c_op x; c_rhs := c_rhs x; c_wait := c_wait x ++ [(w, t)] |});
                  scheduled := scheduled s |}
      end
  | SetTo v =>
      {| value := v;
         cmps := map (fun x => if c_holds v x then {| c_op := c_op x; c_rhs := c_rhs x; c_wait := [] |} else x) (cmps s);
         scheduled := scheduled s ++ flat_map (fun x => if c_holds v x then c_wait x else []) (cmps s) |}
  end.

Definition init (v : Z) : tr := {| value := v; cmps := []; scheduled := [] |}.
Definition run (v : Z) (ops : list op) : tr := fold_left step ops (init v).

(** ** nobody is parked on a comparison that holds *)
Definition ok (s : tr) : Prop := Forall (fun x => c_holds (value s) x = true -> c_wait x = []) (cmps s).

Lemma upd_Forall {A} (P : A -> Prop) l i f : Forall P l -> (forall x, nth_error l i = Some x -> P (f x)) -> Forall P (upd l i f).
Proof.
  revert i. induction l as [|y r IH]; intros i H Hf; cbn; [destruct i; constructor|].
  inversion H as [|? ? Hy Hr]; subst. destruct i as [|j]; constructor.
  - apply Hf. reflexivity.
  - exact Hr.
  - exact Hy.
  - apply IH; [exact Hr|]. intros x Hx. apply Hf. exact Hx.
Qed.

Lemma step_ok s o : ok s -> ok (step s o).
Proof.
  unfold ok. intros H. destruct o as [o rhs|c w t|v]; cbn.
  - apply Forall_app. split; [exact H|]. constructor; [|constructor]. intros _. reflexivity.
  - destruct (nth_error (cmps s) c) as [x|] eqn:E; [|exact H].
    destruct (c_holds (value s) x) eqn:Hx; cbn; [exact H|].
    apply upd_Forall; [exact H|]. intros y Hy. rewrite E in Hy. inversion Hy. subst y.
    cbn. unfold c_holds in *. cbn. rewrite Hx. discriminate.
  - apply Forall_forall. intros y Hy. apply in_map_iff in Hy. destruct Hy as [x [<- Hin]].
    destruct (c_holds v x) eqn:Hx; cbn.
    + intros _. reflexivity.
    + rewrite Hx. discriminate.
Qed.

Theorem never_parked_on_a_comparison_that_holds v ops : ok (run v ops).
Proof.
  unfold run. assert (G : forall ops s, ok s -> ok (fold_left step ops s)).
  { clear ops. induction ops as [|o r IH]; intros s H; cbn; [exact H|]. apply IH. apply step_ok. exact H. }
  apply G. constructor.
Qed.

(** ** a set wakes exactly the waiters of the comparisons that hold afterwards *)
Theorem set_wakes_the_waiters_of_every_true_comparison v0 ops v :
  let s := run v0 ops in let s' := run v0 (ops ++ [SetTo v]) in
  scheduled s' = scheduled s ++ flat_map (fun x => if c_holds v x then c_wait x else []) (cmps s) /\
  value s' = v /\ length (cmps s') = length (cmps s) /\
  (forall i x, nth_error (cmps s) i = Some x -> c_holds v x = false -> nth_error (cmps s') i = Some x).
Proof.
  unfold run. rewrite fold_left_app. cbn. repeat split.
  - rewrite map_length. reflexivity.
  - intros i x Hx Hf. rewrite nth_error_map, Hx. cbn. rewrite Hf. reflexivity.
Qed.

Example ex_tracked :
  let s := run 0 [New Ge 3; New Lt 2; New Ge 5; Sub 0 1 10; Sub 2 2 20; Sub 1 3 30; Sub 0 4 40; SetTo 4; Sub 2 5 50; SetTo 7;
                  Sub 1 6 60; SetTo 1]%Z in
  scheduled s = [(3, 30); (1, 10); (4, 40); (2, 20); (5, 50); (6, 60)] /\ map c_wait (cmps s) = [[]; []; []].
Proof. vm_compute. split; reflexivity. Qed.

(** ** nobody is lost: every subscriber of an existing comparison is parked on some comparison or has been scheduled *)
Definition accounted (s : tr) (p : sub) : Prop := In p (scheduled s) \/ exists x, In x (cmps s) /\ In p (c_wait x).

Lemma upd_In_keep {A} (l : list A) i f x : In x l -> (exists y, In y (upd l i f) /\ (y = x \/ exists x0, nth_error l i = Some x0 /\ x = x0 /\ y = f x0)).
Proof.
  revert i. induction l as [|z r IH]; intros i H; [destruct H|].
  destruct i as [|j]; cbn.
  - destruct H as [->|H].
    + exists (f x). split; [left; reflexivity|]. right. exists x. auto.
    + exists x. split; [right; exact H|left; reflexivity].
  - destruct H as [->|H].
    + exists x. split; [left; reflexivity|left; reflexivity].
    + destruct (IH j H) as (y & Hy & Hc). exists y. split; [right; exact Hy|exact Hc].
Qed.

Lemma upd_In_new {A} (l : list A) i f x : nth_error l i = Some x -> In (f x) (upd l i f).
Proof.
  revert i. induction l as [|z r IH]; intros i H; [destruct i; discriminate|].
  destruct i as [|j]; cbn in *.
  - inversion H. left. reflexivity.
  - right. apply IH. exact H.
Qed.

Lemma step_keeps s o p : accounted s p -> accounted (step s o) p.
Proof.
  unfold accounted. intros H. destruct o as [o rhs|c w t|v]; cbn.
  - destruct H as [H|(x & Hx & Hp)]; [left; exact H|]. right. exists x. rewrite in_app_iff. auto.
  - destruct (nth_error (cmps s) c) as [x0|] eqn:E; [|exact H].
    destruct (c_holds (value s) x0); cbn.
    + destruct H as [H|H]; [left; rewrite in_app_iff; auto|right; exact H].
    + destruct H as [H|(x & Hx & Hp)]; [left; exact H|]. right.
      destruct (upd_In_keep (cmps s) c (fun x => {| c_op := c_op x; c_rhs := c_rhs x; c_wait := c_wait x ++ [(w, t)] |}) x Hx)
        as (y & Hy & [->|(x1 & _ & -> & ->)]).
      * exists x. auto.
      * eexists. split; [exact Hy|]. cbn. rewrite in_app_iff. auto.
  - destruct H as [H|(x & Hx & Hp)]; [left; rewrite in_app_iff; auto|].
    destruct (c_holds v x) eqn:Hh.
    + left. rewrite in_app_iff. right. apply in_flat_map. exists x. split; [exact Hx|]. rewrite Hh. exact Hp.
    + right. exists x. split; [|exact Hp]. apply in_map_iff. exists x. rewrite Hh. auto.
Qed.

Lemma fold_keeps p : forall r s, accounted s p -> accounted (fold_left step r s) p.
Proof. induction r as [|o r IH]; intros s K; cbn; [exact K|]. apply IH. apply step_keeps. exact K. Qed.

Definition valid_subs (v : Z) (ops : list op) : list sub :=
  (fix go (s : tr) (ops : list op) : list sub :=
     match ops with
     | [] => []
     | o :: r => (match o with
                  | Sub c w t => match nth_error (cmps s) c with Some _ => [(w, t)] | None => [] end
                  | _ => []
                  end) ++ go (step s o) r
     end) (init v) ops.

Theorem nobody_is_lost v ops p : In p (valid_subs v ops) -> accounted (run v ops) p.
Proof.
  unfold run, valid_subs. generalize (init v) as s.
  induction ops as [|o r IH]; intros s H; cbn in *; [destruct H|].
  apply in_app_iff in H. destruct H as [H|H]; [|apply IH; exact H].
  assert (K : accounted (step s o) p).
  { destruct o as [o rhs|c w t|v0]; cbn in H; try contradiction.
    destruct (nth_error (cmps s) c) as [x0|] eqn:E; cbn in H; [|contradiction].
    destruct H as [<-|[]]. unfold accounted. cbn. rewrite E.
    destruct (c_holds (value s) x0); cbn.
    - left. rewrite in_app_iff. cbn. auto.
    - right. eexists. split; [eapply upd_In_new; exact E|]. cbn. rewrite in_app_iff. cbn. auto. }
  apply fold_keeps. exact K.
Qed.
