(** FlowProto: a deterministic discrete-event model of [usim.first] and [usim.collect]
    (usim/_concurrent/basics.py on top of Scope, Task, Queue and the event loop).  Executable Gallina only;
    the theorems are in FlowProtoProps.v.

    Input ([cfg]): the call is made at time [c_t0] with activities [(delay, outcome)]: activity [i] is a plain
    coroutine that awaits [time + delay] and then returns [v] ([Val v]) or raises ([Fail e]).  For [first]
    there is the resolved [count] ([c_k], [None] resolved to the number of activities by [first_run]) and the
    consumer's think time after each received result ([c_thinks]; [0] = it resumes its [async for] at once,
    [> 0] = it is suspended in its own loop body for that long).

    Mechanism that is modelled (one [step] = one activation executed by [Loop._run_events]):
    - [agenda] is the kernel's queue of activations, flattened: entries sorted by due time, [push] inserts
      behind every entry that is due at the same time or earlier (= [Loop.schedule]: FIFO within a time step,
      [WaitQueue.push] for later dates).  The head of the agenda is the next activation.
    - [AAct i]: the wake-up of the runner of activity [i] out of its [await (time + delay)].  The [n] start
      turns (the runner starts, reaches the await and schedules that wake-up) happen at [c_t0] in spawn order
      before anything else can run; they are folded into the initial agenda ([spawn_from] pushes in spawn
      order, so that equal dates are served in spawn order), behind the caller's own postponement if it has
      one ([count = 0], [collect]).
      On its wake-up the activity runs its last statement ([EFin]); the task stores the outcome ([SDone]);
      [first]: [_first_monitor] puts a result into the queue ([buf]) and wakes the consumer if it waits for
      an item ([CWait] -> [CTake] + a [ACons] activation); a failure is appended to the scope's
      [_child_failures] ([fails]) and [Scope.__cancel__] schedules the scope's [CancelScope] for the caller
      ([ACancel]); [collect]: [Task._done] wakes the caller if it is awaiting this child ([COn i]).
      (The monitor's last turn after the postponement of [Queue.put] runs no code of the activity and is left
      out; so are the postponements of the caller on children that are already done.)
    - [ACons]: a turn of the caller.  [first]: [CTake] pops the head of the queue and the consumer receives it
      ([EYield]); if it thinks it schedules its own wake-up ([CBusy]); when it comes back to the iterator:
      [islice] stops after [c_k] items -> the body of first()'s scope is done, [Scope.__aexit__] postpones once
      ([CExit]); else if the queue is not empty [Queue._await_message] postpones once ([CTake]) else it waits
      ([CWait]).  The [CExit] turn closes every monitor that is not done ([close_from]: [EAbort] in spawn
      order) and the iteration ends ([EReturn]).  [collect]: [CRun] looks for the first child that is not
      done and awaits it ([COn j]); if there is none the scope is left and the call returns the stored
      results in argument order ([EResult]) or raises the collected failures ([ERaise]).
    - [ACancel]: the CancelScope reaches the caller: the scope closes all children that are not done and raises
      [Concurrent] of the failures collected so far ([ERaise]).  If the consumer of [first] is suspended in
      its own loop body at that moment ([CBusy]) the signal escapes from first()'s frame: known finding D11
      ([EEscape]).
    The run stops when the call has returned or raised ([CDone]); what is left in the agenda are revoked
    activations.  Times are integers (the harness only uses integer dates). *)
From Coq Require Import ZArith List Bool Lia.
Import ListNotations.
Open Scope Z_scope.

Inductive outcome := Val (v : Z) | Fail (e : Z).
Definition activity := (Z * outcome)%type.        (* (delay, outcome) *)

Inductive agent := AAct (i : nat) | ACons | ACancel.
Definition agenda := list (Z * agent).

(** [Loop.schedule]: behind everything that is due at the same time or earlier *)
Fixpoint push (t : Z) (a : agent) (g : agenda) : agenda :=
  match g with
  | [] => [(t, a)]
  | (t', a') :: r => if t' <=? t then (t', a') :: push t a r else (t, a) :: g
  end.

Inductive astate := SSleep | SDone (o : outcome) | SAborted.
Inductive cstate := CWait | CTake | CBusy | CExit | CRun | COn (j : nat) | CDone.
Inductive mode := MFirst | MCollect.

Inductive event :=
| EFin (t : Z) (i : nat)            (* activity i ran its last statement (it returns or raises now) *)
| EAbort (t : Z) (i : nat)          (* activity i was closed (GeneratorExit at its await) *)
| EYield (t : Z) (v : Z)            (* the consumer of first() received v *)
| EReturn (t : Z)                   (* first(): the iteration ended normally *)
| EResult (t : Z) (vs : list Z)     (* collect() returned vs *)
| ERaise (t : Z) (es : list Z)      (* the call raised Concurrent(es...) *)
| EValueError (t : Z)               (* first(): count exceeds the number of activities *)
| EEscape (t : Z)                   (* known finding D11: CancelScope delivered into the consumer's own body *)
| EStuck.                           (* the model did not finish (excluded by FlowProtoProps.run_finishes) *)

Record cfg := { c_mode : mode; c_t0 : Z; c_acts : list activity; c_k : nat; c_thinks : list Z }.

Record state := {
  now : Z;
  ag : agenda;
  ast : list astate;        (* per activity: Task state *)
  buf : list Z;             (* Queue._buffer of first() *)
  cs : cstate;              (* where the caller is *)
  got : nat;                (* results received by the consumer of first() *)
  fails : list Z;           (* Scope._child_failures *)
  ev : list event           (* observable events so far, oldest first *)
}.

Fixpoint set_nth {A} (i : nat) (x : A) (l : list A) : list A :=
  match l, i with
  | [], _ => []
  | _ :: r, O => x :: r
  | y :: r, S i' => y :: set_nth i' x r
  end.

(** [Scope._close_children] / [_close_volatile]: close every task that is still running, in spawn order *)
Fixpoint close_from (i : nat) (t : Z) (l : list astate) : list astate * list event :=
  match l with
  | [] => ([], [])
  | SSleep :: r => let (l', e) := close_from (S i) t r in (SAborted :: l', EAbort t i :: e)
  | s :: r => let (l', e) := close_from (S i) t r in (s :: l', e)
  end.

Fixpoint first_sleep_from (i : nat) (l : list astate) : option nat :=
  match l with
  | [] => None
  | SSleep :: _ => Some i
  | _ :: r => first_sleep_from (S i) r
  end.

(** [[await task for task in tasks]] *)
Fixpoint results (l : list astate) : list Z :=
  match l with
  | [] => []
  | SDone (Val v) :: r => v :: results r
  | _ :: r => results r
  end.

Definition outcome_of (c : cfg) (i : nat) : option outcome := option_map snd (nth_error (c_acts c) i).

(** the consumer of first() comes back to the iterator having [g] results, the queue holding [b] *)
Definition resume (c : cfg) (t : Z) (rest : agenda) (g : nat) (b : list Z) : cstate * agenda :=
  if Nat.eqb g (c_k c) then (CExit, push t ACons rest)
  else match b with
       | [] => (CWait, rest)
       | _ :: _ => (CTake, push t ACons rest)
       end.

(** the call ends: close what is still running, report [fe] *)
Definition finish (s : state) (t : Z) (rest : agenda) (fe : event) : state :=
  let (l', ab) := close_from 0 t (ast s) in
  {| now := t; ag := rest; ast := l'; buf := buf s; cs := CDone; got := got s; fails := fails s;
     ev := ev s ++ ab ++ [fe] |}.

Definition skip (s : state) (t : Z) (rest : agenda) : state :=
  {| now := t; ag := rest; ast := ast s; buf := buf s; cs := cs s; got := got s; fails := fails s; ev := ev s |}.

Definition is_on (x : cstate) (i : nat) : bool := match x with COn j => Nat.eqb j i | _ => false end.
Definition is_wait (x : cstate) : bool := match x with CWait => true | _ => false end.

(** the wake-up of activity [i] at [t] *)
Definition act_turn (c : cfg) (s : state) (t : Z) (rest : agenda) (i : nat) : state :=
  match nth i (ast s) SAborted, outcome_of c i with
  | SSleep, Some (Val v) =>
      let wake := match c_mode c with MFirst => is_wait (cs s) | MCollect => is_on (cs s) i end in
      {| now := t;
         ag := if wake then push t ACons rest else rest;
         ast := set_nth i (SDone (Val v)) (ast s);
         buf := match c_mode c with MFirst => buf s ++ [v] | MCollect => buf s end;
         cs := if wake then (match c_mode c with MFirst => CTake | MCollect => CRun end) else cs s;
         got := got s; fails := fails s; ev := ev s ++ [EFin t i] |}
  | SSleep, Some (Fail e) =>
      let wake := match c_mode c with MFirst => false | MCollect => is_on (cs s) i end in
      let g1 := push t ACancel rest in
      {| now := t;
         ag := if wake then push t ACons g1 else g1;
         ast := set_nth i (SDone (Fail e)) (ast s);
         buf := buf s;
         cs := if wake then CRun else cs s;
         got := got s; fails := fails s ++ [e]; ev := ev s ++ [EFin t i] |}
  | _, _ => skip s t rest
  end.

(** a turn of the caller at [t] *)
Definition cons_turn (c : cfg) (s : state) (t : Z) (rest : agenda) : state :=
  match cs s with
  | CTake =>
      match buf s with
      | [] => skip s t rest
      | v :: b =>
          let g := S (got s) in
          let th := nth (got s) (c_thinks c) 0 in
          let (x, g') := if 0 <? th then (CBusy, push (t + th) ACons rest) else resume c t rest g b in
          {| now := t; ag := g'; ast := ast s; buf := b; cs := x; got := g; fails := fails s;
             ev := ev s ++ [EYield t v] |}
      end
  | CBusy =>
      let (x, g') := resume c t rest (got s) (buf s) in
      {| now := t; ag := g'; ast := ast s; buf := buf s; cs := x; got := got s; fails := fails s; ev := ev s |}
  | CExit => finish s t rest (EReturn t)
  | CRun =>
      match first_sleep_from 0 (ast s) with
      | Some j =>
          {| now := t; ag := rest; ast := ast s; buf := buf s; cs := COn j; got := got s; fails := fails s;
             ev := ev s |}
      | None =>
          finish s t rest (match fails s with [] => EResult t (results (ast s)) | _ => ERaise t (fails s) end)
      end
  | _ => skip s t rest
  end.

(** the CancelScope of the call's scope reaches the caller at [t] *)
Definition cancel_turn (s : state) (t : Z) (rest : agenda) : state :=
  match cs s with
  | CBusy => finish s t rest (EEscape t)
  | _ => finish s t rest (ERaise t (fails s))
  end.

Definition step (c : cfg) (s : state) : option state :=
  match cs s with
  | CDone => None
  | _ =>
      match ag s with
      | [] => None
      | (t, AAct i) :: rest => Some (act_turn c s t rest i)
      | (t, ACons) :: rest => Some (cons_turn c s t rest)
      | (t, ACancel) :: rest => Some (cancel_turn s t rest)
      end
  end.

Fixpoint run (c : cfg) (fuel : nat) (s : state) : state :=
  match fuel with
  | O => s
  | S f => match step c s with Some s' => run c f s' | None => s end
  end.

(** every step decreases this; it is the fuel of [run] *)
Definition weight (e : Z * agent) : nat := match snd e with AAct _ => 5 | _ => 1 end.
Definition measure (s : state) : nat :=
  (list_sum (map weight (ag s)) + 2 * length (buf s) + match cs s with CBusy => 1 | _ => 0 end)%nat.

(** the runners start in spawn order and schedule their wake-ups *)
Fixpoint spawn_from (i : nat) (t0 : Z) (acts : list activity) (g : agenda) : agenda :=
  match acts with
  | [] => g
  | (d, _) :: r => spawn_from (S i) t0 r (push (t0 + d) (AAct i) g)
  end.

Definition init (c : cfg) : state :=
  let own := match c_mode c, c_k c with MFirst, S _ => false | _, _ => true end in
  {| now := c_t0 c;
     ag := spawn_from 0 (c_t0 c) (c_acts c) (if own then [(c_t0 c, ACons)] else []);
     ast := repeat SSleep (length (c_acts c));
     buf := [];
     cs := match c_mode c, c_k c with MFirst, S _ => CWait | MFirst, O => CExit | MCollect, _ => CRun end;
     got := 0; fails := []; ev := [] |}.

Definition is_done (x : cstate) : bool := match x with CDone => true | _ => false end.

Definition trace_of (s : state) : list event := ev s ++ (if is_done (cs s) then [] else [EStuck]).

Definition exec (c : cfg) : list event := let s := init c in trace_of (run c (measure s) s).

(** [first(activities..., count=count)] called at [t0] by a consumer with the given think times *)
Definition first_cfg (t0 : Z) (acts : list activity) (count : option nat) (thinks : list Z) : cfg :=
  {| c_mode := MFirst; c_t0 := t0; c_acts := acts;
     c_k := match count with Some k => k | None => length acts end; c_thinks := thinks |}.

Definition first_run (t0 : Z) (acts : list activity) (count : option nat) (thinks : list Z) : list event :=
  let c := first_cfg t0 acts count thinks in
  if Nat.ltb (length acts) (c_k c) then [EValueError t0] else exec c.

(** [await collect(activities...)] called at [t0] *)
Definition collect_cfg (t0 : Z) (acts : list activity) : cfg :=
  {| c_mode := MCollect; c_t0 := t0; c_acts := acts; c_k := 0; c_thinks := [] |}.

Definition collect_run (t0 : Z) (acts : list activity) : list event := exec (collect_cfg t0 acts).

(** * Encoding for the correspondence check (harness/flowcorr.py) *)
Definition enc_event (e : event) : list Z :=
  match e with
  | EFin t i => [1; t; Z.of_nat i]
  | EAbort t i => [2; t; Z.of_nat i]
  | EYield t v => [3; t; v]
  | EReturn t => [4; t]
  | EResult t vs => 5 :: t :: vs
  | ERaise t es => 6 :: t :: es
  | EValueError t => [7; t]
  | EEscape t => [8; t]
  | EStuck => [9]
  end.

Fixpoint zlist_eqb (a b : list Z) : bool :=
  match a, b with
  | [], [] => true
  | x :: a', y :: b' => Z.eqb x y && zlist_eqb a' b'
  | _, _ => false
  end.

Fixpoint zll_eqb (a b : list (list Z)) : bool :=
  match a, b with
  | [], [] => true
  | x :: a', y :: b' => zlist_eqb x y && zll_eqb a' b'
  | _, _ => false
  end.

Inductive call := CallFirst (t0 : Z) (acts : list activity) (count : option nat) (thinks : list Z)
                | CallCollect (t0 : Z) (acts : list activity).

Definition call_trace (x : call) : list (list Z) :=
  map enc_event (match x with
                 | CallFirst t0 a k th => first_run t0 a k th
                 | CallCollect t0 a => collect_run t0 a
                 end).

Fixpoint bad_from (i : nat) (l : list (call * list (list Z))) : list nat :=
  match l with
  | [] => []
  | (x, o) :: r => if zll_eqb (call_trace x) o then bad_from (S i) r else i :: bad_from (S i) r
  end.

(** indices of the cases whose model trace differs from the observed one *)
Definition bad_cases (l : list (call * list (list Z))) : list nat := bad_from 0 l.

(** the model traces of the cases with the given indices (printed only when there is a difference) *)
Definition traces_at (l : list (call * list (list Z))) (idx : list nat) : list (list (list Z)) :=
  map (fun i => match nth_error l i with Some (x, _) => call_trace x | None => [] end) idx.
