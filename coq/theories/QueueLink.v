(** Discipline lemmas for usim.Queue (DESIGN.md 2.2), continuing LockLink.v: the object-state effect of the
    atomic sections of the machine's queue code (Lib.v: [queue_put], [queue_close], [queue_pop], the item
    subscription of [queue_get], and the sections of the read mutex inside [with_lock]) are the operations
    out of which QueueProto builds its transitions, under the relation [qlink].  The protocol invariants
    (exactly-once, order, ...) therefore hold of every machine object state related to a reachable
    protocol state.

    Scope: object-state level (sections as functions on [objs], like section 4 of LockLink.v).  [Put] and
    [Close] are single primitives and are also tied to [exec]; for the receiver the exec-level symbolic
    execution of [queue_get] is NOT done here (see design_notes/links.md). *)
From Coq Require Import ZArith List Bool Arith Lia.
From RecordUpdate Require Import RecordSet.
From Usim Require Import XTime Tables Kernel Machine Lib WaitSpecs LockLink.
From Usim Require LockProto LockProtoProps QueueProto QueueProtoProps.
Import ListNotations.
Import RecordSetNotations.

Module QP := QueueProto.
Module QPP := QueueProtoProps.

(** * 1. a plain notification with its open subscriptions (the part of [LockLink.linkf] that concerns the
      notification, for an arbitrary notification) *)
Record nlinkf (o : objs) (n : nid) (wk : aid -> sid) (wt wo : list aid) : Prop := {
  n_lt : n < length (notifs o);
  n_plain : nk (get_notif o n) = NPlain;
  n_waiting : Machine.waiting (get_notif o n) = map (fun a => (a, wk a)) wt;
  n_woken : forall a, In a wo -> is_scheduled o (wk a) = true;
  n_queued : forall a, In a wt -> is_scheduled o (wk a) = false;
  n_alloc : forall a, In a (wo ++ wt) -> wk a < length (sigs o);
  n_inj : NoDup (map wk wt)
}.

Lemma link_nlinkf o l wk s : link o l wk s -> nlinkf o (lnotif o l) wk (LP.waiting s) (LP.woken s).
Proof. intros K. destruct K. constructor; auto. Qed.

Lemma nlinkf_frame o o' n wk wt wo :
  nlinkf o n wk wt wo ->
  length (notifs o) <= length (notifs o') -> length (sigs o) <= length (sigs o') ->
  get_notif o' n = get_notif o n ->
  (forall a, In a (wo ++ wt) -> is_scheduled o' (wk a) = is_scheduled o (wk a)) ->
  nlinkf o' n wk wt wo.
Proof.
  intros K Hn Hs En Es. destruct K. constructor; rewrite ?En; auto; try lia.
  - intros a Ha. rewrite Es; auto. apply in_or_app; auto.
  - intros a Ha. rewrite Es; auto. apply in_or_app; auto.
  - intros a Ha. specialize (n_alloc0 a Ha). lia.
Qed.

(** [__subscribe__] with a fresh wake-up *)
Definition sec_subscribe (o : objs) (n : nid) (a : aid) : objs :=
  plain_subscribe (o <| sigs := sigs o ++ [SKWake] |>) n a (length (sigs o)).

Lemma nlinkf_subscribe o n wk wt wo a :
  nlinkf o n wk wt wo -> ~ In a wt -> ~ In a wo -> is_scheduled o (length (sigs o)) = false ->
  nlinkf (sec_subscribe o n a) n (LP.upd wk a (length (sigs o))) (wt ++ [a]) wo.
Proof.
  intros K Nt No Fr. destruct K. set (w := length (sigs o)) in *.
  assert (N : get_notif (sec_subscribe o n a) n
              = (get_notif o n) <| Machine.waiting := Machine.waiting (get_notif o n) ++ [(a, w)] |>).
  { unfold sec_subscribe, plain_subscribe. fold w. apply get_notif_set_notif. exact n_lt0. }
  assert (Hm : map (fun b : aid => (b, LP.upd wk a w b)) wt = map (fun b : aid => (b, wk b)) wt).
  { apply map_ext_in. intros b Hb. rewrite LPP.upd_other; auto. intros ->. auto. }
  constructor; rewrite ?N; auto.
  - unfold sec_subscribe, plain_subscribe, set_notif. cbn. rewrite length_list_upd. exact n_lt0.
  - cbn. rewrite n_waiting0, map_app, Hm. cbn. rewrite LPP.upd_same. reflexivity.
  - intros b Hb. rewrite LPP.upd_other by (intros ->; auto). apply n_woken0. exact Hb.
  - intros b Hb. apply in_app_or in Hb as [Hb|[<-|[]]].
    + rewrite LPP.upd_other by (intros ->; auto). apply n_queued0. exact Hb.
    + rewrite LPP.upd_same. exact Fr.
  - intros b Hb. unfold sec_subscribe, plain_subscribe, set_notif. cbn. rewrite app_length. cbn. fold w.
    destruct (Nat.eq_dec b a) as [->|Nb].
    + rewrite LPP.upd_same. lia.
    + rewrite LPP.upd_other by auto. enough (wk b < w) by lia. apply n_alloc0.
      rewrite app_assoc in Hb. apply in_app_or in Hb as [Hb|[<-|[]]]; [exact Hb | congruence].
  - rewrite map_app. cbn. rewrite LPP.upd_same.
    rewrite (map_ext_in _ wk wt).
    2:{ intros b Hb. rewrite LPP.upd_other; auto. intros ->. auto. }
    apply LPP.NoDup_snoc; auto. intros Hw. apply in_map_iff in Hw as (b & Eb & Hb).
    assert (wk b < w) by (apply n_alloc0; apply in_or_app; auto). lia.
Qed.

(** [__unsubscribe__] *)
Lemma nlinkf_unsubscribe o n wk wt wo a :
  nlinkf o n wk wt wo -> In a (wo ++ wt) ->
  nlinkf (app_ops o (plain_unsubscribe o n a (wk a))) n wk
         (if LP.mem a wo then wt else LP.rem1 a wt) (if LP.mem a wo then LP.rem1 a wo else wo).
Proof.
  intros K Ha. destruct K. unfold plain_unsubscribe.
  destruct (LP.mem a wo) eqn:M.
  - apply LPP.mem_In in M. rewrite (n_woken0 a M). cbn.
    constructor; auto.
    + intros b Hb. apply n_woken0. eapply LPP.In_rem1; eauto.
    + intros b Hb. apply n_alloc0. apply in_app_or in Hb as [Hb|Hb]; apply in_or_app; auto.
      left. eapply LPP.In_rem1; eauto.
  - apply LPP.mem_false in M. apply in_app_or in Ha as [Ha|Ha]; [contradiction|].
    rewrite (n_queued0 a Ha).
    match goal with |- nlinkf ?o2 _ _ _ _ => set (o' := o2) end.
    assert (N : get_notif o' n = (get_notif o n) <| Machine.waiting := remove_pair a (wk a) (Machine.waiting (get_notif o n)) |>).
    { unfold o', app_ops. cbn [fst snd]. apply (get_notif_set_notif o n). exact n_lt0. }
    constructor; rewrite ?N; auto.
    + unfold o', app_ops, set_notif. cbn. rewrite length_list_upd. exact n_lt0.
    + cbn. rewrite n_waiting0. apply remove_pair_map.
    + intros b Hb. apply n_queued0. eapply LPP.In_rem1; eauto.
    + intros b Hb. apply n_alloc0. apply in_app_or in Hb as [Hb|Hb]; apply in_or_app; auto.
      right. eapply LPP.In_rem1; eauto.
    + apply NoDup_map_rem1. exact n_inj0.
Qed.

(** [__awake_next__] *)
Definition hd_list {A} (l : list A) : list A := match l with [] => [] | x :: _ => [x] end.

Lemma nlinkf_awake_next o n wk wt wo :
  nlinkf o n wk wt wo ->
  nlinkf (app_ops o (fst (awake_next o n))) n wk (tl wt) (wo ++ hd_list wt).
Proof.
  intros K. pose proof K as K0. destruct K. unfold awake_next.
  destruct wt as [|b r]; cbn [map] in n_waiting0; rewrite n_waiting0; cbn [fst tl hd_list].
  - rewrite app_nil_r. eapply nlinkf_frame; eauto.
  - match goal with |- nlinkf ?o2 _ _ _ _ => set (o' := o2) end.
    assert (N : get_notif o' n = (get_notif o n) <| Machine.waiting := map (fun a => (a, wk a)) r |>).
    { unfold o', app_ops. cbn [fst snd]. apply (get_notif_set_notif o n). exact n_lt0. }
    assert (S : forall w, is_scheduled o' w = Nat.eqb w (wk b) || is_scheduled o w) by reflexivity.
    cbn in n_inj0. apply NoDup_cons_iff in n_inj0 as [I1 I2].
    constructor; rewrite ?N; auto.
    + unfold o', app_ops, set_notif. cbn. rewrite length_list_upd. exact n_lt0.
    + intros c Hc. rewrite S. apply in_app_or in Hc as [Hc|[<-|[]]].
      * rewrite (n_woken0 c Hc). apply orb_true_r.
      * rewrite Nat.eqb_refl. reflexivity.
    + intros c Hc. rewrite S. rewrite (n_queued0 c) by (now right).
      rewrite (proj2 (Nat.eqb_neq (wk c) (wk b))); auto.
      intros Ec. apply I1. rewrite <- Ec. apply in_map. exact Hc.
    + intros c Hc. apply n_alloc0. rewrite <- app_assoc in Hc. exact Hc.
Qed.

(** [__awake_all__] *)
Lemma scheduled_kapply_all_now (ps : list (aid * sid)) : forall k w,
  mem_sid w (scheduled (kapply_all k (map (fun '(a, s) => KNow a (Some s)) ps)))
  = existsb (Nat.eqb w) (map snd ps) || mem_sid w (scheduled k).
Proof.
  induction ps as [|[a s] r IH]; intros k w; cbn [map kapply_all fold_left existsb snd]; auto.
  change (fold_left kapply (map (fun '(a0, s0) => KNow a0 (Some s0)) r) (kapply k (KNow a (Some s))))
    with (kapply_all (kapply k (KNow a (Some s))) (map (fun '(a0, s0) => KNow a0 (Some s0)) r)).
  rewrite IH. change (scheduled (kapply k (KNow a (Some s)))) with (s :: scheduled k).
  rewrite mem_sid_cons.
  destruct (existsb (Nat.eqb w) (map snd r)), (w =? s), (mem_sid w (scheduled k)); reflexivity.
Qed.

Lemma nlinkf_awake_all o n wk wt wo :
  nlinkf o n wk wt wo -> nlinkf (app_ops o (awake_all o n)) n wk [] (wo ++ wt).
Proof.
  intros K. destruct K. unfold awake_all. cbv zeta.
  match goal with |- nlinkf ?o2 _ _ _ _ => set (o' := o2) end.
  assert (N : get_notif o' n = (get_notif o n) <| Machine.waiting := [] |>).
  { unfold o', app_ops. cbn [fst snd]. apply (get_notif_set_notif o n). exact n_lt0. }
  assert (S : forall w, is_scheduled o' w
                        = existsb (Nat.eqb w) (map snd (Machine.waiting (get_notif o n))) || is_scheduled o w).
  { intros w. unfold o', app_ops, is_scheduled. cbn [fst snd]. cbn [set_kern]. apply scheduled_kapply_all_now. }
  constructor; rewrite ?N; auto.
  - unfold o', app_ops, set_notif. cbn. rewrite length_list_upd. exact n_lt0.
  - intros c Hc. rewrite S. apply in_app_or in Hc as [Hc|Hc].
    + rewrite (n_woken0 c Hc). apply orb_true_r.
    + rewrite n_waiting0, map_map. cbn. apply orb_true_iff. left. apply existsb_exists.
      exists (wk c). split; [apply in_map; exact Hc | apply Nat.eqb_refl].
  - intros c [].
  - intros c Hc. apply n_alloc0. rewrite app_nil_r in Hc. exact Hc.
  - constructor.
Qed.

(** * 2. the footprint of the lock sections: what they leave alone (needed to carry the relation of
      OTHER objects, here the queue that owns the mutex, across a lock section) *)
Definition wl_sids (o : objs) (l : nat) : list sid :=
  map snd (Machine.waiting (get_notif o (lnotif o l))).

Record lock_fp (o o' : objs) (l : nat) (X : list sid) : Prop := {
  fp_queues : queues o' = queues o;
  fp_llen : length (locks o') = length (locks o);
  fp_nlen : length (notifs o') = length (notifs o);
  fp_lnotif : lnotif o' l = lnotif o l;
  fp_notif : forall n', n' <> lnotif o l -> get_notif o' n' = get_notif o n';
  fp_sigs : length (sigs o) <= length (sigs o');
  fp_sched : forall w, ~ In w X -> is_scheduled o' w = is_scheduled o w
}.

Lemma lock_fp_refl o l X : lock_fp o o l X.
Proof. constructor; auto. Qed.

Lemma lock_fp_trans o o1 o2 l X X1 :
  lock_fp o o1 l X -> lock_fp o1 o2 l X1 -> incl X1 X -> lock_fp o o2 l X.
Proof.
  intros [A1 A2 A3 A4 A5 A6 A7] [B1 B2 B3 B4 B5 B6 B7] I. constructor; try congruence; try lia.
  - intros n' Hn. rewrite B5 by congruence. apply A5. exact Hn.
  - intros w Hw. rewrite B7 by (intros H; apply Hw; apply I; exact H). apply A7. exact Hw.
Qed.

Lemma fp_set_lock o l x X :
  l < length (locks o) -> l_notif x = lnotif o l -> lock_fp o (set_lock o l x) l X.
Proof.
  intros Hl Hn. constructor; auto.
  - cbn. apply length_list_upd.
  - unfold lnotif. rewrite get_lock_set_lock; auto.
Qed.

Lemma fp_subscribe o l a X :
  lnotif o l < length (notifs o) -> lock_fp o (sec_enter_wait o l a) l X.
Proof.
  intros Hn. constructor; auto.
  - unfold sec_enter_wait, plain_subscribe, set_notif. cbn. apply length_list_upd.
  - intros n' Hn'. unfold sec_enter_wait, plain_subscribe.
    rewrite get_notif_set_notif_ne by exact Hn'. reflexivity.
  - unfold sec_enter_wait, plain_subscribe, set_notif. cbn. rewrite app_length. lia.
Qed.

Lemma fp_unsubscribe o l a w X :
  lock_fp o (app_ops o (plain_unsubscribe o (lnotif o l) a w)) l X.
Proof.
  unfold plain_unsubscribe. destruct (is_scheduled o w).
  - constructor; auto.
  - constructor; auto.
    + unfold app_ops, set_notif. cbn. apply length_list_upd.
    + intros n' Hn'. unfold app_ops. cbn [fst snd]. apply (get_notif_set_notif_ne o). exact Hn'.
Qed.

Lemma In_remove_pair a w p l : In p (remove_pair a w l) -> In p l.
Proof.
  induction l as [|[a' w'] r IH]; cbn; auto. destruct (Nat.eqb a a' && Nat.eqb w w'); cbn; intuition.
Qed.

Lemma wl_unsubscribe_incl o l a w :
  lnotif o l < length (notifs o) ->
  incl (wl_sids (app_ops o (plain_unsubscribe o (lnotif o l) a w)) l) (wl_sids o l).
Proof.
  intros Hn. unfold wl_sids.
  rewrite (fp_lnotif _ _ _ [] (fp_unsubscribe o l a w [])).
  unfold plain_unsubscribe. destruct (is_scheduled o w).
  - apply incl_refl.
  - unfold app_ops. cbn [fst snd].
    change (get_notif (set_kern (set_notif o (lnotif o l) ((get_notif o (lnotif o l)) <| Machine.waiting := remove_pair a w (Machine.waiting (get_notif o (lnotif o l))) |>)) (kapply_all (kern o) [])) (lnotif o l))
      with (get_notif (set_notif o (lnotif o l) ((get_notif o (lnotif o l)) <| Machine.waiting := remove_pair a w (Machine.waiting (get_notif o (lnotif o l))) |>)) (lnotif o l)).
    rewrite get_notif_set_notif by exact Hn. cbn.
    intros s Hs. apply in_map_iff in Hs as (p & <- & Hp). apply in_map. eapply In_remove_pair; eauto.
Qed.

Lemma fp_release o l :
  l < length (locks o) -> lock_fp o (app_ops o (lock_release o l)) l (wl_sids o l).
Proof.
  intros Hl. unfold wl_sids.
  destruct (Machine.waiting (get_notif o (lnotif o l))) as [|[b w] r] eqn:Ew.
  - rewrite (lock_release_empty _ _ Ew). unfold app_ops. cbn [fst snd].
    constructor; auto.
    + cbn. apply length_list_upd.
    + unfold lnotif. cbn [kapply_all fold_left].
      change (get_lock (set_kern (set_lock o l ((get_lock o l) <| l_owner := None |>)) (kern o)) l)
        with (get_lock (set_lock o l ((get_lock o l) <| l_owner := None |>)) l).
      rewrite get_lock_set_lock; auto.
  - rewrite (lock_release_cons _ _ _ _ _ Ew). unfold app_ops. cbn [fst snd].
    constructor; auto.
    + cbn. apply length_list_upd.
    + cbn. apply length_list_upd.
    + unfold lnotif.
      match goal with |- l_notif (get_lock (set_kern (set_lock ?o1 l ?x) ?k) l) = _ =>
        change (get_lock (set_kern (set_lock o1 l x) k) l) with (get_lock (set_lock o1 l x) l);
        rewrite (get_lock_set_lock o1 l x) by exact Hl end.
      reflexivity.
    + intros n' Hn'.
      match goal with |- get_notif (set_kern (set_lock (set_notif o ?n ?y) l ?x) ?k) n' = _ =>
        change (get_notif (set_kern (set_lock (set_notif o n y) l x) k) n') with (get_notif (set_notif o n y) n') end.
      apply get_notif_set_notif_ne. exact Hn'.
    + intros s Hs. cbn in Hs.
      change (is_scheduled (set_kern (set_lock (set_notif o (lnotif o l) ((get_notif o (lnotif o l)) <| Machine.waiting := r |>)) l ((get_lock o l) <| l_owner := Some b |>)) (kapply_all (kern o) [KNow b (Some w)])) s)
        with (Nat.eqb s w || is_scheduled o s).
      rewrite (proj2 (Nat.eqb_neq s w)); auto.
Qed.

(** the four sections of LockLink.v, section 4 *)
Lemma lnotif_set_lock o l x : l < length (locks o) -> l_notif x = lnotif o l -> lnotif (set_lock o l x) l = lnotif o l.
Proof. intros Hl Hn. unfold lnotif. rewrite get_lock_set_lock; auto. Qed.

Lemma fp_bump o l X : l < length (locks o) -> lock_fp o (bump_depth o l) l X.
Proof. intros Hl. apply fp_set_lock; auto. Qed.
Lemma fp_drop o l X : l < length (locks o) -> lock_fp o (drop_depth o l) l X.
Proof. intros Hl. apply fp_set_lock; auto. Qed.
Lemma fp_take o l a X : l < length (locks o) -> lock_fp o (take_free o l a) l X.
Proof. intros Hl. apply fp_set_lock; auto. Qed.

Lemma fp_sec_enter o l a X :
  l < length (locks o) -> lnotif o l < length (notifs o) -> lock_fp o (sec_enter o l a) l X.
Proof.
  intros Hl Hn. unfold sec_enter. destruct (l_owner (get_lock o l)) as [b|].
  - destruct (Nat.eqb a b); [apply fp_bump | apply fp_subscribe]; auto.
  - eapply lock_fp_trans; [apply fp_take; exact Hl | apply fp_bump | apply incl_refl].
    unfold take_free. cbn. rewrite length_list_upd. exact Hl.
Qed.

Lemma fp_sec_wake o l a w X : l < length (locks o) -> lock_fp o (sec_wake o l a w) l X.
Proof.
  intros Hl. unfold sec_wake.
  eapply lock_fp_trans; [apply fp_unsubscribe | apply fp_bump | apply incl_refl].
  rewrite (fp_llen _ _ _ X (fp_unsubscribe o l a w X)). exact Hl.
Qed.

Lemma fp_sec_foreign o l a w :
  l < length (locks o) -> lnotif o l < length (notifs o) -> lock_fp o (sec_foreign o l a w) l (wl_sids o l).
Proof.
  intros Hl Hn. unfold sec_foreign. cbv zeta.
  destruct (owner_is _ l a).
  - eapply lock_fp_trans; [apply fp_unsubscribe | apply fp_release | apply wl_unsubscribe_incl; exact Hn].
    rewrite (fp_llen _ _ _ [] (fp_unsubscribe o l a w [])). exact Hl.
  - apply fp_unsubscribe.
Qed.

Lemma fp_sec_exit o l : l < length (locks o) -> lock_fp o (sec_exit o l) l (wl_sids o l).
Proof.
  intros Hl. unfold sec_exit. cbv zeta.
  assert (Hd : length (locks (drop_depth o l)) = length (locks o))
    by (unfold drop_depth, set_lock; cbn; apply length_list_upd).
  destruct (l_depth (get_lock o l) - 1 =? 0)%Z.
  - eapply lock_fp_trans; [apply fp_drop; exact Hl | apply fp_release; lia |].
    unfold wl_sids, drop_depth. rewrite lnotif_set_lock; auto. exact (incl_refl _).
  - apply fp_drop. exact Hl.
Qed.

(** * 3. the relation between a machine object state and a QueueProto state *)
Definition qmx (o : objs) (q : nat) : nat := q_mutex (get_queue o q).
Definition qnt (o : objs) (q : nat) : nid := q_notif (get_queue o q).

(** [wkm] / [wkn] (ghost): the wake-up of the open subscription of an activity to the read mutex's /
    to the queue's notification.  Items are naturals in the protocol and integers in the machine. *)
Record qlinkf (o : objs) (q : nat) (wkm wkn : aid -> sid)
              (b : list nat) (cl : bool) (m : LP.st) (nw nwo : list aid) : Prop := {
  ql_lt : q < length (queues o);
  ql_buf : q_buf (get_queue o q) = map Z.of_nat b;
  ql_closed : q_closed (get_queue o q) = cl;
  ql_notif : nlinkf o (qnt o q) wkn nw nwo;
  ql_mutex : link o (qmx o q) wkm m;
  ql_sep : qnt o q <> lnotif o (qmx o q);
  ql_disj : forall x c, In x (LP.woken m ++ LP.waiting m) -> In c (nwo ++ nw) -> wkm x <> wkn c
}.

Definition qlink (o : objs) (q : nat) (wkm wkn : aid -> sid) (s : QP.qst) : Prop :=
  qlinkf o q wkm wkn (QP.buf s) (QP.closed s) (QP.mutex s) (QP.nwait s) (QP.nwoken s).

Lemma get_queue_set_queue o q x : q < length (queues o) -> get_queue (set_queue o q x) q = x.
Proof. intros H. unfold get_queue, set_queue. cbn. apply nth_list_upd_eq. exact H. Qed.

(** an operation on the queue record / the queue's notification *)
Lemma qlinkf_queue_op o o' q wkm wkn wkn' b cl m nw nwo b' cl' nw' nwo' :
  qlinkf o q wkm wkn b cl m nw nwo ->
  q < length (queues o') ->
  qnt o' q = qnt o q -> qmx o' q = qmx o q ->
  q_buf (get_queue o' q) = map Z.of_nat b' -> q_closed (get_queue o' q) = cl' ->
  nlinkf o' (qnt o q) wkn' nw' nwo' ->
  length (locks o') = length (locks o) -> length (notifs o) <= length (notifs o') ->
  length (sigs o) <= length (sigs o') ->
  get_lock o' (qmx o q) = get_lock o (qmx o q) ->
  get_notif o' (lnotif o (qmx o q)) = get_notif o (lnotif o (qmx o q)) ->
  (forall w, ~ In w (map wkn nw) -> is_scheduled o' w = is_scheduled o w) ->
  (forall c, In c (nwo' ++ nw') -> (In c (nwo ++ nw) /\ wkn' c = wkn c) \/ wkn' c = length (sigs o)) ->
  qlinkf o' q wkm wkn' b' cl' m nw' nwo'.
Proof.
  intros K Hq En Em Hb Hc Hn Hl Hnl Hs Gl Gn Sch Pend. destruct K.
  constructor; rewrite ?En, ?Em; auto.
  - eapply link_frame; eauto. intros x Hx. apply Sch. intros Hw.
    apply in_map_iff in Hw as (c & Ec & Hc'). eapply (ql_disj0 x c); eauto. apply in_or_app; auto.
  - unfold lnotif. rewrite Gl. exact ql_sep0.
  - intros x c Hx Hc'. destruct (Pend c Hc') as [[Hc2 E]|E]; rewrite E.
    + apply ql_disj0; auto.
    + pose proof (k_alloc _ _ _ _ _ _ _ ql_mutex0 x Hx). lia.
Qed.

(** a section of the read mutex *)
Lemma qlinkf_mutex_op o o' q wkm wkm' wkn b cl m m' nw nwo :
  qlinkf o q wkm wkn b cl m nw nwo ->
  lock_fp o o' (qmx o q) (wl_sids o (qmx o q)) ->
  link o' (qmx o q) wkm' m' ->
  (forall x, In x (LP.woken m' ++ LP.waiting m') ->
             (In x (LP.woken m ++ LP.waiting m) /\ wkm' x = wkm x) \/ wkm' x = length (sigs o)) ->
  qlinkf o' q wkm' wkn b cl m' nw nwo.
Proof.
  intros K F L Pend. destruct K. destruct F.
  assert (Gq : get_queue o' q = get_queue o q) by (unfold get_queue; now rewrite fp_queues0).
  assert (En : qnt o' q = qnt o q) by (unfold qnt; now rewrite Gq).
  assert (Em : qmx o' q = qmx o q) by (unfold qmx; now rewrite Gq).
  constructor; rewrite ?En, ?Em, ?Gq; auto.
  - rewrite fp_queues0. exact ql_lt0.
  - eapply nlinkf_frame; eauto; try lia.
    intros c Hc. apply fp_sched0. unfold wl_sids.
    rewrite (k_waiting _ _ _ _ _ _ _ ql_mutex0), map_map. cbn. intros Hw.
    apply in_map_iff in Hw as (x & Ex & Hx). eapply (ql_disj0 x c); eauto. apply in_or_app; auto.
  - rewrite fp_lnotif0. exact ql_sep0.
  - intros x c Hx Hc. destruct (Pend x Hx) as [[Hx2 E]|E]; rewrite E.
    + apply ql_disj0; auto.
    + pose proof (n_alloc _ _ _ _ _ ql_notif0 c Hc). lia.
Qed.

(** how the set of outstanding mutex requests evolves under the lock transitions *)
Lemma pend_release m x : In x (LP.woken (LP.release m) ++ LP.waiting (LP.release m)) ->
  In x (LP.woken m ++ LP.waiting m).
Proof. unfold LP.release. destruct (LP.waiting m); cbn; auto. rewrite <- app_assoc. auto. Qed.

Lemma pend_unsubscribe a m x : In x (LP.woken (LP.unsubscribe a m) ++ LP.waiting (LP.unsubscribe a m)) ->
  In x (LP.woken m ++ LP.waiting m).
Proof.
  unfold LP.unsubscribe. destruct (LP.mem a (LP.woken m)); cbn; rewrite !in_app_iff; intros [H|H]; auto.
  - left. eapply LPP.In_rem1; eauto.
  - right. eapply LPP.In_rem1; eauto.
Qed.

Lemma pend_step m t m' x : LP.step m t = Some m' -> (forall a, t <> LP.Request a) ->
  In x (LP.woken m' ++ LP.waiting m') -> In x (LP.woken m ++ LP.waiting m).
Proof.
  intros H Nr Hx. destruct t as [a|a|a|a]; [exfalso; eapply Nr; eauto| | |]; cbn in H.
  - destruct (LP.ph m a); try discriminate. destruct (LP.mem a (LP.woken m)); try discriminate.
    injection H as <-. cbn in Hx. eapply pend_unsubscribe; eauto.
  - destruct (LP.ph m a); try discriminate. injection H as <-. cbn in Hx.
    destruct (LP.is_owner _ a).
    + apply pend_release in Hx. eapply pend_unsubscribe; eauto.
    + eapply pend_unsubscribe; eauto.
  - destruct (LP.ph m a) as [| |[|n]]; try discriminate. injection H as <-.
    destruct (Nat.eqb _ 0).
    + apply pend_release in Hx. exact Hx.
    + exact Hx.
Qed.

Lemma pend_request o l a wk m m' x :
  l_owner (get_lock o l) = LP.owner m -> LP.step m (LP.Request a) = Some m' ->
  In x (LP.woken m' ++ LP.waiting m') ->
  (In x (LP.woken m ++ LP.waiting m) /\ wk_enter o l a wk x = wk x) \/
  wk_enter o l a wk x = length (sigs o).
Proof.
  intros O H Hx. unfold wk_enter. rewrite O.
  cbn in H. destruct (LP.ph m a); try discriminate; destruct (LP.owner m) as [ow|]; try discriminate.
  - destruct (Nat.eqb ow a) eqn:E; [discriminate|]. injection H as <-. cbn in Hx.
    rewrite Nat.eqb_sym, E.
    destruct (Nat.eq_dec x a) as [->|Nx]; [right; apply LPP.upd_same|].
    left. rewrite LPP.upd_other by auto. split; auto.
    rewrite app_assoc in Hx. apply in_app_or in Hx as [Hx|[<-|[]]]; [exact Hx|congruence].
  - injection H as <-. cbn in Hx. auto.
  - destruct (Nat.eqb ow a) eqn:E; [|discriminate]. injection H as <-. cbn in Hx.
    rewrite Nat.eqb_sym, E. auto.
Qed.

(** * 4. the queue's own operations *)

Lemma awake_next_fp o n : n < length (notifs o) ->
  let o' := app_ops o (fst (awake_next o n)) in
  queues o' = queues o /\ locks o' = locks o /\ sigs o' = sigs o /\
  length (notifs o') = length (notifs o) /\
  (forall n', n' <> n -> get_notif o' n' = get_notif o n') /\
  (forall w, ~ In w (map snd (Machine.waiting (get_notif o n))) -> is_scheduled o' w = is_scheduled o w).
Proof.
  intros Hn. unfold awake_next. destruct (Machine.waiting (get_notif o n)) as [|[a s] r]; cbn [fst].
  - unfold app_ops. cbn [fst snd kapply_all fold_left]. rewrite set_kern_same. repeat split; auto.
  - unfold app_ops. cbn [fst snd]. repeat split; auto.
    + cbn. apply length_list_upd.
    + intros n' Hn'. change (get_notif (set_kern ?x ?k) n') with (get_notif x n').
      apply get_notif_set_notif_ne. exact Hn'.
    + intros w Hw. cbn in Hw.
      change (is_scheduled (set_kern ?x (kapply_all (kern o) [KNow a (Some s)])) w)
        with (Nat.eqb w s || is_scheduled o w).
      rewrite (proj2 (Nat.eqb_neq w s)); auto.
Qed.

Lemma awake_all_fp o n : n < length (notifs o) ->
  let o' := app_ops o (awake_all o n) in
  queues o' = queues o /\ locks o' = locks o /\ sigs o' = sigs o /\
  length (notifs o') = length (notifs o) /\
  (forall n', n' <> n -> get_notif o' n' = get_notif o n') /\
  (forall w, ~ In w (map snd (Machine.waiting (get_notif o n))) -> is_scheduled o' w = is_scheduled o w).
Proof.
  intros Hn. unfold awake_all, app_ops. cbn [fst snd]. repeat split; auto.
  - cbn. apply length_list_upd.
  - intros n' Hn'. change (get_notif (set_kern ?x ?k) n') with (get_notif x n').
    apply get_notif_set_notif_ne. exact Hn'.
  - intros w Hw.
    match goal with |- is_scheduled ?o2 w = _ =>
      assert (S : is_scheduled o2 w
                  = existsb (Nat.eqb w) (map snd (Machine.waiting (get_notif o n))) || is_scheduled o w)
        by (unfold is_scheduled; cbn [set_kern]; apply scheduled_kapply_all_now) end.
    rewrite S.
    replace (existsb (Nat.eqb w) (map snd (Machine.waiting (get_notif o n)))) with false; auto.
    symmetry. apply not_true_is_false. intros E. apply existsb_exists in E as (s & Hs & Es).
    apply Nat.eqb_eq in Es. subst. contradiction.
Qed.

(** ** [Queue.put] (the primitive in front of the final postponement) *)
Definition sec_put (o : objs) (q : nat) (z : Z) : objs :=
  let x := get_queue o q in
  let o1 := set_queue o q (x <| q_buf := q_buf x ++ [z] |>) in
  app_ops o (fst (awake_next o1 (q_notif x))).

Theorem qsim_put o q wkm wkn s x :
  qlink o q wkm wkn s -> QP.closed s = false ->
  exists s', QP.qstep s (QP.Put x) = Some (s', QP.ONone) /\ qlink (sec_put o q (Z.of_nat x)) q wkm wkn s'.
Proof.
  intros K Hc. unfold qlink in *. pose proof K as K0. destruct K.
  unfold sec_put. cbv zeta. set (xq := get_queue o q).
  set (o1 := set_queue o q (xq <| q_buf := q_buf xq ++ [Z.of_nat x] |>)).
  change (app_ops o (fst (awake_next o1 (q_notif xq)))) with (app_ops o1 (fst (awake_next o1 (q_notif xq)))).
  assert (G1 : get_queue o1 q = xq <| q_buf := q_buf xq ++ [Z.of_nat x] |>)
    by (apply get_queue_set_queue; exact ql_lt0).
  assert (N1 : nlinkf o1 (q_notif xq) wkn (QP.nwait s) (QP.nwoken s))
    by (eapply nlinkf_frame; eauto).
  pose proof (nlinkf_awake_next _ _ _ _ _ N1) as N2.
  destruct (awake_next_fp o1 (q_notif xq) (n_lt _ _ _ _ _ N1)) as (F1 & F2 & F3 & F4 & F5 & F6).
  set (o' := app_ops o1 (fst (awake_next o1 (q_notif xq)))) in *.
  assert (G2 : get_queue o' q = xq <| q_buf := q_buf xq ++ [Z.of_nat x] |>)
    by (unfold get_queue in *; rewrite F1; exact G1).
  assert (Q : qlinkf o' q wkm wkn (QP.buf s ++ [x]) (QP.closed s) (QP.mutex s)
                     (tl (QP.nwait s)) (QP.nwoken s ++ hd_list (QP.nwait s))).
  { eapply (qlinkf_queue_op o o'); [exact K0 | ..].
    - rewrite F1. unfold o1, set_queue. cbn. rewrite length_list_upd. exact ql_lt0.
    - unfold qnt. rewrite G2. reflexivity.
    - unfold qmx. rewrite G2. reflexivity.
    - rewrite G2. cbn. fold xq in ql_buf0. rewrite ql_buf0, map_app. reflexivity.
    - rewrite G2. exact ql_closed0.
    - exact N2.
    - rewrite F2. reflexivity.
    - rewrite F4. apply Nat.le_refl.
    - rewrite F3. apply Nat.le_refl.
    - unfold get_lock. rewrite F2. reflexivity.
    - rewrite F5; auto; intros E; apply ql_sep0; symmetry; exact E.
    - intros w Hw. rewrite F6; auto.
      change (get_notif o1 (q_notif xq)) with (get_notif o (qnt o q)).
      rewrite (n_waiting _ _ _ _ _ ql_notif0), map_map. exact Hw.
    - intros c Hc'. left. split; auto. rewrite <- app_assoc in Hc'.
      apply in_app_or in Hc' as [H|H]; apply in_or_app; auto. right.
      destruct (QP.nwait s); cbn in H; auto. }
  cbn [QP.qstep]. rewrite Hc. destruct (QP.nwait s) as [|r w]; eexists; (split; [reflexivity|]);
    unfold qlink; cbn [QP.buf QP.closed QP.mutex QP.nwait QP.nwoken];
    cbn [tl hd_list] in Q; rewrite ?app_nil_r, ?Hc in Q; exact Q.
Qed.

(** on a closed queue [put] raises StreamClosed and touches nothing: [queue_put_runs] below *)

(** ** [Queue.close] *)
Definition sec_close (o : objs) (q : nat) : objs :=
  let x := get_queue o q in
  if q_closed x then o
  else app_ops o (awake_all (set_queue o q (x <| q_closed := true |>)) (q_notif x)).

Theorem qsim_close o q wkm wkn s :
  qlink o q wkm wkn s ->
  exists s', QP.qstep s QP.Close = Some (s', QP.ONone) /\ qlink (sec_close o q) q wkm wkn s'.
Proof.
  intros K. unfold qlink in *. pose proof K as K0. destruct K.
  unfold sec_close. cbv zeta. cbn [QP.qstep]. rewrite ql_closed0.
  destruct (QP.closed s) eqn:Hc.
  - eexists. split; [reflexivity|]. unfold qlink. rewrite Hc. exact K0.
  - set (xq := get_queue o q). set (o1 := set_queue o q (xq <| q_closed := true |>)).
    change (app_ops o (awake_all o1 (q_notif xq))) with (app_ops o1 (awake_all o1 (q_notif xq))).
    assert (G1 : get_queue o1 q = xq <| q_closed := true |>) by (apply get_queue_set_queue; exact ql_lt0).
    assert (N1 : nlinkf o1 (q_notif xq) wkn (QP.nwait s) (QP.nwoken s)) by (eapply nlinkf_frame; eauto).
    pose proof (nlinkf_awake_all _ _ _ _ _ N1) as N2.
    destruct (awake_all_fp o1 (q_notif xq) (n_lt _ _ _ _ _ N1)) as (F1 & F2 & F3 & F4 & F5 & F6).
    set (o' := app_ops o1 (awake_all o1 (q_notif xq))) in *.
    assert (G2 : get_queue o' q = xq <| q_closed := true |>) by (unfold get_queue in *; rewrite F1; exact G1).
    eexists. split; [reflexivity|]. cbn.
    eapply (qlinkf_queue_op o o'); [exact K0 | ..].
    + rewrite F1. unfold o1, set_queue. cbn. rewrite length_list_upd. exact ql_lt0.
    + unfold qnt. rewrite G2. reflexivity.
    + unfold qmx. rewrite G2. reflexivity.
    + rewrite G2. exact ql_buf0.
    + rewrite G2. reflexivity.
    + exact N2.
    + rewrite F2. reflexivity.
    + rewrite F4. apply Nat.le_refl.
    + rewrite F3. apply Nat.le_refl.
    + unfold get_lock. rewrite F2. reflexivity.
    + rewrite F5; auto; intros E; apply ql_sep0; symmetry; exact E.
    + intros w Hw. rewrite F6; auto.
      change (get_notif o1 (q_notif xq)) with (get_notif o (qnt o q)).
      rewrite (n_waiting _ _ _ _ _ ql_notif0), map_map. exact Hw.
    + intros c Hc'. left. split; auto. rewrite app_nil_r in Hc'. exact Hc'.
Qed.

(** ** [popleft] by the receiver that holds the mutex ([queue_pop]) *)
Definition sec_pop (o : objs) (q : nat) : objs :=
  let x := get_queue o q in
  match q_buf x with z :: r => set_queue o q (x <| q_buf := r |>) | [] => o end.

Theorem qsim_pop o q wkm wkn s r x s' :
  qlink o q wkm wkn s -> QP.pop r s = Some (x, s') ->
  qlink (sec_pop o q) q wkm wkn s' /\
  exists zs, q_buf (get_queue o q) = Z.of_nat x :: zs.   (* the machine returns [VZ (Z.of_nat x)] *)
Proof.
  intros K H. unfold qlink in *. destruct K. unfold QP.pop in H.
  destruct (QP.buf s) as [|y b] eqn:Eb; [discriminate|]. injection H as <- <-. cbn [map] in ql_buf0.
  split; [| eauto]. unfold sec_pop. cbv zeta. rewrite ql_buf0. cbn.
  set (o' := set_queue o q _).
  assert (G : get_queue o' q = (get_queue o q) <| q_buf := map Z.of_nat b |>)
    by (apply get_queue_set_queue; exact ql_lt0).
  constructor; unfold qnt, qmx; rewrite ?G; auto.
  - unfold o', set_queue. cbn. rewrite length_list_upd. exact ql_lt0.
  - eapply nlinkf_frame; [exact ql_notif0 | ..]; auto.
  - eapply link_frame; [exact ql_mutex0 | ..]; auto.
Qed.

(** ** the item subscription of [_await_message]: [await self._notification] up to its suspension *)
Definition sec_item_wait (o : objs) (q : nat) (a : aid) : objs := sec_subscribe o (qnt o q) a.

Theorem qsim_item_wait o q wkm wkn s a :
  qlink o q wkm wkn s -> ~ In a (QP.nwait s) -> ~ In a (QP.nwoken s) ->
  is_scheduled o (length (sigs o)) = false ->
  qlink (sec_item_wait o q a) q wkm (LP.upd wkn a (length (sigs o)))
        (QP.qmk (QP.buf s) (QP.closed s) (QP.mutex s) (QP.nwait s ++ [a]) (QP.nwoken s)
                (LP.upd (QP.rph s) a QP.RWaitItem) (QP.accepted s) (QP.delivered s) (QP.served s)).
Proof.
  intros K Nw No Fr. unfold qlink in *. pose proof K as K0. destruct K. cbn.
  pose proof (nlinkf_subscribe _ _ _ _ _ a ql_notif0 Nw No Fr) as N2.
  unfold sec_item_wait. set (o' := sec_subscribe o (qnt o q) a) in *.
  eapply (qlinkf_queue_op o o'); [exact K0 | ..].
  - exact ql_lt0.
  - reflexivity.
  - reflexivity.
  - exact ql_buf0.
  - exact ql_closed0.
  - exact N2.
  - reflexivity.
  - unfold o', sec_subscribe, plain_subscribe, set_notif. cbn. rewrite length_list_upd. auto.
  - unfold o', sec_subscribe, plain_subscribe, set_notif. cbn. rewrite app_length. lia.
  - reflexivity.
  - unfold o', sec_subscribe, plain_subscribe.
    rewrite get_notif_set_notif_ne; auto; intros E; apply ql_sep0; symmetry; exact E.
  - reflexivity.
  - intros c Hc. rewrite app_assoc in Hc. apply in_app_or in Hc as [Hc|[<-|[]]].
    + destruct (Nat.eq_dec c a) as [->|Nc]; [right; apply LPP.upd_same|].
      left. split; auto. apply LPP.upd_other. exact Nc.
    + right. apply LPP.upd_same.
Qed.

(** ** [__unsubscribe__] from the queue's notification *)
Definition sec_item_unsub (o : objs) (q : nat) (a : aid) (w : sid) : objs :=
  app_ops o (plain_unsubscribe o (qnt o q) a w).

Theorem qsim_item_unsub o q wkm wkn s a :
  qlink o q wkm wkn s -> In a (QP.nwoken s ++ QP.nwait s) ->
  qlink (sec_item_unsub o q a (wkn a)) q wkm wkn (QP.n_unsubscribe a s).
Proof.
  intros K Ha. unfold qlink in *. pose proof K as K0. destruct K.
  pose proof (nlinkf_unsubscribe _ _ _ _ _ a ql_notif0 Ha) as N2.
  unfold sec_item_unsub. set (o' := app_ops o (plain_unsubscribe o (qnt o q) a (wkn a))) in *.
  assert (F : queues o' = queues o /\ locks o' = locks o /\ sigs o' = sigs o /\
              length (notifs o') = length (notifs o) /\
              (forall n', n' <> qnt o q -> get_notif o' n' = get_notif o n') /\
              (forall w, is_scheduled o' w = is_scheduled o w)).
  { unfold o', plain_unsubscribe. destruct (is_scheduled o (wkn a)); unfold app_ops; cbn [fst snd].
    - repeat split; auto.
    - repeat split; auto.
      + cbn. apply length_list_upd.
      + intros n' Hn'. change (get_notif (set_kern ?x ?k) n') with (get_notif x n').
        apply get_notif_set_notif_ne. exact Hn'. }
  destruct F as (F1 & F2 & F3 & F4 & F5 & F6).
  assert (G : get_queue o' q = get_queue o q) by (unfold get_queue; now rewrite F1).
  unfold QP.n_unsubscribe.
  assert (Q : qlinkf o' q wkm wkn (QP.buf s) (QP.closed s) (QP.mutex s)
                (if LP.mem a (QP.nwoken s) then QP.nwait s else LP.rem1 a (QP.nwait s))
                (if LP.mem a (QP.nwoken s) then LP.rem1 a (QP.nwoken s) else QP.nwoken s)).
  { eapply (qlinkf_queue_op o o'); [exact K0 | ..].
    - rewrite F1. exact ql_lt0.
    - unfold qnt. now rewrite G.
    - unfold qmx. now rewrite G.
    - now rewrite G.
    - now rewrite G.
    - exact N2.
    - now rewrite F2.
    - rewrite F4. apply Nat.le_refl.
    - rewrite F3. apply Nat.le_refl.
    - unfold get_lock. now rewrite F2.
    - apply F5. intros E. apply ql_sep0. symmetry. exact E.
    - intros w _. apply F6.
    - intros c Hc. left. split; auto.
      destruct (LP.mem a (QP.nwoken s)); apply in_app_or in Hc as [Hc|Hc]; apply in_or_app; auto.
      + left. eapply LPP.In_rem1; eauto.
      + right. eapply LPP.In_rem1; eauto. }
  destruct (LP.mem a (QP.nwoken s)); exact Q.
Qed.

(** * 5. the sections of the read mutex, lifted to the queue: every LockLink simulation lemma carries the
      rest of [qlink] along ([QP.set_mutex]: the queue protocol drives its mutex only through [LP.step]) *)
Lemma qlink_lt o q wkm wkn s : qlink o q wkm wkn s ->
  qmx o q < length (locks o) /\ lnotif o (qmx o q) < length (notifs o).
Proof. intros K. destruct K. destruct ql_mutex0. auto. Qed.

Theorem qsim_mutex_request o q wkm wkn s a :
  qlink o q wkm wkn s -> LPP.inv (QP.mutex s) -> LP.ph (QP.mutex s) a <> LP.Waiting ->
  is_scheduled o (length (sigs o)) = false ->
  exists m', LP.step (QP.mutex s) (LP.Request a) = Some m' /\
             qlink (sec_enter o (qmx o q) a) q (wk_enter o (qmx o q) a wkm) wkn (QP.set_mutex s m').
Proof.
  intros K I P Fr. destruct (qlink_lt _ _ _ _ _ K) as [Hl Hn]. unfold qlink in *.
  destruct (sim_request _ _ _ _ a (ql_mutex _ _ _ _ _ _ _ _ _ K) I P Fr) as (m' & St & L).
  exists m'. split; [exact St|]. cbn.
  eapply qlinkf_mutex_op; [exact K | apply fp_sec_enter; auto | exact L |].
  intros x Hx. eapply pend_request; eauto. apply (ql_mutex _ _ _ _ _ _ _ _ _ K).
Qed.

Theorem qsim_mutex_wake o q wkm wkn s a :
  qlink o q wkm wkn s -> LPP.inv (QP.mutex s) -> LP.ph (QP.mutex s) a = LP.Waiting ->
  In a (LP.woken (QP.mutex s)) ->
  exists m', LP.step (QP.mutex s) (LP.DeliverWake a) = Some m' /\
             qlink (sec_wake o (qmx o q) a (wkm a)) q wkm wkn (QP.set_mutex s m').
Proof.
  intros K I P W. destruct (qlink_lt _ _ _ _ _ K) as [Hl Hn]. unfold qlink in *.
  destruct (sim_wake _ _ _ _ a (ql_mutex _ _ _ _ _ _ _ _ _ K) I P W) as (m' & St & L).
  exists m'. split; [exact St|]. cbn.
  eapply qlinkf_mutex_op; [exact K | apply fp_sec_wake; auto | exact L |].
  intros x Hx. left. split; auto. eapply pend_step; eauto. discriminate.
Qed.

Theorem qsim_mutex_foreign o q wkm wkn s a :
  qlink o q wkm wkn s -> LPP.inv (QP.mutex s) -> LP.ph (QP.mutex s) a = LP.Waiting ->
  exists m', LP.step (QP.mutex s) (LP.DeliverForeign a) = Some m' /\
             qlink (sec_foreign o (qmx o q) a (wkm a)) q wkm wkn (QP.set_mutex s m').
Proof.
  intros K I P. destruct (qlink_lt _ _ _ _ _ K) as [Hl Hn]. unfold qlink in *.
  destruct (sim_foreign _ _ _ _ a (ql_mutex _ _ _ _ _ _ _ _ _ K) I P) as (m' & St & L).
  exists m'. split; [exact St|]. cbn.
  eapply qlinkf_mutex_op; [exact K | apply fp_sec_foreign; auto | exact L |].
  intros x Hx. left. split; auto. eapply pend_step; eauto. discriminate.
Qed.

Theorem qsim_mutex_exit o q wkm wkn s a n :
  qlink o q wkm wkn s -> LPP.inv (QP.mutex s) -> LP.ph (QP.mutex s) a = LP.Inside (S n) ->
  exists m', LP.step (QP.mutex s) (LP.Exit a) = Some m' /\
             qlink (sec_exit o (qmx o q)) q wkm wkn (QP.set_mutex s m').
Proof.
  intros K I P. destruct (qlink_lt _ _ _ _ _ K) as [Hl Hn]. unfold qlink in *.
  destruct (sim_exit _ _ _ _ a n (ql_mutex _ _ _ _ _ _ _ _ _ K) I P) as (m' & St & L).
  exists m'. split; [exact St|]. cbn.
  eapply qlinkf_mutex_op; [exact K | apply fp_sec_exit; auto | exact L |].
  intros x Hx. left. split; auto. eapply pend_step; eauto. discriminate.
Qed.

(** kernel-only steps (the wake-up of a [postpone()], a revocation, anything that neither touches the
    queue, its notification, its mutex nor the [scheduled] flag of an open wake-up) keep the relation *)
Lemma qlink_frame o o' q wkm wkn s :
  qlink o q wkm wkn s ->
  queues o' = queues o -> locks o' = locks o -> notifs o' = notifs o ->
  length (sigs o) <= length (sigs o') ->
  (forall w, w < length (sigs o) -> is_scheduled o' w = is_scheduled o w) ->
  qlink o' q wkm wkn s.
Proof.
  intros K Eq El En Hs Sch. unfold qlink in *. destruct K.
  assert (Gq : get_queue o' q = get_queue o q) by (unfold get_queue; now rewrite Eq).
  assert (Gl : forall l, get_lock o' l = get_lock o l) by (intros; unfold get_lock; now rewrite El).
  assert (Gn : forall n, get_notif o' n = get_notif o n) by (intros; unfold get_notif; now rewrite En).
  constructor; unfold qnt, qmx, lnotif; rewrite ?Gq, ?Gl; auto.
  - rewrite Eq. exact ql_lt0.
  - eapply nlinkf_frame; eauto.
    + rewrite En. apply Nat.le_refl.
    + intros a Ha. apply Sch. apply (n_alloc _ _ _ _ _ ql_notif0). exact Ha.
  - eapply link_frame; eauto.
    + now rewrite El.
    + rewrite En. apply Nat.le_refl.
    + intros a Ha. apply Sch. apply (k_alloc _ _ _ _ _ _ _ ql_mutex0). exact Ha.
Qed.

(** [postpone()] up to its suspension: a fresh wake-up for the running activity, scheduled now *)
Definition sec_postpone (o : objs) (a : aid) : objs :=
  set_kern (o <| sigs := sigs o ++ [SKWake] |>) (kapply (kern o) (KNow a (Some (length (sigs o))))).
(** [Interrupt.revoke] *)
Definition sec_revoke (o : objs) (w : sid) : objs := set_kern o (kapply (kern o) (KRevoke w)).

Lemma qlink_postpone o q wkm wkn s a : qlink o q wkm wkn s -> qlink (sec_postpone o a) q wkm wkn s.
Proof.
  intros K. eapply qlink_frame; eauto.
  - unfold sec_postpone. cbn. rewrite app_length. lia.
  - intros w Hw. unfold sec_postpone, is_scheduled. cbn. rewrite (proj2 (Nat.eqb_neq w (length (sigs o)))) by lia.
    reflexivity.
Qed.
Lemma qlink_revoke o q wkm wkn s w : qlink o q wkm wkn s -> qlink (sec_revoke o w) q wkm wkn s.
Proof. intros K. eapply qlink_frame; eauto. Qed.

(** * 6. the transitions of QueueProto as compositions of the sections above *)

(** ** the code of [_await_message] after the mutex was acquired, up to the next suspension:
    item buffered -> [postpone()]; empty and closed -> StreamClosed leaves the [async with] ([__aexit__]);
    empty and open -> subscribe to the queue's notification *)
Definition sec_after_mutex (o : objs) (q : nat) (r : aid) : objs :=
  let x := get_queue o q in
  match q_buf x with
  | _ :: _ => sec_postpone o r
  | [] => if q_closed x then sec_exit o (qmx o q) else sec_item_wait o q r
  end.
Definition wkn_after_mutex (o : objs) (q : nat) (r : aid) (wkn : aid -> sid) : aid -> sid :=
  let x := get_queue o q in
  match q_buf x with
  | _ :: _ => wkn
  | [] => if q_closed x then wkn else LP.upd wkn r (length (sigs o))
  end.

Lemma qsim_after_mutex o q wkm wkn s r :
  qlink o q wkm wkn s -> QPP.holding r s -> is_scheduled o (length (sigs o)) = false ->
  exists s' out, QP.after_mutex r s = Some (s', out) /\
                 qlink (sec_after_mutex o q r) q wkm (wkn_after_mutex o q r wkn) s'.
Proof.
  intros K H Fr. unfold sec_after_mutex, wkn_after_mutex, QP.after_mutex. cbv zeta.
  pose proof K as K0. unfold qlink in K0. destruct K0.
  rewrite ql_buf0, ql_closed0. destruct (QP.buf s) as [|y b] eqn:Eb; cbn [map].
  - destruct (QP.closed s) eqn:Ec.
    + unfold QP.leave.
      destruct (qsim_mutex_exit _ _ _ _ _ r 0 K (QPP.hL _ _ H) (QPP.hI _ _ H)) as (m' & St & K').
      rewrite St. do 2 eexists. split; [reflexivity|]. exact K'.
    + destruct (QPP.hN _ _ H) as [W1 W2].
      do 2 eexists. split; [reflexivity|].
      pose proof (qsim_item_wait _ _ _ _ _ r K) as Q. rewrite W1, W2, Eb, Ec in Q.
      rewrite W1, W2. apply Q; auto.
  - do 2 eexists. split; [reflexivity|]. apply qlink_postpone. exact K.
Qed.

(** ** Get: [_await_message] up to its first suspension *)
Definition sec_get (o : objs) (q : nat) (r : aid) : objs :=
  let o1 := sec_enter o (qmx o q) r in
  match l_owner (get_lock o (qmx o q)) with
  | None => sec_after_mutex o1 q r
  | Some _ => o1
  end.

Theorem qsim_get o q wkm wkn s r :
  qlink o q wkm wkn s -> QPP.qinv s -> QP.rph s r = QP.RIdle ->
  is_scheduled o (length (sigs o)) = false ->
  exists s' out wkm' wkn', QP.qstep s (QP.Get r) = Some (s', out) /\ qlink (sec_get o q r) q wkm' wkn' s'.
Proof.
  intros K I Pr Fr. pose proof (QPP.qL _ I) as IL. pose proof (QPP.qC _ I r) as C.
  unfold QPP.coupled in C. rewrite Pr in C.
  assert (Pw : LP.ph (QP.mutex s) r <> LP.Waiting) by congruence.
  destruct (qsim_mutex_request _ _ _ _ _ r K IL Pw Fr) as (m' & St & K1).
  cbn [QP.qstep]. rewrite Pr, St. unfold sec_get. cbv zeta.
  assert (Eo : l_owner (get_lock o (qmx o q)) = LP.owner (QP.mutex s)).
  { unfold qlink in K. apply (k_owner _ _ _ _ _ _ _ (ql_mutex _ _ _ _ _ _ _ _ _ K)). }
  pose proof (LPP.iC _ IL) as CO. unfold LPP.inv_owner in CO.
  pose proof St as St0. cbn [LP.step] in St. rewrite C in St. rewrite Eo.
  destruct (LP.owner (QP.mutex s)) as [b|] eqn:O.
  - destruct (Nat.eqb b r) eqn:E; [discriminate|]. injection St as <-.
    unfold QP.is_inside. cbn. rewrite LPP.upd_same.
    do 4 eexists. split; [reflexivity|]. exact K1.
  - injection St as Em.
    assert (Pi : LP.ph m' r = LP.Inside 1) by (rewrite <- Em; cbn; apply LPP.upd_same).
    unfold QP.is_inside. rewrite Pi.
    assert (H : QPP.holding r (QP.set_mutex s m')).
    { apply QPP.holding_new_mutex; auto.
      - eapply LPP.inv_step; eauto.
      - intros b Nb. apply (QPP.step_frame _ _ _ St0). exact Nb.
      - eapply QPP.grants_mono; eauto.
      - destruct CO as (_ & _ & _ & CO). exact CO.
      - congruence. }
    assert (Fr1 : is_scheduled (sec_enter o (qmx o q) r) (length (sigs (sec_enter o (qmx o q) r))) = false).
    { unfold sec_enter. rewrite Eo. exact Fr. }
    destruct (qsim_after_mutex _ _ _ _ _ r K1 H Fr1) as (s' & out & A & K2).
    exists s', out. do 2 eexists. split; [exact A | exact K2].
Qed.

(** ** MutexWake: the mutex wake-up is delivered, continue to the next suspension *)
Definition sec_mutex_wake (o : objs) (q : nat) (r : aid) (w : sid) : objs :=
  sec_after_mutex (sec_wake o (qmx o q) r w) q r.

Lemma sec_wake_kernel o l a w :
  sigs (sec_wake o l a w) = sigs o /\ forall w', is_scheduled (sec_wake o l a w) w' = is_scheduled o w'.
Proof.
  unfold sec_wake, plain_unsubscribe. destruct (is_scheduled o w); split; reflexivity.
Qed.

Theorem qsim_mutex_wake_get o q wkm wkn s r :
  qlink o q wkm wkn s -> QPP.qinv s -> QP.rph s r = QP.RWaitMutex -> In r (LP.woken (QP.mutex s)) ->
  is_scheduled o (length (sigs o)) = false ->
  exists s' out wkn', QP.qstep s (QP.MutexWake r) = Some (s', out) /\
                      qlink (sec_mutex_wake o q r (wkm r)) q wkm wkn' s'.
Proof.
  intros K I Pr W Fr. pose proof (QPP.qL _ I) as IL. pose proof (QPP.qC _ I r) as C.
  unfold QPP.coupled in C. rewrite Pr in C.
  destruct (qsim_mutex_wake _ _ _ _ _ r K IL C W) as (m' & St & K1).
  cbn [QP.qstep]. rewrite Pr, St. unfold sec_mutex_wake.
  destruct (QPP.wake_effect _ _ _ St) as (_ & _ & Pi & _).
  assert (H : QPP.holding r (QP.set_mutex s m')).
  { apply QPP.holding_new_mutex; auto.
    - eapply LPP.inv_step; eauto.
    - intros b Nb. apply (QPP.step_frame _ _ _ St). exact Nb.
    - eapply QPP.grants_mono; eauto.
    - eapply QPP.nobody_inside_when_designated; eauto.
    - congruence. }
  destruct (sec_wake_kernel o (qmx o q) r (wkm r)) as [Es Ek].
  assert (Fr1 : is_scheduled (sec_wake o (qmx o q) r (wkm r))
                             (length (sigs (sec_wake o (qmx o q) r (wkm r)))) = false)
    by (rewrite Es, Ek; exact Fr).
  destruct (qsim_after_mutex _ _ _ _ _ r K1 H Fr1) as (s' & out & A & K2).
  exists s', out. eexists. split; [exact A | exact K2].
Qed.

(** ** PostponeDone: the postponement ended by its own wake-up [wp]: revoke, popleft, leave the mutex *)
Definition sec_postpone_done (o : objs) (q : nat) (wp : sid) : objs :=
  sec_exit (sec_pop (sec_revoke o wp) q) (qmx o q).

Lemma qmx_frame o o' q : queues o' = queues o -> qmx o' q = qmx o q.
Proof. intros E. unfold qmx, get_queue. now rewrite E. Qed.

Lemma qmx_sec_pop o q : q < length (queues o) -> qmx (sec_pop o q) q = qmx o q.
Proof.
  intros H. unfold sec_pop. cbv zeta. destruct (q_buf (get_queue o q)); auto.
  unfold qmx. rewrite get_queue_set_queue; auto.
Qed.

Theorem qsim_postpone_done o q wkm wkn s r wp :
  qlink o q wkm wkn s -> QPP.qinv s -> QP.rph s r = QP.RPostpone ->
  exists x s', QP.qstep s (QP.PostponeDone r) = Some (s', QP.OGot x) /\
               qlink (sec_postpone_done o q wp) q wkm wkn s' /\
               exists zs, q_buf (get_queue o q) = Z.of_nat x :: zs.
Proof.
  intros K I Pr. pose proof (QPP.qL _ I) as IL. pose proof (QPP.qC _ I r) as C.
  unfold QPP.coupled in C. rewrite Pr in C. pose proof (QPP.qP _ I r Pr) as Nb.
  cbn [QP.qstep]. rewrite Pr. unfold QP.pop.
  destruct (QP.buf s) as [|x b] eqn:Eb; [congruence|].
  set (s1 := QP.qmk b _ _ _ _ _ _ _ _).
  assert (P1 : QP.pop r s = Some (x, s1)) by (unfold QP.pop; rewrite Eb; reflexivity).
  pose proof (qlink_revoke _ _ _ _ _ wp K) as K1.
  destruct (qsim_pop _ _ _ _ _ r x s1 K1 P1) as [K2 [zs Ez]].
  destruct (qsim_mutex_exit _ _ _ _ _ r 0 K2 IL C) as (m' & St & K3).
  unfold QP.leave. rewrite St.
  exists x. eexists. split; [reflexivity|]. split.
  - unfold sec_postpone_done.
    rewrite qmx_sec_pop in K3 by (apply K1). exact K3.
  - exists zs. exact Ez.
Qed.

(** ** ItemWake: the item wake-up is delivered: unsubscribe, popleft (or StreamClosed), leave the mutex *)
Definition sec_item_wake (o : objs) (q : nat) (r : aid) (w : sid) : objs :=
  sec_exit (sec_pop (sec_item_unsub o q r w) q) (qmx o q).

Lemma qmx_item_unsub o q r w : qmx (sec_item_unsub o q r w) q = qmx o q.
Proof.
  apply qmx_frame. unfold sec_item_unsub, plain_unsubscribe. destruct (is_scheduled o w); reflexivity.
Qed.

Lemma sec_pop_empty o q : q_buf (get_queue o q) = [] -> sec_pop o q = o.
Proof. intros H. unfold sec_pop. cbv zeta. now rewrite H. Qed.

Theorem qsim_item_wake o q wkm wkn s r :
  qlink o q wkm wkn s -> QPP.qinv s -> QP.rph s r = QP.RWaitItem -> In r (QP.nwoken s) ->
  exists s' out, QP.qstep s (QP.ItemWake r) = Some (s', out) /\
                 qlink (sec_item_wake o q r (wkn r)) q wkm wkn s'.
Proof.
  intros K I Pr W. pose proof (QPP.qL _ I) as IL. pose proof (QPP.qC _ I r) as C.
  unfold QPP.coupled in C. rewrite Pr in C.
  cbn [QP.qstep]. rewrite Pr, (proj2 (LPP.mem_In _ _) W).
  assert (Ha : In r (QP.nwoken s ++ QP.nwait s)) by (apply in_or_app; auto).
  pose proof (qsim_item_unsub _ _ _ _ _ r K Ha) as K1.
  set (s1 := QP.n_unsubscribe r s) in *.
  assert (M1 : QP.mutex s1 = QP.mutex s).
  { unfold s1, QP.n_unsubscribe. destruct (LP.mem r (QP.nwoken s)); reflexivity. }
  unfold sec_item_wake. rewrite <- (qmx_item_unsub o q r (wkn r)).
  set (o1 := sec_item_unsub o q r (wkn r)) in *.
  destruct (QP.pop r s1) as [[x s2]|] eqn:P1.
  - destruct (qsim_pop _ _ _ _ _ r x s2 K1 P1) as [K2 _].
    assert (M2 : QP.mutex s2 = QP.mutex s).
    { unfold QP.pop in P1. destruct (QP.buf s1); [discriminate|]. injection P1 as _ <-. exact M1. }
    rewrite <- M2 in IL, C.
    destruct (qsim_mutex_exit _ _ _ _ _ r 0 K2 IL C) as (m' & St & K3).
    unfold QP.leave. rewrite St. do 2 eexists. split; [reflexivity|].
    rewrite qmx_sec_pop in K3 by (apply K1). exact K3.
  - assert (Eb : q_buf (get_queue o1 q) = []).
    { unfold qlink in K1. rewrite (ql_buf _ _ _ _ _ _ _ _ _ K1). unfold QP.pop in P1.
      destruct (QP.buf s1); [reflexivity|discriminate]. }
    rewrite (sec_pop_empty _ _ Eb).
    rewrite <- M1 in IL, C.
    destruct (qsim_mutex_exit _ _ _ _ _ r 0 K1 IL C) as (m' & St & K3).
    unfold QP.leave. rewrite St. destruct (QP.closed s1); do 2 eexists; (split; [reflexivity|]); exact K3.
Qed.

(** ** Foreign: a signal hits the receiver at one of its three suspension points *)
Definition sec_qforeign (o : objs) (q : nat) (r : aid) (ph : QP.rphase) (w : sid) : objs :=
  match ph with
  | QP.RIdle => o
  | QP.RWaitMutex => sec_foreign o (qmx o q) r w             (* w: its mutex wake-up *)
  | QP.RPostpone => sec_exit (sec_revoke o w) (qmx o q)      (* w: the wake-up of the postponement *)
  | QP.RWaitItem => sec_exit (sec_item_unsub o q r w) (qmx o q)  (* w: its item wake-up *)
  end.

Theorem qsim_foreign o q wkm wkn s r wp :
  qlink o q wkm wkn s -> QPP.qinv s -> QP.rph s r <> QP.RIdle ->
  let w := match QP.rph s r with QP.RWaitMutex => wkm r | QP.RWaitItem => wkn r | _ => wp end in
  exists s', QP.qstep s (QP.Foreign r) = Some (s', QP.ORaised) /\
             qlink (sec_qforeign o q r (QP.rph s r) w) q wkm wkn s'.
Proof.
  intros K I Pr w. pose proof (QPP.qL _ I) as IL. pose proof (QPP.qC _ I r) as C.
  unfold QPP.coupled in C. cbn [QP.qstep]. subst w.
  destruct (QP.rph s r) eqn:E; [congruence| | |]; cbn [sec_qforeign].
  - destruct (qsim_mutex_foreign _ _ _ _ _ r K IL C) as (m' & St & K1). rewrite St.
    eexists. split; [reflexivity|]. exact K1.
  - pose proof (qlink_revoke _ _ _ _ _ wp K) as K1.
    destruct (qsim_mutex_exit _ _ _ _ _ r 0 K1 IL C) as (m' & St & K2).
    unfold QP.leave. rewrite St. eexists. split; [reflexivity|]. exact K2.
  - assert (Ha : In r (QP.nwoken s ++ QP.nwait s)).
    { destruct (QPP.qN1 _ I _ E) as [(W1 & _)|(_ & W2 & _)]; [rewrite W1|rewrite W2];
        apply in_or_app; cbn; auto. }
    pose proof (qsim_item_unsub _ _ _ _ _ r K Ha) as K1.
    assert (M1 : QP.mutex (QP.n_unsubscribe r s) = QP.mutex s).
    { unfold QP.n_unsubscribe. destruct (LP.mem r (QP.nwoken s)); reflexivity. }
    rewrite <- M1 in IL, C.
    destruct (qsim_mutex_exit _ _ _ _ _ r 0 K1 IL C) as (m' & St & K2).
    unfold QP.leave. rewrite St. eexists. split; [reflexivity|].
    rewrite qmx_item_unsub in K2. exact K2.
Qed.

(** * 7. [Put] and [Close] are single primitives: what [exec] does with [queue_put] / [queue_close] *)
Theorem queue_put_runs k cur m q z c outer :
  exec (4 + k) cur m (MRun (queue_put q z)) c outer
  = if q_closed (get_queue (ob m) q)
    then exec (1 + k) cur m (MThrow (EStreamClosed q)) c outer
    else exec k cur (with_ob m (sec_put (ob m) q z)
                       (snd (fst (awake_next (set_queue (ob m) q ((get_queue (ob m) q)
                              <| q_buf := q_buf (get_queue (ob m) q) ++ [z] |>))
                              (q_notif (get_queue (ob m) q))))))
              (MRun postpone) c outer.
Proof.
  destruct c as [b st]. cbn [Nat.add]. unfold queue_put, Do. mstep.
  destruct (q_closed (get_queue (ob m) q)) eqn:Ec.
  - erewrite exec_step; [| apply step1_prim_err; rewrite Ec; reflexivity ].
    rewrite with_ob_same. mstep. reflexivity.
  - erewrite exec_step.
    2:{ apply (step1_prim cur m _ _
                 (fst (fst (awake_next (set_queue (ob m) q ((get_queue (ob m) q)
                        <| q_buf := q_buf (get_queue (ob m) q) ++ [z] |>)) (q_notif (get_queue (ob m) q)))))
                 (snd (fst (awake_next (set_queue (ob m) q ((get_queue (ob m) q)
                        <| q_buf := q_buf (get_queue (ob m) q) ++ [z] |>)) (q_notif (get_queue (ob m) q)))))
                 VU).
        rewrite Ec. cbv zeta.
        destruct (awake_next _ _) as [[o2 ks] ?]. reflexivity. }
    mstep. mstep. reflexivity.
Qed.

Theorem queue_close_runs k cur m q c outer :
  exec (4 + k) cur m (MRun (queue_close q)) c outer
  = exec k cur (with_ob m (sec_close (ob m) q)
                  (if q_closed (get_queue (ob m) q) then []
                   else snd (awake_all (set_queue (ob m) q ((get_queue (ob m) q) <| q_closed := true |>))
                                       (q_notif (get_queue (ob m) q)))))
         (MRun postpone) c outer.
Proof.
  destruct c as [b st]. cbn [Nat.add]. unfold queue_close, Do. mstep.
  erewrite exec_step.
  2:{ apply (step1_prim cur m _ _
               (if q_closed (get_queue (ob m) q) then ob m
                else fst (awake_all (set_queue (ob m) q ((get_queue (ob m) q) <| q_closed := true |>))
                                    (q_notif (get_queue (ob m) q))))
               (if q_closed (get_queue (ob m) q) then []
                else snd (awake_all (set_queue (ob m) q ((get_queue (ob m) q) <| q_closed := true |>))
                                    (q_notif (get_queue (ob m) q))))
               VU).
      cbv zeta. destruct (q_closed (get_queue (ob m) q)); [reflexivity|].
      reflexivity. }
  mstep. mstep. f_equal. unfold sec_close. cbv zeta. f_equal.
  destruct (q_closed (get_queue (ob m) q)).
  - unfold app_ops. cbn [fst snd kapply_all fold_left]. apply set_kern_same.
  - reflexivity.
Qed.

(** * 8. transfer *)

(** a queue as the machine creates it ([alloc_queue]) is related to the protocol's initial state *)
Lemma qlink_alloc_queue o wkm wkn : qlink (alloc_queue o) (length (queues o)) wkm wkn QP.qinit.
Proof.
  unfold qlink. cbn [QP.buf QP.closed QP.mutex QP.nwait QP.nwoken QP.qinit].
  set (o1 := fst (alloc_notif o NPlain)).
  assert (A : alloc_queue o
              = (alloc_lock o1) <| queues := queues o ++ [{| q_buf := []; q_notif := length (notifs o);
                                                             q_mutex := length (locks o); q_closed := false |}] |>)
    by reflexivity.
  assert (G : get_queue (alloc_queue o) (length (queues o))
              = {| q_buf := []; q_notif := length (notifs o); q_mutex := length (locks o); q_closed := false |}).
  { unfold get_queue. rewrite A. cbn. rewrite app_nth2 by lia. rewrite Nat.sub_diag. reflexivity. }
  pose proof (link_alloc_lock o1 wkm) as L.
  assert (Ln : lnotif (alloc_queue o) (length (locks o)) = S (length (notifs o))).
  { unfold lnotif, get_lock. rewrite A. cbn. rewrite app_nth2 by lia. rewrite Nat.sub_diag. cbn.
    rewrite app_length. cbn. lia. }
  constructor; unfold qnt, qmx; rewrite ?G; cbn [q_buf q_notif q_mutex q_closed].
  - rewrite A. cbn. rewrite app_length. cbn. lia.
  - reflexivity.
  - reflexivity.
  - constructor; cbn; try (intros ? []); try constructor.
    + rewrite !app_length. cbn. lia.
    + unfold get_notif. cbn. rewrite <- app_assoc. rewrite app_nth2 by lia.
      rewrite Nat.sub_diag. reflexivity.
    + unfold get_notif. cbn. rewrite <- app_assoc. rewrite app_nth2 by lia.
      rewrite Nat.sub_diag. reflexivity.
  - eapply link_frame; [exact L | ..]; auto.
  - rewrite Ln. lia.
  - intros x c [].
Qed.

(** the object states a queue goes through: created, then changed by the sections above under the
    discipline of the protocol (the step is the one the simulation theorems produce), or by other code
    within the frame condition *)
Inductive qlinked (q : nat) : objs -> QP.qst -> Prop :=
| qk_init o wkm wkn : qlink o q wkm wkn QP.qinit -> qlinked q o QP.qinit
| qk_step o s t s' out o' :
    qlinked q o s -> QP.qstep s t = Some (s', out) ->
    (forall wkm wkn, qlink o q wkm wkn s -> exists wkm' wkn', qlink o' q wkm' wkn' s') ->
    qlinked q o' s'.

Theorem qlinked_sound q o s : qlinked q o s -> (exists wkm wkn, qlink o q wkm wkn s) /\ QP.qreachable s.
Proof.
  induction 1 as [o wkm wkn K | o s t s' out o' _ [(wkm & wkn & K) R] St Sim].
  - split; [eauto | constructor].
  - split; [eapply Sim; eauto | econstructor; eauto].
Qed.

Section QTransfer.
  Variables (o : objs) (q : nat) (wkm wkn : aid -> sid) (s : QP.qst).
  Hypothesis K : qlink o q wkm wkn s.
  Hypothesis R : QP.qreachable s.

  (** exactly-once, in order: the machine's buffer is exactly what was accepted and not yet delivered *)
  Theorem machine_exactly_once :
    map Z.of_nat (QP.accepted s) = map Z.of_nat (map snd (QP.delivered s)) ++ q_buf (get_queue o q).
  Proof.
    unfold qlink in K. rewrite (ql_buf _ _ _ _ _ _ _ _ _ K), <- map_app. f_equal.
    apply QPP.exactly_once. exact R.
  Qed.

  (** the read mutex of the machine's queue satisfies all of C09 (it is driven only through LP.step) *)
  Theorem machine_queue_mutex a n :
    LP.ph (QP.mutex s) a = LP.Inside n ->
    l_owner (get_lock o (qmx o q)) = Some a /\ (QP.rph s a = QP.RPostpone \/ QP.rph s a = QP.RWaitItem).
  Proof.
    intros P. pose proof (QPP.qreachable_inv _ R) as I. pose proof (QPP.qL _ I) as IL.
    destruct (LPP.inside_owner _ IL _ _ P) as (O & _). unfold qlink in K.
    rewrite (k_owner _ _ _ _ _ _ _ (ql_mutex _ _ _ _ _ _ _ _ _ K)). split; auto.
    pose proof (QPP.qC _ I a) as C. unfold QPP.coupled in C.
    destruct (QP.rph s a); auto; congruence.
  Qed.

  (** no lost wake-up: a receiver parked for an item while the machine's buffer is not empty or the queue
      is closed has its wake-up scheduled in the kernel *)
  Theorem machine_no_lost_wakeup r :
    QP.rph s r = QP.RWaitItem -> (q_buf (get_queue o q) <> [] \/ q_closed (get_queue o q) = true) ->
    is_scheduled o (wkn r) = true.
  Proof.
    intros P B. unfold qlink in K.
    assert (B' : QP.buf s <> [] \/ QP.closed s = true).
    { destruct B as [B|B]; [left|right].
      - intros E. apply B. rewrite (ql_buf _ _ _ _ _ _ _ _ _ K), E. reflexivity.
      - rewrite <- (ql_closed _ _ _ _ _ _ _ _ _ K). exact B. }
    destruct (QPP.no_lost_wakeup s r R P B') as [W _].
    apply (n_woken _ _ _ _ _ (ql_notif _ _ _ _ _ _ _ _ _ K)). exact W.
  Qed.

  (** a postponed receiver finds its item in the machine's buffer *)
  Theorem machine_postponed_gets_item r :
    QP.rph s r = QP.RPostpone -> exists z zs, q_buf (get_queue o q) = z :: zs.
  Proof.
    intros P. destruct (QPP.postponed_gets_item s r R P) as (x & s' & _ & B).
    unfold qlink in K. rewrite (ql_buf _ _ _ _ _ _ _ _ _ K), B. cbn. eauto.
  Qed.
End QTransfer.

Print Assumptions qsim_put.
Print Assumptions qsim_close.
Print Assumptions qsim_pop.
Print Assumptions qsim_item_wait.
Print Assumptions qsim_item_unsub.
Print Assumptions qsim_mutex_request.
Print Assumptions qsim_mutex_wake.
Print Assumptions qsim_mutex_foreign.
Print Assumptions qsim_mutex_exit.
Print Assumptions qsim_get.
Print Assumptions qsim_mutex_wake_get.
Print Assumptions qsim_postpone_done.
Print Assumptions qsim_item_wake.
Print Assumptions qsim_foreign.
Print Assumptions queue_put_runs.
Print Assumptions queue_close_runs.
Print Assumptions qlink_alloc_queue.
Print Assumptions qlinked_sound.
Print Assumptions machine_exactly_once.
Print Assumptions machine_queue_mutex.
Print Assumptions machine_no_lost_wakeup.
Print Assumptions machine_postponed_gets_item.
