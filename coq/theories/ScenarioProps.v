(** Machine-level statements about scenario programs. *)
From Coq Require Import ZArith List Bool Lia Sorted.
From RecordUpdate Require Import RecordSet.
From Usim Require Import XTime Tables Kernel KernelProps Machine MachineProps Lib Scenario.
Import ListNotations.
Import RecordSetNotations.

Lemma iter_kern (f : objs -> objs) (n : nat) :
  (forall o, kern (f o) = kern o) -> forall o, kern (iter n f o) = kern o.
Proof. intros Hf. induction n as [|n IH]; cbn; intros o; auto. rewrite IH. apply Hf. Qed.

Lemma alloc_flag_kern o : kern (fst (alloc_flag o)) = kern o.
Proof. reflexivity. Qed.
Lemma alloc_lock_kern o : kern (alloc_lock o) = kern o.
Proof. reflexivity. Qed.
Lemma alloc_queue_kern o : kern (alloc_queue o) = kern o.
Proof. reflexivity. Qed.
Lemma alloc_chan_kern o : kern (alloc_chan o) = kern o.
Proof. reflexivity. Qed.

Lemma alloc_static_res_kern rs : forall i o, kern (alloc_static_res rs i o) = kern o.
Proof.
  induction rs as [|[cap c] r IH]; cbn; intros i o; [reflexivity|].
  destruct cap; rewrite IH; reflexivity.
Qed.

Lemma init_objs_kern s n : kern (init_objs s n) = loop_init n (sc_start s).
Proof.
  unfold init_objs. rewrite alloc_static_res_kern.
  rewrite (iter_kern alloc_chan _ alloc_chan_kern).
  rewrite (iter_kern alloc_queue _ alloc_queue_kern).
  rewrite (iter_kern alloc_lock _ alloc_lock_kern).
  cbn. rewrite (iter_kern (fun o => fst (alloc_flag o)) _ alloc_flag_kern). reflexivity.
Qed.

(** every scenario starts in a state satisfying the kernel invariant *)
Lemma init_state_inv s : inv (kern_of (init_state s)).
Proof.
  unfold init_state, kern_of. destruct (sc_till s); cbn; rewrite init_objs_kern; apply loop_init_inv.
Qed.

(** C01/C02 for every scenario program, every step count: the activations execute in strictly increasing
    (due time, schedule order); each at exactly its due time; the clock never decreases *)
Theorem scenario_exec_sorted s fuel n : StronglySorted ev_lt (mtrace n fuel (init_state s)).
Proof. apply machine_exec_sorted. apply init_state_inv. Qed.

Theorem scenario_exec_at_due s fuel n :
  Forall (fun e => e_time e = a_due (e_act e) /\ xle (sc_start s) (e_time e)) (mtrace n fuel (init_state s)).
Proof.
  assert (H := machine_exec_at_due fuel n (init_state s) (init_state_inv s)).
  eapply Forall_impl; [|exact H]. cbn. intros e [H1 H2]. split; auto.
  replace (sc_start s) with (now (kern_of (init_state s))); auto.
  unfold init_state, kern_of. destruct (sc_till s); cbn; rewrite init_objs_kern; reflexivity.
Qed.

Theorem scenario_time_monotone s fuel n :
  StronglySorted (fun x y => xle (e_time x) (e_time y)) (mtrace n fuel (init_state s)).
Proof. apply machine_time_monotone. apply init_state_inv. Qed.
