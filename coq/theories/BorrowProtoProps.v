(* Proofs about BorrowProto: for ALL operation sequences of the nondeterministic environment:
   any number of blocks, amounts, nesting depths, interleavings, signals/closes at any
   suspension point (also repeated), concurrent increase/decrease/set. *)
Require Import ZArith List Bool Lia.
Import ListNotations.
From Usim Require Import Levels BorrowProto.
Open Scope Z_scope.

(* ---------------- lists *)
Lemma updn_length : forall (A : Type) i (f : A -> A) l, length (updn i f l) = length l.
Proof. intros A i f l. revert i. induction l; destruct i; simpl; auto. Qed.

Lemma nth_error_updn : forall (A : Type) i j (f : A -> A) l,
  nth_error (updn i f l) j =
  if (j =? i)%nat then option_map f (nth_error l j) else nth_error l j.
Proof.
  intros A i j f l. revert i j. induction l; intros; simpl.
  - destruct j, i; simpl; try reflexivity; destruct (j =? i)%nat; reflexivity.
  - destruct i, j; simpl; auto.
Qed.

Lemma nth_updn : forall (A : Type) i j (f : A -> A) l d, (i < length l)%nat ->
  nth j (updn i f l) d = if (j =? i)%nat then f (nth j l d) else nth j l d.
Proof.
  intros A i j f l d. revert i j. induction l; intros; simpl in *; [lia|].
  destruct i, j; simpl; auto. apply IHl. lia.
Qed.

Lemma nth_error_snoc : forall (A : Type) (l : list A) x j,
  nth_error (l ++ [x]) j =
  if (j <? length l)%nat then nth_error l j else if (j =? length l)%nat then Some x else None.
Proof.
  induction l; intros; simpl.
  - destruct j; simpl; auto. destruct j; auto.
  - destruct j; simpl; auto. rewrite IHl.
    change (S j <? S (length l))%nat with (j <? length l)%nat. reflexivity.
Qed.

Lemma nth_snoc_old : forall (A : Type) (l : list A) x j d, (j < length l)%nat ->
  nth j (l ++ [x]) d = nth j l d.
Proof. intros. apply app_nth1. auto. Qed.

(* ---------------- sums *)
Lemma osum_app : forall q k a b, osum q k (a ++ b) = osum q k a + osum q k b.
Proof. induction a; simpl; intros; auto. rewrite IHa. lia. Qed.

Lemma gsum_app : forall q k a b, gsum q k (a ++ b) = gsum q k a + gsum q k b.
Proof. induction a; simpl; intros; auto. rewrite IHa. lia. Qed.

Lemma osum_updn : forall q k i f bl b, nth_error bl i = Some b ->
  osum q k (updn i f bl) = osum q k bl - outb q k b + outb q k (f b).
Proof.
  intros q k i f bl. revert i. induction bl; intros; destruct i; simpl in *; try discriminate.
  - inversion H; subst. lia.
  - rewrite (IHbl _ _ H). lia.
Qed.

Lemma bpar_mark : forall n q v b, bpar (mark n q v b) = bpar b.
Proof. intros. unfold mark. destruct (_ && _); auto. Qed.
Lemma bdeb_mark : forall n q v b, bdeb (mark n q v b) = bdeb b.
Proof. intros. unfold mark. destruct (_ && _); auto. Qed.
Lemma bclaim_mark : forall n q v b, bclaim (mark n q v b) = bclaim b.
Proof. intros. unfold mark. destruct (_ && _); auto. Qed.
Lemma bph_mark : forall n q v b, bph (mark n q v b) = bph b.
Proof. intros. unfold mark. destruct (_ && _); auto. Qed.

Lemma outb_mark : forall q k n q' v b, outb q k (mark n q' v b) = outb q k b.
Proof. intros. unfold outb. rewrite bpar_mark, bph_mark, bdeb_mark. reflexivity. Qed.

Lemma osum_map_mark : forall q k n q' v bl, osum q k (map (mark n q' v) bl) = osum q k bl.
Proof. induction bl; simpl; auto. rewrite outb_mark, IHbl. reflexivity. Qed.

(* ---------------- observables of the primitives *)
Definition blk (s : state) (i : nat) : option block := nth_error (blocks s) i.

Lemma blk_setph : forall s i p j,
  blk (setph i p s) j = if (j =? i)%nat then option_map (set_ph p) (blk s j) else blk s j.
Proof. intros. unfold blk, setph. simpl. apply nth_error_updn. Qed.

Lemma blk_setpool : forall s q v j,
  blk (setpool q v s) j = option_map (mark (nkeys s) q v) (blk s j).
Proof. intros. unfold blk, setpool. simpl. apply nth_error_map. Qed.

Lemma blk_chins : forall s q d j, blk (chins q d s) j = blk s j.
Proof. reflexivity. Qed.
Lemma blk_push : forall s g j, blk (push g s) j = blk s j.
Proof. reflexivity. Qed.
Lemma blk_pop : forall s j, blk (pop s) j = blk s j.
Proof. reflexivity. Qed.

Lemma pool_setpool : forall s q v q', (q < length (pools s))%nat ->
  pool q' (setpool q v s) = if (q' =? q)%nat then v else pool q' s.
Proof. intros. unfold pool, setpool. simpl. rewrite nth_updn; auto. Qed.

Lemma insq_chins : forall s q d q', (q < length (ins s))%nat ->
  insq q' (chins q d s) = if (q' =? q)%nat then ladd (insq q' s) d else insq q' s.
Proof. intros. unfold insq, chins. simpl. rewrite nth_updn; auto. Qed.

Lemma out_setph : forall s i p b q k, blk s i = Some b ->
  outstanding q k (setph i p s) = outstanding q k s - outb q k b + outb q k (set_ph p b).
Proof.
  intros. unfold outstanding, setph. simpl. rewrite (osum_updn q k i _ _ b H). lia.
Qed.

Lemma out_setpool : forall s q' v q k, outstanding q k (setpool q' v s) = outstanding q k s.
Proof. intros. unfold outstanding, setpool. simpl. rewrite osum_map_mark. reflexivity. Qed.

Lemma out_push : forall s gs q k, outstanding q k (push gs s) = outstanding q k s + gsum q k gs.
Proof. intros. unfold outstanding, push. simpl. rewrite gsum_app. lia. Qed.

Lemma out_pop : forall s g r q k, gbq s = g :: r ->
  outstanding q k (pop s) = outstanding q k s - outg q k g.
Proof. intros. unfold outstanding, pop. simpl. rewrite H. simpl. lia. Qed.
