(* Proofs about BorrowProto: for ALL operation sequences of the nondeterministic environment:
   any number of blocks, amounts, nesting depths, interleavings, signals/closes at any
   suspension point (also repeated), concurrent increase/decrease/set. *)
Require Import ZArith List Bool Lia.
Import ListNotations.
From Usim Require Import Levels BorrowProto.
Open Scope Z_scope.

(* ---------------- lists *)
Lemma updn_length : forall (A : Type) i (f : A -> A) l, length (updn i f l) = length l.
Proof. intros A i f l. revert i. induction l; destruct i; simpl; auto. Qed.

Lemma nth_error_updn : forall (A : Type) i j (f : A -> A) l,
  nth_error (updn i f l) j =
  if (j =? i)%nat then option_map f (nth_error l j) else nth_error l j.
Proof.
  intros A i j f l. revert i j. induction l; intros; simpl.
  - destruct j, i; simpl; try reflexivity; destruct (j =? i)%nat; reflexivity.
  - destruct i, j; simpl; auto.
Qed.

Lemma nth_updn : forall (A : Type) i j (f : A -> A) l d, (i < length l)%nat ->
  nth j (updn i f l) d = if (j =? i)%nat then f (nth j l d) else nth j l d.
Proof.
  intros A i j f l d. revert i j. induction l; intros; simpl in *; [lia|].
  destruct i, j; simpl; auto. apply IHl. lia.
Qed.

Lemma nth_error_snoc : forall (A : Type) (l : list A) x j,
  nth_error (l ++ [x]) j =
  if (j <? length l)%nat then nth_error l j else if (j =? length l)%nat then Some x else None.
Proof.
  induction l; intros; simpl.
  - destruct j; simpl; auto. destruct j; auto.
  - destruct j; simpl; auto. rewrite IHl.
    change (S j <? S (length l))%nat with (j <? length l)%nat. reflexivity.
Qed.

Lemma nth_snoc_old : forall (A : Type) (l : list A) x j d, (j < length l)%nat ->
  nth j (l ++ [x]) d = nth j l d.
Proof. intros. apply app_nth1. auto. Qed.

(* ---------------- sums *)
Lemma osum_app : forall q k a b, osum q k (a ++ b) = osum q k a + osum q k b.
Proof. induction a; simpl; intros; auto. rewrite IHa. lia. Qed.

Lemma gsum_app : forall q k a b, gsum q k (a ++ b) = gsum q k a + gsum q k b.
Proof. induction a; simpl; intros; auto. rewrite IHa. lia. Qed.

Lemma osum_updn : forall q k i f bl b, nth_error bl i = Some b ->
  osum q k (updn i f bl) = osum q k bl - outb q k b + outb q k (f b).
Proof.
  intros q k i f bl. revert i. induction bl; intros; destruct i; simpl in *; try discriminate.
  - inversion H; subst. lia.
  - rewrite (IHbl _ _ H). lia.
Qed.

Lemma bpar_mark : forall n q v b, bpar (mark n q v b) = bpar b.
Proof. intros. unfold mark. destruct (_ && _); auto. Qed.
Lemma bdeb_mark : forall n q v b, bdeb (mark n q v b) = bdeb b.
Proof. intros. unfold mark. destruct (_ && _); auto. Qed.
Lemma bclaim_mark : forall n q v b, bclaim (mark n q v b) = bclaim b.
Proof. intros. unfold mark. destruct (_ && _); auto. Qed.
Lemma bph_mark : forall n q v b, bph (mark n q v b) = bph b.
Proof. intros. unfold mark. destruct (_ && _); auto. Qed.

Lemma outb_mark : forall q k n q' v b, outb q k (mark n q' v b) = outb q k b.
Proof. intros. unfold outb. rewrite bpar_mark, bph_mark, bdeb_mark. reflexivity. Qed.

Lemma osum_map_mark : forall q k n q' v bl, osum q k (map (mark n q' v) bl) = osum q k bl.
Proof. induction bl; simpl; auto. rewrite outb_mark, IHbl. reflexivity. Qed.

(* ---------------- observables of the primitives *)
Definition blk (s : state) (i : nat) : option block := nth_error (blocks s) i.

Lemma blk_setph : forall s i p j,
  blk (setph i p s) j = if (j =? i)%nat then option_map (set_ph p) (blk s j) else blk s j.
Proof. intros. unfold blk, setph. simpl. apply nth_error_updn. Qed.

Lemma blk_setpool : forall s q v j,
  blk (setpool q v s) j = option_map (mark (nkeys s) q v) (blk s j).
Proof. intros. unfold blk, setpool. simpl. apply nth_error_map. Qed.

Lemma blk_chins : forall s q d j, blk (chins q d s) j = blk s j.
Proof. reflexivity. Qed.
Lemma blk_push : forall s g j, blk (push g s) j = blk s j.
Proof. reflexivity. Qed.
Lemma blk_pop : forall s j, blk (pop s) j = blk s j.
Proof. reflexivity. Qed.

Lemma pool_setpool : forall s q v q', (q < length (pools s))%nat ->
  pool q' (setpool q v s) = if (q' =? q)%nat then v else pool q' s.
Proof. intros. unfold pool, setpool. simpl. rewrite nth_updn; auto. Qed.

Lemma insq_chins : forall s q d q', (q < length (ins s))%nat ->
  insq q' (chins q d s) = if (q' =? q)%nat then ladd (insq q' s) d else insq q' s.
Proof. intros. unfold insq, chins. simpl. rewrite nth_updn; auto. Qed.

Lemma out_setph : forall s i p b q k, blk s i = Some b ->
  outstanding q k (setph i p s) = outstanding q k s - outb q k b + outb q k (set_ph p b).
Proof.
  intros. unfold outstanding, setph. simpl. rewrite (osum_updn q k i _ _ b H). lia.
Qed.

Lemma out_setpool : forall s q' v q k, outstanding q k (setpool q' v s) = outstanding q k s.
Proof. intros. unfold outstanding, setpool. simpl. rewrite osum_map_mark. reflexivity. Qed.

Lemma out_push : forall s gs q k, outstanding q k (push gs s) = outstanding q k s + gsum q k gs.
Proof. intros. unfold outstanding, push. simpl. rewrite gsum_app. lia. Qed.

Lemma out_pop : forall s g r q k, gbq s = g :: r ->
  outstanding q k (pop s) = outstanding q k s - outg q k g.
Proof. intros. unfold outstanding, pop. simpl. rewrite H. simpl. lia. Qed.

(* ---------------- the transitions of [step], classified *)
Inductive pmove (s : state) (b : block) : phase -> Prop :=
| PM_wait : (bph b = Idle /\ owner_ok s (bpar b) = true \/ bph b = WaitAvail) ->
            (bclaim b = false \/ bph b = WaitAvail) ->
            lge (nkeys s) (pool (bpar b) s) (bdeb b) = false -> pmove s b WaitAvail
| PM_refuse : bph b = Idle -> bclaim b = true ->
            lge (nkeys s) (pool (bpar b) s) (bdeb b) = false -> pmove s b Gone
| PM_abort : bph b = WaitAvail \/ bph b = Returning -> pmove s b Gone
| PM_hold : bph b = Filling -> pmove s b Holding.

Inductive trans (s : state) : state -> Prop :=
| T_none : trans s s
| T_new : forall q d cl, (q < length (pools s))%nat -> (length d <= nkeys s)%nat ->
    lle (nkeys s) [] d = true -> limit_ok s q d = true ->
    trans s (mkS (nkeys s) (cap s) (pools s ++ [[]]) (ins s ++ [[]])
                 (blocks s ++ [mkB q d cl Idle false]) (gbq s))
| T_ph : forall i b p, blk s i = Some b -> pmove s b p -> trans s (setph i p s)
| T_take : forall i b, blk s i = Some b ->
    (bph b = Idle /\ owner_ok s (bpar b) = true \/ bph b = WaitAvail /\ bwok b = true) ->
    lge (nkeys s) (pool (bpar b) s) (bdeb b) = true ->
    trans s (chpool (bpar b) (lneg (bdeb b)) (setph i Taking s))
| T_fill : forall i b, blk s i = Some b -> bph b = Taking ->
    trans s (chins (S i) (bdeb b) (chpool (S i) (bdeb b) (setph i Filling s)))
| T_empty : forall i b, blk s i = Some b -> bph b = Holding ->
    trans s (chins (S i) (lneg (bdeb b)) (chpool (S i) (lneg (bdeb b)) (setph i Emptying s)))
| T_return : forall i b, blk s i = Some b -> bph b = Emptying ->
    trans s (chpool (bpar b) (bdeb b) (setph i Returning s))
| T_giveback : forall i b h, blk s i = Some b ->
    ((bph b = Taking \/ bph b = Filling) /\ h = pool (S i) s \/
     bph b = Holding /\ h = bdeb b \/ bph b = Emptying /\ h = []) ->
    trans s (push [GbOwn i h; GbPar (bpar b) (bdeb b)] (setph i Gone s))
| T_gbown : forall i h r, gbq s = GbOwn i h :: r ->
    trans s (chins (S i) (lneg h) (chpool (S i) (lneg h) (pop s)))
| T_gbpar : forall q d r, gbq s = GbPar q d :: r -> trans s (chpool q d (pop s))
| T_adj : forall dl, cap s = None -> (forall k, 0 <= get k (pool 0 s) + get k dl) ->
    trans s (chins 0 dl (chpool 0 dl s))
| T_set : forall v, cap s = None -> (forall k, 0 <= get k v) ->
    trans s (chins 0 (lsub v (pool 0 s)) (setpool 0 v s)).

Lemma step_trans : forall s o,
  (forall k, 0 <= get k (pool 0 s)) -> trans s (fst (step s o)).
Proof.
  intros s o NN. destruct o; simpl.
  - (* New *)
    destruct ((q <? length (pools s))%nat && (length d <=? nkeys s)%nat) eqn:G; simpl; [|constructor].
    apply andb_prop in G. destruct G as [G1 G2]. apply Nat.ltb_lt in G1. apply Nat.leb_le in G2.
    destruct (lle (nkeys s) [] d && limit_ok s q d) eqn:A; simpl; [|constructor].
    apply andb_prop in A. destruct A. apply T_new; auto.
  - (* Step *)
    fold (blk s i). destruct (blk s i) as [b|] eqn:B; [|constructor].
    destruct (bph b) eqn:P.
    + destruct (owner_ok s (bpar b)) eqn:O; [|constructor]. unfold try_enter, take.
      destruct (lge (nkeys s) (pool (bpar b) s) (bdeb b)) eqn:L; simpl.
      * eapply T_take; eauto.
      * destruct (bclaim b) eqn:C; simpl; eapply T_ph; eauto.
        -- apply PM_refuse; auto.
        -- apply PM_wait; auto.
    + destruct (bwok b) eqn:W; [|constructor]. unfold try_enter, take.
      destruct (lge (nkeys s) (pool (bpar b) s) (bdeb b)) eqn:L; simpl.
      * eapply T_take; eauto.
      * eapply T_ph; eauto. apply PM_wait; auto.
    + simpl. eapply T_fill; eauto.
    + simpl. eapply T_ph; eauto. apply PM_hold; auto.
    + simpl. eapply T_empty; eauto.
    + simpl. eapply T_return; eauto.
    + simpl. eapply T_ph; eauto. apply PM_abort; auto.
    + constructor.
  - (* Signal *)
    fold (blk s i). destruct (blk s i) as [b|] eqn:B; [|constructor].
    destruct (bph b) eqn:P; simpl; try apply T_none;
      try (eapply T_ph; eauto; apply PM_abort; auto; fail);
      try (eapply T_giveback; eauto; tauto).
    eapply T_empty; eauto.
  - (* Close *)
    fold (blk s i). destruct (blk s i) as [b|] eqn:B; [|constructor].
    destruct (bph b) eqn:P; simpl; try apply T_none;
      try (eapply T_ph; eauto; apply PM_abort; auto; fail);
      try (eapply T_giveback; eauto; tauto).
  - (* RunGb *)
    destruct (gbq s) as [|[i h|q d] r] eqn:G; simpl.
    + constructor.
    + eapply T_gbown; eauto.
    + eapply T_gbpar; eauto.
  - (* Increase *)
    destruct (is_none (cap s) && (length d <=? nkeys s)%nat) eqn:G; simpl; [|constructor].
    apply andb_prop in G. destruct G as [G1 G2]. apply Nat.leb_le in G2.
    destruct (lle (nkeys s) [] d) eqn:A; simpl; [|constructor].
    apply T_adj.
    + destruct (cap s); auto; discriminate.
    + intros k. destruct (Nat.lt_ge_cases k (nkeys s)).
      * rewrite lle_spec in A. specialize (A k H). rewrite get_nil in A. specialize (NN k). lia.
      * rewrite (get_beyond d) by lia. specialize (NN k). lia.
  - (* Decrease *)
    destruct (is_none (cap s) && (length d <=? nkeys s)%nat) eqn:G; simpl; [|constructor].
    apply andb_prop in G. destruct G as [G1 G2]. apply Nat.leb_le in G2.
    destruct (lle (nkeys s) [] d && lle (nkeys s) [] (lsub (pool 0 s) d)) eqn:A; simpl; [|constructor].
    apply andb_prop in A. destruct A as [A1 A2].
    apply T_adj.
    + destruct (cap s); auto; discriminate.
    + intros k. rewrite get_lneg. destruct (Nat.lt_ge_cases k (nkeys s)).
      * rewrite lle_spec in A2. specialize (A2 k H). rewrite get_nil, get_lsub in A2. lia.
      * rewrite (get_beyond d) by lia. specialize (NN k). lia.
  - (* SetLv *)
    destruct (is_none (cap s)) eqn:G; simpl; [|constructor].
    destruct (nonneg_opts m) eqn:A; simpl; [|constructor].
    apply T_set.
    + destruct (cap s); auto; discriminate.
    + intros k. rewrite get_lset. destruct (k <? nkeys s)%nat; [|lia].
      destruct (nth k m None) as [v|] eqn:E; [|apply NN].
      unfold nonneg_opts in A. rewrite forallb_forall in A.
      assert (I : In (Some v) m).
      { rewrite <- E. apply nth_In. destruct (Nat.lt_ge_cases k (length m)); auto.
        rewrite nth_overflow in E by auto. discriminate. }
      specialize (A _ I). simpl in A. apply Z.leb_le in A. auto.
Qed.

(* ---------------- well-formedness *)
Definition wf_block (s : state) (i : nat) (b : block) : Prop :=
  (bpar b <= i)%nat /\ (length (bdeb b) <= nkeys s)%nat /\ (forall k, 0 <= get k (bdeb b)).
Definition wf_gb (s : state) (g : gb) : Prop :=
  match g with
  | GbPar q d => (q < length (pools s))%nat /\ (forall k, 0 <= get k d)
  | GbOwn i h => (i < length (blocks s))%nat
  end.
Definition WF (s : state) : Prop :=
  length (pools s) = S (length (blocks s)) /\ length (ins s) = length (pools s) /\
  (forall i b, blk s i = Some b -> wf_block s i b) /\ Forall (wf_gb s) (gbq s).

Lemma blk_lt : forall s i b, blk s i = Some b -> (i < length (blocks s))%nat.
Proof. intros. apply nth_error_Some. unfold blk in H. congruence. Qed.

Lemma wf_gb_frame : forall s s' g,
  length (pools s') = length (pools s) -> length (blocks s') = length (blocks s) ->
  wf_gb s g -> wf_gb s' g.
Proof. intros. destruct g; simpl in *; rewrite ?H, ?H0; auto. Qed.

Lemma WF_setph : forall s i p, WF s -> WF (setph i p s).
Proof.
  intros s i p (L1 & L2 & B & G). unfold WF. simpl. rewrite updn_length.
  split; auto. split; auto. split.
  - intros j b' Hb. rewrite blk_setph in Hb.
    assert (X : exists b, blk s j = Some b /\ bpar b' = bpar b /\ bdeb b' = bdeb b).
    { destruct (j =? i)%nat; [|eauto].
      destruct (blk s j) as [b|] eqn:E; simpl in Hb; inversion Hb; subst. eexists; simpl; eauto. }
    destruct X as (b & E & P1 & P2). destruct (B j b E) as (W1 & W2 & W3).
    unfold wf_block. simpl. rewrite P1, P2. auto.
  - eapply Forall_impl; [|exact G]. intros g. apply wf_gb_frame; simpl; rewrite ?updn_length; auto.
Qed.

Lemma WF_setpool : forall s q v, WF s -> WF (setpool q v s).
Proof.
  intros s q v (L1 & L2 & B & G). unfold WF. simpl. rewrite updn_length, map_length.
  split; auto. split; auto. split.
  - intros j b' Hb. rewrite blk_setpool in Hb.
    destruct (blk s j) as [b|] eqn:E; simpl in Hb; inversion Hb; subst.
    destruct (B j b E) as (W1 & W2 & W3). unfold wf_block.
    rewrite bpar_mark, bdeb_mark. simpl. auto.
  - eapply Forall_impl; [|exact G]. intros g.
    apply wf_gb_frame; simpl; rewrite ?updn_length, ?map_length; auto.
Qed.

Lemma WF_chins : forall s q d, WF s -> WF (chins q d s).
Proof.
  intros s q d (L1 & L2 & B & G). unfold WF. simpl. rewrite updn_length. auto.
Qed.

Lemma WF_pop : forall s, WF s -> WF (pop s).
Proof.
  intros s (L1 & L2 & B & G). unfold WF. simpl. split; auto. split; auto. split; auto.
  destruct (gbq s); simpl; auto. inversion G; auto.
Qed.

Lemma WF_push : forall s gs, WF s -> Forall (wf_gb s) gs -> WF (push gs s).
Proof.
  intros s gs (L1 & L2 & B & G) H. unfold WF. simpl. split; auto. split; auto. split; auto.
  apply Forall_app. auto.
Qed.

Lemma WF_trans : forall s s', WF s -> trans s s' -> WF s'.
Proof.
  intros s s' W T. destruct T; unfold chpool;
    repeat first [apply WF_chins | apply WF_setpool | apply WF_pop]; auto;
    try (apply WF_setph; auto; fail).
  - (* new *)
    destruct W as (L1 & L2 & B & G). unfold WF. simpl. rewrite !app_length. simpl.
    split; [lia|]. split; [lia|]. split.
    + intros j b' Hb. unfold blk in Hb. simpl in Hb. rewrite nth_error_snoc in Hb.
      destruct (j <? length (blocks s))%nat eqn:E.
      * apply (B j b' Hb).
      * destruct (j =? length (blocks s))%nat eqn:E2; inversion Hb; subst.
        apply Nat.eqb_eq in E2. subst j. unfold wf_block. simpl. split; [lia|]. split; auto.
        intros k. destruct (Nat.lt_ge_cases k (nkeys s)).
        -- rewrite lle_spec in H1. specialize (H1 k H3). rewrite get_nil in H1. auto.
        -- rewrite get_beyond by lia. lia.
    + eapply Forall_impl; [|exact G]. intros g Hg. destruct g; simpl in *; rewrite app_length; simpl; lia || (destruct Hg; split; auto; lia).
  - (* giveback *)
    apply WF_push; [apply WF_setph; auto|].
    destruct W as (L1 & L2 & B & G). pose proof (blk_lt _ _ _ H) as Hi.
    destruct (B i b H) as (W1 & W2 & W3).
    repeat constructor; simpl; rewrite ?updn_length; auto; lia.
Qed.

(* ---------------- frame lemmas (definitional) *)
Lemma pool_setph : forall s i p q, pool q (setph i p s) = pool q s. Proof. reflexivity. Qed.
Lemma pool_chins : forall s q' d q, pool q (chins q' d s) = pool q s. Proof. reflexivity. Qed.
Lemma pool_push : forall s g q, pool q (push g s) = pool q s. Proof. reflexivity. Qed.
Lemma pool_pop : forall s q, pool q (pop s) = pool q s. Proof. reflexivity. Qed.
Lemma insq_setph : forall s i p q, insq q (setph i p s) = insq q s. Proof. reflexivity. Qed.
Lemma insq_setpool : forall s q' v q, insq q (setpool q' v s) = insq q s. Proof. reflexivity. Qed.
Lemma insq_push : forall s g q, insq q (push g s) = insq q s. Proof. reflexivity. Qed.
Lemma insq_pop : forall s q, insq q (pop s) = insq q s. Proof. reflexivity. Qed.
Lemma out_chins : forall s q' d q k, outstanding q k (chins q' d s) = outstanding q k s.
Proof. reflexivity. Qed.
Lemma len_pools_setph : forall s i p, length (pools (setph i p s)) = length (pools s).
Proof. reflexivity. Qed.
Lemma len_pools_setpool : forall s q v, length (pools (setpool q v s)) = length (pools s).
Proof. intros. simpl. apply updn_length. Qed.
Lemma len_pools_pop : forall s, length (pools (pop s)) = length (pools s). Proof. reflexivity. Qed.
Lemma len_ins_setph : forall s i p, length (ins (setph i p s)) = length (ins s).
Proof. reflexivity. Qed.
Lemma len_ins_setpool : forall s q v, length (ins (setpool q v s)) = length (ins s).
Proof. reflexivity. Qed.
Lemma len_ins_pop : forall s, length (ins (pop s)) = length (ins s). Proof. reflexivity. Qed.

#[local] Hint Rewrite pool_setph pool_chins pool_push pool_pop insq_setph insq_setpool insq_push insq_pop
  out_chins out_setpool out_push len_pools_setph len_pools_setpool len_pools_pop
  len_ins_setph len_ins_setpool len_ins_pop : bp.

Definition CONS (s : state) : Prop :=
  forall q k, get k (pool q s) = get k (insq q s) - outstanding q k s.
Definition NN0 (s : state) : Prop := forall k, 0 <= get k (pool 0 s).

Ltac side := autorewrite with bp; lia.

Lemma held_outb_set : forall q k p b,
  outb q k (set_ph p b) = if (bpar b =? q)%nat && held p then get k (bdeb b) else 0.
Proof. reflexivity. Qed.

Lemma CONS_trans : forall s s', WF s -> CONS s -> trans s s' -> CONS s'.
Proof.
  intros s s' (L1 & L2 & B & G) C T.
  destruct T; intros q0 k; specialize (C q0 k); auto;
    try (pose proof (blk_lt _ _ _ H) as Hi; destruct (B _ _ H) as (W1 & W2 & W3)).
  - (* new *)
    unfold pool, insq, outstanding in *. simpl. rewrite osum_app. simpl.
    destruct (Nat.lt_ge_cases q0 (length (pools s))).
    + rewrite !app_nth1 by lia. unfold outb. simpl. rewrite andb_false_r. lia.
    + rewrite !nth_overflow in C by lia.
      assert (E : forall A (l : list A) x d j, (length l <= j)%nat -> nth j (l ++ [x]) d = if (j =? length l)%nat then x else d).
      { clear. intros. destruct (j =? length l)%nat eqn:E.
        - apply Nat.eqb_eq in E. subst. rewrite app_nth2 by lia. rewrite Nat.sub_diag. reflexivity.
        - apply Nat.eqb_neq in E. apply nth_overflow. rewrite app_length. simpl. lia. }
      rewrite (E _ (pools s)), (E _ (ins s)) by lia. rewrite L2. unfold outb. simpl. rewrite andb_false_r.
      destruct (q0 =? length (pools s))%nat; rewrite ?get_nil in *; lia.
  - (* phase move *)
    autorewrite with bp. rewrite (out_setph s i p b q0 k H), held_outb_set.
    unfold outb. inversion H0; subst;
      repeat match goal with H : _ \/ _ |- _ => destruct H | H : _ /\ _ |- _ => destruct H end;
      match goal with H : bph b = _ |- _ => rewrite H end; simpl;
      destruct (bpar b =? q0)%nat; simpl; lia.
  - (* take *)
    unfold chpool. rewrite pool_setpool by side. autorewrite with bp.
    rewrite (out_setph s i Taking b q0 k H), held_outb_set. unfold outb.
    assert (HP : held (bph b) = false) by (destruct H0 as [[P _] | [P _]]; rewrite P; reflexivity).
    rewrite HP, andb_false_r. simpl. rewrite andb_true_r.
    destruct (q0 =? bpar b)%nat eqn:E.
    + apply Nat.eqb_eq in E. subst q0. rewrite Nat.eqb_refl, get_ladd, get_lneg. lia.
    + rewrite Nat.eqb_sym, E. lia.
  - (* fill *)
    unfold chpool. rewrite pool_chins, pool_setpool by side.
    rewrite insq_chins by side. autorewrite with bp.
    rewrite (out_setph s i Filling b q0 k H), held_outb_set. unfold outb. rewrite H0. simpl.
    destruct (q0 =? S i)%nat eqn:E; [apply Nat.eqb_eq in E; subst q0|];
      rewrite ?get_ladd; destruct (bpar b =? _)%nat; simpl; lia.
  - (* empty *)
    unfold chpool. rewrite pool_chins, pool_setpool by side.
    rewrite insq_chins by side. autorewrite with bp.
    rewrite (out_setph s i Emptying b q0 k H), held_outb_set. unfold outb. rewrite H0. simpl.
    destruct (q0 =? S i)%nat eqn:E; [apply Nat.eqb_eq in E; subst q0|];
      rewrite ?get_ladd, ?get_lneg; destruct (bpar b =? _)%nat; simpl; lia.
  - (* return *)
    unfold chpool. rewrite pool_setpool by side. autorewrite with bp.
    rewrite (out_setph s i Returning b q0 k H), held_outb_set. unfold outb. rewrite H0. simpl.
    rewrite andb_false_r, andb_true_r.
    destruct (q0 =? bpar b)%nat eqn:E.
    + apply Nat.eqb_eq in E. subst q0. rewrite Nat.eqb_refl, get_ladd. lia.
    + rewrite Nat.eqb_sym, E. lia.
  - (* giveback *)
    autorewrite with bp. rewrite (out_setph s i Gone b q0 k H), held_outb_set. unfold outb. simpl.
    rewrite andb_false_r.
    assert (HP : held (bph b) = true).
    { destruct H0 as [[[P | P] _] | [[P _] | [P _]]]; rewrite P; reflexivity. }
    rewrite HP, andb_true_r. destruct (bpar b =? q0)%nat; lia.
  - (* run GbOwn *)
    rewrite H in G. inversion G as [|g r' Hg Hr]; subst. simpl in Hg.
    unfold chpool. rewrite pool_chins, pool_setpool by side.
    rewrite insq_chins by side. autorewrite with bp.
    rewrite (out_pop s _ _ q0 k H). simpl.
    destruct (q0 =? S i)%nat eqn:E; [apply Nat.eqb_eq in E; subst q0|]; rewrite ?get_ladd, ?get_lneg; lia.
  - (* run GbPar *)
    rewrite H in G. inversion G as [|g r' Hg Hr]; subst. simpl in Hg. destruct Hg as [Hq Hd].
    unfold chpool. rewrite pool_setpool by side. autorewrite with bp.
    rewrite (out_pop s _ _ q0 k H). simpl.
    destruct (q0 =? q)%nat eqn:E.
    + apply Nat.eqb_eq in E. subst q0. rewrite Nat.eqb_refl, get_ladd. lia.
    + rewrite Nat.eqb_sym, E. lia.
  - (* increase / decrease *)
    unfold chpool. rewrite pool_chins, pool_setpool by side.
    rewrite insq_chins by side. autorewrite with bp.
    destruct (q0 =? 0)%nat eqn:E; [apply Nat.eqb_eq in E; subst q0|]; rewrite ?get_ladd; lia.
  - (* set *)
    rewrite pool_chins, pool_setpool by side.
    rewrite insq_chins by side. autorewrite with bp.
    destruct (q0 =? 0)%nat eqn:E; rewrite ?get_ladd, ?get_lsub; try lia.
    apply Nat.eqb_eq in E. subst q0. lia.
Qed.

Lemma NN0_trans : forall s s', WF s -> NN0 s -> trans s s' -> NN0 s'.
Proof.
  intros s s' (L1 & L2 & B & G) N T.
  destruct T; intros k; specialize (N k); auto;
    try (pose proof (blk_lt _ _ _ H) as Hi; destruct (B _ _ H) as (W1 & W2 & W3)).
  - unfold pool in *. simpl. rewrite app_nth1 by lia. auto.
  - unfold chpool. rewrite pool_setpool by side. autorewrite with bp.
    destruct (0 =? bpar b)%nat eqn:E; auto. apply Nat.eqb_eq in E.
    rewrite get_ladd, get_lneg. rewrite <- E in *.
    destruct (Nat.lt_ge_cases k (nkeys s)).
    + rewrite lge_spec in H1. specialize (H1 k H2). lia.
    + rewrite (get_beyond (bdeb b)) by lia. lia.
  - unfold chpool. rewrite pool_chins, pool_setpool by side. autorewrite with bp. auto.
  - unfold chpool. rewrite pool_chins, pool_setpool by side. autorewrite with bp. auto.
  - unfold chpool. rewrite pool_setpool by side. autorewrite with bp.
    destruct (0 =? bpar b)%nat eqn:E; auto. apply Nat.eqb_eq in E. rewrite <- E in *.
    rewrite get_ladd. specialize (W3 k). lia.
  - rewrite H in G. inversion G as [|g r' Hg Hr]; subst. simpl in Hg.
    unfold chpool. rewrite pool_chins, pool_setpool by side. autorewrite with bp. auto.
  - rewrite H in G. inversion G as [|g r' Hg Hr]; subst. simpl in Hg. destruct Hg as [Hq Hd].
    unfold chpool. rewrite pool_setpool by side. autorewrite with bp.
    destruct (0 =? q)%nat eqn:E; auto. apply Nat.eqb_eq in E. subst q.
    rewrite get_ladd. specialize (Hd k). lia.
  - unfold chpool. rewrite pool_chins, pool_setpool by side. autorewrite with bp.
    simpl. rewrite get_ladd. auto.
  - rewrite pool_chins, pool_setpool by side. simpl. auto.
Qed.

(* ---------------- claims never wait; no missed wake-up *)
Definition CLM (s : state) : Prop :=
  forall i b, blk s i = Some b -> bclaim b = true -> bph b <> WaitAvail.
Definition WAKE (s : state) : Prop :=
  forall i b, blk s i = Some b -> bph b = WaitAvail -> bwok b = false ->
  lge (nkeys s) (pool (bpar b) s) (bdeb b) = false.

(* generic: how a block of s' arises from a block of s *)
Lemma blk_after_setpool_setph : forall s i p q v j b',
  blk (setpool q v (setph i p s)) j = Some b' ->
  exists b, blk s j = Some b /\
    b' = mark (nkeys s) q v (if (j =? i)%nat then set_ph p b else b).
Proof.
  intros. rewrite blk_setpool, blk_setph in H.
  destruct (j =? i)%nat; destruct (blk s j) as [b|]; simpl in H; inversion H; eauto.
Qed.

Lemma CLM_trans : forall s s', CLM s -> trans s s' -> CLM s'.
Proof.
  intros s s' C T.
  assert (P1 : forall i p, (forall b, blk s i = Some b -> bclaim b = true -> p <> WaitAvail) ->
               CLM (setph i p s)).
  { intros i p Hp j b' Hb Hc. rewrite blk_setph in Hb. destruct (j =? i)%nat eqn:E.
    - apply Nat.eqb_eq in E. subst j. destruct (blk s i) as [b|] eqn:F; inversion Hb; subst.
      simpl in *. eapply Hp; eauto.
    - eapply C; eauto. }
  assert (P2 : forall s0 q v, CLM s0 -> CLM (setpool q v s0)).
  { intros s0 q v C0 j b' Hb Hc. rewrite blk_setpool in Hb.
    destruct (blk s0 j) as [b|] eqn:F; inversion Hb; subst.
    rewrite bclaim_mark in Hc. rewrite bph_mark. eapply C0; eauto. }
  assert (P3 : forall s0 q d, CLM s0 -> CLM (chins q d s0)) by (intros; auto).
  destruct T; auto; unfold chpool;
    try (repeat first [apply P3 | apply P2]; try apply P1; try (intros; discriminate); auto; fail).
  - intros j b' Hb Hc. unfold blk in Hb. simpl in Hb. rewrite nth_error_snoc in Hb.
    destruct (j <? length (blocks s))%nat; [eapply C; eauto|].
    destruct (j =? length (blocks s))%nat; inversion Hb; subst. simpl. discriminate.
  - apply P1. intros b0 Hb0 Hc. rewrite H in Hb0. inversion Hb0; subst b0.
    inversion H0; subst; try discriminate.
    destruct H2 as [F | F]; [congruence|]. exfalso. eapply C; eauto.
Qed.

Lemma WAKE_setpool : forall s0 q v, WAKE s0 -> (q < length (pools s0))%nat -> WAKE (setpool q v s0).
Proof.
  intros s0 q v W Hq j b' Hb Hp Hw. rewrite blk_setpool in Hb.
  destruct (blk s0 j) as [b|] eqn:F; inversion Hb; subst. clear Hb.
  rewrite bph_mark in Hp. rewrite bpar_mark, bdeb_mark. rewrite pool_setpool by auto.
  change (nkeys (setpool q v s0)) with (nkeys s0).
  unfold mark in Hw. rewrite Hp in Hw. simpl in Hw.
  destruct (bpar b =? q)%nat eqn:E; simpl in Hw.
  - destruct (lge (nkeys s0) v (bdeb b)) eqn:L; simpl in Hw; [discriminate | auto].
  - eapply W; eauto.
Qed.

Lemma WAKE_setph : forall s i p b, WAKE s -> blk s i = Some b ->
  (p = WaitAvail -> lge (nkeys s) (pool (bpar b) s) (bdeb b) = false) -> WAKE (setph i p s).
Proof.
  intros s i p b W Hb Hl j b' Hb' Hp Hw. rewrite blk_setph in Hb'.
  destruct (j =? i)%nat eqn:E.
  - apply Nat.eqb_eq in E. subst j. rewrite Hb in Hb'. inversion Hb'; subst b'. simpl in *.
    apply Hl; auto.
  - eapply W; eauto.
Qed.

Lemma WAKE_trans : forall s s', WF s -> WAKE s -> trans s s' -> WAKE s'.
Proof.
  intros s s' (L1 & L2 & B & G) W T.
  assert (P3 : forall s0 q d, WAKE s0 -> WAKE (chins q d s0)) by (intros s0 q d H; exact H).
  assert (P4 : forall s0 g, WAKE s0 -> WAKE (push g s0)) by (intros s0 g H; exact H).
  assert (P5 : forall s0, WAKE s0 -> WAKE (pop s0)) by (intros s0 H; exact H).
  destruct T; auto; unfold chpool;
    try (pose proof (blk_lt _ _ _ H) as Hi; destruct (B _ _ H) as (W1 & W2 & W3)).
  - (* new *)
    intros j b' Hb Hp Hw. unfold blk in Hb. simpl in Hb. rewrite nth_error_snoc in Hb.
    destruct (j <? length (blocks s))%nat eqn:E.
    + destruct (B j b' Hb) as (X1 & _). apply Nat.ltb_lt in E.
      unfold pool. simpl. rewrite app_nth1 by lia. eapply W; eauto.
    + destruct (j =? length (blocks s))%nat; inversion Hb; subst. discriminate.
  - eapply WAKE_setph; eauto. intros ->. inversion H0; auto.
  - apply WAKE_setpool; [|side]. eapply WAKE_setph; eauto. discriminate.
  - apply P3. apply WAKE_setpool; [|side]. eapply WAKE_setph; eauto. discriminate.
  - apply P3. apply WAKE_setpool; [|side]. eapply WAKE_setph; eauto. discriminate.
  - apply WAKE_setpool; [|side]. eapply WAKE_setph; eauto. discriminate.
  - apply P4. eapply WAKE_setph; eauto. discriminate.
  - rewrite H in G. inversion G as [|g r' Hg Hr]; subst. simpl in Hg.
    apply P3. apply WAKE_setpool; [|side]. apply P5. auto.
  - rewrite H in G. inversion G as [|g r' Hg Hr]; subst. simpl in Hg. destruct Hg.
    apply WAKE_setpool; [|side]. apply P5. auto.
  - apply P3. apply WAKE_setpool; [|side]. auto.
  - apply P3. apply WAKE_setpool; [|side]. auto.
Qed.
