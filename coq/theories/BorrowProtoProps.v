(* Proofs about BorrowProto: for ALL operation sequences of the nondeterministic environment:
   any number of blocks, amounts, nesting depths, interleavings, signals/closes at any
   suspension point (also repeated), concurrent increase/decrease/set. *)
Require Import ZArith List Bool Lia.
Import ListNotations.
From Usim Require Import Levels BorrowProto.
Open Scope Z_scope.

(* ---------------- lists *)
Lemma updn_length : forall (A : Type) i (f : A -> A) l, length (updn i f l) = length l.
Proof. intros A i f l. revert i. induction l; destruct i; simpl; auto. Qed.

Lemma nth_error_updn : forall (A : Type) i j (f : A -> A) l,
  nth_error (updn i f l) j =
  if (j =? i)%nat then option_map f (nth_error l j) else nth_error l j.
Proof.
  intros A i j f l. revert i j. induction l; intros; simpl.
  - destruct j, i; simpl; try reflexivity; destruct (j =? i)%nat; reflexivity.
  - destruct i, j; simpl; auto.
Qed.

Lemma nth_updn : forall (A : Type) i j (f : A -> A) l d, (i < length l)%nat ->
  nth j (updn i f l) d = if (j =? i)%nat then f (nth j l d) else nth j l d.
Proof.
  intros A i j f l d. revert i j. induction l; intros; simpl in *; [lia|].
  destruct i, j; simpl; auto. apply IHl. lia.
Qed.

Lemma nth_error_snoc : forall (A : Type) (l : list A) x j,
  nth_error (l ++ [x]) j =
  if (j <? length l)%nat then nth_error l j else if (j =? length l)%nat then Some x else None.
Proof.
  induction l; intros; simpl.
  - destruct j; simpl; auto. destruct j; auto.
  - destruct j; simpl; auto. rewrite IHl.
    change (S j <? S (length l))%nat with (j <? length l)%nat. reflexivity.
Qed.

Lemma nth_snoc_old : forall (A : Type) (l : list A) x j d, (j < length l)%nat ->
  nth j (l ++ [x]) d = nth j l d.
Proof. intros. apply app_nth1. auto. Qed.

(* ---------------- sums *)
Lemma osum_app : forall q k a b, osum q k (a ++ b) = osum q k a + osum q k b.
Proof. induction a; simpl; intros; auto. rewrite IHa. lia. Qed.

Lemma gsum_app : forall q k a b, gsum q k (a ++ b) = gsum q k a + gsum q k b.
Proof. induction a; simpl; intros; auto. rewrite IHa. lia. Qed.

Lemma osum_updn : forall q k i f bl b, nth_error bl i = Some b ->
  osum q k (updn i f bl) = osum q k bl - outb q k b + outb q k (f b).
Proof.
  intros q k i f bl. revert i. induction bl; intros; destruct i; simpl in *; try discriminate.
  - inversion H; subst. lia.
  - rewrite (IHbl _ _ H). lia.
Qed.

Lemma bpar_mark : forall n q v b, bpar (mark n q v b) = bpar b.
Proof. intros. unfold mark. destruct (_ && _); auto. Qed.
Lemma bdeb_mark : forall n q v b, bdeb (mark n q v b) = bdeb b.
Proof. intros. unfold mark. destruct (_ && _); auto. Qed.
Lemma bclaim_mark : forall n q v b, bclaim (mark n q v b) = bclaim b.
Proof. intros. unfold mark. destruct (_ && _); auto. Qed.
Lemma bph_mark : forall n q v b, bph (mark n q v b) = bph b.
Proof. intros. unfold mark. destruct (_ && _); auto. Qed.

Lemma outb_mark : forall q k n q' v b, outb q k (mark n q' v b) = outb q k b.
Proof. intros. unfold outb. rewrite bpar_mark, bph_mark, bdeb_mark. reflexivity. Qed.

Lemma osum_map_mark : forall q k n q' v bl, osum q k (map (mark n q' v) bl) = osum q k bl.
Proof. induction bl; simpl; auto. rewrite outb_mark, IHbl. reflexivity. Qed.

(* ---------------- observables of the primitives *)
Definition blk (s : state) (i : nat) : option block := nth_error (blocks s) i.

Lemma blk_setph : forall s i p j,
  blk (setph i p s) j = if (j =? i)%nat then option_map (set_ph p) (blk s j) else blk s j.
Proof. intros. unfold blk, setph. simpl. apply nth_error_updn. Qed.

Lemma blk_setpool : forall s q v j,
  blk (setpool q v s) j = option_map (mark (nkeys s) q v) (blk s j).
Proof. intros. unfold blk, setpool. simpl. apply nth_error_map. Qed.

Lemma blk_chins : forall s q d j, blk (chins q d s) j = blk s j.
Proof. reflexivity. Qed.
Lemma blk_push : forall s g j, blk (push g s) j = blk s j.
Proof. reflexivity. Qed.
Lemma blk_pop : forall s j, blk (pop s) j = blk s j.
Proof. reflexivity. Qed.

Lemma pool_setpool : forall s q v q', (q < length (pools s))%nat ->
  pool q' (setpool q v s) = if (q' =? q)%nat then v else pool q' s.
Proof. intros. unfold pool, setpool. simpl. rewrite nth_updn; auto. Qed.

Lemma insq_chins : forall s q d q', (q < length (ins s))%nat ->
  insq q' (chins q d s) = if (q' =? q)%nat then ladd (insq q' s) d else insq q' s.
Proof. intros. unfold insq, chins. simpl. rewrite nth_updn; auto. Qed.

Lemma out_setph : forall s i p b q k, blk s i = Some b ->
  outstanding q k (setph i p s) = outstanding q k s - outb q k b + outb q k (set_ph p b).
Proof.
  intros. unfold outstanding, setph. simpl. rewrite (osum_updn q k i _ _ b H). lia.
Qed.

Lemma out_setpool : forall s q' v q k, outstanding q k (setpool q' v s) = outstanding q k s.
Proof. intros. unfold outstanding, setpool. simpl. rewrite osum_map_mark. reflexivity. Qed.

Lemma out_push : forall s gs q k, outstanding q k (push gs s) = outstanding q k s + gsum q k gs.
Proof. intros. unfold outstanding, push. simpl. rewrite gsum_app. lia. Qed.

Lemma out_pop : forall s g r q k, gbq s = g :: r ->
  outstanding q k (pop s) = outstanding q k s - outg q k g.
Proof. intros. unfold outstanding, pop. simpl. rewrite H. simpl. lia. Qed.

(* ---------------- the transitions of [step], classified *)
Inductive pmove (s : state) (b : block) : phase -> Prop :=
| PM_wait : (bph b = Idle /\ owner_ok s (bpar b) = true \/ bph b = WaitAvail) ->
            (bclaim b = false \/ bph b = WaitAvail) ->
            lge (nkeys s) (pool (bpar b) s) (bdeb b) = false -> pmove s b WaitAvail
| PM_refuse : bph b = Idle -> owner_ok s (bpar b) = true -> bclaim b = true ->
            lge (nkeys s) (pool (bpar b) s) (bdeb b) = false -> pmove s b Gone
| PM_abort : bph b = WaitAvail \/ bph b = Returning -> pmove s b Gone
| PM_hold : bph b = Filling -> pmove s b Holding.

Inductive trans (s : state) : state -> Prop :=
| T_none : trans s s
| T_new : forall q d cl, (q < length (pools s))%nat -> (length d <= nkeys s)%nat ->
    lle (nkeys s) [] d = true -> limit_ok s q d = true ->
    trans s (mkS (nkeys s) (cap s) (pools s ++ [[]]) (ins s ++ [[]])
                 (blocks s ++ [mkB q d cl Idle false]) (gbq s))
| T_ph : forall i b p, blk s i = Some b -> pmove s b p -> trans s (setph i p s)
| T_take : forall i b, blk s i = Some b ->
    (bph b = Idle /\ owner_ok s (bpar b) = true \/ bph b = WaitAvail /\ bwok b = true) ->
    lge (nkeys s) (pool (bpar b) s) (bdeb b) = true ->
    trans s (chpool (bpar b) (lneg (bdeb b)) (setph i Taking s))
| T_fill : forall i b, blk s i = Some b -> bph b = Taking ->
    trans s (chins (S i) (bdeb b) (chpool (S i) (bdeb b) (setph i Filling s)))
| T_empty : forall i b, blk s i = Some b -> bph b = Holding ->
    trans s (chins (S i) (lneg (bdeb b)) (chpool (S i) (lneg (bdeb b)) (setph i Emptying s)))
| T_return : forall i b, blk s i = Some b -> bph b = Emptying ->
    trans s (chpool (bpar b) (bdeb b) (setph i Returning s))
| T_giveback : forall i b h, blk s i = Some b ->
    ((bph b = Taking \/ bph b = Filling) /\ h = pool (S i) s \/
     bph b = Holding /\ h = bdeb b \/ bph b = Emptying /\ h = []) ->
    trans s (push [GbOwn i h; GbPar (bpar b) (bdeb b)] (setph i Gone s))
| T_gbown : forall i h r, gbq s = GbOwn i h :: r ->
    trans s (chins (S i) (lneg h) (chpool (S i) (lneg h) (pop s)))
| T_gbpar : forall q d r, gbq s = GbPar q d :: r -> trans s (chpool q d (pop s))
| T_adj : forall dl, cap s = None -> (forall k, 0 <= get k (pool 0 s) + get k dl) ->
    trans s (chins 0 dl (chpool 0 dl s))
| T_set : forall v, cap s = None -> (forall k, 0 <= get k v) ->
    trans s (chins 0 (lsub v (pool 0 s)) (setpool 0 v s)).

Lemma step_trans : forall s o,
  (forall k, 0 <= get k (pool 0 s)) -> trans s (fst (step s o)).
Proof.
  intros s o NN. destruct o; simpl.
  - (* New *)
    destruct ((q <? length (pools s))%nat && (length d <=? nkeys s)%nat) eqn:G; simpl; [|constructor].
    apply andb_prop in G. destruct G as [G1 G2]. apply Nat.ltb_lt in G1. apply Nat.leb_le in G2.
    destruct (lle (nkeys s) [] d && limit_ok s q d) eqn:A; simpl; [|constructor].
    apply andb_prop in A. destruct A. apply T_new; auto.
  - (* Step *)
    fold (blk s i). destruct (blk s i) as [b|] eqn:B; [|constructor].
    destruct (bph b) eqn:P.
    + destruct (owner_ok s (bpar b)) eqn:O; [|constructor]. unfold try_enter, take.
      destruct (lge (nkeys s) (pool (bpar b) s) (bdeb b)) eqn:L; simpl.
      * eapply T_take; eauto.
      * destruct (bclaim b) eqn:C; simpl; eapply T_ph; eauto.
        -- apply PM_refuse; auto.
        -- apply PM_wait; auto.
    + destruct (bwok b) eqn:W; [|constructor]. unfold try_enter, take.
      destruct (lge (nkeys s) (pool (bpar b) s) (bdeb b)) eqn:L; simpl.
      * eapply T_take; eauto.
      * eapply T_ph; eauto. apply PM_wait; auto.
    + simpl. eapply T_fill; eauto.
    + simpl. eapply T_ph; eauto. apply PM_hold; auto.
    + simpl. eapply T_empty; eauto.
    + simpl. eapply T_return; eauto.
    + simpl. eapply T_ph; eauto. apply PM_abort; auto.
    + constructor.
  - (* Signal *)
    fold (blk s i). destruct (blk s i) as [b|] eqn:B; [|constructor].
    destruct (bph b) eqn:P; simpl; try apply T_none;
      try (eapply T_ph; eauto; apply PM_abort; auto; fail);
      try (eapply T_giveback; eauto; tauto).
  - (* Close *)
    fold (blk s i). destruct (blk s i) as [b|] eqn:B; [|constructor].
    destruct (bph b) eqn:P; simpl; try apply T_none;
      try (eapply T_ph; eauto; apply PM_abort; auto; fail);
      try (eapply T_giveback; eauto; tauto).
  - (* RunGb *)
    destruct (gbq s) as [|[i h|q d] r] eqn:G; simpl.
    + constructor.
    + eapply T_gbown; eauto.
    + eapply T_gbpar; eauto.
  - (* Increase *)
    destruct (is_none (cap s) && (length d <=? nkeys s)%nat) eqn:G; simpl; [|constructor].
    apply andb_prop in G. destruct G as [G1 G2]. apply Nat.leb_le in G2.
    destruct (lle (nkeys s) [] d) eqn:A; simpl; [|constructor].
    apply T_adj.
    + destruct (cap s); auto; discriminate.
    + intros k. destruct (Nat.lt_ge_cases k (nkeys s)).
      * rewrite lle_spec in A. specialize (A k H). rewrite get_nil in A. specialize (NN k). lia.
      * rewrite (get_beyond d) by lia. specialize (NN k). lia.
  - (* Decrease *)
    destruct (is_none (cap s) && (length d <=? nkeys s)%nat) eqn:G; simpl; [|constructor].
    apply andb_prop in G. destruct G as [G1 G2]. apply Nat.leb_le in G2.
    destruct (lle (nkeys s) [] d && lle (nkeys s) [] (lsub (pool 0 s) d)) eqn:A; simpl; [|constructor].
    apply andb_prop in A. destruct A as [A1 A2].
    apply T_adj.
    + destruct (cap s); auto; discriminate.
    + intros k. rewrite get_lneg. destruct (Nat.lt_ge_cases k (nkeys s)).
      * rewrite lle_spec in A2. specialize (A2 k H). rewrite get_nil, get_lsub in A2. lia.
      * rewrite (get_beyond d) by lia. specialize (NN k). lia.
  - (* SetLv *)
    destruct (is_none (cap s)) eqn:G; simpl; [|constructor].
    destruct (nonneg_opts m) eqn:A; simpl; [|constructor].
    apply T_set.
    + destruct (cap s); auto; discriminate.
    + intros k. rewrite get_lset. destruct (k <? nkeys s)%nat; [|lia].
      destruct (nth k m None) as [v|] eqn:E; [|apply NN].
      unfold nonneg_opts in A. rewrite forallb_forall in A.
      assert (I : In (Some v) m).
      { rewrite <- E. apply nth_In. destruct (Nat.lt_ge_cases k (length m)); auto.
        rewrite nth_overflow in E by auto. discriminate. }
      specialize (A _ I). simpl in A. apply Z.leb_le in A. auto.
Qed.

(* ---------------- well-formedness *)
Definition wf_block (s : state) (i : nat) (b : block) : Prop :=
  (bpar b <= i)%nat /\ (length (bdeb b) <= nkeys s)%nat /\ (forall k, 0 <= get k (bdeb b)).
Definition wf_gb (s : state) (g : gb) : Prop :=
  match g with
  | GbPar q d => (q < length (pools s))%nat /\ (forall k, 0 <= get k d)
  | GbOwn i h => (i < length (blocks s))%nat
  end.
Definition WF (s : state) : Prop :=
  length (pools s) = S (length (blocks s)) /\ length (ins s) = length (pools s) /\
  (forall i b, blk s i = Some b -> wf_block s i b) /\ Forall (wf_gb s) (gbq s).

Lemma blk_lt : forall s i b, blk s i = Some b -> (i < length (blocks s))%nat.
Proof. intros. apply nth_error_Some. unfold blk in H. congruence. Qed.

Lemma wf_gb_frame : forall s s' g,
  length (pools s') = length (pools s) -> length (blocks s') = length (blocks s) ->
  wf_gb s g -> wf_gb s' g.
Proof. intros. destruct g; simpl in *; rewrite ?H, ?H0; auto. Qed.

Lemma WF_setph : forall s i p, WF s -> WF (setph i p s).
Proof.
  intros s i p (L1 & L2 & B & G). unfold WF. simpl. rewrite updn_length.
  split; auto. split; auto. split.
  - intros j b' Hb. rewrite blk_setph in Hb.
    assert (X : exists b, blk s j = Some b /\ bpar b' = bpar b /\ bdeb b' = bdeb b).
    { destruct (j =? i)%nat; [|eauto].
      destruct (blk s j) as [b|] eqn:E; simpl in Hb; inversion Hb; subst. eexists; simpl; eauto. }
    destruct X as (b & E & P1 & P2). destruct (B j b E) as (W1 & W2 & W3).
    unfold wf_block. simpl. rewrite P1, P2. auto.
  - eapply Forall_impl; [|exact G]. intros g. apply wf_gb_frame; simpl; rewrite ?updn_length; auto.
Qed.

Lemma WF_setpool : forall s q v, WF s -> WF (setpool q v s).
Proof.
  intros s q v (L1 & L2 & B & G). unfold WF. simpl. rewrite updn_length, map_length.
  split; auto. split; auto. split.
  - intros j b' Hb. rewrite blk_setpool in Hb.
    destruct (blk s j) as [b|] eqn:E; simpl in Hb; inversion Hb; subst.
    destruct (B j b E) as (W1 & W2 & W3). unfold wf_block.
    rewrite bpar_mark, bdeb_mark. simpl. auto.
  - eapply Forall_impl; [|exact G]. intros g.
    apply wf_gb_frame; simpl; rewrite ?updn_length, ?map_length; auto.
Qed.

Lemma WF_chins : forall s q d, WF s -> WF (chins q d s).
Proof.
  intros s q d (L1 & L2 & B & G). unfold WF. simpl. rewrite updn_length. auto.
Qed.

Lemma WF_pop : forall s, WF s -> WF (pop s).
Proof.
  intros s (L1 & L2 & B & G). unfold WF. simpl. split; auto. split; auto. split; auto.
  destruct (gbq s); simpl; auto. inversion G; auto.
Qed.

Lemma WF_push : forall s gs, WF s -> Forall (wf_gb s) gs -> WF (push gs s).
Proof.
  intros s gs (L1 & L2 & B & G) H. unfold WF. simpl. split; auto. split; auto. split; auto.
  apply Forall_app. auto.
Qed.

Lemma WF_trans : forall s s', WF s -> trans s s' -> WF s'.
Proof.
  intros s s' W T. destruct T; unfold chpool;
    repeat first [apply WF_chins | apply WF_setpool | apply WF_pop]; auto;
    try (apply WF_setph; auto; fail).
  - (* new *)
    destruct W as (L1 & L2 & B & G). unfold WF. simpl. rewrite !app_length. simpl.
    split; [lia|]. split; [lia|]. split.
    + intros j b' Hb. unfold blk in Hb. simpl in Hb. rewrite nth_error_snoc in Hb.
      destruct (j <? length (blocks s))%nat eqn:E.
      * apply (B j b' Hb).
      * destruct (j =? length (blocks s))%nat eqn:E2; inversion Hb; subst.
        apply Nat.eqb_eq in E2. subst j. unfold wf_block. simpl. split; [lia|]. split; auto.
        intros k. destruct (Nat.lt_ge_cases k (nkeys s)).
        -- rewrite lle_spec in H1. specialize (H1 k H3). rewrite get_nil in H1. auto.
        -- rewrite get_beyond by lia. lia.
    + eapply Forall_impl; [|exact G]. intros g Hg. destruct g; simpl in *; rewrite app_length; simpl; lia || (destruct Hg; split; auto; lia).
  - (* giveback *)
    apply WF_push; [apply WF_setph; auto|].
    destruct W as (L1 & L2 & B & G). pose proof (blk_lt _ _ _ H) as Hi.
    destruct (B i b H) as (W1 & W2 & W3).
    repeat constructor; simpl; rewrite ?updn_length; auto; lia.
Qed.

(* ---------------- frame lemmas (definitional) *)
Lemma pool_setph : forall s i p q, pool q (setph i p s) = pool q s. Proof. reflexivity. Qed.
Lemma pool_chins : forall s q' d q, pool q (chins q' d s) = pool q s. Proof. reflexivity. Qed.
Lemma pool_push : forall s g q, pool q (push g s) = pool q s. Proof. reflexivity. Qed.
Lemma pool_pop : forall s q, pool q (pop s) = pool q s. Proof. reflexivity. Qed.
Lemma insq_setph : forall s i p q, insq q (setph i p s) = insq q s. Proof. reflexivity. Qed.
Lemma insq_setpool : forall s q' v q, insq q (setpool q' v s) = insq q s. Proof. reflexivity. Qed.
Lemma insq_push : forall s g q, insq q (push g s) = insq q s. Proof. reflexivity. Qed.
Lemma insq_pop : forall s q, insq q (pop s) = insq q s. Proof. reflexivity. Qed.
Lemma out_chins : forall s q' d q k, outstanding q k (chins q' d s) = outstanding q k s.
Proof. reflexivity. Qed.
Lemma len_pools_setph : forall s i p, length (pools (setph i p s)) = length (pools s).
Proof. reflexivity. Qed.
Lemma len_pools_setpool : forall s q v, length (pools (setpool q v s)) = length (pools s).
Proof. intros. simpl. apply updn_length. Qed.
Lemma len_pools_pop : forall s, length (pools (pop s)) = length (pools s). Proof. reflexivity. Qed.
Lemma len_ins_setph : forall s i p, length (ins (setph i p s)) = length (ins s).
Proof. reflexivity. Qed.
Lemma len_ins_setpool : forall s q v, length (ins (setpool q v s)) = length (ins s).
Proof. reflexivity. Qed.
Lemma len_ins_pop : forall s, length (ins (pop s)) = length (ins s). Proof. reflexivity. Qed.

#[local] Hint Rewrite pool_setph pool_chins pool_push pool_pop insq_setph insq_setpool insq_push insq_pop
  out_chins out_setpool out_push len_pools_setph len_pools_setpool len_pools_pop
  len_ins_setph len_ins_setpool len_ins_pop : bp.

Definition CONS (s : state) : Prop :=
  forall q k, get k (pool q s) = get k (insq q s) - outstanding q k s.
Definition NN0 (s : state) : Prop := forall k, 0 <= get k (pool 0 s).

Ltac side := autorewrite with bp; lia.

Lemma held_outb_set : forall q k p b,
  outb q k (set_ph p b) = if (bpar b =? q)%nat && held p then get k (bdeb b) else 0.
Proof. reflexivity. Qed.

Lemma CONS_trans : forall s s', WF s -> CONS s -> trans s s' -> CONS s'.
Proof.
  intros s s' (L1 & L2 & B & G) C T.
  destruct T; intros q0 k; specialize (C q0 k); auto;
    try (pose proof (blk_lt _ _ _ H) as Hi; destruct (B _ _ H) as (W1 & W2 & W3)).
  - (* new *)
    unfold pool, insq, outstanding in *. simpl. rewrite osum_app. simpl.
    destruct (Nat.lt_ge_cases q0 (length (pools s))).
    + rewrite !app_nth1 by lia. unfold outb. simpl. rewrite andb_false_r. lia.
    + rewrite !nth_overflow in C by lia.
      assert (E : forall A (l : list A) x d j, (length l <= j)%nat -> nth j (l ++ [x]) d = if (j =? length l)%nat then x else d).
      { clear. intros. destruct (j =? length l)%nat eqn:E.
        - apply Nat.eqb_eq in E. subst. rewrite app_nth2 by lia. rewrite Nat.sub_diag. reflexivity.
        - apply Nat.eqb_neq in E. apply nth_overflow. rewrite app_length. simpl. lia. }
      rewrite (E _ (pools s)), (E _ (ins s)) by lia. rewrite L2. unfold outb. simpl. rewrite andb_false_r.
      destruct (q0 =? length (pools s))%nat; rewrite ?get_nil in *; lia.
  - (* phase move *)
    autorewrite with bp. rewrite (out_setph s i p b q0 k H), held_outb_set.
    unfold outb. inversion H0; subst;
      repeat match goal with H : _ \/ _ |- _ => destruct H | H : _ /\ _ |- _ => destruct H end;
      match goal with H : bph b = _ |- _ => rewrite H end; simpl;
      destruct (bpar b =? q0)%nat; simpl; lia.
  - (* take *)
    unfold chpool. rewrite pool_setpool by side. autorewrite with bp.
    rewrite (out_setph s i Taking b q0 k H), held_outb_set. unfold outb.
    assert (HP : held (bph b) = false) by (destruct H0 as [[P _] | [P _]]; rewrite P; reflexivity).
    rewrite HP, andb_false_r. simpl. rewrite andb_true_r.
    destruct (q0 =? bpar b)%nat eqn:E.
    + apply Nat.eqb_eq in E. subst q0. rewrite Nat.eqb_refl, get_ladd, get_lneg. lia.
    + rewrite Nat.eqb_sym, E. lia.
  - (* fill *)
    unfold chpool. rewrite pool_chins, pool_setpool by side.
    rewrite insq_chins by side. autorewrite with bp.
    rewrite (out_setph s i Filling b q0 k H), held_outb_set. unfold outb. rewrite H0. simpl.
    destruct (q0 =? S i)%nat eqn:E; [apply Nat.eqb_eq in E; subst q0|];
      rewrite ?get_ladd; destruct (bpar b =? _)%nat; simpl; lia.
  - (* empty *)
    unfold chpool. rewrite pool_chins, pool_setpool by side.
    rewrite insq_chins by side. autorewrite with bp.
    rewrite (out_setph s i Emptying b q0 k H), held_outb_set. unfold outb. rewrite H0. simpl.
    destruct (q0 =? S i)%nat eqn:E; [apply Nat.eqb_eq in E; subst q0|];
      rewrite ?get_ladd, ?get_lneg; destruct (bpar b =? _)%nat; simpl; lia.
  - (* return *)
    unfold chpool. rewrite pool_setpool by side. autorewrite with bp.
    rewrite (out_setph s i Returning b q0 k H), held_outb_set. unfold outb. rewrite H0. simpl.
    rewrite andb_false_r, andb_true_r.
    destruct (q0 =? bpar b)%nat eqn:E.
    + apply Nat.eqb_eq in E. subst q0. rewrite Nat.eqb_refl, get_ladd. lia.
    + rewrite Nat.eqb_sym, E. lia.
  - (* giveback *)
    autorewrite with bp. rewrite (out_setph s i Gone b q0 k H), held_outb_set. unfold outb. simpl.
    rewrite andb_false_r.
    assert (HP : held (bph b) = true).
    { destruct H0 as [[[P | P] _] | [[P _] | [P _]]]; rewrite P; reflexivity. }
    rewrite HP, andb_true_r. destruct (bpar b =? q0)%nat; lia.
  - (* run GbOwn *)
    rewrite H in G. inversion G as [|g r' Hg Hr]; subst. simpl in Hg.
    unfold chpool. rewrite pool_chins, pool_setpool by side.
    rewrite insq_chins by side. autorewrite with bp.
    rewrite (out_pop s _ _ q0 k H). simpl.
    destruct (q0 =? S i)%nat eqn:E; [apply Nat.eqb_eq in E; subst q0|]; rewrite ?get_ladd, ?get_lneg; lia.
  - (* run GbPar *)
    rewrite H in G. inversion G as [|g r' Hg Hr]; subst. simpl in Hg. destruct Hg as [Hq Hd].
    unfold chpool. rewrite pool_setpool by side. autorewrite with bp.
    rewrite (out_pop s _ _ q0 k H). simpl.
    destruct (q0 =? q)%nat eqn:E.
    + apply Nat.eqb_eq in E. subst q0. rewrite Nat.eqb_refl, get_ladd. lia.
    + rewrite Nat.eqb_sym, E. lia.
  - (* increase / decrease *)
    unfold chpool. rewrite pool_chins, pool_setpool by side.
    rewrite insq_chins by side. autorewrite with bp.
    destruct (q0 =? 0)%nat eqn:E; [apply Nat.eqb_eq in E; subst q0|]; rewrite ?get_ladd; lia.
  - (* set *)
    rewrite pool_chins, pool_setpool by side.
    rewrite insq_chins by side. autorewrite with bp.
    destruct (q0 =? 0)%nat eqn:E; rewrite ?get_ladd, ?get_lsub; try lia.
    apply Nat.eqb_eq in E. subst q0. lia.
Qed.

Lemma NN0_trans : forall s s', WF s -> NN0 s -> trans s s' -> NN0 s'.
Proof.
  intros s s' (L1 & L2 & B & G) N T.
  destruct T; intros k; specialize (N k); auto;
    try (pose proof (blk_lt _ _ _ H) as Hi; destruct (B _ _ H) as (W1 & W2 & W3)).
  - unfold pool in *. simpl. rewrite app_nth1 by lia. auto.
  - unfold chpool. rewrite pool_setpool by side. autorewrite with bp.
    destruct (0 =? bpar b)%nat eqn:E; auto. apply Nat.eqb_eq in E.
    rewrite get_ladd, get_lneg. rewrite <- E in *.
    destruct (Nat.lt_ge_cases k (nkeys s)).
    + rewrite lge_spec in H1. specialize (H1 k H2). lia.
    + rewrite (get_beyond (bdeb b)) by lia. lia.
  - unfold chpool. rewrite pool_chins, pool_setpool by side. autorewrite with bp. auto.
  - unfold chpool. rewrite pool_chins, pool_setpool by side. autorewrite with bp. auto.
  - unfold chpool. rewrite pool_setpool by side. autorewrite with bp.
    destruct (0 =? bpar b)%nat eqn:E; auto. apply Nat.eqb_eq in E. rewrite <- E in *.
    rewrite get_ladd. specialize (W3 k). lia.
  - rewrite H in G. inversion G as [|g r' Hg Hr]; subst. simpl in Hg.
    unfold chpool. rewrite pool_chins, pool_setpool by side. autorewrite with bp. auto.
  - rewrite H in G. inversion G as [|g r' Hg Hr]; subst. simpl in Hg. destruct Hg as [Hq Hd].
    unfold chpool. rewrite pool_setpool by side. autorewrite with bp.
    destruct (0 =? q)%nat eqn:E; auto. apply Nat.eqb_eq in E. subst q.
    rewrite get_ladd. specialize (Hd k). lia.
  - unfold chpool. rewrite pool_chins, pool_setpool by side. autorewrite with bp.
    simpl. rewrite get_ladd. auto.
  - rewrite pool_chins, pool_setpool by side. simpl. auto.
Qed.

(* ---------------- claims never wait; no missed wake-up *)
Definition CLM (s : state) : Prop :=
  forall i b, blk s i = Some b -> bclaim b = true -> bph b <> WaitAvail.
Definition WAKE (s : state) : Prop :=
  forall i b, blk s i = Some b -> bph b = WaitAvail -> bwok b = false ->
  lge (nkeys s) (pool (bpar b) s) (bdeb b) = false.

(* generic: how a block of s' arises from a block of s *)
Lemma blk_after_setpool_setph : forall s i p q v j b',
  blk (setpool q v (setph i p s)) j = Some b' ->
  exists b, blk s j = Some b /\
    b' = mark (nkeys s) q v (if (j =? i)%nat then set_ph p b else b).
Proof.
  intros. rewrite blk_setpool, blk_setph in H.
  destruct (j =? i)%nat; destruct (blk s j) as [b|]; simpl in H; inversion H; eauto.
Qed.

Lemma CLM_trans : forall s s', CLM s -> trans s s' -> CLM s'.
Proof.
  intros s s' C T.
  assert (P1 : forall i p, (forall b, blk s i = Some b -> bclaim b = true -> p <> WaitAvail) ->
               CLM (setph i p s)).
  { intros i p Hp j b' Hb Hc. rewrite blk_setph in Hb. destruct (j =? i)%nat eqn:E.
    - apply Nat.eqb_eq in E. subst j. destruct (blk s i) as [b|] eqn:F; inversion Hb; subst.
      simpl in *. eapply Hp; eauto.
    - eapply C; eauto. }
  assert (P2 : forall s0 q v, CLM s0 -> CLM (setpool q v s0)).
  { intros s0 q v C0 j b' Hb Hc. rewrite blk_setpool in Hb.
    destruct (blk s0 j) as [b|] eqn:F; inversion Hb; subst.
    rewrite bclaim_mark in Hc. rewrite bph_mark. eapply C0; eauto. }
  assert (P3 : forall s0 q d, CLM s0 -> CLM (chins q d s0)) by (intros; auto).
  destruct T; auto; unfold chpool;
    try (repeat first [apply P3 | apply P2]; try apply P1; try (intros; discriminate); auto; fail).
  - intros j b' Hb Hc. unfold blk in Hb. simpl in Hb. rewrite nth_error_snoc in Hb.
    destruct (j <? length (blocks s))%nat; [eapply C; eauto|].
    destruct (j =? length (blocks s))%nat; inversion Hb; subst. simpl. discriminate.
  - apply P1. intros b0 Hb0 Hc. rewrite H in Hb0. inversion Hb0; subst b0.
    inversion H0; subst; try discriminate.
    destruct H2 as [F | F]; [congruence|]. exfalso. eapply C; eauto.
Qed.

Lemma WAKE_setpool : forall s0 q v, WAKE s0 -> (q < length (pools s0))%nat -> WAKE (setpool q v s0).
Proof.
  intros s0 q v W Hq j b' Hb Hp Hw. rewrite blk_setpool in Hb.
  destruct (blk s0 j) as [b|] eqn:F; inversion Hb; subst. clear Hb.
  rewrite bph_mark in Hp. rewrite bpar_mark, bdeb_mark. rewrite pool_setpool by auto.
  change (nkeys (setpool q v s0)) with (nkeys s0).
  unfold mark in Hw. rewrite Hp in Hw. simpl in Hw.
  destruct (bpar b =? q)%nat eqn:E; simpl in Hw.
  - destruct (lge (nkeys s0) v (bdeb b)) eqn:L; simpl in Hw; [discriminate | auto].
  - eapply W; eauto.
Qed.

Lemma WAKE_setph : forall s i p b, WAKE s -> blk s i = Some b ->
  (p = WaitAvail -> lge (nkeys s) (pool (bpar b) s) (bdeb b) = false) -> WAKE (setph i p s).
Proof.
  intros s i p b W Hb Hl j b' Hb' Hp Hw. rewrite blk_setph in Hb'.
  destruct (j =? i)%nat eqn:E.
  - apply Nat.eqb_eq in E. subst j. rewrite Hb in Hb'. inversion Hb'; subst b'. simpl in *.
    apply Hl; auto.
  - eapply W; eauto.
Qed.

Lemma WAKE_trans : forall s s', WF s -> WAKE s -> trans s s' -> WAKE s'.
Proof.
  intros s s' (L1 & L2 & B & G) W T.
  assert (P3 : forall s0 q d, WAKE s0 -> WAKE (chins q d s0)) by (intros s0 q d H; exact H).
  assert (P4 : forall s0 g, WAKE s0 -> WAKE (push g s0)) by (intros s0 g H; exact H).
  assert (P5 : forall s0, WAKE s0 -> WAKE (pop s0)) by (intros s0 H; exact H).
  destruct T; auto; unfold chpool;
    try (pose proof (blk_lt _ _ _ H) as Hi; destruct (B _ _ H) as (W1 & W2 & W3)).
  - (* new *)
    intros j b' Hb Hp Hw. unfold blk in Hb. simpl in Hb. rewrite nth_error_snoc in Hb.
    destruct (j <? length (blocks s))%nat eqn:E.
    + destruct (B j b' Hb) as (X1 & _). apply Nat.ltb_lt in E.
      unfold pool. simpl. rewrite app_nth1 by lia. eapply W; eauto.
    + destruct (j =? length (blocks s))%nat; inversion Hb; subst. discriminate.
  - eapply WAKE_setph; eauto. intros ->. inversion H0; auto.
  - apply WAKE_setpool; [|side]. eapply WAKE_setph; eauto. discriminate.
  - apply P3. apply WAKE_setpool; [|side]. eapply WAKE_setph; eauto. discriminate.
  - apply P3. apply WAKE_setpool; [|side]. eapply WAKE_setph; eauto. discriminate.
  - apply WAKE_setpool; [|side]. eapply WAKE_setph; eauto. discriminate.
  - apply P4. eapply WAKE_setph; eauto. discriminate.
  - rewrite H in G. inversion G as [|g r' Hg Hr]; subst. simpl in Hg.
    apply P3. apply WAKE_setpool; [|side]. apply P5. auto.
  - rewrite H in G. inversion G as [|g r' Hg Hr]; subst. simpl in Hg. destruct Hg.
    apply WAKE_setpool; [|side]. apply P5. auto.
  - apply P3. apply WAKE_setpool; [|side]. auto.
  - apply P3. apply WAKE_setpool; [|side]. auto.
Qed.

(* ---------------- accessors stable under the primitives *)
Definition phs (s : state) (i : nat) : option phase := option_map bph (blk s i).
Definition pars (s : state) (i : nat) : option nat := option_map bpar (blk s i).
Definition debs (s : state) (i : nat) : levels :=
  match blk s i with Some b => bdeb b | None => [] end.

Lemma phs_setph : forall s i p j,
  phs (setph i p s) j = if (j =? i)%nat then option_map (fun _ => p) (phs s j) else phs s j.
Proof.
  intros. unfold phs. rewrite blk_setph. destruct (j =? i)%nat; auto.
  destruct (blk s j); reflexivity.
Qed.
Lemma phs_setpool : forall s q v j, phs (setpool q v s) j = phs s j.
Proof.
  intros. unfold phs. rewrite blk_setpool. destruct (blk s j); simpl; auto.
  rewrite bph_mark. reflexivity.
Qed.
Lemma pars_setph : forall s i p j, pars (setph i p s) j = pars s j.
Proof.
  intros. unfold pars. rewrite blk_setph. destruct (j =? i)%nat; auto.
  destruct (blk s j); reflexivity.
Qed.
Lemma pars_setpool : forall s q v j, pars (setpool q v s) j = pars s j.
Proof.
  intros. unfold pars. rewrite blk_setpool. destruct (blk s j); simpl; auto.
  rewrite bpar_mark. reflexivity.
Qed.
Lemma debs_setph : forall s i p j, debs (setph i p s) j = debs s j.
Proof.
  intros. unfold debs. rewrite blk_setph. destruct (j =? i)%nat; auto.
  destruct (blk s j); reflexivity.
Qed.
Lemma debs_setpool : forall s q v j, debs (setpool q v s) j = debs s j.
Proof.
  intros. unfold debs. rewrite blk_setpool. destruct (blk s j); simpl; auto.
  rewrite bdeb_mark. reflexivity.
Qed.
Lemma phs_chins : forall s q d j, phs (chins q d s) j = phs s j. Proof. reflexivity. Qed.
Lemma phs_push : forall s g j, phs (push g s) j = phs s j. Proof. reflexivity. Qed.
Lemma phs_pop : forall s j, phs (pop s) j = phs s j. Proof. reflexivity. Qed.
Lemma pars_chins : forall s q d j, pars (chins q d s) j = pars s j. Proof. reflexivity. Qed.
Lemma pars_push : forall s g j, pars (push g s) j = pars s j. Proof. reflexivity. Qed.
Lemma pars_pop : forall s j, pars (pop s) j = pars s j. Proof. reflexivity. Qed.
Lemma debs_chins : forall s q d j, debs (chins q d s) j = debs s j. Proof. reflexivity. Qed.
Lemma debs_push : forall s g j, debs (push g s) j = debs s j. Proof. reflexivity. Qed.
Lemma debs_pop : forall s j, debs (pop s) j = debs s j. Proof. reflexivity. Qed.
Lemma gbq_setph : forall s i p, gbq (setph i p s) = gbq s. Proof. reflexivity. Qed.
Lemma gbq_setpool : forall s q v, gbq (setpool q v s) = gbq s. Proof. reflexivity. Qed.
Lemma gbq_chins : forall s q d, gbq (chins q d s) = gbq s. Proof. reflexivity. Qed.
Lemma gbq_push : forall s g, gbq (push g s) = gbq s ++ g. Proof. reflexivity. Qed.
Lemma gbq_pop : forall s, gbq (pop s) = tl (gbq s). Proof. reflexivity. Qed.
Lemma nkeys_setph : forall s i p, nkeys (setph i p s) = nkeys s. Proof. reflexivity. Qed.
Lemma nkeys_setpool : forall s q v, nkeys (setpool q v s) = nkeys s. Proof. reflexivity. Qed.
Lemma nkeys_chins : forall s q d, nkeys (chins q d s) = nkeys s. Proof. reflexivity. Qed.
Lemma nkeys_push : forall s g, nkeys (push g s) = nkeys s. Proof. reflexivity. Qed.
Lemma nkeys_pop : forall s, nkeys (pop s) = nkeys s. Proof. reflexivity. Qed.

#[local] Hint Rewrite phs_setph phs_setpool pars_setph pars_setpool debs_setph debs_setpool
  phs_chins phs_push phs_pop pars_chins pars_push pars_pop debs_chins debs_push debs_pop
  gbq_setph gbq_setpool gbq_chins gbq_push gbq_pop
  nkeys_setph nkeys_setpool nkeys_chins nkeys_push nkeys_pop : bp.

Lemma blk_acc : forall s i b, blk s i = Some b ->
  phs s i = Some (bph b) /\ pars s i = Some (bpar b) /\ debs s i = bdeb b.
Proof. intros. unfold phs, pars, debs. rewrite H. auto. Qed.

(* the new-block state *)
Definition newst (s : state) (q : nat) (d : levels) (cl : bool) : state :=
  mkS (nkeys s) (cap s) (pools s ++ [[]]) (ins s ++ [[]])
      (blocks s ++ [mkB q d cl Idle false]) (gbq s).

Lemma blk_newst : forall s q d cl j,
  blk (newst s q d cl) j =
  if (j <? length (blocks s))%nat then blk s j
  else if (j =? length (blocks s))%nat then Some (mkB q d cl Idle false) else None.
Proof. intros. unfold blk, newst. simpl. apply nth_error_snoc. Qed.

Lemma blk_none : forall s j, (length (blocks s) <= j)%nat -> blk s j = None.
Proof. intros. apply nth_error_None. auto. Qed.

Lemma phs_newst : forall s q d cl j,
  phs (newst s q d cl) j =
  if (j <? length (blocks s))%nat then phs s j
  else if (j =? length (blocks s))%nat then Some Idle else None.
Proof.
  intros. unfold phs. rewrite blk_newst. destruct (j <? _)%nat; auto. destruct (j =? _)%nat; auto.
Qed.
Lemma pars_newst : forall s q d cl j,
  pars (newst s q d cl) j =
  if (j <? length (blocks s))%nat then pars s j
  else if (j =? length (blocks s))%nat then Some q else None.
Proof.
  intros. unfold pars. rewrite blk_newst. destruct (j <? _)%nat; auto. destruct (j =? _)%nat; auto.
Qed.
Lemma debs_newst : forall s q d cl j,
  debs (newst s q d cl) j =
  if (j <? length (blocks s))%nat then debs s j
  else if (j =? length (blocks s))%nat then d else [].
Proof.
  intros. unfold debs. rewrite blk_newst. destruct (j <? _)%nat; auto. destruct (j =? _)%nat; auto.
Qed.
Lemma pars_lt : forall s j q, WF s -> pars s j = Some q -> (q <= j)%nat /\ (j < length (blocks s))%nat.
Proof.
  intros s j q (L1 & L2 & B & G) H. unfold pars in H. destruct (blk s j) as [c|] eqn:Hc; [|discriminate].
  simpl in H. inversion H; subst. destruct (B j c Hc) as (X & _). split; auto. eapply blk_lt; eauto.
Qed.

Definition early (p : phase) : bool :=
  match p with Idle | WaitAvail | Taking | Filling => true | _ => false end.

Definition EARLY (s : state) : Prop :=
  forall i p, phs s i = Some p -> early p = true ->
  (forall j, pars s j = Some (S i) -> phs s j = Some Idle) /\
  (forall q d, In (GbPar q d) (gbq s) -> q <> S i).

Lemma gsum_zero : forall q k gl, (forall q' d, In (GbPar q' d) gl -> q' <> q) -> gsum q k gl = 0.
Proof.
  induction gl; simpl; intros; auto. rewrite IHgl by (intros; eapply H; eauto).
  destruct a; simpl; auto. destruct (q0 =? q)%nat eqn:E; auto.
  apply Nat.eqb_eq in E. exfalso. eapply H; eauto.
Qed.

Lemma osum_zero : forall q k bl,
  (forall j c, nth_error bl j = Some c -> bpar c = q -> held (bph c) = false) -> osum q k bl = 0.
Proof.
  induction bl; simpl; intros; auto.
  rewrite IHbl by (intros j c Hc; apply (H (S j) c Hc)).
  unfold outb. destruct (bpar a =? q)%nat eqn:E; simpl; auto.
  apply Nat.eqb_eq in E. rewrite (H 0%nat a eq_refl E). reflexivity.
Qed.

Lemma early_out_zero : forall s i p k, EARLY s -> phs s i = Some p -> early p = true ->
  outstanding (S i) k s = 0.
Proof.
  intros s i p k E Hp He. destruct (E i p Hp He) as [E1 E2]. unfold outstanding.
  rewrite gsum_zero by auto. rewrite osum_zero; auto.
  intros j c Hc Hq. assert (X : phs s j = Some Idle).
  { apply E1. unfold pars, blk. rewrite Hc. simpl. congruence. }
  unfold phs, blk in X. rewrite Hc in X. simpl in X. inversion X. rewrite H0. reflexivity.
Qed.

Lemma owner_ok_S : forall s j, owner_ok s (S j) = true -> phs s j = Some Holding.
Proof.
  intros s j H. unfold owner_ok in H. unfold phs, blk. destruct (nth_error (blocks s) j); try discriminate.
  simpl. destruct (bph b); try discriminate. reflexivity.
Qed.

Lemma EARLY_frame : forall s s',
  (forall j, phs s' j = phs s j) -> (forall j, pars s' j = pars s j) ->
  (forall g, In g (gbq s') -> In g (gbq s)) -> EARLY s -> EARLY s'.
Proof.
  intros s s' Hp Hq Hg E i p Hi He. rewrite Hp in Hi. destruct (E i p Hi He) as [E1 E2]. split.
  - intros j Hj. rewrite Hq in Hj. rewrite Hp. auto.
  - intros q d Hin. apply Hg in Hin. eauto.
Qed.

Lemma EARLY_setph : forall s i p b, EARLY s -> blk s i = Some b -> (bpar b <= i)%nat ->
  (early p = true -> early (bph b) = true) ->
  (bph b <> Idle \/ owner_ok s (bpar b) = true) -> EARLY (setph i p s).
Proof.
  intros s i p b E Hb Hle Hearly Hown i0 p0 Hp0 He0.
  destruct (blk_acc _ _ _ Hb) as (A1 & A2 & A3).
  rewrite phs_setph in Hp0. destruct (i0 =? i)%nat eqn:E0.
  - apply Nat.eqb_eq in E0. subst i0. rewrite A1 in Hp0. simpl in Hp0. inversion Hp0; subst p0.
    destruct (E i (bph b) A1 (Hearly He0)) as [E1 E2]. split; auto.
    intros j Hj. rewrite pars_setph in Hj. rewrite phs_setph.
    destruct (j =? i)%nat eqn:Ej; auto. apply Nat.eqb_eq in Ej. subst j.
    rewrite A2 in Hj. inversion Hj. lia.
  - destruct (E i0 p0 Hp0 He0) as [E1 E2]. split; auto.
    intros j Hj. rewrite pars_setph in Hj. rewrite phs_setph.
    destruct (j =? i)%nat eqn:Ej; auto. apply Nat.eqb_eq in Ej. subst j.
    exfalso. pose proof (E1 i Hj) as X. rewrite A1 in X. inversion X as [X'].
    destruct Hown as [F | F]; [congruence|].
    rewrite A2 in Hj. inversion Hj as [Hq]. rewrite Hq in F. apply owner_ok_S in F.
    rewrite F in Hp0. inversion Hp0; subst p0. discriminate.
Qed.

Lemma EARLY_trans : forall s s', WF s -> EARLY s -> trans s s' -> EARLY s'.
Proof.
  intros s s' (L1 & L2 & B & G) E T.
  assert (FR : forall s0 s1, (forall j, phs s1 j = phs s0 j) -> (forall j, pars s1 j = pars s0 j) ->
            (forall g, In g (gbq s1) -> In g (gbq s0)) -> EARLY s0 -> EARLY s1) by apply EARLY_frame.
  destruct T; auto; unfold chpool;
    try (pose proof (blk_lt _ _ _ H) as Hi; destruct (B _ _ H) as (W1 & W2 & W3);
         destruct (blk_acc _ _ _ H) as (A1 & A2 & A3)).
  - (* new *)
    fold (newst s q d cl). intros i p Hp He. rewrite phs_newst in Hp.
    assert (WFs : WF s) by (unfold WF; auto).
    assert (GQ : forall q' d', In (GbPar q' d') (gbq s) -> (q' < length (pools s))%nat).
    { intros q' d' Hin. rewrite Forall_forall in G. apply G in Hin. simpl in Hin. tauto. }
    destruct (i <? length (blocks s))%nat eqn:Ei.
    + apply Nat.ltb_lt in Ei. destruct (E i p Hp He) as [E1 E2]. split; auto.
      intros j Hj. rewrite pars_newst in Hj. rewrite phs_newst.
      destruct (j <? length (blocks s))%nat; auto.
      destruct (j =? length (blocks s))%nat; auto; discriminate.
    + destruct (i =? length (blocks s))%nat eqn:Ei2; [|discriminate].
      apply Nat.eqb_eq in Ei2. subst i. split.
      * intros j Hj. rewrite pars_newst in Hj. destruct (j <? length (blocks s))%nat eqn:Ej.
        -- apply (pars_lt s j _ WFs) in Hj. lia.
        -- destruct (j =? length (blocks s))%nat; [|discriminate]. inversion Hj. lia.
      * intros q' d' Hin. apply GQ in Hin. simpl in Hin. lia.
  - (* phase move *)
    eapply EARLY_setph; eauto.
    + inversion H0; subst; simpl; intros; try discriminate;
        repeat match goal with H : _ \/ _ |- _ => destruct H | H : _ /\ _ |- _ => destruct H end;
        match goal with H : bph b = _ |- _ => rewrite H end; reflexivity.
    + inversion H0; subst;
        repeat match goal with H : _ \/ _ |- _ => destruct H | H : _ /\ _ |- _ => destruct H end;
        auto; left; congruence.
  - (* take *)
    eapply FR; [intros; apply phs_setpool | intros; apply pars_setpool | auto |].
    eapply EARLY_setph; eauto.
    + intros _. destruct H0 as [[P _] | [P _]]; rewrite P; reflexivity.
    + destruct H0 as [[P O] | [P _]]; auto. left. congruence.
  - (* fill *)
    eapply FR; [intros; rewrite phs_chins; apply phs_setpool
               | intros; rewrite pars_chins; apply pars_setpool | auto |].
    eapply EARLY_setph; eauto.
    + rewrite H0. reflexivity.
    + left. congruence.
  - (* empty *)
    eapply FR; [intros; rewrite phs_chins; apply phs_setpool
               | intros; rewrite pars_chins; apply pars_setpool | auto |].
    eapply EARLY_setph; eauto.
    + discriminate.
    + left. congruence.
  - (* return *)
    eapply FR; [intros; apply phs_setpool | intros; apply pars_setpool | auto |].
    eapply EARLY_setph; eauto.
    + discriminate.
    + left. congruence.
  - (* giveback *)
    assert (HP : held (bph b) = true).
    { destruct H0 as [[[P | P] _] | [[P _] | [P _]]]; rewrite P; reflexivity. }
    assert (E' : EARLY (setph i Gone s)).
    { eapply EARLY_setph; eauto. discriminate. left. intro F. rewrite F in HP. discriminate. }
    intros i0 p0 Hp0 He0. destruct (E' i0 p0 Hp0 He0) as [E1 E2]. split; auto.
    intros q d Hin. rewrite gbq_push in Hin. apply in_app_or in Hin. destruct Hin as [Hin | Hin]; eauto.
    simpl in Hin. destruct Hin as [F | [F | []]]; [discriminate|]. inversion F; subst q d.
    intro Hq. assert (X : phs (setph i Gone s) i = Some Idle).
    { apply E1. rewrite pars_setph, A2. congruence. }
    rewrite phs_setph, Nat.eqb_refl, A1 in X. discriminate.
  - (* gbown *)
    eapply (FR s); [intros; rewrite phs_chins, phs_setpool; reflexivity
               | intros; rewrite pars_chins, pars_setpool; reflexivity | | exact E].
    intros g Hin. simpl in Hin. rewrite H in Hin. simpl in Hin. rewrite H. right. auto.
  - (* gbpar *)
    eapply (FR s); [intros; rewrite phs_setpool; reflexivity
                   | intros; rewrite pars_setpool; reflexivity | | exact E].
    intros g Hin. simpl in Hin. rewrite H in Hin. simpl in Hin. rewrite H. right. auto.
  - eapply FR; [intros; rewrite phs_chins; apply phs_setpool
               | intros; rewrite pars_chins; apply pars_setpool | auto | exact E].
  - eapply FR; [intros; rewrite phs_chins; apply phs_setpool
               | intros; rewrite pars_chins; apply pars_setpool | auto | exact E].
Qed.

(* ---------------- what a block has put into its own share *)
Fixpoint ownsum (i k : nat) (gl : list gb) : Z :=
  match gl with
  | [] => 0
  | GbOwn i' h :: r => (if (i' =? i)%nat then get k h else 0) + ownsum i k r
  | GbPar _ _ :: r => ownsum i k r
  end.
Definition phpart (p : phase) (d : levels) (k : nat) : Z :=
  match p with Filling | Holding => get k d | _ => 0 end.
Definition own_nonneg (gl : list gb) : Prop :=
  forall i h, In (GbOwn i h) gl -> forall k, 0 <= get k h.
Definition GINS (s : state) : Prop :=
  own_nonneg (gbq s) /\
  forall i p, phs s i = Some p -> forall k,
    get k (insq (S i) s) = phpart p (debs s i) k + ownsum i k (gbq s) /\
    (p <> Gone -> ownsum i k (gbq s) = 0) /\
    ownsum i k (gbq s) <= get k (debs s i).

Lemma ownsum_app : forall i k a b, ownsum i k (a ++ b) = ownsum i k a + ownsum i k b.
Proof. induction a; simpl; intros; auto. destruct a; rewrite IHa; lia. Qed.

Lemma ownsum_nonneg : forall i k gl, own_nonneg gl -> 0 <= ownsum i k gl.
Proof.
  induction gl; simpl; intros; [lia|].
  assert (own_nonneg gl) by (intros i' h Hin; apply (H i' h); right; auto).
  destruct a; auto. specialize (IHgl H0).
  destruct (i0 =? i)%nat; [|lia]. specialize (H i0 h (or_introl eq_refl) k). lia.
Qed.

Lemma ownsum_none : forall i k gl, (forall i' h, In (GbOwn i' h) gl -> i' <> i) -> ownsum i k gl = 0.
Proof.
  induction gl; simpl; intros; auto.
  rewrite IHgl by (intros; eapply H; eauto). destruct a; auto.
  destruct (i0 =? i)%nat eqn:E; auto. apply Nat.eqb_eq in E. exfalso. eapply H; eauto.
Qed.

Lemma GINS_frame : forall s s',
  (forall j, phs s' j = phs s j) -> (forall j, debs s' j = debs s j) ->
  (forall q, insq q s' = insq q s) -> gbq s' = gbq s -> GINS s -> GINS s'.
Proof.
  intros s s' Hp Hd Hi Hg [N I]. split; [rewrite Hg; auto|].
  intros i p Hph k. rewrite Hp in Hph. rewrite Hd, Hi, Hg. auto.
Qed.

Lemma GINS_setph : forall s i p b, GINS s -> blk s i = Some b ->
  (forall d k, phpart p d k = phpart (bph b) d k) -> (p <> Gone -> bph b <> Gone) ->
  GINS (setph i p s).
Proof.
  intros s i p b [N I] Hb Hpp Hg. destruct (blk_acc _ _ _ Hb) as (A1 & A2 & A3).
  split; auto. intros j pj Hph k. rewrite phs_setph in Hph. rewrite debs_setph.
  change (insq (S j) (setph i p s)) with (insq (S j) s). change (gbq (setph i p s)) with (gbq s).
  destruct (j =? i)%nat eqn:E.
  - apply Nat.eqb_eq in E. subst j. rewrite A1 in Hph. simpl in Hph. inversion Hph; subst pj.
    destruct (I i (bph b) A1 k) as (I1 & I2 & I3). rewrite Hpp. auto.
  - auto.
Qed.

Lemma GINS_trans : forall s s', WF s -> CONS s -> EARLY s -> GINS s -> trans s s' -> GINS s'.
Proof.
  intros s s' (L1 & L2 & B & G) C E GI T.
  destruct T; auto; unfold chpool;
    try (pose proof (blk_lt _ _ _ H) as Hi; destruct (B _ _ H) as (W1 & W2 & W3);
         destruct (blk_acc _ _ _ H) as (A1 & A2 & A3)).
  - (* new *)
    fold (newst s q d cl). destruct GI as [N I]. split; auto.
    intros i p Hph k. rewrite phs_newst in Hph. rewrite debs_newst.
    change (gbq (newst s q d cl)) with (gbq s).
    assert (IQ : insq (S i) (newst s q d cl) = if (S i <? length (ins s))%nat then insq (S i) s else []).
    { unfold insq, newst. simpl. destruct (S i <? length (ins s))%nat eqn:X.
      - apply Nat.ltb_lt in X. apply app_nth1. auto.
      - apply Nat.ltb_ge in X. destruct (Nat.eq_dec (S i) (length (ins s))).
        + rewrite app_nth2 by lia. rewrite e, Nat.sub_diag. reflexivity.
        + apply nth_overflow. rewrite app_length. simpl. lia. }
    rewrite IQ. destruct (i <? length (blocks s))%nat eqn:Ei.
    + apply Nat.ltb_lt in Ei. assert (X : (S i <? length (ins s))%nat = true) by (apply Nat.ltb_lt; lia).
      rewrite X. auto.
    + destruct (i =? length (blocks s))%nat eqn:Ei2; [|discriminate].
      apply Nat.eqb_eq in Ei2. inversion Hph; subst p.
      assert (X : (S i <? length (ins s))%nat = false) by (apply Nat.ltb_ge; lia).
      rewrite X, get_nil. simpl.
      assert (Z0 : ownsum i k (gbq s) = 0).
      { apply ownsum_none. intros i' h Hin. rewrite Forall_forall in G. apply G in Hin. simpl in Hin. lia. }
      rewrite Z0. repeat split; auto.
      destruct (Nat.lt_ge_cases k (nkeys s)).
      * rewrite lle_spec in H1. specialize (H1 k H3). rewrite get_nil in H1. auto.
      * rewrite get_beyond by lia. lia.
  - (* phase move *)
    eapply GINS_setph; eauto.
    + intros d k. inversion H0; subst;
        repeat match goal with H : _ \/ _ |- _ => destruct H | H : _ /\ _ |- _ => destruct H end;
        match goal with H : bph b = _ |- _ => rewrite H end; reflexivity.
    + intros _. inversion H0; subst;
        repeat match goal with H : _ \/ _ |- _ => destruct H | H : _ /\ _ |- _ => destruct H end;
        congruence.
  - (* take *)
    eapply (GINS_frame (setph i Taking s)); try (intros; autorewrite with bp; reflexivity).
    eapply GINS_setph; eauto.
    + intros d k. destruct H0 as [[P _] | [P _]]; rewrite P; reflexivity.
    + intros _. destruct H0 as [[P _] | [P _]]; congruence.
  - (* fill *)
    destruct GI as [N I]. split; auto.
    intros j pj Hph k. autorewrite with bp in *. rewrite insq_chins by side. autorewrite with bp.
    destruct (j =? i)%nat eqn:Ej.
    + apply Nat.eqb_eq in Ej. subst j. rewrite A1 in Hph. simpl in Hph. inversion Hph; subst pj.
      destruct (I i (bph b) A1 k) as (I1 & I2 & I3). rewrite H0 in *. simpl in *.
      rewrite Nat.eqb_refl, get_ladd, A3. rewrite I2 in * by discriminate. repeat split; auto; lia.
    + assert (X : (S j =? S i)%nat = false) by (simpl; auto). rewrite X. auto.
  - (* empty *)
    destruct GI as [N I]. split; auto.
    intros j pj Hph k. autorewrite with bp in *. rewrite insq_chins by side. autorewrite with bp.
    destruct (j =? i)%nat eqn:Ej.
    + apply Nat.eqb_eq in Ej. subst j. rewrite A1 in Hph. simpl in Hph. inversion Hph; subst pj.
      destruct (I i (bph b) A1 k) as (I1 & I2 & I3). rewrite H0 in *. simpl in *.
      rewrite Nat.eqb_refl, get_ladd, get_lneg, A3 in *. rewrite I2 in * by discriminate.
      repeat split; auto; lia.
    + assert (X : (S j =? S i)%nat = false) by (simpl; auto). rewrite X. auto.
  - (* return *)
    eapply (GINS_frame (setph i Returning s)); try (intros; autorewrite with bp; reflexivity).
    eapply GINS_setph; eauto.
    + intros d k. rewrite H0. reflexivity.
    + congruence.
  - (* giveback *)
    destruct GI as [N I].
    assert (HH : forall k, get k h = get k (insq (S i) s) /\ 0 <= get k h /\ get k h <= get k (bdeb b)).
    { intros k. destruct (I i (bph b) A1 k) as (I1 & I2 & I3). rewrite A3 in *.
      destruct H0 as [[P Hh] | [[P Hh] | [P Hh]]]; subst h.
      - assert (Ee : early (bph b) = true) by (destruct P as [P | P]; rewrite P; reflexivity).
        pose proof (early_out_zero s i (bph b) k E A1 Ee) as Z0.
        pose proof (C (S i) k) as Cq. rewrite Z0 in Cq.
        rewrite I2 in I1 by (destruct P as [P | P]; congruence).
        destruct P as [P | P]; rewrite P in I1; simpl in I1; specialize (W3 k); lia.
      - rewrite I2 in I1 by congruence. rewrite P in I1. simpl in I1. specialize (W3 k). lia.
      - rewrite I2 in I1 by congruence. rewrite P in I1. simpl in I1. rewrite get_nil.
        specialize (W3 k). lia. }
    split.
    + intros i' h' Hin k. rewrite gbq_push, gbq_setph in Hin. apply in_app_or in Hin.
      destruct Hin as [Hin | [Hin | [Hin | []]]]; [eapply N; eauto | | discriminate].
      inversion Hin; subst. apply HH.
    + intros j pj Hph k. autorewrite with bp in *. rewrite ownsum_app. simpl.
      destruct (j =? i)%nat eqn:Ej.
      * apply Nat.eqb_eq in Ej. subst j. rewrite A1 in Hph. simpl in Hph. inversion Hph; subst pj.
        destruct (I i (bph b) A1 k) as (I1 & I2 & I3). destruct (HH k) as (H1 & H2 & H3).
        assert (NG : bph b <> Gone).
        { destruct H0 as [[[P | P] _] | [[P _] | [P _]]]; congruence. }
        rewrite I2 by auto. rewrite Nat.eqb_refl, A3. simpl. repeat split; try lia. congruence.
      * rewrite Nat.eqb_sym, Ej. destruct (I j pj Hph k) as (I1 & I2 & I3).
        repeat split; auto; try lia. intros. rewrite I2 by auto. lia.
  - (* gbown *)
    destruct GI as [N I]. rewrite H in *. inversion G as [|g r' Hg Hr]; subst. simpl in Hg.
    assert (N' : own_nonneg r) by (intros i' h' Hin; apply (N i' h'); right; auto).
    split; [autorewrite with bp; rewrite H; auto|].
    intros j pj Hph k. autorewrite with bp in *. rewrite insq_chins by side. autorewrite with bp.
    rewrite H. simpl. destruct (I j pj Hph k) as (I1 & I2 & I3). simpl in *.
    pose proof (N i h (or_introl eq_refl) k) as Hh. pose proof (ownsum_nonneg j k r N') as Hr0.
    destruct (i =? j)%nat eqn:Ej.
    + apply Nat.eqb_eq in Ej. subst j. rewrite Nat.eqb_refl, get_ladd, get_lneg.
      repeat split; try lia. intros X. specialize (I2 X). lia.
    + rewrite Nat.eqb_sym, Ej.
      repeat split; auto; lia.
  - (* gbpar *)
    destruct GI as [N I]. rewrite H in *.
    assert (N' : own_nonneg r) by (intros i' h' Hin; apply (N i' h'); right; auto).
    split; [autorewrite with bp; rewrite H; auto|].
    intros j pj Hph k. autorewrite with bp in *. rewrite H. simpl.
    destruct (I j pj Hph k) as (I1 & I2 & I3). simpl in *. auto.
  - (* adj *)
    destruct GI as [N I]. split; auto.
    intros j pj Hph k. autorewrite with bp in *. rewrite insq_chins by side. autorewrite with bp.
    simpl. auto.
  - (* set *)
    destruct GI as [N I]. split; auto.
    intros j pj Hph k. autorewrite with bp in *. rewrite insq_chins by side. autorewrite with bp.
    simpl. auto.
Qed.

(* ---------------- nested borrowing never exceeds the share *)
Definition NS (s : state) : Prop :=
  forall i p, phs s i = Some p -> forall k, outstanding (S i) k s <= get k (debs s i).

Lemma ins_le_deb : forall s i p k, GINS s -> phs s i = Some p ->
  get k (insq (S i) s) <= get k (debs s i).
Proof.
  intros s i p k [N I] Hp. destruct (I i p Hp k) as (I1 & I2 & I3).
  destruct p; simpl in I1; try lia; rewrite I2 in I1 by discriminate; lia.
Qed.

Lemma out_beyond : forall s q k, WF s -> (length (pools s) <= q)%nat -> outstanding q k s = 0.
Proof.
  intros s q k (L1 & L2 & B & G) Hq. unfold outstanding.
  rewrite osum_zero, gsum_zero; auto.
  - intros q' d Hin. rewrite Forall_forall in G. apply G in Hin. simpl in Hin. lia.
  - intros j c Hc Hp. destruct (B j c Hc) as (X & _). pose proof (blk_lt s j c Hc). lia.
Qed.

Lemma deb_nonneg : forall s i p k, WF s -> phs s i = Some p -> 0 <= get k (debs s i).
Proof.
  intros s i p k (L1 & L2 & B & G) Hp. unfold phs, debs in *.
  destruct (blk s i) as [b|] eqn:Hb; [|discriminate]. destruct (B i b Hb) as (_ & _ & X). auto.
Qed.

Lemma NS_trans : forall s s', WF s -> CONS s -> GINS s -> NS s -> trans s s' -> NS s'.
Proof.
  intros s s' WFs C GI N T. pose proof WFs as (L1 & L2 & B & G).
  destruct T; auto; unfold chpool;
    try (pose proof (blk_lt _ _ _ H) as Hi; destruct (B _ _ H) as (W1 & W2 & W3);
         destruct (blk_acc _ _ _ H) as (A1 & A2 & A3)).
  - (* new *)
    fold (newst s q d cl). intros i p Hph k. rewrite phs_newst in Hph. rewrite debs_newst.
    assert (O : outstanding (S i) k (newst s q d cl) = outstanding (S i) k s).
    { unfold outstanding, newst. simpl. rewrite osum_app. simpl. unfold outb. simpl.
      rewrite andb_false_r. lia. }
    rewrite O. destruct (i <? length (blocks s))%nat eqn:Ei; [eapply N; eauto|].
    destruct (i =? length (blocks s))%nat eqn:Ei2; [|discriminate]. apply Nat.eqb_eq in Ei2.
    rewrite out_beyond by (auto; lia).
    destruct (Nat.lt_ge_cases k (nkeys s)).
    + rewrite lle_spec in H1. specialize (H1 k H3). rewrite get_nil in H1. auto.
    + rewrite get_beyond by lia. lia.
  - (* phase move: held-ness of the moving block is unchanged *)
    intros j pj Hph k. autorewrite with bp in *.
    rewrite (out_setph s i p b (S j) k H), held_outb_set. unfold outb.
    assert (HH : held p = held (bph b)).
    { inversion H0; subst;
        repeat match goal with H : _ \/ _ |- _ => destruct H | H : _ /\ _ |- _ => destruct H end;
        match goal with H : bph b = _ |- _ => rewrite H end; reflexivity. }
    rewrite HH.
    assert (exists pj', phs s j = Some pj') as [pj' Hpj'].
    { destruct (j =? i)%nat; eauto. destruct (phs s j); simpl in Hph; [eauto|discriminate]. }
    specialize (N j pj' Hpj' k). lia.
  - (* take *)
    intros j pj Hph k. autorewrite with bp in *.
    rewrite (out_setph s i Taking b (S j) k H), held_outb_set. unfold outb.
    assert (HP : held (bph b) = false) by (destruct H0 as [[P _] | [P _]]; rewrite P; reflexivity).
    rewrite HP, andb_false_r. simpl. rewrite andb_true_r.
    assert (exists pj', phs s j = Some pj') as [pj' Hpj'].
    { destruct (j =? i)%nat; eauto. destruct (phs s j); simpl in Hph; [eauto|discriminate]. }
    pose proof (N j pj' Hpj' k) as Nj.
    destruct (bpar b =? S j)%nat eqn:Eq; [|lia]. apply Nat.eqb_eq in Eq.
    pose proof (ins_le_deb s j pj' k GI Hpj') as IL. pose proof (C (S j) k) as Cq.
    destruct (Nat.lt_ge_cases k (nkeys s)).
    + rewrite lge_spec in H1. specialize (H1 k H2). rewrite Eq in H1. lia.
    + rewrite (get_beyond (bdeb b)) by lia. lia.
  - (* fill *)
    intros j pj Hph k. autorewrite with bp in *.
    rewrite (out_setph s i Filling b (S j) k H), held_outb_set. unfold outb. rewrite H0. simpl.
    assert (exists pj', phs s j = Some pj') as [pj' Hpj'].
    { destruct (j =? i)%nat; eauto. destruct (phs s j); simpl in Hph; [eauto|discriminate]. }
    specialize (N j pj' Hpj' k). lia.
  - (* empty *)
    intros j pj Hph k. autorewrite with bp in *.
    rewrite (out_setph s i Emptying b (S j) k H), held_outb_set. unfold outb. rewrite H0. simpl.
    assert (exists pj', phs s j = Some pj') as [pj' Hpj'].
    { destruct (j =? i)%nat; eauto. destruct (phs s j); simpl in Hph; [eauto|discriminate]. }
    specialize (N j pj' Hpj' k). lia.
  - (* return *)
    intros j pj Hph k. autorewrite with bp in *.
    rewrite (out_setph s i Returning b (S j) k H), held_outb_set. unfold outb. rewrite H0. simpl.
    rewrite andb_false_r, andb_true_r.
    assert (exists pj', phs s j = Some pj') as [pj' Hpj'].
    { destruct (j =? i)%nat; eauto. destruct (phs s j); simpl in Hph; [eauto|discriminate]. }
    specialize (N j pj' Hpj' k). specialize (W3 k). destruct (bpar b =? S j)%nat; lia.
  - (* giveback *)
    intros j pj Hph k. autorewrite with bp in *.
    rewrite (out_setph s i Gone b (S j) k H), held_outb_set. unfold outb. simpl.
    assert (HP : held (bph b) = true).
    { destruct H0 as [[[P | P] _] | [[P _] | [P _]]]; rewrite P; reflexivity. }
    rewrite HP, andb_false_r, andb_true_r.
    assert (exists pj', phs s j = Some pj') as [pj' Hpj'].
    { destruct (j =? i)%nat; eauto. destruct (phs s j); simpl in Hph; [eauto|discriminate]. }
    specialize (N j pj' Hpj' k). destruct (bpar b =? S j)%nat; lia.
  - (* gbown *)
    intros j pj Hph k. autorewrite with bp in *. rewrite (out_pop s _ _ (S j) k H). simpl.
    specialize (N j pj Hph k). lia.
  - (* gbpar *)
    rewrite H in G. inversion G as [|g r' Hg Hr]; subst. simpl in Hg. destruct Hg as [Hq Hd].
    intros j pj Hph k. autorewrite with bp in *. rewrite (out_pop s _ _ (S j) k H). simpl.
    specialize (N j pj Hph k). specialize (Hd k). destruct (q =? S j)%nat; lia.
  - intros j pj Hph k. autorewrite with bp in *. eapply N; eauto.
  - intros j pj Hph k. autorewrite with bp in *. eapply N; eauto.
Qed.

(* ---------------- each nested request is within the owner's share (assertion in borrow()) *)
Definition LIM (s : state) : Prop :=
  forall j i, pars s j = Some (S i) -> lge (nkeys s) (debs s i) (debs s j) = true.

Lemma trans_frame : forall s s', trans s s' ->
  (exists q d cl, s' = newst s q d cl /\ (q < length (pools s))%nat /\ limit_ok s q d = true) \/
  ((forall j, pars s' j = pars s j) /\ (forall j, debs s' j = debs s j) /\ nkeys s' = nkeys s /\
   cap s' = cap s).
Proof.
  intros s s' T. destruct T; unfold chpool;
    try (right; repeat split; intros; autorewrite with bp; reflexivity).
  left. exists q, d, cl. auto.
Qed.

Lemma LIM_trans : forall s s', WF s -> LIM s -> trans s s' -> LIM s'.
Proof.
  intros s s' WFs L T. destruct (trans_frame s s' T) as [(q & d & cl & -> & Hq & Hl) | (F1 & F2 & F3 & _)].
  - intros j i Hp. rewrite pars_newst in Hp. rewrite !debs_newst.
    change (nkeys (newst s q d cl)) with (nkeys s).
    destruct (j <? length (blocks s))%nat eqn:Ej.
    + pose proof (pars_lt s j _ WFs Hp) as [X1 X2].
      assert (Y : (i <? length (blocks s))%nat = true) by (apply Nat.ltb_lt; lia). rewrite Y. auto.
    + destruct (j =? length (blocks s))%nat eqn:Ej2; [|discriminate]. inversion Hp; subst q.
      destruct WFs as (L1 & _). assert (Y : (i <? length (blocks s))%nat = true) by (apply Nat.ltb_lt; lia).
      rewrite Y. simpl in Hl. unfold debs, blk. destruct (nth_error (blocks s) i); [auto|discriminate].
  - intros j i Hp. rewrite F1 in Hp. rewrite F3, !F2. auto.
Qed.

(* ---------------- the invariant *)
Definition INV (s : state) : Prop :=
  WF s /\ CONS s /\ NN0 s /\ CLM s /\ WAKE s /\ EARLY s /\ GINS s /\ NS s /\ LIM s.

Lemma INV_init : forall n c lv, (forall k, 0 <= get k lv) -> INV (init n c lv).
Proof.
  intros n c lv Hlv. unfold INV, init.
  assert (NB : forall j, blk (mkS n c [lv] [lv] [] []) j = None) by (intros j; destruct j; reflexivity).
  assert (NP : forall j, phs (mkS n c [lv] [lv] [] []) j = None) by (intros; unfold phs; rewrite NB; auto).
  assert (NQ : forall j, pars (mkS n c [lv] [lv] [] []) j = None) by (intros; unfold pars; rewrite NB; auto).
  split; [|split; [|split; [|split; [|split; [|split; [|split; [|split]]]]]]].
  - unfold WF. simpl. split; auto. split; auto. split; [|constructor].
    intros i b Hb. rewrite NB in Hb. discriminate.
  - intros q k. unfold pool, insq, outstanding. simpl. lia.
  - exact Hlv.
  - intros i b Hb. rewrite NB in Hb. discriminate.
  - intros i b Hb. rewrite NB in Hb. discriminate.
  - intros i p Hp. rewrite NP in Hp. discriminate.
  - split; [intros i h []|]. intros i p Hp. rewrite NP in Hp. discriminate.
  - intros i p Hp. rewrite NP in Hp. discriminate.
  - intros j i Hp. rewrite NQ in Hp. discriminate.
Qed.

Lemma INV_trans : forall s s', INV s -> trans s s' -> INV s'.
Proof.
  intros s s' (W & C & N & CL & WK & E & GI & NSs & L) T. unfold INV.
  split; [eapply WF_trans; eauto|]. split; [eapply CONS_trans; eauto|].
  split; [eapply NN0_trans; eauto|]. split; [eapply CLM_trans; eauto|].
  split; [eapply WAKE_trans; eauto|]. split; [eapply EARLY_trans; eauto|].
  split; [eapply GINS_trans; eauto|]. split; [eapply NS_trans; eauto|]. eapply LIM_trans; eauto.
Qed.

Lemma INV_step : forall s o, INV s -> INV (fst (step s o)).
Proof.
  intros s o I. eapply INV_trans; eauto. apply step_trans. destruct I as (_ & _ & N & _). exact N.
Qed.

Lemma INV_run : forall tr s, INV s -> INV (run s tr).
Proof. induction tr; simpl; intros; auto. apply IHtr. apply INV_step. auto. Qed.

Definition valid_init (lv : levels) : Prop := forall k, 0 <= get k lv.

Lemma INV_reachable : forall n c lv s, valid_init lv -> reachable_from (init n c lv) s -> INV s.
Proof. intros n c lv s V [tr ->]. apply INV_run. apply INV_init. auto. Qed.

(* ======================= C12 theorems ======================= *)
Section Reach.
Variables (n : nat) (c : option levels) (lv : levels).
Hypothesis V : valid_init lv.
Let R (s : state) := reachable_from (init n c lv) s.

(* the supply never drops below zero *)
Theorem never_negative_thm : forall s, R s -> forall k, 0 <= get k (pool 0 s).
Proof. intros s H. destruct (INV_reachable n c lv s V H) as (_ & _ & N & _). exact N. Qed.

(* conservation, for every pool (the supply and every borrowed share):
   available = put in - (amounts of blocks in Taking..Emptying + scheduled give-backs) *)
Theorem conservation_thm : forall s, R s -> forall q k,
  get k (pool q s) = get k (insq q s) - outstanding q k s.
Proof. intros s H. destruct (INV_reachable n c lv s V H) as (_ & C & _). exact C. Qed.

(* at quiescence (no block between take and return, no give-back scheduled) the supply is
   exactly what was put in: nothing leaked, whatever the exit routes were *)
Theorem quiescence_thm : forall s, R s -> quiescent s -> forall k,
  get k (pool 0 s) = get k (insq 0 s).
Proof.
  intros s H [Q1 Q2] k. rewrite (conservation_thm s H 0%nat k). unfold outstanding.
  rewrite Q2. simpl. rewrite osum_zero; [lia|].
  intros j b Hb _. apply Q1. eapply nth_error_In; eauto.
Qed.

(* a claim never waits *)
Theorem claim_never_waits_thm : forall s, R s -> forall i b,
  blk s i = Some b -> bclaim b = true -> bph b <> WaitAvail.
Proof. intros s H. destruct (INV_reachable n c lv s V H) as (_ & _ & _ & C & _). exact C. Qed.

(* no missed wake-up: a borrower sleeping un-woken cannot be served *)
Theorem no_missed_wakeup_thm : forall s, R s -> forall i b,
  blk s i = Some b -> bph b = WaitAvail -> bwok b = false ->
  lge (nkeys s) (pool (bpar b) s) (bdeb b) = false.
Proof. intros s H. destruct (INV_reachable n c lv s V H) as (_ & _ & _ & _ & W & _). exact W. Qed.

(* nested borrowing never exceeds the share: everything taken out of the share of block i
   and not yet given back is at most what block i borrowed *)
Theorem nested_le_share_thm : forall s, R s -> forall i b,
  blk s i = Some b -> forall k, outstanding (S i) k s <= get k (bdeb b).
Proof.
  intros s H i b Hb k. destruct (INV_reachable n c lv s V H) as (_ & _ & _ & _ & _ & _ & _ & N & _).
  destruct (blk_acc _ _ _ Hb) as (A1 & _ & A3). rewrite <- A3. eapply N; eauto.
Qed.

(* ... and a single nested request is within the share *)
Theorem nested_request_le_share_thm : forall s, R s -> forall j cb i b,
  blk s j = Some cb -> bpar cb = S i -> blk s i = Some b ->
  forall k, (k < nkeys s)%nat -> get k (bdeb cb) <= get k (bdeb b).
Proof.
  intros s H j cb i b Hc Hp Hb k Hk.
  destruct (INV_reachable n c lv s V H) as (_ & _ & _ & _ & _ & _ & _ & _ & L).
  destruct (blk_acc _ _ _ Hb) as (_ & _ & A3). destruct (blk_acc _ _ _ Hc) as (_ & B2 & B3).
  assert (X : pars s j = Some (S i)) by congruence.
  specialize (L j i X). rewrite A3, B3 in L. rewrite lge_spec in L. auto.
Qed.

Lemma out_nonneg : forall s q k, WF s -> 0 <= outstanding q k s.
Proof.
  intros s q k (L1 & L2 & B & G). unfold outstanding.
  assert (A : 0 <= osum q k (blocks s)).
  { assert (X : forall bl, (forall b, In b bl -> forall k, 0 <= get k (bdeb b)) -> 0 <= osum q k bl).
    { induction bl; simpl; intros; [lia|]. unfold outb.
      specialize (IHbl (fun b Hin => H b (or_intror Hin))). specialize (H a (or_introl eq_refl) k).
      destruct (_ && _); lia. }
    apply X. intros b Hin. apply In_nth_error in Hin. destruct Hin as [j Hj].
    destruct (B j b Hj) as (_ & _ & W). auto. }
  assert (Bq : 0 <= gsum q k (gbq s)).
  { clear A. induction (gbq s); simpl; [lia|]. inversion G; subst. specialize (IHl H2).
    destruct a; simpl in *; [lia|]. destruct H1 as [_ Hd]. specialize (Hd k). destruct (q0 =? q)%nat; lia. }
  lia.
Qed.

(* while the owner can use its share (Filling, Holding) the share is within [0, debits] *)
Theorem share_bounds_while_held_thm : forall s, R s -> forall i b,
  blk s i = Some b -> bph b = Filling \/ bph b = Holding ->
  forall k, 0 <= get k (pool (S i) s) <= get k (bdeb b).
Proof.
  intros s H i b Hb Hp k.
  destruct (INV_reachable n c lv s V H) as (W & C & _ & _ & _ & _ & [_ GI] & N & _).
  destruct (blk_acc _ _ _ Hb) as (A1 & _ & A3).
  specialize (C (S i) k). specialize (N i _ A1 k). destruct (GI i _ A1 k) as (I1 & I2 & _).
  pose proof (out_nonneg s (S i) k W). rewrite A3 in *.
  rewrite I2 in I1 by (destruct Hp as [P | P]; congruence).
  destruct Hp as [P | P]; rewrite P in I1; simpl in I1; lia.
Qed.

(* the interval of the property: for the supply (pool 0)
   supply - (all blocks between enter and exit + scheduled give-backs) <= available
                                                   <= supply - (blocks holding) *)
Definition active (p : phase) : bool :=
  match p with Idle | Gone => false | _ => true end.

Lemma psum_le : forall (f g : phase -> bool) q k bl,
  (forall p, f p = true -> g p = true) -> (forall b, In b bl -> forall k, 0 <= get k (bdeb b)) ->
  psum f q k bl <= psum g q k bl.
Proof.
  induction bl; simpl; intros; [lia|].
  specialize (IHbl H (fun b Hin => H0 b (or_intror Hin))). specialize (H0 a (or_introl eq_refl) k).
  destruct (bpar a =? q)%nat; simpl; try lia.
  destruct (f (bph a)) eqn:F; [rewrite (H _ F); lia|]. destruct (g (bph a)); lia.
Qed.

Lemma osum_psum : forall q k bl, osum q k bl = psum held q k bl.
Proof. induction bl; simpl; auto. unfold outb. rewrite IHbl. reflexivity. Qed.

Theorem interval_thm : forall s, R s -> forall k,
  get k (insq 0 s) - (psum active 0 k (blocks s) + gsum 0 k (gbq s)) <= get k (pool 0 s) /\
  get k (pool 0 s) <= get k (insq 0 s) - psum is_holding 0 k (blocks s).
Proof.
  intros s H k. destruct (INV_reachable n c lv s V H) as (W & C & _).
  specialize (C 0%nat k). unfold outstanding in C. rewrite osum_psum in C.
  pose proof W as (L1 & L2 & B & G).
  assert (D : forall b, In b (blocks s) -> forall k, 0 <= get k (bdeb b)).
  { intros b Hin. apply In_nth_error in Hin. destruct Hin as [j Hj]. destruct (B j b Hj) as (_ & _ & X). auto. }
  assert (A1 : psum held 0 k (blocks s) <= psum active 0 k (blocks s))
    by (apply psum_le; auto; destruct p; simpl; auto; discriminate).
  assert (A2 : psum is_holding 0 k (blocks s) <= psum held 0 k (blocks s))
    by (apply psum_le; auto; destruct p; simpl; auto; discriminate).
  assert (A3 : 0 <= gsum 0 k (gbq s)).
  { clear - G. induction (gbq s); simpl; [lia|]. inversion G; subst. specialize (IHl H2).
    destruct a; simpl in *; [lia|]. destruct H1 as [_ Hd]. specialize (Hd k). destruct (q =? 0)%nat; lia. }
  lia.
Qed.

End Reach.

(* the supply of a Capacities never changes *)
Theorem capacities_supply_const_thm : forall n lv s, valid_init lv ->
  reachable_from (init n (Some lv) lv) s -> cap s = Some lv /\ insq 0 s = lv.
Proof.
  intros n lv s V [tr ->].
  assert (G : forall tr s0, INV s0 -> cap s0 = Some lv /\ insq 0 s0 = lv ->
              cap (run s0 tr) = Some lv /\ insq 0 (run s0 tr) = lv).
  { clear. induction tr; simpl; intros s0 I [C0 I0]; auto. apply IHtr; [apply INV_step; auto|].
    assert (T : trans s0 (fst (step s0 a))) by (apply step_trans; destruct I as (_ & _ & N & _); exact N).
    destruct I as ((L1 & L2 & B & G) & _).
    destruct T; auto; unfold chpool;
      try (pose proof (blk_lt _ _ _ H) as Hi);
      try (rewrite H in G; inversion G as [|g r' Hg Hr]; subst; simpl in Hg);
      try (split; [exact C0|]; autorewrite with bp; try rewrite insq_chins by side; autorewrite with bp;
           simpl; auto; fail); try congruence.
    split; auto. unfold insq in *. simpl. rewrite app_nth1 by lia. auto. }
  apply G; [apply INV_init; auto | auto].
Qed.

(* borrow is atomic: a block passes from "has nothing" to "has its amount" in ONE section, which
   ends in Taking, happens only in a state where the whole amount is available in the parent
   pool, and removes exactly the whole amount from it *)
Theorem borrow_atomic_thm : forall s o i p p', INV s ->
  phs s i = Some p -> held p = false -> phs (fst (step s o)) i = Some p' -> held p' = true ->
  p' = Taking /\ exists q, pars s i = Some q /\
  lge (nkeys s) (pool q s) (debs s i) = true /\
  forall k, get k (pool q (fst (step s o))) = get k (pool q s) - get k (debs s i).
Proof.
  intros s o i p p' I Hp Hh Hp' Hh'.
  assert (T : trans s (fst (step s o))) by (apply step_trans; destruct I as (_ & _ & N & _); exact N).
  destruct I as ((L1 & L2 & B & G) & _).
  remember (fst (step s o)) as s'. clear Heqs'.
  destruct T; unfold chpool in *; autorewrite with bp in *;
    try (pose proof (blk_lt _ _ _ H) as Hi; destruct (B _ _ H) as (W1 & W2 & W3);
         destruct (blk_acc _ _ _ H) as (A1 & A2 & A3)).
  - congruence.
  - fold (newst s q d cl) in Hp'. rewrite phs_newst in Hp'.
    destruct (i <? length (blocks s))%nat; [congruence|].
    destruct (i =? length (blocks s))%nat; inversion Hp'; subst; discriminate.
  - destruct (i =? i0)%nat eqn:E; [|congruence]. apply Nat.eqb_eq in E. subst i0.
    rewrite A1 in Hp, Hp'. simpl in Hp'. inversion Hp; inversion Hp'; subst.
    exfalso. inversion H0; subst; simpl in Hh'; try discriminate.
    rewrite H1 in Hh. discriminate.
  - destruct (i =? i0)%nat eqn:E; [|congruence]. apply Nat.eqb_eq in E. subst i0.
    rewrite A1 in Hp'. simpl in Hp'. inversion Hp'; subst. split; auto.
    exists (bpar b). split; auto. rewrite A3. split; auto.
    intros k. rewrite pool_setpool by side. autorewrite with bp. rewrite Nat.eqb_refl, get_ladd, get_lneg. lia.
  - destruct (i =? i0)%nat eqn:E; [|congruence]. apply Nat.eqb_eq in E. subst i0.
    rewrite A1 in Hp. inversion Hp; subst. rewrite H0 in Hh. discriminate.
  - destruct (i =? i0)%nat eqn:E; [|congruence]. apply Nat.eqb_eq in E. subst i0.
    rewrite A1 in Hp. inversion Hp; subst. rewrite H0 in Hh. discriminate.
  - destruct (i =? i0)%nat eqn:E; [|congruence]. apply Nat.eqb_eq in E. subst i0.
    rewrite A1 in Hp. inversion Hp; subst. rewrite H0 in Hh. discriminate.
  - destruct (i =? i0)%nat eqn:E; [|congruence]. apply Nat.eqb_eq in E. subst i0.
    rewrite A1 in Hp'. simpl in Hp'. inversion Hp'; subst. discriminate.
  - congruence.
  - congruence.
  - congruence.
  - congruence.
Qed.

(* claim: on entry it raises ResourcesUnavailable iff the amount is not available, otherwise it
   takes in that very section; it never subscribes *)
Theorem claim_entry_thm : forall s i b, blk s i = Some b -> bclaim b = true -> bph b = Idle ->
  owner_ok s (bpar b) = true ->
  (lge (nkeys s) (pool (bpar b) s) (bdeb b) = false ->
     snd (step s (Step i)) = OUnavail /\ phs (fst (step s (Step i))) i = Some Gone /\
     pools (fst (step s (Step i))) = pools s) /\
  (lge (nkeys s) (pool (bpar b) s) (bdeb b) = true ->
     snd (step s (Step i)) = OTook /\ phs (fst (step s (Step i))) i = Some Taking).
Proof.
  intros s i b Hb Hc Hp Ho. destruct (blk_acc _ _ _ Hb) as (A1 & _ & _).
  unfold blk in Hb. split; intros L; simpl; rewrite Hb, Hp, Ho; unfold try_enter, take; rewrite L, ?Hc; simpl.
  - repeat split; auto. rewrite phs_setph, Nat.eqb_refl, A1. reflexivity.
  - split; auto. unfold chpool. rewrite phs_setpool, phs_setph, Nat.eqb_refl, A1. reflexivity.
Qed.

(* every scheduled give-back can run, and running it shortens the queue *)
Theorem giveback_runs_thm : forall s, gbq s <> [] ->
  snd (step s RunGb) = OOk /\ gbq (fst (step s RunGb)) = tl (gbq s).
Proof.
  intros s H. simpl. destruct (gbq s) as [|[i h|q d] r] eqn:E; [congruence| |]; simpl;
    unfold chpool; autorewrite with bp; rewrite E; auto.
Qed.

(* REFUTED as a full-strength statement: "no pool ever goes below zero".  A borrowed SHARE can
   (known finding D18): block 0 borrows 3 of 4, nested block 1 borrows 1 of the share.  A signal
   lands in the first ACQUIRE postponement of the nested block: its give-back of 1 to the share
   is only scheduled; the interrupt is absorbed before it reaches the owner (an `until` between
   the two blocks), the owner leaves on the awaited path and removes its 3 from a share that
   holds 2.  (Since fix D20 an owner left BY the interrupt only schedules its removal, FIFO
   behind the nested give-back, and the share stays >= 0.) *)
Definition single_fault : list op :=
  [New 0 [3] false; Step 0; Step 0; Step 0; New 1 [1] false; Step 1; Signal 1; Step 0].

Theorem share_negative_after_single_fault_refuted :
  ~ (forall s, reachable_from (init 1 (Some [4]) [4]) s -> forall q k, 0 <= get k (pool q s)).
Proof.
  intros H. specialize (H (run (init 1 (Some [4]) [4]) single_fault)).
  assert (X : reachable_from (init 1 (Some [4]) [4]) (run (init 1 (Some [4]) [4]) single_fault))
    by (exists single_fault; reflexivity).
  specialize (H X 1%nat 0%nat). vm_compute in H. apply H. reflexivity.
Qed.

(* ... the same with the signal landing in the first RELEASE postponement of the nested block,
   which was leaving normally *)
Definition release_fault : list op :=
  [New 0 [3] false; Step 0; Step 0; Step 0; New 1 [1] false; Step 1; Step 1; Step 1;
   Step 1; Signal 1; Step 0].

Theorem share_negative_after_release_fault_refuted :
  ~ (forall s, reachable_from (init 1 (Some [4]) [4]) s -> forall q k, 0 <= get k (pool q s)).
Proof.
  intros H. specialize (H (run (init 1 (Some [4]) [4]) release_fault)).
  assert (X : reachable_from (init 1 (Some [4]) [4]) (run (init 1 (Some [4]) [4]) release_fault))
    by (exists release_fault; reflexivity).
  specialize (H X 1%nat 0%nat). vm_compute in H. apply H. reflexivity.
Qed.

(* since D20: a task signalled (even repeatedly) inside a nested borrow, with nothing absorbing the
   interrupt between the blocks, keeps its share >= 0: everything is scheduled FIFO *)
Definition interrupt_unwinds : list op :=
  [New 0 [3] false; Step 0; Step 0; Step 0; New 1 [1] false; Step 1; Step 1; Step 1;
   Signal 1; Signal 0].

(* used by the Examples of props/C12.v *)
(* Capacities(4): A borrows 3, B (wants 2) waits; A is cancelled while its first acquire
   postponement is pending (Taking): the give-backs run, B is woken and takes *)
Definition demo : list op :=
  [New 0 [3] false; New 0 [2] false; Step 0; Step 1; Signal 0; RunGb; RunGb; Step 1; Step 1; Step 1].

