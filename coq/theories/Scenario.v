(** The scenario language: programs over usim's public API, compiled to coroutine programs that
    call the transcribed library routines of Lib.v, and the trace they produce.
    The same scenarios are executed against the real library by harness/dsl.py. *)
From Coq Require Import ZArith List Bool Lia.
From RecordUpdate Require Import RecordSet.
From Usim Require Import XTime Tables Kernel Machine Lib.
Import ListNotations.
Import RecordSetNotations.

(** notification expressions *)
Inductive wt :=
| WDelay (d : xtime)                 (* time + d   (d = 0: instant) *)
| WAfter (t : xtime) | WBefore (t : xtime) | WMoment (t : xtime)
| WInstant | WEternity
| WFlag (f : nat)
| WCmp (v : nat) (op : cmpop) (z : Z)
| WCmp2 (v : nat) (op : cmpop) (v2 : nat)
| WDone (t : nat)                    (* task.done, by static task name *)
| WAnd (a b : wt) | WOr (a b : wt) | WNot (a : wt).

Inductive pat := PUser (c : nat) | PException | PConcurrent | PTaskCancelled | PStreamClosed.

Inductive stmt :=
| SLog (k : Z)
| SAwait (w : wt)
| SSetFlag (f : nat) (b : bool)
| SSetTracked (v : nat) (z : Z)
| SAddTracked (v : nat) (z : Z)
| SScope (name : nat) (body : list stmt)
| SUntil (name : nat) (w : wt) (body : list stmt)
| SDo (scname : nat) (tname : nat) (start : startspec) (volatile : bool) (body : list stmt)
| SCancel (tname : nat) (tok : Z)
| SAwaitTask (tname : nat)
| SRaise (cls : nat)
| STry (body : list stmt) (handlers : list (pat * list stmt)) (fin : list stmt)
| SWithLock (l : nat) (body : list stmt)
| SLockAvail (l : nat)
| SPut (q : nat) (z : Z)
| SGet (q : nat)
| SCloseQ (q : nat)
| SStatus (tname : nat)
| SForQueue (q : nat) (n : nat) (body : list stmt)
| SInterval (p : xtime) (n : nat) (body : list stmt)
| SDelayIter (p : xtime) (n : nat) (body : list stmt)
| SChanPut (c : nat) (z : Z)
| SChanGet (c : nat)
| SChanClose (c : nat)
| SForChan (c : nat) (n : nat) (body : list stmt)
| SCollect (scname : nat) (acts : list (nat * list stmt))
| SFirst (scname : nat) (k : option nat) (n : nat) (acts : list (nat * list stmt)) (body : list stmt)
| SBorrow (r : nat) (d : Z) (claim : bool) (name : nat) (body : list stmt)   (* async with R.borrow/claim(a=d) as name *)
| SIncrease (r : nat) (d : Z)
| SDecrease (r : nat) (d : Z)
| SSetRes (r : nat) (v : Z)
| SLevel (r : nat).                                                           (* log the current level *)

Record scenario := {
  sc_start : xtime;
  sc_till : option xtime;
  sc_roots : list (list stmt);
  sc_nflags : nat;
  sc_tracked : list Z;
  sc_nlocks : nat;
  sc_nqueues : nat;
  sc_nchans : nat;
  sc_res : list (bool * Z)      (* static resources: (is Capacities, capacity) *)
}.


(** resource names: a static resource (< 100) or a share bound by an enclosing `borrow ... as name` *)
Definition share_key (name : nat) : nat := 2000 + name.

(** ** building notification objects *)
Definition kind_of (o : objs) (n : nid) : nkind := nk (get_notif o n).

Definition conn_children_all (o : objs) (n : nid) : list nid :=
  match kind_of o n with NAll cs => cs | _ => [n] end.
Definition conn_children_any (o : objs) (n : nid) : list nid :=
  match kind_of o n with NAny cs => cs | _ => [n] end.

(** [~c] *)
Fixpoint invert_f (fuel : nat) (o : objs) (n : nid) : objs * nid :=
  match fuel with
  | O => (o, n)
  | S fuel' =>
      let inv_all cs :=
        fold_left (fun '(o', acc) c => let '(o'', c') := invert_f fuel' o' c in (o'', acc ++ [c'])) cs (o, []) in
      match kind_of o n with
      | NAfter d => alloc_notif o (NBefore d)
      | NBefore d => alloc_notif o (NAfter d)
      | NEternity => alloc_notif o NInstant
      | NInstant => alloc_notif o NEternity
      | NFlag f => (o, finv (get_flag o f))
      | NInvFlag f => (o, fnid (get_flag o f))
      | NCmp v op z =>
          let '(o1, m) := alloc_notif o (NCmp v (cmp_inverse op) z) in (add_listener o1 v m, m)
      | NCmp2 v op v2 =>
          let '(o1, m) := alloc_notif o (NCmp2 v (cmp_inverse op) v2) in
          (add_listener (add_listener o1 v2 m) v m, m)
      | NDone t => (o, t_notdone (get_task o t))
      | NNotDone t => (o, t_done (get_task o t))
      | NAll cs => let '(o1, cs') := inv_all cs in alloc_notif o1 (NAny cs')
      | NAny cs => let '(o1, cs') := inv_all cs in alloc_notif o1 (NAll cs')
      | _ => (o, n)
      end
  end.

Fixpoint mk_notif (o : objs) (w : wt) : objs * nid :=
  match w with
  | WDelay d => if xeqb d (Fin 0) then alloc_notif o NInstant else alloc_notif o (NDelay d)
  | WAfter t => alloc_notif o (NAfter t)
  | WBefore t => alloc_notif o (NBefore t)
  | WMoment t => let '(o1, na) := alloc_notif o (NAfter t) in alloc_notif o1 (NMoment t na)
  | WInstant => alloc_notif o NInstant
  | WEternity => alloc_notif o NEternity
  | WFlag f => (o, fnid (get_flag o f))
  | WCmp v op z => let '(o1, m) := alloc_notif o (NCmp v op z) in (add_listener o1 v m, m)
  | WCmp2 v op v2 =>
      let '(o1, m) := alloc_notif o (NCmp2 v op v2) in (add_listener (add_listener o1 v2 m) v m, m)
  | WDone t =>
      match assoc_nat t (tnames o) with
      | Some t' => (o, t_done (get_task o t'))
      | None => alloc_notif o NEternity
      end
  | WAnd a b =>
      let '(o1, na) := mk_notif o a in
      let '(o2, nb) := mk_notif o1 b in
      alloc_notif o2 (NAll (conn_children_all o2 na ++ conn_children_all o2 nb))
  | WOr a b =>
      let '(o1, na) := mk_notif o a in
      let '(o2, nb) := mk_notif o1 b in
      alloc_notif o2 (NAny (conn_children_any o2 na ++ conn_children_any o2 nb))
  | WNot a => let '(o1, na) := mk_notif o a in invert_f (S (length (notifs o1))) o1 na
  end.

Definition eval_wt (w : wt) : prog := Do (fun o _ => let '(o', n) := mk_notif o w in okv o' (VN n)).

(** ** rendering *)
Definition xt_code (t : xtime) : Z := match t with Fin z => z | PInf => 1000000000000000000%Z end.

Fixpoint exn_code (o : objs) (e : exn) : list Z :=
  match e with
  | EUser c s => [10; Z.of_nat c; Z.of_nat s]
  | ESig s => [21; match sig_kind o s with SKWake => 0 | SKCancelTask _ _ => 1 | SKCancelScope _ => 2 | SKUntil _ => 3 end]
  | EGenExit => [22]
  | ETaskCancelled t tok => [11; Z.of_nat (t_name (get_task o t)); tok]
  | ETaskClosed _ => [12]
  | EVolatileClosed _ => [13]
  | EStreamClosed q => [14; Z.of_nat q]
  | EConcurrent l => [15; Z.of_nat (length l)] ++ flat_map (exn_code o) l
  | EScopeClosed => [16]
  | EResUnavailable => [17]
  | EIntervalExceeded => [18]
  | EValueError => [19]
  | EAssertion => [20]
  | ERuntime c => [23; Z.of_nat c]
  | EActivityLeak => [24]
  | EBreak => [25]
  end%Z.

Definition emit (f : objs -> aid -> list Z) : prog :=
  Do (fun o a => oku (o <| trace := (xt_code (onow o) :: f o a) :: trace o |>)).

(** ** exception patterns *)
Definition pat_matches (p : pat) (e : exn) : bool :=
  match p, e with
  | PUser c, EUser c' _ => Nat.eqb c c' || (Nat.eqb c 0 && Nat.eqb c' 1)
  | PException, EUser c _ => Nat.ltb c 4
  | PException, (ETaskCancelled _ _ | ETaskClosed _ | EVolatileClosed _ | EStreamClosed _ | EScopeClosed
                 | EResUnavailable | EIntervalExceeded | EValueError | EAssertion | ERuntime _ | EActivityLeak) => true
  | PConcurrent, EConcurrent _ => true
  | PTaskCancelled, ETaskCancelled _ _ => true
  | PStreamClosed, EStreamClosed _ => true
  | _, _ => false
  end.

(** status as [Task.status] computes it: 1 created, 2 running, 4 cancelled, 8 failed, 16 success *)
Definition task_status (o : objs) (t : tid) : Z :=
  let x := get_task o t in
  match t_result x with
  | Some (OExn (ETaskCancelled _ _ | ETaskClosed _ | EVolatileClosed _)) => 4
  | Some (OExn _) => 8
  | Some (OVal _) => 16
  | None => match nth (t_runner x) (astat o) AsDead with AsNew => 1 | _ => 2 end
  end%Z.

Definition zof (v : val) : Z := match v with VZ z => z | _ => (-1)%Z end.

Fixpoint await_vals (ts : list tid) (acc : list Z) (k : list Z -> prog) : prog :=
  match ts with
  | [] => k acc
  | t :: r => v <- task_await t ;; await_vals r (acc ++ [zof v]) k
  end.

Definition res_index (o : objs) (r : nat) : nat :=
  match assoc_nat (share_key r) (snames o) with Some s => s | None => 0 end.

(** ** compilation *)
Fixpoint compile (s : stmt) : prog :=
  let fix compile_list (ss : list stmt) : prog :=
    match ss with
    | [] => Ret VU
    | s :: r => compile s ;;; compile_list r
    end in
  let fix find_handler (hs : list (pat * list stmt)) (e : exn) : option prog :=
    match hs with
    | [] => None
    | (p, body) :: r => if pat_matches p e then Some (compile_list body) else find_handler r e
    end in
  match s with
  | SLog k => emit (fun _ _ => [1; k]%Z)
  | SAwait w => n <- eval_wt w ;; await_n (vnat n)
  | SSetFlag f b => flag_set f b
  | SSetTracked v z => tracked_set v z
  | SAddTracked v z => tracked_add v z
  | SScope name body => scope_block name None (compile_list body)
  | SUntil name w body => n <- eval_wt w ;; scope_block name (Some (vnat n)) (compile_list body)
  | SDo scname tname start vol body =>
      Dyn (fun o _ =>
        match assoc_nat scname (snames o) with
        | Some sc => scope_do sc tname start vol (compile_list body ;;; Ret (VZ (1000 + Z.of_nat tname))) ;;; Ret VU
        | None => emit (fun _ _ => [7; Z.of_nat scname]%Z)
        end)
  | SCancel tname tok =>
      Dyn (fun o _ => match assoc_nat tname (tnames o) with
                      | Some t => task_cancel t tok
                      | None => emit (fun _ _ => [7; Z.of_nat tname]%Z)
                      end)
  | SAwaitTask tname =>
      Dyn (fun o _ => match assoc_nat tname (tnames o) with
                      | Some t => v <- task_await t ;;
                                  emit (fun _ _ => [2; Z.of_nat tname; match v with VZ z => z | _ => -1 end]%Z)
                      | None => emit (fun _ _ => [7; Z.of_nat tname]%Z)
                      end)
  | SRaise cls =>
      Do (fun o _ => err (o <| serial := S (serial o) |>) (EUser cls (serial o)))
  | STry body hs fin =>
      Finally (Catch (compile_list body)
                     (fun e => Dyn (fun o _ =>
                               (* a coroutine that is being closed handles nothing: what passes by is (a replacement
                                  of) its GeneratorExit *)
                               if Nat.ltb 0 (closing o) then Raise e
                               else match find_handler hs e with
                                    | Some h => emit (fun o _ => 3%Z :: exn_code o e) ;;; h
                                    | None => Raise e
                                    end)))
              (compile_list fin)
  | SWithLock l body => with_lock l (compile_list body)
  | SLockAvail l => emit (fun o a => [5; Z.of_nat l; if lock_available o l a then 1 else 0]%Z)
  | SPut q z => queue_put q z
  | SGet q => v <- queue_get q ;; emit (fun _ _ => [4; Z.of_nat q; match v with VZ z => z | _ => -1 end]%Z)
  | SCloseQ q => queue_close q
  | SStatus tname =>
      emit (fun o _ => match assoc_nat tname (tnames o) with
                       | Some t => [6; Z.of_nat tname; task_status o t]
                       | None => [7; Z.of_nat tname]
                       end%Z)
  | SForQueue q n body =>
      ForN (queue_iter q) n (fun v => emit (fun _ _ => [4; Z.of_nat q; zof v]%Z) ;;; compile_list body)
  | SInterval p n body =>
      ForN (interval_gen p) n (fun v => emit (fun _ _ => [20; match v with VX t => xt_code t | _ => -1 end]%Z) ;;; compile_list body)
  | SDelayIter p n body =>
      ForN (delay_gen p) n (fun v => emit (fun _ _ => [21; match v with VX t => xt_code t | _ => -1 end]%Z) ;;; compile_list body)
  | SChanPut c z => chan_put c z
  | SChanGet c => v <- chan_get c ;; emit (fun _ _ => [4; 1000 + Z.of_nat c; zof v]%Z)
  | SChanClose c => chan_close c
  | SForChan c n body =>
      ForN (chan_iter c) n (fun v => emit (fun _ _ => [4; 1000 + Z.of_nat c; zof v]%Z) ;;; compile_list body)
  | SCollect scname acts =>
      let fix comp_acts (l : list (nat * list stmt)) : list (nat * prog) :=
        match l with
        | [] => []
        | (tn, b) :: r => (tn, compile_list b ;;; Ret (VZ (1000 + Z.of_nat tn))) :: comp_acts r
        end in
      t0 <- Do (fun o _ => okv o (VN (length (tasks o)))) ;;
      scope_block scname None
        (Dyn (fun o _ => match assoc_nat scname (snames o) with
                         | Some sc => spawn_all sc false (comp_acts acts) (fun p => p)
                         | None => Ret VU
                         end)) ;;;
      await_vals (seq (vnat t0) (length acts)) [] (fun vs => emit (fun _ _ => (9 :: vs)%Z))
  | SFirst scname k n acts body =>
      let fix comp_acts (l : list (nat * list stmt)) : list (nat * prog) :=
        match l with
        | [] => []
        | (tn, b) :: r => (tn, compile_list b ;;; Ret (VZ (1000 + Z.of_nat tn))) :: comp_acts r
        end in
      ForN (first_gen scname k (comp_acts acts)) n
           (fun v => emit (fun _ _ => [8; zof v]%Z) ;;; compile_list body)
  | SBorrow r d claim name body =>
      Dyn (fun o _ =>
        with_borrow (res_index o r) d claim
          (fun s => Upd (fun o => o <| snames := (share_key name, s) :: snames o |>) ;;; compile_list body))
  | SIncrease r d => Dyn (fun o _ => res_increase (res_index o r) d)
  | SDecrease r d => Dyn (fun o _ => res_decrease (res_index o r) d)
  | SSetRes r v => Dyn (fun o _ => res_set (res_index o r) v)
  | SLevel r => emit (fun o _ => [30; Z.of_nat r; res_level o (res_index o r)]%Z)
  end.

Fixpoint compile_list (ss : list stmt) : prog :=
  match ss with
  | [] => Ret VU
  | s :: r => compile s ;;; compile_list r
  end.

(** ** initial state *)
Definition empty_objs (start : xtime) (nroots : nat) : objs :=
  {| kern := loop_init nroots start; sigs := []; astat := repeat AsNew nroots; notifs := []; flags := [];
     tracked := []; tasks := []; scopes := []; locks := []; queues := []; chans := []; ress := [];
     tnames := []; snames := []; trace := []; serial := 0; closing := 0 |}.

(** [Resources(a=c)]: one resource with a tracked level; [Capacities(a=c)]: a borrowed share holding everything
    of a private Resources(a=c) *)
Definition alloc_cell (o : objs) (z : Z) : objs * nat :=
  (o <| tracked := tracked o ++ [{| tval := z; tlisteners := [] |}] |>, length (tracked o)).
Fixpoint alloc_static_res (rs : list (bool * Z)) (i : nat) (o : objs) : objs :=
  match rs with
  | [] => o
  | (cap, c) :: r =>
      let '(o1, t) := alloc_cell o c in
      let p := length (ress o1) in
      let o2 := o1 <| ress := ress o1 ++ [{| r_parent := None; r_debits := []; r_avail := t |}] |> in
      let o3 :=
        if cap then
          let '(o2', t2) := alloc_cell o2 c in
          o2' <| ress := ress o2' ++ [{| r_parent := Some p; r_debits := [c]; r_avail := t2 |}] |>
              <| snames := (share_key i, S p) :: snames o2' |>
        else o2 <| snames := (share_key i, p) :: snames o2 |> in
      alloc_static_res r (S i) o3
  end.

Fixpoint iter {A} (n : nat) (f : A -> A) (x : A) : A :=
  match n with O => x | S n' => iter n' f (f x) end.

Definition init_objs (s : scenario) (nroots : nat) : objs :=
  let o0 := empty_objs (sc_start s) nroots in
  let o1 := iter (sc_nflags s) (fun o => fst (alloc_flag o)) o0 in
  let o2 := o1 <| tracked := map (fun z => {| tval := z; tlisteners := [] |}) (sc_tracked s) |> in
  let o3 := iter (sc_nlocks s) alloc_lock o2 in
  let o4 := iter (sc_nqueues s) alloc_queue o3 in
  let o5 := iter (sc_nchans s) alloc_chan o4 in
  alloc_static_res (sc_res s) 0 o5.

(** [usim.run(activities..., start=, till=)] *)
Fixpoint do_roots (sc : nat) (i : nat) (roots : list (list stmt)) : prog :=
  match roots with
  | [] => Ret VU
  | r :: rest =>
      Dyn (fun o _ => match assoc_nat sc (snames o) with
                      | Some s => scope_do s (900 + i) StartNow false (compile_list r) ;;; Ret VU
                      | None => Ret VU
                      end) ;;; do_roots sc (S i) rest
  end.

Definition init_state (s : scenario) : mstate :=
  match sc_till s with
  | None =>
      {| ob := init_objs s (length (sc_roots s));
         acts := map (fun r => ANew (compile_list r)) (sc_roots s);
         result := RGoing; klog := []; gens := [] |}
  | Some t =>
      {| ob := init_objs s 1;
         acts := [ANew (n <- eval_wt (WMoment t) ;; scope_block 999 (Some (vnat n)) (do_roots 999 0 (sc_roots s)))];
         result := RGoing; klog := []; gens := [] |}
  end.

Definition final_event (m : mstate) : list Z :=
  let o := ob m in
  (xt_code (onow o) ::
   match result m with
   | RQuiet => [90]
   | RRaised e => 91 :: exn_code o e
   | RFuel => [92]
   | RGoing => [93]
   | RUnmodelled => [96]
   end)%Z.

(** the state of the scenario's static objects when the run ended (compared with the real objects' fields) *)
Definition b2z (b : bool) : Z := if b then 1%Z else 0%Z.
Definition digest (s : scenario) (o : objs) : list Z :=
  (xt_code (onow o) :: 95 ::
   map (fun f => b2z (fval f)) (firstn (sc_nflags s) (flags o)) ++
   map tval (firstn (length (sc_tracked s)) (tracked o)) ++
   flat_map (fun l => [b2z (match l_owner l with None => false | Some _ => true end); l_depth l;
                       Z.of_nat (length (waiting (get_notif o (l_notif l))))]) (firstn (sc_nlocks s) (locks o)) ++
   flat_map (fun q => [Z.of_nat (length (q_buf q)); b2z (q_closed q);
                       Z.of_nat (length (waiting (get_notif o (q_notif q))))] ++ q_buf q) (firstn (sc_nqueues s) (queues o)) ++
   flat_map (fun c => [Z.of_nat (length (c_bufs c)); b2z (c_closed c)]) (firstn (sc_nchans s) (chans o)) ++
   map (fun i => res_level o (res_index o i)) (seq 0 (length (sc_res s))))%Z.

Definition run_scenario (steps fuel : nat) (s : scenario) : list (list Z) :=
  let m := mrun steps fuel (init_state s) in
  rev (trace (ob m)) ++ [final_event m; digest s (ob m)].

(** comparison with an observed trace *)
Fixpoint zlist_eqb (a b : list Z) : bool :=
  match a, b with
  | [], [] => true
  | x :: a', y :: b' => Z.eqb x y && zlist_eqb a' b'
  | _, _ => false
  end.
Fixpoint trace_eqb (a b : list (list Z)) : bool :=
  match a, b with
  | [], [] => true
  | x :: a', y :: b' => zlist_eqb x y && trace_eqb a' b'
  | _, _ => false
  end.

Definition unmodelled_trace (t : list (list Z)) : bool :=
  match rev t with
  | _ :: [_; 96%Z] :: _ => true
  | _ => false
  end.

Fixpoint mismatches_from (i : nat) (steps fuel : nat) (cases : list (scenario * list (list Z))) : list nat :=
  match cases with
  | [] => []
  | (s, t) :: r =>
      (let mt := run_scenario steps fuel s in
       if unmodelled_trace mt then [10000 + i]          (* not predicted by the machine: counted, not compared *)
       else if trace_eqb mt t then [] else [i]) ++ mismatches_from (S i) steps fuel r
  end.
Definition mismatches := mismatches_from 0.
