(* Layer P model of usim.Channel (usim/_basics/streams.py:49-121, notification.py).

   State = the fields of the channel (closed flag, the dict of per-consumer buffers in
   insertion order) + per consumer the suspension point it sits at (phase) + ghost
   history (all accepted puts, subscription index, received sequence).
   The environment is fully nondeterministic: any operation below may be issued at any
   time by anyone; an operation that the code cannot perform in the current state is
   answered with [RDisabled] and changes nothing.

   Atomic sections transcribed (one constructor of [op] each):
     Put x      Channel.put up to its postponement: closed -> raise StreamClosed;
                append x to every registered buffer (dict order); awake_all
     Close      Channel.close: first time: closed := True; awake_all
     Sub i k    k = Single: start of `await channel` (closed -> raise; register buffer;
                subscribe to the notification);  k = Iter: first __anext__ of __aiter__
                (register; buffer empty; closed -> finally: unregister, end; else subscribe)
     Resume i   a consumer whose wake-up was scheduled runs again.  Woken by awake_all:
                Single: unsubscribe, finally: unregister, return buffer[0] / raise
                Iter:   buffer non-empty -> yield popleft at once; else `continue`: end if
                        closed / sleep again
                Iter after its postponement (phase Postponed): yield popleft
     Next i     the iterating consumer calls __anext__ again (generator resumes after yield):
                top of the loop: buffered -> `await postpone()` FIRST (fix D15: the pop happens
                after the postponement); closed and drained -> end; else sleep
     Fault i    a foreign signal (cancel, until-interrupt, GeneratorExit of close) hits the
                consumer while it is suspended in the notification (woken or not) or in the
                postponement: clean-up, finally: unregister, the signal propagates
     Leave i    the iterating consumer leaves its loop body by any route (break, exception,
                cancel/interrupt/close while suspended in the body); the generator object
                is still alive and registered
     Finalise i the abandoned generator is finalised (GeneratorExit at the yield):
                finally: unregister.  (CPython does this at once; the model does not rely on it)
*)
Require Import ZArith List Bool Lia.
Import ListNotations.

Inductive kind := Single | Iter.
Inductive phase := Waiting | Woken | Postponed | Body | Abandoned | Done.
Inductive outcome := ONone | OGot (x : Z) | OClosed | OEnded | OFault | OLeft | OError.

Record cons := mkC {
  cid : nat;            (* name of the consumer (chosen by the environment, fresh) *)
  ckind : kind;
  cph : phase;
  csub : nat;           (* ghost: number of accepted puts when it subscribed *)
  cbuf : list Z;        (* its private buffer in Channel._consumer_buffers *)
  crecv : list Z;       (* ghost: what it has received so far, in order *)
  cout : outcome }.     (* how it ended (phase Done) *)

Record state := mkS {
  closed : bool;
  puts : list Z;        (* ghost: all accepted puts, in order *)
  conss : list cons }.  (* all consumers ever subscribed, in subscription order;
                           the dict = those not Done, same order *)

Inductive op :=
| Put (x : Z) | Close | Sub (i : nat) (k : kind)
| Resume (i : nat) | Next (i : nat) | Fault (i : nat) | Leave (i : nat) | Finalise (i : nat).

Inductive out :=
| RNone | RRaised | RSleep | RPostpone | RYield (x : Z) | RGot (x : Z) | REnded | RError | RDisabled.

Definition init : state := mkS false [] [].

Definition registered (c : cons) : bool :=
  match cph c with Done => false | _ => true end.

Definition set_ph (p : phase) (c : cons) : cons :=
  mkC (cid c) (ckind c) p (csub c) (cbuf c) (crecv c) (cout c).
Definition finish (o : outcome) (c : cons) : cons :=
  mkC (cid c) (ckind c) Done (csub c) (cbuf c) (crecv c) o.

Definition wake (c : cons) : cons :=
  match cph c with Waiting => set_ph Woken c | _ => c end.

Definition c_put (x : Z) (c : cons) : cons :=
  if registered c
  then wake (mkC (cid c) (ckind c) (cph c) (csub c) (cbuf c ++ [x]) (crecv c) (cout c))
  else c.

(* `yield buffer.popleft()` *)
Definition yield_head (c : cons) : cons * out :=
  match cbuf c with
  | x :: r => (mkC (cid c) (ckind c) Body (csub c) r (crecv c ++ [x]) (cout c), RYield x)
  | [] => (finish OError c, RError)                                   (* IndexError *)
  end.

(* top of `while True:` in __aiter__ (first __anext__, or __anext__ after a yield):
   buffered -> postpone (the pop comes after it); closed and drained -> end; else sleep *)
Definition iter_loop (cl : bool) (c : cons) : cons * out :=
  match cbuf c with
  | _ :: _ => (set_ph Postponed c, RPostpone)
  | [] => if cl then (finish OEnded c, REnded) else (set_ph Waiting c, RSleep)
  end.

(* after `await self._notification`: `if not buffer: continue` (= top of the loop with an
   empty buffer) else yield at once *)
Definition iter_wake (cl : bool) (c : cons) : cons * out :=
  match cbuf c with
  | _ :: _ => yield_head c
  | [] => if cl then (finish OEnded c, REnded) else (set_ph Waiting c, RSleep)
  end.

(* tail of Channel.__await__ after the notification wait *)
Definition single_resume (cl : bool) (c : cons) : cons * out :=
  match cbuf c with
  | x :: _ => (mkC (cid c) (ckind c) Done (csub c) (cbuf c) [x] (OGot x), RGot x)
  | [] => if cl then (finish OClosed c, RRaised) else (finish OError c, RError)  (* IndexError *)
  end.

Definition find (i : nat) (l : list cons) : option cons :=
  List.find (fun c => cid c =? i) l.
Definition upd (i : nat) (f : cons -> cons) (l : list cons) : list cons :=
  map (fun c => if cid c =? i then f c else c) l.

(* a per-consumer section: what consumer c does given the closed flag *)
Definition local (o : op) (cl : bool) (c : cons) : option (cons * out) :=
  match o, cph c, ckind c with
  | Resume _, Woken, Single => Some (single_resume cl c)
  | Resume _, Woken, Iter => Some (iter_wake cl c)
  | Resume _, Postponed, Iter => Some (yield_head c)
  | Next _, Body, Iter => Some (iter_loop cl c)
  | Fault _, Waiting, _ | Fault _, Woken, _ | Fault _, Postponed, _ => Some (finish OFault c, RRaised)
  | Leave _, Body, _ => Some (set_ph Abandoned c, RNone)
  | Finalise _, Abandoned, _ => Some (finish OLeft c, RNone)
  | _, _, _ => None
  end.

Definition actor (o : op) : option nat :=
  match o with
  | Put _ | Close => None
  | Sub i _ | Resume i | Next i | Fault i | Leave i | Finalise i => Some i
  end.

Definition step (s : state) (o : op) : state * out :=
  match o with
  | Put x =>
      if closed s then (s, RRaised)
      else (mkS false (puts s ++ [x]) (map (c_put x) (conss s)), RNone)
  | Close =>
      if closed s then (s, RNone)
      else (mkS true (puts s) (map wake (conss s)), RNone)
  | Sub i k =>
      match find i (conss s) with
      | Some _ => (s, RDisabled)
      | None =>
          let n := length (puts s) in
          if closed s then
            match k with
            | Single => (mkS true (puts s) (conss s ++ [mkC i k Done n [] [] OClosed]), RRaised)
            | Iter => (mkS true (puts s) (conss s ++ [mkC i k Done n [] [] OEnded]), REnded)
            end
          else (mkS false (puts s) (conss s ++ [mkC i k Waiting n [] [] ONone]), RSleep)
      end
  | Resume i | Next i | Fault i | Leave i | Finalise i =>
      match find i (conss s) with
      | None => (s, RDisabled)
      | Some c =>
          match local o (closed s) c with
          | None => (s, RDisabled)
          | Some (_, r) =>
              (mkS (closed s) (puts s)
                   (upd i (fun c => match local o (closed s) c with
                                    | Some (c', _) => c' | None => c end) (conss s)), r)
          end
      end
  end.

Fixpoint run (s : state) (tr : list op) : state :=
  match tr with [] => s | o :: tr' => run (fst (step s o)) tr' end.

Fixpoint run_outs (s : state) (tr : list op) : list out :=
  match tr with [] => [] | o :: tr' => snd (step s o) :: run_outs (fst (step s o)) tr' end.

Definition reachable (s : state) : Prop := exists tr, s = run init tr.

(* ---- projection compared with the real object after every logged section:
        closed flag and the buffers of the dict in insertion order *)
Definition proj (s : state) : bool * list (list Z) :=
  (closed s, map cbuf (filter registered (conss s))).

(* ---- executable comparison used by the generated case files *)
Definition out_eqb (a b : out) : bool :=
  match a, b with
  | RNone, RNone | RRaised, RRaised | RSleep, RSleep | RPostpone, RPostpone | REnded, REnded
  | RError, RError | RDisabled, RDisabled => true
  | RYield x, RYield y | RGot x, RGot y => Z.eqb x y
  | _, _ => false
  end.
Definition lz_eqb (a b : list Z) : bool :=
  (length a =? length b) && forallb (fun p => Z.eqb (fst p) (snd p)) (combine a b).
Definition llz_eqb (a b : list (list Z)) : bool :=
  (length a =? length b) && forallb (fun p => lz_eqb (fst p) (snd p)) (combine a b).
Definition proj_eqb (a b : bool * list (list Z)) : bool :=
  Bool.eqb (fst a) (fst b) && llz_eqb (snd a) (snd b).

(* one logged section: the operation, the result seen, the projection of the real object after it *)
Definition event := (op * out * (bool * list (list Z)))%type.

(* index (from 1) of the first logged section that the model cannot reproduce; 0 = all fine *)
Fixpoint replay (s : state) (n : nat) (evs : list event) : nat :=
  match evs with
  | [] => 0
  | (o, r, p) :: rest =>
      let (s', r') := step s o in
      if out_eqb r r' && proj_eqb p (proj s') then replay s' (S n) rest else S n
  end.

Fixpoint bad_idx (n : nat) (l : list (list event)) : list nat :=
  match l with
  | [] => []
  | evs :: rest =>
      match replay init 0 evs with
      | 0 => bad_idx (S n) rest
      | k => n :: k :: bad_idx (S n) rest
      end
  end.
