(** C16: statements about the transcription of usim/_concurrent/basics.py (Lib.first_gen, Scenario.SCollect). *)
From Coq Require Import ZArith List Bool Lia.
From Usim Require Import XTime Tables Kernel Machine Lib.
Import ListNotations.

(** [first(..., count=k)] raises ValueError exactly when k exceeds the number of activities, before anything
    else happens (no scope, no task, no queue is created) *)
Lemma first_count_exceeds scname k acts :
  length acts < k -> first_gen scname (Some k) acts = Raise EValueError.
Proof. intros H. unfold first_gen. apply Nat.ltb_lt in H. rewrite H. reflexivity. Qed.

Lemma first_count_ok scname k acts :
  k <= length acts -> first_gen scname (Some k) acts <> Raise EValueError.
Proof.
  intros H. unfold first_gen. assert (E : Nat.ltb (length acts) k = false) by (apply Nat.ltb_ge; exact H).
  rewrite E. discriminate.
Qed.

Lemma first_count_none scname acts : first_gen scname None acts <> Raise EValueError.
Proof. unfold first_gen. rewrite Nat.ltb_irrefl. discriminate. Qed.

(** what [first] yields, as a function of the order in which results arrive in its queue: a FIFO queue read
    [count] times.  ([Queue] delivers in put order, exactly once: C10.)  The consumer therefore sees the first
    [count] results in completion order; ties are broken by the order in which the monitor tasks put them. *)
Definition first_results (count : nat) (arrivals : list Z) : list Z := firstn count arrivals.

Lemma first_results_length count arrivals :
  length (first_results count arrivals) = Nat.min count (length arrivals).
Proof. apply firstn_length. Qed.

Lemma first_results_prefix count arrivals :
  exists rest, arrivals = first_results count arrivals ++ rest.
Proof. exists (skipn count arrivals). symmetry. apply firstn_skipn. Qed.

Lemma first_results_all arrivals : first_results (length arrivals) arrivals = arrivals.
Proof. apply firstn_all. Qed.
