(* Layer P protocol model of usim.Lock (usim/_primitives/locks.py) together with the part of
   Notification (usim/_primitives/notification.py) it uses.

   State = the fields of the Python objects (`_owner`, `_depth`, `_notification._waiting`), the
   wake-ups that are scheduled but neither delivered nor revoked (`woken`: the subscription interrupts
   with `scheduled = True` whose subscription is still open), and per activity the *phase*: which
   suspension point of `Lock.__aenter__` / of the guarded block the activity sits at.  `tick`,
   `ntick`, `grants` are ghost: every outermost request draws a fresh ticket, `grants` logs the
   tickets in the order in which activities actually got inside.

   Transitions = the atomic sections of the code (between two suspension points):
     Request a         `__aenter__` up to its first suspension or its return
     DeliverWake a     the waiter is resumed by its own wake-up: subscription `finally`, `depth += 1`
     DeliverForeign a  anything else is thrown into the waiter (CancelTask, an until-interrupt,
                       GeneratorExit of a close): subscription `finally` = `__unsubscribe__`, then
                       `except BaseException: if owner == me: __release__(); raise`
     Exit a            `__aexit__` (normal end, exception, cancellation or close inside the block)
   `step` returns None when the transition is not enabled (the environment discipline: a suspended
   activity cannot call, only an activity inside can leave).  The environment is otherwise free:
   the theorems in LockProtoProps.v quantify over all reachable states. *)
From Coq Require Import List Bool Arith Lia.
Import ListNotations.

Definition aid := nat.

Inductive phase := Idle | Waiting | Inside (n : nat).   (* Inside n: n nested blocks entered *)

Record st := mk {
  owner : option aid;        (* Lock._owner *)
  depth : nat;               (* Lock._depth *)
  waiting : list aid;        (* Notification._waiting, oldest first *)
  woken : list aid;          (* scheduled, not yet delivered, not revoked wake-ups *)
  ph : aid -> phase;
  tick : aid -> nat;         (* ghost: ticket of the current request of an activity *)
  ntick : nat;               (* ghost: next ticket *)
  grants : list nat          (* ghost: tickets in the order of getting inside *)
}.

Definition upd {A} (f : aid -> A) (a : aid) (v : A) : aid -> A :=
  fun b => if Nat.eqb b a then v else f b.

Definition mem (a : aid) (l : list aid) : bool := existsb (Nat.eqb a) l.

(* list.remove: first occurrence *)
Fixpoint rem1 (a : aid) (l : list aid) : list aid :=
  match l with
  | [] => []
  | b :: r => if Nat.eqb b a then r else b :: rem1 a r
  end.

Definition set_ph (s : st) (a : aid) (p : phase) : st :=
  mk (owner s) (depth s) (waiting s) (woken s) (upd (ph s) a p) (tick s) (ntick s) (grants s).

(* Lock.__release__ : Notification.__awake_next__ pops the OLDEST waiter and schedules it; that waiter
   becomes the designated owner.  No waiter -> the lock is free. *)
Definition release (s : st) : st :=
  match waiting s with
  | [] => mk None (depth s) [] (woken s) (ph s) (tick s) (ntick s) (grants s)
  | b :: r => mk (Some b) (depth s) r (woken s ++ [b]) (ph s) (tick s) (ntick s) (grants s)
  end.

(* Notification.__unsubscribe__ : revoke the wake-up if it is scheduled, else leave the waiting list *)
Definition unsubscribe (a : aid) (s : st) : st :=
  if mem a (woken s)
  then mk (owner s) (depth s) (waiting s) (rem1 a (woken s)) (ph s) (tick s) (ntick s) (grants s)
  else mk (owner s) (depth s) (rem1 a (waiting s)) (woken s) (ph s) (tick s) (ntick s) (grants s).

Definition is_owner (s : st) (a : aid) : bool :=
  match owner s with Some o => Nat.eqb o a | None => false end.

(* Lock.available, asked by activity a *)
Definition available (s : st) (a : aid) : bool :=
  match owner s with None => true | Some o => Nat.eqb o a end.

Inductive tr := Request (a : aid) | DeliverWake (a : aid) | DeliverForeign (a : aid) | Exit (a : aid).

Definition step (s : st) (t : tr) : option st :=
  match t with
  | Request a =>
      match ph s a, owner s with
      | Idle, None =>          (* free: owner := me; depth += 1 *)
          Some (mk (Some a) (S (depth s)) (waiting s) (woken s) (upd (ph s) a (Inside 1))
                   (upd (tick s) a (ntick s)) (S (ntick s)) (grants s ++ [ntick s]))
      | Idle, Some o =>
          if Nat.eqb o a then None
          else                 (* subscribe and hibernate *)
            Some (mk (owner s) (depth s) (waiting s ++ [a]) (woken s) (upd (ph s) a Waiting)
                     (upd (tick s) a (ntick s)) (S (ntick s)) (grants s))
      | Inside n, Some o =>
          if Nat.eqb o a then   (* re-entry by the owner: depth += 1 *)
            Some (mk (owner s) (S (depth s)) (waiting s) (woken s) (upd (ph s) a (Inside (S n)))
                     (tick s) (ntick s) (grants s))
          else None
      | _, _ => None
      end
  | DeliverWake a =>
      match ph s a with
      | Waiting =>
          if mem a (woken s) then
            let s1 := unsubscribe a s in
            Some (mk (owner s1) (S (depth s1)) (waiting s1) (woken s1) (upd (ph s1) a (Inside 1))
                     (tick s1) (ntick s1) (grants s1 ++ [tick s1 a]))
          else None
      | _ => None
      end
  | DeliverForeign a =>
      match ph s a with
      | Waiting =>
          let s1 := unsubscribe a s in
          let s2 := if is_owner s1 a then release s1 else s1 in
          Some (set_ph s2 a Idle)
      | _ => None
      end
  | Exit a =>
      match ph s a with
      | Inside (S n) =>
          let s1 := mk (owner s) (pred (depth s)) (waiting s) (woken s)
                       (upd (ph s) a (match n with O => Idle | _ => Inside n end))
                       (tick s) (ntick s) (grants s) in
          Some (if Nat.eqb (depth s1) 0 then release s1 else s1)
      | _ => None
      end
  end.

Definition init : st := mk None 0 [] [] (fun _ => Idle) (fun _ => 0) 0 [].

Inductive reachable : st -> Prop :=
| reach_init : reachable init
| reach_step s t s' : reachable s -> step s t = Some s' -> reachable s'.

(* the actor of a transition *)
Definition actor (t : tr) : aid :=
  match t with Request a | DeliverWake a | DeliverForeign a | Exit a => a end.

(* outstanding requests, oldest first: the designated owner (its wake-up is in flight) and the
   waiting list; both are fields of the real objects *)
Definition pendq (s : st) : list aid := woken s ++ waiting s.

(* ---------- event replay (correspondence form (ii)) ---------- *)

(* projection of the real object's fields, as logged by the harness after each atomic section:
   owner (0 = None, else id+1), depth, waiting ids, ids with a scheduled wake-up *)
Definition proj := (nat * nat * list nat * list nat)%type.

Definition project (s : st) : proj :=
  (match owner s with None => 0 | Some o => S o end, depth s, waiting s, woken s).

Fixpoint list_eqb (l1 l2 : list nat) : bool :=
  match l1, l2 with
  | [], [] => true
  | a :: r1, b :: r2 => Nat.eqb a b && list_eqb r1 r2
  | _, _ => false
  end.

Definition proj_eqb (p q : proj) : bool :=
  let '(o1, d1, w1, k1) := p in let '(o2, d2, w2, k2) := q in
  Nat.eqb o1 o2 && Nat.eqb d1 d2 && list_eqb w1 w2 && list_eqb k1 k2.

(* one logged observation: an atomic section (transition + projection of the real fields after it)
   or a query of `lock.available` by activity a made between two atomic sections *)
Inductive ev := Ev (t : tr) (p : proj) | Avail (a : aid) (b : bool).

(* replay a logged run; result = index (from 1) of the first observation that is not enabled / whose
   projection or value differs, 0 when the whole log is reproduced *)
Fixpoint replay_from (i : nat) (s : st) (log : list ev) : nat :=
  match log with
  | [] => 0
  | Ev t p :: r =>
      match step s t with
      | None => i
      | Some s' => if proj_eqb (project s') p then replay_from (S i) s' r else i
      end
  | Avail a b :: r => if Bool.eqb (available s a) b then replay_from (S i) s r else i
  end.

Definition replay (log : list ev) : nat := replay_from 1 init log.

Fixpoint run (s : st) (l : list tr) : option st :=
  match l with
  | [] => Some s
  | t :: r => match step s t with Some s' => run s' r | None => None end
  end.

Fixpoint filter_idx_from {A} (i : nat) (f : A -> bool) (l : list A) : list nat :=
  match l with
  | [] => []
  | x :: r => if f x then i :: filter_idx_from (S i) f r else filter_idx_from (S i) f r
  end.
Definition filter_idx {A} (f : A -> bool) (l : list A) : list nat := filter_idx_from 0 f l.
