(** C18 - proofs about the event protocol of SimEvent.v (for all operation histories) and
    the lemmas that tie the machine to it. *)
From Coq Require Import List ZArith Bool Lia Arith.
Import ListNotations.
From Usim Require Import SimEvent.
Open Scope Z_scope.

(** * Lists *)
Lemma nth_upd_rel {A} (R : A -> A -> Prop) (f : A -> A) (d : A) :
  (forall x, R x x) -> (forall x, R x (f x)) ->
  forall m l n, R (nth n l d) (nth n (upd m f l) d).
Proof.
  intros Hr Hf m l; revert m; induction l as [|x l IH]; intros m n; cbn.
  - destruct m; apply Hr.
  - destruct m; destruct n; cbn; auto.
Qed.

Lemma nth_upd_same {A} (f : A -> A) d m l : (m < length l)%nat -> nth m (upd m f l) d = f (nth m l d).
Proof.
  revert m; induction l as [|x l IH]; intros m H; cbn in *; [lia|].
  destruct m; cbn; auto. apply IH; lia.
Qed.

Lemma nth_upd_other {A} (f : A -> A) d m n l : n <> m -> nth n (upd m f l) d = nth n l d.
Proof.
  revert m n; induction l as [|x l IH]; intros m n H; cbn; [destruct m; auto|].
  destruct m; destruct n; cbn; auto; try congruence.
Qed.

Lemma upd_oob {A} (f : A -> A) m l : (length l <= m)%nat -> upd m f l = l.
Proof.
  revert m; induction l as [|x l IH]; intros m H; cbn in *; [destruct m; auto|].
  destruct m; [lia|]. cbn. f_equal; apply IH; lia.
Qed.

Lemma upd_length {A} (f : A -> A) m l : length (upd m f l) = length l.
Proof. revert m; induction l; intros [|m]; cbn; auto. Qed.

(** * Frame facts: what the agenda primitives leave alone *)
Lemma wake_all_frame ws : forall p,
  let p' := wake_all ws p in
  now p' = now p /\ evs p' = evs p /\ iqs p' = iqs p /\ nfs p' = nfs p /\ started p' = started p
  /\ startup p' = startup p /\ closed p' = closed p /\ fails p' = fails p /\ log p' = log p
  /\ delivered p' = delivered p /\ calls p' = calls p /\ emb p' = emb p.
Proof.
  induction ws as [|w ws IH]; intro p; cbn; [repeat split; auto|].
  specialize (IH (push_now (IWake (fst w) (snd w)) p)). cbn in IH. exact IH.
Qed.

Lemma flush_frame its : forall p,
  let p' := fold_left (fun p it => push_now it p) its p in
  now p' = now p /\ evs p' = evs p /\ iqs p' = iqs p /\ nfs p' = nfs p /\ started p' = started p
  /\ startup p' = startup p /\ closed p' = closed p /\ fails p' = fails p /\ log p' = log p
  /\ delivered p' = delivered p /\ calls p' = calls p /\ emb p' = emb p.
Proof.
  induction its as [|w ws IH]; intro p; cbn; [repeat split; auto|].
  specialize (IH (push_now w p)). cbn in IH. exact IH.
Qed.

Lemma cbfold_frame e o cbs : forall p,
  let p' := fold_left (fun p cb => set_calls (calls p ++ [(now p, e, cb)])
                                     (emit (200 + Z.of_nat cb) (Z.of_nat e) o p)) cbs p in
  now p' = now p /\ agenda p' = agenda p /\ evs p' = evs p /\ iqs p' = iqs p /\ nfs p' = nfs p
  /\ started p' = started p /\ startup p' = startup p /\ closed p' = closed p /\ fails p' = fails p
  /\ delivered p' = delivered p /\ emb p' = emb p
  /\ calls p' = calls p ++ map (fun cb => (now p, e, cb)) cbs.
Proof.
  induction cbs as [|c cbs IH]; intro p; cbn.
  - repeat split; auto. now rewrite app_nil_r.
  - match goal with |- context [fold_left _ cbs ?q] => specialize (IH q) end.
    cbn in IH. destruct IH as (a&b&c0&d&e0&f&g&h&i&j&k&l). repeat split; auto.
    rewrite l, <- app_assoc. reflexivity.
Qed.

(** * One event across one operation *)
Inductive ev_step (x : event) : event -> Prop :=
| es_refl : ev_step x x
| es_trig o t : e_val x = None -> ev_step x (set_e_val o t x)
| es_proc : ev_step x (set_processed x)
| es_wait l : ev_step x (set_e_wait l x)
| es_def : ev_step x (set_e_def x)
| es_cb cb : e_proc x = false -> ev_step x (add_e_cb cb x).

Lemma get_upd_ev_step e f p :
  (forall x, ev_step x (f x)) -> forall n, ev_step (get_ev p n) (get_ev (upd_ev e f p) n).
Proof. intros H n. unfold get_ev, upd_ev; cbn. apply nth_upd_rel; auto. constructor. Qed.

Lemma get_ev_evs p q n : evs q = evs p -> get_ev q n = get_ev p n.
Proof. unfold get_ev; intros ->; auto. Qed.

Lemma trigger_ev_step e o p n : ev_step (get_ev p n) (get_ev (trigger e o p) n).
Proof.
  unfold trigger. destruct (e_val (get_ev p e)) eqn:E; [constructor|].
  set (p0 := upd_ev e (set_e_val o (now p)) p).
  assert (H0 : ev_step (get_ev p n) (get_ev p0 n)).
  { unfold p0, get_ev, upd_ev; cbn.
    destruct (Nat.eq_dec n e) as [->|Hne].
    - destruct (Nat.lt_ge_cases e (length (evs p))).
      + rewrite nth_upd_same by auto. constructor. exact E.
      + rewrite upd_oob by auto. constructor.
    - rewrite nth_upd_other by auto. constructor. }
  destruct (wake_all_frame (e_wait (get_ev p e)) p0) as (_&Hev&_).
  set (p1 := wake_all _ p0) in *.
  assert (H1 : get_ev p1 n = get_ev p0 n) by (apply get_ev_evs; auto).
  destruct (closed p1); [rewrite H1; auto|].
  destruct (started p1); cbn; unfold get_ev in *; cbn; rewrite Hev; exact H0.
Qed.

Lemma run_callbacks_ev_step e p n : ev_step (get_ev p n) (get_ev (run_callbacks e p) n).
Proof.
  unfold run_callbacks. destruct (e_proc (get_ev p e)); [constructor|].
  destruct (cbfold_frame e (enc (val_of p e)) (e_cbs (get_ev p e)) p) as (_&_&Hev&_).
  set (p1 := fold_left _ _ p) in *.
  assert (H : ev_step (get_ev p n) (get_ev (upd_ev e set_processed p1) n)).
  { rewrite <- (get_ev_evs p p1 n Hev). apply get_upd_ev_step. intro; constructor. }
  destruct (is_ok (val_of p e) || e_def (get_ev p e)); exact H.
Qed.

Lemma stop_evs res p : evs (stop res p) = evs p.
Proof. unfold stop; destruct (closed p); reflexivity. Qed.

Lemma pop_ev_step p n : ev_step (get_ev p n) (get_ev (pop p) n).
Proof.
  unfold pop. destruct (agenda p) as [|[t it] rest]; [constructor|].
  set (p1 := set_delivered _ _).
  assert (E : get_ev p n = get_ev p1 n) by reflexivity. rewrite E.
  destruct (closed p1); [constructor|].
  destruct it; try constructor.
  - apply run_callbacks_ev_step.
  - apply trigger_ev_step.
  - unfold get_ev. rewrite stop_evs. constructor.
Qed.

Theorem exec_op_ev_step p o n : ev_step (get_ev p n) (get_ev (exec_op p o) n).
Proof.
  destruct o; cbn [exec_op]; try (constructor; fail).
  - destruct (client_item it && (now p <=? t)); constructor.
  - apply pop_ev_step.
  - apply trigger_ev_step.
  - destruct (triggered p e); [constructor|]. apply get_upd_ev_step; intro; constructor.
  - apply get_upd_ev_step; intro; constructor.
  - destruct (e_proc (get_ev p e)) eqn:E; [constructor|].
    unfold get_ev, upd_ev; cbn. destruct (Nat.eq_dec n e) as [->|Hne].
    + destruct (Nat.lt_ge_cases e (length (evs p))).
      * rewrite nth_upd_same by auto. constructor. exact E.
      * rewrite upd_oob by auto. constructor.
    + rewrite nth_upd_other by auto. constructor.
  - apply get_upd_ev_step; intro; constructor.
  - destruct ((0 <=? d) && negb (closed p) && started p); constructor.
  - destruct (triggered p (q_ev (get_iq p q))); [constructor|].
    destruct (q_causes (get_iq p q)); [|constructor].
    match goal with |- context [wake_all ?ws ?q0] => destruct (wake_all_frame ws q0) as (_&Hev&_) end.
    unfold get_ev. rewrite Hev. constructor.
  - destruct (q_causes (get_iq p q)); constructor.
  - destruct (q_causes (get_iq p q)); constructor.
  - destruct (f_val (get_nf p f)); [constructor|].
    match goal with |- context [wake_all ?ws ?q0] => destruct (wake_all_frame ws q0) as (_&Hev&_) end.
    unfold get_ev. rewrite Hev. constructor.
  - destruct (f_val (get_nf p f)); constructor.
  - destruct (started p); [constructor|].
    match goal with |- context [fold_left ?f ?l ?q0] => destruct (flush_frame l q0) as (_&Hev&_) end.
    unfold get_ev. rewrite Hev. constructor.
  - unfold get_ev. rewrite stop_evs. constructor.
Qed.

(** * trigger_once *)
Theorem trigger_once p e o o' :
  e_val (get_ev p e) = Some o' -> exec_op p (OpTrigger e o) = p.
Proof. intro H; cbn; unfold trigger; rewrite H; reflexivity. Qed.

Definition ev_le (x y : event) : Prop :=
  (forall o, e_val x = Some o -> e_val y = Some o /\ e_time y = e_time x)
  /\ (e_proc x = true -> e_proc y = true)
  /\ (e_def x = true -> e_def y = true)
  /\ e_leaves y = e_leaves x.

Lemma ev_step_le x y : ev_step x y -> ev_le x y.
Proof.
  intros []; unfold ev_le; cbn; repeat split; auto; try congruence.
Qed.

Lemma ev_le_trans x y z : ev_le x y -> ev_le y z -> ev_le x z.
Proof.
  intros (a&b&c&d) (a'&b'&c'&d'); repeat split; auto; try congruence.
  - destruct (a _ H) as [H1 _]; apply (a' _ H1).
  - destruct (a _ H) as [H1 H2]. destruct (a' _ H1) as [_ H3]. congruence.
Qed.

Lemma ev_le_refl x : ev_le x x.
Proof. repeat split; auto. Qed.

Theorem exec_ops_ev_le ops : forall p n, ev_le (get_ev p n) (get_ev (exec_ops p ops) n).
Proof.
  induction ops as [|o ops IH]; intros p n; cbn; [apply ev_le_refl|].
  eapply ev_le_trans; [apply ev_step_le, exec_op_ev_step | apply IH].
Qed.

(** the outcome of a triggered event never changes, whatever happens afterwards *)
Theorem value_stable p e o ops :
  e_val (get_ev p e) = Some o ->
  e_val (get_ev (exec_ops p ops) e) = Some o /\ e_time (get_ev (exec_ops p ops) e) = e_time (get_ev p e).
Proof. intro H. destruct (exec_ops_ev_le ops p e) as (a&_). auto. Qed.

Theorem processed_stable p e ops :
  e_proc (get_ev p e) = true -> e_proc (get_ev (exec_ops p ops) e) = true.
Proof. intro H. destruct (exec_ops_ev_le ops p e) as (_&b&_). auto. Qed.

Lemma op_eq_pop (o : op) : o = OpPop \/ o <> OpPop.
Proof. destruct o; auto; right; discriminate. Qed.

(** * The agenda: every activation runs exactly at its time *)
Definition lb (t : Z) (a : list (Z * item)) : Prop := Forall (fun x => t <= fst x) a.
Fixpoint srt (a : list (Z * item)) : Prop :=
  match a with [] => True | x :: r => lb (fst x) r /\ srt r end.

Definition item_wf (t : Z) (it : item) : Prop :=
  match it with
  | ITmoStart _ d _ born => 0 <= d /\ born = t
  | ITmoFire _ _ born d => t = born + d
  | _ => True
  end.
Definition no_tmo (it : item) : Prop :=
  match it with ITmoStart _ _ _ _ | ITmoFire _ _ _ _ => False | _ => True end.

Definition agenda_ok (p : proto) : Prop :=
  srt (agenda p) /\ lb (now p) (agenda p)
  /\ Forall (fun x => item_wf (fst x) (snd x)) (agenda p)
  /\ Forall no_tmo (startup p).

Lemma no_tmo_wf t it : no_tmo it -> item_wf t it.
Proof. destruct it; cbn; tauto. Qed.

Lemma ins_In t it a x : In x (ins t it a) <-> x = (t, it) \/ In x a.
Proof.
  induction a as [|[t' it'] r IH]; cbn; [intuition|].
  destruct (t' <=? t); cbn; rewrite ?IH; intuition.
Qed.

Lemma lb_le b b' a : b' <= b -> lb b a -> lb b' a.
Proof. intros H; unfold lb; rewrite !Forall_forall; intros F x Hx; specialize (F x Hx); lia. Qed.

Lemma ins_lb b t it a : b <= t -> lb b a -> lb b (ins t it a).
Proof.
  unfold lb; rewrite !Forall_forall; intros H F x Hx. apply ins_In in Hx as [->|Hx]; cbn; auto.
Qed.

Lemma ins_srt t it a : srt a -> srt (ins t it a).
Proof.
  induction a as [|[t' it'] r IH]; cbn; [intros _; split; [constructor|auto]|].
  intros [Hl Hs]. destruct (Z.leb_spec t' t); cbn.
  - split; [apply ins_lb; auto | auto].
  - split; [|split; auto]. constructor; cbn; [lia|]. eapply lb_le; [|exact Hl]. cbn; lia.
Qed.

Lemma ins_Forall (P : Z * item -> Prop) t it a : P (t, it) -> Forall P a -> Forall P (ins t it a).
Proof. rewrite !Forall_forall; intros H F x Hx; apply ins_In in Hx as [->|Hx]; auto. Qed.

(** [grow p q]: [q] is [p] with more activations scheduled at or after the present *)
Definition grow (p q : proto) : Prop :=
  now q = now p /\ incl (agenda p) (agenda q) /\ delivered q = delivered p
  /\ (agenda_ok p -> agenda_ok q).

Lemma grow_refl p : grow p p.
Proof. unfold grow; split; [|split; [|split]]; auto. apply incl_refl. Qed.

Lemma grow_trans p q r : grow p q -> grow q r -> grow p r.
Proof.
  intros (a&b&c&d) (a'&b'&c'&d'); unfold grow; split; [|split; [|split]]; try congruence; auto.
  eapply incl_tran; eauto.
Qed.

Lemma grow_same p q :
  now q = now p -> agenda q = agenda p -> delivered q = delivered p -> startup q = startup p -> grow p q.
Proof.
  intros a b c d; unfold grow, agenda_ok; rewrite a, b, c, d; repeat split; auto; try tauto.
  apply incl_refl.
Qed.

Lemma grow_push t it p : now p <= t -> item_wf t it -> grow p (push t it p).
Proof.
  intros H W; unfold grow, agenda_ok; cbn; repeat split; auto.
  - intros x Hx; apply ins_In; auto.
  - apply ins_srt; tauto.
  - apply ins_lb; tauto.
  - apply ins_Forall; tauto.
  - tauto.
Qed.

Lemma grow_push_now it p : no_tmo it -> grow p (push_now it p).
Proof. intro; apply grow_push; [lia | apply no_tmo_wf; auto]. Qed.

Lemma grow_wake_all ws : forall p, grow p (wake_all ws p).
Proof.
  induction ws as [|w ws IH]; intro p; cbn; [apply grow_refl|].
  eapply grow_trans; [|apply IH]. apply grow_push_now; exact I.
Qed.

Lemma grow_flush its : forall p, Forall no_tmo its -> grow p (fold_left (fun p it => push_now it p) its p).
Proof.
  induction its as [|w ws IH]; intros p F; cbn; [apply grow_refl|].
  inversion F; subst. eapply grow_trans; [|apply IH; auto]. apply grow_push_now; auto.
Qed.

Lemma flush_basic its : forall p,
  let p' := fold_left (fun p it => push_now it p) its p in
  now p' = now p /\ incl (agenda p) (agenda p') /\ delivered p' = delivered p.
Proof.
  induction its as [|w ws IH]; intro p; cbn; [repeat split; auto; apply incl_refl|].
  destruct (IH (push_now w p)) as (a&b&c). cbn in *. repeat split; auto.
  eapply incl_tran; [|exact b]. intros x Hx; apply ins_In; auto.
Qed.

Lemma grow_startup it p : no_tmo it -> grow p (set_started false (startup p ++ [it]) p).
Proof.
  intro H; unfold grow, agenda_ok; cbn; repeat split; try tauto; try apply incl_refl.
  apply Forall_app; split; [tauto | constructor; auto].
Qed.

Lemma grow_trigger e o p : grow p (trigger e o p).
Proof.
  unfold trigger. destruct (e_val (get_ev p e)); [apply grow_refl|].
  set (p0 := upd_ev e _ p).
  assert (G0 : grow p p0) by (apply grow_same; reflexivity).
  assert (G1 : grow p (wake_all (e_wait (get_ev p e)) p0)) by (eapply grow_trans; [exact G0 | apply grow_wake_all]).
  set (p1 := wake_all _ p0) in *.
  destruct (closed p1); auto. destruct (started p1).
  - eapply grow_trans; [exact G1 | apply grow_push_now; exact I].
  - eapply grow_trans; [exact G1 | apply grow_startup; exact I].
Qed.

Lemma grow_stop res p : grow p (stop res p).
Proof. unfold stop; destruct (closed p); [apply grow_refl | apply grow_same; reflexivity]. Qed.

Lemma grow_run_callbacks e p : grow p (run_callbacks e p).
Proof.
  unfold run_callbacks. destruct (e_proc (get_ev p e)); [apply grow_refl|].
  destruct (cbfold_frame e (enc (val_of p e)) (e_cbs (get_ev p e)) p) as (a&b&_&_&_&_&g&_&_&j&_).
  set (p1 := fold_left _ _ p) in *.
  assert (G : grow p (upd_ev e set_processed p1)) by (apply grow_same; cbn; auto).
  destruct (is_ok (val_of p e) || e_def (get_ev p e)); auto.
  eapply grow_trans; [exact G|]. 
  eapply grow_trans; [|apply grow_push_now; exact I]. apply grow_same; reflexivity.
Qed.

Lemma grow_exec_op p o : o <> OpPop -> grow p (exec_op p o).
Proof.
  intro NP; destruct o; cbn [exec_op]; try congruence; try (apply grow_same; reflexivity).
  - destruct (client_item it) eqn:C; cbn; [|apply grow_refl].
    destruct (Z.leb_spec (now p) t); [|apply grow_refl].
    apply grow_push; auto. destruct it; cbn in *; auto; discriminate.
  - apply grow_trigger.
  - destruct (triggered p e); [apply grow_push_now; exact I | apply grow_same; reflexivity].
  - destruct (e_proc (get_ev p e)); [apply grow_refl | apply grow_same; reflexivity].
  - destruct (Z.leb_spec 0 d); cbn; [|apply grow_refl].
    destruct (closed p); cbn; [apply grow_refl|]. destruct (started p); [|apply grow_refl].
    apply grow_push; [lia | cbn; auto].
  - destruct (triggered p _); [apply grow_refl|].
    destruct (q_causes (get_iq p q)); [|apply grow_same; reflexivity].
    eapply grow_trans; [|apply grow_wake_all]. apply grow_same; reflexivity.
  - destruct (q_causes (get_iq p q)); [apply grow_refl | apply grow_same; reflexivity].
  - destruct (q_causes (get_iq p q)); [apply grow_same; reflexivity | apply grow_push_now; exact I].
  - destruct (f_val (get_nf p f)); [apply grow_refl|].
    eapply grow_trans; [|apply grow_wake_all]. apply grow_same; reflexivity.
  - destruct (f_val (get_nf p f)); [apply grow_push_now; exact I | apply grow_same; reflexivity].
  - destruct (started p) eqn:S; [apply grow_refl|].
    destruct (flush_basic (startup p) (set_started true [] p)) as (a&b&c).
    unfold grow; split; [|split; [|split]]; auto.
    intros OK. assert (F : Forall no_tmo (startup p)) by (unfold agenda_ok in OK; tauto).
    destruct (grow_flush (startup p) (set_started true [] p) F) as (_&_&_&d). apply d.
    unfold agenda_ok in *; cbn; intuition.
  - apply grow_stop.
Qed.

(** the head of the agenda is executed at its own time; everything else stays *)
Definition pop1 t it rest p := set_delivered (delivered p ++ [(t, it)]) (set_agenda rest (set_now t p)).
Definition pop2 t it p1 :=
  if closed p1 then p1 else
  match it with
  | ICallbacks e => run_callbacks e p1
  | ITmoStart e d v born => push (t + d) (ITmoFire e v born d) p1
  | ITmoFire e v _ _ => trigger e (OVal v) p1
  | IStopFail => stop (11 :: enc (hd (OVal 0) (fails p1))) p1
  | _ => p1
  end.

Lemma pop_eq p t it rest : agenda p = (t, it) :: rest -> pop p = pop2 t it (pop1 t it rest p).
Proof. intro A; unfold pop; rewrite A; reflexivity. Qed.

Lemma pop1_ok p t it rest : agenda p = (t, it) :: rest -> agenda_ok p -> agenda_ok (pop1 t it rest p).
Proof.
  intros A (a&b&c&d). rewrite A in *. cbn in a. inversion c; subst.
  unfold agenda_ok; cbn; tauto.
Qed.

Lemma pop2_grow t it p1 : item_wf t it -> now p1 = t -> grow p1 (pop2 t it p1).
Proof.
  intros W N. unfold pop2. destruct (closed p1); [apply grow_refl|].
  destruct it; try apply grow_refl.
  - apply grow_run_callbacks.
  - cbn in W. apply grow_push; [lia | cbn; lia].
  - apply grow_trigger.
  - apply grow_stop.
Qed.

Lemma pop_ok p : agenda_ok p -> agenda_ok (pop p).
Proof.
  intro OK. destruct (agenda p) as [|[t it] rest] eqn:A; [unfold pop; rewrite A; auto|].
  rewrite (pop_eq _ _ _ _ A).
  assert (W : item_wf t it).
  { destruct OK as (_&_&c&_). rewrite A in c. inversion c; auto. }
  destruct (pop2_grow t it (pop1 t it rest p) W eq_refl) as (_&_&_&d). apply d.
  apply pop1_ok; auto.
Qed.

Theorem exec_op_agenda_ok p o : agenda_ok p -> agenda_ok (exec_op p o).
Proof.
  destruct (op_eq_pop o) as [->|NP]; [apply pop_ok|].
  intro OK. destruct (grow_exec_op p o NP) as (_&_&_&d). auto.
Qed.

Theorem exec_ops_agenda_ok ops : forall p, agenda_ok p -> agenda_ok (exec_ops p ops).
Proof. induction ops; intros p H; cbn; auto. apply IHops, exec_op_agenda_ok, H. Qed.

(** virtual time never goes back *)
Theorem now_mono_op p o : agenda_ok p -> now p <= now (exec_op p o).
Proof.
  intro OK. destruct (op_eq_pop o) as [->|NP].
  - destruct (agenda p) as [|[t it] rest] eqn:A; [cbn; unfold pop; rewrite A; lia|].
    cbn [exec_op]. rewrite (pop_eq _ _ _ _ A).
    assert (W : item_wf t it /\ now p <= t).
    { destruct OK as (_&b&c&_). rewrite A in *. inversion c; inversion b; subst; auto. }
    destruct (pop2_grow t it (pop1 t it rest p) (proj1 W) eq_refl) as (a&_). rewrite a. cbn. tauto.
  - destruct (grow_exec_op p o NP) as (a&_). lia.
Qed.

Theorem now_mono ops : forall p, agenda_ok p -> now p <= now (exec_ops p ops).
Proof.
  induction ops as [|o ops IH]; intros p H; [cbn; lia|].
  change (exec_ops p (o :: ops)) with (exec_ops (exec_op p o) ops).
  specialize (IH _ (exec_op_agenda_ok p o H)). pose proof (now_mono_op p o H). lia.
Qed.

(** an activation scheduled for time [t] is executed at exactly [t], or is still waiting while
    the clock has not passed [t] - whatever else happens *)
Definition pending_or_done (t : Z) (it : item) (p : proto) : Prop :=
  (In (t, it) (agenda p) /\ now p <= t) \/ In (t, it) (delivered p).

Lemma pending_step p o t it :
  agenda_ok p -> pending_or_done t it p -> pending_or_done t it (exec_op p o).
Proof.
  intros OK [[HI HN]|HD].
  - destruct (op_eq_pop o) as [->|NP].
    + destruct (agenda p) as [|[t' it'] rest] eqn:A; [destruct HI|].
      cbn [exec_op]. rewrite (pop_eq _ _ _ _ A).
      assert (W : item_wf t' it').
      { destruct OK as (_&_&c&_). rewrite A in c. inversion c; auto. }
      destruct (pop2_grow t' it' (pop1 t' it' rest p) W eq_refl) as (a&b&c&_).
      destruct HI as [E|HI].
      * right. rewrite c. cbn. apply in_or_app; right; left; auto.
      * left. split; [apply b; exact HI|]. rewrite a; cbn.
        destruct OK as (s&_). rewrite A in s. cbn in s. destruct s as [s _].
        unfold lb in s. rewrite Forall_forall in s. apply (s _ HI).
    + destruct (grow_exec_op p o NP) as (a&b&c&_). left; split; [apply b; auto | lia].
  - right. destruct (op_eq_pop o) as [->|NP].
    + destruct (agenda p) as [|[t' it'] rest] eqn:A; [cbn; unfold pop; rewrite A; auto|].
      cbn [exec_op]. rewrite (pop_eq _ _ _ _ A).
      assert (W : item_wf t' it').
      { destruct OK as (_&_&c&_). rewrite A in c. inversion c; auto. }
      destruct (pop2_grow t' it' (pop1 t' it' rest p) W eq_refl) as (_&_&c&_).
      rewrite c. cbn. apply in_or_app; auto.
    + destruct (grow_exec_op p o NP) as (_&_&c&_). rewrite c; auto.
Qed.

Theorem delivered_exactly_at p t it ops :
  agenda_ok p -> In (t, it) (agenda p) -> pending_or_done t it (exec_ops p ops).
Proof.
  intros OK HI.
  assert (P : pending_or_done t it p).
  { left; split; auto. destruct OK as (_&b&_). unfold lb in b; rewrite Forall_forall in b. apply (b _ HI). }
  clear HI. revert p OK P. induction ops as [|o ops IH]; intros p OK P; cbn; auto.
  apply IH; [apply exec_op_agenda_ok; auto | apply pending_step; auto].
Qed.

(** every executed activation carries the time it was scheduled for: in particular a Timeout
    task created at [born] with [delay = d] resumes (and triggers its event) at exactly [born + d] *)
Definition delivered_wf (p : proto) : Prop := Forall (fun x => item_wf (fst x) (snd x)) (delivered p).

Lemma delivered_wf_op p o : agenda_ok p -> delivered_wf p -> delivered_wf (exec_op p o).
Proof.
  intros OK D. destruct (op_eq_pop o) as [->|NP].
  - destruct (agenda p) as [|[t it] rest] eqn:A; [cbn; unfold pop; rewrite A; auto|].
    cbn [exec_op]. rewrite (pop_eq _ _ _ _ A).
    assert (W : item_wf t it).
    { destruct OK as (_&_&c&_). rewrite A in c. inversion c; auto. }
    destruct (pop2_grow t it (pop1 t it rest p) W eq_refl) as (_&_&c&_).
    unfold delivered_wf. rewrite c. cbn. apply Forall_app; split; auto.
  - destruct (grow_exec_op p o NP) as (_&_&c&_). unfold delivered_wf; rewrite c; auto.
Qed.

Theorem timeout_exact ops : forall p,
  agenda_ok p -> delivered_wf p ->
  forall t e v born d, In (t, ITmoFire e v born d) (delivered (exec_ops p ops)) -> t = born + d.
Proof.
  induction ops as [|o ops IH]; intros p OK D t e v born d H; cbn in H.
  - unfold delivered_wf in D; rewrite Forall_forall in D. apply (D _ H).
  - eapply IH; [apply exec_op_agenda_ok; eauto | apply delivered_wf_op; eauto | exact H].
Qed.

(** creation stamps [born = now]; the first activation schedules the resumption [d] later;
    the resumption triggers the event with the fixed value at the current time *)
Lemma timeout_created p e d v :
  started p = true -> closed p = false -> 0 <= d ->
  In (now p, ITmoStart e d v (now p)) (agenda (exec_op p (OpTimeout e d v))).
Proof.
  intros S C D. cbn. destruct (Z.leb_spec 0 d); [|lia]. rewrite C, S. cbn. apply ins_In; auto.
Qed.

Lemma timeout_started p t e d v born rest :
  agenda p = (t, ITmoStart e d v born) :: rest -> closed p = false ->
  In (t + d, ITmoFire e v born d) (agenda (exec_op p OpPop)).
Proof.
  intros A C. cbn [exec_op]. rewrite (pop_eq _ _ _ _ A). unfold pop2. cbn. rewrite C.
  apply ins_In; auto.
Qed.

Lemma timeout_fired p t e v born d rest :
  agenda p = (t, ITmoFire e v born d) :: rest -> closed p = false ->
  e_val (get_ev p e) = None -> (e < length (evs p))%nat ->
  let p' := exec_op p OpPop in
  now p' = t /\ e_val (get_ev p' e) = Some (OVal v) /\ e_time (get_ev p' e) = t.
Proof.
  intros A C V L. cbn [exec_op]. rewrite (pop_eq _ _ _ _ A). unfold pop2. cbn [closed pop1 set_delivered set_agenda set_now].
  rewrite C. set (p1 := pop1 _ _ _ p).
  assert (V1 : e_val (get_ev p1 e) = None) by exact V.
  destruct (grow_trigger e (OVal v) p1) as (a&_). split; [exact a|].
  unfold trigger. rewrite V1.
  set (p0 := upd_ev e _ p1).
  destruct (wake_all_frame (e_wait (get_ev p1 e)) p0) as (_&Hev&_).
  set (p2 := wake_all _ p0) in *.
  assert (G : get_ev p0 e = set_e_val (OVal v) t (get_ev p1 e)).
  { unfold p0, get_ev, upd_ev. cbn [evs set_evs]. apply nth_upd_same. exact L. }
  assert (G2 : forall q, evs q = evs p2 -> e_val (get_ev q e) = Some (OVal v) /\ e_time (get_ev q e) = t).
  { intros q Hq. rewrite (get_ev_evs p2 q e Hq), (get_ev_evs p0 p2 e Hev), G. cbn. auto. }
  destruct (closed p2); [apply G2; auto|]. destruct (started p2); apply G2; reflexivity.
Qed.

(** * Waiters resume at the trigger time with the value *)
Lemma wake_all_In ws : forall p w, In w ws -> In (now p, IWake (fst w) (snd w)) (agenda (wake_all ws p)).
Proof.
  induction ws as [|x ws IH]; intros p w H; [destruct H|]. cbn.
  destruct H as [->|H].
  - destruct (grow_wake_all ws (push_now (IWake (fst w) (snd w)) p)) as (_&b&_).
    apply b. cbn. apply ins_In; auto.
  - apply (IH (push_now (IWake (fst x) (snd x)) p) w H).
Qed.

Lemma trigger_effect p e o :
  e_val (get_ev p e) = None -> (e < length (evs p))%nat ->
  let p' := trigger e o p in
  now p' = now p
  /\ e_val (get_ev p' e) = Some o /\ e_time (get_ev p' e) = now p /\ e_wait (get_ev p' e) = []
  /\ (forall w, In w (e_wait (get_ev p e)) -> In (now p, IWake (fst w) (snd w)) (agenda p')).
Proof.
  intros V L. cbn zeta. destruct (grow_trigger e o p) as (a&_). split; [exact a|].
  unfold trigger. rewrite V.
  set (p0 := upd_ev e _ p).
  destruct (wake_all_frame (e_wait (get_ev p e)) p0) as (_&Hev&_).
  pose proof (wake_all_In (e_wait (get_ev p e)) p0) as HW.
  set (p2 := wake_all _ p0) in *.
  assert (G : get_ev p0 e = set_e_val o (now p) (get_ev p e)).
  { unfold p0, get_ev, upd_ev. cbn [evs set_evs]. apply nth_upd_same. exact L. }
  assert (G2 : forall q, evs q = evs p2 -> incl (agenda p2) (agenda q) ->
     e_val (get_ev q e) = Some o /\ e_time (get_ev q e) = now p /\ e_wait (get_ev q e) = []
     /\ (forall w, In w (e_wait (get_ev p e)) -> In (now p, IWake (fst w) (snd w)) (agenda q))).
  { intros q Hq Hi. rewrite (get_ev_evs p2 q e Hq), (get_ev_evs p0 p2 e Hev), G. cbn.
    repeat split; auto; intros w Hw; apply Hi; apply (HW w Hw). }
  destruct (closed p2); [apply G2; auto; apply incl_refl|]. destruct (started p2); apply G2; try reflexivity.
  - cbn. intros x Hx; apply ins_In; auto.
  - apply incl_refl.
Qed.

(** The composition: once [e] is triggered with outcome [o] at time [T], then after ANY further
    history every process / activity that was waiting for [e] either has been resumed - at exactly
    [T] - or its wake-up is still queued and the clock still reads [T]; and [e] still has the
    outcome [o] (so that is the value it reads when it runs). *)
Theorem waiters_resume_at_trigger_time p e o w ops :
  agenda_ok p -> e_val (get_ev p e) = None -> In w (e_wait (get_ev p e)) ->
  let T := now p in
  let p' := exec_ops (exec_op p (OpTrigger e o)) ops in
  e_val (get_ev p' e) = Some o /\ e_time (get_ev p' e) = T
  /\ ((In (T, IWake (fst w) (snd w)) (agenda p') /\ now p' = T)
      \/ In (T, IWake (fst w) (snd w)) (delivered p')).
Proof.
  intros OK V HW. cbn zeta.
  assert (L : (e < length (evs p))%nat).
  { destruct (Nat.lt_ge_cases e (length (evs p))); auto.
    unfold get_ev in HW. rewrite nth_overflow in HW by auto. destruct HW. }
  destruct (trigger_effect p e o V L) as (a&b&c&_&f).
  change (exec_op p (OpTrigger e o)) with (trigger e o p).
  set (p1 := trigger e o p) in *.
  assert (OK1 : agenda_ok p1) by (apply (exec_op_agenda_ok p (OpTrigger e o) OK)).
  destruct (value_stable p1 e o ops b) as [v1 v2]. split; [exact v1|]. split; [congruence|].
  destruct (delivered_exactly_at p1 (now p) (IWake (fst w) (snd w)) ops OK1 (f w HW)) as [[x y]|x]; auto.
  left; split; auto. pose proof (now_mono ops p1 OK1). lia.
Qed.

(** * Callbacks run exactly once *)
Definition calls_of (e : nat) (p : proto) : list nat :=
  map snd (filter (fun c => Nat.eqb (snd (fst c)) e) (calls p)).

Definition cb_inv (p : proto) : Prop :=
  forall e, let x := get_ev p e in
    (e_proc x = false -> e_cbs x = e_added x /\ calls_of e p = [])
    /\ (e_proc x = true -> e_cbs x = [] /\ calls_of e p = e_added x).

Lemma calls_of_ext p q e : calls q = calls p -> calls_of e q = calls_of e p.
Proof. unfold calls_of; intros ->; auto. Qed.

Lemma cb_inv_ext p q : evs q = evs p -> calls q = calls p -> cb_inv p -> cb_inv q.
Proof.
  intros E C H e. unfold get_ev. rewrite E, (calls_of_ext p q e C). apply H.
Qed.

Lemma trigger_calls e o p : calls (trigger e o p) = calls p.
Proof.
  unfold trigger. destruct (e_val (get_ev p e)); auto.
  match goal with |- context [wake_all ?ws ?q0] => destruct (wake_all_frame ws q0) as (_&_&_&_&_&_&_&_&_&_&Hc&_) end.
  set (p1 := wake_all _ _) in *. destruct (closed p1); auto. destruct (started p1); cbn; auto.
Qed.

Definition cb_same (x y : event) : Prop :=
  e_proc y = e_proc x /\ e_cbs y = e_cbs x /\ e_added y = e_added x.

Lemma cb_inv_upd p q e f :
  (forall x, cb_same x (f x)) -> evs q = upd e f (evs p) -> calls q = calls p -> cb_inv p -> cb_inv q.
Proof.
  intros F E C H n. unfold get_ev. rewrite E, (calls_of_ext p q n C).
  assert (R : cb_same (nth n (evs p) ev0) (nth n (upd e f (evs p)) ev0)).
  { apply nth_upd_rel; auto. intro; repeat split. }
  destruct R as (a&b&c). cbn zeta. rewrite a, b, c. apply H.
Qed.

Lemma trigger_evs e o p :
  evs (trigger e o p) = match e_val (get_ev p e) with
                        | Some _ => evs p | None => upd e (set_e_val o (now p)) (evs p) end.
Proof.
  unfold trigger. destruct (e_val (get_ev p e)); auto.
  match goal with |- context [wake_all ?ws ?q0] => destruct (wake_all_frame ws q0) as (_&Hev&_) end.
  set (p1 := wake_all _ _) in *. destruct (closed p1); auto. destruct (started p1); cbn; auto.
Qed.

Lemma cb_inv_trigger e o p : cb_inv p -> cb_inv (trigger e o p).
Proof.
  intro H. pose proof (trigger_evs e o p) as E. destruct (e_val (get_ev p e)).
  - eapply cb_inv_ext; eauto. apply trigger_calls.
  - eapply cb_inv_upd; eauto; [|apply trigger_calls]. intro; repeat split.
Qed.

Lemma filter_calls_same t e l :
  map snd (filter (fun c : Z * nat * nat => Nat.eqb (snd (fst c)) e) (map (fun cb => (t, e, cb)) l)) = l.
Proof. induction l; cbn; auto. rewrite Nat.eqb_refl. cbn. congruence. Qed.

Lemma filter_calls_other t e n l : n <> e ->
  filter (fun c : Z * nat * nat => Nat.eqb (snd (fst c)) n) (map (fun cb => (t, e, cb)) l) = [].
Proof.
  intro H. induction l; cbn; auto. destruct (Nat.eqb_spec e n); [congruence | auto].
Qed.

Lemma cb_inv_run_callbacks e p : cb_inv p -> cb_inv (run_callbacks e p).
Proof.
  intro H. unfold run_callbacks. destruct (e_proc (get_ev p e)) eqn:P; auto.
  destruct (cbfold_frame e (enc (val_of p e)) (e_cbs (get_ev p e)) p) as (_&_&Hev&_&_&_&_&_&_&_&_&Hc).
  set (p1 := fold_left _ _ p) in *.
  assert (G : cb_inv (upd_ev e set_processed p1)).
  { intro n. unfold get_ev, upd_ev, calls_of. cbn [evs set_evs calls]. rewrite Hev, Hc.
    rewrite filter_app, map_app.
    destruct (Nat.eq_dec n e) as [->|Hne].
    - rewrite filter_calls_same. destruct (H e) as [H1 _]. destruct (H1 P) as [Hc1 Hc2].
      unfold calls_of in Hc2. rewrite Hc2. cbn [app].
      destruct (Nat.lt_ge_cases e (length (evs p))).
      + rewrite nth_upd_same by auto. cbn. split; [discriminate|]. intros _. split; auto.
      + rewrite upd_oob by auto. unfold get_ev in *. rewrite nth_overflow in * by auto. cbn. split; intros; try discriminate; auto.
    - rewrite filter_calls_other by auto. rewrite nth_upd_other by auto. cbn [map]. rewrite app_nil_r. apply (H n). }
  destruct (is_ok (val_of p e) || e_def (get_ev p e)); exact G.
Qed.

Lemma cb_inv_pop p : cb_inv p -> cb_inv (pop p).
Proof.
  intro H. destruct (agenda p) as [|[t it] rest] eqn:A; [unfold pop; rewrite A; auto|].
  rewrite (pop_eq _ _ _ _ A).
  assert (H1 : cb_inv (pop1 t it rest p)) by (eapply cb_inv_ext; [| |exact H]; reflexivity).
  unfold pop2. destruct (closed _); auto. destruct it; auto.
  - apply cb_inv_run_callbacks; auto.
  - apply cb_inv_trigger; auto.
  - unfold stop. destruct (closed _); auto.
Qed.

Lemma cb_inv_addcb e cb p : e_proc (get_ev p e) = false -> cb_inv p -> cb_inv (upd_ev e (add_e_cb cb) p).
Proof.
  intros P H n. unfold get_ev, upd_ev, calls_of. cbn [evs set_evs calls].
  destruct (Nat.eq_dec n e) as [->|Hne].
  - destruct (Nat.lt_ge_cases e (length (evs p))).
    + rewrite nth_upd_same by auto. destruct (H e) as [H1 _]. destruct (H1 P) as [a b]. cbn.
      fold (get_ev p e). rewrite P. split; [|discriminate]. intros _. split; [congruence|exact b].
    + rewrite upd_oob by auto. apply (H e).
  - rewrite nth_upd_other by auto. apply (H n).
Qed.

(** every registered callback of an event is invoked exactly once, in registration order, when the
    event is processed - and never before or again *)
Ltac cbi H :=
  first [ exact H
        | eapply cb_inv_ext; [| |exact H]; reflexivity
        | eapply cb_inv_upd; [| reflexivity | reflexivity | exact H]; intro; repeat split ].

Lemma cb_inv_wake_all ws p : cb_inv p -> cb_inv (wake_all ws p).
Proof.
  intro H. destruct (wake_all_frame ws p) as (_&Hev&_&_&_&_&_&_&_&_&Hc&_).
  eapply cb_inv_ext; [exact Hev | exact Hc | exact H].
Qed.

Theorem callbacks_once_op p o : cb_inv p -> cb_inv (exec_op p o).
Proof.
  intro H. destruct o; cbn [exec_op]; try (cbi H).
  - destruct (client_item it && (now p <=? t)); cbi H.
  - apply cb_inv_pop; auto.
  - apply cb_inv_trigger; auto.
  - destruct (triggered p e); cbi H.
  - destruct (e_proc (get_ev p e)) eqn:P; auto. apply cb_inv_addcb; auto.
  - destruct ((0 <=? d) && negb (closed p) && started p); cbi H.
  - destruct (triggered p _); auto. destruct (q_causes (get_iq p q)); [|cbi H].
    apply cb_inv_wake_all. cbi H.
  - destruct (q_causes (get_iq p q)); cbi H.
  - destruct (q_causes (get_iq p q)); cbi H.
  - destruct (f_val (get_nf p f)); auto. apply cb_inv_wake_all. cbi H.
  - destruct (f_val (get_nf p f)); cbi H.
  - destruct (started p); auto.
    match goal with |- context [fold_left ?f ?l ?q0] => destruct (flush_frame l q0) as (_&Hev&_&_&_&_&_&_&_&_&Hc&_) end.
    eapply cb_inv_ext; [exact Hev | exact Hc |]. cbi H.
  - unfold stop. destruct (closed p); cbi H.
Qed.

Theorem callbacks_once ops : forall p, cb_inv p -> cb_inv (exec_ops p ops).
Proof. induction ops; intros p H; cbn; auto. apply IHops, callbacks_once_op, H. Qed.

(** * Interrupt queues: FIFO, nothing lost, nothing duplicated, ignored for a finished process *)
Definition iq_ok (x : iq) : Prop := q_acc x = q_del x ++ q_causes x.
Definition iq_inv (p : proto) : Prop := forall q, iq_ok (get_iq p q).

Lemma iq_inv_ext p q : iqs q = iqs p -> iq_inv p -> iq_inv q.
Proof. intros E H n. unfold get_iq. rewrite E. apply H. Qed.

Lemma iq_inv_upd p p' q f :
  (forall x, iq_ok x -> iq_ok (f x)) -> iqs p' = upd q f (iqs p) -> iq_inv p -> iq_inv p'.
Proof.
  intros F E H n. unfold get_iq. rewrite E.
  apply (nth_upd_rel (fun x y => iq_ok x -> iq_ok y)); auto. apply H.
Qed.

Lemma trigger_frame e o p :
  let p' := trigger e o p in
  iqs p' = iqs p /\ nfs p' = nfs p /\ closed p' = closed p /\ log p' = log p /\ fails p' = fails p.
Proof.
  cbn zeta. unfold trigger. destruct (e_val (get_ev p e)); [repeat split|].
  match goal with |- context [wake_all ?ws ?q0] => destruct (wake_all_frame ws q0) as (_&_&a&b&_&_&c&d&f&_) end.
  cbn [iqs nfs closed fails log upd_ev set_evs] in a, b, c, d, f.
  set (p1 := wake_all _ _) in *. destruct (closed p1) eqn:C; [repeat split; auto; congruence|].
  destruct (started p1); cbn; repeat split; auto; congruence.
Qed.

Lemma run_callbacks_frame e p :
  let p' := run_callbacks e p in iqs p' = iqs p /\ nfs p' = nfs p /\ closed p' = closed p.
Proof.
  cbn zeta. unfold run_callbacks. destruct (e_proc (get_ev p e)); [repeat split|].
  destruct (cbfold_frame e (enc (val_of p e)) (e_cbs (get_ev p e)) p) as (_&_&_&a&b&_&_&c&_).
  set (p1 := fold_left _ _ p) in *.
  destruct (is_ok (val_of p e) || e_def (get_ev p e)); cbn; repeat split; auto.
Qed.

Lemma pop_frame p : iqs (pop p) = iqs p /\ nfs (pop p) = nfs p.
Proof.
  destruct (agenda p) as [|[t it] rest] eqn:A; [unfold pop; rewrite A; auto|].
  rewrite (pop_eq _ _ _ _ A). unfold pop2. set (p1 := pop1 _ _ _ p).
  destruct (closed p1); [split; reflexivity|].
  destruct it; try (split; reflexivity).
  - destruct (run_callbacks_frame e p1) as (a&b&_). split; auto.
  - destruct (trigger_frame e (OVal v) p1) as (a&b&_). split; auto.
  - unfold stop. destruct (closed p1); split; reflexivity.
Qed.

Ltac iqi H :=
  first [ exact H | eapply iq_inv_ext; [|exact H]; reflexivity ].

Theorem interrupt_fifo_op p o : iq_inv p -> iq_inv (exec_op p o).
Proof.
  intro H. destruct o; cbn [exec_op]; try (iqi H).
  - destruct (client_item it && (now p <=? t)); iqi H.
  - eapply iq_inv_ext; [apply pop_frame | exact H].
  - eapply iq_inv_ext; [apply trigger_frame | exact H].
  - destruct (triggered p e); iqi H.
  - destruct (e_proc (get_ev p e)); iqi H.
  - destruct ((0 <=? d) && negb (closed p) && started p); iqi H.
  - destruct (triggered p _); auto.
    assert (G : iq_inv (upd_iq q (fun x => mkIq (q_ev x) (q_causes x ++ [c]) (q_wait x) (q_acc x ++ [c]) (q_del x)) p)).
    { eapply iq_inv_upd; [| reflexivity | exact H]. unfold iq_ok; cbn. intros x ->. now rewrite app_assoc. }
    destruct (q_causes (get_iq p q)); auto.
    match goal with |- context [wake_all ?ws ?q0] => destruct (wake_all_frame ws q0) as (_&_&a&_) end.
    eapply iq_inv_ext; [exact a|]. eapply iq_inv_upd; [| reflexivity | exact G]. unfold iq_ok; cbn; auto.
  - destruct (q_causes (get_iq p q)) as [|c r] eqn:E; auto.
    intro n. unfold get_iq, upd_iq; cbn [iqs set_iqs].
    destruct (Nat.eq_dec n q) as [->|Hne].
    + destruct (Nat.lt_ge_cases q (length (iqs p))).
      * rewrite nth_upd_same by auto. unfold iq_ok; cbn. fold (get_iq p q). rewrite (H q), E, <- app_assoc. reflexivity.
      * rewrite upd_oob by auto. apply H.
    + rewrite nth_upd_other by auto. apply H.
  - destruct (q_causes (get_iq p q)); [|iqi H].
    eapply iq_inv_upd; [| reflexivity | exact H]. unfold iq_ok; cbn; auto.
  - eapply iq_inv_upd; [| reflexivity | exact H]. unfold iq_ok; cbn; auto.
  - destruct (f_val (get_nf p f)); auto.
    match goal with |- context [wake_all ?ws ?q0] => destruct (wake_all_frame ws q0) as (_&_&a&_) end.
    eapply iq_inv_ext; [exact a|]. iqi H.
  - destruct (f_val (get_nf p f)); iqi H.
  - destruct (started p); auto.
    match goal with |- context [fold_left ?f ?l ?q0] => destruct (flush_frame l q0) as (_&_&a&_) end.
    eapply iq_inv_ext; [exact a|]. iqi H.
  - unfold stop. destruct (closed p); iqi H.
Qed.

(** accepted interrupts = delivered ++ pending, in call order, after any history *)
Theorem interrupt_fifo ops : forall p, iq_inv p -> iq_inv (exec_ops p ops).
Proof. induction ops; intros p H; cbn; auto. apply IHops, interrupt_fifo_op, H. Qed.

(** one delivery takes exactly the oldest pending interrupt *)
Theorem interrupt_pop_oldest p q c r :
  q_causes (get_iq p q) = c :: r -> (q < length (iqs p))%nat ->
  let x := get_iq (exec_op p (OpIntPop q)) q in
  q_causes x = r /\ q_del x = q_del (get_iq p q) ++ [c].
Proof.
  intros E L. cbn. rewrite E. unfold get_iq, upd_iq; cbn [iqs set_iqs].
  rewrite nth_upd_same by auto. cbn. auto.
Qed.

Theorem interrupt_finished_noop p q c :
  triggered p (q_ev (get_iq p q)) = true -> exec_op p (OpIntPush q c) = p.
Proof. intro H; cbn; rewrite H; reflexivity. Qed.

(** an interrupt of a live, idle queue wakes the process in the current time step *)
Theorem interrupt_wakes_now p q c w :
  triggered p (q_ev (get_iq p q)) = false -> q_causes (get_iq p q) = [] ->
  In w (q_wait (get_iq p q)) ->
  let p' := exec_op p (OpIntPush q c) in
  now p' = now p /\ In (now p, IWake (fst w) (snd w)) (agenda p').
Proof.
  intros T E HW. cbn. rewrite T, E.
  match goal with |- context [wake_all ?ws ?q0] =>
    destruct (wake_all_frame ws q0) as (a&_); pose proof (wake_all_In ws q0 w HW) as HI end.
  split; [exact a | exact HI].
Qed.

(** * The environment stops: nothing of it runs afterwards *)
Lemma stop_closed res p : closed (stop res p) = true.
Proof. unfold stop. destruct (closed p) eqn:C; auto. Qed.

Lemma closed_mono_op p o : closed p = true -> closed (exec_op p o) = true.
Proof.
  intro C. destruct o; cbn [exec_op]; auto; try apply stop_closed.
  - destruct (client_item it && (now p <=? t)); auto.
  - unfold pop. destruct (agenda p) as [|[t it] rest]; auto. cbn. rewrite C. auto.
  - destruct (trigger_frame e o p) as (_&_&a&_). congruence.
  - destruct (triggered p e); auto.
  - destruct (e_proc (get_ev p e)); auto.
  - rewrite C. rewrite andb_false_r. auto.
  - destruct (triggered p _); auto. destruct (q_causes (get_iq p q)); auto.
    match goal with |- context [wake_all ?ws ?q0] => destruct (wake_all_frame ws q0) as (_&_&_&_&_&_&a&_) end.
    rewrite a. auto.
  - destruct (q_causes (get_iq p q)); auto.
  - destruct (q_causes (get_iq p q)); auto.
  - destruct (f_val (get_nf p f)); auto.
    match goal with |- context [wake_all ?ws ?q0] => destruct (wake_all_frame ws q0) as (_&_&_&_&_&_&a&_) end.
    rewrite a. auto.
  - destruct (f_val (get_nf p f)); auto.
  - destruct (started p); auto.
    match goal with |- context [fold_left ?f ?l ?q0] => destruct (flush_frame l q0) as (_&_&_&_&_&_&a&_) end.
    rewrite a. auto.
Qed.

Theorem closed_mono ops : forall p, closed p = true -> closed (exec_ops p ops) = true.
Proof. induction ops; intros p H; cbn; auto. apply IHops, closed_mono_op, H. Qed.

(** after the stop the loop may still pop activations, but they are void: no callback runs,
    no timeout fires, no event changes, nothing is logged *)
Theorem closed_pop_void p :
  closed p = true ->
  let p' := exec_op p OpPop in
  log p' = log p /\ evs p' = evs p /\ calls p' = calls p /\ iqs p' = iqs p /\ nfs p' = nfs p
  /\ fails p' = fails p /\ closed p' = true.
Proof.
  intro C. cbn. unfold pop. destruct (agenda p) as [|[t it] rest]; [repeat split; auto|].
  cbn. rewrite C. repeat split; auto.
Qed.

(** * AllOf / AnyOf: the [_check_events] algorithm over any trigger order *)
Section Scan.
Variables (trig ok : nat -> bool).

Lemma scan_ok_spec ms : forall obs u o,
  scan trig ok ms obs = ScanOk u o ->
  u = filter (fun m => negb (trig m)) ms
  /\ o = (obs + length (filter trig ms))%nat
  /\ (forall m, In m ms -> trig m = true -> ok m = true).
Proof.
  induction ms as [|m r IH]; intros obs u o H; cbn in *.
  - inversion H; subst. repeat split; auto; try lia; intros ? [].
  - destruct (trig m) eqn:T; cbn in *.
    + destruct (ok m) eqn:K; [|discriminate].
      destruct (IH _ _ _ H) as (a&b&c). repeat split; auto; [cbn; lia|].
      intros x [->|Hx] Hx'; auto.
    + destruct (scan trig ok r obs) eqn:S; [discriminate|]. inversion H; subst.
      destruct (IH _ _ _ S) as (a&b&c). repeat split; auto; [congruence|].
      intros x [->|Hx] Hx'; auto; congruence.
Qed.

Lemma scan_fail_spec ms : forall obs m,
  scan trig ok ms obs = ScanFail m -> In m ms /\ trig m = true /\ ok m = false.
Proof.
  induction ms as [|x r IH]; intros obs m H; cbn in *; [discriminate|].
  destruct (trig x) eqn:T; cbn in *.
  - destruct (ok x) eqn:K.
    + destruct (IH _ _ H) as (a&b&c); auto.
    + inversion H; subst; auto.
  - destruct (scan trig ok r obs) eqn:S; [|discriminate]. inversion H; subst.
    destruct (IH _ _ S) as (a&b&c); auto.
Qed.

Lemma filter_len_le {A} (f : A -> bool) l : (length (filter f l) <= length l)%nat.
Proof. induction l; cbn; auto. destruct (f a); cbn; lia. Qed.

Lemma filter_length_all {A} (f : A -> bool) l :
  length (filter f l) = length l <-> (forall x, In x l -> f x = true).
Proof.
  induction l as [|x l IH]; cbn; [intuition|].
  pose proof (filter_len_le f l).
  destruct (f x) eqn:F; cbn.
  - split.
    + intros H' y [->|Hy]; auto. apply IH; auto.
    + intros H'. f_equal. apply IH; auto.
  - split; [lia|]. intros H'. specialize (H' x (or_introl eq_refl)). congruence.
Qed.

(** AllOf fires exactly when every member has fired successfully *)
Theorem allof_fires_iff ms u o :
  (forall m, ok m = true -> trig m = true) ->
  scan trig ok ms 0 = ScanOk u o ->
  (evaluate true ms o = true <-> forall m, In m ms -> ok m = true).
Proof.
  intros OT H. destruct (scan_ok_spec _ _ _ _ H) as (_&b&c). cbn in *. subst o.
  rewrite Nat.eqb_eq. split.
  - intros E m Hm. apply c; auto. symmetry in E. apply (proj1 (filter_length_all trig ms) E m Hm).
  - intros A. symmetry. apply filter_length_all. intros x Hx. auto.
Qed.

(** AnyOf fires exactly when some member has fired successfully (or there are no members) *)
Theorem anyof_fires_iff ms u o :
  (forall m, ok m = true -> trig m = true) ->
  scan trig ok ms 0 = ScanOk u o ->
  (evaluate false ms o = true <-> ms = [] \/ exists m, In m ms /\ ok m = true).
Proof.
  intros OT H. destruct (scan_ok_spec _ _ _ _ H) as (_&b&c). cbn in b. subst o.
  unfold evaluate. split.
  - intros E. apply orb_true_iff in E as [E|E].
    + right. destruct (filter trig ms) as [|m r] eqn:F; [discriminate|].
      assert (Hm : In m (filter trig ms)) by (rewrite F; left; auto).
      apply filter_In in Hm as [Hm Ht]. exists m; auto.
    + destruct ms; auto; discriminate.
  - intros [->|(m&Hm&Hk)]; cbn; auto. apply orb_true_iff; left.
    assert (Hi : In m (filter trig ms)) by (apply filter_In; auto).
    destruct (filter trig ms); [destruct Hi | reflexivity].
Qed.

(** a condition fails exactly with a member that fired with an exception *)
Theorem cond_fails_with ms obs m :
  scan trig ok ms obs = ScanFail m -> In m ms /\ trig m = true /\ ok m = false.
Proof. apply scan_fail_spec. Qed.
End Scan.

(** the checker works incrementally (it only re-examines the members it has not yet seen fire);
    under monotone events this is the same as examining all members afresh: by induction, after
    ANY sequence of trigger rounds the checker's state is the single scan of the latest snapshot *)
Theorem scan_incremental trig1 ok1 trig2 ok2 ms :
  (forall m, trig1 m = true -> trig2 m = true /\ ok2 m = ok1 m) ->
  forall obs u o k, scan trig1 ok1 ms obs = ScanOk u o ->
  scan trig2 ok2 u (o + k) = scan trig2 ok2 ms (obs + k).
Proof.
  intros M. induction ms as [|m r IH]; intros obs u o k H; cbn in *.
  - inversion H; subst; reflexivity.
  - destruct (trig1 m) eqn:T1; cbn in *.
    + destruct (ok1 m) eqn:K1; [|discriminate].
      destruct (M m T1) as [T2 K2]. rewrite T2, K2, K1. cbn.
      apply (IH _ _ _ k H).
    + destruct (scan trig1 ok1 r obs) eqn:Sc; [discriminate|]. inversion H; subst. cbn.
      destruct (trig2 m); cbn.
      * destruct (ok2 m); auto. apply (IH _ _ _ (S k)) in Sc.
        replace (S (o + k))%nat with (o + S k)%nat by lia.
        replace (S (obs + k))%nat with (obs + S k)%nat by lia. exact Sc.
      * rewrite (IH _ _ _ k Sc). reflexivity.
Qed.

(** the value of a condition holds exactly the leaf events that have fired successfully by then,
    in member order *)
Theorem condition_value_members p leafs x :
  match cond_value p leafs with
  | OCond l => In x l <-> In x leafs /\ ev_ok p x = true
  | _ => False
  end.
Proof. cbn. rewrite filter_In. tauto. Qed.

(** * The machine *)
Fixpoint iter {A} (n : nat) (f : A -> A) (x : A) : A :=
  match n with O => x | S k => iter k f (f x) end.

(** every machine run is an operation history of the protocol: all theorems above apply to it *)
Theorem micro_is_history g n : forall m, exists ops, pr (iter n (micro g) m) = exec_ops (pr m) ops.
Proof.
  induction n as [|n IH]; intro m; cbn.
  - exists []. reflexivity.
  - destruct (IH (micro g m)) as [ops H]. unfold micro in *. destruct (decide g m) as [ops0 r].
    exists (ops0 ++ ops). rewrite H. cbn. unfold exec_ops. now rewrite fold_left_app.
Qed.

Theorem run_is_history g n : forall m, exists ops, pr (run g n m) = exec_ops (pr m) ops.
Proof.
  induction n as [|n IH]; intro m; cbn.
  - exists []. reflexivity.
  - destruct (quiescent m); [exists []; reflexivity|].
    destruct (IH (micro g m)) as [ops H]. unfold micro in *. destruct (decide g m) as [ops0 r].
    exists (ops0 ++ ops). rewrite H. cbn. unfold exec_ops. now rewrite fold_left_app.
Qed.

Definition env_only (r : mrest) : Prop := Forall (fun t => is_env (kind t) = true) (tasks r).

Lemma env_only_get r tid : env_only r -> is_env (kind (get_task r tid)) = true.
Proof.
  intro H. unfold get_task. destruct (nth_in_or_default tid (tasks r) task0) as [Hi| ->]; [|reflexivity].
  unfold env_only in H. rewrite Forall_forall in H. apply H; auto.
Qed.

(** once the environment is closed, an activation of one of its tasks does nothing *)
Lemma closed_env_task_void g p r it :
  closed p = true ->
  (forall tid, is_env (kind (get_task r tid)) = true) ->
  dispatch g p r it = ([], set_mode Idle r).
Proof.
  intros C E. destruct it; cbn; auto; rewrite E, C; cbn; rewrite ?orb_true_r; reflexivity.
Qed.

Lemma closed_micro g m :
  closed (pr m) = true -> env_only (rs m) ->
  let m' := micro g m in
  closed (pr m') = true /\ env_only (rs m') /\ log (pr m') = log (pr m) /\ evs (pr m') = evs (pr m)
  /\ calls (pr m') = calls (pr m).
Proof.
  intros C E. cbn zeta. unfold micro, decide.
  destruct (mmode (rs m)) eqn:Mo.
  - destruct (agenda (pr m)) as [|[t it] rest] eqn:A; cbn; [auto 6|].
    destruct (closed_pop_void (pr m) C) as (a&b&c&_&_&_&d). cbn in a, b, c, d. auto 6.
  - rewrite closed_env_task_void by (auto; intro; apply env_only_get; auto). cbn. auto 6.
  - rewrite (env_only_get _ tid E), C. cbn. rewrite orb_true_r. cbn. auto 6.
Qed.

(** run_until_stops: after the stop of a stand-alone environment nothing is logged, no event
    changes and no callback runs, however long the loop goes on *)
Theorem run_until_stops g n : forall m,
  closed (pr m) = true -> env_only (rs m) ->
  let m' := iter n (micro g) m in
  log (pr m') = log (pr m) /\ evs (pr m') = evs (pr m) /\ calls (pr m') = calls (pr m).
Proof.
  induction n as [|n IH]; intros m C E; cbn; auto.
  destruct (closed_micro g m C E) as (a&b&c&d&e).
  destruct (IH (micro g m) a b) as (x&y&z). cbn in *. repeat split; congruence.
Qed.

(** the stop itself: the root's wake-up closes the environment with the value of the `until`
    event; a failure closes it with the first recorded failure *)
Lemma root_wake_stops g p r tid tok :
  closed p = false -> dead (get_task r tid) = false -> kind (get_task r tid) = KRoot ->
  tok <> O -> tok = tokn (get_task r tid) ->
  fst (dispatch g p r (IWake tid tok)) = [OpStop (until_result g p)].
Proof.
  intros C D K T0 T. cbn. rewrite D, K, C, <- T, Nat.eqb_refl. cbn.
  destruct (Nat.eqb_spec tok 0); [congruence|]. reflexivity.
Qed.

Lemma stop_effect res p :
  closed p = false ->
  let p' := exec_op p (OpStop res) in
  closed p' = true /\ log p' = log p ++ [300 :: 0 :: (if emb p then now p else 0) :: res].
Proof. intro C. cbn. unfold stop. rewrite C. cbn. auto. Qed.

Lemma until_event_result g p e o :
  g_until g = UEvent e -> e_val (get_ev p e) = Some o -> until_result g p = 10 :: enc o.
Proof. intros U V. unfold until_result, triggered, val_of. rewrite U, V. reflexivity. Qed.

(** process_is_event: when the generator returns [v] the process event is triggered with [v]
    (and all the protocol theorems for a trigger apply); raising fails it *)
Theorem process_is_event g p r tid pi pc a :
  nth_error (pscript g pi) pc = Some a ->
  match a with
  | ARet v => fst (proc_act g p r tid pi pc) = [OpTrigger (pev g pi) (OVal v)]
  | ARaise k => fst (proc_act g p r tid pi pc) = [OpTrigger (pev g pi) (OFail k)]
  | _ => True
  end.
Proof. intro H. unfold proc_act. rewrite H. destruct a; auto. Qed.

Theorem process_end_is_event g p r tid pi pc :
  nth_error (pscript g pi) pc = None ->
  fst (proc_act g p r tid pi pc) = [OpTrigger (pev g pi) (OVal (-1))].
Proof. intro H. unfold proc_act. rewrite H. reflexivity. Qed.

(** a process resuming from [yield e]: the oldest pending interrupt wins, otherwise it gets
    the event's value (or its exception, which it thereby defuses); at most one interrupt per yield *)
Fixpoint count_pops (ops : list op) : nat :=
  match ops with
  | OpIntPop _ :: r => S (count_pops r)
  | _ :: r => count_pops r
  | [] => O
  end.

Lemma count_pops_app a b : count_pops (a ++ b) = (count_pops a + count_pops b)%nat.
Proof. induction a as [|x a IH]; cbn; auto. destruct x; cbn; auto. Qed.

Lemma proc_continue_pops g p r tid pi pc out exc catch pre :
  count_pops (fst (proc_continue g p r tid pi pc out exc catch pre)) = count_pops pre.
Proof.
  unfold proc_continue. destruct (exc && negb catch); cbn; rewrite !count_pops_app; cbn; lia.
Qed.

Theorem deliver_spec g p r tid pi pc e pre :
  count_pops pre = O ->
  let ops := fst (deliver g p r tid pi pc e pre) in
  match q_causes (get_iq p pi) with
  | c :: _ => count_pops ops = 1%nat /\ In (OpEmit (Z.of_nat pi) (Z.of_nat pc) (enc (OIntr c))) ops
  | [] => count_pops ops = O /\ In (OpEmit (Z.of_nat pi) (Z.of_nat pc) (enc (val_of p e))) ops
          /\ (ev_ok p e = false -> In (OpDefuse e) ops)
  end.
Proof.
  intro P. cbn zeta. unfold deliver. destruct (q_causes (get_iq p pi)) as [|c l].
  - destruct (ev_ok p e) eqn:K.
    + rewrite proc_continue_pops. split; auto. split; [|discriminate].
      unfold proc_continue. cbn. apply in_or_app; right; left; auto.
    + rewrite proc_continue_pops, count_pops_app. cbn. split; [lia|]. split.
      * unfold proc_continue. destruct (true && negb _); cbn; rewrite <- ?app_assoc; cbn;
          repeat (apply in_or_app; right); cbn; auto.
      * intros _. unfold proc_continue. destruct (true && negb _); cbn; rewrite <- ?app_assoc; cbn;
          apply in_or_app; right; cbn; auto.
  - rewrite proc_continue_pops, count_pops_app. cbn. split; [lia|].
    unfold proc_continue. destruct (true && negb _); cbn; rewrite <- ?app_assoc; cbn;
      repeat (apply in_or_app; right); cbn; auto.
Qed.

(** * The initial state of every graph satisfies the invariants, hence so does every model run *)
Lemma init_ev_shape g n : exists lv, get_ev (pr (init g)) n = ev_init lv.
Proof.
  unfold get_ev, init. cbn [pr evs]. unfold init_evs.
  change ev0 with (ev_init []). rewrite map_nth. eauto.
Qed.

Lemma starts_ok (f : nat -> nat) l :
  let a := map (fun i => (0, IStart (f i))) l in
  srt a /\ lb 0 a /\ Forall (fun x => item_wf (fst x) (snd x)) a.
Proof.
  induction l as [|x l (a&b&c)]; cbn; [repeat split; constructor|].
  repeat split; auto; constructor; cbn; auto; lia.
Qed.

Theorem init_agenda_ok g : agenda_ok (pr (init g)).
Proof.
  unfold agenda_ok, init. cbn [pr agenda now startup].
  match goal with |- context [map (fun i => (0, IStart (?n + i)%nat)) ?l] =>
    destruct (starts_ok (fun i => (n + i)%nat) l) as (a&b&c) end.
  repeat split; auto. apply Forall_forall. intros x Hx. apply in_map_iff in Hx as (y&<-&_). exact I.
Qed.

Theorem init_cb_inv g : cb_inv (pr (init g)).
Proof.
  intro e. destruct (init_ev_shape g e) as [lv H]. cbn zeta. rewrite H. cbn.
  split; [auto | discriminate].
Qed.

Theorem init_iq_inv g : iq_inv (pr (init g)).
Proof.
  intro q. unfold get_iq, init. cbn [pr iqs].
  destruct (nth_in_or_default q (map (fun x : nat * bool * list action => mkIq (fst (fst x)) [] [] [] []) (g_procs g)) iq0) as [Hi|Hd];
    [|rewrite Hd; reflexivity].
  apply in_map_iff in Hi as (y&<-&_). reflexivity.
Qed.

Theorem init_delivered_wf g : delivered_wf (pr (init g)).
Proof. constructor. Qed.

(** all invariants hold in every state the model can reach *)
Theorem model_invariants g n :
  let p := pr (run g n (init g)) in
  agenda_ok p /\ cb_inv p /\ iq_inv p
  /\ (forall t e v born d, In (t, ITmoFire e v born d) (delivered p) -> t = born + d).
Proof.
  cbn zeta. destruct (run_is_history g n (init g)) as [ops ->].
  split; [apply exec_ops_agenda_ok, init_agenda_ok|].
  split; [apply callbacks_once, init_cb_inv|].
  split; [apply interrupt_fifo, init_iq_inv|].
  apply timeout_exact; [apply init_agenda_ok | apply init_delivered_wf].
Qed.
