(** The waiter list of a [Notification]: subscribe / unsubscribe / awake_next / awake_all.
    A subscription is a pair (waiter, token); the token is the private [Interrupt] object of that subscription.
    [step] mirrors usim/_primitives/notification.py line by line:
      __subscribe__      append to the list
      __unsubscribe__    if the token was scheduled: revoke it, else remove exactly that pair from the list
      __awake_next__     pop the OLDEST pair and schedule it (NoSubscribers if the list is empty)
      __awake_all__      schedule every pair, oldest first, and clear the list
    Output of a history: the scheduled pairs in order (what the loop will run, in that order), the revoked tokens, the
    rest of the list.  The theorems hold for every history of operations. *)
From Coq Require Import List Arith Bool Lia.
Import ListNotations.

Definition sub := (nat * nat)%type.     (* (waiter, token) *)

Inductive op := Sub (w t : nat) | Unsub (w t : nat) | AwakeNext | AwakeAll.

Record wl := { waiting : list sub; scheduled : list sub; revoked : list nat; errors : nat }.

Definition sub_eqb (a b : sub) : bool := Nat.eqb (fst a) (fst b) && Nat.eqb (snd a) (snd b).

Fixpoint remove_first (x : sub) (l : list sub) : option (list sub) :=
  match l with
  | [] => None
  | y :: r => if sub_eqb x y then Some r else option_map (cons y) (remove_first x r)
  end.

Definition is_scheduled (s : wl) (t : nat) : bool := existsb (fun p => Nat.eqb (snd p) t) (scheduled s).

Definition step (s : wl) (o : op) : wl :=
  match o with
  | Sub w t => {| waiting := waiting s ++ [(w, t)]; scheduled := scheduled s; revoked := revoked s; errors := errors s |}
  | Unsub w t =>
      if is_scheduled s t
      then {| waiting := waiting s; scheduled := scheduled s; revoked := revoked s ++ [t]; errors := errors s |}
      else match remove_first (w, t) (waiting s) with
           | Some l => {| waiting := l; scheduled := scheduled s; revoked := revoked s; errors := errors s |}
           | None => {| waiting := waiting s; scheduled := scheduled s; revoked := revoked s; errors := S (errors s) |}   (* ValueError *)
           end
  | AwakeNext =>
      match waiting s with
      | [] => {| waiting := []; scheduled := scheduled s; revoked := revoked s; errors := errors s |}                  (* NoSubscribers *)
      | p :: r => {| waiting := r; scheduled := scheduled s ++ [p]; revoked := revoked s; errors := errors s |}
      end
  | AwakeAll => {| waiting := []; scheduled := scheduled s ++ waiting s; revoked := revoked s; errors := errors s |}
  end.

Definition init : wl := {| waiting := []; scheduled := []; revoked := []; errors := 0 |}.
Definition run (ops : list op) : wl := fold_left step ops init.

(** the central invariant: [scheduled s ++ waiting s] is a subsequence of the list of all subscriptions made so far *)
Fixpoint subseq (a b : list sub) : Prop :=
  match a, b with
  | [], _ => True
  | _ :: _, [] => False
  | x :: a', y :: b' => (x = y /\ subseq a' b') \/ subseq a b'
  end.

Lemma subseq_nil_l b : subseq [] b.
Proof. destruct b; exact I. Qed.

Ltac snil := first [exact I | apply subseq_nil_l].

Lemma subseq_refl l : subseq l l.
Proof. induction l as [|x l IH]; cbn; auto. Qed.

Lemma subseq_nil_r a : subseq a [] -> a = [].
Proof. destruct a; cbn; [reflexivity|contradiction]. Qed.

Lemma subseq_cons_r a x b : subseq a b -> subseq a (x :: b).
Proof. destruct a as [|y a]; cbn; auto. Qed.

Lemma subseq_app_both a b x : subseq a b -> subseq (a ++ [x]) (b ++ [x]).
Proof.
  revert a. induction b as [|y b IH]; intros a H.
  - apply subseq_nil_r in H. subst a. cbn. left. split; [reflexivity|snil].
  - destruct a as [|z a].
    + cbn. right. apply (IH []). snil.
    + cbn in H. cbn. destruct H as [[-> H]|H].
      * left. split; [reflexivity|apply IH; exact H].
      * right. apply (IH (z :: a)). exact H.
Qed.

Lemma remove_first_subseq x l l' : remove_first x l = Some l' -> subseq l' l.
Proof.
  revert l'. induction l as [|y l IH]; intros l' H; cbn in H; [discriminate|].
  destruct (sub_eqb x y).
  - inversion H. subst l'. apply subseq_cons_r. apply subseq_refl.
  - destruct (remove_first x l) as [r|] eqn:E; cbn in H; [|discriminate]. inversion H. subst l'.
    cbn. left. split; [reflexivity|apply IH; reflexivity].
Qed.

Lemma subseq_trans a b c : subseq a b -> subseq b c -> subseq a c.
Proof.
  revert a b. induction c as [|z c IH]; intros a b Hab Hbc.
  - apply subseq_nil_r in Hbc. subst b. apply subseq_nil_r in Hab. subst a. snil.
  - destruct b as [|y b]; [apply subseq_nil_r in Hab; subst a; snil|].
    destruct a as [|x a]; [snil|].
    cbn in Hab, Hbc. cbn. destruct Hbc as [[-> Hbc]|Hbc].
    + destruct Hab as [[-> Hab]|Hab].
      * left. split; [reflexivity|eapply IH; eauto].
      * right. eapply IH; eauto.
    + right. apply (IH (x :: a) (y :: b)); [cbn; exact Hab|exact Hbc].
Qed.

Lemma subseq_app_mid a p r : subseq (a ++ r) (a ++ p :: r).
Proof.
  induction a as [|x a IH]; cbn.
  - apply subseq_cons_r. apply subseq_refl.
  - left. split; [reflexivity|exact IH].
Qed.

Definition all_subs (ops : list op) : list sub :=
  flat_map (fun o => match o with Sub w t => [(w, t)] | _ => [] end) ops.

Lemma all_subs_app a b : all_subs (a ++ b) = all_subs a ++ all_subs b.
Proof. unfold all_subs. apply flat_map_app. Qed.

Lemma step_subseq s o subs : subseq (scheduled s ++ waiting s) subs ->
  subseq (scheduled (step s o) ++ waiting (step s o))
         (subs ++ match o with Sub w t => [(w, t)] | _ => [] end).
Proof.
  intros H. destruct o as [w t|w t| |]; cbn.
  - rewrite app_assoc. apply subseq_app_both. exact H.
  - rewrite app_nil_r. destruct (is_scheduled s t); cbn; [exact H|].
    destruct (remove_first (w, t) (waiting s)) as [l|] eqn:E; cbn; [|exact H].
    eapply subseq_trans; [|exact H].
    apply remove_first_subseq in E.
    clear H. induction (scheduled s) as [|x sc IH]; cbn; [exact E|]. left. split; [reflexivity|exact IH].
  - rewrite app_nil_r. destruct (waiting s) as [|p r] eqn:E; cbn; [rewrite app_nil_r in *; exact H|].
    rewrite <- app_assoc. exact H.
  - rewrite !app_nil_r. exact H.
Qed.

(** for every history: what has been scheduled, followed by what still waits, is a subsequence of the subscriptions in the
    order in which they were made - waking is FIFO and nothing is scheduled that was not subscribed *)
Theorem scheduled_in_subscription_order ops :
  subseq (scheduled (run ops) ++ waiting (run ops)) (all_subs ops).
Proof.
  unfold run.
  assert (G : forall ops s subs, subseq (scheduled s ++ waiting s) subs ->
              subseq (scheduled (fold_left step ops s) ++ waiting (fold_left step ops s)) (subs ++ all_subs ops)).
  { clear ops. induction ops as [|o r IH]; intros s subs H; cbn.
    - rewrite app_nil_r. exact H.
    - specialize (IH (step s o) _ (step_subseq s o subs H)).
      rewrite <- app_assoc in IH. destruct o; cbn in *; exact IH. }
  apply (G ops init []). snil.
Qed.

(** awake_all leaves nobody waiting and schedules exactly those who waited, oldest first *)
Theorem awake_all_wakes_everybody ops :
  waiting (run (ops ++ [AwakeAll])) = [] /\
  scheduled (run (ops ++ [AwakeAll])) = scheduled (run ops) ++ waiting (run ops).
Proof. unfold run. rewrite fold_left_app. cbn. split; reflexivity. Qed.

(** awake_next wakes the oldest waiter and only that one *)
Theorem awake_next_wakes_the_oldest ops p r : waiting (run ops) = p :: r ->
  waiting (run (ops ++ [AwakeNext])) = r /\ scheduled (run (ops ++ [AwakeNext])) = scheduled (run ops) ++ [p].
Proof. unfold run. rewrite fold_left_app. cbn. intros ->. split; reflexivity. Qed.

(** unsubscribing a waiting pair removes exactly that pair: everybody else keeps the place *)
Theorem unsubscribe_removes_exactly_that_pair ops w t l :
  is_scheduled (run ops) t = false -> remove_first (w, t) (waiting (run ops)) = Some l ->
  waiting (run (ops ++ [Unsub w t])) = l /\ scheduled (run (ops ++ [Unsub w t])) = scheduled (run ops) /\
  subseq l (waiting (run ops)) /\ length (waiting (run ops)) = S (length l).
Proof.
  unfold run. rewrite fold_left_app. cbn. intros Hs Hr. rewrite Hs, Hr. cbn.
  repeat split; try reflexivity.
  - eapply remove_first_subseq; eauto.
  - clear Hs. revert l Hr. induction (waiting (fold_left step ops init)) as [|y q IH]; intros l Hr; cbn in Hr; [discriminate|].
    destruct (sub_eqb (w, t) y); [inversion Hr; reflexivity|].
    destruct (remove_first (w, t) q) as [q'|] eqn:E; cbn in Hr; [|discriminate]. inversion Hr. cbn. f_equal. apply IH. reflexivity.
Qed.

Example ex_history :
  let s := run [Sub 1 10; Sub 2 20; Sub 3 30; Unsub 2 20; AwakeNext; Sub 4 40; AwakeAll; Unsub 3 30] in
  scheduled s = [(1, 10); (3, 30); (4, 40)] /\ waiting s = [] /\ revoked s = [30] /\ errors s = 0.
Proof. vm_compute. repeat split. Qed.

(** nobody is woken twice: if every subscription carries a token of its own (they are fresh [Interrupt] objects), then no
    pair occurs twice among the scheduled and the waiting ones - for every history *)
Lemma subseq_In a : forall b x, subseq a b -> In x a -> In x b.
Proof.
  induction a as [|y a IH]; intros b x H Hin; [destruct Hin|].
  induction b as [|z b IHb]; cbn in H; [contradiction|].
  destruct H as [[-> H]|H].
  - destruct Hin as [<-|Hin]; [left; reflexivity|right; eapply IH; eauto].
  - right. apply IHb; exact H.
Qed.

Lemma subseq_NoDup a : forall b, subseq a b -> NoDup b -> NoDup a.
Proof.
  induction a as [|y a IH]; intros b H Hnd; [constructor|].
  induction b as [|z b IHb]; cbn in H; [contradiction|].
  inversion Hnd as [|? ? Hz Hb]; subst.
  destruct H as [[-> H]|H].
  - constructor; [|eapply IH; eauto]. intros Hin. apply Hz. eapply subseq_In; eauto.
  - apply IHb; assumption.
Qed.

Theorem nobody_woken_twice ops :
  NoDup (all_subs ops) -> NoDup (scheduled (run ops) ++ waiting (run ops)).
Proof. intros H. eapply subseq_NoDup; [apply scheduled_in_subscription_order|exact H]. Qed.

(** nobody is lost: every subscriber of a history still waits, or has been scheduled, or withdrew itself *)
Definition unsubs_of (ops : list op) : list sub :=
  flat_map (fun o => match o with Unsub w t => [(w, t)] | _ => [] end) ops.
Definition accounted (s : wl) (p : sub) : Prop := In p (waiting s) \/ In p (scheduled s).

Lemma sub_eqb_eq a b : sub_eqb a b = true -> a = b.
Proof.
  unfold sub_eqb. destruct a as [a1 a2], b as [b1 b2]; cbn. intros H.
  apply andb_prop in H. destruct H as [H1 H2]. apply Nat.eqb_eq in H1, H2. subst. reflexivity.
Qed.

Lemma remove_first_other x l : forall l' p, remove_first x l = Some l' -> In p l -> p = x \/ In p l'.
Proof.
  induction l as [|y l IH]; intros l' p H Hin; cbn in H; [discriminate|].
  destruct (sub_eqb x y) eqn:E.
  - inversion H; subst. apply sub_eqb_eq in E. subst. destruct Hin as [->|Hin]; auto.
  - destruct (remove_first x l) as [r|] eqn:Er; cbn in H; [|discriminate]. inversion H; subst.
    destruct Hin as [->|Hin]; [right; left; reflexivity|].
    destruct (IH r p eq_refl Hin) as [->|Hr]; [left; reflexivity|right; right; exact Hr].
Qed.

Lemma step_keeps s o p : accounted s p -> accounted (step s o) p \/ o = Unsub (fst p) (snd p).
Proof.
  unfold accounted. intros H. destruct o as [w t|w t| |].
  - left. cbn. rewrite in_app_iff. tauto.
  - cbn. destruct (is_scheduled s t); [left; cbn; tauto|].
    destruct (remove_first (w, t) (waiting s)) as [l|] eqn:E; [|left; cbn; tauto]. cbn.
    destruct H as [H|H]; [|left; tauto].
    destruct (remove_first_other _ _ _ _ E H) as [->|Hl]; [right; reflexivity|left; tauto].
  - left. cbn. destruct (waiting s) as [|q r] eqn:E; cbn; [destruct H as [[]|H]; tauto|].
    rewrite in_app_iff. cbn. destruct H as [[<-|H]|H]; tauto.
  - left. cbn. rewrite in_app_iff. tauto.
Qed.

Theorem nobody_is_lost ops p : In p (all_subs ops) -> accounted (run ops) p \/ In p (unsubs_of ops).
Proof.
  unfold run.
  assert (G : forall ops s, accounted s p \/ In p (all_subs ops) ->
                            accounted (fold_left step ops s) p \/ In p (unsubs_of ops)).
  { clear ops. induction ops as [|o r IH]; intros s H; cbn.
    - destruct H as [H|H]; [left; exact H|destruct H].
    - assert (K : accounted (step s o) p \/ In p (all_subs r) \/ o = Unsub (fst p) (snd p)).
      { destruct H as [H|H].
        - destruct (step_keeps s o p H) as [H1|H1]; auto.
        - unfold all_subs in H. cbn in H. apply in_app_iff in H. destruct H as [H|H]; [|auto].
          destruct o as [w t|w t| |]; cbn in H; try contradiction.
          destruct H as [<-|[]]. left. unfold accounted. cbn. rewrite in_app_iff. cbn. tauto. }
      destruct K as [K|[K| ->]].
      + destruct (IH _ (or_introl K)) as [R|R]; [left; exact R|right; apply in_app_iff; right; exact R].
      + destruct (IH (step s o) (or_intror K)) as [R|R]; [left; exact R|right; apply in_app_iff; right; exact R].
      + right. cbn. left. destruct p; reflexivity. }
  intros H. apply (G ops init). right. exact H.
Qed.
