(** Extended time: usim times are numbers that may be +infinity (`time >= inf`, `time + inf`). *)
From Coq Require Import ZArith Bool Lia.
Local Open Scope Z_scope.

Inductive xtime := Fin (z : Z) | PInf.

Definition xleb (a b : xtime) : bool :=
  match a, b with
  | _, PInf => true
  | PInf, Fin _ => false
  | Fin x, Fin y => x <=? y
  end.
Definition xltb (a b : xtime) : bool :=
  match a, b with
  | PInf, _ => false
  | Fin _, PInf => true
  | Fin x, Fin y => x <? y
  end.
Definition xeqb (a b : xtime) : bool :=
  match a, b with
  | PInf, PInf => true
  | Fin x, Fin y => x =? y
  | _, _ => false
  end.
(** float addition restricted to what occurs: finite + finite, anything + inf = inf *)
Definition xadd (a b : xtime) : xtime :=
  match a, b with
  | Fin x, Fin y => Fin (x + y)
  | _, _ => PInf
  end.
(** a - b for finite values (used by interval); inf - finite = inf; _ - inf is not used (nan) *)
Definition xsub (a b : xtime) : xtime :=
  match a, b with
  | Fin x, Fin y => Fin (x - y)
  | _, _ => PInf
  end.

Definition xle (a b : xtime) : Prop := xleb a b = true.
Definition xlt (a b : xtime) : Prop := xltb a b = true.

Lemma xeqb_eq a b : xeqb a b = true <-> a = b.
Proof.
  destruct a, b; cbn; split; intro H; try discriminate; try reflexivity.
  - apply Z.eqb_eq in H. now subst.
  - inversion H. apply Z.eqb_refl.
Qed.
Lemma xle_refl a : xle a a.
Proof. unfold xle. destruct a; cbn; auto. apply Z.leb_refl. Qed.
Lemma xle_trans a b c : xle a b -> xle b c -> xle a c.
Proof. unfold xle. destruct a, b, c; cbn; auto; try discriminate. rewrite !Z.leb_le. lia. Qed.
Lemma xlt_le a b : xlt a b -> xle a b.
Proof. unfold xlt, xle. destruct a, b; cbn; auto. rewrite Z.ltb_lt, Z.leb_le. lia. Qed.
Lemma xlt_le_trans a b c : xlt a b -> xle b c -> xlt a c.
Proof. unfold xlt, xle. destruct a, b, c; cbn; auto; try discriminate. rewrite Z.ltb_lt, Z.leb_le, Z.ltb_lt. lia. Qed.
Lemma xle_lt_trans a b c : xle a b -> xlt b c -> xlt a c.
Proof. unfold xlt, xle. destruct a, b, c; cbn; auto; try discriminate. rewrite Z.ltb_lt, Z.leb_le, Z.ltb_lt. lia. Qed.
Lemma xlt_trans a b c : xlt a b -> xlt b c -> xlt a c.
Proof. intros H1 H2. eapply xlt_le_trans; [exact H1 | apply xlt_le; exact H2]. Qed.
Lemma xlt_irrefl a : ~ xlt a a.
Proof. unfold xlt. destruct a; cbn; [rewrite Z.ltb_irrefl|]; discriminate. Qed.
Lemma xltb_xleb_false a b : xltb a b = true -> xleb b a = false.
Proof. destruct a, b; cbn; auto; try discriminate. rewrite Z.ltb_lt, Z.leb_gt. auto. Qed.
Lemma xleb_false_xltb a b : xleb a b = false -> xltb b a = true.
Proof. destruct a, b; cbn; auto; try discriminate. rewrite Z.ltb_lt, Z.leb_gt. auto. Qed.
Lemma xltb_false_xleb a b : xltb a b = false -> xleb b a = true.
Proof. destruct a, b; cbn; auto; try discriminate. rewrite Z.ltb_ge, Z.leb_le. auto. Qed.
Lemma xlt_neq a b : xlt a b -> a <> b.
Proof. intros H E. subst. exact (xlt_irrefl _ H). Qed.
Lemma xle_antisym a b : xle a b -> xle b a -> a = b.
Proof. unfold xle. destruct a, b; cbn; auto; try discriminate. rewrite !Z.leb_le. intros. f_equal. lia. Qed.
Lemma xle_total a b : xle a b \/ xlt b a.
Proof. unfold xle, xlt. destruct (xleb a b) eqn:E; auto. right. now apply xleb_false_xltb. Qed.

(** positive delay (the `delay > 0` usage assertion of Loop.schedule) *)
Definition xpos (d : xtime) : bool := xltb (Fin 0) d.
Lemma xadd_pos_lt t d : xpos d = true -> t <> PInf -> xlt t (xadd t d).
Proof. unfold xpos, xlt. destruct t, d; cbn; auto; try congruence. rewrite !Z.ltb_lt. lia. Qed.
Lemma xadd_pos_le t d : xpos d = true -> xle t (xadd t d).
Proof. unfold xpos, xle. destruct t, d; cbn; auto. rewrite Z.ltb_lt, Z.leb_le. lia. Qed.
