From Coq Require Import List Arith Bool Lia.
From Usim Require Import Handler.
Import ListNotations.

Lemma upd_same h t s : upd h t s t = s.
Proof. unfold upd. now rewrite Nat.eqb_refl. Qed.
Lemma upd_other h t s t' : t' <> t -> upd h t s t' = h t'.
Proof. unfold upd. intros H. apply Nat.eqb_neq in H. now rewrite H. Qed.

(** simulations in different threads never influence each other: an operation of thread t changes only
    t's slot *)
Theorem thread_independent h o t' : t' <> op_thread o -> hstep h o t' = h t'.
Proof.
  destruct o as [t l|t]; cbn; intros H.
  - apply upd_other. exact H.
  - destruct (saved (h t)); [reflexivity | apply upd_other; exact H].
Qed.

Theorem threads_independent ops : forall h t',
  Forall (fun o => op_thread o <> t') ops -> hrun h ops t' = h t'.
Proof.
  unfold hrun. induction ops as [|o ops IH]; cbn; intros h t' H; [reflexivity|].
  inversion H; subst. rewrite IH by assumption. apply thread_independent. auto.
Qed.

Definition stack (s : slot) : list (option loopid) := cur s :: saved s.

Lemma stack_inj s1 s2 : stack s1 = stack s2 -> s1 = s2.
Proof. destruct s1, s2. unfold stack. cbn. intros H. inversion H. reflexivity. Qed.

(** a properly nested sequence of [assign] contexts of thread t that closes [d] more contexts than it
    opens pops exactly [d] saved values *)
Lemma balanced_pops t ops : forall d h,
  Forall (fun o => op_thread o = t) ops ->
  balanced_from d ops = Some 0 -> d <= length (saved (h t)) ->
  stack (hrun h ops t) = skipn d (stack (h t)).
Proof.
  unfold hrun. induction ops as [|o ops IH]; intros d h Ht Hb Hl.
  - cbn in Hb. inversion Hb; subst. reflexivity.
  - apply Forall_cons_iff in Ht. destruct Ht as [Ho Hr].
    destruct o as [t' l|t']; cbn in Ho; subst t'; cbn [fold_left hstep].
    + cbn in Hb. rewrite (IH (S d)); auto.
      * rewrite upd_same. reflexivity.
      * rewrite upd_same. cbn. lia.
    + cbn in Hb. destruct d as [|d']; [discriminate|].
      destruct (saved (h t)) as [|s r] eqn:Es; [cbn in Hl; lia|].
      rewrite (IH d'); auto.
      * rewrite upd_same. unfold stack. rewrite Es. reflexivity.
      * rewrite upd_same. cbn in *. lia.
Qed.

(** [assign_restores]: a complete, properly nested sequence of contexts on one thread restores that
    thread's slot exactly, whatever happened inside (any nesting; the exit is a [finally], so normal and
    exceptional exits are the same operation) *)
Theorem assign_restores t ops h :
  Forall (fun o => op_thread o = t) ops -> balanced_from 0 ops = Some 0 -> hrun h ops t = h t.
Proof.
  intros Ht Hb. apply stack_inj. rewrite (balanced_pops t ops 0 h Ht Hb); [reflexivity | lia].
Qed.

Lemma balanced_app_exit t inner : forall d,
  balanced_from d inner = Some d -> balanced_from (S d) (inner ++ [Exit t]) = Some d.
Proof.
  assert (G : forall d k, balanced_from d inner = Some k -> balanced_from (S d) (inner ++ [Exit t]) = Some k).
  { induction inner as [|o r IH]; cbn; intros d k H.
    - inversion H. reflexivity.
    - destruct o as [t' l|t'].
      + apply IH. exact H.
      + destruct d as [|d']; [discriminate|]. apply IH. exact H. }
  intros d H. apply G. exact H.
Qed.

(** after a run -- however it ended, whatever ran nested inside -- the thread sees no simulation again,
    and an enclosing simulation is current again after a nested run *)
Corollary after_run_restored t l inner h :
  Forall (fun o => op_thread o = t) inner -> balanced_from 0 inner = Some 0 ->
  hrun h (Enter t l :: inner ++ [Exit t]) t = h t.
Proof.
  intros Ht Hb. apply assign_restores.
  - constructor; [reflexivity|]. apply Forall_app. split; [exact Ht | constructor; [reflexivity | constructor]].
  - cbn. apply balanced_app_exit. exact Hb.
Qed.

Corollary after_run_missing t l inner :
  Forall (fun o => op_thread o = t) inner -> balanced_from 0 inner = Some 0 ->
  cur (hrun hinit (Enter t l :: inner ++ [Exit t]) t) = None.
Proof. intros Ht Hb. rewrite after_run_restored by assumption. reflexivity. Qed.

(** while it runs, the simulation is the current one of its thread *)
Lemma during_run_visible h t l : cur (hstep h (Enter t l) t) = Some l.
Proof. cbn. rewrite upd_same. reflexivity. Qed.

Example nested_example :
  observe hinit [Enter 0 7; Enter 1 8; Enter 0 9; Exit 0; Exit 1; Exit 0]
  = [Some 7; Some 8; Some 9; Some 7; None; None].
Proof. reflexivity. Qed.
