(** C05: what a scope raises, as a function of the failures of its children and of its body
    ([Scope._collect_exceptions] / [_propagate_exceptions] as transcribed in Lib.v), for ALL inputs. *)
From Coq Require Import ZArith List Bool Lia.
From Usim Require Import XTime Tables Kernel Machine Lib.
Import ListNotations.

(** the failures that belong into a Concurrent: neither suppressed (cancellation, closure, GeneratorExit)
    nor promoted (privileged) *)
Definition reportable (e : exn) : bool := negb (exn_is_promoted e) && negb (exn_is_suppressed e).

Lemma collect_no_promoted fs : forall acc,
  existsb exn_is_promoted fs = false ->
  collect_exceptions fs acc = (None, acc ++ filter reportable fs).
Proof.
  induction fs as [|e fs IH]; cbn; intros acc H.
  - now rewrite app_nil_r.
  - apply orb_false_elim in H. destruct H as [H1 H2]. unfold reportable at 1. rewrite H1. cbn.
    destruct (exn_is_suppressed e); cbn.
    + apply IH. exact H2.
    + rewrite IH by exact H2. now rewrite <- app_assoc.
Qed.

Lemma collect_promoted fs : forall acc,
  existsb exn_is_promoted fs = true ->
  exists p, collect_exceptions fs acc = (Some p, []) /\ In p fs /\ exn_is_promoted p = true /\
            (* it is the FIRST promoted failure *)
            exists pre post, fs = pre ++ p :: post /\ existsb exn_is_promoted pre = false.
Proof.
  induction fs as [|e fs IH]; cbn; intros acc H; [discriminate|].
  destruct (exn_is_promoted e) eqn:E.
  - exists e. repeat split; auto. exists [], fs. split; reflexivity.
  - cbn in H. destruct (exn_is_suppressed e).
    + destruct (IH acc H) as (p & H1 & H2 & H3 & pre & post & H4 & H5).
      exists p. repeat split; auto. exists (e :: pre), post. split; [cbn; congruence|]. cbn. now rewrite E.
    + destruct (IH (acc ++ [e]) H) as (p & H1 & H2 & H3 & pre & post & H4 & H5).
      exists p. repeat split; auto. exists (e :: pre), post. split; [cbn; congruence|]. cbn. now rewrite E.
Qed.

(** ** the four ways a scope block can end *)
Inductive ending := NoExc | BodyExc (e : exn) | Conc (l : list exn) | Priv (e : exn).

Definition ending_of (failures : list exn) (own : bool) (exc : option exn) : ending :=
  match propagate_pure failures own exc with
  | PSwallow => NoExc
  | PReraise => match exc with Some e => BodyExc e | None => NoExc end
  | PRaise (EConcurrent l) => Conc l
  | PRaise p => Priv p
  end.

(** a child never fails with a Concurrent object that [collect] itself built, so [PRaise (EConcurrent l)]
    from the no-promoted branch is the fresh Concurrent; a promoted failure is never a Concurrent *)
Lemma promoted_not_concurrent p : exn_is_promoted p = true -> forall l, p <> EConcurrent l.
Proof. intros H l E. subst. discriminate. Qed.

(** C05 conc_content: a Concurrent carries exactly the reportable child failures, each once, in order of
    occurrence; it is raised only when there is no privileged failure, only when the body did not raise an
    exception of its own, and it is never empty *)
Theorem conc_content failures own exc l :
  ending_of failures own exc = Conc l ->
  l = filter reportable failures /\ l <> [] /\
  existsb exn_is_promoted failures = false /\
  (exc = None \/ exists e, exc = Some e /\ own = true) /\
  Forall (fun e => exn_is_suppressed e = false /\ exn_is_promoted e = false) l.
Proof.
  unfold ending_of, propagate_pure. intros H.
  assert (Hflt : Forall (fun e => exn_is_suppressed e = false /\ exn_is_promoted e = false)
                        (filter reportable failures)).
  { apply Forall_forall. intros e He. apply filter_In in He. destruct He as [_ He].
    unfold reportable in He. apply andb_prop in He. destruct He as [H1 H2].
    split; [now apply negb_true_iff in H2 | now apply negb_true_iff in H1]. }
  destruct (existsb exn_is_promoted failures) eqn:Ep.
  - destruct (collect_promoted failures [] Ep) as (p & H1 & H2 & H3 & _).
    rewrite H1 in H.
    destruct exc as [e|].
    + destruct (exn_type_promoted e); [discriminate|]. destruct own.
      * destruct p; try discriminate.
      * destruct p; try discriminate.
    + destruct p; try discriminate.
  - rewrite (collect_no_promoted failures [] Ep) in H. cbn [app] in H.
    destruct exc as [e|].
    + destruct (exn_type_promoted e); [discriminate|]. destruct own; [|discriminate].
      destruct (filter reportable failures) as [|x xs] eqn:Ef; [discriminate|].
      inversion H; subst. repeat split; auto; try discriminate. right. exists e. auto.
    + destruct (filter reportable failures) as [|x xs] eqn:Ef; [discriminate|].
      inversion H; subst. repeat split; auto; discriminate.
Qed.

(** C05 never a regular and a concurrent failure at once: when the body raises an exception of its own
    (not one of the scope's signals) the block ends with that very exception or with a privileged child
    failure -- never with a Concurrent, never silently *)
Theorem body_exception_wins failures e :
  ending_of failures false (Some e) = BodyExc e \/
  exists p, ending_of failures false (Some e) = Priv p /\ In p failures /\ exn_is_promoted p = true.
Proof.
  unfold ending_of, propagate_pure.
  destruct (exn_type_promoted e); auto.
  destruct (existsb exn_is_promoted failures) eqn:Ep.
  - destruct (collect_promoted failures [] Ep) as (p & H1 & H2 & H3 & _). rewrite H1.
    right. exists p. split; auto. destruct p; try reflexivity; discriminate.
  - rewrite (collect_no_promoted failures [] Ep). auto.
Qed.

(** C05 privileged exceptions are never wrapped: the first privileged child failure is raised as itself *)
Theorem priv_unwrapped failures own exc p :
  ending_of failures own exc = Priv p ->
  In p failures /\ exn_is_promoted p = true /\
  exists pre post, failures = pre ++ p :: post /\ existsb exn_is_promoted pre = false.
Proof.
  unfold ending_of, propagate_pure. intros H.
  destruct (existsb exn_is_promoted failures) eqn:Ep.
  - destruct (collect_promoted failures [] Ep) as (q & H1 & H2 & H3 & H4). rewrite H1 in H.
    assert (Hq : forall r, match q with EConcurrent l => Conc l | _ => Priv q end = r -> r = Priv q).
    { intros r Hr. destruct q; try (now subst); discriminate. }
    destruct exc as [e|].
    + destruct (exn_type_promoted e); [discriminate|].
      destruct own; apply Hq in H; inversion H; subst; auto.
    + apply Hq in H. inversion H; subst; auto.
  - rewrite (collect_no_promoted failures [] Ep) in H. cbn [app] in H.
    destruct exc as [e|].
    + destruct (exn_type_promoted e); [discriminate|]. destruct own; [|discriminate].
      destruct (filter reportable failures); discriminate.
    + destruct (filter reportable failures); discriminate.
Qed.

(** C05 exactly one way: without failures worth reporting a scope that ends normally (or by its own signal)
    raises nothing *)
Theorem quiet_without_failures failures own exc :
  (exc = None \/ own = true /\ exists e, exc = Some e /\ exn_type_promoted e = false) ->
  filter reportable failures = [] -> existsb exn_is_promoted failures = false ->
  ending_of failures own exc = NoExc.
Proof.
  unfold ending_of, propagate_pure. intros Hc Hf Hp.
  rewrite (collect_no_promoted failures [] Hp). cbn [app]. rewrite Hf.
  destruct Hc as [->|[-> [e [-> He]]]]; [reflexivity|]. rewrite He. reflexivity.
Qed.

(** the hypotheses are satisfiable *)
Example conc_example :
  ending_of [EUser 0 1; ETaskCancelled 2 5%Z; EUser 2 7] false None = Conc [EUser 0 1; EUser 2 7].
Proof. reflexivity. Qed.
Example priv_example :
  ending_of [EUser 0 1; EUser 4 3; EUser 2 7] true (Some (ESig 9)) = Priv (EUser 4 3).
Proof. reflexivity. Qed.
