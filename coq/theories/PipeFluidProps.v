(** C13 - proofs about the machines of PipeFluid.v *)
From Coq Require Import QArith Qminmax ZArith List Bool Lia Lqa.
From Usim Require Import PipeFluid.
Import ListNotations.
Open Scope Q_scope.

(** * Generic list lemmas *)

Lemma Forall2_map_r {A B C} (P : A -> C -> Prop) (g : B -> C) l l' :
  Forall2 (fun a b => P a (g b)) l l' -> Forall2 P l (map g l').
Proof. induction 1; cbn; constructor; auto. Qed.

Lemma Forall2_map_l {A B C} (P : C -> B -> Prop) (g : A -> C) l l' :
  Forall2 (fun a b => P (g a) b) l l' -> Forall2 P (map g l) l'.
Proof. induction 1; cbn; constructor; auto. Qed.

Lemma Forall2_impl {A B} (P Q : A -> B -> Prop) l l' :
  (forall a b, P a b -> Q a b) -> Forall2 P l l' -> Forall2 Q l l'.
Proof. intros H; induction 1; constructor; auto. Qed.

Lemma Forall2_and_l {A B} (P : A -> Prop) (Q : A -> B -> Prop) l l' :
  Forall P l -> Forall2 Q l l' -> Forall2 (fun a b => P a /\ Q a b) l l'.
Proof.
  intros HP H; induction H; constructor.
  - split; auto. inversion HP; auto.
  - apply IHForall2. inversion HP; auto.
Qed.

Lemma Forall2_remove_nth {A B} (P : A -> B -> Prop) i l l' :
  Forall2 P l l' -> Forall2 P (remove_nth i l) (remove_nth i l').
Proof.
  intros H; revert i; induction H; intros [|i]; cbn; auto.
Qed.

Lemma Forall2_nth_error {A B} (P : A -> B -> Prop) l l' i a :
  Forall2 P l l' -> nth_error l i = Some a -> exists b, nth_error l' i = Some b /\ P a b.
Proof.
  intros H; revert i; induction H; intros [|i]; cbn; try discriminate.
  - intros [= <-]; eauto.
  - apply IHForall2.
Qed.

Lemma Forall2_len {A B} (P : A -> B -> Prop) l l' : Forall2 P l l' -> length l = length l'.
Proof. induction 1; cbn; auto. Qed.

Lemma Forall2_left {A B} (P : A -> Prop) (Q : A -> B -> Prop) l l' :
  (forall a b, Q a b -> P a) -> Forall2 Q l l' -> Forall P l.
Proof. intros H; induction 1; constructor; eauto. Qed.

Lemma Forall2_right {A B} (P : B -> Prop) (Q : A -> B -> Prop) l l' :
  (forall a b, Q a b -> P b) -> Forall2 Q l l' -> Forall P l'.
Proof. intros H; induction 1; constructor; eauto. Qed.

Lemma Forall2_filter {A B} (P : A -> B -> Prop) (p : A -> bool) (q : B -> bool) l l' :
  (forall a b, P a b -> p a = q b) -> Forall2 P l l' -> Forall2 P (filter p l) (filter q l').
Proof.
  intros H; induction 1; cbn; auto.
  rewrite <- (H _ _ H0). destruct (p x); auto.
Qed.

Lemma filter_none {A} (p : A -> bool) l :
  existsb p l = false -> filter (fun a => negb (p a)) l = l.
Proof.
  induction l; cbn; auto. intros H. apply orb_false_iff in H as [H1 H2].
  rewrite H1; cbn. f_equal; auto.
Qed.

Lemma remove_nth_length {A} i (l : list A) a :
  nth_error l i = Some a -> S (length (remove_nth i l)) = length l.
Proof.
  revert i; induction l; intros [|i]; cbn; try discriminate; auto.
Qed.

Lemma Forall_remove_nth {A} (P : A -> Prop) i l : Forall P l -> Forall P (remove_nth i l).
Proof.
  intros H; revert i; induction H; intros [|i]; cbn; auto.
Qed.

Lemma In_remove_nth {A} i j (l : list A) a :
  nth_error l j = Some a -> j <> i -> In a (remove_nth i l).
Proof.
  revert i j; induction l; intros i [|j]; cbn; try discriminate.
  - intros [= <-] H. destruct i; [congruence | cbn; auto].
  - intros H Hn. destruct i; cbn.
    + eapply nth_error_In; eauto.
    + right. eapply IHl; eauto.
Qed.

(** * argmin *)

Lemma argmin_none ks : argmin ks = None <-> ks = [].
Proof.
  destruct ks; cbn; [tauto|]. split; [|discriminate].
  destruct (argmin ks) as [[i m]|]; [destruct (Qle_bool q m)|]; discriminate.
Qed.

Lemma argmin_spec ks i m :
  argmin ks = Some (i, m) -> nth_error ks i = Some m /\ Forall (fun k => m <= k) ks.
Proof.
  revert i m; induction ks as [|k r IH]; cbn; [discriminate|].
  intros i m. destruct (argmin r) as [[j n]|] eqn:E.
  - destruct (IH _ _ eq_refl) as [Hn Hall].
    destruct (Qle_bool k n) eqn:L; intros [= <- <-]; cbn.
    + apply Qle_bool_iff in L. split; auto. constructor; [apply Qle_refl|].
      eapply Forall_impl; [|exact Hall]. cbn; intros; eapply Qle_trans; eauto.
    + split; auto. constructor; auto.
      destruct (Qlt_le_dec n k) as [H|H]; [apply Qlt_le_weak; auto|].
      apply Qle_bool_iff in H. congruence.
  - apply argmin_none in E; subst. intros [= <- <-]; cbn. split; auto.
    constructor; [apply Qle_refl | constructor].
Qed.

Lemma Qle_bool_compat a b c d : a == c -> b == d -> Qle_bool a b = Qle_bool c d.
Proof.
  intros H1 H2. destruct (Qle_bool a b) eqn:E, (Qle_bool c d) eqn:F; auto.
  - apply Qle_bool_iff in E. rewrite H1, H2 in E. apply Qle_bool_iff in E. congruence.
  - apply Qle_bool_iff in F. rewrite <- H1, <- H2 in F. apply Qle_bool_iff in F. congruence.
Qed.

Definition amr (a b : option (nat * Q)) : Prop :=
  match a, b with
  | None, None => True
  | Some (i, m), Some (j, n) => i = j /\ m == n
  | _, _ => False
  end.

Lemma argmin_compat ks ks' : Forall2 Qeq ks ks' -> amr (argmin ks) (argmin ks').
Proof.
  induction 1; cbn; auto.
  destruct (argmin l) as [[i m]|], (argmin l') as [[j n]|]; cbn in *; try tauto.
  destruct IHForall2 as [-> E].
  rewrite (Qle_bool_compat _ _ _ _ H E). destruct (Qle_bool y n); cbn; auto.
Qed.

(** * Sharing arithmetic *)

Definition Tpos (T : ext) : Prop := match T with Fin t => 0 < t | Inf => True end.

Lemma scale_pos T d : Tpos T -> 0 < scale_of T d.
Proof.
  destruct T as [t|]; cbn; [|reflexivity]. intros Ht.
  destruct (Qle_bool d t) eqn:E; [reflexivity|].
  assert (t < d).
  { destruct (Qlt_le_dec t d); auto. apply Qle_bool_iff in q. congruence. }
  apply Qlt_shift_div_l; lra.
Qed.

Lemma scale_le_1 T d : Tpos T -> scale_of T d <= 1.
Proof.
  destruct T as [t|]; cbn; [|intros; apply Qle_refl]. intros Ht.
  destruct (Qle_bool d t) eqn:E; [apply Qle_refl|].
  assert (t < d).
  { destruct (Qlt_le_dec t d); auto. apply Qle_bool_iff in q. congruence. }
  apply Qle_shift_div_r; lra.
Qed.

(** the property's formula: min(own limit, limit * T / sum of limits) *)
Theorem rate_spec t d l :
  0 < t -> 0 < d -> 0 <= l -> rate_of (Fin t) d l == Qmin l (l * t / d).
Proof.
  intros Ht Hd Hl. unfold rate_of; cbn.
  destruct (Qle_bool d t) eqn:E.
  - apply Qle_bool_iff in E. rewrite Q.min_l; [ring|].
    apply Qle_shift_div_l; auto. nra.
  - assert (t < d).
    { destruct (Qlt_le_dec t d); auto. apply Qle_bool_iff in q. congruence. }
    rewrite Q.min_r; [field; lra|].
    apply Qle_shift_div_r; auto. nra.
Qed.

Theorem rate_inf d l : rate_of Inf d l == l.
Proof. unfold rate_of; cbn. ring. Qed.

Theorem uncongested_rate T d l :
  match T with Fin t => d <= t | Inf => True end -> rate_of T d l == l.
Proof.
  unfold rate_of. destruct T as [t|]; cbn; intros H; [|ring].
  apply Qle_bool_iff in H. rewrite H. ring.
Qed.

Theorem scaled_sum_le t d : 0 < t -> 0 <= d -> scale_of (Fin t) d * d <= t.
Proof.
  intros Ht Hd. cbn. destruct (Qle_bool d t) eqn:E.
  - apply Qle_bool_iff in E. lra.
  - assert (t < d).
    { destruct (Qlt_le_dec t d); auto. apply Qle_bool_iff in q. congruence. }
    assert (t / d * d == t) by (field; lra). lra.
Qed.

(** a crowded pipe: [n] transfers with the same limit [l] that together exceed the throughput each progress at exactly
    [t / n] - however many they are (one arrival among a hundred changes everybody's share by less than a percent, and by
    exactly this much); a volume [v] then takes [n * v / t] *)
Corollary equal_shares t l (n : positive) :
  0 < t -> 0 < l -> t < inject_Z (Zpos n) * l ->
  rate_of (Fin t) (inject_Z (Zpos n) * l) l == t / inject_Z (Zpos n).
Proof.
  intros Ht Hl Hc.
  assert (Hn : 0 < inject_Z (Zpos n)) by (unfold Qlt; cbn; lia).
  rewrite rate_spec; [| lra | nra | lra].
  rewrite Q.min_r.
  - field. split; lra.
  - apply Qle_shift_div_r; [nra|]. nra.
Qed.

(** * The relation between the windowed and the fluid machine *)

(** what the windowed transfer [x] has moved by time [t]: lump + current window *)
Definition got (t : Q) (x : xfer) : Q := xtr x + (t - xws x) * xwr x.

Definition Xok (t sc : Q) (x : xfer) : Prop :=
  0 < xlim x /\ xwr x == xlim x * sc /\ xws x <= t /\ 0 <= xtr x /\ got t x <= xvol x.

Definition Rx (t sc : Q) (x : xfer) (y : fx) : Prop :=
  Xok t sc x /\ xid x = fid y /\ xlim x = flim y /\ xvol x = fvol y /\ famt y == got t x.

Definition Rfin (a b : Z * Q) : Prop := fst a = fst b /\ snd a == snd b.

Definition R (s : st) (f : fstate) : Prop :=
  Tpos (thr s) /\ 0 < scl s /\ scl s == scale_of (thr s) (sum_lim (act s)) /\
  thr s = fthr f /\ now s == fnow f /\
  Forall2 (Rx (now s) (scl s)) (act s) (fact f) /\ Forall2 Rfin (fin s) (ffin f).

Lemma Xok_wr_pos t sc x : 0 < sc -> Xok t sc x -> 0 < xwr x.
Proof. intros Hs (Hl & Hw & _). rewrite Hw. apply Qmult_lt_0_compat; auto. Qed.

Lemma due_mul x : 0 < xwr x -> (due x - xws x) * xwr x == xvol x - xtr x.
Proof. intros H. unfold due. field. lra. Qed.

Lemma le_due_iff t x : 0 < xwr x -> (got t x <= xvol x <-> t <= due x).
Proof.
  intros Hw. pose proof (due_mul x Hw) as E. unfold got.
  pose proof (Qmult_le_r (t - xws x) (due x - xws x) (xwr x) Hw) as [A B].
  split; intros H.
  - assert (t - xws x <= due x - xws x) by (apply A; lra). lra.
  - assert ((t - xws x) * xwr x <= (due x - xws x) * xwr x) by (apply B; lra). lra.
Qed.

Lemma lt_due_iff t x : 0 < xwr x -> (got t x < xvol x <-> t < due x).
Proof.
  intros Hw. pose proof (due_mul x Hw) as E. unfold got.
  pose proof (Qmult_lt_r (t - xws x) (due x - xws x) (xwr x) Hw) as [A B].
  split; intros H.
  - assert (t - xws x < due x - xws x) by (apply A; lra). lra.
  - assert ((t - xws x) * xwr x < (due x - xws x) * xwr x) by (apply B; lra). lra.
Qed.

Lemma got_replan t sc x : got t (replan t sc x) == got t x.
Proof. unfold got, replan; cbn. ring. Qed.

Lemma Xok_replan t sc sc' x : 0 < sc -> Xok t sc x -> Xok t sc' (replan t sc' x).
Proof.
  intros Hs (Hl & Hw & Hws & Htr & Hg).
  split; [exact Hl|]. split; [reflexivity|]. split; [apply Qle_refl|]. split.
  - cbn. assert (0 <= (t - xws x) * xwr x).
    { apply Qmult_le_0_compat; [lra|]. rewrite Hw. apply Qmult_le_0_compat; lra. }
    lra.
  - rewrite got_replan. exact Hg.
Qed.

Lemma Rx_replan t sc sc' x y : 0 < sc -> Rx t sc x y -> Rx t sc' (replan t sc' x) y.
Proof.
  intros Hs (Hx & Hi & Hl & Hv & Ha). split; [eapply Xok_replan; eauto|].
  cbn. repeat split; auto. rewrite got_replan; auto.
Qed.

Lemma Rx_sc t sc sc' x y : sc == sc' -> Rx t sc x y -> Rx t sc' x y.
Proof.
  intros E ((Hl & Hw & Hr) & Hy). split; auto. split; auto. split; auto. rewrite <- E; auto.
Qed.

Lemma sum_lim_replan t sc xs : sum_lim (map (replan t sc) xs) = sum_lim xs.
Proof. induction xs; [reflexivity|]. unfold sum_lim in *. cbn. rewrite IHxs. reflexivity. Qed.

Lemma sum_Rx t sc xs ys : Forall2 (Rx t sc) xs ys -> sum_lim xs = sum_flim ys.
Proof.
  induction 1; [reflexivity|]. destruct H as (_ & _ & Hl & _).
  unfold sum_lim, sum_flim in *. cbn. rewrite Hl, IHForall2. reflexivity.
Qed.

Lemma wake_R s sc' acts ys :
  0 < scl s -> Forall2 (Rx (now s) (scl s)) acts ys ->
  Forall2 (Rx (now s) sc') (act (wake s sc' acts)) ys.
Proof.
  intros Hs H. cbn. apply Forall2_map_l. eapply Forall2_impl; [|exact H].
  intros; eapply Rx_replan; eauto.
Qed.

Lemma throttle_R s acts ys :
  Tpos (thr s) -> 0 < scl s -> Forall2 (Rx (now s) (scl s)) acts ys ->
  thr (throttle s acts) = thr s /\ now (throttle s acts) = now s /\
  fin (throttle s acts) = fin s /\ 0 < scl (throttle s acts) /\
  scl (throttle s acts) == scale_of (thr s) (sum_lim acts) /\
  sum_lim (act (throttle s acts)) = sum_lim acts /\
  length (act (throttle s acts)) = length acts /\
  map xid (act (throttle s acts)) = map xid acts /\
  Forall2 (Rx (now s) (scl (throttle s acts))) (act (throttle s acts)) ys.
Proof.
  intros HT Hs H.
  assert (Hrelax : thr (relax s acts) = thr s /\ now (relax s acts) = now s /\
    fin (relax s acts) = fin s /\ 0 < scl (relax s acts) /\ scl (relax s acts) == 1 /\
    sum_lim (act (relax s acts)) = sum_lim acts /\
    length (act (relax s acts)) = length acts /\
    map xid (act (relax s acts)) = map xid acts /\
    Forall2 (Rx (now s) (scl (relax s acts))) (act (relax s acts)) ys).
  { unfold relax. destruct (Qeq_bool (scl s) 1) eqn:Q1.
    - apply Qeq_bool_iff in Q1. cbn. repeat split; auto.
    - repeat split; try reflexivity.
      + cbn. apply sum_lim_replan.
      + cbn. apply map_length.
      + cbn. rewrite map_map. reflexivity.
      + apply wake_R; auto. }
  unfold throttle. destruct (thr s) as [t|] eqn:ET; cbn in HT.
  - cbn [scale_of]. destruct (Qle_bool (sum_lim acts) t) eqn:E; [exact Hrelax|].
    assert (t < sum_lim acts).
    { destruct (Qlt_le_dec t (sum_lim acts)); auto. apply Qle_bool_iff in q. congruence. }
    repeat split; auto; try reflexivity.
    + cbn. apply Qlt_shift_div_l; lra.
    + cbn. apply sum_lim_replan.
    + cbn. apply map_length.
    + cbn. rewrite map_map. reflexivity.
    + apply wake_R; auto.
  - exact Hrelax.
Qed.

Lemma frate_wr s f x y : R s f -> Rx (now s) (scl s) x y -> frate f y == xwr x.
Proof.
  intros (_ & _ & Hsc & HT & _ & Hact & _) ((_ & Hw & _) & _ & Hl & _).
  unfold frate, rate_of. rewrite <- HT, <- (sum_Rx _ _ _ _ Hact), <- Hl, <- Hsc, Hw. reflexivity.
Qed.

Lemma due_freach s f x y : R s f -> Rx (now s) (scl s) x y -> due x == freach f y.
Proof.
  intros HR Hxy. pose proof (frate_wr _ _ _ _ HR Hxy) as Hr.
  destruct HR as (_ & Hs & _ & _ & Hn & _). destruct Hxy as (Hx & _ & _ & Hv & Ha).
  pose proof (Xok_wr_pos _ _ _ Hs Hx) as Hw.
  unfold freach. rewrite Hr, Ha, <- Hn, <- Hv. unfold due, got. field. lra.
Qed.

Lemma keys_R s f : R s f -> Forall2 Qeq (map due (act s)) (map (freach f) (fact f)).
Proof.
  intros HR. apply Forall2_map_l, Forall2_map_r.
  eapply Forall2_impl; [|apply HR]. intros; eapply due_freach; eauto.
Qed.

Lemma Rx_advance s f d d' x y :
  R s f -> Rx (now s) (scl s) x y -> now s <= d -> d <= due x -> d == d' ->
  Rx d (scl s) x (mkF (fid y) (flim y) (fvol y) (famt y + (d' - fnow f) * frate f y)).
Proof.
  intros HR Hxy Hnd Hdd E. pose proof (frate_wr _ _ _ _ HR Hxy) as Hr.
  destruct HR as (_ & Hs & _ & _ & Hn & _). destruct Hxy as (Hx & Hi & Hl & Hv & Ha).
  pose proof (Xok_wr_pos _ _ _ Hs Hx) as Hw.
  destruct Hx as (H1 & H2 & H3 & H4 & H5).
  split; [|cbn; repeat split; auto].
  - repeat split; auto; [lra|]. apply le_due_iff; auto.
  - rewrite Hr, Ha, <- E, <- Hn. unfold got. ring.
Qed.

Lemma now_le_due s x : 0 < scl s -> Xok (now s) (scl s) x -> now s <= due x.
Proof.
  intros Hs Hx. apply le_due_iff; [eapply Xok_wr_pos; eauto | apply Hx].
Qed.

(** all rates flow up to [d]: relation at the new time, before the membership change *)
Lemma flow_R s f d d' :
  R s f -> now s <= d -> Forall (fun x => d <= due x) (act s) -> d == d' ->
  Forall2 (Rx d (scl s)) (act s) (fact (flow_to f d')).
Proof.
  intros HR Hnd Hall E. cbn. apply Forall2_map_r.
  eapply Forall2_impl; [|apply Forall2_and_l; [exact Hall | apply HR]].
  cbn. intros x y [H1 H2]. eapply Rx_advance; eauto.
Qed.

Lemma Forall_map_due (P : Q -> Prop) xs : Forall P (map due xs) -> Forall (fun x => P (due x)) xs.
Proof. induction xs; cbn; intros H; constructor; inversion H; auto. Qed.

Lemma tick_R s f : R s f -> R (tick s) (ftick f).
Proof.
  intros HR. pose proof (argmin_compat _ _ (keys_R _ _ HR)) as K.
  unfold tick, ftick.
  destruct (argmin (map due (act s))) as [[i d]|] eqn:E1,
           (argmin (map (freach f) (fact f))) as [[j d']|] eqn:E2; cbn in K; try tauto.
  destruct K as [<- Hd].
  apply argmin_spec in E1 as [Hn1 Hall]. apply Forall_map_due in Hall.
  rewrite nth_error_map in Hn1.
  destruct (nth_error (act s) i) as [x|] eqn:Nx; cbn in Hn1; [|discriminate].
  injection Hn1 as Hdx.
  destruct HR as (HT & Hs & Hsc & HTf & Hn & Hact & Hfin).
  destruct (Forall2_nth_error _ _ _ _ _ Hact Nx) as (y & Ny & Hxy). rewrite Ny.
  assert (Hnd : now s <= d). { rewrite <- Hdx. eapply now_le_due; eauto. apply Hxy. }
  assert (HR : R s f) by (repeat split; auto).
  pose proof (flow_R s f d d' HR Hnd Hall Hd) as HF.
  apply (Forall2_remove_nth _ i) in HF.
  set (s1 := mkS (thr s) d (scl s) (act s) (fin s ++ [(xid x, d)])).
  destruct (throttle_R s1 (remove_nth i (act s)) _ HT Hs HF)
    as (A1 & A2 & A3 & A4 & A5 & A6 & _ & _ & A9).
  unfold R. rewrite A1, A2, A3, A6. cbn [thr now fin s1 fthr fnow fact ffin].
  repeat split; auto.
  apply Forall2_app; auto. constructor; [|constructor].
  split; cbn; auto. apply Hxy.
Qed.

Lemma set_now_R s f b :
  R s f -> Forall (fun x => match b with Fin t => t <= due x | Inf => True end) (act s) ->
  R (set_now s b) (fset_now f b).
Proof.
  intros HR Hall. destruct b as [t|]; cbn; auto.
  pose proof HR as (HT & Hs & Hsc & HTf & Hn & Hact & Hfin).
  rewrite <- (Qle_bool_compat _ _ _ _ Hn (Qeq_refl t)).
  destruct (Qle_bool (now s) t) eqn:E; auto. apply Qle_bool_iff in E.
  pose proof (flow_R s f t t HR E Hall (Qeq_refl t)) as HF.
  unfold R; cbn [thr now scl act fin]. repeat split; auto; reflexivity.
Qed.

Lemma tick_length s i d :
  argmin (map due (act s)) = Some (i, d) -> S (length (act (tick s))) = length (act s).
Proof.
  intros E. unfold tick. rewrite E. apply argmin_spec in E as [Hn _].
  rewrite nth_error_map in Hn.
  destruct (nth_error (act s) i) as [x|] eqn:Nx; cbn in Hn; [|discriminate].
  set (s1 := mkS _ _ _ _ _).
  assert (length (act (throttle s1 (remove_nth i (act s)))) = length (remove_nth i (act s))).
  { unfold throttle, relax, wake. destruct (thr s1); [destruct (Qle_bool _ _)|];
      try destruct (Qeq_bool _ _); cbn; rewrite ?map_length; auto. }
  rewrite H. eapply remove_nth_length; eauto.
Qed.

Lemma le_ext_compat d d' b : d == d' -> le_ext d b = le_ext d' b.
Proof. intros E. destruct b; cbn; auto. apply Qle_bool_compat; [auto | reflexivity]. Qed.

Lemma advance_R fuel : forall s f b,
  (length (act s) <= fuel)%nat -> R s f -> R (advance fuel s b) (fadvance fuel f b).
Proof.
  induction fuel as [|k IH]; intros s f b Hlen HR.
  - cbn. apply set_now_R; auto. destruct (act s); [constructor | cbn in Hlen; lia].
  - cbn. pose proof (argmin_compat _ _ (keys_R _ _ HR)) as K.
    destruct (argmin (map due (act s))) as [[i d]|] eqn:E1,
             (argmin (map (freach f) (fact f))) as [[j d']|] eqn:E2; cbn in K; try tauto.
    + destruct K as [<- Hd]. rewrite <- (le_ext_compat _ _ b Hd).
      destruct (le_ext d b) eqn:L.
      * apply IH; [|apply tick_R; auto]. pose proof (tick_length _ _ _ E1). lia.
      * apply set_now_R; auto. destruct b as [t|]; cbn in L; [|discriminate].
        apply argmin_spec in E1 as [_ Hall]. apply Forall_map_due in Hall.
        eapply Forall_impl; [|exact Hall]. cbn. intros x Hx.
        destruct (Qlt_le_dec t d) as [H|H]; [lra|]. apply Qle_bool_iff in H. congruence.
    + apply set_now_R; auto. apply argmin_none in E1.
      destruct (act s); [constructor | discriminate].
Qed.

Definition op_ok (o : op) : Prop :=
  match o with
  | Join _ _ v l => 0 <= v /\ match l with Fin l => 0 < l | Inf => True end
  | Cancel _ _ => True
  end.

Lemma join_R s f id v l :
  R s f -> 0 <= v -> match l with Fin l => 0 < l | Inf => True end ->
  R (join s id v l) (fjoin f id v l).
Proof.
  intros HR Hv Hl. pose proof HR as (HT & Hs & Hsc & HTf & Hn & Hact & Hfin).
  destruct l as [l|]; cbn [join fjoin].
  - set (x := mkX id l v 0 (now s) (l * scl s)).
    assert (HF : Forall2 (Rx (now s) (scl s)) (act s ++ [x]) (fact f ++ [mkF id l v 0])).
    { apply Forall2_app; auto. constructor; [|constructor].
      unfold Rx, Xok, got; cbn. repeat split; auto; try reflexivity; try apply Qle_refl.
      - ring_simplify. exact Hv.
      - ring. }
    destruct (throttle_R s _ _ HT Hs HF) as (A1 & A2 & A3 & A4 & A5 & A6 & _ & _ & A9).
    unfold R. rewrite A1, A2, A3, A6. cbn [fthr fnow fact ffin]. repeat split; auto.
  - unfold R; cbn. repeat split; auto. apply Forall2_app; auto.
    constructor; [|constructor]. split; cbn; auto.
Qed.

Lemma cancel_R s f id : R s f -> R (cancel s id) (fcancel f id).
Proof.
  intros HR. pose proof HR as (HT & Hs & Hsc & HTf & Hn & Hact & Hfin).
  assert (HF : Forall2 (Rx (now s) (scl s)) (filter (fun x => negb (has_id id x)) (act s))
                       (filter (fun y => negb (fhas_id id y)) (fact f))).
  { apply Forall2_filter; auto. intros x y (_ & Hi & _). unfold has_id, fhas_id. rewrite Hi. auto. }
  unfold cancel, fcancel. destruct (existsb (has_id id) (act s)) eqn:E.
  - destruct (throttle_R s _ _ HT Hs HF) as (A1 & A2 & A3 & A4 & A5 & A6 & _ & _ & A9).
    unfold R. rewrite A1, A2, A3, A6. cbn [fthr fnow fact ffin]. repeat split; auto.
  - rewrite (filter_none _ _ E) in HF. unfold R; cbn [fthr fnow fact ffin]. repeat split; auto.
Qed.

Lemma R_length s f : R s f -> length (act s) = length (fact f).
Proof. intros HR. eapply Forall2_len. apply HR. Qed.

Lemma apply_R s f o : R s f -> op_ok o -> R (apply s o) (fapply f o).
Proof.
  intros HR Hok. destruct o as [t id v l | t id]; cbn [apply fapply];
    rewrite <- (R_length _ _ HR).
  - destruct Hok. apply join_R; auto. apply advance_R; auto.
  - apply cancel_R. apply advance_R; auto.
Qed.

Lemma init_R T : Tpos T -> R (init T) (finit T).
Proof.
  intros HT. unfold R; cbn. repeat split; auto; try reflexivity.
  destruct T as [t|]; cbn in *; [|reflexivity].
  assert (Qle_bool 0 t = true) by (apply Qle_bool_iff; lra). rewrite H. reflexivity.
Qed.

Lemma fold_R ops : forall s f,
  R s f -> Forall op_ok ops -> R (fold_left apply ops s) (fold_left fapply ops f).
Proof.
  induction ops as [|o ops IH]; cbn; auto. intros s f HR Hok. inversion Hok; subst.
  apply IH; auto. apply apply_R; auto.
Qed.

(** every state the windowed machine can reach is related to the fluid state of the same history *)
Theorem reach_R T ops :
  Tpos T -> Forall op_ok ops ->
  R (fold_left apply ops (init T)) (fold_left fapply ops (finit T)).
Proof. intros. apply fold_R; auto. apply init_R; auto. Qed.

Theorem run_R T ops : Tpos T -> Forall op_ok ops -> R (run_st T ops) (frun_st T ops).
Proof.
  intros HT Hok. pose proof (reach_R T ops HT Hok) as HR.
  unfold run_st, frun_st, drain, fdrain. rewrite <- (R_length _ _ HR). apply advance_R; auto.
Qed.

(** the windowed algorithm completes every transfer at the time the fluid model does *)
Theorem windowed_equals_fluid T ops :
  Tpos T -> Forall op_ok ops -> Forall2 Rfin (run T ops) (frun T ops).
Proof. intros HT Hok. apply (run_R T ops HT Hok). Qed.

(** * Invariant of the windowed machine alone *)

Definition Inv (s : st) : Prop :=
  Tpos (thr s) /\ 0 < scl s /\ scl s == scale_of (thr s) (sum_lim (act s)) /\
  Forall (Xok (now s) (scl s)) (act s).

(** the fluid state a windowed state stands for *)
Definition absx (t : Q) (x : xfer) : fx := mkF (xid x) (xlim x) (xvol x) (got t x).
Definition abs (s : st) : fstate := mkFS (thr s) (now s) (map (absx (now s)) (act s)) (fin s).

Lemma R_Inv s f : R s f -> Inv s.
Proof.
  intros (HT & Hs & Hsc & _ & _ & Hact & _). repeat split; auto.
  eapply Forall2_left; [|exact Hact]. intros a b H; apply H.
Qed.

Lemma Forall_Forall2_map {A B} (P : A -> B -> Prop) g l :
  Forall (fun a => P a (g a)) l -> Forall2 P l (map g l).
Proof. induction 1; cbn; constructor; auto. Qed.

Lemma Forall2_refl {A} (P : A -> A -> Prop) l : (forall a, P a a) -> Forall2 P l l.
Proof. intros H; induction l; constructor; auto. Qed.

Lemma Inv_R s : Inv s -> R s (abs s).
Proof.
  intros (HT & Hs & Hsc & Hact). unfold R; cbn. repeat split; auto; try reflexivity.
  - apply Forall_Forall2_map. eapply Forall_impl; [|exact Hact].
    intros x Hx. unfold Rx, absx; cbn. repeat split; auto; try apply Hx; reflexivity.
  - apply Forall2_refl. intros [i t]; split; reflexivity.
Qed.

Theorem reach_Inv T ops :
  Tpos T -> Forall op_ok ops -> Inv (fold_left apply ops (init T)).
Proof. intros. eapply R_Inv, reach_R; auto. Qed.

Lemma tick_Inv s : Inv s -> Inv (tick s).
Proof. intros H. eapply R_Inv, tick_R, Inv_R; auto. Qed.

Lemma advance_Inv fuel s b : (length (act s) <= fuel)%nat -> Inv s -> Inv (advance fuel s b).
Proof. intros L H. eapply R_Inv, advance_R, Inv_R; auto. Qed.

Lemma join_Inv s id v l :
  Inv s -> 0 <= v -> match l with Fin l => 0 < l | Inf => True end -> Inv (join s id v l).
Proof. intros H Hv Hl. eapply R_Inv, join_R; eauto. apply Inv_R; auto. Qed.

Lemma cancel_Inv s id : Inv s -> Inv (cancel s id).
Proof. intros H. eapply R_Inv, cancel_R, Inv_R; auto. Qed.

(** * Rates: the property's first sentence, in every reachable state *)

Lemma sum_lim_nonneg xs : Forall (fun x => 0 < xlim x) xs -> 0 <= sum_lim xs.
Proof.
  induction 1; [apply Qle_refl|]. unfold sum_lim in *; cbn. lra.
Qed.

Lemma sum_lim_pos xs x : Forall (fun x => 0 < xlim x) xs -> In x xs -> 0 < sum_lim xs.
Proof.
  induction 1; cbn; [tauto|]. intros [->|Hin].
  - pose proof (sum_lim_nonneg _ H0). unfold sum_lim in *; cbn. lra.
  - specialize (IHForall Hin). unfold sum_lim in *; cbn. lra.
Qed.

Lemma Inv_lims s : Inv s -> Forall (fun x => 0 < xlim x) (act s).
Proof. intros (_ & _ & _ & H). eapply Forall_impl; [|exact H]. intros x Hx; apply Hx. Qed.

(** the rate of the current window of every active transfer is the sharing formula *)
Theorem window_rate s x :
  Inv s -> In x (act s) -> xwr x == rate_of (thr s) (sum_lim (act s)) (xlim x).
Proof.
  intros (_ & _ & Hsc & Hact) Hin. rewrite Forall_forall in Hact.
  destruct (Hact x Hin) as (_ & Hw & _). unfold rate_of. rewrite <- Hsc. exact Hw.
Qed.

Theorem window_rate_spec s x t :
  Inv s -> thr s = Fin t -> In x (act s) ->
  xwr x == Qmin (xlim x) (xlim x * t / sum_lim (act s)).
Proof.
  intros HI HT Hin. rewrite (window_rate s x HI Hin), HT.
  pose proof HI as (HTp & _). rewrite HT in HTp; cbn in HTp.
  pose proof (Inv_lims s HI) as Hl.
  apply rate_spec; auto.
  - eapply sum_lim_pos; eauto.
  - rewrite Forall_forall in Hl. apply Qlt_le_weak; auto.
Qed.

Definition sum_wr (xs : list xfer) : Q := fold_right (fun x a => xwr x + a) 0 xs.

Lemma sum_wr_scl t sc xs : Forall (Xok t sc) xs -> sum_wr xs == sc * sum_lim xs.
Proof.
  induction 1; unfold sum_wr, sum_lim in *; cbn; [ring|].
  destruct H as (_ & Hw & _). rewrite IHForall, Hw. ring.
Qed.

(** the combined flow never exceeds the pipe's throughput *)
Theorem sum_le_throughput s t : Inv s -> thr s = Fin t -> sum_wr (act s) <= t.
Proof.
  intros HI HT. pose proof (Inv_lims s HI) as Hl.
  destruct HI as (HTp & _ & Hsc & Hact). rewrite HT in *; cbn in HTp.
  rewrite (sum_wr_scl _ _ _ Hact), Hsc. apply scaled_sum_le; auto.
  apply sum_lim_nonneg; auto.
Qed.

(** an uncongested pipe does not slow anyone down *)
Theorem uncongested_full_speed s x :
  Inv s -> match thr s with Fin t => sum_lim (act s) <= t | Inf => True end ->
  In x (act s) -> xwr x == xlim x.
Proof.
  intros HI HU Hin. rewrite (window_rate s x HI Hin). apply uncongested_rate; auto.
Qed.

(** * Shape of throttle / tick *)

Lemma throttle_proj s a :
  thr (throttle s a) = thr s /\ now (throttle s a) = now s /\ fin (throttle s a) = fin s /\
  (act (throttle s a) = a \/ act (throttle s a) = map (replan (now s) (scl (throttle s a))) a).
Proof.
  unfold throttle, relax, wake. destruct (thr s); [destruct (Qle_bool _ _)|];
    try destruct (Qeq_bool _ _); cbn; auto.
Qed.

Lemma tick_proj s i d x :
  argmin (map due (act s)) = Some (i, d) -> nth_error (act s) i = Some x ->
  thr (tick s) = thr s /\ now (tick s) = d /\ fin (tick s) = fin s ++ [(xid x, d)] /\
  (act (tick s) = remove_nth i (act s) \/
   act (tick s) = map (replan d (scl (tick s))) (remove_nth i (act s))).
Proof.
  intros E N. unfold tick. rewrite E, N.
  set (s1 := mkS _ _ _ _ _). apply (throttle_proj s1).
Qed.

Lemma argmin_nth s i d :
  argmin (map due (act s)) = Some (i, d) ->
  exists x, nth_error (act s) i = Some x /\ due x = d /\ Forall (fun z => d <= due z) (act s).
Proof.
  intros E. apply argmin_spec in E as [Hn Hall]. rewrite nth_error_map in Hn.
  destruct (nth_error (act s) i) as [x|]; cbn in Hn; [|discriminate].
  injection Hn as Hn. exists x. repeat split; auto. apply Forall_map_due in Hall. exact Hall.
Qed.

Lemma fin_tick_incl s : incl (fin s) (fin (tick s)).
Proof.
  destruct (argmin (map due (act s))) as [[i d]|] eqn:E.
  - destruct (argmin_nth _ _ _ E) as (x & N & _).
    destruct (tick_proj _ _ _ _ E N) as (_ & _ & -> & _). apply incl_appl, incl_refl.
  - unfold tick. rewrite E. apply incl_refl.
Qed.

Lemma set_now_fin s b : fin (set_now s b) = fin s.
Proof. destruct b; cbn; auto. destruct (Qle_bool _ _); auto. Qed.

Lemma fin_advance_incl fuel : forall s b, incl (fin s) (fin (advance fuel s b)).
Proof.
  induction fuel as [|k IH]; intros s b; cbn.
  - rewrite set_now_fin. apply incl_refl.
  - destruct (argmin (map due (act s))) as [[i d]|]; [destruct (le_ext d b)|];
      rewrite ?set_now_fin; try apply incl_refl.
    eapply incl_tran; [apply fin_tick_incl | apply IH].
Qed.

(** * Completion exactly when the amount reaches the volume *)

Lemma due_eq t x : 0 < xwr x -> got t x == xvol x -> due x == t.
Proof. intros Hw H. unfold due. rewrite <- H. unfold got. field. lra. Qed.

Lemma got_at_due x : 0 < xwr x -> got (due x) x == xvol x.
Proof. intros Hw. pose proof (due_mul x Hw). unfold got. lra. Qed.

(** when the earliest timer fires, that transfer has moved exactly its volume
    and nobody else more than theirs *)
Theorem tick_exact s i d :
  Inv s -> argmin (map due (act s)) = Some (i, d) ->
  exists x, nth_error (act s) i = Some x /\ now s <= d /\ got d x == xvol x /\
            Forall (fun z => got d z <= xvol z) (act s).
Proof.
  intros (_ & Hs & _ & Hact) E. destruct (argmin_nth _ _ _ E) as (x & N & Hd & Hall).
  exists x. rewrite Forall_forall in Hact, Hall.
  pose proof (Hact x (nth_error_In _ _ N)) as Hx.
  pose proof (Xok_wr_pos _ _ _ Hs Hx) as Hw.
  split; [exact N|]. split; [|split].
  - rewrite <- Hd. apply (now_le_due s x Hs Hx).
  - rewrite <- Hd. apply got_at_due; auto.
  - rewrite Forall_forall. intros z Hz.
    apply le_due_iff; [exact (Xok_wr_pos _ _ _ Hs (Hact z Hz)) | exact (Hall z Hz)].
Qed.

(** the same on the fluid machine: the integral of the rate is exactly the volume *)
Theorem ftick_exact f y : 0 < frate f y ->
  famt y + (freach f y - fnow f) * frate f y == fvol y.
Proof. intros H. unfold freach. field. lra. Qed.

(** after letting time pass to [t], whoever is still active has moved strictly less than its
    volume (so nobody stays in the pipe after reaching it), and time is [t] *)
Theorem advance_settled fuel : forall s t,
  Inv s -> (length (act s) <= fuel)%nat -> now s <= t ->
  now (advance fuel s (Fin t)) == t /\
  Forall (fun x => got t x < xvol x) (act (advance fuel s (Fin t))).
Proof.
  induction fuel as [|k IH]; intros s t HI Hlen Hnt.
  - cbn. apply Qle_bool_iff in Hnt. rewrite Hnt. cbn. split; [reflexivity|].
    destruct (act s); [constructor | cbn in Hlen; lia].
  - cbn. destruct (argmin (map due (act s))) as [[i d]|] eqn:E.
    + destruct (Qle_bool d t) eqn:L.
      * apply Qle_bool_iff in L. destruct (argmin_nth _ _ _ E) as (x & N & _).
        destruct (tick_proj _ _ _ _ E N) as (_ & Hn & _).
        apply IH; [apply tick_Inv; auto | | rewrite Hn; auto].
        pose proof (tick_length _ _ _ E). lia.
      * pose proof Hnt as Hnt'. apply Qle_bool_iff in Hnt'. cbn. rewrite Hnt'. cbn.
        split; [reflexivity|].
        destruct (argmin_nth _ _ _ E) as (x & N & _ & Hall).
        destruct HI as (_ & Hs & _ & Hact).
        rewrite Forall_forall in *. intros z Hz. apply lt_due_iff.
        { eapply Xok_wr_pos; eauto. }
        assert (t < d).
        { destruct (Qlt_le_dec t d) as [H|H]; auto. apply Qle_bool_iff in H. congruence. }
        specialize (Hall z Hz). lra.
    + apply argmin_none in E. pose proof Hnt as Hnt'. apply Qle_bool_iff in Hnt'.
      cbn. rewrite Hnt'. cbn. split; [reflexivity|].
      destruct (act s); [constructor | discriminate].
Qed.

(** * Zero volume and infinite throughput take no time *)

Theorem infinite_takes_no_time s id v :
  fin (join s id v Inf) = fin s ++ [(id, now s)] /\ act (join s id v Inf) = act s /\
  now (join s id v Inf) = now s.
Proof. cbn. auto. Qed.

Lemma got_compat t t' x : t == t' -> got t x == got t' x.
Proof. intros E. unfold got. rewrite E. reflexivity. Qed.

(** a transfer with nothing left to move is recorded at the current time, whatever else
    completes at this moment *)
Lemma done_now fuel : forall s b x,
  Inv s -> (length (act s) <= fuel)%nat -> In x (act s) -> got (now s) x == xvol x ->
  le_ext (now s) b = true ->
  exists d, d == now s /\ In (xid x, d) (fin (advance fuel s b)).
Proof.
  induction fuel as [|k IH]; intros s b x HI Hlen Hin Hg Hb.
  - destruct (act s); [destruct Hin | cbn in Hlen; lia].
  - cbn. destruct (argmin (map due (act s))) as [[i d]|] eqn:E.
    2:{ apply argmin_none in E. destruct (act s); [destruct Hin | discriminate]. }
    destruct (argmin_nth _ _ _ E) as (z & N & Hdz & Hall).
    pose proof HI as (_ & Hs & _ & Hact). rewrite Forall_forall in Hact, Hall.
    assert (Hd : d == now s).
    { pose proof (Hall x Hin).
      assert (due x == now s) by (apply due_eq; auto; eapply Xok_wr_pos; eauto).
      assert (now s <= d).
      { rewrite <- Hdz. eapply now_le_due; eauto. apply Hact. eapply nth_error_In; eauto. }
      lra. }
    rewrite (le_ext_compat _ _ b Hd), Hb.
    destruct (tick_proj _ _ _ _ E N) as (_ & Hn & Hf & Hsh).
    destruct (In_nth_error _ _ Hin) as (j & Nj).
    destruct (Nat.eq_dec j i) as [->|Hji].
    + exists d. split; auto. apply (fin_advance_incl k (tick s) b).
      rewrite Hf. apply in_or_app. right. left. congruence.
    + pose proof (In_remove_nth i j _ _ Nj Hji) as Hin'.
      assert (exists x', In x' (act (tick s)) /\ xid x' = xid x /\
                         got (now (tick s)) x' == xvol x') as (x' & I' & Hid & Hg').
      { rewrite Hn. destruct Hsh as [->| ->].
        - exists x. repeat split; auto. rewrite (got_compat _ _ _ Hd). exact Hg.
        - exists (replan d (scl (tick s)) x). split; [apply in_map; auto|]. split; auto.
          rewrite got_replan. cbn. rewrite (got_compat _ _ _ Hd). exact Hg. }
      destruct (IH (tick s) b x') as (d' & Hd' & Hin''); auto.
      * apply tick_Inv; auto.
      * pose proof (tick_length _ _ _ E). lia.
      * rewrite Hn. rewrite (le_ext_compat _ _ b Hd). exact Hb.
      * exists d'. split; [rewrite Hd', Hn; exact Hd|]. rewrite <- Hid. exact Hin''.
Qed.

(** a zero-volume transfer is recorded complete at its own start time by whatever
    the machine does next ([apply] and [drain] always begin with this [advance]) *)
Theorem zero_volume_no_time s id l b :
  Inv s -> 0 < l -> le_ext (now s) b = true ->
  let s1 := join s id 0 (Fin l) in
  exists d, d == now s /\ In (id, d) (fin (advance (length (act s1)) s1 b)).
Proof.
  intros HI Hl Hb s1.
  assert (HI1 : Inv s1) by (apply join_Inv; auto; apply Qle_refl).
  set (x0 := mkX id l 0 0 (now s) (l * scl s)).
  destruct (throttle_proj s (act s ++ [x0])) as (_ & Hn & _ & Hsh).
  fold x0 in Hsh. change (throttle s (act s ++ [x0])) with s1 in Hn, Hsh.
  assert (exists x', In x' (act s1) /\ xid x' = id /\ got (now s1) x' == xvol x')
    as (x' & I' & Hid & Hg').
  { rewrite Hn. destruct Hsh as [->| ->].
    - exists x0. split; [apply in_or_app; right; left; auto|]. split; auto.
      unfold got; cbn. ring.
    - exists (replan (now s) (scl s1) x0). split; [apply in_map, in_or_app; right; left; auto|].
      split; auto. rewrite got_replan. unfold got; cbn. ring. }
  destruct (done_now (length (act s1)) s1 b x') as (d & Hd & Hin); auto.
  - rewrite Hn; auto.
  - exists d. split; [rewrite Hd, Hn; reflexivity|]. rewrite <- Hid. exact Hin.
Qed.

(** * A transfer that leaves stops occupying bandwidth immediately *)

Theorem leave_frees_bandwidth s id x' :
  Inv s -> In x' (act (cancel s id)) ->
  xid x' <> id /\
  xwr x' == rate_of (thr s) (sum_lim (filter (fun x => negb (has_id id x)) (act s))) (xlim x').
Proof.
  intros HI Hin. pose proof (cancel_Inv s id HI) as HI'.
  pose proof (window_rate _ _ HI' Hin) as Hw. revert Hin Hw. unfold cancel.
  destruct (existsb (has_id id) (act s)) eqn:E.
  - set (acts := filter _ (act s)).
    pose proof (Inv_R s HI) as HR. pose proof HR as (HT & Hs & _ & _ & _ & Hact & _).
    assert (HF : Forall2 (Rx (now s) (scl s)) acts
                         (filter (fun y => negb (fhas_id id y)) (fact (abs s)))).
    { apply Forall2_filter; auto. intros x y (_ & Hi & _). unfold has_id, fhas_id. rewrite Hi. auto. }
    destruct (throttle_R s _ _ HT Hs HF) as (A1 & _ & _ & _ & _ & A6 & _ & A8 & _).
    rewrite A1, A6. intros Hin Hw. split; auto.
    assert (In (xid x') (map xid acts)) by (rewrite <- A8; apply in_map; auto).
    apply in_map_iff in H as (z & Hz & Hzin). apply filter_In in Hzin as [_ Hne].
    unfold has_id in Hne. rewrite Hz in Hne. intros Heq. rewrite Heq, Z.eqb_refl in Hne. discriminate.
  - rewrite (filter_none _ _ E). intros Hin Hw. split; auto.
    intros Heq. assert (existsb (has_id id) (act s) = true).
    { apply existsb_exists. exists x'. split; auto. unfold has_id. rewrite Heq. apply Z.eqb_refl. }
    congruence.
Qed.

Lemma sum_flim_nonneg ys : Forall (fun y => 0 < flim y) ys -> 0 <= sum_flim ys.
Proof. induction 1; [apply Qle_refl|]. unfold sum_flim in *; cbn. lra. Qed.

Lemma sum_flim_pos ys y : Forall (fun y => 0 < flim y) ys -> In y ys -> 0 < sum_flim ys.
Proof.
  induction 1; cbn; [tauto|]. intros [->|Hin].
  - pose proof (sum_flim_nonneg _ H0). unfold sum_flim in *; cbn. lra.
  - specialize (IHForall Hin). unfold sum_flim in *; cbn. lra.
Qed.

(** the rate the fluid machine integrates ([flow_to]) is the property's formula *)
Theorem frate_spec f tt y :
  fthr f = Fin tt -> 0 < tt -> Forall (fun y => 0 < flim y) (fact f) -> In y (fact f) ->
  frate f y == Qmin (flim y) (flim y * tt / sum_flim (fact f)).
Proof.
  intros HT Ht Hl Hin. unfold frate. rewrite HT. apply rate_spec; auto.
  - eapply sum_flim_pos; eauto.
  - rewrite Forall_forall in Hl. apply Qlt_le_weak; auto.
Qed.

(** in every reachable state of the fluid machine no amount exceeds its volume *)
Theorem fluid_no_overshoot T ops :
  Tpos T -> Forall op_ok ops ->
  Forall (fun y => famt y <= fvol y) (fact (fold_left fapply ops (finit T))).
Proof.
  intros HT Hok. pose proof (reach_R T ops HT Hok) as (_ & _ & _ & _ & _ & Hact & _).
  eapply Forall2_right; [|exact Hact]. cbn.
  intros x y ((_ & _ & _ & _ & Hg) & _ & _ & Hv & Ha). rewrite Ha, <- Hv. exact Hg.
Qed.

(** satisfiability of the hypotheses, and the example of the class docstring:
    Pipe(3), two transfers of 15 with limit 3 take 10 time units *)
Example ex_hyps : Tpos (Fin 3) /\ Forall op_ok [Join 0 0 15 (Fin 3); Join 0 1 15 (Fin 3); Cancel 2 0].
Proof. split; [reflexivity|]. repeat constructor; cbn; lra. Qed.

Example ex_doc :
  run_case 3 1 [[0;0;0;1;15;1;3;1];[0;1;0;1;15;1;3;1]]%Z = [[0;10;1];[1;10;1]]%Z.
Proof. vm_compute. reflexivity. Qed.

(** a join in mid-flight with another limit, a zero volume, a cancellation and an
    infinite limit (ld = 0) *)
Example ex_mixed :
  run_case 3 1 [[0;0;0;1;15;1;3;1];[0;1;1;1;7;1;2;1];[0;2;2;1;0;1;2;1];[1;0;3;1]]%Z
  = [[2;2;1];[1;53;10]]%Z.
Proof. vm_compute. reflexivity. Qed.

Example ex_inv : Inv (init (Fin 3)).
Proof. apply (reach_Inv (Fin 3) []); [reflexivity | constructor]. Qed.
