(* SimResProps.v -- proofs about the resource machines of SimRes.v (property C19).
   All statements quantify over arbitrary operation histories (lists of op). *)
From Coq Require Import ZArith List Bool Lia Sorted Permutation.
From Usim Require Import SimRes.
Import ListNotations.
Local Open Scope Z_scope.

Set Implicit Arguments.

(* ========================================================================================== *)
(* Generic facts about the two-queue machine *)
Section Generic.
  Variables C P G N : Type.
  Variable M : mach C P G N.

  Notation state := (state C P G).
  Notation ev := (ev P G N).
  Notation op := (op P G).

  Definition eput (g : nat * P * N) : ev := EPut (gid g) (snd (fst g)) (snd g).
  Definition eget (g : nat * G * N) : ev := EGet (gid g) (snd (fst g)) (snd g).

  (* c --grants gs--> c' *)
  Fixpoint chain {R} (f : C -> nat * R -> option (C * N)) (c : C) (gs : list (nat * R * N)) (c' : C) : Prop :=
    match gs with
    | [] => c' = c
    | g :: gs' => exists c1, f c (fst g) = Some (c1, snd g) /\ chain f c1 gs' c'
    end.

  Lemma serve_prefix_spec : forall R (f : C -> nat * R -> option (C * N)) q c c' gs rest,
      serve_prefix f c q = (c', gs, rest) ->
      q = map fst gs ++ rest /\ chain f c gs c' /\
      match rest with r :: _ => f c' r = None | [] => True end.
  Proof.
    induction q as [|r q IH]; simpl; intros c c' gs rest H.
    - inversion H; subst; simpl; auto.
    - destruct (f c r) as [[c1 n]|] eqn:E.
      + destruct (serve_prefix f c1 q) as [[c2 gs2] rest2] eqn:E2. inversion H; subst.
        destruct (IH _ _ _ _ E2) as (Hq & Hc & Hr). simpl. split; [f_equal; auto|].
        split; auto. exists c1; auto.
      + inversion H; subst. simpl. rewrite E. auto.
  Qed.

  Lemma chain_none : forall R (f : C -> nat * R -> option (C * N)),
      (forall c r c1 n r', f c r = Some (c1, n) -> f c r' = None -> f c1 r' = None) ->
      forall gs c c' r', chain f c gs c' -> f c r' = None -> f c' r' = None.
  Proof.
    intros R f Hm. induction gs as [|g gs IH]; simpl; intros c c' r' H Hn.
    - subst; auto.
    - destruct H as (c1 & H1 & H2). eapply IH; eauto.
  Qed.

  Lemma serve_all_spec : forall R (f : C -> nat * R -> option (C * N)) q c c' gs rest,
      serve_all f c q = (c', gs, rest) ->
      chain f c gs c' /\ (forall x, In x rest -> In x q).
  Proof.
    induction q as [|r q IH]; simpl; intros c c' gs rest H.
    - inversion H; subst; simpl; auto.
    - destruct (f c r) as [[c1 n]|] eqn:E.
      + destruct (serve_all f c1 q) as [[c2 gs2] rest2] eqn:E2. inversion H; subst.
        destruct (IH _ _ _ _ E2) as (Hc & Hi). split; [exists c1; auto|]. intros x Hx; right; auto.
      + destruct (serve_all f c q) as [[c2 gs2] rest2] eqn:E2. inversion H; subst.
        destruct (IH _ _ _ _ E2) as (Hc & Hi). split; auto.
        intros x [Hx|Hx]; [left; auto|right; auto].
  Qed.

  Lemma serve_all_sorted : forall R (f : C -> nat * R -> option (C * N)) (lt : nat * R -> nat * R -> Prop)
      q c c' gs rest,
      serve_all f c q = (c', gs, rest) -> StronglySorted lt q -> StronglySorted lt rest.
  Proof.
    induction q as [|r q IH]; simpl; intros c c' gs rest H Hs.
    - inversion H; subst; constructor.
    - inversion Hs as [|? ? Hs' Hf]; subst.
      destruct (f c r) as [[c1 n]|] eqn:E.
      + destruct (serve_all f c1 q) as [[c2 gs2] rest2] eqn:E2. inversion H; subst. eauto.
      + destruct (serve_all f c q) as [[c2 gs2] rest2] eqn:E2. inversion H; subst.
        constructor; [eauto|].
        apply Forall_forall. intros x Hx. rewrite Forall_forall in Hf. apply Hf.
        eapply serve_all_spec; eauto.
  Qed.

  Lemma serve_all_blocked : forall R (f : C -> nat * R -> option (C * N)),
      (forall c r c1 n r', f c r = Some (c1, n) -> f c r' = None -> f c1 r' = None) ->
      forall q c c' gs rest, serve_all f c q = (c', gs, rest) -> Forall (fun r => f c' r = None) rest.
  Proof.
    intros R f Hm. induction q as [|r q IH]; simpl; intros c c' gs rest H.
    - inversion H; subst; constructor.
    - destruct (f c r) as [[c1 n]|] eqn:E.
      + destruct (serve_all f c1 q) as [[c2 gs2] rest2] eqn:E2. inversion H; subst. eauto.
      + destruct (serve_all f c q) as [[c2 gs2] rest2] eqn:E2. inversion H; subst.
        constructor; [|eauto].
        eapply chain_none; eauto. eapply serve_all_spec; eauto.
  Qed.

  Lemma serve_prefix_nil : forall R (f : C -> nat * R -> option (C * N)) q c c' rest,
      serve_prefix f c q = (c', [], rest) -> c' = c /\ rest = q.
  Proof.
    intros R f q c c' rest H. destruct q as [|r q]; simpl in H.
    - inversion H; auto.
    - destruct (f c r) as [[c1 n]|].
      + destruct (serve_prefix f c1 q) as [[c2 gs2] rest2]. inversion H.
      + inversion H; auto.
  Qed.

  Lemma serve_all_nil : forall R (f : C -> nat * R -> option (C * N)) q c c' rest,
      serve_all f c q = (c', [], rest) -> c' = c /\ rest = q.
  Proof.
    induction q as [|r q IH]; simpl; intros c c' rest H.
    - inversion H; auto.
    - destruct (f c r) as [[c1 n]|].
      + destruct (serve_all f c1 q) as [[c2 gs2] rest2]. inversion H.
      + destruct (serve_all f c q) as [[c2 gs2] rest2] eqn:E2. inversion H; subst.
        destruct (IH _ _ _ E2); subst; auto.
  Qed.

  (* ---- the two triggers, in a form that is convenient to destruct *)
  Definition gserve (s : state) :=
    if get_all M then serve_all (do_get M (now s)) (content s) (getq s)
    else serve_prefix (do_get M (now s)) (content s) (getq s).

  Lemma trigger_put_eq : forall s, exists c gs rest,
      serve_prefix (do_put M (now s)) (content s) (putq s) = (c, gs, rest) /\
      trigger_put M s = (St (now s) c rest (getq s) (pend s ++ map (fun g => (gid g, true)) gs), map eput gs).
  Proof.
    intros s. unfold trigger_put.
    destruct (serve_prefix (do_put M (now s)) (content s) (putq s)) as [[c gs] rest].
    exists c, gs, rest. auto.
  Qed.

  Lemma trigger_get_eq : forall s, exists c gs rest,
      gserve s = (c, gs, rest) /\
      trigger_get M s = (St (now s) c (putq s) rest (pend s ++ map (fun g => (gid g, false)) gs), map eget gs).
  Proof.
    intros s. unfold trigger_get, gserve.
    destruct (if get_all M then _ else _) as [[c gs] rest].
    exists c, gs, rest. auto.
  Qed.

  Lemma gserve_chain : forall s c gs rest, gserve s = (c, gs, rest) -> chain (do_get M (now s)) (content s) gs c.
  Proof.
    unfold gserve. intros s c gs rest H. destruct (get_all M).
    - eapply serve_all_spec; eauto.
    - eapply serve_prefix_spec; eauto.
  Qed.

  Lemma gserve_nil : forall s c rest, gserve s = (c, [], rest) -> c = content s /\ rest = getq s.
  Proof.
    unfold gserve. intros s c rest H. destruct (get_all M).
    - eapply serve_all_nil; eauto.
    - eapply serve_prefix_nil; eauto.
  Qed.

  Lemma gserve_in : forall s c gs rest x, gserve s = (c, gs, rest) -> In x rest -> In x (getq s).
  Proof.
    unfold gserve. intros s c gs rest x H Hx. destruct (get_all M).
    - eapply serve_all_spec; eauto.
    - apply serve_prefix_spec in H. destruct H as (H & _). rewrite H. apply in_or_app; auto.
  Qed.

  (* ======================================================================================== *)
  (* 1. Refinement principle: a relation between content and the trace of grants that is kept by
        every single grant (of a request the constructor accepted) holds after every history. *)
  Definition qok (s : state) : Prop :=
    Forall (fun r => okp M (snd r) = true) (putq s) /\ Forall (fun r => okg M (snd r) = true) (getq s).

  Lemma serve_all_granted : forall R (f : C -> nat * R -> option (C * N)) q c c' gs rest,
      serve_all f c q = (c', gs, rest) -> forall g, In g gs -> In (fst g) q.
  Proof.
    induction q as [|r q IH]; simpl; intros c c' gs rest H g Hg.
    - inversion H; subst. destruct Hg.
    - destruct (f c r) as [[c1 n]|] eqn:E.
      + destruct (serve_all f c1 q) as [[c2 gs2] rest2] eqn:E2. inversion H; subst.
        destruct Hg as [<-|Hg]; [left; auto|right; eapply IH; eauto].
      + destruct (serve_all f c q) as [[c2 gs2] rest2] eqn:E2. inversion H; subst.
        right; eapply IH; eauto.
  Qed.

  Lemma gserve_granted : forall s c gs rest g, gserve s = (c, gs, rest) -> In g gs -> In (fst g) (getq s).
  Proof.
    unfold gserve. intros s c gs rest g H Hg. destruct (get_all M).
    - eapply serve_all_granted; eauto.
    - apply serve_prefix_spec in H. destruct H as (H & _). rewrite H. apply in_or_app. left.
      apply in_map; auto.
  Qed.

  Section Refine.
    Hypothesis ins_in : forall r q x, In x (ins M r q) -> x = r \/ In x q.
    Variable R : C -> list ev -> Prop.
    Hypothesis Rput : forall t c tr id p c' n, okp M p = true ->
        R c tr -> do_put M t c (id, p) = Some (c', n) -> R c' (tr ++ [EPut id p n]).
    Hypothesis Rget : forall t c tr id g c' n, okg M g = true ->
        R c tr -> do_get M t c (id, g) = Some (c', n) -> R c' (tr ++ [EGet id g n]).

    Lemma R_chain_put : forall t gs c c' tr,
        Forall (fun g => okp M (snd (fst g)) = true) gs ->
        chain (do_put M t) c gs c' -> R c tr -> R c' (tr ++ map eput gs).
    Proof.
      induction gs as [|[[id p] n] gs IH]; simpl; intros c c' tr Hok H HR.
      - subst. rewrite app_nil_r. auto.
      - destruct H as (c1 & H1 & H2). simpl in H1. inversion Hok; subst. simpl in *.
        replace (tr ++ eput (id, p, n) :: map eput gs) with ((tr ++ [EPut id p n]) ++ map eput gs)
          by (rewrite <- app_assoc; reflexivity).
        eapply IH; eauto.
    Qed.

    Lemma R_chain_get : forall t gs c c' tr,
        Forall (fun g => okg M (snd (fst g)) = true) gs ->
        chain (do_get M t) c gs c' -> R c tr -> R c' (tr ++ map eget gs).
    Proof.
      induction gs as [|[[id g] n] gs IH]; simpl; intros c c' tr Hok H HR.
      - subst. rewrite app_nil_r. auto.
      - destruct H as (c1 & H1 & H2). simpl in H1. inversion Hok; subst. simpl in *.
        replace (tr ++ eget (id, g, n) :: map eget gs) with ((tr ++ [EGet id g n]) ++ map eget gs)
          by (rewrite <- app_assoc; reflexivity).
        eapply IH; eauto.
    Qed.

    Lemma R_trigger_put : forall s tr s' o,
        qok s -> R (content s) tr -> trigger_put M s = (s', o) -> R (content s') (tr ++ o) /\ qok s'.
    Proof.
      intros s tr s' o [Hp Hg] HR H. destruct (trigger_put_eq s) as (c & gs & rest & E & E').
      rewrite E' in H. inversion H; subst; simpl.
      apply serve_prefix_spec in E. destruct E as (Hq & Hc & _).
      rewrite Hq in Hp. apply Forall_app in Hp. destruct Hp as [Hp1 Hp2]. split.
      - eapply R_chain_put; eauto. apply Forall_forall. intros g Hin.
        rewrite Forall_forall in Hp1. apply (Hp1 (fst g)). apply in_map; auto.
      - split; auto.
    Qed.

    Lemma R_trigger_get : forall s tr s' o,
        qok s -> R (content s) tr -> trigger_get M s = (s', o) -> R (content s') (tr ++ o) /\ qok s'.
    Proof.
      intros s tr s' o [Hp Hg] HR H. destruct (trigger_get_eq s) as (c & gs & rest & E & E').
      rewrite E' in H. inversion H; subst; simpl. rewrite Forall_forall in Hg. split.
      - eapply R_chain_get; eauto.
        + apply Forall_forall. intros g Hin. apply (Hg (fst g)). eapply gserve_granted; eauto.
        + eapply gserve_chain; eauto.
      - split; auto. simpl. apply Forall_forall. intros x Hx. apply Hg. eapply gserve_in; eauto.
    Qed.

    Lemma R_step : forall s o tr s' outs,
        qok s -> R (content s) tr -> step M s o = (s', outs) -> R (content s') (tr ++ outs) /\ qok s'.
    Proof.
      intros s o tr s' outs Hq HR H. destruct o as [t|id p|id g|id|id]; simpl in H.
      - inversion H; subst; simpl. rewrite app_nil_r; auto.
      - destruct (okp M p) eqn:Eo.
        + eapply R_trigger_put in H; eauto. destruct Hq as [Hp Hg]. split; simpl; auto.
          apply Forall_forall. intros x Hx. apply ins_in in Hx. destruct Hx as [->|Hx]; auto.
          rewrite Forall_forall in Hp; auto.
        + inversion H; subst. rewrite app_nil_r; auto.
      - destruct (okg M g) eqn:Eo.
        + eapply R_trigger_get in H; eauto. destruct Hq as [Hp Hg]. split; simpl; auto.
          apply Forall_app; split; auto.
        + inversion H; subst. rewrite app_nil_r; auto.
      - inversion H; subst; simpl. rewrite app_nil_r. split; auto.
        destruct Hq as [Hp Hg]. unfold remove_id. split; simpl; apply Forall_forall; intros x Hx;
          apply filter_In in Hx; destruct Hx as [Hx _].
        + rewrite Forall_forall in Hp; auto.
        + rewrite Forall_forall in Hg; auto.
      - destruct (take_pend id (pend s)) as [[[|] l]|].
        + eapply R_trigger_get in H; eauto.
        + eapply R_trigger_put in H; eauto.
        + inversion H; subst. rewrite app_nil_r; auto.
    Qed.

    Theorem R_run_gen : forall h s tr s' outs,
        qok s -> R (content s) tr -> run M s h = (s', outs) -> R (content s') (tr ++ outs) /\ qok s'.
    Proof.
      induction h as [|o h IH]; simpl; intros s tr s' outs Hq HR H.
      - inversion H; subst. rewrite app_nil_r; auto.
      - destruct (step M s o) as [s1 e1] eqn:E1. destruct (run M s1 h) as [s2 e2] eqn:E2.
        inversion H; subst. rewrite app_assoc.
        edestruct R_step as [HR1 Hq1]; [exact Hq|exact HR|exact E1|]. eapply IH; eauto.
    Qed.

    Theorem R_run : forall c0 h s outs,
        R c0 [] -> run M (init c0) h = (s, outs) -> R (content s) outs.
    Proof.
      intros c0 h s outs HR H.
      assert (Hq : qok (init c0 : state)) by (split; constructor).
      edestruct R_run_gen as [HR' _]; [exact Hq|exact HR|exact H|]. exact HR'.
    Qed.
  End Refine.

  (* content invariants, and: every grant in a trace was made by _do_put/_do_get in a content
     that satisfies the invariant *)
  Section Inv.
    Hypothesis ins_in : forall r q x, In x (ins M r q) -> x = r \/ In x q.
    Variable I : C -> Prop.
    Hypothesis Iput : forall t c r c' n, okp M (snd r) = true -> I c -> do_put M t c r = Some (c', n) -> I c'.
    Hypothesis Iget : forall t c r c' n, okg M (snd r) = true -> I c -> do_get M t c r = Some (c', n) -> I c'.

    Definition justified (e : ev) : Prop :=
      match e with
      | EPut id p n => exists t c c', I c /\ do_put M t c (id, p) = Some (c', n)
      | EGet id g n => exists t c c', I c /\ do_get M t c (id, g) = Some (c', n)
      end.

    Theorem inv_run : forall c0 h s outs,
        I c0 -> run M (init c0) h = (s, outs) -> I (content s) /\ Forall justified outs.
    Proof.
      intros c0 h s outs HI H.
      pose (R := fun c (tr : list ev) => I c /\ Forall justified tr).
      apply (@R_run ins_in R) with (c0 := c0) (h := h); unfold R; auto.
      - intros t c tr id p c' n Hok [Hc Hf] Hd. split; [eapply Iput; eauto; auto|].
        apply Forall_app; split; auto. constructor; auto. simpl. eauto 6.
      - intros t c tr id g c' n Hok [Hc Hf] Hd. split; [eapply Iget; eauto; auto|].
        apply Forall_app; split; auto. constructor; auto. simpl. eauto 6.
    Qed.
  End Inv.

  (* ======================================================================================== *)
  (* 2. Queue discipline: with request ids issued in increasing order, both queues stay sorted by
        the policy order forever, and what a step grants, in grant order, followed by what is
        still waiting, is sorted by the policy order. *)
  Fixpoint incr (n : nat) (h : list op) : Prop :=
    match h with
    | [] => True
    | OPut id _ :: h' => (n <= id)%nat /\ incr (S id) h'
    | OGet id _ :: h' => (n <= id)%nat /\ incr (S id) h'
    | _ :: h' => incr n h'
    end.

  Fixpoint bound (n : nat) (h : list op) : nat :=
    match h with
    | [] => n
    | OPut id _ :: h' => bound (S id) h'
    | OGet id _ :: h' => bound (S id) h'
    | _ :: h' => bound n h'
    end.

  Definition puts_of (l : list ev) : list (nat * P) :=
    flat_map (fun e => match e with EPut id p _ => [(id, p)] | _ => [] end) l.
  Definition gets_of (l : list ev) : list (nat * G) :=
    flat_map (fun e => match e with EGet id g _ => [(id, g)] | _ => [] end) l.

  Lemma puts_of_eput : forall gs, puts_of (map eput gs) = map fst gs.
  Proof. induction gs as [|[[id p] n] gs IH]; simpl; auto. f_equal; auto. Qed.
  Lemma gets_of_eput : forall gs, gets_of (map eput gs) = [].
  Proof. induction gs as [|[[id p] n] gs IH]; simpl; auto. Qed.
  Lemma gets_of_eget : forall gs, gets_of (map eget gs) = map fst gs.
  Proof. induction gs as [|[[id p] n] gs IH]; simpl; auto. f_equal; auto. Qed.
  Lemma puts_of_eget : forall gs, puts_of (map eget gs) = [].
  Proof. induction gs as [|[[id p] n] gs IH]; simpl; auto. Qed.

  Definition idlt {R} (a b : nat * R) : Prop := (fst a < fst b)%nat.

  Lemma sorted_app_inv : forall A (lt : A -> A -> Prop) l1 l2,
      StronglySorted lt (l1 ++ l2) -> StronglySorted lt l2.
  Proof.
    induction l1; simpl; intros; auto. inversion H; subst; auto.
  Qed.

  Lemma sorted_filter : forall A (lt : A -> A -> Prop) f l,
      StronglySorted lt l -> StronglySorted lt (filter f l).
  Proof.
    induction l as [|a l IH]; simpl; intros H; auto.
    inversion H as [|? ? Hs Hf]; subst. destruct (f a); auto.
    constructor; auto. apply Forall_forall. intros x Hx. apply filter_In in Hx.
    rewrite Forall_forall in Hf. apply Hf. tauto.
  Qed.

  Lemma sorted_snoc : forall R (q : list (nat * R)) n r,
      StronglySorted (@idlt R) q -> Forall (fun x => (fst x < n)%nat) q -> (n <= fst r)%nat ->
      StronglySorted (@idlt R) (q ++ [r]).
  Proof.
    induction q as [|a q IH]; simpl; intros n r Hs Hb Hn.
    - repeat constructor.
    - inversion Hs as [|? ? Hs' Hf]; subst. inversion Hb as [|? ? Ha Hb']; subst.
      constructor; [eapply IH; eauto|].
      apply Forall_app; split; auto. constructor; auto. unfold idlt. lia.
  Qed.

  Section Order.
    Variable plt : nat * P -> nat * P -> Prop.
    (* put_queue.append keeps the policy order when the new request has a fresh, larger id *)
    Hypothesis ins_sorted : forall n r q,
        (n <= fst r)%nat -> Forall (fun x => (fst x < n)%nat) q -> StronglySorted plt q ->
        StronglySorted plt (ins M r q).
    Hypothesis ins_in : forall r q x, In x (ins M r q) -> x = r \/ In x q.

    Definition QI (n : nat) (s : state) : Prop :=
      StronglySorted plt (putq s) /\ Forall (fun x => (fst x < n)%nat) (putq s) /\
      StronglySorted (@idlt G) (getq s) /\ Forall (fun x => (fst x < n)%nat) (getq s).

    Definition granted_then_waiting (s' : state) (outs : list ev) : Prop :=
      StronglySorted plt (puts_of outs ++ putq s') /\
      (get_all M = false -> StronglySorted (@idlt G) (gets_of outs ++ getq s')).

    Lemma QI_mono : forall n m s, (n <= m)%nat -> QI n s -> QI m s.
    Proof.
      unfold QI. intros n m s Hnm (H1 & H2 & H3 & H4). repeat split; auto.
      - eapply Forall_impl; [|exact H2]. simpl; intros; lia.
      - eapply Forall_impl; [|exact H4]. simpl; intros; lia.
    Qed.

    Lemma QI_trigger_put : forall n s s' o,
        QI n s -> trigger_put M s = (s', o) ->
        QI n s' /\ puts_of o ++ putq s' = putq s /\ gets_of o = [] /\ getq s' = getq s.
    Proof.
      intros n s s' o (H1 & H2 & H3 & H4) H.
      destruct (trigger_put_eq s) as (c & gs & rest & E & E'). rewrite E' in H. inversion H; subst; simpl.
      apply serve_prefix_spec in E. destruct E as (Hq & _ & _).
      rewrite puts_of_eput, gets_of_eput. split; [|auto].
      unfold QI; simpl. rewrite Hq in H1, H2. repeat split; auto.
      - eapply sorted_app_inv; eauto.
      - apply Forall_app in H2. tauto.
    Qed.

    Lemma QI_trigger_get : forall n s s' o,
        QI n s -> trigger_get M s = (s', o) ->
        QI n s' /\ puts_of o = [] /\ putq s' = putq s /\
        (get_all M = false -> gets_of o ++ getq s' = getq s).
    Proof.
      intros n s s' o (H1 & H2 & H3 & H4) H.
      destruct (trigger_get_eq s) as (c & gs & rest & E & E'). rewrite E' in H. inversion H; subst; simpl.
      rewrite puts_of_eget, gets_of_eget. split; [|split; [auto|split; [auto|]]].
      - unfold QI; simpl. repeat split; auto.
        + unfold gserve in E. destruct (get_all M).
          * eapply serve_all_sorted; eauto.
          * apply serve_prefix_spec in E. destruct E as (Hq & _ & _). rewrite Hq in H3.
            eapply sorted_app_inv; eauto.
        + apply Forall_forall. intros x Hx. rewrite Forall_forall in H4. apply H4.
          eapply gserve_in; eauto.
      - intros Hg. unfold gserve in E. rewrite Hg in E.
        apply serve_prefix_spec in E. destruct E as (Hq & _ & _). auto.
    Qed.

    Lemma QI_step : forall n s o s' outs,
        QI n s -> incr n [o] -> step M s o = (s', outs) ->
        QI (bound n [o]) s' /\ granted_then_waiting s' outs.
    Proof.
      intros n s o s' outs HQ Hi H. unfold granted_then_waiting.
      destruct o as [t|id p|id g|id|id]; simpl in *.
      - inversion H; subst; simpl. destruct HQ as (H1 & H2 & H3 & H4). unfold QI; simpl. tauto.
      - destruct Hi as [Hi _]. destruct (okp M p).
        + assert (HQ1 : QI (S id) (St (now s) (content s) (ins M (id, p) (putq s)) (getq s) (pend s))).
          { destruct HQ as (H1 & H2 & H3 & H4). unfold QI; simpl. repeat split.
            - eapply ins_sorted; eauto.
            - apply Forall_forall. intros x Hx. apply ins_in in Hx. destruct Hx as [->|Hx]; simpl; [lia|].
              rewrite Forall_forall in H2. apply H2 in Hx. lia.
            - auto.
            - eapply Forall_impl; [|exact H4]. simpl; intros; lia. }
          destruct (QI_trigger_put HQ1 H) as (HQ' & Hp & Hg & Hgq). split; auto.
          rewrite Hp, Hg, Hgq. simpl. destruct HQ1 as (H1 & _ & H3 & _). auto.
        + inversion H; subst; simpl. split; [eapply QI_mono; [|eauto]; lia|].
          destruct HQ as (H1 & _ & H3 & _). auto.
      - destruct Hi as [Hi _]. destruct (okg M g).
        + assert (HQ1 : QI (S id) (St (now s) (content s) (putq s) (getq s ++ [(id, g)]) (pend s))).
          { destruct HQ as (H1 & H2 & H3 & H4). unfold QI; simpl. repeat split; auto.
            - eapply Forall_impl; [|exact H2]. simpl; intros; lia.
            - eapply sorted_snoc; eauto.
            - apply Forall_app; split.
              + eapply Forall_impl; [|exact H4]. simpl; intros; lia.
              + constructor; auto. }
          destruct (QI_trigger_get HQ1 H) as (HQ' & Hp & Hpq & Hg). split; auto.
          rewrite Hp, Hpq. simpl. destruct HQ1 as (H1 & _ & H3 & _). split; auto.
          intros Hga. rewrite (Hg Hga). auto.
        + inversion H; subst; simpl. split; [eapply QI_mono; [|eauto]; lia|].
          destruct HQ as (H1 & _ & H3 & _). auto.
      - inversion H; subst; simpl. destruct HQ as (H1 & H2 & H3 & H4).
        assert (HQ' : QI n (St (now s) (content s) (remove_id id (putq s)) (remove_id id (getq s)) (pend s))).
        { unfold QI, remove_id; simpl. repeat split.
          - apply sorted_filter; auto.
          - apply Forall_forall. intros x Hx. apply filter_In in Hx. rewrite Forall_forall in H2. apply H2; tauto.
          - apply sorted_filter; auto.
          - apply Forall_forall. intros x Hx. apply filter_In in Hx. rewrite Forall_forall in H4. apply H4; tauto. }
        split; auto. destruct HQ' as (? & _ & ? & _). auto.
      - destruct (take_pend id (pend s)) as [[[|] l]|].
        + assert (HQ1 : QI n (St (now s) (content s) (putq s) (getq s) l)) by exact HQ.
          destruct (QI_trigger_get HQ1 H) as (HQ' & Hp & Hpq & Hg). split; auto.
          rewrite Hp, Hpq. simpl. destruct HQ as (H1 & _ & H3 & _). split; auto.
          intros Hga. rewrite (Hg Hga). auto.
        + assert (HQ1 : QI n (St (now s) (content s) (putq s) (getq s) l)) by exact HQ.
          destruct (QI_trigger_put HQ1 H) as (HQ' & Hp & Hg & Hgq). split; auto.
          rewrite Hp, Hg, Hgq. simpl. destruct HQ as (H1 & _ & H3 & _). auto.
        + inversion H; subst; simpl. split; auto. destruct HQ as (H1 & _ & H3 & _). auto.
    Qed.

    Lemma incr_cons : forall n o h, incr n (o :: h) <-> incr n [o] /\ incr (bound n [o]) h.
    Proof. intros n o h. destruct o; simpl; tauto. Qed.

    Lemma bound_cons : forall n o h, bound n (o :: h) = bound (bound n [o]) h.
    Proof. intros n o h. destruct o; simpl; auto. Qed.

    Theorem QI_run : forall h n s s' outs,
        QI n s -> incr n h -> run M s h = (s', outs) -> QI (bound n h) s'.
    Proof.
      induction h as [|o h IH]; intros n s s' outs HQ Hi H.
      - simpl in *. inversion H; subst; auto.
      - apply incr_cons in Hi. destruct Hi as [Hi1 Hi2]. rewrite bound_cons.
        cbn [run] in H.
        destruct (step M s o) as [s1 e1] eqn:E1. destruct (run M s1 h) as [s2 e2] eqn:E2.
        inversion H; subst. edestruct QI_step as [HQ1 _]; [exact HQ|exact Hi1|exact E1|]. eapply IH; eauto.
    Qed.

    (* the statement over all histories: run any history h with increasing ids, then any step *)
    Theorem grant_order : forall c0 h o s outs0 s' outs,
        incr 0 (h ++ [o]) -> run M (init c0) h = (s, outs0) -> step M s o = (s', outs) ->
        granted_then_waiting s' outs.
    Proof.
      intros c0 h o s outs0 s' outs Hi Hr Hs.
      assert (Hi' : incr 0 h /\ incr (bound 0 h) [o]).
      { clear Hr. generalize dependent 0%nat. induction h as [|a h IH]; intros n Hi.
        - simpl in *. split; auto.
        - rewrite <- app_comm_cons in Hi. apply incr_cons in Hi. destruct Hi as [H1 H2].
          apply IH in H2. rewrite bound_cons. split; [apply incr_cons|]; tauto. }
      destruct Hi' as [Hi1 Hi2].
      assert (HQ0 : QI 0 (init c0 : state)) by (unfold QI, init; simpl; repeat split; constructor).
      pose proof (QI_run h HQ0 Hi1 Hr) as HQ.
      eapply QI_step; eauto.
    Qed.
  End Order.

  (* ======================================================================================== *)
  (* 3. No idle capacity with a grantable head.
        J: if the head of a queue is grantable then the callbacks of a granted request of the
        OPPOSITE kind are still waiting to be processed (they re-trigger this queue).
        Every operation other than cancel keeps J; the own trigger establishes it from any state. *)
  Section Head.
    Hypothesis now_indep_put : forall t t' c r, is_some (do_put M t c r) = is_some (do_put M t' c r).
    Hypothesis now_indep_get : forall t t' c r, is_some (do_get M t c r) = is_some (do_get M t' c r).
    (* FilterStore: handing out an item does not make another request grantable *)
    Hypothesis get_mono : get_all M = true ->
        forall t c r c1 n r', do_get M t c r = Some (c1, n) -> do_get M t c r' = None -> do_get M t c1 r' = None.

    Definition Jput (s : state) : Prop := grantable_put M s = true -> exists id, In (id, false) (pend s).
    Definition Jget (s : state) : Prop := grantable_get M s = true -> exists id, In (id, true) (pend s).

    Lemma take_pend_in : forall id l b l' x, take_pend id l = Some (b, l') -> In x l' -> In x l.
    Proof.
      induction l as [|[i b0] l IH]; simpl; intros b l' x H Hx; [discriminate|].
      destruct (Nat.eqb i id).
      - inversion H; subst; auto.
      - destruct (take_pend id l) as [[b' r]|] eqn:E; [|discriminate]. inversion H; subst.
        destruct Hx as [Hx|Hx]; [left; auto|right; eapply IH; eauto].
    Qed.

    Lemma take_pend_keep : forall id l b l' x, take_pend id l = Some (b, l') -> In x l -> snd x <> b -> In x l'.
    Proof.
      induction l as [|[i b0] l IH]; simpl; intros b l' x H Hx Hn; [discriminate|].
      destruct (Nat.eqb i id).
      - inversion H; subst. destruct Hx as [Hx|Hx]; auto. subst x. simpl in Hn. congruence.
      - destruct (take_pend id l) as [[b' r]|] eqn:E; [|discriminate]. inversion H; subst.
        destruct Hx as [Hx|Hx]; [left; auto|right; eapply IH; eauto].
    Qed.

    (* the own trigger establishes J from ANY state *)
    Lemma trigger_put_Jput : forall s s' o, trigger_put M s = (s', o) -> grantable_put M s' = false.
    Proof.
      intros s s' o H. destruct (trigger_put_eq s) as (c & gs & rest & E & E'). rewrite E' in H.
      inversion H; subst. unfold grantable_put; simpl.
      apply serve_prefix_spec in E. destruct E as (_ & _ & Hr). destruct rest; auto. rewrite Hr; auto.
    Qed.

    Lemma trigger_get_Jget : forall s s' o, trigger_get M s = (s', o) -> grantable_get M s' = false.
    Proof.
      intros s s' o H. destruct (trigger_get_eq s) as (c & gs & rest & E & E'). rewrite E' in H.
      inversion H; subst. unfold grantable_get, gserve in *; simpl.
      destruct (get_all M) eqn:Ega.
      - apply serve_all_blocked in E; [|apply get_mono; auto].
        apply not_true_is_false. intros Hx. apply existsb_exists in Hx. destruct Hx as (x & Hx & Hs).
        rewrite Forall_forall in E. rewrite (E x Hx) in Hs. discriminate.
      - apply serve_prefix_spec in E. destruct E as (_ & _ & Hr). destruct rest; auto. rewrite Hr; auto.
    Qed.

    (* a trigger that grants nothing changes nothing; one that grants leaves a pending callback *)
    Lemma trigger_put_cases : forall s s' o, trigger_put M s = (s', o) ->
        (s' = s /\ o = []) \/ (exists id, In (id, true) (pend s')).
    Proof.
      intros s s' o H. destruct (trigger_put_eq s) as (c & gs & rest & E & E'). rewrite E' in H.
      inversion H; subst. destruct gs as [|g gs].
      - left. apply serve_prefix_nil in E. destruct E; subst. simpl. rewrite app_nil_r. destruct s; auto.
      - right. exists (gid g). simpl. apply in_or_app. right. left. auto.
    Qed.

    Lemma trigger_get_cases : forall s s' o, trigger_get M s = (s', o) ->
        (s' = s /\ o = []) \/ (exists id, In (id, false) (pend s')).
    Proof.
      intros s s' o H. destruct (trigger_get_eq s) as (c & gs & rest & E & E'). rewrite E' in H.
      inversion H; subst. destruct gs as [|g gs].
      - left. apply gserve_nil in E. destruct E; subst. simpl. rewrite app_nil_r. destruct s; auto.
      - right. exists (gid g). simpl. apply in_or_app. right. left. auto.
    Qed.

    Lemma grantable_put_now : forall s t,
        grantable_put M (St t (content s) (putq s) (getq s) (pend s)) = grantable_put M s.
    Proof. intros. unfold grantable_put; simpl. destruct (putq s); auto. Qed.

    Lemma grantable_get_now : forall s t,
        grantable_get M (St t (content s) (putq s) (getq s) (pend s)) = grantable_get M s.
    Proof.
      intros. unfold grantable_get; simpl. destruct (get_all M).
      - induction (getq s); simpl; auto. rewrite IHl. f_equal. apply now_indep_get.
      - destruct (getq s); auto.
    Qed.

    Lemma trigger_put_pend : forall s s' o x, trigger_put M s = (s', o) -> In x (pend s) -> In x (pend s').
    Proof.
      intros s s' o x H Hx. destruct (trigger_put_eq s) as (c & gs & rest & E & E'). rewrite E' in H.
      inversion H; subst; simpl. apply in_or_app; auto.
    Qed.

    Lemma trigger_get_pend : forall s s' o x, trigger_get M s = (s', o) -> In x (pend s) -> In x (pend s').
    Proof.
      intros s s' o x H Hx. destruct (trigger_get_eq s) as (c & gs & rest & E & E'). rewrite E' in H.
      inversion H; subst; simpl. apply in_or_app; auto.
    Qed.

    Lemma trigger_get_putside : forall s s' o, trigger_get M s = (s', o) ->
        Jput s -> Jput s'.
    Proof.
      intros s s' o H HJ. destruct (trigger_get_cases _ H) as [[-> _]|[id Hid]]; auto.
      intros _. eauto.
    Qed.

    Lemma trigger_put_getside : forall s s' o, trigger_put M s = (s', o) ->
        Jget s -> Jget s'.
    Proof.
      intros s s' o H HJ. destruct (trigger_put_cases _ H) as [[-> _]|[id Hid]]; auto.
      intros _. eauto.
    Qed.

    Definition triggers_put (s : state) (o : op) : bool :=
      match o with
      | OPut _ p => okp M p
      | OProc id => match take_pend id (pend s) with Some (false, _) => true | _ => false end
      | _ => false
      end.

    Definition triggers_get (s : state) (o : op) : bool :=
      match o with
      | OGet _ g => okg M g
      | OProc id => match take_pend id (pend s) with Some (true, _) => true | _ => false end
      | _ => false
      end.

    Theorem step_establishes_Jput : forall s o s' outs,
        step M s o = (s', outs) -> triggers_put s o = true -> grantable_put M s' = false.
    Proof.
      intros s o s' outs H Ht. destruct o as [t|id p|id g|id|id]; simpl in *; try discriminate.
      - rewrite Ht in H. eapply trigger_put_Jput; eauto.
      - destruct (take_pend id (pend s)) as [[[|] l]|]; try discriminate. eapply trigger_put_Jput; eauto.
    Qed.

    Theorem step_establishes_Jget : forall s o s' outs,
        step M s o = (s', outs) -> triggers_get s o = true -> grantable_get M s' = false.
    Proof.
      intros s o s' outs H Ht. destruct o as [t|id p|id g|id|id]; simpl in *; try discriminate.
      - rewrite Ht in H. eapply trigger_get_Jget; eauto.
      - destruct (take_pend id (pend s)) as [[[|] l]|]; try discriminate. eapply trigger_get_Jget; eauto.
    Qed.

    Theorem step_keeps_J : forall s o s' outs,
        step M s o = (s', outs) -> is_cancel o = false -> Jput s /\ Jget s -> Jput s' /\ Jget s'.
    Proof.
      intros s o s' outs H Hc [HP HG]. destruct o as [t|id p|id g|id|id]; simpl in *; try discriminate.
      - inversion H; subst. unfold Jput, Jget. rewrite grantable_put_now, grantable_get_now. auto.
      - destruct (okp M p).
        + split.
          * intros Hx. rewrite (trigger_put_Jput _ H) in Hx. discriminate.
          * eapply trigger_put_getside; eauto.
        + inversion H; subst; auto.
      - destruct (okg M g).
        + split.
          * eapply trigger_get_putside; eauto.
          * intros Hx. rewrite (trigger_get_Jget _ H) in Hx. discriminate.
        + inversion H; subst; auto.
      - destruct (take_pend id (pend s)) as [[[|] l]|] eqn:E.
        + split.
          * eapply trigger_get_putside; eauto. intros Hx. destruct (HP Hx) as [i Hi].
            exists i. simpl. eapply take_pend_keep; eauto. simpl. discriminate.
          * intros Hx. rewrite (trigger_get_Jget _ H) in Hx. discriminate.
        + split.
          * intros Hx. rewrite (trigger_put_Jput _ H) in Hx. discriminate.
          * eapply trigger_put_getside; eauto. intros Hx. destruct (HG Hx) as [i Hi].
            exists i. simpl. eapply take_pend_keep; eauto. simpl. discriminate.
        + inversion H; subst; auto.
    Qed.

    Definition cancel_free (h : list op) : Prop := Forall (fun o => is_cancel o = false) h.

    Theorem run_keeps_J : forall h s s' outs,
        run M s h = (s', outs) -> cancel_free h -> Jput s /\ Jget s -> Jput s' /\ Jget s'.
    Proof.
      induction h as [|o h IH]; simpl; intros s s' outs H Hc HJ.
      - inversion H; subst; auto.
      - destruct (step M s o) as [s1 e1] eqn:E1. destruct (run M s1 h) as [s2 e2] eqn:E2.
        inversion H; subst. inversion Hc; subst. eapply IH; eauto. eapply step_keeps_J; eauto.
    Qed.

    (* at the end of a time step (no callbacks left to process) no head is grantable;
       h1 is arbitrary (it may contain cancels) as long as J holds after it -- e.g. h1 = [] *)
    Theorem quiescent_no_grantable_head : forall c0 h s outs,
        run M (init c0) h = (s, outs) -> cancel_free h -> pend s = [] ->
        grantable_put M s = false /\ grantable_get M s = false.
    Proof.
      intros c0 h s outs H Hc Hp.
      assert (HJ : Jput s /\ Jget s).
      { eapply run_keeps_J; eauto. unfold Jput, Jget, grantable_put, grantable_get, init; simpl.
        destruct (get_all M); split; intros; discriminate. }
      destruct HJ as [HP HG]. unfold Jput, Jget in *. rewrite Hp in *.
      split; apply not_true_is_false; intros Hx.
      - destruct (HP Hx) as [? []].
      - destruct (HG Hx) as [? []].
    Qed.
  End Head.

  (* ======================================================================================== *)
  (* 4. cancel gives back exactly what was held: nothing but the place in the queue *)
  Theorem cancel_exact : forall s id,
      step M s (OCancel id) =
      (St (now s) (content s) (remove_id id (putq s)) (remove_id id (getq s)) (pend s), []).
  Proof. reflexivity. Qed.

  Lemma remove_id_spec : forall R (q : list (nat * R)) id x,
      In x (remove_id id q) <-> In x q /\ fst x <> id.
  Proof.
    intros R q id x. unfold remove_id. rewrite filter_In.
    destruct (Nat.eqb_spec (fst x) id); simpl; split; intros [H1 H2]; split; auto; congruence.
  Qed.
End Generic.

(* ========================================================================================== *)
(* Helpers for the instances *)
Section Remove1.
  Variable A : Type.
  Variable eqb : A -> A -> bool.
  Hypothesis eqb_spec : forall a b, eqb a b = true <-> a = b.

  (* list.remove(x): the first occurrence *)
  Fixpoint remove1 (x : A) (l : list A) : list A :=
    match l with [] => [] | y :: l' => if eqb y x then l' else y :: remove1 x l' end.

  Lemma remove1_in : forall x l, In x l -> Permutation l (x :: remove1 x l).
  Proof.
    induction l as [|y l IH]; simpl; intros H; [tauto|].
    destruct (eqb y x) eqn:E.
    - apply eqb_spec in E. subst. apply Permutation_refl.
    - destruct H as [H|H]; [subst; assert (eqb x x = true) by (apply eqb_spec; auto); congruence|].
      eapply perm_trans; [apply perm_skip; apply IH; auto|apply perm_swap].
  Qed.

  Lemma remove1_notin : forall x l, ~ In x l -> remove1 x l = l.
  Proof.
    induction l as [|y l IH]; simpl; intros H; auto.
    destruct (eqb y x) eqn:E.
    - apply eqb_spec in E. subst. tauto.
    - f_equal. apply IH. tauto.
  Qed.

  Lemma remove1_perm : forall x l l', Permutation l l' -> Permutation (remove1 x l) (remove1 x l').
  Proof.
    intros x l l' H. induction H; simpl.
    - constructor.
    - destruct (eqb x0 x); auto.
    - destruct (eqb y x) eqn:E1; destruct (eqb x0 x) eqn:E2; auto.
      + apply eqb_spec in E1. apply eqb_spec in E2. subst. apply Permutation_refl.
      + apply perm_swap.
    - eapply perm_trans; eauto.
  Qed.

  Lemma remove1_length : forall x l, In x l -> S (length (remove1 x l)) = length l.
  Proof. intros x l H. apply remove1_in in H. apply Permutation_length in H. simpl in H. auto. Qed.
End Remove1.

Section Sinsert.
  Variable A : Type.
  Variable le : A -> A -> bool.

  Lemma sinsert_perm : forall x l, Permutation (x :: l) (sinsert le x l).
  Proof.
    induction l as [|y l IH]; simpl; auto.
    destruct (le y x); auto. eapply perm_trans; [apply perm_swap|apply perm_skip; auto].
  Qed.

  Lemma sinsert_length : forall x l, length (sinsert le x l) = S (length l).
  Proof. intros. symmetry. apply (Permutation_length (sinsert_perm x l)). Qed.

  Lemma sinsert_in : forall x l y, In y (sinsert le x l) -> y = x \/ In y l.
  Proof.
    intros x l y H. apply Permutation_in with (l' := x :: l) in H; [|apply Permutation_sym, sinsert_perm].
    destruct H; auto.
  Qed.

  Hypothesis le_total : forall a b, le a b = false -> le b a = true.
  Hypothesis le_trans : forall a b c, le a b = true -> le b c = true -> le a c = true.

  Lemma sinsert_sorted : forall x l,
      StronglySorted (fun a b => le a b = true) l -> StronglySorted (fun a b => le a b = true) (sinsert le x l).
  Proof.
    induction l as [|y l IH]; simpl; intros H.
    - repeat constructor.
    - inversion H as [|? ? Hs Hf]; subst. destruct (le y x) eqn:E.
      + constructor; auto. apply Forall_forall. intros z Hz. apply sinsert_in in Hz.
        destruct Hz as [->|Hz]; auto. rewrite Forall_forall in Hf; auto.
      + constructor; auto. apply le_total in E. constructor; auto.
        eapply Forall_impl; [|exact Hf]. simpl. intros; eauto.
  Qed.
End Sinsert.

Definition klt (a b : Z * Z * Z) : Prop :=
  let '(a1, a2, a3) := a in
  let '(b1, b2, b3) := b in
  a1 < b1 \/ (a1 = b1 /\ (a2 < b2 \/ (a2 = b2 /\ a3 < b3))).

Lemma lex3_lt_spec : forall a b, lex3_lt a b = true <-> klt a b.
Proof.
  intros [[a1 a2] a3] [[b1 b2] b3]. unfold lex3_lt, klt.
  rewrite !orb_true_iff, !andb_true_iff, !orb_true_iff, !andb_true_iff, !Z.ltb_lt, !Z.eqb_eq. tauto.
Qed.

Lemma lex3_le_spec : forall a b, lex3_le a b = true <-> ~ klt b a.
Proof.
  intros a b. unfold lex3_le. rewrite negb_true_iff, <- lex3_lt_spec.
  destruct (lex3_lt b a); split; intros; try discriminate; auto. exfalso; auto.
Qed.

Lemma lex3_le_total : forall a b, lex3_le a b = false -> lex3_le b a = true.
Proof.
  intros a b H. apply lex3_le_spec. intros Hk.
  assert (Hn : lex3_le a b <> true) by congruence. apply Hn. apply lex3_le_spec.
  destruct a as [[a1 a2] a3], b as [[b1 b2] b3]. unfold klt in *. lia.
Qed.

Lemma lex3_le_trans : forall a b c, lex3_le a b = true -> lex3_le b c = true -> lex3_le a c = true.
Proof.
  intros a b c H1 H2. apply lex3_le_spec in H1. apply lex3_le_spec in H2. apply lex3_le_spec.
  destruct a as [[a1 a2] a3], b as [[b1 b2] b3], c as [[c1 c2] c3]. unfold klt in *. lia.
Qed.

Lemma lex3_le_refl : forall a, lex3_le a a = true.
Proof. intros a. apply lex3_le_spec. destruct a as [[a1 a2] a3]. unfold klt. lia. Qed.

Lemma klt_cases : forall a b, klt a b \/ a = b \/ klt b a.
Proof.
  intros [[a1 a2] a3] [[b1 b2] b3]. unfold klt.
  destruct (Z.eq_dec a1 b1), (Z.eq_dec a2 b2), (Z.eq_dec a3 b3); subst; auto; lia.
Qed.

Lemma klt_trans : forall a b c, klt a b -> klt b c -> klt a c.
Proof. intros [[a1 a2] a3] [[b1 b2] b3] [[c1 c2] c3]. unfold klt. lia. Qed.

Lemma klt_irrefl : forall a, ~ klt a a.
Proof. intros [[a1 a2] a3]. unfold klt. lia. Qed.

(* ========================================================================================== *)
(* Container *)
Section ContainerProps.
  Variable cap : Z.
  Notation cev := (ev Z Z unit).

  Definition sum_puts (tr : list cev) : Z :=
    fold_right (fun e a => match e with EPut _ x _ => x + a | _ => a end) 0 tr.
  Definition sum_gets (tr : list cev) : Z :=
    fold_right (fun e a => match e with EGet _ x _ => x + a | _ => a end) 0 tr.

  Lemma sum_puts_app : forall a b, sum_puts (a ++ b) = sum_puts a + sum_puts b.
  Proof. induction a as [|[] a IH]; simpl; intros; auto; rewrite IH; lia. Qed.
  Lemma sum_gets_app : forall a b, sum_gets (a ++ b) = sum_gets a + sum_gets b.
  Proof. induction a as [|[] a IH]; simpl; intros; auto; rewrite IH; lia. Qed.

  Lemma append_in : forall A (r : A) q x, In x (q ++ [r]) -> x = r \/ In x q.
  Proof. intros A r q x H. apply in_app_or in H. simpl in H. intuition. Qed.

  (* level within [0, capacity] and level = initial + granted puts - granted gets, for ALL histories *)
  Theorem container_bounds_conservation : forall i h s tr,
      0 <= i <= cap -> run (container cap) (init i) h = (s, tr) ->
      0 <= content s <= cap /\ content s = i + sum_puts tr - sum_gets tr.
  Proof.
    intros i h s tr Hi H.
    apply (@R_run _ _ _ _ (container cap) (@append_in _)
             (fun c tr => 0 <= c <= cap /\ c = i + sum_puts tr - sum_gets tr)) with (c0 := i) (h := h); auto.
    - simpl. intros t c tr0 id p c' n Hok [Hb He] Hd.
      apply Z.ltb_lt in Hok. destruct (Z.leb_spec p (cap - c)); inversion Hd; subst.
      rewrite sum_puts_app, sum_gets_app. simpl. lia.
    - simpl. intros t c tr0 id g c' n Hok [Hb He] Hd.
      apply Z.ltb_lt in Hok. destruct (Z.leb_spec g c); inversion Hd; subst.
      rewrite sum_puts_app, sum_gets_app. simpl. lia.
    - simpl. lia.
  Qed.
End ContainerProps.

(* ========================================================================================== *)
(* Stores *)
Definition item_eqb (a b : item) : bool := (fst a =? fst b) && (snd a =? snd b).

Lemma item_eqb_spec : forall a b, item_eqb a b = true <-> a = b.
Proof.
  intros [a1 a2] [b1 b2]. unfold item_eqb; simpl. rewrite andb_true_iff, !Z.eqb_eq.
  split; [intros [-> ->]; auto|intros H; inversion H; auto].
Qed.

Section StoreProps.
  Variable cap : nat.
  Variable Gt : Type.
  Notation sev := (ev item Gt (option item)).

  (* items accepted / handed out, in order *)
  Definition put_items (tr : list sev) : list item :=
    flat_map (fun e => match e with EPut _ x _ => [x] | _ => [] end) tr.
  Definition got_items (tr : list sev) : list item :=
    flat_map (fun e => match e with EGet _ _ (Some x) => [x] | _ => [] end) tr.
  Definition got_something (e : sev) : Prop :=
    match e with EGet _ _ None => False | _ => True end.
End StoreProps.

Section StoreFifo.
  Variable cap : nat.

  (* Store: every granted get receives an item; the sequence of items handed out is exactly a
     prefix of the sequence of items accepted, the rest is the content (FIFO, exactly once) *)
  Theorem store_fifo_exactly_once : forall h s tr,
      run (store cap) (init []) h = (s, tr) ->
      put_items tr = got_items tr ++ content s /\ (length (content s) <= cap)%nat /\
      Forall (@got_something unit) tr.
  Proof.
    intros h s tr H.
    apply (@R_run _ _ _ _ (store cap) (@append_in _)
             (fun c tr => put_items tr = got_items tr ++ c /\ (length c <= cap)%nat /\
                          Forall (@got_something unit) tr)) with (c0 := []) (h := h); auto.
    - simpl. intros t c tr0 id p c' n _ (He & Hl & Hf) Hd.
      destruct (Nat.ltb_spec (length c) cap); inversion Hd; subst.
      unfold put_items, got_items in *. rewrite !flat_map_app. simpl. rewrite app_nil_r, He, app_assoc.
      repeat split; auto.
      + rewrite app_length. simpl. lia.
      + apply Forall_app; split; auto. repeat constructor.
    - simpl. intros t c tr0 id g c' n _ (He & Hl & Hf) Hd.
      destruct c as [|x c]; simpl in Hd; inversion Hd; subst.
      unfold put_items, got_items in *. rewrite !flat_map_app. simpl. rewrite app_nil_r, He, <- app_assoc.
      repeat split; auto.
      + simpl in Hl. lia.
      + apply Forall_app; split; auto. repeat constructor.
    - simpl. repeat split; auto; try constructor; lia.
  Qed.
End StoreFifo.

(* PriorityStore: abstract specification = a bag; a get must return an element of the bag whose key
   is minimal and removes exactly that element *)
Fixpoint bag_run (b : list item) (tr : list (ev item unit (option item))) : option (list item) :=
  match tr with
  | [] => Some b
  | EPut _ x _ :: tr' => bag_run (x :: b) tr'
  | EGet _ _ (Some x) :: tr' =>
      if existsb (fun y => item_eqb y x) b && forallb (fun y => ikey x <=? ikey y) b
      then bag_run (remove1 item_eqb x b) tr' else None
  | EGet _ _ None :: _ => None
  end.

Lemma bag_run_app : forall t1 t2 b,
    bag_run b (t1 ++ t2) = match bag_run b t1 with Some b1 => bag_run b1 t2 | None => None end.
Proof.
  induction t1 as [|e t1 IH]; simpl; intros; auto.
  destruct e as [id x n|id g [x|]]; auto.
  destruct (existsb _ b && forallb _ b); auto.
Qed.

Definition item_leP (a b : item) : Prop := item_le a b = true.

Lemma item_le_total : forall a b, item_le a b = false -> item_le b a = true.
Proof. unfold item_le. intros a b H. apply Z.leb_gt in H. apply Z.leb_le. lia. Qed.
Lemma item_le_trans : forall a b c, item_le a b = true -> item_le b c = true -> item_le a c = true.
Proof. unfold item_le. intros a b c H1 H2. apply Z.leb_le in H1, H2. apply Z.leb_le. lia. Qed.

Section PriorityStoreProps.
  Variable cap : nat.

  Theorem prioritystore_min_first : forall h s tr,
      run (prioritystore cap) (init []) h = (s, tr) ->
      StronglySorted item_leP (content s) /\ (length (content s) <= cap)%nat /\
      exists b, bag_run [] tr = Some b /\ Permutation b (content s).
  Proof.
    intros h s tr H.
    apply (@R_run _ _ _ _ (prioritystore cap) (@append_in _)
             (fun c tr => StronglySorted item_leP c /\ (length c <= cap)%nat /\
                          exists b, bag_run [] tr = Some b /\ Permutation b c)) with (c0 := []) (h := h); auto.
    - simpl. intros t c tr0 id p c' n _ (Hs & Hl & b & Hb & Hp) Hd.
      destruct (Nat.ltb_spec (length c) cap); inversion Hd; subst. repeat split.
      + apply sinsert_sorted; [apply item_le_total|apply item_le_trans|auto].
      + rewrite sinsert_length. lia.
      + exists (p :: b). rewrite bag_run_app, Hb. simpl. split; auto.
        eapply perm_trans; [apply perm_skip; eauto|apply sinsert_perm].
    - simpl. intros t c tr0 id g c' n _ (Hs & Hl & b & Hb & Hp) Hd.
      destruct c as [|x c]; simpl in Hd; inversion Hd; subst.
      inversion Hs as [|? ? Hs' Hf]; subst. repeat split; auto.
      + simpl in Hl. lia.
      + exists (remove1 item_eqb x b). rewrite bag_run_app, Hb. simpl.
        assert (Hin : In x b) by (eapply Permutation_in; [apply Permutation_sym; eauto|left; auto]).
        assert (E1 : existsb (fun y => item_eqb y x) b = true).
        { apply existsb_exists. exists x. split; auto. apply item_eqb_spec; auto. }
        assert (E2 : forallb (fun y => ikey x <=? ikey y) b = true).
        { apply forallb_forall. intros y Hy. apply (Permutation_in _ Hp) in Hy.
          destruct Hy as [<-|Hy]; [apply Z.leb_refl|].
          rewrite Forall_forall in Hf. apply Hf in Hy. exact Hy. }
        rewrite E1, E2. simpl. split; auto.
        apply Permutation_cons_inv with (a := x).
        eapply perm_trans; [apply Permutation_sym; apply remove1_in; auto; apply item_eqb_spec|auto].
    - simpl. split; [constructor|]. split; [lia|]. exists []. split; auto.
  Qed.
End PriorityStoreProps.

(* FilterStore: abstract specification = the list of stored items in arrival order; a get with filter f
   receives the FIRST stored item that f accepts *)
Inductive fs_spec : list item -> list (ev item (Z * Z) (option item)) -> list item -> Prop :=
| fs_nil : forall l, fs_spec l [] l
| fs_put : forall l id x n tr l', fs_spec (l ++ [x]) tr l' -> fs_spec l (EPut id x n :: tr) l'
| fs_get : forall l1 x l2 id f tr l',
    Forall (fun y => accepts f y = false) l1 -> accepts f x = true ->
    fs_spec (l1 ++ l2) tr l' -> fs_spec (l1 ++ x :: l2) (EGet id f (Some x) :: tr) l'.

Lemma fs_spec_app : forall a t1 b, fs_spec a t1 b -> forall t2 c, fs_spec b t2 c -> fs_spec a (t1 ++ t2) c.
Proof.
  induction 1; simpl; intros; auto.
  - constructor; auto.
  - constructor; auto.
Qed.

Lemma first_match_spec : forall f l x l', first_match f l = Some (x, l') ->
    exists l1 l2, l = l1 ++ x :: l2 /\ Forall (fun y => f y = false) l1 /\ f x = true /\ l' = l1 ++ l2.
Proof.
  induction l as [|y l IH]; simpl; intros x l' H; [discriminate|].
  destruct (f y) eqn:E.
  - inversion H; subst. exists []. eexists. simpl. repeat split; eauto.
  - destruct (first_match f l) as [[z r]|] eqn:E2; [|discriminate]. inversion H; subst.
    destruct (IH _ _ eq_refl) as (l1 & l2 & -> & Hf & Hx & ->).
    exists (y :: l1), l2. simpl. auto.
Qed.

Lemma first_match_none : forall f l, first_match f l = None <-> Forall (fun y => f y = false) l.
Proof.
  induction l as [|y l IH]; simpl.
  - split; auto.
  - destruct (f y) eqn:E.
    + split; [discriminate|]. intros H. inversion H; congruence.
    + destruct (first_match f l) as [[z r]|].
      * split; [discriminate|]. intros H. inversion H; subst. apply IH in H3. discriminate.
      * split; auto. intros _. constructor; auto. apply IH; auto.
  Qed.

Section FilterStoreProps.
  Variable cap : nat.

  Theorem filterstore_first_match : forall h s tr,
      run (filterstore cap) (init []) h = (s, tr) ->
      fs_spec [] tr (content s) /\ (length (content s) <= cap)%nat.
  Proof.
    intros h s tr H.
    apply (@R_run _ _ _ _ (filterstore cap) (@append_in _)
             (fun c tr => fs_spec [] tr c /\ (length c <= cap)%nat)) with (c0 := []) (h := h); auto.
    - simpl. intros t c tr0 id p c' n _ (Hs & Hl) Hd.
      destruct (Nat.ltb_spec (length c) cap); inversion Hd; subst. split.
      + eapply fs_spec_app; eauto. repeat constructor.
      + rewrite app_length. simpl. lia.
    - simpl. intros t c tr0 id g c' n _ (Hs & Hl) Hd.
      destruct (first_match (accepts g) c) as [[x r]|] eqn:E; inversion Hd; subst.
      apply first_match_spec in E. destruct E as (l1 & l2 & -> & Hf & Hx & ->). split.
      + eapply fs_spec_app; eauto. constructor; auto. constructor.
      + rewrite app_length in *. simpl in Hl. lia.
    - split; [constructor|simpl; lia].
  Qed.

  (* handing out an item never makes another request grantable *)
  Lemma filterstore_get_mono : forall t c r c1 n r',
      do_get (filterstore cap) t c r = Some (c1, n) -> do_get (filterstore cap) t c r' = None ->
      do_get (filterstore cap) t c1 r' = None.
  Proof.
    simpl. intros t c r c1 n r' H1 H2.
    destruct (first_match (accepts (snd r)) c) as [[x l]|] eqn:E; inversion H1; subst.
    destruct (first_match (accepts (snd r')) c) as [[y l']|] eqn:E'; [discriminate|].
    apply first_match_spec in E. destruct E as (l1 & l2 & -> & _ & _ & ->).
    apply first_match_none in E'.
    assert (Hn : first_match (accepts (snd r')) (l1 ++ l2) = None).
    { apply first_match_none. apply Forall_app in E'. destruct E' as [Ha Hb]. inversion Hb; subst.
      apply Forall_app; auto. }
    rewrite Hn. auto.
  Qed.
End FilterStoreProps.

(* ========================================================================================== *)
(* Resources *)
Inductive rkind := RPlain | RPriority | RPreemptive.

Definition res_mach (k : rkind) (cap : nat) : mach (list user) req nat (option user) :=
  match k with
  | RPlain => resource cap
  | RPriority => priorityresource cap
  | RPreemptive => preemptiveresource cap
  end.

Notation rev_ := (ev req nat (option user)).

(* abstract specification: who holds a slot, computed from the trace of grants alone *)
Definition holders_step (hs : list nat) (e : rev_) : list nat :=
  match e with
  | EPut id _ None => hs ++ [id]
  | EPut id _ (Some v) => remove1 Nat.eqb (uid v) hs ++ [id]
  | EGet _ rid _ => remove1 Nat.eqb rid hs
  end.
Definition holders (tr : list rev_) : list nat := fold_left holders_step tr [].

Lemma nat_eqb_spec : forall a b : nat, Nat.eqb a b = true <-> a = b.
Proof. intros; apply Nat.eqb_eq. Qed.

Lemma remove_user_map : forall rid c, map uid (remove_user rid c) = remove1 Nat.eqb rid (map uid c).
Proof.
  induction c as [|u c IH]; simpl; auto. destruct (Nat.eqb (uid u) rid); simpl; auto. f_equal; auto.
Qed.

Definition user_leP (a b : user) : Prop := user_le a b = true.

Lemma user_le_total : forall a b, user_le a b = false -> user_le b a = true.
Proof. unfold user_le. intros. apply lex3_le_total; auto. Qed.
Lemma user_le_trans : forall a b c, user_le a b = true -> user_le b c = true -> user_le a c = true.
Proof. unfold user_le. intros. eapply lex3_le_trans; eauto. Qed.

Lemma res_mach_ins_in : forall k cap r q x, In x (ins (res_mach k cap) r q) -> x = r \/ In x q.
Proof.
  intros [] cap r q x H; simpl in H.
  - apply append_in; auto.
  - apply sinsert_in in H; auto.
  - apply sinsert_in in H; auto.
Qed.

Lemma rev_last : forall A (c : list A) v r, rev c = v :: r -> c = rev r ++ [v] /\ removelast c = rev r.
Proof.
  intros A c v r H. assert (Hc : c = rev r ++ [v]).
  { rewrite <- (rev_involutive c), H. simpl. auto. }
  split; auto. rewrite Hc. apply removelast_last.
Qed.

(* what an eviction means *)
Definition evict_ok (cap : nat) (c : list user) (p : req) (v : user) : Prop :=
  preempt p = true /\ klt (rkey p) (rkey (ureq v)) /\ (cap <= length c)%nat /\ In v c /\
  Forall (fun u => user_le u v = true) c.

Lemma pre_put_spec : forall cap t c r c' n,
    StronglySorted user_leP c -> pre_put cap t c r = Some (c', n) ->
    match n with
    | None => (length c < cap)%nat /\ c' = sinsert user_le (r, t) c
    | Some v => evict_ok cap c (snd r) v /\ c = removelast c ++ [v] /\
                c' = sinsert user_le (r, t) (removelast c)
    end.
Proof.
  unfold pre_put, preempt_victim. intros cap t c r c' n Hs H.
  destruct ((cap <=? length c)%nat && preempt (snd r)) eqn:E.
  - apply andb_true_iff in E. destruct E as [E1 E2]. apply Nat.leb_le in E1.
    destruct (rev c) as [|v rc] eqn:Er.
    + destruct (Nat.ltb_spec (length c) cap); inversion H; subst. lia.
    + destruct (lex3_lt (rkey (snd r)) (rkey (ureq v))) eqn:El.
      * destruct (Nat.ltb_spec (length (removelast c)) cap); inversion H; subst.
        destruct (rev_last _ Er) as [Hc Hrl]. split; [|split; auto; rewrite Hrl; auto].
        unfold evict_ok. apply lex3_lt_spec in El. repeat split; auto.
        -- rewrite Hc. apply in_or_app. right. left. auto.
        -- rewrite Hc in Hs |- *. apply Forall_app. split.
           ++ clear - Hs. induction (rev rc) as [|a l IH]; simpl in *; auto.
              inversion Hs as [|? ? Hs' Hf]; subst. constructor; auto.
              rewrite Forall_forall in Hf. apply Hf. apply in_or_app. right. left. auto.
           ++ constructor; auto. unfold user_le. apply lex3_le_refl.
      * destruct (Nat.ltb_spec (length c) cap); inversion H; subst. lia.
  - destruct (Nat.ltb_spec (length c) cap); inversion H; subst. auto.
Qed.

Section ResourceProps.
  Variable k : rkind.
  Variable cap : nat.

  Definition res_inv (c : list user) : Prop :=
    (length c <= cap)%nat /\ (k = RPreemptive -> StronglySorted user_leP c).

  Lemma res_put_inv : forall t c r c' n, res_inv c -> do_put (res_mach k cap) t c r = Some (c', n) ->
      res_inv c' /\ Permutation (match n with Some v => remove1 Nat.eqb (uid v) (map uid c) | None => map uid c end ++ [fst r])
                                (map uid c').
  Proof.
    intros t c r c' n [Hl Hs] H.
    assert (Hplain : res_put cap t c r = Some (c', n) -> (k = RPreemptive -> False) ->
                     res_inv c' /\ Permutation (match n with Some v => remove1 Nat.eqb (uid v) (map uid c) | None => map uid c end ++ [fst r]) (map uid c')).
    { unfold res_put. intros H' Hk. destruct (Nat.ltb_spec (length c) cap); inversion H'; subst. split.
      - split; [rewrite app_length; simpl; lia|intros; tauto].
      - rewrite map_app. simpl. apply Permutation_refl. }
    destruct k; simpl in H; try (apply Hplain; auto; discriminate).
    specialize (Hs eq_refl). pose proof (@pre_put_spec cap t c r c' n Hs H) as Hp. destruct n as [v|].
    - destruct Hp as ((_ & _ & _ & _ & _) & Hc & ->). split.
      + split; [|intros _; apply sinsert_sorted; [apply user_le_total|apply user_le_trans|auto]].
        * rewrite sinsert_length. rewrite Hc, app_length in Hl. simpl in Hl. lia.
        * rewrite Hc in Hs. clear - Hs. induction (removelast c) as [|a l IH]; simpl in *; [constructor|].
          inversion Hs as [|? ? Hs' Hf]; subst. constructor; auto. apply Forall_app in Hf. tauto.
      + eapply perm_trans; [|apply Permutation_map; apply sinsert_perm]. simpl.
        eapply perm_trans; [apply Permutation_app_comm|]. simpl. apply perm_skip.
        rewrite Hc at 1. rewrite map_app. simpl.
        apply Permutation_cons_inv with (a := uid v).
        eapply perm_trans; [apply Permutation_sym; apply remove1_in; [apply nat_eqb_spec|]|].
        * apply in_or_app. right. left. auto.
        * eapply perm_trans; [apply Permutation_app_comm|]. simpl. auto.
    - destruct Hp as (Hlt & ->). split.
      + split; [rewrite sinsert_length; lia|intros _; apply sinsert_sorted; [apply user_le_total|apply user_le_trans|auto]].
      + eapply perm_trans; [|apply Permutation_map; apply sinsert_perm]. simpl.
        eapply perm_trans; [apply Permutation_app_comm|]. simpl. auto.
  Qed.

  Lemma remove_user_sorted : forall rid c, StronglySorted user_leP c -> StronglySorted user_leP (remove_user rid c).
  Proof.
    induction c as [|u c IH]; simpl; intros H; auto.
    inversion H as [|? ? Hs Hf]; subst. destruct (Nat.eqb (uid u) rid); auto.
    constructor; auto. apply Forall_forall. intros x Hx. rewrite Forall_forall in Hf. apply Hf.
    clear - Hx. induction c as [|a c IH]; simpl in *; auto. destruct (Nat.eqb (uid a) rid); auto.
    destruct Hx; auto.
  Qed.

  Lemma remove_user_length : forall rid c, (length (remove_user rid c) <= length c)%nat.
  Proof. induction c as [|u c IH]; simpl; auto. destruct (Nat.eqb (uid u) rid); simpl; lia. Qed.

  Lemma res_get_inv : forall t c r c' n, res_inv c -> do_get (res_mach k cap) t c r = Some (c', n) ->
      res_inv c' /\ c' = remove_user (snd r) c /\ n = None.
  Proof.
    intros t c r c' n [Hl Hs] H.
    assert (H' : res_get c r = Some (c', n)) by (destruct k; exact H).
    unfold res_get in H'. inversion H'; subst. split; auto. split.
    - pose proof (remove_user_length (snd r) c). lia.
    - intros Hk. apply remove_user_sorted; auto.
  Qed.

  (* a Resource never has more users than capacity; the users are exactly the requests that were
     granted and neither released nor evicted since (each release gives back exactly one slot, and
     only if the request held one) -- for ALL histories, all three resource types *)
  Theorem resource_capacity : forall h s tr,
      run (res_mach k cap) (init []) h = (s, tr) ->
      (length (content s) <= cap)%nat /\ Permutation (holders tr) (map uid (content s)).
  Proof.
    intros h s tr H.
    assert (HR : res_inv (content s) /\ Permutation (holders tr) (map uid (content s))).
    { apply (@R_run _ _ _ _ (res_mach k cap) (@res_mach_ins_in k cap)
               (fun c tr => res_inv c /\ Permutation (holders tr) (map uid c))) with (c0 := []) (h := h); auto.
      - intros t c tr0 id p c' n _ (Hi & Hp) Hd.
        destruct (@res_put_inv t c (id, p) c' n Hi Hd) as (Hi' & Hp'). split; auto.
        unfold holders in *. rewrite fold_left_app. simpl.
        eapply perm_trans; [|exact Hp']. simpl. destruct n as [v|]; simpl.
        + apply Permutation_app_tail. apply remove1_perm; auto. apply nat_eqb_spec.
        + apply Permutation_app_tail. auto.
      - intros t c tr0 id g c' n _ (Hi & Hp) Hd.
        destruct (@res_get_inv t c (id, g) c' n Hi Hd) as (Hi' & -> & ->). split; auto.
        unfold holders in *. rewrite fold_left_app. simpl. rewrite remove_user_map.
        apply remove1_perm; auto. apply nat_eqb_spec.
      - split; [split; [simpl; lia|intros; constructor]|constructor]. }
    destruct HR as [[Hl _] Hp]. auto.
  Qed.

  (* every eviction in any history: by a preempting request with a STRICTLY better key, only when all
     slots are taken, and the victim is the worst user at that moment *)
  Definition eviction_justified (e : rev_) : Prop :=
    match e with
    | EPut id p (Some v) => k = RPreemptive /\ exists users, evict_ok cap users p v
    | _ => True
    end.

  Theorem preempt_strictly_better : forall h s tr,
      run (res_mach k cap) (init []) h = (s, tr) -> Forall eviction_justified tr.
  Proof.
    intros h s tr H.
    destruct (@inv_run _ _ _ _ (res_mach k cap) (@res_mach_ins_in k cap) res_inv) with (c0 := @nil user) (h := h) (s := s) (outs := tr) as [_ Hj]; auto.
    - intros t c r c' n _ Hi Hd. eapply res_put_inv; eauto.
    - intros t c r c' n _ Hi Hd. eapply res_get_inv; eauto.
    - split; [simpl; lia|intros; constructor].
    - eapply Forall_impl; [|exact Hj]. intros [id p [v|]|id g n]; simpl; auto.
      intros (t & c & c' & [Hl Hs] & Hd). destruct k; simpl in Hd.
      + unfold res_put in Hd. destruct (length c <? cap)%nat; discriminate.
      + unfold res_put in Hd. destruct (length c <? cap)%nat; discriminate.
      + split; auto. exists c. apply (@pre_put_spec cap t c (id, p) c' (Some v) (Hs eq_refl) Hd).
  Qed.
End ResourceProps.

(* ========================================================================================== *)
(* Policy order of the queues, instances *)
Definition fifo_mach {C P G N} (M : mach C P G N) : Prop := forall r q, ins M r q = q ++ [r].
Definition prio_mach {C G N} (M : mach C req G N) : Prop := forall r q, ins M r q = sinsert rq_le r q.

(* (priority, time, not preempt), then request order *)
Definition rq_lt (a b : nat * req) : Prop :=
  klt (rkey (snd a)) (rkey (snd b)) \/ (rkey (snd a) = rkey (snd b) /\ (fst a < fst b)%nat).

Lemma prio_ins_sorted : forall n r q,
    (n <= fst r)%nat -> Forall (fun x : nat * req => (fst x < n)%nat) q -> StronglySorted rq_lt q ->
    StronglySorted rq_lt (sinsert rq_le r q).
Proof.
  intros n r. induction q as [|y q IH]; simpl; intros Hn Hb Hs.
  - repeat constructor.
  - inversion Hs as [|? ? Hs' Hf]; subst. inversion Hb as [|? ? Hy Hb']; subst.
    destruct (rq_le y r) eqn:E; unfold rq_le in E.
    + apply lex3_le_spec in E. constructor; auto.
      apply Forall_forall. intros z Hz. apply sinsert_in in Hz. destruct Hz as [->|Hz].
      * unfold rq_lt. destruct (klt_cases (rkey (snd y)) (rkey (snd r))) as [H|[H|H]]; auto.
        -- right. split; auto. lia.
        -- tauto.
      * rewrite Forall_forall in Hf; auto.
    + assert (Hk : klt (rkey (snd r)) (rkey (snd y))).
      { apply lex3_lt_spec. unfold lex3_le in E. apply negb_false_iff in E. auto. }
      constructor; auto. constructor; [left; auto|].
      eapply Forall_impl; [|exact Hf]. intros z [Hz|[Hz _]]; left.
      * eapply klt_trans; eauto.
      * rewrite <- Hz. auto.
Qed.

Theorem grant_order_fifo : forall C P G N (M : mach C P G N), fifo_mach M ->
    forall c0 h o s outs0 s' outs,
      incr 0 (h ++ [o]) -> run M (init c0) h = (s, outs0) -> step M s o = (s', outs) ->
      granted_then_waiting M (@idlt P) s' outs.
Proof.
  intros C P G N M Hm c0 h o s outs0 s' outs. eapply grant_order.
  - intros n r q Hn Hb Hs. rewrite Hm. eapply sorted_snoc; eauto.
  - intros r q x Hx. rewrite Hm in Hx. apply append_in; auto.
Qed.

Theorem grant_order_priority : forall C G N (M : mach C req G N), prio_mach M ->
    forall c0 h o s outs0 s' outs,
      incr 0 (h ++ [o]) -> run M (init c0) h = (s, outs0) -> step M s o = (s', outs) ->
      granted_then_waiting M rq_lt s' outs.
Proof.
  intros C G N M Hm c0 h o s outs0 s' outs. eapply grant_order.
  - intros n r q Hn Hb Hs. rewrite Hm. eapply prio_ins_sorted; eauto.
  - intros r q x Hx. rewrite Hm in Hx. apply sinsert_in in Hx; auto.
Qed.

(* ========================================================================================== *)
(* Grantable heads, instances *)
Definition well_behaved {C P G N} (M : mach C P G N) : Prop :=
  (forall t t' c r, is_some (do_put M t c r) = is_some (do_put M t' c r)) /\
  (forall t t' c r, is_some (do_get M t c r) = is_some (do_get M t' c r)) /\
  (get_all M = true ->
   forall t c r c1 n r', do_get M t c r = Some (c1, n) -> do_get M t c r' = None -> do_get M t c1 r' = None).

Lemma wb_container : forall cap, well_behaved (container cap).
Proof. intros cap. repeat split; simpl; auto; discriminate. Qed.
Lemma wb_store : forall cap, well_behaved (store cap).
Proof. intros cap. repeat split; simpl; auto; discriminate. Qed.
Lemma wb_prioritystore : forall cap, well_behaved (prioritystore cap).
Proof. intros cap. repeat split; simpl; auto; discriminate. Qed.
Lemma wb_filterstore : forall cap, well_behaved (filterstore cap).
Proof.
  intros cap. split; [|split]; simpl; auto. intros _ t c r c1 n r'. apply (@filterstore_get_mono cap t c r c1 n r').
Qed.
Lemma wb_res : forall k cap, well_behaved (res_mach k cap).
Proof.
  intros k cap. split; [|split].
  - intros t t' c r. destruct k; simpl; unfold res_put, pre_put;
      repeat match goal with |- context [if ?b then _ else _] => destruct b end; auto.
  - intros t t' c r. destruct k; auto.
  - destruct k; discriminate.
Qed.

Theorem grantable_head_granted : forall C P G N (M : mach C P G N), well_behaved M ->
    (* a new request / the callbacks of a granted opposite request serve the queue: afterwards
       its head is not grantable -- from ANY state, e.g. after cancels *)
    (forall s o s' outs, step M s o = (s', outs) -> triggers_put M s o = true -> grantable_put M s' = false) /\
    (forall s o s' outs, step M s o = (s', outs) -> triggers_get M s o = true -> grantable_get M s' = false) /\
    (* no operation other than cancel leaves a grantable head without a pending callback that serves it *)
    (forall s o s' outs, step M s o = (s', outs) -> is_cancel o = false ->
                         Jput M s /\ Jget M s -> Jput M s' /\ Jget M s') /\
    (* so at the end of a time step (all callbacks processed) of a cancel-free history no head is grantable *)
    (forall c0 h s outs, run M (init c0) h = (s, outs) -> cancel_free h -> pend s = [] ->
                         grantable_put M s = false /\ grantable_get M s = false).
Proof.
  intros C P G N M (H1 & H2 & H3). repeat split.
  - intros. eapply step_establishes_Jput; eauto.
  - intros. eapply step_establishes_Jget; eauto.
  - eapply step_keeps_J; eauto.
  - eapply step_keeps_J; eauto.
  - eapply quiescent_no_grantable_head; eauto.
  - eapply quiescent_no_grantable_head; eauto.
Qed.

(* FilterStore: after anything that serves the get queue no waiting request accepts any stored item,
   wherever in the queue it waits: a request that matches nothing does not block later ones *)
Theorem filterstore_nonblocking : forall cap s o s' outs,
    step (filterstore cap) s o = (s', outs) -> triggers_get (filterstore cap) s o = true ->
    forall r x, In r (getq s') -> In x (content s') -> accepts (snd r) x = false.
Proof.
  intros cap s o s' outs H Ht r x Hr Hx.
  destruct (wb_filterstore cap) as (_ & _ & H3).
  assert (Hg : grantable_get (filterstore cap) s' = false) by (eapply step_establishes_Jget; eauto).
  unfold grantable_get in Hg. simpl in Hg.
  assert (Hn : is_some (match first_match (accepts (snd r)) (content s') with
                        | Some (x0, c') => Some (c', Some x0) | None => None end) = false).
  { destruct (is_some _) eqn:E; auto.
    assert (existsb (fun r0 => is_some (match first_match (accepts (snd r0)) (content s') with
                        | Some (x0, c') => Some (c', Some x0) | None => None end)) (getq s') = true).
    { apply existsb_exists. exists r. auto. }
    congruence. }
  destruct (first_match (accepts (snd r)) (content s')) as [[y l]|] eqn:E; [discriminate|].
  apply first_match_none in E. rewrite Forall_forall in E. auto.
Qed.

(* ========================================================================================== *)
(* cancel / release give back exactly what was held *)
Lemma res_get_all : forall k cap, get_all (res_mach k cap) = false.
Proof. destruct k; auto. Qed.

Lemma res_trigger_put_getq : forall k cap s, getq (fst (trigger_put (res_mach k cap) s)) = getq s.
Proof.
  intros. destruct (trigger_put_eq (res_mach k cap) s) as (c & gs & rest & _ & E). rewrite E. auto.
Qed.

Lemma res_trigger_get_nil : forall k cap s, getq s = [] -> getq (fst (trigger_get (res_mach k cap) s)) = [].
Proof.
  intros k cap s H. unfold trigger_get. rewrite res_get_all, H. simpl. auto.
Qed.

Theorem release_exact : forall k cap s id rid, getq s = [] ->
    step (res_mach k cap) s (OGet id rid) =
    (St (now s) (remove_user rid (content s)) (putq s) [] (pend s ++ [(id, false)]), [EGet id rid None]).
Proof.
  intros k cap s id rid H. destruct k; simpl; unfold trigger_get; simpl; rewrite H; reflexivity.
Qed.

Lemma res_step_getq : forall k cap s o, getq s = [] -> getq (fst (step (res_mach k cap) s o)) = [].
Proof.
  intros k cap s o H. destruct o as [t|id p|id g|id|id].
  - simpl; auto.
  - simpl. assert (E : okp (res_mach k cap) p = true) by (destruct k; auto). rewrite E.
    rewrite res_trigger_put_getq. auto.
  - rewrite (release_exact k cap s id g H). auto.
  - simpl. rewrite H. auto.
  - simpl. destruct (take_pend id (pend s)) as [[[|] l]|]; auto.
    + apply res_trigger_get_nil. auto.
    + rewrite res_trigger_put_getq. auto.
Qed.

(* a release is always granted at once: the get queue of a resource is empty after every history *)
Theorem res_getq_empty : forall k cap h s, getq s = [] -> getq (fst (run (res_mach k cap) s h)) = [].
Proof.
  induction h as [|o h IH]; simpl; intros s H; auto.
  pose proof (res_step_getq k cap s o H) as H1. destruct (step (res_mach k cap) s o) as [s1 e1].
  specialize (IH s1 H1). destruct (run (res_mach k cap) s1 h) as [s2 e2]. auto.
Qed.

Lemma remove_user_count : forall rid c,
    length (remove_user rid c) =
    (length c - (if existsb (fun u => Nat.eqb (uid u) rid) c then 1 else 0))%nat.
Proof.
  induction c as [|u c IH]; simpl; auto.
  destruct (Nat.eqb (uid u) rid); simpl; [lia|]. rewrite IH.
  destruct (existsb _ c) eqn:E; [|lia].
  apply existsb_exists in E. destruct E as (x & Hx & _). destruct c; [destruct Hx|simpl; lia].
Qed.

Lemma remove_user_others : forall rid c u, uid u <> rid -> (In u (remove_user rid c) <-> In u c).
Proof.
  induction c as [|a c IH]; simpl; intros u Hu; [tauto|].
  destruct (Nat.eqb_spec (uid a) rid).
  - split; auto. intros [->|H]; auto. congruence.
  - simpl. rewrite IH; auto. tauto.
Qed.

Theorem cancel_release_give_back : forall k cap h s tr,
    run (res_mach k cap) (init []) h = (s, tr) ->
    (* release of request rid: granted at once, frees exactly the slot of rid if it holds one and nothing
       otherwise (idempotent), touches nobody else and no queue *)
    (forall id rid, exists s',
        step (res_mach k cap) s (OGet id rid) = (s', [EGet id rid None]) /\
        content s' = remove_user rid (content s) /\ putq s' = putq s /\ getq s' = [] /\
        length (content s') =
          (length (content s) - (if existsb (fun u => Nat.eqb (uid u) rid) (content s) then 1 else 0))%nat /\
        (forall u, uid u <> rid -> (In u (content s') <-> In u (content s)))) /\
    (* cancel: only the place in the queue is given back *)
    (forall id, step (res_mach k cap) s (OCancel id) =
                (St (now s) (content s) (remove_id id (putq s)) (remove_id id (getq s)) (pend s), [])).
Proof.
  intros k cap h s tr H. split; [|intros; reflexivity].
  intros id rid. pose proof (res_getq_empty k cap h (init []) eq_refl) as Hq. rewrite H in Hq. simpl in Hq.
  eexists. split; [apply release_exact; auto|]. simpl. repeat split; auto.
  - apply remove_user_count.
  - apply remove_user_others; auto.
  - apply remove_user_others; auto.
Qed.

(* the preempting request IS served when it is strictly better than the worst user *)
Lemma preempt_complete : forall cap t c r v rc,
    length c = cap -> preempt (snd r) = true -> rev c = v :: rc -> klt (rkey (snd r)) (rkey (ureq v)) ->
    exists c', pre_put cap t c r = Some (c', Some v).
Proof.
  intros cap t c r v rc Hl Hp Hr Hk. unfold pre_put, preempt_victim.
  assert (E : (cap <=? length c)%nat = true) by (apply Nat.leb_le; lia).
  apply lex3_lt_spec in Hk. rewrite E, Hp, Hr. cbn [andb]. rewrite Hk. cbv zeta beta iota.
  destruct (rev_last _ Hr) as [Hc Hrl].
  assert (E2 : (length (removelast c) <? cap)%nat = true).
  { apply Nat.ltb_lt. rewrite Hrl. rewrite Hc, app_length in Hl. simpl in Hl. lia. }
  rewrite E2. eauto.
Qed.

(* ========================================================================================== *)
(* Statements as exported by props/C19.v *)
Theorem filterstore_first_match_nonblocking : forall cap,
    (forall h s tr, run (filterstore cap) (init []) h = (s, tr) ->
                    fs_spec [] tr (content s) /\ (length (content s) <= cap)%nat) /\
    (forall s o s' outs,
        step (filterstore cap) s o = (s', outs) -> triggers_get (filterstore cap) s o = true ->
        forall r x, In r (getq s') -> In x (content s') -> accepts (snd r) x = false).
Proof. intros cap. split; [apply filterstore_first_match|apply filterstore_nonblocking]. Qed.

Definition all_fifo_or_prio : Prop :=
  (forall cap, fifo_mach (container cap)) /\ (forall cap, fifo_mach (store cap)) /\
  (forall cap, fifo_mach (prioritystore cap)) /\ (forall cap, fifo_mach (filterstore cap)) /\
  (forall cap, fifo_mach (resource cap)) /\
  (forall cap, prio_mach (priorityresource cap)) /\ (forall cap, prio_mach (preemptiveresource cap)).

Theorem grant_policy_order :
    (forall C P G N (M : mach C P G N), fifo_mach M ->
     forall c0 h o s outs0 s' outs,
       incr 0 (h ++ [o]) -> run M (init c0) h = (s, outs0) -> step M s o = (s', outs) ->
       granted_then_waiting M (@idlt P) s' outs) /\
    (forall C G N (M : mach C req G N), prio_mach M ->
     forall c0 h o s outs0 s' outs,
       incr 0 (h ++ [o]) -> run M (init c0) h = (s, outs0) -> step M s o = (s', outs) ->
       granted_then_waiting M rq_lt s' outs) /\
    all_fifo_or_prio.
Proof.
  split; [exact grant_order_fifo|]. split; [exact grant_order_priority|].
  unfold all_fifo_or_prio, fifo_mach, prio_mach. repeat split; reflexivity.
Qed.

Definition all_well_behaved : Prop :=
  (forall cap, well_behaved (container cap)) /\ (forall cap, well_behaved (store cap)) /\
  (forall cap, well_behaved (prioritystore cap)) /\ (forall cap, well_behaved (filterstore cap)) /\
  (forall k cap, well_behaved (res_mach k cap)).

Theorem every_resource_well_behaved : all_well_behaved.
Proof.
  unfold all_well_behaved. repeat split;
    try apply wb_container; try apply wb_store; try apply wb_prioritystore;
    try apply wb_filterstore; try apply wb_res.
Qed.
