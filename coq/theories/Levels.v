(* Resource level vectors: usim/_basics/_resource_level.py.

   A specialisation of ResourceLevels has a fixed sorted tuple of field names; a value is the
   vector of its fields in that order.  Here: lists of Z, read through [get] (missing
   positions read 0, the `zero` default of __init__), with the number of fields [n] given
   to the comparisons.  __add__/__sub__ are element-wise; every comparison is
   "all element pairs satisfy" -- this includes < and >, which therefore do NOT form a
   total order -- except __ne__, which is defined as `not ==`. *)
Require Import ZArith List Bool Lia.
Import ListNotations.
Open Scope Z_scope.

Definition levels := list Z.

Definition get (k : nat) (a : levels) : Z := nth k a 0.

Fixpoint ladd (a b : levels) : levels :=
  match a, b with
  | [], _ => b
  | _, [] => a
  | x :: a', y :: b' => (x + y) :: ladd a' b'
  end.

Definition lneg (a : levels) : levels := map Z.opp a.
Definition lsub (a b : levels) : levels := ladd a (lneg b).

(* all fields k < n satisfy r *)
Definition lall (n : nat) (r : Z -> Z -> bool) (a b : levels) : bool :=
  forallb (fun k => r (get k a) (get k b)) (seq 0 n).

Definition lge n := lall n Z.geb.
Definition lgt n := lall n Z.gtb.
Definition lle n := lall n Z.leb.
Definition llt n := lall n Z.ltb.
Definition leq n := lall n Z.eqb.
Definition lne n a b := negb (leq n a b).

(* Resources.set: fields named in the call are replaced, the others kept *)
Definition lset (n : nat) (m : list (option Z)) (a : levels) : levels :=
  map (fun k => match nth k m None with Some v => v | None => get k a end) (seq 0 n).

(* ---------------- facts *)
Lemma get_nil : forall k, get k [] = 0.
Proof. destruct k; reflexivity. Qed.

Lemma get_ladd : forall a b k, get k (ladd a b) = get k a + get k b.
Proof.
  unfold get. induction a; intros; simpl.
  - destruct k; simpl; lia.
  - destruct b; simpl.
    + destruct k; simpl; lia.
    + destruct k; simpl; auto.
Qed.

Lemma get_lneg : forall a k, get k (lneg a) = - get k a.
Proof.
  unfold get, lneg. induction a; intros; destruct k; simpl; auto.
Qed.

Lemma get_lsub : forall a b k, get k (lsub a b) = get k a - get k b.
Proof. intros. unfold lsub. rewrite get_ladd, get_lneg. lia. Qed.

Lemma get_beyond : forall a k, (length a <= k)%nat -> get k a = 0.
Proof. intros. unfold get. apply nth_overflow. auto. Qed.

Lemma lall_spec : forall n r a b,
  lall n r a b = true <-> forall k, (k < n)%nat -> r (get k a) (get k b) = true.
Proof.
  intros. unfold lall. rewrite forallb_forall. split; intros H k Hk.
  - apply H. apply in_seq. lia.
  - apply H. apply in_seq in Hk. lia.
Qed.

Lemma lge_spec : forall n a b, lge n a b = true <-> forall k, (k < n)%nat -> get k b <= get k a.
Proof.
  intros. unfold lge. rewrite lall_spec. split; intros H k Hk; specialize (H k Hk).
  - apply Z.geb_le in H. auto.
  - apply Z.geb_le. auto.
Qed.

Lemma lle_spec : forall n a b, lle n a b = true <-> forall k, (k < n)%nat -> get k a <= get k b.
Proof.
  intros. unfold lle. rewrite lall_spec. split; intros H k Hk; specialize (H k Hk).
  - apply Z.leb_le in H. auto.
  - apply Z.leb_le. auto.
Qed.

Lemma leq_spec : forall n a b, leq n a b = true <-> forall k, (k < n)%nat -> get k a = get k b.
Proof.
  intros. unfold leq. rewrite lall_spec. split; intros H k Hk; specialize (H k Hk).
  - apply Z.eqb_eq in H. auto.
  - apply Z.eqb_eq. auto.
Qed.

Lemma get_map_seq : forall (f : nat -> Z) n k,
  get k (map f (seq 0 n)) = if (k <? n)%nat then f k else 0.
Proof.
  intros. unfold get. destruct (k <? n)%nat eqn:E.
  - apply Nat.ltb_lt in E.
    rewrite nth_indep with (d' := f 0%nat) by (rewrite map_length, seq_length; auto).
    rewrite map_nth. rewrite seq_nth; auto.
  - apply Nat.ltb_ge in E. apply nth_overflow. rewrite map_length, seq_length. auto.
Qed.

Lemma get_lset : forall n m a k,
  get k (lset n m a) =
  if (k <? n)%nat then match nth k m None with Some v => v | None => get k a end else 0.
Proof. intros. unfold lset. apply get_map_seq. Qed.

(* element-wise < and > are not a total order; != is not element-wise *)
Example lt_not_total :
  llt 2 [1; 0] [0; 1] = false /\ lgt 2 [1; 0] [0; 1] = false /\ leq 2 [1; 0] [0; 1] = false.
Proof. vm_compute. auto. Qed.

Example ne_is_not_elementwise : lne 2 [1; 0] [0; 0] = true /\ lall 2 (fun x y => negb (Z.eqb x y)) [1; 0] [0; 0] = false.
Proof. vm_compute. auto. Qed.

Example ge_not_lt : lge 2 [1; 0] [0; 1] = false /\ llt 2 [1; 0] [0; 1] = false.
Proof. vm_compute. auto. Qed.

(* ---------------- executable comparison for the generated case files *)
Definition lz_eqb (a b : list Z) : bool :=
  (length a =? length b)%nat && forallb (fun p => Z.eqb (fst p) (snd p)) (combine a b).

(* one case: n, a, b (both of length n), expected a+b, a-b, and [>=; >; <=; <; ==; !=] *)
Definition level_case := (nat * list Z * list Z * list Z * list Z * list bool)%type.
Definition level_case_ok (c : level_case) : bool :=
  let '(n, a, b, s, d, cs) := c in
  lz_eqb (ladd a b) s && lz_eqb (lsub a b) d &&
  forallb (fun p => Bool.eqb (fst p) (snd p))
          (combine [lge n a b; lgt n a b; lle n a b; llt n a b; leq n a b; lne n a b] cs)
  && (length cs =? 6)%nat.

Fixpoint bad_levels (i : nat) (l : list level_case) : list nat :=
  match l with
  | [] => []
  | c :: r => if level_case_ok c then bad_levels (S i) r else i :: bad_levels (S i) r
  end.
