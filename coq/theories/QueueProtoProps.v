(* Invariants of QueueProto over ALL reachable states and the C10 theorems. *)
From Coq Require Import List Bool Arith Lia Sorting.Sorted.
From Usim Require Import LockProto LockProtoProps QueueProto.
Import ListNotations.

(* ---------- effect of lock transitions, as needed by the queue ---------- *)

Lemma ph_release m b : ph (release m) b = ph m b.
Proof. unfold release. destruct (waiting m); reflexivity. Qed.
Lemma tick_release m b : tick (release m) b = tick m b.
Proof. unfold release. destruct (waiting m); reflexivity. Qed.
Lemma ph_unsubscribe a m b : ph (unsubscribe a m) b = ph m b.
Proof. unfold unsubscribe. destruct (mem a (woken m)); reflexivity. Qed.
Lemma tick_unsubscribe a m b : tick (unsubscribe a m) b = tick m b.
Proof. unfold unsubscribe. destruct (mem a (woken m)); reflexivity. Qed.

Lemma step_frame m t m' : step m t = Some m' ->
  forall b, b <> actor t -> ph m' b = ph m b /\ tick m' b = tick m b.
Proof.
  intros H b Nb. destruct t as [a|a|a|a]; cbn in *.
  - destruct (ph m a); try discriminate; destruct (owner m) as [o|]; try discriminate;
      try (destruct (Nat.eqb o a); try discriminate); injection H as <-; cbn;
      rewrite ?upd_other by auto; auto.
  - destruct (ph m a); try discriminate. destruct (mem a (woken m)); try discriminate.
    injection H as <-. cbn. rewrite upd_other by auto. rewrite ph_unsubscribe, tick_unsubscribe. auto.
  - destruct (ph m a); try discriminate. injection H as <-. cbn. rewrite upd_other by auto.
    destruct (is_owner _ a); rewrite ?ph_release, ?tick_release, ph_unsubscribe, tick_unsubscribe; auto.
  - destruct (ph m a) as [| |[|n]]; try discriminate. injection H as <-.
    destruct (Nat.eqb _ 0); rewrite ?ph_release, ?tick_release; cbn; rewrite upd_other by auto; auto.
Qed.

Lemma grants_mono m t m' : step m t = Some m' -> incl (grants m) (grants m').
Proof.
  intros H. destruct t as [a|a|a|a]; cbn in *.
  - destruct (ph m a); try discriminate; destruct (owner m) as [o|]; try discriminate;
      try (destruct (Nat.eqb o a); try discriminate); injection H as <-; cbn;
      auto using incl_refl, incl_appl.
  - destruct (ph m a); try discriminate. destruct (mem a (woken m)); try discriminate.
    injection H as <-. cbn. rewrite grants_unsubscribe. auto using incl_refl, incl_appl.
  - destruct (ph m a); try discriminate. injection H as <-. cbn.
    destruct (is_owner _ a); rewrite ?grants_release, grants_unsubscribe; apply incl_refl.
  - destruct (ph m a) as [| |[|n]]; try discriminate. injection H as <-.
    destruct (Nat.eqb _ 0); rewrite ?grants_release; apply incl_refl.
Qed.

Lemma request_effect m r m' : inv m -> ph m r = Idle -> step m (Request r) = Some m' ->
  (ph m' r = Inside 1 /\ tick m' r = ntick m /\ forall a n, ph m a <> Inside n) \/ ph m' r = Waiting.
Proof.
  intros I Pr H. cbn in H. rewrite Pr in H. destruct (owner m) as [o|] eqn:O.
  - destruct (Nat.eqb o r); [discriminate|]. injection H as <-. cbn. rewrite upd_same. auto.
  - injection H as <-. cbn. rewrite !upd_same. left. repeat split; auto.
    pose proof (iC _ I) as C. unfold inv_owner in C. rewrite O in C. tauto.
Qed.

Lemma wake_effect m r m' : step m (DeliverWake r) = Some m' ->
  ph m r = Waiting /\ In r (woken m) /\ ph m' r = Inside 1 /\ tick m' r = tick m r.
Proof.
  intros H. cbn in H. destruct (ph m r) eqn:Pr; try discriminate.
  destruct (mem r (woken m)) eqn:M; try discriminate. apply mem_In in M. injection H as <-. cbn.
  rewrite upd_same, tick_unsubscribe. auto.
Qed.

Lemma foreign_effect m r m' : step m (DeliverForeign r) = Some m' ->
  ph m r = Waiting /\ ph m' r = Idle.
Proof.
  intros H. cbn in H. destruct (ph m r) eqn:Pr; try discriminate. injection H as <-. cbn.
  rewrite upd_same. auto.
Qed.

Lemma exit_effect m r : ph m r = Inside 1 ->
  exists m', step m (Exit r) = Some m' /\ ph m' r = Idle.
Proof.
  intros Pr. cbn. rewrite Pr. eexists. split; [reflexivity|].
  destruct (Nat.eqb _ 0); rewrite ?ph_release; cbn; apply upd_same.
Qed.

Lemma inside_unique m : inv m -> forall a b n k, ph m a = Inside n -> ph m b = Inside k -> a = b.
Proof.
  intros I a b n k Ha Hb. destruct (inside_owner _ I _ _ Ha) as (Oa & _).
  destruct (inside_owner _ I _ _ Hb) as (Ob & _). congruence.
Qed.

Lemma inside_last_grant m : inv m -> forall a n, ph m a = Inside n ->
  exists g, grants m = g ++ [tick m a].
Proof.
  intros I a n Ha. destruct (inside_owner _ I _ _ Ha) as (O & _).
  pose proof (iC _ I) as C. unfold inv_owner in C. rewrite O, Ha in C. tauto.
Qed.

Lemma is_inside_spec m r : is_inside m r = true <-> exists n, ph m r = Inside n.
Proof.
  unfold is_inside. destruct (ph m r); split; try discriminate; eauto; intros [k E]; discriminate.
Qed.

(* ---------- the invariant ---------- *)

Definition coupled (q : qst) (r : aid) : Prop :=
  match rph q r with
  | RIdle => ph (mutex q) r = Idle
  | RWaitMutex => ph (mutex q) r = Waiting
  | RPostpone | RWaitItem => ph (mutex q) r = Inside 1
  end.

Record qinv (q : qst) : Prop := {
  qL : inv (mutex q);
  qC : forall r, coupled q r;
  qN1 : forall r, rph q r = RWaitItem ->
        (nwait q = [r] /\ nwoken q = [] /\ buf q = [] /\ closed q = false) \/
        (nwait q = [] /\ nwoken q = [r] /\ (buf q <> [] \/ closed q = true));
  qN2 : (forall r, rph q r <> RWaitItem) -> nwait q = [] /\ nwoken q = [];
  qP : forall r, rph q r = RPostpone -> buf q <> [];
  qA : accepted q = map snd (delivered q) ++ buf q;
  qS1 : StronglySorted lt (served q);
  qS2 : incl (served q) (grants (mutex q));
  qS3 : forall r n, ph (mutex q) r = Inside n -> ~ In (tick (mutex q) r) (served q)
}.

(* r holds the read mutex and is not subscribed to the notification; the rest of the invariant holds
   around it *)
Record holding (r : aid) (q : qst) : Prop := {
  hL : inv (mutex q);
  hI : ph (mutex q) r = Inside 1;
  hC : forall r', r' <> r -> coupled q r';
  hN : nwait q = [] /\ nwoken q = [];
  hA : accepted q = map snd (delivered q) ++ buf q;
  hS1 : StronglySorted lt (served q);
  hS2 : incl (served q) (grants (mutex q))
}.

Lemma qinv_init : qinv qinit.
Proof.
  constructor; cbn; auto using inv_init; try constructor; try discriminate; try (intros ? []).
Qed.

Lemma other_phase r q r0 : holding r q -> r0 <> r -> rph q r0 <> RPostpone /\ rph q r0 <> RWaitItem.
Proof.
  intros H N. pose proof (hC _ _ H _ N) as C. unfold coupled in C.
  split; intros E; rewrite E in C; apply N; eapply inside_unique; eauto using hL, hI.
Qed.

Lemma leave_inv r q o q' o' : holding r q -> leave r q o = Some (q', o') -> qinv q' /\ o' = o.
Proof.
  intros H E. unfold leave in E. destruct (exit_effect _ _ (hI _ _ H)) as (m' & X & Pm').
  rewrite X in E. injection E as <- <-. split; auto.
  pose proof (step_frame _ _ _ X) as F. cbn [actor] in F.
  constructor; cbn.
  - eapply inv_step; eauto using hL.
  - intros r0. unfold coupled. cbn. destruct (Nat.eq_dec r0 r) as [->|N].
    + rewrite upd_same. auto.
    + rewrite upd_other by auto. destruct (F _ N) as [-> _]. apply (hC _ _ H _ N).
  - intros r0. destruct (Nat.eq_dec r0 r) as [->|N]; [rewrite upd_same; discriminate|].
    rewrite upd_other by auto. intros E. destruct (other_phase _ _ _ H N); contradiction.
  - intros _. apply (hN _ _ H).
  - intros r0. destruct (Nat.eq_dec r0 r) as [->|N]; [rewrite upd_same; discriminate|].
    rewrite upd_other by auto. intros E. destruct (other_phase _ _ _ H N); contradiction.
  - apply (hA _ _ H).
  - apply (hS1 _ _ H).
  - eapply incl_tran; [apply (hS2 _ _ H) | eapply grants_mono; eauto].
  - intros r0 n P0. exfalso. destruct (Nat.eq_dec r0 r) as [->|N]; [congruence|].
    destruct (F _ N) as [E _]. rewrite E in P0. apply N. eapply inside_unique; eauto using hL, hI.
Qed.

Lemma leave_some r q o : holding r q -> exists q', leave r q o = Some (q', o).
Proof.
  intros H. unfold leave. destruct (exit_effect _ _ (hI _ _ H)) as (m' & X & _). rewrite X. eauto.
Qed.

Lemma after_mutex_inv r q q' o : holding r q -> ~ In (tick (mutex q) r) (served q) ->
  after_mutex r q = Some (q', o) -> qinv q'.
Proof.
  intros H Fr E. unfold after_mutex in E. destruct (hN _ _ H) as [W1 W2].
  destruct (buf q) as [|x b] eqn:B.
  - destruct (closed q) eqn:Cl.
    + eapply leave_inv; eauto.
    + injection E as <- <-. rewrite W1. cbn.
      constructor; cbn; eauto using hL, hA, hS1, hS2.
      * intros r0. unfold coupled. cbn. destruct (Nat.eq_dec r0 r) as [->|N].
        -- rewrite upd_same. apply (hI _ _ H).
        -- rewrite upd_other by auto. apply (hC _ _ H _ N).
      * intros r0. destruct (Nat.eq_dec r0 r) as [->|N]; auto.
        rewrite upd_other by auto. intros E. destruct (other_phase _ _ _ H N); contradiction.
      * intros X. exfalso. apply (X r). apply upd_same.
      * intros r0. destruct (Nat.eq_dec r0 r) as [->|N]; [rewrite upd_same; discriminate|].
        rewrite upd_other by auto. intros E. destruct (other_phase _ _ _ H N); contradiction.
      * rewrite (hA _ _ H), B. auto.
      * intros r0 n P0. assert (r0 = r) as -> by (eapply inside_unique; eauto using hL, hI). auto.
  - injection E as <- <-.
    constructor; cbn; eauto using hL, hS1, hS2.
    * intros r0. unfold coupled. cbn. destruct (Nat.eq_dec r0 r) as [->|N].
      -- rewrite upd_same. apply (hI _ _ H).
      -- rewrite upd_other by auto. apply (hC _ _ H _ N).
    * intros r0. destruct (Nat.eq_dec r0 r) as [->|N]; [rewrite upd_same; discriminate|].
      rewrite upd_other by auto. intros E. destruct (other_phase _ _ _ H N); contradiction.
    * intros r0 _. rewrite ?B. discriminate.
    * rewrite (hA _ _ H), ?B. auto.
    * intros r0 n P0. assert (r0 = r) as -> by (eapply inside_unique; eauto using hL, hI). auto.
Qed.

Lemma no_waititem_others q r r0 : qinv q -> ph (mutex q) r = Inside 1 -> r0 <> r ->
  rph q r0 <> RWaitItem /\ rph q r0 <> RPostpone.
Proof.
  intros I P N. pose proof (qC _ I r0) as C. unfold coupled in C.
  split; intros E; rewrite E in C; apply N; eapply inside_unique; eauto using qL.
Qed.

Lemma holding_postpone q r : qinv q -> rph q r = RPostpone -> holding r q.
Proof.
  intros I E. pose proof (qC _ I r) as C. unfold coupled in C. rewrite E in C.
  constructor; auto using qL, qA, qS1, qS2.
  - intros r' _. apply (qC _ I).
  - apply (qN2 _ I). intros r0. destruct (Nat.eq_dec r0 r) as [->|N]; [congruence|].
    apply (no_waititem_others _ _ _ I C N).
Qed.

Lemma holding_unsub q r : qinv q -> rph q r = RWaitItem -> holding r (n_unsubscribe r q).
Proof.
  intros I E. pose proof (qC _ I r) as C. unfold coupled in C. rewrite E in C.
  assert (W : nwait (n_unsubscribe r q) = [] /\ nwoken (n_unsubscribe r q) = []).
  { unfold n_unsubscribe. destruct (qN1 _ I _ E) as [(W1 & W2 & _)|(W1 & W2 & _)]; rewrite W1, W2; cbn;
      rewrite ?Nat.eqb_refl; cbn; rewrite ?Nat.eqb_refl; auto. }
  unfold n_unsubscribe in *. destruct (mem r (nwoken q)); cbn in *;
    (constructor; cbn; auto using qL, qA, qS1, qS2; intros r' _; apply (qC _ I)).
Qed.

Lemma holder_fresh q r : qinv q -> rph q r = RPostpone \/ rph q r = RWaitItem ->
  ~ In (tick (mutex q) r) (served q).
Proof.
  intros I E. pose proof (qC _ I r) as C. unfold coupled in C.
  destruct E as [E|E]; rewrite E in C; eapply qS3; eauto.
Qed.

Lemma pop_holding r q x q' : holding r q -> ~ In (tick (mutex q) r) (served q) ->
  pop r q = Some (x, q') -> holding r q' /\ buf q = x :: buf q' /\ closed q' = closed q.
Proof.
  intros H Fr E. unfold pop in E. destruct (buf q) as [|y b] eqn:B; [discriminate|].
  injection E as <- <-. cbn. split; [|auto]. constructor; cbn.
  - apply (hL _ _ H).
  - apply (hI _ _ H).
  - intros r' N. apply (hC _ _ H _ N).
  - apply (hN _ _ H).
  - rewrite (hA _ _ H), B, map_app, <- app_assoc. reflexivity.
  - destruct (inside_last_grant _ (hL _ _ H) _ _ (hI _ _ H)) as [g G].
    pose proof (iD1 _ (hL _ _ H)) as S. rewrite G in S. apply SS_app in S as (_ & _ & S).
    apply SS_app. repeat split; [apply (hS1 _ _ H) | repeat constructor |].
    intros a b0 Ha [<-|[]]. apply S; [|now left].
    pose proof (hS2 _ _ H _ Ha) as Hg. rewrite G in Hg. apply in_app_or in Hg as [Hg|[<-|[]]]; auto.
    contradiction.
  - intros a Ha. apply in_app_or in Ha as [Ha|[<-|[]]]; [apply (hS2 _ _ H); auto|].
    destruct (inside_last_grant _ (hL _ _ H) _ _ (hI _ _ H)) as [g G]. rewrite G.
    apply in_or_app. right. now left.
Qed.

Lemma holding_new_mutex q r m' : qinv q -> inv m' ->
  ph m' r = Inside 1 ->
  (forall b, b <> r -> ph m' b = ph (mutex q) b /\ tick m' b = tick (mutex q) b) ->
  incl (grants (mutex q)) (grants m') ->
  (forall a n, ph (mutex q) a <> Inside n) ->
  rph q r <> RWaitItem ->
  holding r (set_mutex q m').
Proof.
  intros I I' P F G NI Nr. constructor; cbn; auto using qA, qS1.
  - intros r' N. pose proof (qC _ I r') as C. unfold coupled in *. cbn.
    destruct (F _ N) as [-> _]. exact C.
  - apply (qN2 _ I). intros r0 E. pose proof (qC _ I r0) as C. unfold coupled in C. rewrite E in C.
    eapply NI; eauto.
  - eapply incl_tran; [apply (qS2 _ I) | auto].
Qed.

Lemma nobody_inside_when_designated m r : inv m -> In r (woken m) -> forall a n, ph m a <> Inside n.
Proof.
  intros I W a n Ha. destruct (woken_shape _ I _ W) as (O & P & _).
  destruct (inside_owner _ I _ _ Ha) as (O' & _). congruence.
Qed.

Lemma qinv_step q t q' o : qinv q -> qstep q t = Some (q', o) -> qinv q'.
Proof.
  intros I H. destruct t as [x| |r|r|r|r|r]; unfold qstep in H.
  - (* Put *)
    destruct (closed q) eqn:Cl; [injection H as <- <-; auto|].
    destruct (nwait q) as [|r w] eqn:W; injection H as <- <-.
    + constructor; cbn; eauto using qL, qS1, qS2, qS3.
      * apply (qC _ I).
      * intros r0 E. destruct (qN1 _ I _ E) as [(W1 & _)|(W1 & W2 & _)]; [congruence|].
        right. repeat split; auto. left. destruct (buf q); discriminate.
      * intros X. destruct (qN2 _ I X). auto.
      * intros r0 _. destruct (buf q); discriminate.
      * rewrite (qA _ I), app_assoc. reflexivity.
    + constructor; cbn; eauto using qL, qS1, qS2, qS3.
      * apply (qC _ I).
      * intros r0 E. destruct (qN1 _ I _ E) as [(W1 & W2 & _)|(W1 & _)]; [|congruence].
        rewrite W in W1. injection W1 as -> ->. rewrite W2. right. repeat split; auto.
        left. destruct (buf q); discriminate.
      * intros X. destruct (qN2 _ I X). congruence.
      * intros r0 _. destruct (buf q); discriminate.
      * rewrite (qA _ I), app_assoc. reflexivity.
  - (* Close *)
    destruct (closed q) eqn:Cl; injection H as <- <-; auto.
    constructor; cbn; eauto using qL, qA, qS1, qS2, qS3, qP.
    + apply (qC _ I).
    + intros r0 E. right. destruct (qN1 _ I _ E) as [(W1 & W2 & _)|(W1 & W2 & _)]; rewrite W1, W2; auto.
    + intros X. destruct (qN2 _ I X) as [-> ->]. auto.
  - (* Get *)
    destruct (rph q r) eqn:E; try discriminate.
    pose proof (qC _ I r) as C. unfold coupled in C. rewrite E in C.
    destruct (step (mutex q) (Request r)) as [m'|] eqn:X; [|discriminate].
    pose proof (inv_step _ _ _ (qL _ I) X) as I'.
    pose proof (step_frame _ _ _ X) as F. cbn [actor] in F.
    destruct (request_effect _ _ _ (qL _ I) C X) as [(P & T & NI)|P].
    + unfold is_inside in H. rewrite P in H.
      eapply after_mutex_inv; [| |exact H].
      * eapply holding_new_mutex; eauto using grants_mono. congruence.
      * cbn. rewrite T. intros G. apply (qS2 _ I) in G. apply (iD4 _ (qL _ I)) in G. lia.
    + unfold is_inside in H. rewrite P in H. injection H as <- <-.
      constructor; cbn; auto using qA, qS1.
      * intros r0. unfold coupled. cbn. destruct (Nat.eq_dec r0 r) as [->|N].
        -- rewrite upd_same. auto.
        -- rewrite upd_other by auto. destruct (F _ N) as [-> _]. apply (qC _ I).
      * intros r0. destruct (Nat.eq_dec r0 r) as [->|N]; [rewrite upd_same; discriminate|].
        rewrite upd_other by auto. apply (qN1 _ I).
      * intros Y. apply (qN2 _ I). intros r0. destruct (Nat.eq_dec r0 r) as [->|N]; [congruence|].
        specialize (Y r0). rewrite upd_other in Y by auto. auto.
      * intros r0. destruct (Nat.eq_dec r0 r) as [->|N]; [rewrite upd_same; discriminate|].
        rewrite upd_other by auto. apply (qP _ I).
      * eapply incl_tran; [apply (qS2 _ I) | eapply grants_mono; eauto].
      * intros r0 n P0. destruct (Nat.eq_dec r0 r) as [->|N]; [congruence|].
        destruct (F _ N) as [E1 E2]. rewrite E1 in P0. rewrite E2. eapply qS3; eauto.
  - (* MutexWake *)
    destruct (rph q r) eqn:E; try discriminate.
    destruct (step (mutex q) (DeliverWake r)) as [m'|] eqn:X; [|discriminate].
    pose proof (inv_step _ _ _ (qL _ I) X) as I'.
    pose proof (step_frame _ _ _ X) as F. cbn [actor] in F.
    destruct (wake_effect _ _ _ X) as (P & W & P' & T).
    eapply after_mutex_inv; [| |exact H].
    + eapply holding_new_mutex; eauto using grants_mono, nobody_inside_when_designated, qL. congruence.
    + cbn. rewrite T. intros G. apply (qS2 _ I) in G.
      assert (In r (pendq (mutex q))) by (unfold pendq; apply in_or_app; auto).
      pose proof (iD2 _ (qL _ I) _ _ G H0). lia.
  - (* PostponeDone *)
    destruct (rph q r) eqn:E; try discriminate.
    pose proof (holding_postpone _ _ I E) as Hd.
    pose proof (holder_fresh _ r I (or_introl E)) as Fr.
    destruct (pop r q) as [[x q1]|] eqn:Pp.
    + destruct (pop_holding _ _ _ _ Hd Fr Pp) as (Hd1 & _). eapply leave_inv; eauto.
    + eapply leave_inv; eauto.
  - (* ItemWake *)
    destruct (rph q r) eqn:E; try discriminate.
    destruct (mem r (nwoken q)) eqn:M; [|discriminate].
    pose proof (holding_unsub _ _ I E) as Hd.
    assert (Fr : ~ In (tick (mutex (n_unsubscribe r q)) r) (served (n_unsubscribe r q))).
    { pose proof (holder_fresh _ r I (or_intror E)) as Fr. unfold n_unsubscribe. rewrite M. exact Fr. }
    destruct (pop r (n_unsubscribe r q)) as [[x q1]|] eqn:Pp.
    + destruct (pop_holding _ _ _ _ Hd Fr Pp) as (Hd1 & _). eapply leave_inv; eauto.
    + destruct (closed (n_unsubscribe r q)); eapply leave_inv; eauto.
  - (* Foreign *)
    destruct (rph q r) eqn:E; try discriminate.
    + destruct (step (mutex q) (DeliverForeign r)) as [m'|] eqn:X; [|discriminate].
      injection H as <- <-.
      pose proof (inv_step _ _ _ (qL _ I) X) as I'.
      pose proof (step_frame _ _ _ X) as F. cbn [actor] in F.
      destruct (foreign_effect _ _ _ X) as (P & P').
      constructor; cbn; auto using qA, qS1.
      * intros r0. unfold coupled. cbn. destruct (Nat.eq_dec r0 r) as [->|N].
        -- rewrite upd_same. auto.
        -- rewrite upd_other by auto. destruct (F _ N) as [-> _]. apply (qC _ I).
      * intros r0. destruct (Nat.eq_dec r0 r) as [->|N]; [rewrite upd_same; discriminate|].
        rewrite upd_other by auto. apply (qN1 _ I).
      * intros Y. apply (qN2 _ I). intros r0. destruct (Nat.eq_dec r0 r) as [->|N]; [congruence|].
        specialize (Y r0). rewrite upd_other in Y by auto. auto.
      * intros r0. destruct (Nat.eq_dec r0 r) as [->|N]; [rewrite upd_same; discriminate|].
        rewrite upd_other by auto. apply (qP _ I).
      * eapply incl_tran; [apply (qS2 _ I) | eapply grants_mono; eauto].
      * intros r0 n P0. destruct (Nat.eq_dec r0 r) as [->|N]; [congruence|].
        destruct (F _ N) as [E1 E2]. rewrite E1 in P0. rewrite E2. eapply qS3; eauto.
    + eapply leave_inv; eauto using holding_postpone.
    + eapply leave_inv; eauto using holding_unsub.
Qed.

Theorem qreachable_inv q : qreachable q -> qinv q.
Proof. induction 1; eauto using qinv_init, qinv_step. Qed.

(* ---------- C10 theorems ---------- *)

(* nothing lost, nothing duplicated, order kept - at all times, whatever happened (including any
   foreign signal in any phase of any receiver): the items stored by put are, in put order, exactly
   the items received so far followed by the buffer *)
Theorem exactly_once q : qreachable q -> accepted q = map snd (delivered q) ++ buf q.
Proof. intros R. apply qreachable_inv in R. apply (qA _ R). Qed.

Theorem order q : qreachable q ->
  map snd (delivered q) = firstn (length (delivered q)) (accepted q).
Proof.
  intros R. rewrite (exactly_once _ R). rewrite <- (map_length snd (delivered q)).
  rewrite firstn_app, firstn_all, Nat.sub_diag. cbn. now rewrite app_nil_r.
Qed.

Definition receiver_of (t : qtr) : option aid :=
  match t with
  | Put _ | Close => None
  | Get r | MutexWake r | PostponeDone r | ItemWake r | Foreign r => Some r
  end.

Lemma leave_fields r q o q' o' : leave r q o = Some (q', o') ->
  o' = o /\ buf q' = buf q /\ closed q' = closed q /\ accepted q' = accepted q /\
  delivered q' = delivered q /\ served q' = served q /\ rph q' r = RIdle /\
  nwait q' = nwait q /\ nwoken q' = nwoken q.
Proof.
  unfold leave. destruct (step (mutex q) (Exit r)); [|discriminate]. intros E. injection E as <- <-.
  cbn. rewrite upd_same. repeat split; auto.
Qed.

Lemma after_mutex_fields r q q' o : after_mutex r q = Some (q', o) ->
  buf q' = buf q /\ closed q' = closed q /\ accepted q' = accepted q /\ delivered q' = delivered q /\
  served q' = served q /\
  ((o = ONone /\ (rph q' r = RPostpone /\ buf q <> [] \/ rph q' r = RWaitItem /\ buf q = [] /\ closed q = false)) \/
   (o = OClosed /\ buf q = [] /\ closed q = true /\ rph q' r = RIdle)).
Proof.
  unfold after_mutex. destruct (buf q) eqn:B.
  - destruct (closed q) eqn:Cl.
    + intros E. apply leave_fields in E as (-> & E1 & E2 & E3 & E4 & E5 & E6 & _).
      rewrite E1, E2, E3, E4, E5. repeat split; auto.
    + intros E. injection E as <- <-. cbn. rewrite upd_same. repeat split; auto.
      left. split; auto.
  - intros E. injection E as <- <-. cbn. rewrite upd_same. repeat split; auto.
    left. split; auto. left. split; auto. discriminate.
Qed.

Lemma n_unsub_fields r q :
  buf (n_unsubscribe r q) = buf q /\ closed (n_unsubscribe r q) = closed q /\
  accepted (n_unsubscribe r q) = accepted q /\ delivered (n_unsubscribe r q) = delivered q /\
  served (n_unsubscribe r q) = served q /\ mutex (n_unsubscribe r q) = mutex q.
Proof. unfold n_unsubscribe. destruct (mem r (nwoken q)); cbn; auto 10. Qed.

Lemma pop_fields r q x q' : pop r q = Some (x, q') ->
  buf q = x :: buf q' /\ closed q' = closed q /\ accepted q' = accepted q /\
  delivered q' = delivered q ++ [(r, x)] /\ served q' = served q ++ [tick (mutex q) r].
Proof.
  unfold pop. destruct (buf q); [discriminate|]. intros E. injection E as <- <-. cbn. auto.
Qed.

(* every step, classified by what the caller sees *)
Theorem step_spec q t q' o : qreachable q -> qstep q t = Some (q', o) ->
  match o with
  | OGot x =>          (* a receive returned x: it was the head of the buffer, and it is logged *)
      exists r, receiver_of t = Some r /\ buf q = x :: buf q' /\
                delivered q' = delivered q ++ [(r, x)] /\
                served q' = served q ++ [tick (mutex q) r] /\
                accepted q' = accepted q /\ closed q' = closed q
  | OClosed =>         (* StreamClosed: a put on a closed queue, or a receive on a closed AND empty one *)
      closed q = true /\ closed q' = true /\ buf q' = buf q /\ accepted q' = accepted q /\
      delivered q' = delivered q /\ (receiver_of t <> None -> buf q = [])
  | ORaised =>         (* a foreign signal at a receiver: it leaves, nothing else changes *)
      exists r, t = Foreign r /\ rph q' r = RIdle /\ buf q' = buf q /\ closed q' = closed q /\
                accepted q' = accepted q /\ delivered q' = delivered q
  | ONone =>
      delivered q' = delivered q /\
      match t with
      | Put x => closed q = false /\ buf q' = buf q ++ [x] /\ accepted q' = accepted q ++ [x] /\
                 closed q' = false
      | Close => closed q' = true /\ buf q' = buf q /\ accepted q' = accepted q
      | _ => buf q' = buf q /\ closed q' = closed q /\ accepted q' = accepted q
      end
  | OCrash => False    (* IndexError / failed assert never happen *)
  end.
Proof.
  intros R H. apply qreachable_inv in R. destruct t as [x| |r|r|r|r|r]; unfold qstep in H.
  - destruct (closed q) eqn:Cl; [injection H as <- <-; repeat split; auto; intros X; now elim X|].
    destruct (nwait q); injection H as <- <-; cbn; auto.
  - destruct (closed q) eqn:Cl; injection H as <- <-; cbn; auto.
  - destruct (rph q r) eqn:E; try discriminate.
    destruct (step (mutex q) (Request r)) as [m'|]; [|discriminate].
    destruct (is_inside m' r).
    + apply after_mutex_fields in H as (E1 & E2 & E3 & E4 & E5 & [(-> & _)|(-> & B & Cl & _)]); cbn in *.
      * auto.
      * rewrite E2. repeat split; auto.
    + injection H as <- <-. cbn. auto.
  - destruct (rph q r) eqn:E; try discriminate.
    destruct (step (mutex q) (DeliverWake r)) as [m'|]; [|discriminate].
    apply after_mutex_fields in H as (E1 & E2 & E3 & E4 & E5 & [(-> & _)|(-> & B & Cl & _)]); cbn in *.
    * auto.
    * rewrite E2. repeat split; auto.
  - destruct (rph q r) eqn:E; try discriminate.
    destruct (pop r q) as [[x q1]|] eqn:Pp.
    + apply pop_fields in Pp as (P1 & P2 & P3 & P4 & P5).
      apply leave_fields in H as (-> & L1 & L2 & L3 & L4 & L5 & _).
      exists r. rewrite L1, L2, L3, L4, L5. repeat split; auto.
    + exfalso. unfold pop in Pp. destruct (buf q) eqn:B; [|discriminate]. eapply qP; eauto.
  - destruct (rph q r) eqn:E; try discriminate.
    destruct (mem r (nwoken q)) eqn:M; [|discriminate].
    destruct (n_unsub_fields r q) as (U1 & U2 & U3 & U4 & U5 & U6).
    destruct (pop r (n_unsubscribe r q)) as [[x q1]|] eqn:Pp.
    + apply pop_fields in Pp as (P1 & P2 & P3 & P4 & P5).
      apply leave_fields in H as (-> & L1 & L2 & L3 & L4 & L5 & _).
      exists r. rewrite L1, L2, L3, L4, L5, P2, P3, P4, P5, U2, U3, U4, U5, U6, <- U1. repeat split; auto.
    + unfold pop in Pp. rewrite U1 in Pp. destruct (buf q) eqn:B; [|discriminate].
      assert (Cl : closed q = true).
      { destruct (qN1 _ R _ E) as [(_ & W & _)|(_ & _ & [X|X])]; auto; try congruence.
        rewrite W in M. discriminate. }
      rewrite U2, Cl in H. apply leave_fields in H as (-> & L1 & L2 & L3 & L4 & L5 & _).
      rewrite L1, L2, L3, L4, U1, U2, U3, U4. repeat split; auto.
  - destruct (rph q r) eqn:E; try discriminate.
    + destruct (step (mutex q) (DeliverForeign r)); [|discriminate]. injection H as <- <-.
      exists r. cbn. rewrite upd_same. repeat split; auto.
    + apply leave_fields in H as (-> & L1 & L2 & L3 & L4 & L5 & L6 & _). exists r. auto 10.
    + destruct (n_unsub_fields r q) as (U1 & U2 & U3 & U4 & U5 & U6).
      apply leave_fields in H as (-> & L1 & L2 & L3 & L4 & L5 & L6 & _). exists r.
      rewrite L1, L2, L3, L4, U1, U2, U3, U4. auto 10.
Qed.

(* put on a closed queue raises StreamClosed and stores nothing *)
Theorem put_closed_rejected q x : closed q = true -> qstep q (Put x) = Some (q, OClosed).
Proof. intros C. cbn. now rewrite C. Qed.

Theorem put_open_accepted q x : closed q = false ->
  exists q', qstep q (Put x) = Some (q', ONone) /\ buf q' = buf q ++ [x] /\
             accepted q' = accepted q ++ [x].
Proof. intros C. cbn. rewrite C. destruct (nwait q); eexists; split; try reflexivity; auto. Qed.

(* closing is permanent *)
Theorem closed_monotone q t q' o : qstep q t = Some (q', o) -> closed q = true -> closed q' = true.
Proof.
  intros H C. destruct t as [x| |r|r|r|r|r]; unfold qstep in H.
  - rewrite C in H. now injection H as <- <-.
  - rewrite C in H. now injection H as <- <-.
  - destruct (rph q r); try discriminate. destruct (step _ _); [|discriminate].
    destruct (is_inside _ _).
    + apply after_mutex_fields in H as (_ & -> & _). auto.
    + injection H as <- <-. auto.
  - destruct (rph q r); try discriminate. destruct (step _ _); [|discriminate].
    apply after_mutex_fields in H as (_ & -> & _). auto.
  - destruct (rph q r); try discriminate. destruct (pop r q) as [[x q1]|] eqn:Pp.
    + apply pop_fields in Pp as (_ & P2 & _). apply leave_fields in H as (_ & _ & -> & _). congruence.
    + apply leave_fields in H as (_ & _ & -> & _). auto.
  - destruct (rph q r); try discriminate. destruct (mem _ _); [|discriminate].
    destruct (n_unsub_fields r q) as (_ & U2 & _).
    destruct (pop r _) as [[x q1]|] eqn:Pp.
    + apply pop_fields in Pp as (_ & P2 & _). apply leave_fields in H as (_ & _ & -> & _). congruence.
    + destruct (closed (n_unsubscribe r q)) eqn:Cq; apply leave_fields in H as (_ & _ & -> & _); congruence.
  - destruct (rph q r); try discriminate.
    + destruct (step _ _); [|discriminate]. injection H as <- <-. auto.
    + apply leave_fields in H as (_ & _ & -> & _). auto.
    + destruct (n_unsub_fields r q) as (_ & U2 & _).
      apply leave_fields in H as (_ & _ & -> & _). congruence.
Qed.

(* receivers are served in the order in which they started waiting: the read-mutex tickets (drawn in
   increasing order by Get, get_draws_ticket) of the receivers that obtained an item, in the order of
   obtaining it, are strictly increasing *)
Theorem receivers_fifo q : qreachable q -> StronglySorted lt (served q).
Proof. intros R. apply qreachable_inv in R. apply (qS1 _ R). Qed.

Theorem get_draws_ticket q r q' o : qreachable q -> qstep q (Get r) = Some (q', o) ->
  tick (mutex q') r = ntick (mutex q) /\ ntick (mutex q') = S (ntick (mutex q)) /\
  Forall (fun t => t < ntick (mutex q)) (served q).
Proof.
  intros R H. apply qreachable_inv in R. unfold qstep in H.
  destruct (rph q r) eqn:E; try discriminate.
  pose proof (qC _ R r) as C. unfold coupled in C. rewrite E in C.
  destruct (step (mutex q) (Request r)) as [m'|] eqn:X; [|discriminate].
  destruct (ticket_fresh _ _ _ X C) as (T1 & T2 & _).
  assert (M : mutex q' = m' \/ exists m'', step m' (Exit r) = Some m'' /\ mutex q' = m'').
  { destruct (is_inside m' r).
    - unfold after_mutex in H. cbn [set_mutex mutex buf closed] in H. destruct (buf q).
      + destruct (closed q).
        * unfold leave in H. cbn [set_mutex mutex buf closed] in H. destruct (step m' (Exit r)) eqn:Y; [|discriminate].
          injection H as <- <-. cbn. eauto.
        * injection H as <- <-. auto.
      + injection H as <- <-. auto.
    - injection H as <- <-. auto. }
  split; [|split].
  - destruct M as [->|(m'' & Y & ->)]; auto.
    cbn in Y. destruct (ph m' r) as [| |[|k]]; try discriminate. injection Y as <-.
    destruct (Nat.eqb _ 0); rewrite ?tick_release; auto.
  - destruct M as [->|(m'' & Y & ->)]; auto.
    cbn in Y. destruct (ph m' r) as [| |[|k]]; try discriminate. injection Y as <-.
    destruct (Nat.eqb _ 0); unfold release; cbn; try destruct (waiting m'); auto.
  - apply Forall_forall. intros t Ht. apply (qS2 _ R) in Ht. apply (iD4 _ (qL _ R)). auto.
Qed.

(* only the receiver that holds the read mutex can be past it: one receiver at a time owns the head *)
Theorem receivers_exclusive q : qreachable q -> forall r r',
  (rph q r = RPostpone \/ rph q r = RWaitItem) -> (rph q r' = RPostpone \/ rph q r' = RWaitItem) ->
  r = r'.
Proof.
  intros R r r' H H'. apply qreachable_inv in R.
  pose proof (qC _ R r) as C. pose proof (qC _ R r') as C'. unfold coupled in *.
  eapply inside_unique; [apply (qL _ R)| |].
  - destruct H as [H|H]; rewrite H in C; eauto.
  - destruct H' as [H'|H']; rewrite H' in C'; eauto.
Qed.

(* no lost wake-up, and close wakes everybody: a receiver waiting for an item while the buffer is not
   empty or the queue is closed has its wake-up in flight; a postponed receiver always finds its item *)
Theorem no_lost_wakeup q r : qreachable q -> rph q r = RWaitItem ->
  (buf q <> [] \/ closed q = true) ->
  In r (nwoken q) /\ exists q' o, qstep q (ItemWake r) = Some (q', o).
Proof.
  intros R E B. apply qreachable_inv in R.
  assert (W : nwoken q = [r]).
  { destruct (qN1 _ R _ E) as [(_ & _ & B1 & B2)|(_ & W & _)]; auto. destruct B; congruence. }
  split; [rewrite W; now left|].
  unfold qstep. rewrite E, W. cbn. rewrite Nat.eqb_refl. cbn.
  pose proof (holding_unsub _ _ R E) as Hd.
  assert (Fr : ~ In (tick (mutex (n_unsubscribe r q)) r) (served (n_unsubscribe r q))).
  { pose proof (holder_fresh _ r R (or_intror E)) as Fr. unfold n_unsubscribe.
    destruct (mem r (nwoken q)); exact Fr. }
  destruct (pop r (n_unsubscribe r q)) as [[x q1]|] eqn:Pp.
  - destruct (pop_holding _ _ _ _ Hd Fr Pp) as (Hd1 & _).
    destruct (leave_some r q1 (OGot x) Hd1) as [q' L]. eauto.
  - destruct (closed (n_unsubscribe r q)).
    + destruct (leave_some r _ OClosed Hd) as [q' L]. eauto.
    + destruct (leave_some r _ OCrash Hd) as [q' L]. eauto.
Qed.

Theorem postponed_gets_item q r : qreachable q -> rph q r = RPostpone ->
  exists x q', qstep q (PostponeDone r) = Some (q', OGot x) /\ buf q = x :: buf q'.
Proof.
  intros R E. pose proof R as R0. apply qreachable_inv in R.
  pose proof (holding_postpone _ _ R E) as Hd.
  pose proof (holder_fresh _ r R (or_introl E)) as Fr.
  unfold qstep. rewrite E. destruct (pop r q) as [[x q1]|] eqn:Pp.
  - destruct (pop_holding _ _ _ _ Hd Fr Pp) as (Hd1 & B & _).
    destruct (leave_some r q1 (OGot x) Hd1) as [q' L]. exists x, q'. split; auto.
    apply leave_fields in L as (_ & -> & _). auto.
  - exfalso. unfold pop in Pp. destruct (buf q) eqn:B; [|discriminate]. eapply qP; eauto.
Qed.

(* a foreign signal (cancel / until-interrupt / close) is possible at every suspension point of a
   receiver; by step_spec it changes neither buffer nor the accepted / delivered logs *)
Theorem foreign_enabled q r : qreachable q -> rph q r <> RIdle ->
  exists q', qstep q (Foreign r) = Some (q', ORaised).
Proof.
  intros R E. apply qreachable_inv in R. unfold qstep. destruct (rph q r) eqn:P; [congruence| | |].
  - pose proof (qC _ R r) as C. unfold coupled in C. rewrite P in C.
    cbn. rewrite C. eauto.
  - apply leave_some. apply holding_postpone; auto.
  - apply leave_some. apply holding_unsub; auto.
Qed.

Theorem get_enabled q r : qreachable q -> rph q r = RIdle -> exists q' o, qstep q (Get r) = Some (q', o).
Proof.
  intros R E. apply qreachable_inv in R. pose proof (qC _ R r) as C. unfold coupled in C.
  rewrite E in C. unfold qstep. rewrite E.
  destruct (step (mutex q) (Request r)) as [m'|] eqn:X.
  - pose proof (inv_step _ _ _ (qL _ R) X) as I'.
    pose proof (step_frame _ _ _ X) as F. cbn [actor] in F.
    destruct (request_effect _ _ _ (qL _ R) C X) as [(P & T & NI)|P]; unfold is_inside; rewrite P; eauto.
    assert (Hd : holding r (set_mutex q m')).
    { eapply holding_new_mutex; eauto using grants_mono. congruence. }
    unfold after_mutex. cbn. destruct (buf q); eauto. destruct (closed q); eauto.
    destruct (leave_some r (set_mutex q m') OClosed Hd) as [q' L]. eauto.
  - exfalso. cbn in X. rewrite C in X. destruct (owner (mutex q)) as [o|] eqn:O; [|discriminate].
    destruct (Nat.eqb_spec o r) as [->|]; [|discriminate].
    pose proof (iC _ (qL _ R)) as IC. unfold inv_owner in IC. rewrite O, C in IC. tauto.
Qed.

Lemma qrun_reachable l : forall q q' os, qreachable q -> qrun q l = Some (q', os) -> qreachable q'.
Proof.
  induction l as [|t r IH]; cbn; intros q q' os R H.
  - injection H as <- <-. auto.
  - destruct (qstep q t) as [[q1 o]|] eqn:E; [|discriminate].
    destruct (qrun q1 r) as [[q2 os']|] eqn:E2; [|discriminate]. injection H as <- <-.
    eapply IH; [|eauto]. econstructor; eauto.
Qed.

(* after close: nothing more is accepted, what is buffered is still handed out from the head, and
   StreamClosed reaches a receiver only once the buffer is empty *)
Theorem close_drains_then_raises q t q' o : qreachable q -> closed q = true ->
  qstep q t = Some (q', o) ->
  accepted q' = accepted q /\ closed q' = true /\
  (receiver_of t <> None -> o = OClosed -> buf q = [] /\ buf q' = []) /\
  (forall x, o = OGot x -> buf q = x :: buf q') /\
  (buf q <> [] -> o <> OClosed \/ receiver_of t = None).
Proof.
  intros R C H. pose proof (step_spec _ _ _ _ R H) as S. pose proof (closed_monotone _ _ _ _ H C) as C'.
  destruct o.
  - destruct S as [_ S].
    assert (A : accepted q' = accepted q).
    { destruct t; try tauto. destruct S as (F & _). congruence. }
    repeat split; auto; try discriminate. intros _. left. discriminate.
  - destruct S as (r & _ & B & _ & _ & A & _). repeat split; auto; try discriminate.
    + intros y [= ->]. auto.
    + intros _. left. discriminate.
  - destruct S as (_ & _ & B & A & _ & E). repeat split; auto; try discriminate.
    + rewrite B. auto.
    + intros NB. right. destruct (receiver_of t); auto. exfalso. apply NB. apply E. discriminate.
  - destruct S as (r & -> & _ & B & _ & A & _). repeat split; auto; try discriminate.
    intros _. left. discriminate.
  - destruct S.
Qed.

Example ex_cancel_after_wake_keeps_item :
  (* receiver 0 waits for an item, put 7 wakes it, it is cancelled before resuming, receiver 1 gets 7 *)
  option_map snd (qrun qinit [Get 0; Get 1; Put 7; Foreign 0; MutexWake 1; PostponeDone 1])
  = Some [ONone; ONone; ONone; ORaised; ONone; OGot 7].
Proof. reflexivity. Qed.
