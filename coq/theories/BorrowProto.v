(* Layer P model of usim resources: usim/_basics/resource.py (with fix D5), tracked.py.

   Pools: pool 0 is the supply (`Resources` or `Capacities`, field `_available`); pool (S i)
   is the share `_available` of borrow block i (a `BorrowedResources` / `ClaimedResources`
   created by `pool.borrow(..)` / `pool.claim(..)`), so nesting of any depth is covered.
   A block sits at one suspension point of __aenter__/__aexit__ (its phase).  The
   environment is fully nondeterministic: any operation at any time, a foreign signal
   (cancel / until-interrupt: [Signal]; GeneratorExit of a forceful close: [Close]) at any
   suspension point of any block, arbitrary interleaving with increase/decrease/set.

   Atomic sections (between two suspension points), one per (operation, phase):
     Step i   Idle:        __aenter__ starts: test `parent._available >= debits`;
                           true  -> parent -= debits (Tracked.set: assign, notify listeners
                                    whose test is true, postpone)            -> Taking
                           false -> claim: raise ResourcesUnavailable         -> Gone
                                    borrow: Condition.__await__ subscribes    -> WaitAvail
              WaitAvail (woken by a Tracked.set: bwok); `while not self`: re-test; true -> take
                           as above (same section) ; false -> sleep again
              Taking:      own += debits, postpone                            -> Filling
              Filling:     __aenter__ returns                                 -> Holding
              Holding:     __aexit__ on the awaited path (normal exit, or an ordinary exception
                           of the body, i.e. neither GeneratorExit nor an Interrupt):
                           own -= debits, postpone                            -> Emptying
              Emptying:    parent += debits, postpone                         -> Returning
              Returning:   __aexit__ returns                                  -> Gone
     Signal i / Close i  a foreign signal at the suspension point:
              WaitAvail:   unsubscribe, propagate                             -> Gone
              Taking, Filling: `except BaseException: __release_nowait__(own.value)`:
                           schedule [own -= held; parent += debits]           -> Gone
              Holding:     the block is left by an Interrupt (cancel, until-interrupt, scope
                           cancel: Signal) or by GeneratorExit (Close): fix D20, no suspension:
                           `__release_nowait__(debits)`                       -> Gone
              Emptying:    `__release_nowait__(zero)`                         -> Gone
              Returning:   propagate (everything is back already)             -> Gone
     RunGb    the oldest scheduled give-back activity runs its Tracked.set (the loop runs
              activations of one time step FIFO; nobody holds a handle to cancel it)
     Increase/Decrease/SetLv  Resources.increase/decrease/set (assertions = [OAssert])
     New q d claim  `pool_q.borrow(d)` / `.claim(d)`: creates the block object (assertions
              `zero <= d`, and `limits >= d` when q is a share or Capacities)

   Tracked.set is modelled by [setpool]: assign and mark every un-woken waiter on that pool
   whose test is now true as woken; only woken waiters can be resumed by [Step].
   [ins] is ghost state: ins 0 = the supply (initial levels + increase - decrease, set adds
   the difference), ins (S i) = what block i has put into its own share and not yet removed. *)
Require Import ZArith List Bool Lia.
Import ListNotations.
From Usim Require Import Levels.
Open Scope Z_scope.

Inductive phase :=
| Idle | WaitAvail | Taking | Filling | Holding | Emptying | Returning | Gone.

(* bwok: the wake-up of a block in WaitAvail has been scheduled by a Tracked.set *)
Record block := mkB { bpar : nat; bdeb : levels; bclaim : bool; bph : phase; bwok : bool }.

Inductive gb := GbOwn (i : nat) (h : levels) | GbPar (q : nat) (d : levels).

Record state := mkS {
  nkeys : nat;                 (* number of named resources *)
  cap : option levels;         (* Some c: the supply is Capacities(c); None: Resources *)
  pools : list levels;
  ins : list levels;           (* ghost *)
  blocks : list block;
  gbq : list gb }.             (* scheduled give-back activities, oldest first *)

Inductive op :=
| New (q : nat) (d : levels) (cl : bool)
| Step (i : nat) | Signal (i : nat) | Close (i : nat) | RunGb
| Increase (d : levels) | Decrease (d : levels) | SetLv (m : list (option Z)).

Inductive out := OOk | OTook | OWait | OUnavail | OAssert | ODisabled.

Definition init (n : nat) (c : option levels) (lv : levels) : state :=
  mkS n c [lv] [lv] [] [].

Fixpoint updn {A : Type} (i : nat) (f : A -> A) (l : list A) : list A :=
  match l with
  | [] => []
  | x :: r => match i with O => f x :: r | S j => x :: updn j f r end
  end.

Definition pool (q : nat) (s : state) : levels := nth q (pools s) [].
Definition insq (q : nat) (s : state) : levels := nth q (ins s) [].

Definition set_ph (p : phase) (b : block) : block := mkB (bpar b) (bdeb b) (bclaim b) p false.

(* Tracked.set's notification of listeners *)
Definition is_wait (p : phase) : bool := match p with WaitAvail => true | _ => false end.
Definition mark (n q : nat) (v : levels) (b : block) : block :=
  if is_wait (bph b) && (bpar b =? q)%nat && lge n v (bdeb b)
  then mkB (bpar b) (bdeb b) (bclaim b) (bph b) true else b.

Definition setph (i : nat) (p : phase) (s : state) : state :=
  mkS (nkeys s) (cap s) (pools s) (ins s) (updn i (set_ph p) (blocks s)) (gbq s).
Definition setpool (q : nat) (v : levels) (s : state) : state :=
  mkS (nkeys s) (cap s) (updn q (fun _ => v) (pools s)) (ins s)
      (map (mark (nkeys s) q v) (blocks s)) (gbq s).
Definition chpool (q : nat) (dl : levels) (s : state) : state :=
  setpool q (ladd (pool q s) dl) s.
Definition chins (q : nat) (dl : levels) (s : state) : state :=
  mkS (nkeys s) (cap s) (pools s) (updn q (fun x => ladd x dl) (ins s)) (blocks s) (gbq s).
Definition push (gs : list gb) (s : state) : state :=
  mkS (nkeys s) (cap s) (pools s) (ins s) (blocks s) (gbq s ++ gs).
Definition pop (s : state) : state :=
  mkS (nkeys s) (cap s) (pools s) (ins s) (blocks s) (tl (gbq s)).

Definition is_holding (p : phase) : bool := match p with Holding => true | _ => false end.

(* a share is handed out by `async with ... as share`: nested blocks start entering only
   while the owner holds (structured use; DESIGN.md 1.1 last bullet) *)
Definition owner_ok (s : state) (q : nat) : bool :=
  match q with
  | O => true
  | S j => match nth_error (blocks s) j with Some o => is_holding (bph o) | None => false end
  end.

Definition take (s : state) (i : nat) (b : block) : state * out :=
  (chpool (bpar b) (lneg (bdeb b)) (setph i Taking s), OTook).

Definition try_enter (s : state) (i : nat) (b : block) (first : bool) : state * out :=
  if lge (nkeys s) (pool (bpar b) s) (bdeb b) then take s i b
  else if first && bclaim b then (setph i Gone s, OUnavail)
  else (setph i WaitAvail s, OWait).

Definition exit_normal (s : state) (i : nat) (b : block) : state * out :=
  (chins (S i) (lneg (bdeb b)) (chpool (S i) (lneg (bdeb b)) (setph i Emptying s)), OOk).

Definition giveback (s : state) (i : nat) (b : block) (h : levels) : state * out :=
  (push [GbOwn i h; GbPar (bpar b) (bdeb b)] (setph i Gone s), OOk).

Definition nonneg_opts (m : list (option Z)) : bool :=
  forallb (fun o => match o with Some v => 0 <=? v | None => true end) m.

Definition limit_ok (s : state) (q : nat) (d : levels) : bool :=
  match q with
  | O => match cap s with Some c => lge (nkeys s) c d | None => true end
  | S j => match nth_error (blocks s) j with Some o => lge (nkeys s) (bdeb o) d | None => false end
  end.

Definition is_none {A : Type} (o : option A) : bool := match o with None => true | _ => false end.

Definition step (s : state) (o : op) : state * out :=
  match o with
  | New q d cl =>
      if negb ((q <? length (pools s))%nat && (length d <=? nkeys s)%nat) then (s, ODisabled)
      else if negb (lle (nkeys s) [] d && limit_ok s q d) then (s, OAssert)
      else (mkS (nkeys s) (cap s) (pools s ++ [[]]) (ins s ++ [[]])
                (blocks s ++ [mkB q d cl Idle false]) (gbq s), OOk)
  | Step i =>
      match nth_error (blocks s) i with
      | None => (s, ODisabled)
      | Some b =>
          match bph b with
          | Idle => if owner_ok s (bpar b) then try_enter s i b true else (s, ODisabled)
          | WaitAvail => if bwok b then try_enter s i b false else (s, ODisabled)
          | Taking => (chins (S i) (bdeb b) (chpool (S i) (bdeb b) (setph i Filling s)), OOk)
          | Filling => (setph i Holding s, OOk)
          | Holding => exit_normal s i b
          | Emptying => (chpool (bpar b) (bdeb b) (setph i Returning s), OOk)
          | Returning => (setph i Gone s, OOk)
          | Gone => (s, ODisabled)
          end
      end
  | Signal i =>
      match nth_error (blocks s) i with
      | None => (s, ODisabled)
      | Some b =>
          match bph b with
          | WaitAvail | Returning => (setph i Gone s, OOk)
          | Taking | Filling => giveback s i b (pool (S i) s)
          | Holding => giveback s i b (bdeb b)
          | Emptying => giveback s i b []
          | Idle | Gone => (s, ODisabled)
          end
      end
  | Close i =>
      match nth_error (blocks s) i with
      | None => (s, ODisabled)
      | Some b =>
          match bph b with
          | WaitAvail | Returning => (setph i Gone s, OOk)
          | Taking | Filling => giveback s i b (pool (S i) s)
          | Holding => giveback s i b (bdeb b)
          | Emptying => giveback s i b []
          | Idle | Gone => (s, ODisabled)
          end
      end
  | RunGb =>
      match gbq s with
      | [] => (s, ODisabled)
      | GbOwn i h :: _ => (chins (S i) (lneg h) (chpool (S i) (lneg h) (pop s)), OOk)
      | GbPar q d :: _ => (chpool q d (pop s), OOk)
      end
  | Increase d =>
      if negb (is_none (cap s) && (length d <=? nkeys s)%nat) then (s, ODisabled)
      else if negb (lle (nkeys s) [] d) then (s, OAssert)
      else (chins 0 d (chpool 0 d s), OOk)
  | Decrease d =>
      if negb (is_none (cap s) && (length d <=? nkeys s)%nat) then (s, ODisabled)
      else if negb (lle (nkeys s) [] d && lle (nkeys s) [] (lsub (pool 0 s) d)) then (s, OAssert)
      else (chins 0 (lneg d) (chpool 0 (lneg d) s), OOk)
  | SetLv m =>
      if negb (is_none (cap s)) then (s, ODisabled)
      else if negb (nonneg_opts m) then (s, OAssert)
      else let v := lset (nkeys s) m (pool 0 s) in
           (chins 0 (lsub v (pool 0 s)) (setpool 0 v s), OOk)
  end.

Fixpoint run (s : state) (tr : list op) : state :=
  match tr with [] => s | o :: tr' => run (fst (step s o)) tr' end.

Definition reachable_from (s0 s : state) : Prop := exists tr, s = run s0 tr.

(* ---------------- accounting used by the theorems *)
Definition held (p : phase) : bool :=
  match p with Taking | Filling | Holding | Emptying => true | _ => false end.

(* what block b currently has out of pool q (field k) *)
Definition outb (q k : nat) (b : block) : Z :=
  if (bpar b =? q)%nat && held (bph b) then get k (bdeb b) else 0.
Definition outg (q k : nat) (g : gb) : Z :=
  match g with GbPar q' d => if (q' =? q)%nat then get k d else 0 | GbOwn _ _ => 0 end.
Fixpoint osum (q k : nat) (bl : list block) : Z :=
  match bl with [] => 0 | b :: r => outb q k b + osum q k r end.
Fixpoint gsum (q k : nat) (gl : list gb) : Z :=
  match gl with [] => 0 | g :: r => outg q k g + gsum q k r end.
(* everything taken out of pool q and not yet given back: blocks in Taking..Emptying plus
   the scheduled give-backs to q *)
Definition outstanding (q k : nat) (s : state) : Z := osum q k (blocks s) + gsum q k (gbq s).

(* amounts of the blocks on pool q that satisfy a phase predicate *)
Fixpoint psum (f : phase -> bool) (q k : nat) (bl : list block) : Z :=
  match bl with
  | [] => 0
  | b :: r => (if (bpar b =? q)%nat && f (bph b) then get k (bdeb b) else 0) + psum f q k r
  end.

Definition quiescent (s : state) : Prop :=
  (forall b, In b (blocks s) -> held (bph b) = false) /\ gbq s = [].

(* ---------------- replay of logged sections (correspondence) *)
Definition out_eqb (a b : out) : bool :=
  match a, b with
  | OOk, OOk | OTook, OTook | OWait, OWait | OUnavail, OUnavail | OAssert, OAssert
  | ODisabled, ODisabled => true
  | _, _ => false
  end.

Definition proj_eqb (n : nat) (model impl : list levels) : bool :=
  (length model =? length impl)%nat &&
  forallb (fun p => leq n (fst p) (snd p)) (combine model impl).

Definition event := (op * out * list levels)%type.

(* index (from 1) of the first logged section the model cannot reproduce; after the last one the
   run of the implementation is over (loop drained): no give-back may be left scheduled in the
   model and the final levels must agree; 0 = all fine *)
Fixpoint replay (s : state) (n : nat) (evs : list event) (final : list levels) : nat :=
  match evs with
  | [] => match gbq s with
          | [] => if proj_eqb (nkeys s) (pools s) final then O else S n
          | _ => S n
          end
  | (o, r, p) :: rest =>
      let (s', r') := step s o in
      if out_eqb r r' && proj_eqb (nkeys s) (pools s') p then replay s' (S n) rest final else S n
  end.

(* a case: number of keys, Capacities?, initial levels, logged sections, final levels *)
Definition bcase := (nat * bool * levels * list event * list levels)%type.

Fixpoint bad_idx (n : nat) (l : list bcase) : list nat :=
  match l with
  | [] => []
  | (nk, c, lv, evs, fin) :: rest =>
      match replay (init nk (if c then Some lv else None) lv) O evs fin with
      | O => bad_idx (S n) rest
      | k => n :: k :: bad_idx (S n) rest
      end
  end.
