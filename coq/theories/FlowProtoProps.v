(** FlowProtoProps: theorems about the discrete-event model of first()/collect() (FlowProto.v), for all inputs:
    any number of activities, any non-negative delays, any count, any think times. *)
From Coq Require Import ZArith List Bool Lia Sorting.Sorted Sorting.Permutation.
From Usim Require Import FlowProto.
Import ListNotations.
Open Scope Z_scope.

(** * Specification side: the order in which activities finish *)

(** stable insertion: behind every entry with the same or an earlier time *)
Fixpoint ins (t : Z) (i : nat) (l : list (Z * nat)) : list (Z * nat) :=
  match l with
  | [] => [(t, i)]
  | (t', i') :: r => if t' <=? t then (t', i') :: ins t i r else (t, i) :: l
  end.

Fixpoint order_from (i : nat) (t0 : Z) (acts : list activity) (l : list (Z * nat)) : list (Z * nat) :=
  match acts with
  | [] => l
  | (d, _) :: r => order_from (S i) t0 r (ins (t0 + d) i l)
  end.

(** [(finish time, index)] of all activities, stably sorted by finish time (insertion sort in argument order) *)
Definition finish_order (t0 : Z) (acts : list activity) : list (Z * nat) := order_from 0 t0 acts [].

Definition delay_of (acts : list activity) (i : nat) : Z := fst (nth i acts (0, Val 0)).
Definition out_of (acts : list activity) (i : nat) : outcome := snd (nth i acts (0, Val 0)).
Definition ftime (t0 : Z) (acts : list activity) (i : nat) : Z := t0 + delay_of acts i.

(** lexicographic order on (time, index): ties are broken by the argument index *)
Definition lexlt (p q : Z * nat) : Prop := fst p < fst q \/ (fst p = fst q /\ (snd p < snd q)%nat).

Definition tsorted (l : list (Z * nat)) := StronglySorted (fun a b => fst a <= fst b) l.

Lemma ins_In t i l x : In x (ins t i l) <-> x = (t, i) \/ In x l.
Proof.
  induction l as [|[t' i'] r IH]; simpl.
  - intuition.
  - destruct (t' <=? t); simpl; rewrite ?IH; intuition.
Qed.

Lemma ins_perm t i l : Permutation (ins t i l) ((t, i) :: l).
Proof.
  induction l as [|[t' i'] r IH]; simpl; auto.
  destruct (t' <=? t); auto.
  eapply perm_trans; [apply perm_skip, IH | apply perm_swap].
Qed.

Lemma ins_tsorted t i l : tsorted l -> tsorted (ins t i l).
Proof.
  unfold tsorted. induction l as [|[t' i'] r IH]; simpl; intros H.
  - constructor; constructor.
  - inversion H as [|? ? Hr Hall]; subst. destruct (t' <=? t) eqn:E.
    + constructor; auto. rewrite Forall_forall in *. intros x Hx. apply ins_In in Hx. destruct Hx as [->|Hx].
      * simpl. apply Z.leb_le in E. exact E.
      * auto.
    + constructor; auto. apply Z.leb_gt in E. constructor; simpl; [lia|].
      rewrite Forall_forall in *. intros x Hx. specialize (Hall x Hx). simpl in *. lia.
Qed.

Lemma ins_lexsorted t i l :
  StronglySorted lexlt l -> (forall p, In p l -> (snd p < i)%nat) -> StronglySorted lexlt (ins t i l).
Proof.
  induction l as [|[t' i'] r IH]; simpl; intros H Hi.
  - constructor; constructor.
  - inversion H as [|? ? Hr Hall]; subst. destruct (t' <=? t) eqn:E.
    + constructor; [apply IH; auto|]. rewrite Forall_forall in *. intros x Hx. apply ins_In in Hx.
      destruct Hx as [->|Hx]; auto. apply Z.leb_le in E. unfold lexlt; simpl.
      specialize (Hi (t', i') (or_introl eq_refl)). simpl in Hi. lia.
    + apply Z.leb_gt in E. constructor; auto. constructor; [left; simpl; lia|].
      rewrite Forall_forall in *. intros x Hx. specialize (Hall x Hx). unfold lexlt in *; simpl in *. lia.
Qed.

Lemma order_from_perm acts : forall i t0 l,
  Permutation (order_from i t0 acts l)
              (l ++ map (fun j => (t0 + delay_of acts (j - i), j)) (seq i (length acts))).
Proof.
  induction acts as [|[d o] r IH]; intros i t0 l; simpl.
  - rewrite app_nil_r. auto.
  - eapply perm_trans; [apply IH|].
    replace (i - i)%nat with 0%nat by lia. unfold delay_of at 2. simpl.
    eapply perm_trans; [apply Permutation_app_tail, ins_perm|]. simpl.
    eapply perm_trans; [|apply Permutation_middle]. apply perm_skip. apply Permutation_app_head.
    apply Permutation_refl'. apply map_ext_in. intros j Hj. apply in_seq in Hj.
    unfold delay_of. replace (j - i)%nat with (S (j - S i)) by lia. reflexivity.
Qed.

Lemma finish_order_perm t0 acts :
  Permutation (finish_order t0 acts) (map (fun j => (ftime t0 acts j, j)) (seq 0 (length acts))).
Proof.
  unfold finish_order. eapply perm_trans; [apply order_from_perm|]. simpl.
  apply Permutation_refl'. apply map_ext. intros j. unfold ftime. replace (j - 0)%nat with j by lia. reflexivity.
Qed.

Lemma order_from_tsorted acts : forall i t0 l, tsorted l -> tsorted (order_from i t0 acts l).
Proof. induction acts as [|[d o] r IH]; intros; simpl; auto. apply IH, ins_tsorted; auto. Qed.

Lemma order_from_lexsorted acts : forall i t0 l,
  StronglySorted lexlt l -> (forall p, In p l -> (snd p < i)%nat) -> StronglySorted lexlt (order_from i t0 acts l).
Proof.
  induction acts as [|[d o] r IH]; intros i t0 l H Hi; simpl; auto.
  apply IH; [apply ins_lexsorted; auto|]. intros p Hp. apply ins_In in Hp. destruct Hp as [->|Hp]; simpl; auto.
  specialize (Hi p Hp). lia.
Qed.

(** the finish order is THE arrangement of [(finish time, index)] that is strictly increasing in
    (time, then index): sorted by finish time, equal times in argument order *)
Lemma finish_order_sorted t0 acts : StronglySorted lexlt (finish_order t0 acts).
Proof. apply order_from_lexsorted; [constructor | intros p []]. Qed.

(** the specification of [finish_order]: a rearrangement of [(finish time, index)] for all indices that is strictly
    increasing in (time, then index); there is only one such list *)
Lemma finish_order_spec t0 acts :
  StronglySorted lexlt (finish_order t0 acts) /\
  Permutation (finish_order t0 acts) (map (fun j => (ftime t0 acts j, j)) (seq 0 (length acts))).
Proof. split; [apply finish_order_sorted | apply finish_order_perm]. Qed.

Lemma finish_order_tsorted t0 acts : tsorted (finish_order t0 acts).
Proof. apply order_from_tsorted. constructor. Qed.

Lemma finish_order_In t0 acts p :
  In p (finish_order t0 acts) <-> ((snd p < length acts)%nat /\ fst p = ftime t0 acts (snd p)).
Proof.
  split.
  - intros H. eapply Permutation_in in H; [|apply finish_order_perm]. apply in_map_iff in H.
    destruct H as (j & <- & Hj). apply in_seq in Hj. simpl. split; [lia | reflexivity].
  - intros [H1 H2]. eapply Permutation_in; [apply Permutation_sym, finish_order_perm|].
    apply in_map_iff. exists (snd p). split; [destruct p; simpl in *; congruence | apply in_seq; lia].
Qed.

Lemma finish_order_idx_perm t0 acts : Permutation (map snd (finish_order t0 acts)) (seq 0 (length acts)).
Proof.
  eapply perm_trans; [apply Permutation_map, finish_order_perm|]. rewrite map_map. simpl. rewrite map_id. auto.
Qed.

Lemma finish_order_nodup t0 acts : NoDup (map snd (finish_order t0 acts)).
Proof. eapply Permutation_NoDup; [apply Permutation_sym, finish_order_idx_perm | apply seq_NoDup]. Qed.

Lemma finish_order_length t0 acts : length (finish_order t0 acts) = length acts.
Proof.
  rewrite <- (map_length snd). rewrite (Permutation_length (finish_order_idx_perm t0 acts)). apply seq_length.
Qed.

(** entries of a given time, in the finish order = in argument order *)
Fixpoint at_time_from (i : nat) (t0 S : Z) (acts : list activity) : list (Z * nat) :=
  match acts with
  | [] => []
  | (d, _) :: r => if t0 + d =? S then (S, i) :: at_time_from (Datatypes.S i) t0 S r else at_time_from (Datatypes.S i) t0 S r
  end.

Definition time_is (S : Z) (p : Z * nat) : bool := fst p =? S.

Lemma filter_ins_eq S i l : tsorted l -> filter (time_is S) (ins S i l) = filter (time_is S) l ++ [(S, i)].
Proof.
  unfold tsorted. induction l as [|[t' i'] r IH]; simpl; intros H.
  - unfold time_is; simpl. rewrite Z.eqb_refl. reflexivity.
  - inversion H as [|? ? Hr Hall]; subst. destruct (t' <=? S) eqn:E; simpl.
    + rewrite IH by auto. destruct (time_is S (t', i')); reflexivity.
    + apply Z.leb_gt in E. unfold time_is at 1; simpl. rewrite Z.eqb_refl.
      assert (Hn : filter (time_is S) ((t', i') :: r) = []).
      { assert (HF : Forall (fun x => time_is S x = false) ((t', i') :: r)).
        { constructor; [unfold time_is; simpl; apply Z.eqb_neq; lia|].
          rewrite Forall_forall in *. intros x Hx. specialize (Hall x Hx). unfold time_is. simpl in *.
          apply Z.eqb_neq. lia. }
        clear - HF. induction HF as [|x l Hx _ IHl]; simpl; auto. rewrite Hx. exact IHl. }
      simpl in Hn. rewrite Hn. reflexivity.
Qed.

Lemma filter_ins_neq S t i l : t <> S -> filter (time_is S) (ins t i l) = filter (time_is S) l.
Proof.
  intros Hne. induction l as [|[t' i'] r IH]; simpl.
  - unfold time_is; simpl. destruct (t =? S) eqn:E; auto. apply Z.eqb_eq in E. contradiction.
  - destruct (t' <=? t); simpl; rewrite ?IH; auto.
    unfold time_is at 1; simpl. destruct (t =? S) eqn:E; auto. apply Z.eqb_eq in E. contradiction.
Qed.

Lemma filter_order_from S acts : forall i t0 l, tsorted l ->
  filter (time_is S) (order_from i t0 acts l) = filter (time_is S) l ++ at_time_from i t0 S acts.
Proof.
  induction acts as [|[d o] r IH]; intros i t0 l Hl; simpl.
  - rewrite app_nil_r. reflexivity.
  - rewrite IH by (apply ins_tsorted; auto). destruct (t0 + d =? S) eqn:E.
    + apply Z.eqb_eq in E. rewrite E. rewrite filter_ins_eq by auto. rewrite <- app_assoc. reflexivity.
    + apply Z.eqb_neq in E. rewrite filter_ins_neq by auto. reflexivity.
Qed.

Lemma filter_finish_order S t0 acts : filter (time_is S) (finish_order t0 acts) = at_time_from 0 t0 S acts.
Proof. unfold finish_order. rewrite filter_order_from by constructor. reflexivity. Qed.

(** * The agenda *)

Definition is_actb (a : agent) : bool := match a with AAct _ => true | _ => false end.
Definition is_consb (a : agent) : bool := match a with ACons => true | _ => false end.
Definition gsorted (g : agenda) := StronglySorted (fun a b : Z * agent => fst a <= fst b) g.

(** the wake-ups of activities that are still in the agenda, in agenda order *)
Fixpoint pend (g : agenda) : list (Z * nat) :=
  match g with
  | [] => []
  | (t, AAct i) :: r => (t, i) :: pend r
  | _ :: r => pend r
  end.

Fixpoint ncons (g : agenda) : nat :=
  match g with
  | [] => 0
  | (_, a) :: r => (if is_consb a then 1 else 0) + ncons r
  end.

(** no wake-up of an activity is queued behind an activation of the caller that is due at the same time or later *)
Fixpoint ofirst (g : agenda) : Prop :=
  match g with
  | [] => True
  | (t, a) :: r => (is_actb a = false -> Forall (fun x => is_actb (snd x) = true -> t < fst x) r) /\ ofirst r
  end.

Lemma push_In t a g x : In x (push t a g) <-> x = (t, a) \/ In x g.
Proof.
  induction g as [|[t' a'] r IH]; simpl.
  - intuition.
  - destruct (t' <=? t); simpl; rewrite ?IH; intuition.
Qed.

Lemma gsorted_tail e g : gsorted (e :: g) -> gsorted g.
Proof. intros H. inversion H; auto. Qed.

Lemma gsorted_head e g x : gsorted (e :: g) -> In x g -> fst e <= fst x.
Proof. intros H Hx. inversion H as [|? ? _ Hall]; subst. rewrite Forall_forall in Hall. auto. Qed.

Lemma push_gsorted t a g : gsorted g -> gsorted (push t a g).
Proof.
  unfold gsorted. induction g as [|[t' a'] r IH]; simpl; intros H.
  - constructor; constructor.
  - inversion H as [|? ? Hr Hall]; subst. destruct (t' <=? t) eqn:E.
    + constructor; auto. rewrite Forall_forall in *. intros x Hx. apply push_In in Hx. destruct Hx as [->|Hx]; auto.
      simpl. apply Z.leb_le in E. exact E.
    + constructor; auto. apply Z.leb_gt in E. constructor; simpl; [lia|].
      rewrite Forall_forall in *. intros x Hx. specialize (Hall x Hx). simpl in *. lia.
Qed.

Lemma push_lb m t a g : Forall (fun e => m <= fst e) g -> m <= t -> Forall (fun e => m <= fst e) (push t a g).
Proof.
  intros H Ht. rewrite Forall_forall in *. intros x Hx. apply push_In in Hx. destruct Hx as [->|Hx]; auto.
Qed.

Lemma pend_In g t i : In (t, i) (pend g) <-> In (t, AAct i) g.
Proof.
  induction g as [|[t' a'] r IH]; simpl; [tauto|].
  destruct a'; simpl; rewrite IH; split; intros H; try tauto.
  - destruct H as [H|H]; [inversion H; auto | auto].
  - destruct H as [H|H]; [inversion H; auto | auto].
  - destruct H as [H|H]; [discriminate | auto].
  - destruct H as [H|H]; [discriminate | auto].
Qed.

Lemma pend_push_other t a g : is_actb a = false -> pend (push t a g) = pend g.
Proof.
  intros Ha. induction g as [|[t' a'] r IH]; simpl.
  - destruct a; simpl in *; congruence.
  - destruct (t' <=? t); simpl.
    + destruct a'; rewrite IH; reflexivity.
    + destruct a; simpl in *; congruence.
Qed.

Lemma ins_head t i l : (forall p, In p l -> t < fst p) -> ins t i l = (t, i) :: l.
Proof.
  destruct l as [|[t' i'] r]; simpl; auto. intros H. specialize (H (t', i') (or_introl eq_refl)). simpl in H.
  destruct (t' <=? t) eqn:E; auto. apply Z.leb_le in E. lia.
Qed.

Lemma pend_push_act t i g : gsorted g -> pend (push t (AAct i) g) = ins t i (pend g).
Proof.
  induction g as [|[t' a'] r IH]; simpl; intros H; auto.
  destruct (t' <=? t) eqn:E; simpl.
  - rewrite IH by (eapply gsorted_tail; eauto). destruct a'; simpl; auto. rewrite E. reflexivity.
  - apply Z.leb_gt in E. symmetry. apply ins_head. intros [t2 i2] Hp.
    change (In (t2, i2) (pend ((t', a') :: r))) in Hp. apply pend_In in Hp. simpl.
    destruct Hp as [Hp|Hp]; [inversion Hp; subst; lia|]. pose proof (gsorted_head _ _ _ H Hp). simpl in *. lia.
Qed.

Lemma ncons_push t a g : ncons (push t a g) = ((if is_consb a then 1 else 0) + ncons g)%nat.
Proof.
  induction g as [|[t' a'] r IH]; simpl; auto. destruct (t' <=? t); simpl; auto. rewrite IH. lia.
Qed.

Lemma ncons_zero_notin g t : ncons g = 0%nat -> ~ In (t, ACons) g.
Proof.
  induction g as [|[t' a'] r IH]; simpl; intros H; [tauto|]. destruct a'; simpl in *; try lia.
  - intros [X|X]; [discriminate | apply IH; auto].
  - intros [X|X]; [discriminate | apply IH; auto].
Qed.

Lemma ofirst_tail e g : ofirst (e :: g) -> ofirst g.
Proof. destruct e. simpl. tauto. Qed.

Lemma ofirst_all_act g : Forall (fun x => is_actb (snd x) = true) g -> ofirst g.
Proof.
  induction g as [|[t a] r IH]; simpl; auto. intros H. inversion H; subst. simpl in *. split; auto.
  intros X. congruence.
Qed.

Lemma ofirst_push t a g : gsorted g -> ofirst g -> is_actb a = false -> ofirst (push t a g).
Proof.
  intros Hs Ho Ha. induction g as [|[t' a'] r IH]; simpl.
  - split; auto.
  - simpl in Ho. destruct Ho as [Ho1 Ho2]. destruct (t' <=? t) eqn:E; simpl.
    + split; [|apply IH; auto; eapply gsorted_tail; eauto].
      intros Ha'. specialize (Ho1 Ha'). rewrite Forall_forall in *. intros x Hx. apply push_In in Hx.
      destruct Hx as [->|Hx]; auto. simpl. congruence.
    + apply Z.leb_gt in E. split; [|split; auto]. intros _. constructor.
      * simpl. lia.
      * rewrite Forall_forall. intros x Hx _. pose proof (gsorted_head _ _ _ Hs Hx). simpl in *. lia.
Qed.

(** spawning *)
Definition nonneg (acts : list activity) := Forall (fun a : activity => 0 <= fst a) acts.

Lemma spawn_pend acts : forall i t0 g, gsorted g -> pend (spawn_from i t0 acts g) = order_from i t0 acts (pend g).
Proof.
  induction acts as [|[d o] r IH]; intros i t0 g Hg; simpl; auto.
  rewrite IH by (apply push_gsorted; auto). rewrite pend_push_act by auto. reflexivity.
Qed.

Lemma spawn_gsorted acts : forall i t0 g, gsorted g -> gsorted (spawn_from i t0 acts g).
Proof. induction acts as [|[d o] r IH]; intros; simpl; auto. apply IH, push_gsorted; auto. Qed.

Lemma spawn_lb acts : forall i t0 g, nonneg acts ->
  Forall (fun e => t0 <= fst e) g -> Forall (fun e => t0 <= fst e) (spawn_from i t0 acts g).
Proof.
  induction acts as [|[d o] r IH]; intros i t0 g Hn Hg; simpl; auto. inversion Hn; subst. simpl in *.
  apply IH; auto. apply push_lb; auto. lia.
Qed.

Lemma spawn_ncons acts : forall i t0 g, ncons (spawn_from i t0 acts g) = ncons g.
Proof. induction acts as [|[d o] r IH]; intros; simpl; auto. rewrite IH, ncons_push. reflexivity. Qed.

Lemma spawn_base acts : forall i t0 a g, nonneg acts ->
  spawn_from i t0 acts ((t0, a) :: g) = (t0, a) :: spawn_from i t0 acts g.
Proof.
  induction acts as [|[d o] r IH]; intros i t0 a g Hn; simpl; auto. inversion Hn; subst. simpl in *.
  assert (E : (t0 <=? t0 + d) = true) by (apply Z.leb_le; lia). rewrite E. apply IH; auto.
Qed.

Lemma spawn_all_act acts : forall i t0 g,
  Forall (fun x : Z * agent => is_actb (snd x) = true) g ->
  Forall (fun x : Z * agent => is_actb (snd x) = true) (spawn_from i t0 acts g).
Proof.
  induction acts as [|[d o] r IH]; intros i t0 g Hg; simpl; auto. apply IH.
  rewrite Forall_forall in *. intros x Hx. apply push_In in Hx. destruct Hx as [->|Hx]; auto.
Qed.

Lemma spawn_cancel acts : forall i t0 g t, In (t, ACancel) (spawn_from i t0 acts g) -> In (t, ACancel) g.
Proof.
  induction acts as [|[d o] r IH]; intros i t0 g t H; simpl in *; auto. apply IH in H. apply push_In in H.
  destruct H as [H|H]; [discriminate | auto].
Qed.

(** * Events *)
Fixpoint fins (l : list event) : list (Z * nat) :=
  match l with [] => [] | EFin t i :: r => (t, i) :: fins r | _ :: r => fins r end.
Fixpoint yields (l : list event) : list (Z * Z) :=
  match l with [] => [] | EYield t v :: r => (t, v) :: yields r | _ :: r => yields r end.

Lemma fins_app a b : fins (a ++ b) = fins a ++ fins b.
Proof. induction a as [|e a IH]; simpl; auto. destruct e; simpl; rewrite IH; auto. Qed.
Lemma yields_app a b : yields (a ++ b) = yields a ++ yields b.
Proof. induction a as [|e a IH]; simpl; auto. destruct e; simpl; rewrite IH; auto. Qed.

Lemma fins_In l t i : In (t, i) (fins l) <-> In (EFin t i) l.
Proof.
  induction l as [|e l IH]; simpl; [tauto|].
  destruct e; simpl; rewrite IH; split; intros H; try tauto;
    try (destruct H as [H|H]; [discriminate | auto]).
  - destruct H as [H|H]; [inversion H; auto | auto].
  - destruct H as [H|H]; [inversion H; auto | auto].
Qed.

Definition ev_time (e : event) : Z :=
  match e with
  | EFin t _ | EAbort t _ | EYield t _ | EReturn t | EResult t _ | ERaise t _ | EValueError t | EEscape t => t
  | EStuck => 0
  end.

Definition body_event (e : event) : Prop := match e with EFin _ _ | EYield _ _ => True | _ => False end.

(** outcomes *)
Definition is_valb (o : option outcome) : bool := match o with Some (Val _) => true | _ => false end.
Definition is_failb (o : option outcome) : bool := match o with Some (Fail _) => true | _ => false end.
Definition succ_of (c : cfg) (l : list (Z * nat)) : list (Z * nat) :=
  filter (fun p => is_valb (outcome_of c (snd p))) l.
Definition val_of (c : cfg) (p : Z * nat) : Z := match outcome_of c (snd p) with Some (Val v) => v | _ => 0 end.
Fixpoint fail_codes (c : cfg) (l : list (Z * nat)) : list Z :=
  match l with
  | [] => []
  | p :: r => match outcome_of c (snd p) with Some (Fail e) => e :: fail_codes c r | _ => fail_codes c r end
  end.

Lemma fail_codes_app c a b : fail_codes c (a ++ b) = fail_codes c a ++ fail_codes c b.
Proof. induction a as [|p a IH]; simpl; auto. destruct (outcome_of c (snd p)) as [[|]|]; simpl; rewrite ?IH; auto. Qed.

Lemma fail_codes_nil c l : fail_codes c l = [] -> forall p, In p l -> is_failb (outcome_of c (snd p)) = false.
Proof.
  induction l as [|q l IH]; simpl; intros H p Hp; [tauto|].
  destruct (outcome_of c (snd q)) as [[v|e]|] eqn:E; try discriminate;
    (destruct Hp as [->|Hp]; [rewrite E; reflexivity | auto]).
Qed.

Lemma fail_codes_filter c P l :
  (forall p, In p l -> is_failb (outcome_of c (snd p)) = true -> P p = true) ->
  fail_codes c (filter P l) = fail_codes c l.
Proof.
  induction l as [|q l IH]; simpl; intros H; auto.
  destruct (P q) eqn:EP; simpl.
  - destruct (outcome_of c (snd q)) as [[|]|]; rewrite IH; auto.
  - destruct (outcome_of c (snd q)) as [[v|e]|] eqn:E; try (apply IH; auto).
    exfalso. specialize (H q (or_introl eq_refl)). rewrite E in H. simpl in H. specialize (H eq_refl). congruence.
Qed.

Lemma succ_of_app c a b : succ_of c (a ++ b) = succ_of c a ++ succ_of c b.
Proof. apply filter_app. Qed.

Lemma succ_of_all c l : (forall p, In p l -> is_valb (outcome_of c (snd p)) = true) -> succ_of c l = l.
Proof.
  induction l as [|q l IH]; simpl; intros H; auto. rewrite (H q (or_introl eq_refl)). f_equal. apply IH. auto.
Qed.

Lemma outcome_of_lt c i : (i < length (c_acts c))%nat -> outcome_of c i = Some (out_of (c_acts c) i).
Proof.
  intros H. unfold outcome_of, out_of. rewrite (nth_error_nth' (c_acts c) ((0, Val 0) : activity) H). reflexivity.
Qed.

(** list helpers *)
Lemma length_set_nth {A} i (x : A) l : length (set_nth i x l) = length l.
Proof. revert i; induction l as [|y l IH]; intros [|i]; simpl; auto. Qed.

Lemma nth_set_nth_eq {A} i (x d : A) l : (i < length l)%nat -> nth i (set_nth i x l) d = x.
Proof. revert i; induction l as [|y l IH]; intros [|i] H; simpl in *; try lia; auto. apply IH. lia. Qed.

Lemma nth_set_nth_neq {A} i j (x d : A) l : i <> j -> nth j (set_nth i x l) d = nth j l d.
Proof. revert i j; induction l as [|y l IH]; intros [|i] [|j] H; simpl; auto; try congruence. Qed.

Lemma prefix_firstn {A} (a b l : list A) : l = a ++ b -> firstn (length a) l = a.
Proof. intros ->. rewrite firstn_app, Nat.sub_diag, firstn_all. simpl. apply app_nil_r. Qed.

Lemma repeat_snoc {A} (x : A) n : repeat x (S n) = repeat x n ++ [x].
Proof. induction n; simpl in *; auto. f_equal. exact IHn. Qed.

(** closing *)
Definition aborts (t : Z) (l : list astate) : list event := snd (close_from 0 t l).

Lemma close_from_In k t l e :
  In e (snd (close_from k t l)) <-> exists j, e = EAbort t (k + j) /\ nth j l SAborted = SSleep.
Proof.
  revert k. induction l as [|s l IH]; intros k; simpl.
  - split; [tauto|]. intros (j & _ & H). destruct j; discriminate.
  - specialize (IH (S k)). destruct (close_from (S k) t l) as [l' e'] eqn:E. simpl in IH.
    assert (Hshift : (exists j, e = EAbort t (S k + j) /\ nth j l SAborted = SSleep) <->
                     (exists j, e = EAbort t (k + S j) /\ nth (S j) (s :: l) SAborted = SSleep)).
    { split; intros (j & H1 & H2); exists j; simpl; (split; [|auto]); rewrite H1; f_equal; lia. }
    destruct s; simpl.
    + rewrite IH. split.
      * intros [<-|(j & H1 & H2)]; [exists 0%nat; rewrite Nat.add_0_r; auto|].
        exists (S j). split; auto. rewrite H1. f_equal. lia.
      * intros ([|j] & H1 & H2); [left; rewrite H1, Nat.add_0_r; auto|]. right. exists j. split; auto.
        rewrite H1. f_equal. lia.
    + rewrite IH. split.
      * intros (j & H1 & H2). exists (S j). split; auto. rewrite H1. f_equal. lia.
      * intros ([|j] & H1 & H2); [discriminate|]. exists j. split; auto. rewrite H1. f_equal. lia.
    + rewrite IH. split.
      * intros (j & H1 & H2). exists (S j). split; auto. rewrite H1. f_equal. lia.
      * intros ([|j] & H1 & H2); [discriminate|]. exists j. split; auto. rewrite H1. f_equal. lia.
Qed.

Lemma aborts_In t l e : In e (aborts t l) <-> exists j, e = EAbort t j /\ nth j l SAborted = SSleep.
Proof. unfold aborts. rewrite close_from_In. simpl. tauto. Qed.

Lemma first_sleep_from_Some k l j :
  first_sleep_from k l = Some j -> exists j', j = (k + j')%nat /\ nth j' l SAborted = SSleep.
Proof.
  revert k. induction l as [|s l IH]; intros k; simpl; [discriminate|].
  destruct s; intros H.
  - inversion H; subst. exists 0%nat. split; [lia | reflexivity].
  - apply IH in H. destruct H as (j' & -> & H). exists (S j'). split; [lia | exact H].
  - apply IH in H. destruct H as (j' & -> & H). exists (S j'). split; [lia | exact H].
Qed.

Lemma first_sleep_from_None k l : first_sleep_from k l = None -> forall j, nth j l SAborted <> SSleep.
Proof.
  revert k. induction l as [|s l IH]; intros k H j; simpl in *.
  - destruct j; discriminate.
  - destruct s; try discriminate; destruct j; simpl; try discriminate; eapply IH; eauto.
Qed.

Lemma fins_aborts t l : fins (aborts t l) = [].
Proof.
  unfold aborts. generalize 0%nat. induction l as [|s l IH]; intros k; simpl; auto.
  specialize (IH (S k)). destruct (close_from (S k) t l) as [l' e']. destruct s; simpl in *; auto.
Qed.

Lemma yields_aborts t l : yields (aborts t l) = [].
Proof.
  unfold aborts. generalize 0%nat. induction l as [|s l IH]; intros k; simpl; auto.
  specialize (IH (S k)). destruct (close_from (S k) t l) as [l' e']. destruct s; simpl in *; auto.
Qed.

(** * Termination: every step decreases [measure] *)

Lemma weight_push t a g :
  list_sum (map weight (push t a g)) = (weight (t, a) + list_sum (map weight g))%nat.
Proof.
  induction g as [|[t' a'] r IH]; simpl; auto. destruct (t' <=? t); simpl; auto. rewrite IH. lia.
Qed.

Lemma resume_measure c t rest g b x g' :
  resume c t rest g b = (x, g') ->
  (list_sum (map weight g') <= 1 + list_sum (map weight rest))%nat /\ x <> CBusy.
Proof.
  unfold resume. destruct (Nat.eqb g (c_k c)).
  - intros H; inversion H; subst. rewrite weight_push. simpl. split; [lia | discriminate].
  - destruct b; intros H; inversion H; subst.
    + split; [lia | discriminate].
    + rewrite weight_push. simpl. split; [lia | discriminate].
Qed.

Lemma finish_measure s t rest fe : measure (finish s t rest fe) = (list_sum (map weight rest) + 2 * length (buf s))%nat.
Proof. unfold finish. destruct (close_from 0 t (ast s)). unfold measure. simpl. lia. Qed.

Lemma step_measure c s s' : step c s = Some s' -> (measure s' < measure s)%nat.
Proof.
  unfold step. destruct (ag s) as [|[t a] rest] eqn:Eg; [destruct (cs s); discriminate|].
  assert (Hm : measure s = (weight (t, a) + list_sum (map weight rest) + 2 * length (buf s)
                            + match cs s with CBusy => 1 | _ => 0 end)%nat).
  { unfold measure. rewrite Eg. simpl. lia. }
  intros H.
  assert (H' : cs s <> CDone /\ Some s' = Some (match a with
                                | AAct i => act_turn c s t rest i
                                | ACons => cons_turn c s t rest
                                | ACancel => cancel_turn s t rest end)).
  { destruct (cs s); try discriminate; destruct a; split; congruence. }
  clear H. destruct H' as [Hnd H]. inversion H; subst s'; clear H. rewrite Hm. clear Hm.
  destruct a as [i| |]; simpl weight.
  - (* activity *)
    unfold act_turn. destruct (nth i (ast s) SAborted); try (unfold skip, measure; simpl; lia).
    destruct (outcome_of c i) as [[v|e]|]; try (unfold skip, measure; simpl; lia).
    + unfold measure; simpl.
      destruct (c_mode c); simpl.
      * destruct (cs s); simpl; rewrite ?weight_push, ?app_length; simpl; lia.
      * destruct (is_on (cs s) i); rewrite ?weight_push; simpl; destruct (cs s); simpl; lia.
    + unfold measure; simpl.
      destruct (c_mode c); simpl.
      * rewrite ?weight_push; simpl; destruct (cs s); simpl; lia.
      * destruct (is_on (cs s) i); rewrite ?weight_push; simpl; destruct (cs s); simpl; lia.
  - (* caller *)
    unfold cons_turn. destruct (cs s) eqn:Ec; try (unfold skip, measure; simpl; rewrite Ec; lia).
    + destruct (buf s) as [|v b] eqn:Eb; [unfold skip, measure; simpl; rewrite Ec, Eb; simpl; lia|].
      destruct (0 <? nth (got s) (c_thinks c) 0).
      * unfold measure; simpl. rewrite weight_push. simpl. lia.
      * destruct (resume c t rest (S (got s)) b) as [x g'] eqn:Er. apply resume_measure in Er.
        destruct Er as [Er1 Er2]. unfold measure; simpl. destruct x; try congruence; lia.
    + destruct (resume c t rest (got s) (buf s)) as [x g'] eqn:Er. apply resume_measure in Er.
      destruct Er as [Er1 Er2]. unfold measure; simpl. destruct x; try congruence; lia.
    + rewrite finish_measure. simpl. lia.
    + destruct (first_sleep_from 0 (ast s)); [unfold measure; simpl; lia | rewrite finish_measure; simpl; lia].
  - (* cancel *)
    unfold cancel_turn. destruct (cs s); rewrite finish_measure; simpl; lia.
Qed.

Lemma run_halts c : forall fuel s, (measure s <= fuel)%nat -> step c (run c fuel s) = None.
Proof.
  induction fuel as [|f IH]; intros s H; simpl.
  - destruct (step c s) eqn:E; auto. apply step_measure in E. lia.
  - destruct (step c s) eqn:E; auto. apply IH. apply step_measure in E. lia.
Qed.

(** * Invariants of the run *)

Definition nacts (c : cfg) : nat := length (c_acts c).
Definition FO (c : cfg) : list (Z * nat) := finish_order (c_t0 c) (c_acts c).
(** the consumer never suspends in its own loop body *)
Definition prompt (c : cfg) : Prop := forall j, nth j (c_thinks c) 0 <= 0.
Definition valid (c : cfg) : Prop := nonneg (c_acts c) /\ (c_k c <= nacts c)%nat.

Definition first_turn (c : cfg) (s : state) : Prop :=
  ev s = [] /\ exists rest, ag s = (c_t0 c, ACons) :: rest /\ Forall (fun x : Z * agent => is_actb (snd x) = true) rest.

Record InvA (c : cfg) (s : state) : Prop := {
  A_len : length (ast s) = nacts c;
  A_sorted : gsorted (ag s);
  A_now : Forall (fun e => now s <= fst e) (ag s);
  A_order : fins (ev s) ++ pend (ag s) = FO c;
  A_sleep : forall t i, In (t, i) (pend (ag s)) -> nth i (ast s) SAborted = SSleep;
  A_done : forall t i, In (t, i) (fins (ev s)) ->
           exists o, outcome_of c i = Some o /\ nth i (ast s) SAborted = SDone o;
  A_body : Forall body_event (ev s);
  A_past : Forall (fun e => ev_time e <= now s) (ev s);
  A_O : ofirst (ag s) \/ first_turn c s
}.

Record InvF (c : cfg) (s : state) : Prop := {
  F_fails : fails s = fail_codes c (fins (ev s));
  F_now : forall p, In p (fins (ev s)) -> is_failb (outcome_of c (snd p)) = true -> fst p = now s;
  F_cancel : fails s <> [] -> In (now s, ACancel) (ag s);
  F_cancel2 : forall t, In (t, ACancel) (ag s) -> t = now s /\ fails s <> []
}.

Record InvC (c : cfg) (s : state) : Prop := {
  C_ncons : ncons (ag s) = match cs s with CWait | COn _ => 0%nat | _ => 1%nat end;
  C_got : got s = length (yields (ev s));
  C_k : (got s <= c_k c)%nat;
  C_mode : match c_mode c with
           | MFirst =>
               map (val_of c) (succ_of c (fins (ev s))) = map snd (yields (ev s)) ++ buf s /\
               match cs s with
               | CWait => buf s = [] /\ (got s < c_k c)%nat
               | CTake => buf s <> [] /\ (got s < c_k c)%nat
               | CBusy => True
               | CExit => got s = c_k c
               | _ => False
               end /\
               (prompt c -> cs s <> CBusy /\
                  map fst (succ_of c (fins (ev s))) = map fst (yields (ev s)) ++ repeat (now s) (length (buf s)))
           | MCollect =>
               buf s = [] /\ got s = 0%nat /\
               match cs s with
               | CRun => True
               | COn j => nth j (ast s) SAborted = SSleep
               | _ => False
               end
           end;
  C_ytime : forall j y p, nth_error (yields (ev s)) j = Some y ->
                          nth_error (succ_of c (fins (ev s))) j = Some p -> fst p <= fst y;
  C_cp : (c_mode c = MCollect \/ prompt c) ->
         (forall t, In (t, ACons) (ag s) -> t = now s) /\
         (now s = c_t0 c \/ exists p, In p (fins (ev s)) /\ fst p = now s)
}.

Definition Inv (c : cfg) (s : state) : Prop := InvA c s /\ InvF c s /\ InvC c s.

(** ** the initial state *)
Lemma nth_repeat_lt {A} (x d : A) n i : (i < n)%nat -> nth i (repeat x n) d = x.
Proof. revert i; induction n; intros [|i] H; simpl; try lia; auto. apply IHn. lia. Qed.

Lemma spawn_cons_in acts : forall i t0 g t, In (t, ACons) (spawn_from i t0 acts g) -> In (t, ACons) g.
Proof.
  induction acts as [|[d o] r IH]; intros i t0 g t H; simpl in *; auto. apply IH in H. apply push_In in H.
  destruct H as [H|H]; [discriminate | auto].
Qed.

Lemma FO_In c t i : In (t, i) (FO c) -> (i < nacts c)%nat /\ t = ftime (c_t0 c) (c_acts c) i.
Proof. intros H. apply finish_order_In in H. exact H. Qed.

Lemma init_inv c : valid c -> Inv c (init c).
Proof.
  intros [Hnn Hk].
  set (own := match c_mode c, c_k c with MFirst, S _ => false | _, _ => true end).
  set (base := if own then [(c_t0 c, ACons)] else [] : agenda).
  assert (Hbs : gsorted base) by (unfold base; destruct own; repeat constructor).
  assert (Hbl : Forall (fun e : Z * agent => c_t0 c <= fst e) base)
    by (unfold base; destruct own; repeat constructor; simpl; lia).
  assert (Hbp : pend base = []) by (unfold base; destruct own; reflexivity).
  assert (Hag : ag (init c) = spawn_from 0 (c_t0 c) (c_acts c) base) by reflexivity.
  split; [|split].
  - constructor; rewrite ?Hag; simpl.
    + apply repeat_length.
    + apply spawn_gsorted; auto.
    + apply spawn_lb; auto.
    + rewrite spawn_pend by auto. rewrite Hbp. reflexivity.
    + intros t i H. rewrite spawn_pend, Hbp in H by auto. apply FO_In in H. apply nth_repeat_lt. tauto.
    + intros t i [].
    + constructor.
    + constructor.
    + unfold base. destruct own.
      * right. split; [reflexivity|]. exists (spawn_from 0 (c_t0 c) (c_acts c) []). split.
        -- rewrite Hag. apply spawn_base; auto.
        -- apply spawn_all_act. constructor.
      * left. apply ofirst_all_act. apply spawn_all_act. constructor.
  - constructor; rewrite ?Hag; simpl.
    + reflexivity.
    + intros p [].
    + congruence.
    + intros t H. apply spawn_cancel in H. unfold base in H. destruct own; simpl in H; [|tauto].
      destruct H as [H|[]]. discriminate.
  - constructor; rewrite ?Hag; simpl.
    + rewrite spawn_ncons. unfold base, own. destruct (c_mode c), (c_k c); reflexivity.
    + reflexivity.
    + lia.
    + destruct (c_mode c).
      * split; [reflexivity|]. split.
        -- destruct (c_k c); [reflexivity | split; [reflexivity | lia]].
        -- intros _. split; [|reflexivity]. destruct (c_k c); discriminate.
      * auto.
    + intros j y p H. destruct j; discriminate.
    + intros _. split; [|left; reflexivity]. intros t H. apply spawn_cons_in in H. unfold base in H.
      destruct own; simpl in H; [|tauto]. destruct H as [H|[]]. inversion H; reflexivity.
Qed.

(** ** generic preservation lemmas *)
Lemma pend_cons_other t a rest : is_actb a = false -> pend ((t, a) :: rest) = pend rest.
Proof. destruct a; simpl; congruence. Qed.

Lemma rest_lb t a rest : gsorted ((t, a) :: rest) -> Forall (fun e : Z * agent => t <= fst e) rest.
Proof. intros H. rewrite Forall_forall. intros x Hx. apply (gsorted_head _ _ _ H Hx). Qed.

Lemma head_now c s t a rest : InvA c s -> ag s = (t, a) :: rest -> now s <= t.
Proof. intros HA Hg. pose proof (A_now _ _ HA) as H. rewrite Hg in H. inversion H; subst. auto. Qed.

Lemma head_time_eq c s t a rest x : InvA c s -> ag s = (t, a) :: rest -> In (now s, x) (ag s) -> t = now s.
Proof.
  intros HA Hg Hin. pose proof (head_now _ _ _ _ _ HA Hg). pose proof (A_sorted _ _ HA) as Hs.
  rewrite Hg in Hs, Hin. destruct Hin as [Hin|Hin]; [inversion Hin; auto|].
  pose proof (gsorted_head _ _ _ Hs Hin). simpl in *. lia.
Qed.

Lemma nodup_split (l1 l2 : list (Z * nat)) t t' i :
  NoDup (map snd (l1 ++ l2)) -> In (t, i) l1 -> In (t', i) l2 -> False.
Proof.
  rewrite map_app. intros H H1 H2. induction l1 as [|p l1 IH]; simpl in *; [tauto|].
  inversion H as [|? ? Hn Hr]; subst. destruct H1 as [->|H1]; [|auto].
  apply Hn. apply in_or_app. right. simpl. change i with (snd (t', i)). apply in_map. auto.
Qed.

Lemma nodup_mid (l1 l2 : list (Z * nat)) t t' i :
  NoDup (map snd (l1 ++ (t, i) :: l2)) -> ~ In (t', i) l1 /\ ~ In (t', i) l2.
Proof.
  intros H. split; intros X.
  - eapply nodup_split; [exact H | exact X | left; reflexivity].
  - rewrite map_app in H. simpl in H. apply NoDup_remove_2 in H. apply H. apply in_or_app. right.
    change i with (snd (t', i)). apply in_map. auto.
Qed.

Lemma FO_nodup c : NoDup (map snd (FO c)).
Proof. apply finish_order_nodup. Qed.

Lemma actA c s t i rest o g' b' x' n' f' :
  InvA c s -> ag s = (t, AAct i) :: rest -> outcome_of c i = Some o ->
  gsorted g' -> Forall (fun e => t <= fst e) g' -> pend g' = pend rest -> (ofirst rest -> ofirst g') ->
  InvA c {| now := t; ag := g'; ast := set_nth i (SDone o) (ast s); buf := b'; cs := x'; got := n'; fails := f';
            ev := ev s ++ [EFin t i] |}.
Proof.
  intros HA Hg Ho Hs Hlb Hp HO.
  pose proof (A_order _ _ HA) as Hord. rewrite Hg in Hord. simpl in Hord.
  pose proof (FO_nodup c) as Hnd. rewrite <- Hord in Hnd.
  assert (Hi : (i < nacts c)%nat).
  { assert (X : In (t, i) (FO c)) by (rewrite <- Hord; apply in_or_app; right; left; reflexivity).
    apply FO_In in X. tauto. }
  constructor; simpl.
  - rewrite length_set_nth. apply (A_len _ _ HA).
  - exact Hs.
  - exact Hlb.
  - rewrite fins_app, Hp. simpl. rewrite <- app_assoc. exact Hord.
  - intros t' j Hj. rewrite Hp in Hj. rewrite nth_set_nth_neq.
    + apply (A_sleep _ _ HA t' j). rewrite Hg. simpl. right. exact Hj.
    + intros ->. apply (nodup_mid _ _ _ t' _ Hnd) in Hj. exact Hj.
  - intros t' j Hj. rewrite fins_app in Hj. simpl in Hj. apply in_app_or in Hj. destruct Hj as [Hj|[Hj|[]]].
    + destruct (A_done _ _ HA t' j Hj) as (o' & H1 & H2). exists o'. split; auto.
      rewrite nth_set_nth_neq; auto. intros ->. apply (nodup_mid _ _ _ t' _ Hnd) in Hj. exact Hj.
    + inversion Hj; subst. exists o. split; auto. apply nth_set_nth_eq. rewrite (A_len _ _ HA). exact Hi.
  - apply Forall_app. split; [apply (A_body _ _ HA) | repeat constructor].
  - pose proof (head_now _ _ _ _ _ HA Hg). apply Forall_app. split.
    + eapply Forall_impl; [|apply (A_past _ _ HA)]. simpl. intros. lia.
    + repeat constructor. simpl. lia.
  - left. apply HO. destruct (A_O _ _ HA) as [H|(_ & r & H & _)].
    + rewrite Hg in H. eapply ofirst_tail; eauto.
    + rewrite Hg in H. discriminate.
Qed.

Lemma consA c s t a rest g' b' x' n' f' ys :
  InvA c s -> ag s = (t, a) :: rest -> is_actb a = false ->
  gsorted g' -> Forall (fun e => t <= fst e) g' -> pend g' = pend rest -> (ofirst rest -> ofirst g') ->
  Forall body_event ys -> Forall (fun e => ev_time e <= t) ys -> fins ys = [] ->
  InvA c {| now := t; ag := g'; ast := ast s; buf := b'; cs := x'; got := n'; fails := f'; ev := ev s ++ ys |}.
Proof.
  intros HA Hg Ha Hs Hlb Hp HO Hb Ht Hf.
  pose proof (A_order _ _ HA) as Hord. rewrite Hg, pend_cons_other in Hord by auto.
  constructor; simpl.
  - apply (A_len _ _ HA).
  - exact Hs.
  - exact Hlb.
  - rewrite fins_app, Hf, app_nil_r, Hp. exact Hord.
  - intros t' j Hj. rewrite Hp in Hj. apply (A_sleep _ _ HA t' j). rewrite Hg, pend_cons_other by auto. exact Hj.
  - intros t' j Hj. rewrite fins_app, Hf, app_nil_r in Hj. apply (A_done _ _ HA t' j Hj).
  - apply Forall_app. split; [apply (A_body _ _ HA) | exact Hb].
  - pose proof (head_now _ _ _ _ _ HA Hg). apply Forall_app. split; [|exact Ht].
    eapply Forall_impl; [|apply (A_past _ _ HA)]. simpl. intros. lia.
  - left. apply HO. destruct (A_O _ _ HA) as [H|(_ & r & H & Hr)].
    + rewrite Hg in H. eapply ofirst_tail; eauto.
    + rewrite Hg in H. inversion H; subst. apply ofirst_all_act. exact Hr.
Qed.

(** failures *)
Lemma fails_head_now c s t a rest : InvA c s -> InvF c s -> ag s = (t, a) :: rest -> fails s <> [] -> t = now s.
Proof. intros HA HF Hg Hf. eapply head_time_eq; eauto. apply (F_cancel _ _ HF Hf). Qed.

Lemma failing_fails c s p : InvF c s -> In p (fins (ev s)) -> is_failb (outcome_of c (snd p)) = true -> fails s <> [].
Proof.
  intros HF Hp Hfl X. rewrite (F_fails _ _ HF) in X. pose proof (fail_codes_nil _ _ X p Hp). congruence.
Qed.

(** the step keeps the failure list: what finished (if anything) succeeded *)
Lemma keepF c s t a rest g' l' b' x' n' ys :
  InvA c s -> InvF c s -> ag s = (t, a) :: rest -> a <> ACancel ->
  (forall t', In (t', ACancel) g' <-> In (t', ACancel) rest) ->
  (forall p, In p (fins ys) -> fst p = t /\ is_failb (outcome_of c (snd p)) = false) ->
  InvF c {| now := t; ag := g'; ast := l'; buf := b'; cs := x'; got := n'; fails := fails s; ev := ev s ++ ys |}.
Proof.
  intros HA HF Hg Ha Hc Hy.
  assert (Hnil : fail_codes c (fins ys) = []).
  { clear - Hy. induction (fins ys) as [|p l IH]; simpl; auto.
    destruct (Hy p (or_introl eq_refl)) as [_ H]. destruct (outcome_of c (snd p)) as [[|]|]; simpl in *; try discriminate;
      apply IH; intros; apply Hy; right; auto. }
  constructor; simpl.
  - rewrite fins_app, fail_codes_app, Hnil, app_nil_r. apply (F_fails _ _ HF).
  - intros p Hp Hfl. rewrite fins_app in Hp. apply in_app_or in Hp. destruct Hp as [Hp|Hp].
    + rewrite (F_now _ _ HF p Hp Hfl). symmetry. eapply fails_head_now; eauto. eapply failing_fails; eauto.
    + destruct (Hy p Hp) as [_ X]. congruence.
  - intros Hf. pose proof (fails_head_now _ _ _ _ _ HA HF Hg Hf) as ->. apply Hc.
    pose proof (F_cancel _ _ HF Hf) as Hin. rewrite Hg in Hin. destruct Hin as [Hin|Hin]; auto.
    inversion Hin; subst. congruence.
  - intros t' Ht'. apply Hc in Ht'. assert (Hin : In (t', ACancel) (ag s)) by (rewrite Hg; right; auto).
    destruct (F_cancel2 _ _ HF t' Hin) as [-> Hf]. split; auto. symmetry. eapply fails_head_now; eauto.
Qed.

(** an activity fails *)
Lemma failF c s t i rest e g' l' b' x' n' :
  InvA c s -> InvF c s -> ag s = (t, AAct i) :: rest -> outcome_of c i = Some (Fail e) ->
  (forall t', In (t', ACancel) g' <-> (t' = t \/ In (t', ACancel) rest)) ->
  InvF c {| now := t; ag := g'; ast := l'; buf := b'; cs := x'; got := n'; fails := fails s ++ [e];
            ev := ev s ++ [EFin t i] |}.
Proof.
  intros HA HF Hg Ho Hc. constructor; simpl.
  - rewrite fins_app, fail_codes_app. simpl. rewrite Ho. rewrite (F_fails _ _ HF). reflexivity.
  - intros p Hp Hfl. rewrite fins_app in Hp. apply in_app_or in Hp. destruct Hp as [Hp|[<-|[]]]; auto.
    rewrite (F_now _ _ HF p Hp Hfl). symmetry. eapply fails_head_now; eauto. eapply failing_fails; eauto.
  - intros _. apply Hc. left. reflexivity.
  - intros t' Ht'. split; [|intros X; apply app_eq_nil in X; destruct X; discriminate].
    apply Hc in Ht'. destruct Ht' as [->|Ht']; auto.
    assert (Hin : In (t', ACancel) (ag s)) by (rewrite Hg; right; auto).
    destruct (F_cancel2 _ _ HF t' Hin) as [-> Hf]. symmetry. eapply fails_head_now; eauto.
Qed.

(** caller side helpers *)
Lemma ncons_pos_In g : (0 < ncons g)%nat -> exists t, In (t, ACons) g.
Proof.
  induction g as [|[t a] r IH]; simpl; [lia|]. destruct a; simpl; intros H.
  - destruct (IH H) as [t' Ht']. eauto.
  - eauto.
  - destruct (IH H) as [t' Ht']. eauto.
Qed.

Lemma cp_head_now c s t a rest :
  InvA c s -> InvC c s -> (c_mode c = MCollect \/ prompt c) -> ag s = (t, a) :: rest ->
  (0 < ncons (ag s))%nat -> t = now s.
Proof.
  intros HA HC Hcp Hg Hn. destruct (ncons_pos_In _ Hn) as [t' Ht'].
  destruct (C_cp _ _ HC Hcp) as [H1 _]. pose proof (H1 t' Ht') as ->. eapply head_time_eq; eauto.
Qed.

Lemma nth_error_snoc {A} (l : list A) x j y :
  nth_error (l ++ [x]) j = Some y -> nth_error l j = Some y \/ (j = length l /\ y = x).
Proof.
  intros H. destruct (Nat.lt_ge_cases j (length l)) as [Hlt|Hge].
  - left. rewrite nth_error_app1 in H; auto.
  - right. rewrite nth_error_app2 in H by lia. destruct (j - length l)%nat as [|m] eqn:E.
    + simpl in H. inversion H. split; [lia | reflexivity].
    + simpl in H. destruct m; discriminate.
Qed.

Lemma succ_In c l p : In p (succ_of c l) -> In p l.
Proof. unfold succ_of. intros H. apply filter_In in H. tauto. Qed.

Lemma fins_past c s p : InvA c s -> In p (fins (ev s)) -> fst p <= now s.
Proof.
  intros HA Hp. destruct p as [t i]. apply fins_In in Hp. pose proof (A_past _ _ HA) as H.
  rewrite Forall_forall in H. apply (H _ Hp).
Qed.

Lemma ys_le_succ c s : InvC c s -> (length (yields (ev s)) <= length (succ_of c (fins (ev s))))%nat.
Proof.
  intros HC. pose proof (C_mode _ _ HC) as Hm. destruct (c_mode c).
  - destruct Hm as [Hm _]. apply (f_equal (@length Z)) in Hm. rewrite app_length, !map_length in Hm. lia.
  - destruct Hm as (_ & Hg & _). rewrite <- (C_got _ _ HC), Hg. lia.
Qed.

Lemma ytime_ext (ys : list (Z * Z)) (l extra : list (Z * nat)) :
  (length ys <= length l)%nat ->
  (forall j y p, nth_error ys j = Some y -> nth_error l j = Some p -> fst p <= fst y) ->
  forall j y p, nth_error ys j = Some y -> nth_error (l ++ extra) j = Some p -> fst p <= fst y.
Proof.
  intros Hl H j y p Hy Hp. assert (Hj : (j < length ys)%nat) by (apply nth_error_Some; congruence).
  rewrite nth_error_app1 in Hp by lia. eauto.
Qed.

Lemma ytime_snoc (ys : list (Z * Z)) (l : list (Z * nat)) t v :
  (forall j y p, nth_error ys j = Some y -> nth_error l j = Some p -> fst p <= fst y) ->
  (forall p, In p l -> fst p <= t) ->
  forall j y p, nth_error (ys ++ [(t, v)]) j = Some y -> nth_error l j = Some p -> fst p <= fst y.
Proof.
  intros H Hl j y p Hy Hp. apply nth_error_snoc in Hy. destruct Hy as [Hy|[_ ->]]; eauto.
  simpl. apply Hl. eapply nth_error_In; eauto.
Qed.

Lemma succ_snoc_val c l p : is_valb (outcome_of c (snd p)) = true -> succ_of c (l ++ [p]) = succ_of c l ++ [p].
Proof. intros H. rewrite succ_of_app. simpl. rewrite H. reflexivity. Qed.

Lemma succ_snoc_other c l p : is_valb (outcome_of c (snd p)) = false -> succ_of c (l ++ [p]) = succ_of c l.
Proof. intros H. rewrite succ_of_app. simpl. rewrite H. apply app_nil_r. Qed.

Lemma mode_first_of_cs c s : InvC c s -> (cs s = CTake \/ cs s = CBusy \/ cs s = CExit \/ cs s = CWait) -> c_mode c = MFirst.
Proof.
  intros HC H. pose proof (C_mode _ _ HC) as Hm. destruct (c_mode c); auto.
  destruct Hm as (_ & _ & Hm). destruct H as [H|[H|[H|H]]]; rewrite H in Hm; contradiction.
Qed.

Lemma mode_collect_of_cs c s : InvC c s -> (cs s = CRun \/ exists j, cs s = COn j) -> c_mode c = MCollect.
Proof.
  intros HC H. pose proof (C_mode _ _ HC) as Hm. destruct (c_mode c); auto.
  destruct Hm as (_ & Hm & _). destruct H as [H|[j H]]; rewrite H in Hm; contradiction.
Qed.

(** with a prompt consumer a non-empty queue means that the consumer has a turn coming in this time step *)
Lemma prompt_buf_now c s t a rest :
  InvA c s -> InvC c s -> c_mode c = MFirst -> prompt c -> buf s <> [] -> ag s = (t, a) :: rest -> t = now s.
Proof.
  intros HA HC Hm Hp Hb Hg. eapply cp_head_now; eauto.
  pose proof (C_mode _ _ HC) as X. rewrite Hm in X. destruct X as (_ & X & Y). destruct (Y Hp) as [Y1 _].
  rewrite (C_ncons _ _ HC). destruct (cs s); try lia; try contradiction; try congruence.
  destruct X. contradiction.
Qed.

(** ** the steps, one kind at a time *)
Ltac agenda_side :=
  match goal with
  | |- gsorted (push _ _ _) => apply push_gsorted; agenda_side
  | |- gsorted _ => assumption
  | |- Forall _ (push _ _ _) => apply push_lb; [agenda_side | lia]
  | |- Forall _ _ => assumption
  | |- pend (push _ _ _) = _ => rewrite pend_push_other by reflexivity; agenda_side
  | |- pend _ = _ => reflexivity
  | |- ofirst _ -> ofirst _ => let H := fresh in intros H; agenda_side
  | |- ofirst (push _ _ _) => apply ofirst_push; [agenda_side | agenda_side | reflexivity]
  | |- ofirst _ => assumption
  end.

Lemma cancel_push_cons t g t' : In (t', ACancel) (push t ACons g) <-> In (t', ACancel) g.
Proof. rewrite push_In. split; [intros [H|H]; [discriminate | auto] | auto]. Qed.

Lemma cancel_push_cancel t g t' : In (t', ACancel) (push t ACancel g) <-> (t' = t \/ In (t', ACancel) g).
Proof. rewrite push_In. split; (intros [H|H]; [left; congruence | auto]). Qed.

Lemma cons_push_cancel t g t' : In (t', ACons) (push t ACancel g) <-> In (t', ACons) g.
Proof. rewrite push_In. split; [intros [H|H]; [discriminate | auto] | auto]. Qed.

Lemma cons_push_cons t g t' : In (t', ACons) (push t ACons g) <-> (t' = t \/ In (t', ACons) g).
Proof. rewrite push_In. split; (intros [H|H]; [left; congruence | auto]). Qed.

Lemma K_act_val_first c s t i rest v :
  Inv c s -> ag s = (t, AAct i) :: rest -> outcome_of c i = Some (Val v) -> c_mode c = MFirst ->
  Inv c {| now := t;
           ag := if is_wait (cs s) then push t ACons rest else rest;
           ast := set_nth i (SDone (Val v)) (ast s);
           buf := buf s ++ [v];
           cs := if is_wait (cs s) then CTake else cs s;
           got := got s; fails := fails s; ev := ev s ++ [EFin t i] |}.
Proof.
  intros (HA & HF & HC) Hg Ho Hm.
  pose proof (A_sorted _ _ HA) as Hs. rewrite Hg in Hs.
  pose proof (gsorted_tail _ _ Hs) as Hrs. pose proof (rest_lb _ _ _ Hs) as Hrl.
  pose proof (head_now _ _ _ _ _ HA Hg) as Hnow.
  assert (Hvb : is_valb (outcome_of c (snd (t, i))) = true) by (simpl; rewrite Ho; reflexivity).
  pose proof (C_mode _ _ HC) as HM. rewrite Hm in HM. destruct HM as (HM1 & HM2 & HM3).
  pose proof (C_ncons _ _ HC) as Hnc. rewrite Hg in Hnc. simpl in Hnc.
  split; [|split].
  - apply actA with (rest := rest); auto; destruct (is_wait (cs s)); agenda_side.
  - apply keepF with (a := AAct i) (rest := rest); auto; [discriminate | |].
    + intros t'. destruct (is_wait (cs s)); [apply cancel_push_cons | tauto].
    + simpl. intros p [<-|[]]. simpl. rewrite Ho. auto.
  - constructor; simpl.
    + destruct (cs s); simpl in *; rewrite ?ncons_push; simpl; lia.
    + rewrite yields_app. simpl. rewrite app_nil_r. apply (C_got _ _ HC).
    + apply (C_k _ _ HC).
    + rewrite Hm. rewrite fins_app. simpl. rewrite succ_snoc_val by auto.
      rewrite yields_app. simpl. rewrite app_nil_r. split; [|split].
      * rewrite map_app, HM1. simpl. unfold val_of. simpl. rewrite Ho. rewrite <- app_assoc. reflexivity.
      * destruct (cs s); simpl in *; try contradiction; auto.
        -- split; [|tauto]. intros X. apply app_eq_nil in X. destruct X. discriminate.
        -- split; [|tauto]. intros X. apply app_eq_nil in X. destruct X. discriminate.
      * intros Hp. destruct (HM3 Hp) as [Hb Ht]. split.
        -- destruct (cs s); simpl; congruence.
        -- rewrite map_app, Ht. simpl. rewrite app_length. simpl. rewrite Nat.add_1_r, repeat_snoc.
           rewrite <- app_assoc. f_equal. destruct (buf s) as [|b0 br] eqn:Eb; [reflexivity|].
           assert (t = now s) as -> ; [|reflexivity].
           eapply prompt_buf_now; eauto. rewrite Eb. discriminate.
    + rewrite yields_app, fins_app. simpl. rewrite app_nil_r, succ_snoc_val by auto.
      apply ytime_ext; [apply ys_le_succ; auto | apply (C_ytime _ _ HC)].
    + intros Hcp. destruct (C_cp _ _ HC Hcp) as [H1 H2]. split.
      * intros t' Ht'.
        assert (X : t' = t \/ In (t', ACons) (ag s)).
        { rewrite Hg. destruct (is_wait (cs s)); [apply cons_push_cons in Ht'|]; simpl; tauto. }
        destruct X as [->|X]; auto. rewrite (H1 _ X). symmetry. eapply head_time_eq; eauto.
        rewrite <- (H1 _ X). exact X.
      * right. exists (t, i). split; [|reflexivity]. rewrite fins_app. apply in_or_app. right. left. reflexivity.
Qed.

Lemma is_on_true x i : is_on x i = true -> x = COn i.
Proof. destruct x; simpl; try discriminate. intros H. apply Nat.eqb_eq in H. congruence. Qed.

Lemma collect_ytime c s : InvC c s -> c_mode c = MCollect -> yields (ev s) = [].
Proof.
  intros HC Hm. pose proof (C_mode _ _ HC) as X. rewrite Hm in X. destruct X as (_ & X & _).
  pose proof (C_got _ _ HC) as Y. rewrite X in Y. destruct (yields (ev s)); [reflexivity | discriminate].
Qed.

Lemma K_act_val_collect c s t i rest v :
  Inv c s -> ag s = (t, AAct i) :: rest -> outcome_of c i = Some (Val v) -> c_mode c = MCollect ->
  Inv c {| now := t;
           ag := if is_on (cs s) i then push t ACons rest else rest;
           ast := set_nth i (SDone (Val v)) (ast s);
           buf := buf s;
           cs := if is_on (cs s) i then CRun else cs s;
           got := got s; fails := fails s; ev := ev s ++ [EFin t i] |}.
Proof.
  intros (HA & HF & HC) Hg Ho Hm.
  pose proof (A_sorted _ _ HA) as Hs. rewrite Hg in Hs.
  pose proof (gsorted_tail _ _ Hs) as Hrs. pose proof (rest_lb _ _ _ Hs) as Hrl.
  pose proof (head_now _ _ _ _ _ HA Hg) as Hnow.
  pose proof (C_mode _ _ HC) as HM. rewrite Hm in HM. destruct HM as (HM1 & HM2 & HM3).
  pose proof (C_ncons _ _ HC) as Hnc. rewrite Hg in Hnc. simpl in Hnc.
  split; [|split].
  - apply actA with (rest := rest); auto; destruct (is_on (cs s) i); agenda_side.
  - apply keepF with (a := AAct i) (rest := rest); auto; [discriminate | |].
    + intros t'. destruct (is_on (cs s) i); [apply cancel_push_cons | tauto].
    + simpl. intros p [<-|[]]. simpl. rewrite Ho. auto.
  - constructor; simpl.
    + destruct (is_on (cs s) i) eqn:E.
      * apply is_on_true in E. rewrite E in Hnc. rewrite ncons_push. simpl. lia.
      * exact Hnc.
    + rewrite yields_app. simpl. rewrite app_nil_r. apply (C_got _ _ HC).
    + apply (C_k _ _ HC).
    + rewrite Hm. split; [auto|]. split; [auto|]. destruct (is_on (cs s) i) eqn:E; [exact I|].
      destruct (cs s) as [| | | | |j|] eqn:Ec; try contradiction; auto.
      rewrite nth_set_nth_neq; auto. intros <-. simpl in E. rewrite Nat.eqb_refl in E. discriminate.
    + rewrite yields_app. simpl. rewrite app_nil_r, (collect_ytime _ _ HC Hm). intros j y p H. destruct j; discriminate.
    + intros Hcp. destruct (C_cp _ _ HC Hcp) as [H1 H2]. split.
      * intros t' Ht'.
        assert (X : t' = t \/ In (t', ACons) (ag s)).
        { rewrite Hg. destruct (is_on (cs s) i); [apply cons_push_cons in Ht'|]; simpl; tauto. }
        destruct X as [->|X]; auto. rewrite (H1 _ X). symmetry. eapply head_time_eq; eauto.
        rewrite <- (H1 _ X). exact X.
      * right. exists (t, i). split; [|reflexivity]. rewrite fins_app. apply in_or_app. right. left. reflexivity.
Qed.

Lemma K_act_fail_first c s t i rest e :
  Inv c s -> ag s = (t, AAct i) :: rest -> outcome_of c i = Some (Fail e) -> c_mode c = MFirst ->
  Inv c {| now := t;
           ag := push t ACancel rest;
           ast := set_nth i (SDone (Fail e)) (ast s);
           buf := buf s;
           cs := cs s;
           got := got s; fails := fails s ++ [e]; ev := ev s ++ [EFin t i] |}.
Proof.
  intros (HA & HF & HC) Hg Ho Hm.
  pose proof (A_sorted _ _ HA) as Hs. rewrite Hg in Hs.
  pose proof (gsorted_tail _ _ Hs) as Hrs. pose proof (rest_lb _ _ _ Hs) as Hrl.
  pose proof (head_now _ _ _ _ _ HA Hg) as Hnow.
  assert (Hvb : is_valb (outcome_of c (snd (t, i))) = false) by (simpl; rewrite Ho; reflexivity).
  pose proof (C_mode _ _ HC) as HM. rewrite Hm in HM. destruct HM as (HM1 & HM2 & HM3).
  pose proof (C_ncons _ _ HC) as Hnc. rewrite Hg in Hnc. simpl in Hnc.
  split; [|split].
  - apply actA with (rest := rest); auto; agenda_side.
  - apply failF with (rest := rest); auto. intros t'. apply cancel_push_cancel.
  - constructor; simpl.
    + rewrite ncons_push. simpl. exact Hnc.
    + rewrite yields_app. simpl. rewrite app_nil_r. apply (C_got _ _ HC).
    + apply (C_k _ _ HC).
    + rewrite Hm. rewrite fins_app. simpl. rewrite succ_snoc_other by auto.
      rewrite yields_app. simpl. rewrite app_nil_r. split; [|split]; auto.
      intros Hp. destruct (HM3 Hp) as [Hb Ht]. split; auto. rewrite Ht. f_equal.
      destruct (buf s) as [|b0 br] eqn:Eb; [reflexivity|].
      assert (t = now s) as -> ; [|reflexivity].
      eapply prompt_buf_now; eauto. rewrite Eb. discriminate.
    + rewrite yields_app, fins_app. simpl. rewrite app_nil_r, succ_snoc_other by auto. apply (C_ytime _ _ HC).
    + intros Hcp. destruct (C_cp _ _ HC Hcp) as [H1 H2]. split.
      * intros t' Ht'. apply cons_push_cancel in Ht'.
        assert (X : In (t', ACons) (ag s)) by (rewrite Hg; right; auto).
        rewrite (H1 _ X). symmetry. eapply head_time_eq; eauto. rewrite <- (H1 _ X). exact X.
      * right. exists (t, i). split; [|reflexivity]. rewrite fins_app. apply in_or_app. right. left. reflexivity.
Qed.

Lemma K_act_fail_collect c s t i rest e :
  Inv c s -> ag s = (t, AAct i) :: rest -> outcome_of c i = Some (Fail e) -> c_mode c = MCollect ->
  Inv c {| now := t;
           ag := if is_on (cs s) i then push t ACons (push t ACancel rest) else push t ACancel rest;
           ast := set_nth i (SDone (Fail e)) (ast s);
           buf := buf s;
           cs := if is_on (cs s) i then CRun else cs s;
           got := got s; fails := fails s ++ [e]; ev := ev s ++ [EFin t i] |}.
Proof.
  intros (HA & HF & HC) Hg Ho Hm.
  pose proof (A_sorted _ _ HA) as Hs. rewrite Hg in Hs.
  pose proof (gsorted_tail _ _ Hs) as Hrs. pose proof (rest_lb _ _ _ Hs) as Hrl.
  pose proof (head_now _ _ _ _ _ HA Hg) as Hnow.
  pose proof (C_mode _ _ HC) as HM. rewrite Hm in HM. destruct HM as (HM1 & HM2 & HM3).
  pose proof (C_ncons _ _ HC) as Hnc. rewrite Hg in Hnc. simpl in Hnc.
  split; [|split].
  - apply actA with (rest := rest); auto; destruct (is_on (cs s) i); agenda_side.
  - apply failF with (rest := rest); auto. intros t'.
    destruct (is_on (cs s) i); [rewrite cancel_push_cons|]; apply cancel_push_cancel.
  - constructor; simpl.
    + destruct (is_on (cs s) i) eqn:E.
      * apply is_on_true in E. rewrite E in Hnc. rewrite !ncons_push. simpl. lia.
      * rewrite ncons_push. simpl. exact Hnc.
    + rewrite yields_app. simpl. rewrite app_nil_r. apply (C_got _ _ HC).
    + apply (C_k _ _ HC).
    + rewrite Hm. split; [auto|]. split; [auto|]. destruct (is_on (cs s) i) eqn:E; [exact I|].
      destruct (cs s) as [| | | | |j|] eqn:Ec; try contradiction; auto.
      rewrite nth_set_nth_neq; auto. intros <-. simpl in E. rewrite Nat.eqb_refl in E. discriminate.
    + rewrite yields_app. simpl. rewrite app_nil_r, (collect_ytime _ _ HC Hm). intros j y p H. destruct j; discriminate.
    + intros Hcp. destruct (C_cp _ _ HC Hcp) as [H1 H2]. split.
      * intros t' Ht'.
        assert (X : t' = t \/ In (t', ACons) (ag s)).
        { rewrite Hg. destruct (is_on (cs s) i); [apply cons_push_cons in Ht'; rewrite cons_push_cancel in Ht'
                                                  | apply cons_push_cancel in Ht']; simpl; tauto. }
        destruct X as [->|X]; auto. rewrite (H1 _ X). symmetry. eapply head_time_eq; eauto.
        rewrite <- (H1 _ X). exact X.
      * right. exists (t, i). split; [|reflexivity]. rewrite fins_app. apply in_or_app. right. left. reflexivity.
Qed.

Lemma consA0 c s t a rest g' b' x' n' f' :
  InvA c s -> ag s = (t, a) :: rest -> is_actb a = false ->
  gsorted g' -> Forall (fun e => t <= fst e) g' -> pend g' = pend rest -> (ofirst rest -> ofirst g') ->
  InvA c {| now := t; ag := g'; ast := ast s; buf := b'; cs := x'; got := n'; fails := f'; ev := ev s |}.
Proof.
  intros. pose proof (consA c s t a rest g' b' x' n' f' []) as H8. rewrite app_nil_r in H8.
  apply H8; auto.
Qed.

Lemma keepF0 c s t a rest g' l' b' x' n' :
  InvA c s -> InvF c s -> ag s = (t, a) :: rest -> a <> ACancel ->
  (forall t', In (t', ACancel) g' <-> In (t', ACancel) rest) ->
  InvF c {| now := t; ag := g'; ast := l'; buf := b'; cs := x'; got := n'; fails := fails s; ev := ev s |}.
Proof.
  intros. pose proof (keepF c s t a rest g' l' b' x' n' []) as H8. rewrite app_nil_r in H8.
  apply H8; auto. simpl. intros p [].
Qed.

Lemma K_take_think c s t rest v b th :
  Inv c s -> ag s = (t, ACons) :: rest -> cs s = CTake -> buf s = v :: b ->
  th = nth (got s) (c_thinks c) 0 -> 0 < th ->
  Inv c {| now := t; ag := push (t + th) ACons rest; ast := ast s; buf := b; cs := CBusy; got := S (got s);
           fails := fails s; ev := ev s ++ [EYield t v] |}.
Proof.
  intros (HA & HF & HC) Hg Hcs Hb Hth Hpos.
  pose proof (A_sorted _ _ HA) as Hs. rewrite Hg in Hs.
  pose proof (gsorted_tail _ _ Hs) as Hrs. pose proof (rest_lb _ _ _ Hs) as Hrl.
  pose proof (head_now _ _ _ _ _ HA Hg) as Hnow.
  assert (Hm : c_mode c = MFirst) by (eapply mode_first_of_cs; eauto).
  pose proof (C_mode _ _ HC) as HM. rewrite Hm, Hcs, Hb in HM. destruct HM as (HM1 & HM2 & HM3).
  pose proof (C_ncons _ _ HC) as Hnc. rewrite Hg, Hcs in Hnc. simpl in Hnc.
  assert (Hnp : ~ prompt c). { intros Hp. specialize (Hp (got s)). lia. }
  split; [|split].
  - apply consA with (a := ACons) (rest := rest); auto; try agenda_side.
    + repeat constructor.
    + repeat constructor. simpl. lia.
  - apply keepF with (a := ACons) (rest := rest); auto; [discriminate | |].
    + intros t'. apply cancel_push_cons.
    + simpl. intros p [].
  - constructor; simpl.
    + rewrite ncons_push. simpl. lia.
    + rewrite yields_app, app_length. simpl. rewrite (C_got _ _ HC). lia.
    + destruct HM2. lia.
    + rewrite Hm. rewrite fins_app. simpl. rewrite app_nil_r. rewrite yields_app. simpl.
      split; [|split; [exact I | intros Hp; contradiction]].
      rewrite map_app, HM1. simpl. rewrite <- app_assoc. reflexivity.
    + rewrite yields_app, fins_app. simpl. rewrite app_nil_r. apply ytime_snoc; [apply (C_ytime _ _ HC)|].
      intros p Hp. apply succ_In in Hp. pose proof (fins_past _ _ _ HA Hp). lia.
    + intros [X|X]; [congruence | contradiction].
Qed.

Lemma K_take_resume c s t rest v b x g' :
  Inv c s -> ag s = (t, ACons) :: rest -> cs s = CTake -> buf s = v :: b ->
  resume c t rest (S (got s)) b = (x, g') ->
  Inv c {| now := t; ag := g'; ast := ast s; buf := b; cs := x; got := S (got s);
           fails := fails s; ev := ev s ++ [EYield t v] |}.
Proof.
  intros (HA & HF & HC) Hg Hcs Hb Hr.
  pose proof (A_sorted _ _ HA) as Hs. rewrite Hg in Hs.
  pose proof (gsorted_tail _ _ Hs) as Hrs. pose proof (rest_lb _ _ _ Hs) as Hrl.
  pose proof (head_now _ _ _ _ _ HA Hg) as Hnow.
  assert (Hm : c_mode c = MFirst) by (eapply mode_first_of_cs; eauto).
  pose proof (C_mode _ _ HC) as HM. rewrite Hm, Hcs, Hb in HM. destruct HM as (HM1 & [_ HM2] & HM3).
  pose proof (C_ncons _ _ HC) as Hnc. rewrite Hg, Hcs in Hnc. simpl in Hnc.
  assert (Hhead : In (t, ACons) (ag s)) by (rewrite Hg; left; reflexivity).
  assert (Hg' : g' = rest \/ g' = push t ACons rest).
  { unfold resume in Hr. destruct (Nat.eqb (S (got s)) (c_k c)); [inversion Hr; auto|].
    destruct b; inversion Hr; auto. }
  split; [|split].
  - apply consA with (a := ACons) (rest := rest); auto.
    + destruct Hg' as [->| ->]; agenda_side.
    + destruct Hg' as [->| ->]; agenda_side.
    + destruct Hg' as [->| ->]; agenda_side.
    + destruct Hg' as [->| ->]; agenda_side.
    + repeat constructor.
    + repeat constructor. simpl. lia.
  - apply keepF with (a := ACons) (rest := rest); auto; [discriminate | |].
    + intros t'. destruct Hg' as [->| ->]; [tauto | apply cancel_push_cons].
    + simpl. intros p [].
  - assert (Hx : x = CExit /\ g' = push t ACons rest /\ S (got s) = c_k c \/
                 x = CWait /\ g' = rest /\ b = [] /\ (S (got s) < c_k c)%nat \/
                 x = CTake /\ g' = push t ACons rest /\ b <> [] /\ (S (got s) < c_k c)%nat).
    { unfold resume in Hr. destruct (Nat.eqb (S (got s)) (c_k c)) eqn:E.
      - apply Nat.eqb_eq in E. inversion Hr; auto.
      - apply Nat.eqb_neq in E. destruct b; inversion Hr; subst.
        + right; left. repeat split; auto. lia.
        + right; right. repeat split; auto; [discriminate | lia]. }
    constructor; simpl.
    + destruct Hx as [(-> & -> & _)|[(-> & -> & _)|(-> & -> & _)]]; rewrite ?ncons_push; simpl; lia.
    + rewrite yields_app, app_length. simpl. rewrite (C_got _ _ HC). lia.
    + lia.
    + rewrite Hm. rewrite fins_app. simpl. rewrite app_nil_r. rewrite yields_app. simpl.
      split; [|split].
      * rewrite map_app, HM1. simpl. rewrite <- app_assoc. reflexivity.
      * destruct Hx as [(-> & _ & X)|[(-> & _ & X)|(-> & _ & X)]]; auto; tauto.
      * intros Hp. destruct (HM3 Hp) as [_ Ht]. split.
        -- destruct Hx as [(-> & _)|[(-> & _)|(-> & _)]]; discriminate.
        -- destruct (C_cp _ _ HC (or_intror Hp)) as [H1 _]. pose proof (H1 _ Hhead) as ->.
           rewrite Ht, map_app. simpl. rewrite <- app_assoc. reflexivity.
    + rewrite yields_app, fins_app. simpl. rewrite app_nil_r. apply ytime_snoc; [apply (C_ytime _ _ HC)|].
      intros p Hp. apply succ_In in Hp. pose proof (fins_past _ _ _ HA Hp). lia.
    + intros Hcp. destruct (C_cp _ _ HC Hcp) as [H1 H2]. pose proof (H1 _ Hhead) as Ht. split.
      * intros t' Ht'. assert (X : t' = t \/ In (t', ACons) (ag s)).
        { rewrite Hg. destruct Hg' as [->| ->]; [|apply cons_push_cons in Ht']; simpl; tauto. }
        destruct X as [->|X]; auto. rewrite (H1 _ X). auto.
      * rewrite fins_app. simpl. rewrite app_nil_r. rewrite Ht. exact H2.
Qed.

Lemma K_busy_resume c s t rest x g' :
  Inv c s -> ag s = (t, ACons) :: rest -> cs s = CBusy ->
  resume c t rest (got s) (buf s) = (x, g') ->
  Inv c {| now := t; ag := g'; ast := ast s; buf := buf s; cs := x; got := got s;
           fails := fails s; ev := ev s |}.
Proof.
  intros (HA & HF & HC) Hg Hcs Hr.
  pose proof (A_sorted _ _ HA) as Hs. rewrite Hg in Hs.
  pose proof (gsorted_tail _ _ Hs) as Hrs. pose proof (rest_lb _ _ _ Hs) as Hrl.
  pose proof (head_now _ _ _ _ _ HA Hg) as Hnow.
  assert (Hm : c_mode c = MFirst) by (eapply mode_first_of_cs; eauto).
  pose proof (C_mode _ _ HC) as HM. rewrite Hm, Hcs in HM. destruct HM as (HM1 & _ & HM3).
  pose proof (C_ncons _ _ HC) as Hnc. rewrite Hg, Hcs in Hnc. simpl in Hnc.
  pose proof (C_k _ _ HC) as Hk.
  assert (Hnp : ~ prompt c). { intros Hp. destruct (HM3 Hp) as [X _]. congruence. }
  assert (Hg' : g' = rest \/ g' = push t ACons rest).
  { unfold resume in Hr. destruct (Nat.eqb (got s) (c_k c)); [inversion Hr; auto|].
    destruct (buf s); inversion Hr; auto. }
  split; [|split].
  - apply consA0 with (a := ACons) (rest := rest); auto; destruct Hg' as [->| ->]; agenda_side.
  - apply keepF0 with (a := ACons) (rest := rest); auto; [discriminate|].
    intros t'. destruct Hg' as [->| ->]; [tauto | apply cancel_push_cons].
  - assert (Hx : x = CExit /\ g' = push t ACons rest /\ got s = c_k c \/
                 x = CWait /\ g' = rest /\ buf s = [] /\ (got s < c_k c)%nat \/
                 x = CTake /\ g' = push t ACons rest /\ buf s <> [] /\ (got s < c_k c)%nat).
    { unfold resume in Hr. destruct (Nat.eqb (got s) (c_k c)) eqn:E.
      - apply Nat.eqb_eq in E. inversion Hr; auto.
      - apply Nat.eqb_neq in E. destruct (buf s); inversion Hr; subst.
        + right; left. repeat split; auto. lia.
        + right; right. repeat split; auto; [discriminate | lia]. }
    constructor; simpl.
    + destruct Hx as [(-> & -> & _)|[(-> & -> & _)|(-> & -> & _)]]; rewrite ?ncons_push; simpl; lia.
    + apply (C_got _ _ HC).
    + exact Hk.
    + rewrite Hm. split; [exact HM1|]. split.
      * destruct Hx as [(-> & _ & X)|[(-> & _ & X)|(-> & _ & X)]]; auto.
      * intros Hp. contradiction.
    + apply (C_ytime _ _ HC).
    + intros [X|X]; [congruence | contradiction].
Qed.

Lemma K_run_on c s t rest j :
  Inv c s -> ag s = (t, ACons) :: rest -> cs s = CRun -> first_sleep_from 0 (ast s) = Some j ->
  Inv c {| now := t; ag := rest; ast := ast s; buf := buf s; cs := COn j; got := got s;
           fails := fails s; ev := ev s |}.
Proof.
  intros (HA & HF & HC) Hg Hcs Hj.
  pose proof (A_sorted _ _ HA) as Hs. rewrite Hg in Hs.
  pose proof (gsorted_tail _ _ Hs) as Hrs. pose proof (rest_lb _ _ _ Hs) as Hrl.
  assert (Hm : c_mode c = MCollect) by (eapply mode_collect_of_cs; eauto).
  pose proof (C_mode _ _ HC) as HM. rewrite Hm, Hcs in HM. destruct HM as (HM1 & HM2 & _).
  pose proof (C_ncons _ _ HC) as Hnc. rewrite Hg, Hcs in Hnc. simpl in Hnc.
  assert (Hhead : In (t, ACons) (ag s)) by (rewrite Hg; left; reflexivity).
  split; [|split].
  - apply consA0 with (a := ACons) (rest := rest); auto; agenda_side.
  - apply keepF0 with (a := ACons) (rest := rest); auto; [discriminate | tauto].
  - constructor; simpl.
    + lia.
    + apply (C_got _ _ HC).
    + apply (C_k _ _ HC).
    + rewrite Hm. split; auto. split; auto. apply first_sleep_from_Some in Hj.
      destruct Hj as (j' & -> & Hj). exact Hj.
    + apply (C_ytime _ _ HC).
    + intros Hcp. destruct (C_cp _ _ HC Hcp) as [H1 H2]. pose proof (H1 _ Hhead) as Ht. split.
      * intros t' Ht'. rewrite Ht. apply H1. rewrite Hg. right. exact Ht'.
      * rewrite Ht. exact H2.
Qed.

(** ** one step: either the invariant is kept or the call has ended *)
Definition final_step (c : cfg) (s s' : state) : Prop :=
  exists t a rest fe,
    ag s = (t, a) :: rest /\ s' = finish s t rest fe /\
    ((a = ACons /\ cs s = CExit /\ fe = EReturn t) \/
     (a = ACons /\ cs s = CRun /\ first_sleep_from 0 (ast s) = None /\
      fe = match fails s with [] => EResult t (results (ast s)) | _ => ERaise t (fails s) end) \/
     (a = ACancel /\ cs s = CBusy /\ fe = EEscape t) \/
     (a = ACancel /\ cs s <> CBusy /\ fe = ERaise t (fails s))).

Lemma finish_cs s t rest fe : cs (finish s t rest fe) = CDone.
Proof. unfold finish. destruct (close_from 0 t (ast s)). reflexivity. Qed.

Lemma finish_ev s t rest fe : ev (finish s t rest fe) = ev s ++ aborts t (ast s) ++ [fe].
Proof. unfold finish, aborts. destruct (close_from 0 t (ast s)). reflexivity. Qed.

Lemma resume_not_done c t rest g b x g' : resume c t rest g b = (x, g') -> x <> CDone.
Proof.
  unfold resume. destruct (Nat.eqb g (c_k c)); [intros H; inversion H; discriminate|].
  destruct b; intros H; inversion H; discriminate.
Qed.

Lemma step_cases c s s' :
  Inv c s -> step c s = Some s' -> (cs s' <> CDone /\ Inv c s') \/ (cs s' = CDone /\ final_step c s s').
Proof.
  intros HI Hst. pose proof HI as (HA & HF & HC).
  unfold step in Hst. destruct (ag s) as [|[t a] rest] eqn:Hg; [destruct (cs s); discriminate|].
  assert (Hnd : cs s <> CDone) by (intros X; rewrite X in Hst; discriminate).
  assert (Hs' : s' = match a with
                     | AAct i => act_turn c s t rest i
                     | ACons => cons_turn c s t rest
                     | ACancel => cancel_turn s t rest end).
  { destruct (cs s); try congruence; destruct a; congruence. }
  clear Hst. destruct a as [i| |].
  - (* an activity wakes up *)
    left.
    assert (Hin : In (t, i) (pend (ag s))) by (rewrite Hg; left; reflexivity).
    pose proof (A_sleep _ _ HA _ _ Hin) as Hsl.
    assert (HFO : In (t, i) (FO c)) by (rewrite <- (A_order _ _ HA); apply in_or_app; right; exact Hin).
    apply FO_In in HFO. destruct HFO as [Hi _]. pose proof (outcome_of_lt _ _ Hi) as Ho.
    unfold act_turn in Hs'. rewrite Hsl, Ho in Hs'.
    destruct (out_of (c_acts c) i) as [v|e]; destruct (c_mode c) eqn:Hm; subst s'.
    + split; [simpl; destruct (is_wait (cs s)); [discriminate | exact Hnd] | apply K_act_val_first; auto].
    + split; [simpl; destruct (is_on (cs s) i); [discriminate | exact Hnd] | apply K_act_val_collect; auto].
    + split; [simpl; exact Hnd | apply K_act_fail_first; auto].
    + split; [simpl; destruct (is_on (cs s) i); [discriminate | exact Hnd] | apply K_act_fail_collect; auto].
  - (* a turn of the caller *)
    pose proof (C_ncons _ _ HC) as Hnc. rewrite Hg in Hnc. simpl in Hnc.
    unfold cons_turn in Hs'. destruct (cs s) eqn:Hcs; try (exfalso; lia); try congruence.
    + (* CTake *)
      left. assert (Hm : c_mode c = MFirst) by (eapply mode_first_of_cs; eauto).
      pose proof (C_mode _ _ HC) as HM. rewrite Hm, Hcs in HM. destruct HM as (_ & [Hb _] & _).
      destruct (buf s) as [|v b] eqn:Eb; [congruence|].
      destruct (0 <? nth (got s) (c_thinks c) 0) eqn:Eth.
      * subst s'. split; [simpl; discriminate|]. apply Z.ltb_lt in Eth. eapply K_take_think; eauto.
      * destruct (resume c t rest (S (got s)) b) as [x g'] eqn:Er. subst s'.
        split; [simpl; eapply resume_not_done; eauto | eapply K_take_resume; eauto].
    + (* CBusy *)
      left. destruct (resume c t rest (got s) (buf s)) as [x g'] eqn:Er. subst s'.
      split; [simpl; eapply resume_not_done; eauto | eapply K_busy_resume; eauto].
    + (* CExit *)
      right. subst s'. split; [apply finish_cs|]. exists t, ACons, rest, (EReturn t). split; [exact Hg|]. split; [reflexivity|]. left. auto.
    + (* CRun *)
      destruct (first_sleep_from 0 (ast s)) as [j|] eqn:Ej.
      * left. subst s'. split; [simpl; discriminate | eapply K_run_on; eauto].
      * right. subst s'. split; [apply finish_cs|]. eexists t, ACons, rest, _. split; [exact Hg|].
        split; [reflexivity|]. right; left. auto.
  - (* the cancel signal *)
    right. subst s'. unfold cancel_turn.
    destruct (cs s) eqn:Hcs; (split; [apply finish_cs|]); eexists t, ACancel, rest, _;
      (split; [exact Hg|]); (split; [reflexivity|]).
    all: first [ right; right; right; split; [reflexivity|]; split; [rewrite Hcs; discriminate | reflexivity]
               | right; right; left; auto ].
Qed.

(** ** progress: the run never gets stuck *)
Lemma all_done_succ c s :
  InvA c s -> InvF c s -> ag s = [] -> fails s = [] -> succ_of c (fins (ev s)) = fins (ev s) /\ length (fins (ev s)) = nacts c.
Proof.
  intros HA HF Hg Hf. pose proof (A_order _ _ HA) as Ho. rewrite Hg in Ho. simpl in Ho. rewrite app_nil_r in Ho.
  split.
  - apply succ_of_all. intros p Hp. rewrite (F_fails _ _ HF) in Hf. pose proof (fail_codes_nil _ _ Hf p Hp) as X.
    rewrite Ho in Hp. destruct p as [t i]. apply FO_In in Hp. destruct Hp as [Hi _]. simpl in *.
    rewrite (outcome_of_lt _ _ Hi) in *. destruct (out_of (c_acts c) i); simpl in *; congruence.
  - rewrite Ho. apply finish_order_length.
Qed.

Lemma progress c s : valid c -> Inv c s -> cs s <> CDone -> ag s <> [].
Proof.
  intros [_ Hk] (HA & HF & HC) Hnd Hg.
  pose proof (C_ncons _ _ HC) as Hnc. rewrite Hg in Hnc. simpl in Hnc.
  destruct (cs s) eqn:Hcs; try discriminate; try congruence.
  - (* CWait *)
    assert (Hm : c_mode c = MFirst) by (eapply mode_first_of_cs; eauto).
    pose proof (C_mode _ _ HC) as HM. rewrite Hm, Hcs in HM. destruct HM as (HM1 & [Hb Hlt] & _).
    assert (Hf : fails s = []).
    { destruct (fails s) eqn:E; auto. assert (X : fails s <> []) by (rewrite E; discriminate).
      apply (F_cancel _ _ HF) in X. rewrite Hg in X. destruct X. }
    destruct (all_done_succ _ _ HA HF Hg Hf) as [H1 H2].
    apply (f_equal (@length Z)) in HM1. rewrite H1, Hb, app_nil_r, !map_length, H2 in HM1.
    rewrite <- (C_got _ _ HC) in HM1. lia.
  - (* COn j *)
    assert (Hm : c_mode c = MCollect) by (eapply mode_collect_of_cs; eauto).
    pose proof (C_mode _ _ HC) as HM. rewrite Hm, Hcs in HM. destruct HM as (_ & _ & Hj).
    assert (Hjn : (j < nacts c)%nat).
    { rewrite <- (A_len _ _ HA). destruct (Nat.lt_ge_cases j (length (ast s))); auto.
      rewrite nth_overflow in Hj by lia. discriminate. }
    assert (Hin : In (ftime (c_t0 c) (c_acts c) j, j) (FO c)) by (apply finish_order_In; simpl; auto).
    rewrite <- (A_order _ _ HA), Hg in Hin. simpl in Hin. rewrite app_nil_r in Hin.
    destruct (A_done _ _ HA _ _ Hin) as (o & _ & X). congruence.
Qed.

Lemma run_done c : forall fuel s, cs s = CDone -> run c fuel s = s.
Proof. intros [|f] s H; simpl; auto. unfold step. rewrite H. reflexivity. Qed.

Lemma run_final c : forall fuel s,
  valid c -> Inv c s -> cs s <> CDone -> (measure s <= fuel)%nat ->
  exists s1 s2, Inv c s1 /\ cs s1 <> CDone /\ final_step c s1 s2 /\ run c fuel s = s2.
Proof.
  induction fuel as [|f IH]; intros s Hv HI Hnd Hm.
  - exfalso. pose proof (progress _ _ Hv HI Hnd) as Hp.
    destruct (step c s) as [s'|] eqn:E.
    + apply step_measure in E. lia.
    + unfold step in E. destruct (ag s) as [|[t a] r]; [congruence|]. destruct (cs s), a; congruence.
  - pose proof (progress _ _ Hv HI Hnd) as Hp.
    destruct (step c s) as [s'|] eqn:E.
    + simpl. rewrite E. destruct (step_cases _ _ _ HI E) as [[H1 H2]|[H1 H2]].
      * apply IH; auto. apply step_measure in E. lia.
      * exists s, s'. split; [exact HI|]. split; [exact Hnd|]. split; [exact H2|]. apply run_done. exact H1.
    + exfalso. unfold step in E. destruct (ag s) as [|[t a] r]; [congruence|]. destruct (cs s), a; congruence.
Qed.

(** the shape of every execution: a body of [EFin]/[EYield] events, then the aborts of everything that
    is still running, then the event that ends the call *)
Definition final_kind (s : state) (t : Z) (a : agent) (fe : event) : Prop :=
  (a = ACons /\ cs s = CExit /\ fe = EReturn t) \/
  (a = ACons /\ cs s = CRun /\ first_sleep_from 0 (ast s) = None /\
   fe = match fails s with [] => EResult t (results (ast s)) | _ => ERaise t (fails s) end) \/
  (a = ACancel /\ cs s = CBusy /\ fe = EEscape t) \/
  (a = ACancel /\ cs s <> CBusy /\ fe = ERaise t (fails s)).

Theorem exec_shape c :
  valid c ->
  exists s t a rest fe,
    Inv c s /\ cs s <> CDone /\ ag s = (t, a) :: rest /\ final_kind s t a fe /\
    exec c = ev s ++ aborts t (ast s) ++ [fe].
Proof.
  intros Hv. pose proof (init_inv c Hv) as HI.
  assert (Hnd : cs (init c) <> CDone) by (simpl; destruct (c_mode c), (c_k c); discriminate).
  destruct (run_final c (measure (init c)) (init c) Hv HI Hnd (le_n _)) as (s1 & s2 & H1 & H2 & H3 & H4).
  destruct H3 as (t & a & rest & fe & Hg & Hs2 & Hk).
  exists s1, t, a, rest, fe. split; [exact H1|]. split; [exact H2|]. split; [exact Hg|]. split; [exact Hk|].
  unfold exec, trace_of. cbv zeta. rewrite H4, Hs2, finish_cs, finish_ev. simpl. rewrite app_nil_r. reflexivity.
Qed.

(** * What every execution looks like (both calls) *)
Definition is_final (fe : event) : Prop :=
  match fe with EReturn _ | EResult _ _ | ERaise _ _ | EEscape _ => True | _ => False end.

Lemma final_kind_final s t a fe : final_kind s t a fe -> is_final fe /\ ev_time fe = t /\ is_actb a = false.
Proof.
  intros [(-> & _ & ->)|[(-> & _ & _ & ->)|[(-> & _ & ->)|(-> & _ & ->)]]]; simpl; auto.
  destruct (fails s); simpl; auto.
Qed.

Lemma sleep_lt c s i : InvA c s -> nth i (ast s) SAborted = SSleep -> (i < nacts c)%nat.
Proof.
  intros HA H. rewrite <- (A_len _ _ HA). destruct (Nat.lt_ge_cases i (length (ast s))); auto.
  rewrite nth_overflow in H by lia. discriminate.
Qed.

Lemma unfinished_pending c s i :
  InvA c s -> (i < nacts c)%nat -> (forall t, ~ In (t, i) (fins (ev s))) ->
  In (ftime (c_t0 c) (c_acts c) i, i) (pend (ag s)).
Proof.
  intros HA Hi Hn. assert (Hin : In (ftime (c_t0 c) (c_acts c) i, i) (FO c)) by (apply finish_order_In; simpl; auto).
  rewrite <- (A_order _ _ HA) in Hin. apply in_app_or in Hin. destruct Hin as [Hin|Hin]; auto.
  exfalso. eapply Hn; eauto.
Qed.

Theorem exec_stop c :
  valid c ->
  exists S body ab fe,
    exec c = body ++ ab ++ [fe] /\ is_final fe /\ ev_time fe = S /\
    Forall body_event body /\ Forall (fun e => ev_time e <= S) body /\
    (forall e, In e ab <-> exists i, e = EAbort S i /\ (i < nacts c)%nat /\ forall t, ~ In (EFin t i) body) /\
    (forall t i, In (EFin t i) body -> (i < nacts c)%nat /\ t = ftime (c_t0 c) (c_acts c) i) /\
    (forall i, (i < nacts c)%nat -> (forall t, ~ In (EFin t i) body) -> S <= ftime (c_t0 c) (c_acts c) i) /\
    ((c_mode c = MCollect \/ (0 < c_k c)%nat) ->
     forall i, (i < nacts c)%nat -> (forall t, ~ In (EFin t i) body) -> S < ftime (c_t0 c) (c_acts c) i).
Proof.
  intros Hv. destruct (exec_shape c Hv) as (s & t & a & rest & fe & HI & Hnd & Hg & Hk & He).
  pose proof HI as (HA & HF & HC). destruct (final_kind_final _ _ _ _ Hk) as (Hfin & Hft & Ha).
  pose proof (head_now _ _ _ _ _ HA Hg) as Hnow.
  pose proof (A_sorted _ _ HA) as Hs. rewrite Hg in Hs. pose proof (rest_lb _ _ _ Hs) as Hrl.
  assert (Hpend : pend (ag s) = pend rest) by (rewrite Hg; apply pend_cons_other; auto).
  exists t, (ev s), (aborts t (ast s)), fe.
  split; [exact He|]. split; [exact Hfin|]. split; [exact Hft|]. split; [apply (A_body _ _ HA)|].
  split; [eapply Forall_impl; [|apply (A_past _ _ HA)]; simpl; intros; lia|].
  split; [|split; [|split]].
  - intros e. rewrite aborts_In. split.
    + intros (j & -> & Hj). exists j. split; auto. split; [eapply sleep_lt; eauto|].
      intros t' Hin. apply fins_In in Hin. destruct (A_done _ _ HA _ _ Hin) as (o & _ & X). congruence.
    + intros (i & -> & Hi & Hn). exists i. split; auto.
      assert (Hp : In (ftime (c_t0 c) (c_acts c) i, i) (pend (ag s))).
      { apply unfinished_pending; auto. intros t' X. apply fins_In in X. eapply Hn; eauto. }
      apply (A_sleep _ _ HA _ _ Hp).
  - intros t' i Hin. apply fins_In in Hin.
    assert (X : In (t', i) (FO c)) by (rewrite <- (A_order _ _ HA); apply in_or_app; auto).
    apply FO_In in X. exact X.
  - intros i Hi Hn.
    assert (Hp : In (ftime (c_t0 c) (c_acts c) i, i) (pend (ag s))).
    { apply unfinished_pending; auto. intros t' X. apply fins_In in X. eapply Hn; eauto. }
    rewrite Hpend in Hp. apply pend_In in Hp. rewrite Forall_forall in Hrl. apply (Hrl _ Hp).
  - intros Hmk i Hi Hn.
    assert (Hp : In (ftime (c_t0 c) (c_acts c) i, i) (pend (ag s))).
    { apply unfinished_pending; auto. intros t' X. apply fins_In in X. eapply Hn; eauto. }
    pose proof (A_sleep _ _ HA _ _ Hp) as Hsl.
    rewrite Hpend in Hp. apply pend_In in Hp.
    destruct (A_O _ _ HA) as [HO|(Hev & r & Hr & _)].
    + rewrite Hg in HO. simpl in HO. destruct HO as [HO _]. specialize (HO Ha). rewrite Forall_forall in HO.
      apply (HO _ Hp). reflexivity.
    + (* still in the caller's very first turn: nothing has happened yet *)
      exfalso. rewrite Hg in Hr. inversion Hr; subst.
      destruct Hk as [(_ & Hcs & _)|[(_ & Hcs & Hns & _)|[(X & _)|(X & _)]]]; try discriminate.
      * assert (Hm : c_mode c = MFirst) by (eapply mode_first_of_cs; eauto).
        pose proof (C_mode _ _ HC) as HM. rewrite Hm, Hcs in HM. destruct HM as (_ & HM & _).
        pose proof (C_got _ _ HC) as Hgot. rewrite Hev in Hgot. simpl in Hgot.
        destruct Hmk as [X|X]; [congruence | lia].
      * eapply first_sleep_from_None; eauto.
Qed.

(** * Failures *)

(** the failures of the activities that finish at [S], in argument order *)
Fixpoint failures_at (t0 S : Z) (acts : list activity) : list Z :=
  match acts with
  | [] => []
  | (d, Fail e) :: r => if t0 + d =? S then e :: failures_at t0 S r else failures_at t0 S r
  | _ :: r => failures_at t0 S r
  end.

Lemma fail_codes_at_time c t0 S : forall r i,
  (forall j, nth_error r j = nth_error (c_acts c) (i + j)) ->
  fail_codes c (at_time_from i t0 S r) = failures_at t0 S r.
Proof.
  induction r as [|[d o] r IH]; intros i H; simpl; auto.
  assert (Hr : forall j, nth_error r j = nth_error (c_acts c) (Datatypes.S i + j)).
  { intros j. specialize (H (Datatypes.S j)). simpl in H. rewrite H. f_equal. lia. }
  assert (Ho : outcome_of c i = Some o).
  { unfold outcome_of. specialize (H 0%nat). simpl in H. rewrite Nat.add_0_r in H. rewrite <- H. reflexivity. }
  destruct (t0 + d =? S); simpl; rewrite ?Ho; destruct o; rewrite IH; auto.
Qed.

Lemma last_eq {A} (a b : list A) x y : a ++ [x] = b ++ [y] -> a = b /\ x = y.
Proof. intros H. apply app_inj_tail in H. exact H. Qed.

(** if the call raises, it raises at the earliest failure time [S], exactly the failures of the activities that
    finish at [S], in argument order *)
Theorem exec_raise c pre S es :
  valid c -> exec c = pre ++ [ERaise S es] ->
  es = failures_at (c_t0 c) S (c_acts c) /\ es <> [] /\
  (forall i e, (i < nacts c)%nat -> out_of (c_acts c) i = Fail e -> S <= ftime (c_t0 c) (c_acts c) i).
Proof.
  intros Hv Hex. destruct (exec_shape c Hv) as (s & t & a & rest & fe & HI & Hnd & Hg & Hk & He).
  pose proof HI as (HA & HF & HC). destruct (final_kind_final _ _ _ _ Hk) as (Hfin & Hft & Ha).
  pose proof (head_now _ _ _ _ _ HA Hg) as Hnow.
  pose proof (A_sorted _ _ HA) as Hs. rewrite Hg in Hs. pose proof (rest_lb _ _ _ Hs) as Hrl.
  assert (Hpend : pend (ag s) = pend rest) by (rewrite Hg; apply pend_cons_other; auto).
  rewrite He, app_assoc in Hex. apply last_eq in Hex. destruct Hex as [_ Hfe].
  assert (Hhead : In (t, a) (ag s)) by (rewrite Hg; left; reflexivity).
  (* the call raised: the failure list is not empty, and we are at the current time *)
  assert (Hes : t = S /\ es = fails s /\ fails s <> [] /\ t = now s).
  { destruct Hk as [(_ & _ & ->)|[(-> & Hcs & _ & ->)|[(_ & _ & ->)|(-> & _ & ->)]]]; try discriminate.
    - destruct (fails s) eqn:Ef; [discriminate|]. inversion Hfe; subst. repeat split; try discriminate.
      assert (Hm : c_mode c = MCollect) by (eapply mode_collect_of_cs; eauto).
      destruct (C_cp _ _ HC (or_introl Hm)) as [H1 _]. apply H1. exact Hhead.
    - inversion Hfe; subst. destruct (F_cancel2 _ _ HF _ Hhead) as [X Y]. auto. }
  destruct Hes as (-> & -> & Hne & HS).
  assert (HO : forall p, In p (pend rest) -> S < fst p).
  { destruct (A_O _ _ HA) as [HO|(Hev & _)].
    - rewrite Hg in HO. simpl in HO. destruct HO as [HO _]. specialize (HO Ha). rewrite Forall_forall in HO.
      intros [tp ip] Hp. apply pend_In in Hp. apply (HO _ Hp). reflexivity.
    - exfalso. apply Hne. rewrite (F_fails _ _ HF), Hev. reflexivity. }
  split; [|split; [exact Hne|]].
  - rewrite (F_fails _ _ HF).
    rewrite <- (fail_codes_at_time c (c_t0 c) S (c_acts c) 0) by (intros j; reflexivity).
    rewrite <- filter_finish_order. change (finish_order (c_t0 c) (c_acts c)) with (FO c).
    rewrite <- (A_order _ _ HA), Hpend, filter_app.
    assert (Hnil : filter (time_is S) (pend rest) = []).
    { clear - HO. induction (pend rest) as [|p l IH]; simpl; auto.
      assert (X : time_is S p = false) by (unfold time_is; apply Z.eqb_neq; specialize (HO p (or_introl eq_refl)); lia).
      rewrite X. apply IH. intros q Hq. apply HO. right. exact Hq. }
    rewrite Hnil, app_nil_r. symmetry. apply fail_codes_filter.
    intros p Hp Hfl. unfold time_is. apply Z.eqb_eq. rewrite (F_now _ _ HF p Hp Hfl). auto.
  - intros i e Hi Ho.
    assert (Hin : In (ftime (c_t0 c) (c_acts c) i, i) (FO c)) by (apply finish_order_In; simpl; auto).
    rewrite <- (A_order _ _ HA), Hpend in Hin. apply in_app_or in Hin. destruct Hin as [Hin|Hin].
    + assert (X : fst (ftime (c_t0 c) (c_acts c) i, i) = now s).
      { apply (F_now _ _ HF _ Hin). simpl. rewrite (outcome_of_lt _ _ Hi), Ho. reflexivity. }
      simpl in X. lia.
    + specialize (HO _ Hin). simpl in HO. lia.
Qed.

(** * What first() yields *)
Lemma yields_final s t a fe : final_kind s t a fe -> yields [fe] = [].
Proof.
  intros [(_ & _ & ->)|[(_ & _ & _ & ->)|[(_ & _ & ->)|(_ & _ & ->)]]]; simpl; auto. destruct (fails s); auto.
Qed.

Theorem exec_yields c :
  valid c -> c_mode c = MFirst ->
  let ys := yields (exec c) in
  let succs := succ_of c (FO c) in
  (length ys <= c_k c)%nat /\
  map snd ys = firstn (length ys) (map (val_of c) succs) /\
  (forall j y p, nth_error ys j = Some y -> nth_error succs j = Some p -> fst p <= fst y) /\
  (prompt c -> map fst ys = firstn (length ys) (map fst succs)) /\
  (forall pre S, exec c = pre ++ [EReturn S] -> length ys = c_k c).
Proof.
  intros Hv Hm. destruct (exec_shape c Hv) as (s & t & a & rest & fe & HI & Hnd & Hg & Hk & He).
  pose proof HI as (HA & HF & HC).
  assert (Hys : yields (exec c) = yields (ev s)).
  { rewrite He, !yields_app, yields_aborts, (yields_final _ _ _ _ Hk), !app_nil_r. reflexivity. }
  cbv zeta. rewrite Hys.
  pose proof (C_mode _ _ HC) as HM. rewrite Hm in HM. destruct HM as (HM1 & HM2 & HM3).
  assert (Hsu : succ_of c (FO c) = succ_of c (fins (ev s)) ++ succ_of c (pend (ag s))).
  { rewrite <- (A_order _ _ HA). apply succ_of_app. }
  split; [rewrite <- (C_got _ _ HC); apply (C_k _ _ HC)|]. split; [|split; [|split]].
  - rewrite <- (map_length snd (yields (ev s))). symmetry. apply prefix_firstn with (b := buf s ++ map (val_of c) (succ_of c (pend (ag s)))).
    rewrite Hsu, map_app, HM1, <- app_assoc. reflexivity.
  - intros j y p Hy Hp. assert (Hj : (j < length (yields (ev s)))%nat) by (apply nth_error_Some; congruence).
    pose proof (ys_le_succ _ _ HC). rewrite Hsu, nth_error_app1 in Hp by lia. eapply (C_ytime _ _ HC); eauto.
  - intros Hp. destruct (HM3 Hp) as [_ Ht].
    rewrite <- (map_length fst (yields (ev s))). symmetry.
    apply prefix_firstn with (b := repeat (now s) (length (buf s)) ++ map fst (succ_of c (pend (ag s)))).
    rewrite Hsu, map_app, Ht, <- app_assoc. reflexivity.
  - intros pre S Hex. rewrite He, app_assoc in Hex. apply last_eq in Hex. destruct Hex as [_ Hfe].
    destruct Hk as [(_ & Hcs & _)|[(_ & _ & _ & ->)|[(_ & _ & ->)|(_ & _ & ->)]]]; try discriminate.
    + rewrite Hcs in HM2. rewrite <- (C_got _ _ HC). exact HM2.
    + destruct (fails s); discriminate.
Qed.

(** without a failing activity the iteration ends normally *)
Theorem exec_first_returns c :
  valid c -> c_mode c = MFirst ->
  (forall i, (i < nacts c)%nat -> exists v, out_of (c_acts c) i = Val v) ->
  exists pre S, exec c = pre ++ [EReturn S].
Proof.
  intros Hv Hm Hall. destruct (exec_shape c Hv) as (s & t & a & rest & fe & HI & Hnd & Hg & Hk & He).
  pose proof HI as (HA & HF & HC).
  assert (Hf : fails s = []).
  { rewrite (F_fails _ _ HF). assert (X : forall p, In p (fins (ev s)) -> (snd p < nacts c)%nat).
    { intros [tp ip] Hp. assert (Y : In (tp, ip) (FO c)) by (rewrite <- (A_order _ _ HA); apply in_or_app; auto).
      apply FO_In in Y. simpl. tauto. }
    clear - X Hall. induction (fins (ev s)) as [|p l IH]; simpl; auto.
    pose proof (X p (or_introl eq_refl)) as Hp. rewrite (outcome_of_lt _ _ Hp).
    destruct (Hall _ Hp) as [v ->]. apply IH. intros q Hq. apply X. right. exact Hq. }
  exists (ev s ++ aborts t (ast s)), t. rewrite He, app_assoc. f_equal. f_equal.
  destruct Hk as [(_ & _ & ->)|[(_ & Hcs & _)|[(-> & _)|(-> & _)]]]; auto.
  - exfalso. assert (X : c_mode c = MCollect) by (eapply mode_collect_of_cs; eauto). congruence.
  - exfalso. assert (Hh : In (t, ACancel) (ag s)) by (rewrite Hg; left; reflexivity).
    destruct (F_cancel2 _ _ HF _ Hh). contradiction.
  - exfalso. assert (Hh : In (t, ACancel) (ag s)) by (rewrite Hg; left; reflexivity).
    destruct (F_cancel2 _ _ HF _ Hh). contradiction.
Qed.

(** the cancel signal only escapes when the consumer suspends in its own loop body (known finding D11) *)
Theorem exec_no_escape c :
  valid c -> (c_mode c = MCollect \/ prompt c) -> forall t, ~ In (EEscape t) (exec c).
Proof.
  intros Hv Hcp t0 Hin. destruct (exec_shape c Hv) as (s & t & a & rest & fe & HI & Hnd & Hg & Hk & He).
  pose proof HI as (HA & HF & HC). rewrite He in Hin. apply in_app_or in Hin. destruct Hin as [Hin|Hin].
  - pose proof (A_body _ _ HA) as Hb. rewrite Forall_forall in Hb. apply (Hb _ Hin).
  - apply in_app_or in Hin. destruct Hin as [Hin|[Hin|[]]].
    + apply aborts_In in Hin. destruct Hin as (j & X & _). discriminate.
    + destruct Hk as [(_ & _ & ->)|[(_ & _ & _ & ->)|[(_ & Hcs & ->)|(_ & _ & ->)]]]; try discriminate.
      * destruct (fails s); discriminate.
      * assert (Hm : c_mode c = MFirst) by (eapply mode_first_of_cs; eauto).
        pose proof (C_mode _ _ HC) as HM. rewrite Hm in HM. destruct HM as (_ & _ & HM3).
        destruct Hcp as [X|X]; [congruence|]. destruct (HM3 X) as [Y _]. contradiction.
Qed.

(** * collect() *)
Definition value_of (o : outcome) : Z := match o with Val v => v | Fail _ => 0 end.
Definition max_finish (t0 : Z) (acts : list activity) : Z :=
  fold_right Z.max t0 (map (fun a : activity => t0 + fst a) acts).
Definition all_succeed (acts : list activity) : Prop :=
  forall i, (i < length acts)%nat -> exists v, out_of acts i = Val v.
Definition fin_event (p : Z * nat) : event := EFin (fst p) (snd p).

Lemma zmax_le l t0 S : Forall (fun x => x <= S) l -> t0 <= S -> fold_right Z.max t0 l <= S.
Proof. induction 1; simpl; intros; [lia|]. specialize (IHForall H1). lia. Qed.

Lemma zmax_spec l t0 S :
  Forall (fun x => x <= S) l -> t0 <= S -> (S = t0 \/ In S l) -> fold_right Z.max t0 l = S.
Proof.
  induction 1 as [|x l Hx Hl IH]; simpl; intros Ht HS.
  - destruct HS as [->|[]]. reflexivity.
  - pose proof (zmax_le _ _ _ Hl Ht). destruct HS as [->|[->|HS]].
    + rewrite IH; auto. lia.
    + lia.
    + rewrite IH; auto. lia.
Qed.

Lemma times_In t0 acts x :
  In x (map (fun a : activity => t0 + fst a) acts) <-> exists i, (i < length acts)%nat /\ x = ftime t0 acts i.
Proof.
  split.
  - intros H. apply in_map_iff in H. destruct H as (a & <- & Ha). apply (In_nth _ _ (0, Val 0)) in Ha.
    destruct Ha as (i & Hi & <-). exists i. split; auto.
  - intros (i & Hi & ->). apply in_map_iff. exists (nth i acts (0, Val 0)). split; [reflexivity|]. apply nth_In. exact Hi.
Qed.

Lemma nonneg_delay acts i : nonneg acts -> (i < length acts)%nat -> 0 <= delay_of acts i.
Proof.
  intros H Hi. unfold nonneg in H. rewrite Forall_forall in H. apply H. apply nth_In. exact Hi.
Qed.

Lemma aborts_nil t l : (forall j, nth j l SAborted <> SSleep) -> aborts t l = [].
Proof.
  intros H. destruct (aborts t l) as [|e r] eqn:E; auto. exfalso.
  assert (X : In e (aborts t l)) by (rewrite E; left; reflexivity).
  apply aborts_In in X. destruct X as (j & _ & X). eapply H; eauto.
Qed.

Lemma body_fins l : Forall body_event l -> yields l = [] -> l = map fin_event (fins l).
Proof.
  induction 1 as [|e l He Hl IH]; simpl; auto. destruct e; simpl in *; try contradiction; intros Hy.
  - f_equal. apply IH. exact Hy.
  - discriminate.
Qed.

Lemma results_all acts : forall l,
  length l = length acts ->
  (forall i, (i < length acts)%nat -> nth i l SAborted = SDone (out_of acts i)) ->
  all_succeed acts -> results l = map (fun a : activity => value_of (snd a)) acts.
Proof.
  induction acts as [|a acts IH]; intros l Hl Hn Hall.
  - destruct l; [reflexivity | discriminate].
  - destruct l as [|x l]; [discriminate|]. simpl in Hl.
    pose proof (Hn 0%nat ltac:(simpl; lia)) as H0. simpl in H0. unfold out_of in H0. simpl in H0. subst x.
    destruct (Hall 0%nat ltac:(simpl; lia)) as [v Hv]. unfold out_of in Hv. simpl in Hv. rewrite Hv. simpl.
    f_equal; [rewrite Hv; reflexivity|]. apply IH.
    + lia.
    + intros i Hi. specialize (Hn (S i) ltac:(simpl; lia)). exact Hn.
    + intros i Hi. apply (Hall (S i)). simpl. lia.
Qed.

Lemma allval_fails_nil c s : InvA c s -> InvF c s -> all_succeed (c_acts c) -> fails s = [].
Proof.
  intros HA HF Hall. rewrite (F_fails _ _ HF).
  assert (X : forall p, In p (fins (ev s)) -> (snd p < nacts c)%nat).
  { intros [tp ip] Hp. assert (Y : In (tp, ip) (FO c)) by (rewrite <- (A_order _ _ HA); apply in_or_app; auto).
    apply FO_In in Y. simpl. tauto. }
  clear - X Hall. induction (fins (ev s)) as [|p l IH]; simpl; auto.
  pose proof (X p (or_introl eq_refl)) as Hp. rewrite (outcome_of_lt _ _ Hp).
  destruct (Hall _ Hp) as [v ->]. apply IH. intros q Hq. apply X. right. exact Hq.
Qed.

Lemma no_sleeper_no_pending c s : InvA c s -> first_sleep_from 0 (ast s) = None -> pend (ag s) = [].
Proof.
  intros HA Hn. destruct (pend (ag s)) as [|[tp ip] r] eqn:E; auto. exfalso.
  assert (X : In (tp, ip) (pend (ag s))) by (rewrite E; left; reflexivity).
  apply (A_sleep _ _ HA) in X. eapply first_sleep_from_None; eauto.
Qed.

(** (d) all activities succeed: every activity runs to its end, then the call returns the results in argument
    order at the time the slowest one finishes *)
Theorem exec_collect_ok c :
  valid c -> c_mode c = MCollect -> all_succeed (c_acts c) ->
  exec c = map fin_event (FO c) ++
           [EResult (max_finish (c_t0 c) (c_acts c)) (map (fun a : activity => value_of (snd a)) (c_acts c))].
Proof.
  intros Hv Hm Hall. destruct (exec_shape c Hv) as (s & t & a & rest & fe & HI & Hnd & Hg & Hk & He).
  pose proof HI as (HA & HF & HC). pose proof (allval_fails_nil _ _ HA HF Hall) as Hf.
  assert (Hhead : In (t, a) (ag s)) by (rewrite Hg; left; reflexivity).
  destruct Hk as [(_ & Hcs & _)|[(-> & Hcs & Hns & ->)|[(-> & _)|(-> & _)]]].
  - exfalso. assert (X : c_mode c = MFirst) by (eapply mode_first_of_cs; eauto). congruence.
  - pose proof (no_sleeper_no_pending _ _ HA Hns) as Hp.
    pose proof (A_order _ _ HA) as Ho. rewrite Hp, app_nil_r in Ho.
    rewrite He, Hf, (aborts_nil _ _ (first_sleep_from_None _ _ Hns)). simpl.
    rewrite (body_fins _ (A_body _ _ HA) (collect_ytime _ _ HC Hm)), Ho. f_equal. f_equal.
    destruct (C_cp _ _ HC (or_introl Hm)) as [H1 H2]. pose proof (H1 _ Hhead) as Ht.
    destruct Hv as [Hnn _].
    assert (Hall_le : Forall (fun x => x <= t) (map (fun a : activity => c_t0 c + fst a) (c_acts c))).
    { rewrite Forall_forall. intros x Hx. apply times_In in Hx. destruct Hx as (i & Hi & ->).
      assert (Y : In (ftime (c_t0 c) (c_acts c) i, i) (FO c)) by (apply finish_order_In; simpl; auto).
      rewrite <- Ho in Y. pose proof (fins_past _ _ _ HA Y). simpl in *. lia. }
    assert (Hdisj : t = c_t0 c \/ In t (map (fun a : activity => c_t0 c + fst a) (c_acts c))).
    { destruct H2 as [H2|(p & Hp1 & Hp2)]; [left; lia|]. right. apply times_In. rewrite Ho in Hp1.
      destruct p as [tp ip]. apply FO_In in Hp1. exists ip. simpl in *. split; [tauto | lia]. }
    assert (Hge : c_t0 c <= t).
    { destruct Hdisj as [->|Hd]; [lia|]. apply times_In in Hd. destruct Hd as (i & Hi & ->).
      pose proof (nonneg_delay _ _ Hnn Hi). unfold ftime. lia. }
    f_equal.
    + symmetry. apply zmax_spec; auto.
    + apply results_all; auto.
      * apply (A_len _ _ HA).
      * intros i Hi. assert (Y : In (ftime (c_t0 c) (c_acts c) i, i) (FO c)) by (apply finish_order_In; simpl; auto).
        rewrite <- Ho in Y. destruct (A_done _ _ HA _ _ Y) as (o & Ho1 & Ho2).
        rewrite (outcome_of_lt _ _ Hi) in Ho1. congruence.
  - exfalso. destruct (F_cancel2 _ _ HF _ Hhead). contradiction.
  - exfalso. destruct (F_cancel2 _ _ HF _ Hhead). contradiction.
Qed.

(** (e) some activity fails: the call raises *)
Theorem exec_collect_raises c i e :
  valid c -> c_mode c = MCollect -> (i < nacts c)%nat -> out_of (c_acts c) i = Fail e ->
  exists pre S es, exec c = pre ++ [ERaise S es].
Proof.
  intros Hv Hm Hi Hfl. destruct (exec_shape c Hv) as (s & t & a & rest & fe & HI & Hnd & Hg & Hk & He).
  pose proof HI as (HA & HF & HC).
  exists (ev s ++ aborts t (ast s)), t, (fails s). rewrite He, app_assoc. f_equal. f_equal.
  destruct Hk as [(_ & Hcs & _)|[(-> & Hcs & Hns & ->)|[(-> & Hcs & _)|(-> & _ & ->)]]]; auto.
  - exfalso. assert (X : c_mode c = MFirst) by (eapply mode_first_of_cs; eauto). congruence.
  - pose proof (no_sleeper_no_pending _ _ HA Hns) as Hp.
    pose proof (A_order _ _ HA) as Ho. rewrite Hp, app_nil_r in Ho.
    assert (Y : In (ftime (c_t0 c) (c_acts c) i, i) (fins (ev s))) by (rewrite Ho; apply finish_order_In; simpl; auto).
    assert (Z0 : fails s <> []).
    { eapply failing_fails; eauto. simpl. rewrite (outcome_of_lt _ _ Hi), Hfl. reflexivity. }
    destruct (fails s); [congruence | reflexivity].
  - exfalso. assert (X : c_mode c = MFirst) by (eapply mode_first_of_cs; eauto). congruence.
Qed.

(** * The stop, restated activity by activity *)
Theorem exec_stop_activities c :
  valid c ->
  exists S body ab fe,
    exec c = body ++ ab ++ [fe] /\ is_final fe /\ ev_time fe = S /\
    Forall body_event body /\ Forall (fun e => ev_time e <= S) body /\
    (* what finished, finished at its own finish time, not later than the stop, and is not aborted *)
    (forall t i, In (EFin t i) body ->
       (i < nacts c)%nat /\ t = ftime (c_t0 c) (c_acts c) i /\ t <= S /\ ~ In (EAbort S i) ab) /\
    (* only unfinished activities are aborted, all at the stop time *)
    (forall e, In e ab -> exists i, e = EAbort S i /\ (i < nacts c)%nat /\
                                    S <= ftime (c_t0 c) (c_acts c) i /\ forall t, ~ In (EFin t i) body) /\
    (* everything that would finish later is aborted at the stop time *)
    (forall i, (i < nacts c)%nat -> S < ftime (c_t0 c) (c_acts c) i -> In (EAbort S i) ab) /\
    (* every activity either finishes or is aborted *)
    (forall i, (i < nacts c)%nat -> (exists t, In (EFin t i) body) \/ In (EAbort S i) ab) /\
    (* ties with the stop time: activities whose finish time IS the stop time still finish
       (except for first(count=0), which stops before anything can run) *)
    ((c_mode c = MCollect \/ (0 < c_k c)%nat) ->
     (forall i, (i < nacts c)%nat -> ftime (c_t0 c) (c_acts c) i <= S -> In (EFin (ftime (c_t0 c) (c_acts c) i) i) body) /\
     (forall i, In (EAbort S i) ab -> S < ftime (c_t0 c) (c_acts c) i)).
Proof.
  intros Hv. destruct (exec_stop c Hv) as (S & body & ab & fe & He & Hfin & Hft & Hb & Hle & Hab & Hf & Hu & Hstrict).
  exists S, body, ab, fe. split; [exact He|]. split; [exact Hfin|]. split; [exact Hft|]. split; [exact Hb|].
  split; [exact Hle|].
  assert (Hdec : forall i, (exists t, In (EFin t i) body) \/ (forall t, ~ In (EFin t i) body)).
  { intros i. destruct (in_dec Nat.eq_dec i (map snd (fins body))) as [Hin|Hnin].
    - left. apply in_map_iff in Hin. destruct Hin as ([t j] & <- & Hin). exists t. apply fins_In. exact Hin.
    - right. intros t Hin. apply Hnin. apply fins_In in Hin. change i with (snd (t, i)). apply in_map. exact Hin. }
  split; [|split; [|split; [|split]]].
  - intros t i Hin. destruct (Hf _ _ Hin) as [Hi Ht]. split; [exact Hi|]. split; [exact Ht|]. split.
    + rewrite Forall_forall in Hle. apply (Hle _ Hin).
    + intros X. apply Hab in X. destruct X as (j & Hj & _ & Hn). inversion Hj; subst. eapply Hn; eauto.
  - intros e Hin. apply Hab in Hin. destruct Hin as (i & -> & Hi & Hn). exists i. repeat split; auto.
  - intros i Hi Hlt. apply Hab. exists i. repeat split; auto. intros t Hin.
    destruct (Hf _ _ Hin) as [_ Ht]. rewrite Forall_forall in Hle. specialize (Hle _ Hin). simpl in Hle. lia.
  - intros i Hi. destruct (Hdec i) as [H|H]; [left; exact H|]. right. apply Hab. exists i. auto.
  - intros Hmk. split.
    + intros i Hi Hle'. destruct (Hdec i) as [[t H]|H].
      * destruct (Hf _ _ H) as [_ ->]. exact H.
      * specialize (Hstrict Hmk i Hi H). lia.
    + intros i Hin. apply Hab in Hin. destruct Hin as (j & Hj & Hi & Hn). inversion Hj; subst. apply Hstrict; auto.
Qed.

(** * The theorems about [first_run] and [collect_run] *)
Definition count_of (acts : list activity) (count : option nat) : nat :=
  match count with Some k => k | None => length acts end.
Definition succeeded (acts : list activity) (p : Z * nat) : bool :=
  match out_of acts (snd p) with Val _ => true | Fail _ => false end.
Definition value_at (acts : list activity) (p : Z * nat) : Z := value_of (out_of acts (snd p)).
(** the activities that succeed, in the order in which they finish *)
Definition successes (t0 : Z) (acts : list activity) : list (Z * nat) := filter (succeeded acts) (finish_order t0 acts).
Definition prompt_consumer (thinks : list Z) : Prop := forall j, nth j thinks 0 <= 0.

Lemma first_run_exec t0 acts count thinks :
  (count_of acts count <= length acts)%nat ->
  first_run t0 acts count thinks = exec (first_cfg t0 acts count thinks).
Proof.
  intros H. unfold first_run. simpl.
  assert (E : Nat.ltb (length acts) (count_of acts count) = false) by (apply Nat.ltb_ge; exact H).
  unfold count_of in E. rewrite E. reflexivity.
Qed.

Lemma first_cfg_valid t0 acts count thinks :
  nonneg acts -> (count_of acts count <= length acts)%nat -> valid (first_cfg t0 acts count thinks).
Proof. intros H1 H2. split; simpl; auto. Qed.

Lemma succ_of_successes c :
  succ_of c (FO c) = successes (c_t0 c) (c_acts c) /\
  map (val_of c) (succ_of c (FO c)) = map (value_at (c_acts c)) (successes (c_t0 c) (c_acts c)).
Proof.
  assert (E : succ_of c (FO c) = successes (c_t0 c) (c_acts c)).
  { unfold succ_of, successes, FO. apply filter_ext_in. intros [t i] Hp. apply finish_order_In in Hp.
    destruct Hp as [Hi _]. simpl in *. rewrite (outcome_of_lt _ _ Hi). unfold succeeded. simpl.
    destruct (out_of (c_acts c) i); reflexivity. }
  split; [exact E|]. rewrite E. apply map_ext_in. intros [t i] Hp. unfold successes in Hp. apply filter_In in Hp.
  destruct Hp as [Hp _]. apply finish_order_In in Hp. destruct Hp as [Hi _]. simpl in *.
  unfold val_of, value_at. simpl. rewrite (outcome_of_lt _ _ Hi). destruct (out_of (c_acts c) i); reflexivity.
Qed.

Lemma all_succeed_successes t0 acts : all_succeed acts -> successes t0 acts = finish_order t0 acts.
Proof.
  intros H. unfold successes. assert (X : forall p, In p (finish_order t0 acts) -> succeeded acts p = true).
  { intros [t i] Hp. apply finish_order_In in Hp. destruct Hp as [Hi _]. simpl in Hi. unfold succeeded. simpl.
    destruct (H _ Hi) as [v ->]. reflexivity. }
  induction (finish_order t0 acts) as [|p l IH]; simpl; auto. rewrite (X p (or_introl eq_refl)). f_equal.
  apply IH. intros q Hq. apply X. right. exact Hq.
Qed.

(** (b) ValueError exactly when count exceeds the number of activities, and then nothing else happens *)
Theorem first_valueerror_iff t0 acts count thinks :
  nonneg acts ->
  ((length acts < count_of acts count)%nat -> first_run t0 acts count thinks = [EValueError t0]) /\
  ((exists t, In (EValueError t) (first_run t0 acts count thinks)) -> (length acts < count_of acts count)%nat).
Proof.
  intros Hnn. split.
  - intros H. unfold first_run. simpl. apply Nat.ltb_lt in H. unfold count_of in H. rewrite H. reflexivity.
  - intros [t Hin]. destruct (Nat.lt_ge_cases (length acts) (count_of acts count)) as [H|H]; auto. exfalso.
    rewrite (first_run_exec _ _ _ _ H) in Hin.
    destruct (exec_stop _ (first_cfg_valid t0 acts count thinks Hnn H))
      as (S & body & ab & fe & He & Hfin & _ & Hb & _ & Hab & _).
    rewrite He in Hin. apply in_app_or in Hin. destruct Hin as [Hin|Hin].
    + rewrite Forall_forall in Hb. apply (Hb _ Hin).
    + apply in_app_or in Hin. destruct Hin as [Hin|[Hin|[]]].
      * apply Hab in Hin. destruct Hin as (i & X & _). discriminate.
      * rewrite Hin in Hfin. exact Hfin.
Qed.

(** (a) what first() yields: the successful activities in the order in which they finish (ties: argument order),
    never more than [count], each not before it finished -- and exactly when it finished if the consumer is
    prompt.  This holds with failing activities as well. *)
Theorem first_yields_in_finish_order t0 acts count thinks :
  nonneg acts -> (count_of acts count <= length acts)%nat ->
  let ys := yields (first_run t0 acts count thinks) in
  (length ys <= count_of acts count)%nat /\
  map snd ys = map (value_at acts) (firstn (length ys) (successes t0 acts)) /\
  (forall j y p, nth_error ys j = Some y -> nth_error (successes t0 acts) j = Some p -> fst p <= fst y) /\
  (prompt_consumer thinks -> map fst ys = map fst (firstn (length ys) (successes t0 acts))) /\
  (forall pre S, first_run t0 acts count thinks = pre ++ [EReturn S] -> length ys = count_of acts count).
Proof.
  intros Hnn Hk. cbv zeta. rewrite (first_run_exec _ _ _ _ Hk).
  set (c := first_cfg t0 acts count thinks).
  destruct (exec_yields c (first_cfg_valid t0 acts count thinks Hnn Hk) eq_refl) as (H1 & H2 & H3 & H4 & H5).
  destruct (succ_of_successes c) as [E1 E2]. change (c_t0 c) with t0 in *. change (c_acts c) with acts in *.
  rewrite E1 in H3, H4. rewrite E2 in H2.
  split; [exact H1|]. split; [rewrite H2; apply firstn_map|]. split; [exact H3|].
  split; [intros Hp; rewrite (H4 Hp); apply firstn_map | exact H5].
Qed.

(** (a) when no activity fails: exactly the first [count] activities of the finish order, and the iteration ends
    normally *)
Theorem first_yields_first_k t0 acts count thinks :
  nonneg acts -> (count_of acts count <= length acts)%nat -> all_succeed acts ->
  let tr := first_run t0 acts count thinks in
  let k := count_of acts count in
  map snd (yields tr) = map (value_at acts) (firstn k (finish_order t0 acts)) /\
  (forall j y p, nth_error (yields tr) j = Some y -> nth_error (finish_order t0 acts) j = Some p -> fst p <= fst y) /\
  (prompt_consumer thinks -> map fst (yields tr) = map fst (firstn k (finish_order t0 acts))) /\
  (exists pre S, tr = pre ++ [EReturn S]).
Proof.
  intros Hnn Hk Hall. cbv zeta.
  destruct (first_yields_in_finish_order t0 acts count thinks Hnn Hk) as (H1 & H2 & H3 & H4 & H5).
  rewrite (all_succeed_successes _ _ Hall) in *.
  assert (Hret : exists pre S, first_run t0 acts count thinks = pre ++ [EReturn S]).
  { rewrite (first_run_exec _ _ _ _ Hk). apply exec_first_returns; auto. apply first_cfg_valid; auto. }
  destruct Hret as (pre & S & Hret). rewrite (H5 _ _ Hret) in *.
  split; [exact H2|]. split; [exact H3|]. split; [exact H4|]. eauto.
Qed.

(** (c) the stop *)
Theorem first_stop t0 acts count thinks :
  nonneg acts -> (count_of acts count <= length acts)%nat ->
  exists S body ab fe,
    first_run t0 acts count thinks = body ++ ab ++ [fe] /\ is_final fe /\ ev_time fe = S /\
    Forall body_event body /\ Forall (fun e => ev_time e <= S) body /\
    (forall t i, In (EFin t i) body ->
       (i < length acts)%nat /\ t = ftime t0 acts i /\ t <= S /\ ~ In (EAbort S i) ab) /\
    (forall e, In e ab -> exists i, e = EAbort S i /\ (i < length acts)%nat /\
                                    S <= ftime t0 acts i /\ forall t, ~ In (EFin t i) body) /\
    (forall i, (i < length acts)%nat -> S < ftime t0 acts i -> In (EAbort S i) ab) /\
    (forall i, (i < length acts)%nat -> (exists t, In (EFin t i) body) \/ In (EAbort S i) ab) /\
    ((0 < count_of acts count)%nat ->
     (forall i, (i < length acts)%nat -> ftime t0 acts i <= S -> In (EFin (ftime t0 acts i) i) body) /\
     (forall i, In (EAbort S i) ab -> S < ftime t0 acts i)).
Proof.
  intros Hnn Hk. rewrite (first_run_exec _ _ _ _ Hk).
  destruct (exec_stop_activities _ (first_cfg_valid t0 acts count thinks Hnn Hk))
    as (S & body & ab & fe & H1 & H2 & H3 & H4 & H5 & H6 & H7 & H8 & H9 & H10).
  exists S, body, ab, fe. repeat (split; [assumption|]). intros Hpos. apply H10. right. exact Hpos.
Qed.

(** if first() raises, it raises at the earliest failure time exactly the failures of that time, in argument order *)
Theorem first_raise t0 acts count thinks pre S es :
  nonneg acts -> (count_of acts count <= length acts)%nat ->
  first_run t0 acts count thinks = pre ++ [ERaise S es] ->
  es = failures_at t0 S acts /\ es <> [] /\
  (forall i e, (i < length acts)%nat -> out_of acts i = Fail e -> S <= ftime t0 acts i).
Proof.
  intros Hnn Hk H. rewrite (first_run_exec _ _ _ _ Hk) in H.
  apply (exec_raise _ _ _ _ (first_cfg_valid t0 acts count thinks Hnn Hk) H).
Qed.

(** with a prompt consumer the cancel signal of first()'s scope never escapes (D11 needs a suspended consumer) *)
Theorem first_prompt_no_escape t0 acts count thinks :
  nonneg acts -> prompt_consumer thinks -> forall t, ~ In (EEscape t) (first_run t0 acts count thinks).
Proof.
  intros Hnn Hp t Hin. destruct (Nat.lt_ge_cases (length acts) (count_of acts count)) as [H|H].
  - destruct (first_valueerror_iff t0 acts count thinks Hnn) as [X _]. rewrite (X H) in Hin.
    destruct Hin as [Y|[]]. discriminate.
  - rewrite (first_run_exec _ _ _ _ H) in Hin.
    apply (exec_no_escape _ (first_cfg_valid t0 acts count thinks Hnn H) (or_intror Hp) t Hin).
Qed.

(** the model never gets stuck and never runs out of fuel *)
Theorem runs_finish t0 acts count thinks :
  nonneg acts -> ~ In EStuck (first_run t0 acts count thinks) /\ ~ In EStuck (collect_run t0 acts).
Proof.
  intros Hnn.
  assert (G : forall c, valid c -> ~ In EStuck (exec c)).
  { intros c Hv Hin. destruct (exec_stop c Hv) as (S & body & ab & fe & He & Hfin & _ & Hb & _ & Hab & _).
    rewrite He in Hin. apply in_app_or in Hin. destruct Hin as [Hin|Hin].
    - rewrite Forall_forall in Hb. apply (Hb _ Hin).
    - apply in_app_or in Hin. destruct Hin as [Hin|[Hin|[]]].
      + apply Hab in Hin. destruct Hin as (i & X & _). discriminate.
      + rewrite Hin in Hfin. exact Hfin. }
  split.
  - destruct (Nat.lt_ge_cases (length acts) (count_of acts count)) as [H|H].
    + destruct (first_valueerror_iff t0 acts count thinks Hnn) as [X _]. rewrite (X H).
      intros [Y|[]]. discriminate.
    + rewrite (first_run_exec _ _ _ _ H). apply G. apply first_cfg_valid; auto.
  - apply G. split; simpl; auto. lia.
Qed.

(** (d) *)
Theorem collect_returns_all t0 acts :
  nonneg acts -> all_succeed acts ->
  collect_run t0 acts =
  map fin_event (finish_order t0 acts) ++
  [EResult (max_finish t0 acts) (map (fun a : activity => value_of (snd a)) acts)].
Proof.
  intros Hnn Hall. apply (exec_collect_ok (collect_cfg t0 acts)); auto. split; simpl; auto. lia.
Qed.

(** (e) *)
Theorem collect_raises_first_failure t0 acts i e :
  nonneg acts -> (i < length acts)%nat -> out_of acts i = Fail e ->
  exists S body ab,
    collect_run t0 acts = body ++ ab ++ [ERaise S (failures_at t0 S acts)] /\
    failures_at t0 S acts <> [] /\
    (forall j e', (j < length acts)%nat -> out_of acts j = Fail e' -> S <= ftime t0 acts j) /\
    Forall body_event body /\
    (forall t j, In (EFin t j) body -> (j < length acts)%nat /\ t = ftime t0 acts j /\ t <= S) /\
    (forall j, (j < length acts)%nat -> ftime t0 acts j <= S -> In (EFin (ftime t0 acts j) j) body) /\
    (forall x, In x ab <-> exists j, x = EAbort S j /\ (j < length acts)%nat /\ S < ftime t0 acts j).
Proof.
  intros Hnn Hi Hfl. set (c := collect_cfg t0 acts).
  assert (Hv : valid c) by (split; simpl; auto; lia).
  destruct (exec_collect_raises c i e Hv eq_refl Hi Hfl) as (pre & S & es & Hex).
  destruct (exec_raise c pre S es Hv Hex) as (Hes & Hne & Hmin).
  destruct (exec_stop_activities c Hv) as (S' & body & ab & fe & H1 & H2 & H3 & H4 & H5 & H6 & H7 & H8 & H9 & H10).
  destruct (H10 (or_introl eq_refl)) as [H11 H12].
  assert (Hfe : fe = ERaise S es /\ S' = S).
  { rewrite H1, app_assoc in Hex. apply last_eq in Hex. destruct Hex as [_ X]. split; auto. rewrite <- H3, X. reflexivity. }
  destruct Hfe as [-> ->]. subst es. exists S, body, ab. unfold collect_run. fold c. rewrite H1.
  split; [reflexivity|]. split; [exact Hne|]. split; [exact Hmin|]. split; [exact H4|].
  split; [|split].
  - intros t j Hin. destruct (H6 _ _ Hin) as (X1 & X2 & X3 & _). auto.
  - exact H11.
  - intros x. split.
    + intros Hin. destruct (H7 _ Hin) as (j & -> & Hj & _ & _). exists j. repeat split; auto.
    + intros (j & -> & Hj & Hlt). apply H8; auto.
Qed.

(** * Examples (non-trivial instances, by computation) *)

(** finish order: by time, ties in argument order *)
Example ex_finish_order :
  finish_order 0 [(3, Val 10); (1, Val 11); (3, Fail 90); (0, Val 13); (1, Val 14)]
  = [(0, 3%nat); (1, 1%nat); (1, 4%nat); (3, 0%nat); (3, 2%nat)].
Proof. vm_compute. reflexivity. Qed.

(** (a) tie around the k-th result: activity 1 finishes in the same time step as the winner, before the consumer's
    turn, so it still runs to its end; its result is dropped; activity 2 is aborted *)
Example ex_first_tie :
  first_run 0 [(2, Val 10); (2, Val 11); (3, Val 12)] (Some 1%nat) []
  = [EFin 2 0; EFin 2 1; EYield 2 10; EAbort 2 2; EReturn 2].
Proof. vm_compute. reflexivity. Qed.

(** (a) a slow consumer: results wait in the queue and are delivered in finish order when it comes back;
    instance of [first_yields_first_k] *)
Example ex_first_slow_consumer :
  let acts := [(1, Val 10); (6, Val 13); (3, Val 12); (2, Val 11)] in
  first_run 0 acts (Some 3%nat) [4; 0; 0]
  = [EFin 1 0; EYield 1 10; EFin 2 3; EFin 3 2; EYield 5 11; EYield 5 12; EAbort 5 1; EReturn 5] /\
  map snd (yields (first_run 0 acts (Some 3%nat) [4; 0; 0])) = map (value_at acts) (firstn 3 (finish_order 0 acts)).
Proof. vm_compute. split; reflexivity. Qed.

Example ex_first_prompt_times :
  let acts := [(3, Val 10); (1, Val 11); (3, Val 12); (1, Val 13)] in
  yields (first_run 5 acts None []) = [(6, 11); (6, 13); (8, 10); (8, 12)] /\
  map fst (yields (first_run 5 acts None [])) = map fst (firstn 4 (finish_order 5 acts)).
Proof. vm_compute. split; reflexivity. Qed.

(** (b) *)
Example ex_first_valueerror :
  first_run 7 [(0, Val 10); (1, Val 11)] (Some 3%nat) [] = [EValueError 7] /\
  first_run 7 [] (Some 0%nat) [] = [EReturn 7].
Proof. vm_compute. split; reflexivity. Qed.

(** (c) count = 0: the scope is left before anything can run, even an activity without delay is aborted *)
Example ex_first_count_zero :
  first_run 0 [(0, Val 10); (1, Val 11)] (Some 0%nat) [] = [EAbort 0 0; EAbort 0 1; EReturn 0].
Proof. vm_compute. reflexivity. Qed.

(** (c) the stop time of a slow consumer is when it comes back: what finishes until then finishes *)
Example ex_first_stop_late :
  first_run 0 [(1, Val 10); (3, Val 11); (4, Val 12)] (Some 1%nat) [2]
  = [EFin 1 0; EYield 1 10; EFin 3 1; EAbort 3 2; EReturn 3].
Proof. vm_compute. reflexivity. Qed.

(** failures in first(): one more result of that time step may be delivered, then all failures of the step *)
Example ex_first_failure :
  first_run 0 [(1, Val 10); (1, Val 11); (1, Fail 90); (1, Fail 91); (2, Val 12)] (Some 3%nat) []
  = [EFin 1 0; EFin 1 1; EFin 1 2; EFin 1 3; EYield 1 10; EAbort 1 4; ERaise 1 [90; 91]] /\
  failures_at 0 1 [(1, Val 10); (1, Val 11); (1, Fail 90); (1, Fail 91); (2, Val 12)] = [90; 91].
Proof. vm_compute. split; reflexivity. Qed.

(** known finding D11 on the model: the failure arrives while the consumer is in its own loop body *)
Example ex_first_escape :
  first_run 0 [(1, Val 10); (2, Fail 90); (5, Val 11)] (Some 2%nat) [3]
  = [EFin 1 0; EYield 1 10; EFin 2 1; EAbort 2 2; EEscape 2].
Proof. vm_compute. reflexivity. Qed.

(** (d) instance of [collect_returns_all] *)
Example ex_collect_ok :
  let acts := [(3, Val 10); (1, Val 11); (2, Val 12)] in
  collect_run 4 acts = [EFin 5 1; EFin 6 2; EFin 7 0; EResult 7 [10; 11; 12]] /\
  max_finish 4 acts = 7 /\ collect_run 4 [] = [EResult 4 []].
Proof. vm_compute. repeat split; reflexivity. Qed.

(** (e) instance of [collect_raises_first_failure]: activities 2, 3, 4 finish at the failure time (the
    successful one too), activity 0 is aborted *)
Example ex_collect_failure :
  let acts := [(3, Val 10); (1, Val 11); (2, Fail 90); (2, Fail 91); (2, Val 13); (0, Val 14); (4, Fail 92)] in
  collect_run 0 acts
  = [EFin 0 5; EFin 1 1; EFin 2 2; EFin 2 3; EFin 2 4; EAbort 2 0; EAbort 2 6; ERaise 2 [90; 91]] /\
  failures_at 0 2 acts = [90; 91].
Proof. vm_compute. split; reflexivity. Qed.

(** the hypotheses of the theorems are satisfiable *)
Example ex_hypotheses :
  nonneg [(3, Val 10); (0, Fail 90)] /\ all_succeed [(3, Val 10); (1, Val 11)] /\ prompt_consumer [0; 0].
Proof.
  split; [repeat constructor; simpl; lia|]. split.
  - intros [|[|i]] Hi; simpl in Hi; try lia; eexists; reflexivity.
  - intros [|[|[|j]]]; simpl; lia.
Qed.

(** * Full-strength readings that are FALSE of the faithful model (and of the library): witnesses *)

(** "first() yields min(count, number of successful activities) results": false when an activity fails -
    the failure ends the iteration although enough successful activities exist (here 3 successes, count 3, 1 yield) *)
Theorem first_yields_min_count_successes_refuted :
  exists t0 acts count thinks,
    nonneg acts /\ (count_of acts count <= length acts)%nat /\ prompt_consumer thinks /\
    (length (yields (first_run t0 acts count thinks))
     < Nat.min (count_of acts count) (length (successes t0 acts)))%nat.
Proof.
  exists 0, [(1, Val 10); (1, Val 11); (1, Fail 90); (2, Val 12)], (Some 3%nat), [].
  split; [repeat constructor; simpl; lia|]. split; [simpl; lia|]. split; [intros [|j]; simpl; lia|].
  vm_compute. lia.
Qed.

(** "an activity whose finish time is the stop time still finishes": false for count = 0 - the scope is left
    in the caller's first turn, before an activity without delay gets its second turn *)
Theorem first_tie_with_stop_finishes_refuted :
  exists t0 acts count thinks i,
    nonneg acts /\ (count_of acts count <= length acts)%nat /\ (i < length acts)%nat /\
    In (EReturn (ftime t0 acts i)) (first_run t0 acts count thinks) /\
    In (EAbort (ftime t0 acts i) i) (first_run t0 acts count thinks).
Proof.
  exists 0, [(0, Val 10); (1, Val 11)], (Some 0%nat), [], 0%nat.
  split; [repeat constructor; simpl; lia|]. split; [simpl; lia|]. split; [simpl; lia|].
  vm_compute. tauto.
Qed.
