(** The private-interrupt ("wake-up") protocol of usim, one protocol instance per Interrupt object.

    Part 1: ONE waiter [me] with its private interrupt w on one notification.  This is the code shared by
    [postpone], [suspend] (notification.py:15-60), [Notification.__await__/__subscription__/__subscribe__/
    __unsubscribe__/__awake_next__/__awake_all__] (notification.py:78-127), [Condition.__subscribe__]
    (condition.py:86-93), [Delay.__subscribe__] and the [until] scope (context.py:347-354, whose waiter is
    the scope owner and whose [finally] is [_disable_interrupts]).  The environment is fully
    nondeterministic: any event may happen at any time, any number of times; events that the library
    cannot perform in the current state are no-ops.
    Part 2: [Scope._cancel_self] (context.py:199-217) and [Task.cancel]/[CancelTask] (task.py:118-160,236-257).

    All state is about one interrupt object; the ghost fields [*_got]/[*_late] record deliveries. *)
From Coq Require Import List Bool Arith.
Import ListNotations.

(** * Part 1: a wait and its private wake-up interrupt *)

(** how w gets registered: [postpone] / [suspend] schedule it themselves; a plain notification appends
    (waiter, w) to its list; a true condition marks and schedules it now; a Delay marks and schedules it later *)
Inductive skind := SelfNow | SelfLater | Plain | CondTrue | DelaySub.
Inductive how := ByWake | BySignal.
(** [Woken]: w was thrown into the waiter and its [finally] has not run yet (immediately follows for a plain
    wait; for [until] the scope body is unwound first and anything may happen in between) *)
Inductive phase := Idle | Waiting | Woken | Left (h : how).

Record wst := {
  w_kind : skind;
  w_list : list nat;   (* waiter fields of the entries (x, w) of notification._waiting, oldest first *)
  w_sched : bool;      (* w.scheduled *)
  w_revk : bool;       (* w._revoked *)
  w_q : list nat;      (* targets of the queued activations whose signal is w, oldest first *)
  w_got : list nat;    (* ghost: the activities into which w has been thrown *)
  w_late : nat;        (* ghost: number of times w was thrown while its waiter was not Waiting *)
  w_err : bool;        (* ValueError of [_waiting.remove] *)
  w_ph : phase }.

Definition winit : wst := Build_wst Plain [] false false [] [] 0 false Idle.

Inductive wev :=
| ESub (k : skind)  (* the waiter starts the wait *)
| EAwake            (* anybody: __awake_next__/__awake_all__ reaches an entry carrying w *)
| EPop              (* the kernel pops an activation carrying w: executes it iff w is not revoked *)
| EForeign          (* another signal (cancel, scope interrupt, close) ends the wait: [finally] *)
| EUnwind.          (* the woken waiter runs its [finally] *)

Fixpoint remove_first (x : nat) (l : list nat) : option (list nat) :=
  match l with
  | [] => None
  | y :: r => if Nat.eqb x y then Some r
              else match remove_first x r with Some r' => Some (y :: r') | None => None end
  end.

(** [finally: wake_up.revoke()] of postpone/suspend; [finally: __unsubscribe__] otherwise:
    [if interrupt.scheduled: interrupt.revoke() else: self._waiting.remove((waiter, interrupt))] *)
Definition wfin (me : nat) (s : wst) (h : how) : wst :=
  let revoke := match w_kind s with SelfNow | SelfLater => true | _ => w_sched s end in
  if revoke then
    Build_wst (w_kind s) (w_list s) (w_sched s) true (w_q s) (w_got s) (w_late s) (w_err s) (Left h)
  else match remove_first me (w_list s) with
       | Some l' => Build_wst (w_kind s) l' (w_sched s) (w_revk s) (w_q s) (w_got s) (w_late s) (w_err s) (Left h)
       | None => Build_wst (w_kind s) (w_list s) (w_sched s) (w_revk s) (w_q s) (w_got s) (w_late s) true (Left h)
       end.

Definition wstep (me : nat) (s : wst) (e : wev) : wst :=
  match e with
  | ESub k =>
      match w_ph s with
      | Idle => match k with
                | Plain => Build_wst k [me] false false [] [] 0 false Waiting
                | _ => Build_wst k [] true false [me] [] 0 false Waiting
                end
      | _ => s
      end
  | EAwake =>
      match w_list s with
      | [] => s
      | x :: r => Build_wst (w_kind s) r true (w_revk s) (w_q s ++ [x]) (w_got s) (w_late s) (w_err s) (w_ph s)
      end
  | EPop =>
      match w_q s with
      | [] => s
      | x :: r =>
          if w_revk s then
            Build_wst (w_kind s) (w_list s) (w_sched s) true r (w_got s) (w_late s) (w_err s) (w_ph s)
          else
            match w_ph s with
            | Waiting => Build_wst (w_kind s) (w_list s) (w_sched s) false r (w_got s ++ [x]) (w_late s) (w_err s) Woken
            | p => Build_wst (w_kind s) (w_list s) (w_sched s) false r (w_got s ++ [x]) (S (w_late s)) (w_err s) p
            end
      end
  | EForeign => match w_ph s with Waiting | Woken => wfin me s BySignal | _ => s end
  | EUnwind => match w_ph s with Woken => wfin me s ByWake | _ => s end
  end.

Definition wrun (me : nat) (s : wst) (tr : list wev) : wst := fold_left (wstep me) tr s.

(** * Part 2a: Scope._cancel_self (one CancelScope object per scope, scheduled any number of times) *)

Record cst := {
  c_int : bool;     (* _interruptable *)
  c_revk : bool;    (* _cancel_self._revoked *)
  c_q : nat;        (* queued activations (owner, _cancel_self) *)
  c_in : bool;      (* the owner is still inside the scope block (before _close_scope) *)
  c_got : nat;      (* ghost: deliveries *)
  c_late : nat }.   (* ghost: deliveries after the owner left *)

Definition cinit : cst := Build_cst true false 0 true 0 0.

Inductive cev :=
| CFail     (* __child_finished__(failed=True) or __cancel__: [if self._interruptable: schedule] *)
| CPop      (* the kernel pops one of the activations *)
| CClose.   (* _close_scope -> _disable_interrupts *)

Definition cstep (s : cst) (e : cev) : cst :=
  match e with
  | CFail => if c_int s then Build_cst true (c_revk s) (S (c_q s)) (c_in s) (c_got s) (c_late s) else s
  | CPop =>
      match c_q s with
      | O => s
      | S r => if c_revk s then Build_cst (c_int s) true r (c_in s) (c_got s) (c_late s)
               else Build_cst (c_int s) false r (c_in s) (S (c_got s))
                              (if c_in s then c_late s else S (c_late s))
      end
  | CClose => Build_cst false true (c_q s) false (c_got s) (c_late s)
  end.

Definition crun (s : cst) (tr : list cev) : cst := fold_left cstep tr s.

(** * Part 2b: Task cancellation (a fresh CancelTask object per [cancel()] call) *)

Inductive tstatus := TCreated | TRunning | TFinished.
Record crec := { k_revk : bool; k_queued : bool }.
Record tst := {
  t_status : tstatus;   (* state of the wrapper coroutine *)
  t_result : bool;      (* _result is not None *)
  t_done : bool;        (* _done was set *)
  t_cs : list crec;     (* _cancellations *)
  t_got : nat;          (* ghost: CancelTask deliveries *)
  t_late : nat }.       (* ghost: deliveries after the task was done *)

Definition tinit : tst := Build_tst TCreated false false [] 0 0.

Inductive tev :=
| TCancel        (* anybody: task.cancel() *)
| TStart         (* first activation of the wrapper *)
| TEnd           (* the wrapper ends: return / exception / own CancelTask *)
| TClose         (* anybody: task.__close__() *)
| TPop (i : nat).  (* the kernel pops the activation of the i-th cancellation *)

Fixpoint upd {A} (i : nat) (f : A -> A) (l : list A) : list A :=
  match l, i with
  | [], _ => []
  | x :: r, O => f x :: r
  | x :: r, S j => x :: upd j f r
  end.

Definition revoke_all (l : list crec) : list crec := map (fun c => Build_crec true (k_queued c)) l.

(** tail of payload_wrapper: result, child_finished, revoke all cancellations, set done: no suspension *)
Definition tfinish (s : tst) : tst := Build_tst TFinished true true (revoke_all (t_cs s)) (t_got s) (t_late s).

Definition tstep (s : tst) (e : tev) : tst :=
  match e with
  | TCancel =>
      if t_result s then s
      else match t_status s with
           | TCreated => Build_tst TCreated true true (t_cs s) (t_got s) (t_late s)
           | st => Build_tst st false (t_done s) (t_cs s ++ [Build_crec false true]) (t_got s) (t_late s)
           end
  | TStart =>
      match t_status s with
      | TCreated => if t_result s then Build_tst TFinished true (t_done s) (t_cs s) (t_got s) (t_late s)
                    else Build_tst TRunning false (t_done s) (t_cs s) (t_got s) (t_late s)
      | _ => s
      end
  | TEnd => match t_status s with TRunning => tfinish s | _ => s end
  | TClose =>
      if t_result s then s
      else match t_status s with
           | TCreated => Build_tst TCreated true true (t_cs s) (t_got s) (t_late s)
           | TRunning => tfinish s      (* runner.close(): synchronous unwinding through the wrapper *)
           | TFinished => s
           end
  | TPop i =>
      match nth_error (t_cs s) i with
      | Some c =>
          if k_queued c then
            let cs' := upd i (fun c => Build_crec (k_revk c) false) (t_cs s) in
            if k_revk c then Build_tst (t_status s) (t_result s) (t_done s) cs' (t_got s) (t_late s)
            else Build_tst (t_status s) (t_result s) (t_done s) cs' (S (t_got s))
                           (if t_done s then S (t_late s) else t_late s)
          else s
      | None => s
      end
  end.

Definition trun (s : tst) (tr : list tev) : tst := fold_left tstep tr s.
