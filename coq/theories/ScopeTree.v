(** Containment for the whole scope tree, by induction on ancestry.

    ScopeProto proves containment for ONE scope and its direct children (no child is alive once the block is
    left, over all reachable states and continuations).  A task's own [async with] blocks are lexically inside
    its coroutine, so they are left before the coroutine ends.  This file lifts those two local facts to all
    descendants at any depth: the tree may be infinite-branching and grow over time; only the parent relation and
    the two local containment facts are used. *)
From Coq Require Import List Relations Lia.
Import ListNotations.

Section Tree.
  (** nodes are tasks and scopes alike; [parent c p]: task [c] is a child of scope [p], or scope [c] was
      opened by the code of task [p] *)
  Variable node : Type.
  Variable parent : node -> node -> Prop.
  (** [alive x n]: at observation point [n] (any linear order of observation points; here [nat]) the node
      is not finished: a task whose code may still run, a scope whose block has not been left *)
  Variable alive : node -> nat -> Prop.
  (** local containment, the content of C04_contained (child of a scope) and of block structure (scope of a task) *)
  Hypothesis local : forall c p n, parent c p -> alive c n -> alive p n.

  Inductive descendant : node -> node -> Prop :=
  | desc_self x : descendant x x
  | desc_step x y z : parent x y -> descendant y z -> descendant x z.

  Theorem tree_contained : forall d r n, descendant d r -> alive d n -> alive r n.
  Proof.
    intros d r n H. induction H as [x | x y z Hp _ IH]; intro Ha; [exact Ha|].
    apply IH. eapply local; eauto.
  Qed.

  (** contrapositive, the form of the property: once the root scope is left, nothing below it is alive *)
  Corollary nothing_outlives : forall d r n, descendant d r -> ~ alive r n -> ~ alive d n.
  Proof. intros d r n H Hr Hd. apply Hr. eapply tree_contained; eauto. Qed.

  (** if liveness is monotone (finished stays finished), nothing below the root is alive at any later point *)
  Hypothesis finished_stays : forall x n m, n <= m -> ~ alive x n -> ~ alive x m.
  Corollary nothing_outlives_later : forall d r n m, descendant d r -> n <= m -> ~ alive r n -> ~ alive d m.
  Proof. intros d r n m H Hnm Hr. eapply nothing_outlives; eauto. Qed.
End Tree.

(** non-vacuity: a three-level tree (scope 0 > task 1 > scope 2 > task 3) with nested lifetimes *)
Definition ex_parent (c p : nat) : Prop := p + 1 = c /\ c <= 3.
Definition ex_end (x : nat) : nat := match x with 0 => 9 | 1 => 7 | 2 => 6 | _ => 4 end.
Definition ex_alive (x n : nat) : Prop := n < ex_end x.
Example ex_tree : descendant nat ex_parent 3 0 /\ (forall n, ~ ex_alive 0 n -> ~ ex_alive 3 n).
Proof.
  assert (L : forall c p n, ex_parent c p -> ex_alive c n -> ex_alive p n).
  { intros c p n [H1 H2]. unfold ex_alive. subst c.
    destruct p as [|[|[|p]]]; simpl; intros; lia. }
  split.
  - eapply desc_step with (y := 2); [split; auto|]. eapply desc_step with (y := 1); [split; auto|].
    eapply desc_step with (y := 0); [split; auto|]. apply desc_self.
  - intros n. apply (nothing_outlives nat ex_parent ex_alive L).
    eapply desc_step with (y := 2); [split; auto|]. eapply desc_step with (y := 1); [split; auto|].
    eapply desc_step with (y := 0); [split; auto|]. apply desc_self.
Qed.

(** the first local fact is exactly what ScopeProto proves for every reachable state of one scope instance:
    a child that is not done implies the block has not been left *)
From Usim Require Import ScopeProto ScopeProtoProps.
Lemma local_from_proto : forall k s i x, reachable k s -> nth_error (kids s) i = Some x -> isdone x = false ->
  forall c o, ph s <> Exited c o.
Proof.
  intros k s i x Hr Hn Hd c o Hp.
  destruct (contained_thm k s c o Hr Hp) as [Hall _].
  rewrite Forall_forall in Hall. specialize (Hall x (nth_error_In _ _ Hn)). congruence.
Qed.
