(** C08 -- conditions: truth of derived conditions is boolean algebra on the current values, the fuel of
    [cond_true] is adequate, the false-leaf subscription of connectives (fix D4a) cannot miss a wake-up,
    subscribing to a true condition delivers immediately.  All statements are about the very functions the
    whole-program machine executes (Lib.v / Scenario.v), for all expression trees and all well-formed states. *)
From Coq Require Import ZArith List Bool Lia.
From RecordUpdate Require Import RecordSet.
From Usim Require Import XTime Tables Kernel Machine Lib Scenario.
Import ListNotations.
Import RecordSetNotations.

(** * list helpers *)
Lemma forallb_ext_in {A} (f g : A -> bool) l : (forall x, In x l -> f x = g x) -> forallb f l = forallb g l.
Proof. induction l as [|a l IH]; cbn; intros H; auto. rewrite (H a), IH; auto. Qed.
Lemma existsb_ext_in {A} (f g : A -> bool) l : (forall x, In x l -> f x = g x) -> existsb f l = existsb g l.
Proof. induction l as [|a l IH]; cbn; intros H; auto. rewrite (H a), IH; auto. Qed.
Lemma flat_map_ext_in {A B} (f g : A -> list B) l : (forall x, In x l -> f x = g x) -> flat_map f l = flat_map g l.
Proof. induction l as [|a l IH]; cbn; intros H; auto. rewrite (H a), IH; auto. Qed.
Lemma forallb_false_ex {A} (f : A -> bool) l : forallb f l = false -> exists x, In x l /\ f x = false.
Proof.
  induction l as [|a l IH]; cbn; [discriminate|]. destruct (f a) eqn:E; cbn; intros H.
  - destruct (IH H) as (x & Hx & Hf). exists x; auto.
  - exists a; auto.
Qed.
Lemma existsb_false_all {A} (f : A -> bool) l : existsb f l = false -> forall x, In x l -> f x = false.
Proof.
  induction l as [|a l IH]; cbn; [tauto|]. intros H x [->|Hx]; apply orb_false_iff in H; [tauto|]. apply IH; tauto.
Qed.

Lemma length_list_upd {A} (l : list A) i x : length (list_upd l i x) = length l.
Proof. revert i; induction l; destruct i; cbn; auto. Qed.
Lemma nth_list_upd_eq {A} (l : list A) i x d : i < length l -> nth i (list_upd l i x) d = x.
Proof. revert i; induction l; destruct i; cbn; intros; try lia; auto. apply IHl; lia. Qed.
Lemma nth_list_upd_ne {A} (l : list A) i j x d : i <> j -> nth i (list_upd l j x) d = nth i l d.
Proof. revert i j; induction l; destruct i, j; cbn; intros; try lia; auto. Qed.
Lemma list_upd_oob {A} (l : list A) i x : length l <= i -> list_upd l i x = l.
Proof. revert i; induction l; destruct i; cbn; intros; try lia; auto. f_equal. apply IHl; lia. Qed.

(** * the notification graph *)
Definition is_conn (k : nkind) : bool := match k with NAll _ | NAny _ => true | _ => false end.
Definition children (k : nkind) : list nid := match k with NAll cs | NAny cs => cs | _ => [] end.

(** operands are older objects than the connective that holds them *)
Definition graph_wf (o : objs) : Prop := forall n c, In c (children (kind_of o n)) -> c < n.

Lemma kind_oob o n : length (notifs o) <= n -> kind_of o n = NPlain.
Proof. intros H. unfold kind_of, get_notif. rewrite nth_overflow; auto. Qed.
Lemma kind_range o n : kind_of o n <> NPlain -> n < length (notifs o).
Proof. intros H. destruct (Nat.lt_ge_cases n (length (notifs o))); auto. elim H. now apply kind_oob. Qed.

(** one unfolding of [cond_true_f] *)
Definition cond_step (rec : nid -> bool) (o : objs) (n : nid) : bool :=
  match kind_of o n with
  | NPlain => false
  | NFlag f => fval (get_flag o f)
  | NInvFlag f => negb (fval (get_flag o f))
  | NAfter d => xleb d (onow o)
  | NBefore d => xltb (onow o) d
  | NMoment d _ => xeqb (onow o) d
  | NEternity => false
  | NInstant => true
  | NDelay _ => false
  | NCmp v op z => cmp_eval op (tval (get_track o v)) z
  | NCmp2 v op v2 => cmp_eval op (tval (get_track o v)) (tval (get_track o v2))
  | NDone t => t_doneval (get_task o t)
  | NNotDone t => negb (t_doneval (get_task o t))
  | NAll cs => forallb rec cs
  | NAny cs => existsb rec cs
  end.
Lemma cond_true_f_S fuel o n : cond_true_f (S fuel) o n = cond_step (cond_true_f fuel o) o n.
Proof. reflexivity. Qed.

(** ** fuel adequacy *)
Lemma cond_fuel o : graph_wf o -> forall f1 f2 n, n < f1 -> n < f2 -> cond_true_f f1 o n = cond_true_f f2 o n.
Proof.
  intros G. induction f1 as [|f1 IH]; intros f2 n H1 H2; [lia|]. destruct f2 as [|f2]; [lia|].
  rewrite !cond_true_f_S. unfold cond_step. destruct (kind_of o n) eqn:K; auto.
  - apply forallb_ext_in. intros c Hc. assert (c < n) by (apply G; rewrite K; exact Hc). apply IH; lia.
  - apply existsb_ext_in. intros c Hc. assert (c < n) by (apply G; rewrite K; exact Hc). apply IH; lia.
Qed.

Theorem cond_true_fuel o fuel n : graph_wf o -> n < fuel -> cond_true_f fuel o n = cond_true o n.
Proof.
  intros G H. unfold cond_true. destruct (Nat.lt_ge_cases n (S (length (notifs o)))) as [L|L].
  - apply cond_fuel; auto.
  - destruct fuel; [lia|]. rewrite !cond_true_f_S. unfold cond_step. rewrite kind_oob by lia. reflexivity.
Qed.

Lemma cond_true_eq o n : graph_wf o -> cond_true o n = cond_step (cond_true o) o n.
Proof.
  intros G. unfold cond_true at 1. rewrite cond_true_f_S. unfold cond_step. destruct (kind_of o n) eqn:K; auto.
  - apply forallb_ext_in. intros c Hc. assert (c < n) by (apply G; rewrite K; exact Hc).
    assert (n < length (notifs o)) by (apply kind_range; rewrite K; discriminate). apply cond_true_fuel; auto; lia.
  - apply existsb_ext_in. intros c Hc. assert (c < n) by (apply G; rewrite K; exact Hc).
    assert (n < length (notifs o)) by (apply kind_range; rewrite K; discriminate). apply cond_true_fuel; auto; lia.
Qed.

(** the same for [pending_children] *)
Definition pend_child (rec : nid -> list nid) (o : objs) (c : nid) : list nid :=
  if cond_true o c then [] else if is_conn (kind_of o c) then rec c else [c].
Lemma pending_f_S fuel o n :
  pending_f (S fuel) o n = if is_conn (kind_of o n) then flat_map (pend_child (pending_f fuel o) o) (children (kind_of o n)) else [].
Proof.
  cbn [pending_f]. change (nk (get_notif o n)) with (kind_of o n).
  destruct (kind_of o n); cbn [is_conn children]; auto; apply flat_map_ext_in; intros c _; unfold pend_child;
    change (nk (get_notif o c)) with (kind_of o c); destruct (cond_true o c); auto; destruct (kind_of o c); auto.
Qed.
Lemma pending_fuel o : graph_wf o -> forall f1 f2 n, n < f1 -> n < f2 -> pending_f f1 o n = pending_f f2 o n.
Proof.
  intros G. induction f1 as [|f1 IH]; intros f2 n H1 H2; [lia|]. destruct f2 as [|f2]; [lia|].
  rewrite !pending_f_S. destruct (is_conn (kind_of o n)); auto.
  apply flat_map_ext_in. intros c Hc. apply G in Hc. unfold pend_child.
  destruct (cond_true o c); auto. destruct (is_conn (kind_of o c)); auto. apply IH; lia.
Qed.
Lemma pending_eq o n : graph_wf o ->
  pending_children o n = if is_conn (kind_of o n) then flat_map (pend_child (pending_children o) o) (children (kind_of o n)) else [].
Proof.
  intros G. unfold pending_children at 1. rewrite pending_f_S. destruct (is_conn (kind_of o n)) eqn:K; auto.
  apply flat_map_ext_in. intros c Hc. apply G in Hc. unfold pend_child.
  destruct (cond_true o c); auto. destruct (is_conn (kind_of o c)); auto.
  assert (n < length (notifs o)) by (apply kind_range; intros E; rewrite E in K; discriminate).
  unfold pending_children. apply pending_fuel; auto; lia.
Qed.

(** ** truth depends only on the graph below the node and on the current values *)
Definition env_same (o o' : objs) : Prop :=
  onow o' = onow o /\ (forall f, fval (get_flag o' f) = fval (get_flag o f)) /\
  (forall v, tval (get_track o' v) = tval (get_track o v)) /\
  (forall t, t_doneval (get_task o' t) = t_doneval (get_task o t)).
Definition same_graph (o o' : objs) : Prop := forall n, kind_of o' n = kind_of o n.

Lemma cond_f_agree o o' : graph_wf o -> env_same o o' -> forall fuel n,
  (forall m, m <= n -> kind_of o' m = kind_of o m) -> cond_true_f fuel o' n = cond_true_f fuel o n.
Proof.
  intros G (E1 & E2 & E3 & E4). induction fuel as [|fuel IH]; intros n K; auto.
  rewrite !cond_true_f_S. unfold cond_step. rewrite (K n (le_n _)).
  destruct (kind_of o n) eqn:Kn; auto; rewrite ?E1, ?E2, ?E3, ?E4; auto.
  - apply forallb_ext_in. intros c Hc. assert (c < n) by (apply G; rewrite Kn; exact Hc). apply IH. intros; apply K; lia.
  - apply existsb_ext_in. intros c Hc. assert (c < n) by (apply G; rewrite Kn; exact Hc). apply IH. intros; apply K; lia.
Qed.
Lemma cond_true_agree o o' n : graph_wf o -> graph_wf o' -> env_same o o' ->
  (forall m, m <= n -> kind_of o' m = kind_of o m) -> cond_true o' n = cond_true o n.
Proof.
  intros G G' E K. rewrite <- (cond_true_fuel o (S n) n), <- (cond_true_fuel o' (S n) n); auto. apply cond_f_agree; auto.
Qed.
Lemma same_graph_wf o o' : same_graph o o' -> graph_wf o -> graph_wf o'.
Proof. intros S G n c. rewrite S. apply G. Qed.
Lemma cond_true_same o o' n : graph_wf o -> same_graph o o' -> env_same o o' -> cond_true o' n = cond_true o n.
Proof. intros G S E. apply cond_true_agree; auto. eapply same_graph_wf; eauto. Qed.

(** * states extended by constructing expressions *)
(** what [mk_notif] may do: append notification objects, register listeners; nothing else changes *)
Record ext (o o' : objs) : Prop := mk_ext {
  ext_notifs : exists l, notifs o' = notifs o ++ l;
  ext_kern : kern o' = kern o;
  ext_flags : flags o' = flags o;
  ext_tasks : tasks o' = tasks o;
  ext_tnames : tnames o' = tnames o;
  ext_tlen : length (tracked o') = length (tracked o);
  ext_tval : forall v, tval (get_track o' v) = tval (get_track o v);
  ext_tlis : forall v x, In x (tlisteners (get_track o v)) -> In x (tlisteners (get_track o' v)) }.

Lemma ext_refl o : ext o o.
Proof. split; auto. exists []. now rewrite app_nil_r. Qed.
Lemma ext_trans o1 o2 o3 : ext o1 o2 -> ext o2 o3 -> ext o1 o3.
Proof.
  intros [[l1 N1] K1 F1 T1 Tn1 L1 V1 I1] [[l2 N2] K2 F2 T2 Tn2 L2 V2 I2]. split; try (intros; congruence).
  - exists (l1 ++ l2). rewrite N2, N1, app_assoc. reflexivity.
  - intros v x H. apply I2, I1, H.
Qed.
Lemma ext_len o o' : ext o o' -> length (notifs o) <= length (notifs o').
Proof. intros [[l N] _ _ _ _ _ _ _]. rewrite N, app_length. lia. Qed.
Lemma ext_kind o o' n : ext o o' -> n < length (notifs o) -> kind_of o' n = kind_of o n.
Proof. intros [[l N] _ _ _ _ _ _ _] H. unfold kind_of, get_notif. rewrite N, app_nth1; auto. Qed.
Lemma ext_env o o' : ext o o' -> env_same o o'.
Proof.
  intros [_ K F T _ _ V _]. unfold env_same, onow, get_flag, get_task. rewrite K, F, T. auto.
Qed.
Lemma cond_true_ext o o' n : graph_wf o -> graph_wf o' -> ext o o' -> n < length (notifs o) ->
  cond_true o' n = cond_true o n.
Proof. intros G G' E H. apply cond_true_agree; auto using ext_env. intros m Hm. apply ext_kind; auto. lia. Qed.

Lemma ext_alloc o k : ext o (fst (alloc_notif o k)).
Proof. split; cbn; auto. eexists; reflexivity. Qed.
Lemma kind_of_alloc o k n :
  kind_of (fst (alloc_notif o k)) n = if Nat.eqb n (length (notifs o)) then k else kind_of o n.
Proof.
  unfold kind_of, get_notif. cbn. destruct (Nat.eqb_spec n (length (notifs o))) as [->|N].
  - rewrite app_nth2, Nat.sub_diag; auto.
  - destruct (Nat.lt_ge_cases n (length (notifs o))).
    + rewrite app_nth1; auto.
    + rewrite !nth_overflow; auto. rewrite app_length; cbn; lia.
Qed.
Lemma len_alloc o k : length (notifs (fst (alloc_notif o k))) = S (length (notifs o)).
Proof. cbn. rewrite app_length. cbn. lia. Qed.

Lemma get_track_add_listener o v m v' :
  get_track (add_listener o v m) v' =
  if Nat.eqb v' v && Nat.ltb v (length (tracked o))
  then (get_track o v) <| tlisteners := tlisteners (get_track o v) ++ [m] |> else get_track o v'.
Proof.
  unfold add_listener, get_track. cbn [tracked set]. destruct (Nat.ltb_spec v (length (tracked o))) as [L|L];
    destruct (Nat.eqb_spec v' v) as [->|N]; cbn [andb].
  - cbn. now rewrite nth_list_upd_eq.
  - cbn. now rewrite nth_list_upd_ne.
  - cbn. now rewrite list_upd_oob.
  - cbn. now rewrite nth_list_upd_ne.
Qed.
Lemma ext_add_listener o v m : ext o (add_listener o v m).
Proof.
  split; try reflexivity.
  - exists []. cbn. now rewrite app_nil_r.
  - cbn. apply length_list_upd.
  - intros v'. rewrite get_track_add_listener. destruct (_ && _) eqn:E; auto.
    apply andb_true_iff in E. destruct E as [E _]. apply Nat.eqb_eq in E. now subst.
  - intros v' x H. rewrite get_track_add_listener. destruct (_ && _) eqn:E; auto.
    apply andb_true_iff in E. destruct E as [E _]. apply Nat.eqb_eq in E. subst. cbn. apply in_or_app; auto.
Qed.
Lemma in_add_listener o v m : v < length (tracked o) -> In m (tlisteners (get_track (add_listener o v m) v)).
Proof.
  intros H. rewrite get_track_add_listener, Nat.eqb_refl. apply Nat.ltb_lt in H. rewrite H. cbn.
  apply in_or_app. right. now left.
Qed.
Lemma kind_of_add_listener o v m n : kind_of (add_listener o v m) n = kind_of o n.
Proof. reflexivity. Qed.

(** * well-formed states *)
Definition node_ok (o : objs) (n : nid) (k : nkind) : Prop :=
  match k with
  | NAll cs | NAny cs => cs <> [] /\ forall c, In c cs -> c < n
  | NMoment d na => na < n /\ kind_of o na = NAfter d
  | NFlag f | NInvFlag f => f < length (flags o)
  | NDone t | NNotDone t => t < length (tasks o)
  | NCmp v _ _ => v < length (tracked o) /\ In n (tlisteners (get_track o v))
  | NCmp2 v _ v2 => v < length (tracked o) /\ v2 < length (tracked o) /\
                    In n (tlisteners (get_track o v)) /\ In n (tlisteners (get_track o v2))
  | _ => True
  end.

Record wf (o : objs) : Prop := mk_wf {
  wf_node : forall n, node_ok o n (kind_of o n);
  wf_flag : forall f, f < length (flags o) ->
            kind_of o (fnid (get_flag o f)) = NFlag f /\ kind_of o (finv (get_flag o f)) = NInvFlag f;
  wf_task : forall t, t < length (tasks o) ->
            kind_of o (t_done (get_task o t)) = NDone t /\ kind_of o (t_notdone (get_task o t)) = NNotDone t;
  wf_tnames : forall k t, assoc_nat k (tnames o) = Some t -> t < length (tasks o) }.

Lemma wf_graph o : wf o -> graph_wf o.
Proof.
  intros W n c Hc. assert (N := wf_node _ W n). destruct (kind_of o n); cbn in Hc; try contradiction; apply N, Hc.
Qed.
#[export] Hint Resolve wf_graph : core.

Lemma node_ok_ext o o' n k : ext o o' -> node_ok o n k -> node_ok o' n k.
Proof.
  intros E. pose proof (ext_flags _ _ E) as F. pose proof (ext_tasks _ _ E) as T.
  pose proof (ext_tlen _ _ E) as L. pose proof (ext_tlis _ _ E) as I.
  destruct k; cbn; rewrite ?F, ?T, ?L; auto.
  - intros [H1 H2]; split; auto. rewrite (ext_kind _ _ _ E); auto. apply kind_range. rewrite H2. discriminate.
  - intros [H1 H2]; auto.
  - intros (H1 & H2 & H3 & H4); auto 6.
Qed.

Lemma wf_extend o o' : wf o -> ext o o' ->
  (forall n, length (notifs o) <= n -> node_ok o' n (kind_of o' n)) -> wf o'.
Proof.
  intros W E New. split.
  - intros n. destruct (Nat.lt_ge_cases n (length (notifs o))); auto.
    rewrite (ext_kind _ _ _ E); auto. apply node_ok_ext with o; auto. apply W.
  - intros f. unfold get_flag. rewrite (ext_flags _ _ E). intros Hf. destruct (wf_flag _ W f Hf) as [A B].
    fold (get_flag o f). rewrite !(ext_kind _ _ _ E); auto; apply kind_range; [rewrite B|rewrite A]; discriminate.
  - intros t. unfold get_task. rewrite (ext_tasks _ _ E). intros Ht. destruct (wf_task _ W t Ht) as [A B].
    fold (get_task o t). rewrite !(ext_kind _ _ _ E); auto; apply kind_range; [rewrite B|rewrite A]; discriminate.
  - rewrite (ext_tnames _ _ E), (ext_tasks _ _ E). apply W.
Qed.

Lemma wf_alloc o k : wf o -> node_ok (fst (alloc_notif o k)) (length (notifs o)) k -> wf (fst (alloc_notif o k)).
Proof.
  intros W N. apply wf_extend with o; auto using ext_alloc. intros n Hn. rewrite kind_of_alloc.
  destruct (Nat.eqb_spec n (length (notifs o))) as [->|]; auto. rewrite kind_oob by lia. exact I.
Qed.

Lemma wf_alloc_cmp o v op z : wf o -> v < length (tracked o) ->
  let o' := add_listener (fst (alloc_notif o (NCmp v op z))) v (length (notifs o)) in wf o' /\ ext o o'.
Proof.
  intros W Hv o'. assert (E : ext o o') by (eapply ext_trans; [apply ext_alloc | apply ext_add_listener]).
  split; auto. apply wf_extend with o; auto. intros n Hn. unfold o'. rewrite kind_of_add_listener, kind_of_alloc.
  destruct (Nat.eqb_spec n (length (notifs o))) as [->|]; [|rewrite kind_oob by lia; exact I].
  cbn [node_ok]. fold o'. rewrite (ext_tlen _ _ E). split; auto. apply in_add_listener. exact Hv.
Qed.

Lemma wf_alloc_cmp2 o v op v2 : wf o -> v < length (tracked o) -> v2 < length (tracked o) ->
  let m := length (notifs o) in
  let o' := add_listener (add_listener (fst (alloc_notif o (NCmp2 v op v2))) v2 m) v m in wf o' /\ ext o o'.
Proof.
  intros W Hv Hv2 m o'.
  assert (E : ext o o') by (eapply ext_trans; [apply ext_alloc | eapply ext_trans; apply ext_add_listener]).
  split; auto. apply wf_extend with o; auto. intros n Hn. unfold o'. rewrite !kind_of_add_listener, kind_of_alloc.
  destruct (Nat.eqb_spec n (length (notifs o))) as [->|]; [|rewrite kind_oob by lia; exact I].
  cbn [node_ok]. fold o'. rewrite (ext_tlen _ _ E). repeat split; auto.
  - apply in_add_listener. cbn. rewrite length_list_upd. exact Hv.
  - apply (ext_tlis _ _ (ext_add_listener _ v m)). apply in_add_listener. exact Hv2.
Qed.

(** * reference semantics of expressions *)
Fixpoint sem (o : objs) (w : wt) : bool :=
  match w with
  | WDelay d => xeqb d (Fin 0)
  | WAfter t => xleb t (onow o)
  | WBefore t => xltb (onow o) t
  | WMoment t => xeqb (onow o) t
  | WInstant => true
  | WEternity => false
  | WFlag f => fval (get_flag o f)
  | WCmp v op z => cmp_eval op (tval (get_track o v)) z
  | WCmp2 v op v2 => cmp_eval op (tval (get_track o v)) (tval (get_track o v2))
  | WDone t => match assoc_nat t (tnames o) with Some t' => t_doneval (get_task o t') | None => false end
  | WAnd a b => sem o a && sem o b
  | WOr a b => sem o a || sem o b
  | WNot a => negb (sem o a)
  end.

(** [~] is defined on everything but moments and delays (NotImplementedError / TypeError in the library) *)
Fixpoint invertible (w : wt) : bool :=
  match w with
  | WDelay d => xeqb d (Fin 0)
  | WMoment _ => false
  | WAnd a b | WOr a b => invertible a && invertible b
  | WNot a => invertible a
  | _ => true
  end.
Definition is_cond (w : wt) : bool := match w with WDelay d => xeqb d (Fin 0) | _ => true end.
(** flags / tracked values exist; no delay below a connective; only invertible operands below [~] *)
Fixpoint wt_ok (o : objs) (w : wt) : bool :=
  match w with
  | WFlag f => Nat.ltb f (length (flags o))
  | WCmp v _ _ => Nat.ltb v (length (tracked o))
  | WCmp2 v _ v2 => Nat.ltb v (length (tracked o)) && Nat.ltb v2 (length (tracked o))
  | WAnd a b | WOr a b => wt_ok o a && wt_ok o b && (is_cond a && is_cond b)
  | WNot a => wt_ok o a && invertible a
  | _ => true
  end.
Definition well_formed_wt (o : objs) (w : wt) : Prop := wt_ok o w = true.

Lemma sem_ext o o' w : ext o o' -> sem o' w = sem o w.
Proof.
  intros E. destruct (ext_env _ _ E) as (E1 & E2 & E3 & E4).
  induction w; cbn; rewrite ?E1, ?E2, ?E3, ?(ext_tnames _ _ E); auto; try congruence.
  destruct (assoc_nat t (tnames o)); auto.
Qed.
Lemma wt_ok_ext o o' w : ext o o' -> wt_ok o' w = wt_ok o w.
Proof. intros E. induction w; cbn; rewrite ?(ext_flags _ _ E), ?(ext_tlen _ _ E); congruence. Qed.

(** ** conditions on which [invert_f] is defined *)
Definition inv_leaf (k : nkind) : bool :=
  match k with NPlain | NMoment _ _ | NDelay _ | NAll _ | NAny _ => false | _ => true end.
Inductive invable (o : objs) : nid -> Prop :=
| IvLeaf n : inv_leaf (kind_of o n) = true -> invable o n
| IvConn n : is_conn (kind_of o n) = true -> (forall c, In c (children (kind_of o n)) -> invable o c) -> invable o n.

Lemma invable_kind o n : invable o n -> inv_leaf (kind_of o n) || is_conn (kind_of o n) = true.
Proof. intros [m H|m H _]; rewrite H; auto using orb_true_r. Qed.
Lemma invable_range o n : invable o n -> n < length (notifs o).
Proof. intros H. apply invable_kind in H. apply kind_range. intros E. rewrite E in H. discriminate. Qed.
Lemma invable_conn o n c : invable o n -> is_conn (kind_of o n) = true -> In c (children (kind_of o n)) -> invable o c.
Proof. intros [m H|m H Hc] C; auto. destruct (kind_of o m); discriminate. Qed.
Lemma invable_ext o o' n : ext o o' -> invable o n -> invable o' n.
Proof.
  intros E H. induction H as [n L|n C Hc IH].
  - apply IvLeaf. rewrite (ext_kind _ _ _ E); auto. apply invable_range. now apply IvLeaf.
  - assert (K : kind_of o' n = kind_of o n) by (apply (ext_kind _ _ _ E), invable_range; now apply IvConn).
    apply IvConn; rewrite K; auto.
Qed.

Lemma xltb_negb a b : xltb a b = negb (xleb b a).
Proof. destruct a, b; cbn; auto. apply Z.ltb_antisym. Qed.
Lemma xleb_negb a b : xleb a b = negb (xltb b a).
Proof. destruct a, b; cbn; auto. apply Z.leb_antisym. Qed.

Lemma alloc_notif_eq o k o' m : alloc_notif o k = (o', m) -> o' = fst (alloc_notif o k) /\ m = length (notifs o).
Proof. unfold alloc_notif. intros H. inversion H. split; reflexivity. Qed.
Lemma alloc_post o k : wf o -> node_ok (fst (alloc_notif o k)) (length (notifs o)) k ->
  let o' := fst (alloc_notif o k) in
  wf o' /\ ext o o' /\ length (notifs o) < length (notifs o') /\ kind_of o' (length (notifs o)) = k.
Proof.
  intros W N o'. split; [now apply wf_alloc|]. split; [apply ext_alloc|]. unfold o'. rewrite len_alloc. split; [lia|].
  now rewrite kind_of_alloc, Nat.eqb_refl.
Qed.

(** ** [~c] is the negation of [c] *)
Definition inv_post (o : objs) (n : nid) (o' : objs) (m : nid) : Prop :=
  wf o' /\ ext o o' /\ m < length (notifs o') /\ cond_true o' m = negb (cond_true o n) /\ invable o' m.

Definition inv_fold (fuel : nat) : objs * list nid -> nid -> objs * list nid :=
  fun '(o', acc) c => let '(o'', c') := invert_f fuel o' c in (o'', acc ++ [c']).

Lemma inv_all_spec fuel :
  (forall o n o' m, n < fuel -> wf o -> invable o n -> invert_f fuel o n = (o', m) -> inv_post o n o' m) ->
  forall cs oa acc o1 res, wf oa -> (forall c, In c cs -> c < fuel /\ invable oa c) ->
    fold_left (inv_fold fuel) cs (oa, acc) = (o1, res) ->
    wf o1 /\ ext oa o1 /\ exists cs', res = acc ++ cs' /\ length cs' = length cs /\
      (forall c', In c' cs' -> c' < length (notifs o1) /\ invable o1 c') /\
      existsb (cond_true o1) cs' = negb (forallb (cond_true oa) cs) /\
      forallb (cond_true o1) cs' = negb (existsb (cond_true oa) cs).
Proof.
  intros IHf. induction cs as [|c cs IH]; intros oa acc o1 res W Hcs Eq; cbn in Eq.
  - inversion Eq; subst. split; auto. split; [apply ext_refl|]. exists []. rewrite app_nil_r. cbn. tauto.
  - destruct (invert_f fuel oa c) as [ob c'] eqn:Ei.
    destruct (Hcs c (or_introl eq_refl)) as [Hc Ic].
    destruct (IHf _ _ _ _ Hc W Ic Ei) as (Wb & Eb & Lb & Tb & Ib).
    destruct (IH ob (acc ++ [c']) o1 res Wb) as (W1 & E1 & cs' & R & Len & Rg & Tex & Tall); auto.
    { intros c2 H2. destruct (Hcs c2 (or_intror H2)). split; auto. eapply invable_ext; eauto. }
    split; auto. split; [eapply ext_trans; eauto|]. exists (c' :: cs'). rewrite R, <- app_assoc. cbn [existsb forallb length app In].
    assert (Tc : cond_true o1 c' = negb (cond_true oa c)) by (rewrite <- Tb; apply cond_true_ext; auto).
    assert (Fa : forallb (cond_true ob) cs = forallb (cond_true oa) cs).
    { apply forallb_ext_in. intros c2 H2. apply cond_true_ext; auto. apply invable_range, Hcs. now right. }
    assert (Fe : existsb (cond_true ob) cs = existsb (cond_true oa) cs).
    { apply existsb_ext_in. intros c2 H2. apply cond_true_ext; auto. apply invable_range, Hcs. now right. }
    split; auto. split; [lia|]. split.
    { intros x [<-|Hx]; auto. split; [pose proof (ext_len _ _ E1); lia | eapply invable_ext; eauto]. }
    rewrite Tex, Tall, Tc, Fa, Fe, negb_andb, negb_orb. auto.
Qed.

Ltac leaf_alloc W Eq :=
  apply alloc_notif_eq in Eq; destruct Eq as [-> ->];
  match goal with |- wf (fst (alloc_notif ?o ?k)) /\ _ =>
    let W' := fresh "W'" in let E' := fresh "E'" in let L' := fresh "L'" in let K' := fresh "K'" in
    destruct (alloc_post o k W I) as (W' & E' & L' & K');
    split; [exact W'|]; split; [exact E'|]; split; [lia|]; split;
    [rewrite (cond_true_eq _ _ (wf_graph _ W')); unfold cond_step; rewrite K' | try (intros _; apply IvLeaf; rewrite K'; reflexivity); try (apply IvLeaf; rewrite K'; reflexivity)]
  end.

Lemma invert_spec : forall fuel o n o' m,
  n < fuel -> wf o -> invable o n -> invert_f fuel o n = (o', m) -> inv_post o n o' m.
Proof.
  induction fuel as [|fuel IH]; intros o n o' m Hn W Iv Eq; [lia|].
  cbn [invert_f] in Eq. assert (G := wf_graph _ W). assert (N := wf_node _ W n).
  unfold inv_post. rewrite (cond_true_eq o n G). unfold cond_step.
  destruct (kind_of o n) eqn:K;
    try (apply invable_kind in Iv; rewrite K in Iv; discriminate); cbn [node_ok] in N.
  - (* Flag *) inversion Eq; subst. destruct (wf_flag _ W f N) as [A B].
    split; auto. split; [apply ext_refl|]. split; [apply kind_range; rewrite B; discriminate|]. split.
    + rewrite (cond_true_eq _ _ G). unfold cond_step. now rewrite B.
    + apply IvLeaf. now rewrite B.
  - (* InverseFlag *) inversion Eq; subst. destruct (wf_flag _ W f N) as [A B].
    split; auto. split; [apply ext_refl|]. split; [apply kind_range; rewrite A; discriminate|]. split.
    + rewrite (cond_true_eq _ _ G). unfold cond_step. rewrite A. now rewrite negb_involutive.
    + apply IvLeaf. now rewrite A.
  - (* After *) leaf_alloc W Eq. apply xltb_negb.
  - (* Before *) leaf_alloc W Eq. apply xleb_negb.
  - (* Eternity *) leaf_alloc W Eq. reflexivity.
  - (* Instant *) leaf_alloc W Eq. reflexivity.
  - (* Cmp *) destruct N as [Hv _].
    pose (o2 := add_listener (fst (alloc_notif o (NCmp v (cmp_inverse op) rhs))) v (length (notifs o))).
    assert (Eo : o' = o2 /\ m = length (notifs o))
      by (unfold alloc_notif in Eq; cbv beta iota in Eq; inversion Eq; split; reflexivity).
    destruct Eo as [-> ->]. destruct (wf_alloc_cmp o v (cmp_inverse op) rhs W Hv) as [W' E']. fold o2 in W', E'.
    split; [exact W'|]. split; [exact E'|]. split; [cbn; rewrite app_length; cbn; lia|].
    assert (K' : kind_of o2 (length (notifs o)) = NCmp v (cmp_inverse op) rhs)
      by (unfold o2; now rewrite kind_of_add_listener, kind_of_alloc, Nat.eqb_refl).
    split.
    + rewrite (cond_true_eq _ _ (wf_graph _ W')). unfold cond_step. rewrite K', (ext_tval _ _ E'). apply cmp_inverse_spec.
    + apply IvLeaf. now rewrite K'.
  - (* Cmp2 *) destruct N as (Hv & Hv2 & _).
    pose (o2 := add_listener (add_listener (fst (alloc_notif o (NCmp2 v (cmp_inverse op) v2))) v2 (length (notifs o)))
                             v (length (notifs o))).
    assert (Eo : o' = o2 /\ m = length (notifs o))
      by (unfold alloc_notif in Eq; cbv beta iota in Eq; inversion Eq; split; reflexivity).
    destruct Eo as [-> ->]. destruct (wf_alloc_cmp2 o v (cmp_inverse op) v2 W Hv Hv2) as [W' E']. fold o2 in W', E'.
    split; [exact W'|]. split; [exact E'|]. split; [cbn; rewrite app_length; cbn; lia|].
    assert (K' : kind_of o2 (length (notifs o)) = NCmp2 v (cmp_inverse op) v2)
      by (unfold o2; now rewrite !kind_of_add_listener, kind_of_alloc, Nat.eqb_refl).
    split.
    + rewrite (cond_true_eq _ _ (wf_graph _ W')). unfold cond_step. rewrite K', !(ext_tval _ _ E'). apply cmp_inverse_spec.
    + apply IvLeaf. now rewrite K'.
  - (* Done *) inversion Eq; subst. destruct (wf_task _ W t N) as [A B].
    split; auto. split; [apply ext_refl|]. split; [apply kind_range; rewrite B; discriminate|]. split.
    + rewrite (cond_true_eq _ _ G). unfold cond_step. now rewrite B.
    + apply IvLeaf. now rewrite B.
  - (* NotDone *) inversion Eq; subst. destruct (wf_task _ W t N) as [A B].
    split; auto. split; [apply ext_refl|]. split; [apply kind_range; rewrite A; discriminate|]. split.
    + rewrite (cond_true_eq _ _ G). unfold cond_step. rewrite A. now rewrite negb_involutive.
    + apply IvLeaf. now rewrite A.
  - (* All *) destruct N as [Ne Lt].
    destruct (fold_left _ cs (o, [])) as [o1 cs'] eqn:Ef in Eq.
    apply (inv_all_spec fuel IH) in Ef; auto.
    2:{ intros c Hc. split; [specialize (Lt c Hc); lia|]. apply (invable_conn o n); rewrite ?K; auto. }
    destruct Ef as (W1 & E1 & cs2 & -> & Len & Rg & Tex & _). cbn [app] in *.
    apply alloc_notif_eq in Eq. destruct Eq as [-> ->].
    destruct (alloc_post o1 (NAny cs2) W1) as (W' & E' & L' & K').
    { cbn. split; [destruct cs2, cs; cbn in Len; congruence|]. intros c Hc. apply Rg, Hc. }
    split; [exact W'|]. split; [eapply ext_trans; eauto|]. split; [lia|]. split.
    + rewrite (cond_true_eq _ _ (wf_graph _ W')). unfold cond_step. rewrite K', <- Tex.
      apply existsb_ext_in. intros c Hc. apply cond_true_ext; auto. apply Rg, Hc.
    + apply IvConn; rewrite K'; auto. cbn. intros c Hc. eapply invable_ext; [exact E'|]. apply Rg, Hc.
  - (* Any *) destruct N as [Ne Lt].
    destruct (fold_left _ cs (o, [])) as [o1 cs'] eqn:Ef in Eq.
    apply (inv_all_spec fuel IH) in Ef; auto.
    2:{ intros c Hc. split; [specialize (Lt c Hc); lia|]. apply (invable_conn o n); rewrite ?K; auto. }
    destruct Ef as (W1 & E1 & cs2 & -> & Len & Rg & _ & Tall). cbn [app] in *.
    apply alloc_notif_eq in Eq. destruct Eq as [-> ->].
    destruct (alloc_post o1 (NAll cs2) W1) as (W' & E' & L' & K').
    { cbn. split; [destruct cs2, cs; cbn in Len; congruence|]. intros c Hc. apply Rg, Hc. }
    split; [exact W'|]. split; [eapply ext_trans; eauto|]. split; [lia|]. split.
    + rewrite (cond_true_eq _ _ (wf_graph _ W')). unfold cond_step. rewrite K', <- Tall.
      apply forallb_ext_in. intros c Hc. apply cond_true_ext; auto. apply Rg, Hc.
    + apply IvConn; rewrite K'; auto. cbn. intros c Hc. eapply invable_ext; [exact E'|]. apply Rg, Hc.
Qed.

(** ** [a & b], [a | b] with the flattening of [Condition.__and__/__or__] *)
Lemma cca_spec o n : wf o -> n < length (notifs o) ->
  (forall c, In c (conn_children_all o n) -> c < length (notifs o)) /\ conn_children_all o n <> [] /\
  forallb (cond_true o) (conn_children_all o n) = cond_true o n /\
  (invable o n -> forall c, In c (conn_children_all o n) -> invable o c).
Proof.
  intros W L.
  assert (D : (exists cs, kind_of o n = NAll cs /\ conn_children_all o n = cs) \/ conn_children_all o n = [n])
    by (unfold conn_children_all; destruct (kind_of o n); eauto).
  destruct D as [(cs & K & ->) | ->].
  - assert (N := wf_node _ W n). rewrite K in N. destruct N as [Ne Lt]. split; [intros c Hc; specialize (Lt c Hc); lia|].
    split; auto. split.
    + rewrite (cond_true_eq o n) by auto. unfold cond_step. now rewrite K.
    + intros Iv c Hc. apply (invable_conn o n); rewrite ?K; auto.
  - cbn. rewrite andb_true_r. repeat split; try discriminate; intros; intuition (subst; auto).
Qed.
Lemma cco_spec o n : wf o -> n < length (notifs o) ->
  (forall c, In c (conn_children_any o n) -> c < length (notifs o)) /\ conn_children_any o n <> [] /\
  existsb (cond_true o) (conn_children_any o n) = cond_true o n /\
  (invable o n -> forall c, In c (conn_children_any o n) -> invable o c).
Proof.
  intros W L.
  assert (D : (exists cs, kind_of o n = NAny cs /\ conn_children_any o n = cs) \/ conn_children_any o n = [n])
    by (unfold conn_children_any; destruct (kind_of o n); eauto).
  destruct D as [(cs & K & ->) | ->].
  - assert (N := wf_node _ W n). rewrite K in N. destruct N as [Ne Lt]. split; [intros c Hc; specialize (Lt c Hc); lia|].
    split; auto. split.
    + rewrite (cond_true_eq o n) by auto. unfold cond_step. now rewrite K.
    + intros Iv c Hc. apply (invable_conn o n); rewrite ?K; auto.
  - cbn. rewrite orb_false_r. repeat split; try discriminate; intros; intuition (subst; auto).
Qed.

(** * the main lemma: what evaluating an expression constructs *)
Definition mk_post (o : objs) (w : wt) (o' : objs) (n : nid) : Prop :=
  wf o' /\ ext o o' /\ n < length (notifs o') /\ cond_true o' n = sem o w /\ (invertible w = true -> invable o' n).

Lemma mk_notif_spec w : forall o o' n, wf o -> wt_ok o w = true -> mk_notif o w = (o', n) -> mk_post o w o' n.
Proof.
  induction w; intros o o' n W OK Eq; cbn [mk_notif] in Eq; cbn [wt_ok] in OK; unfold mk_post; cbn [sem invertible].
  - (* Delay *) destruct (xeqb d (Fin 0)) eqn:Ed; leaf_alloc W Eq; auto. discriminate.
  - (* After *) leaf_alloc W Eq. reflexivity.
  - (* Before *) leaf_alloc W Eq. reflexivity.
  - (* Moment *)
    change (alloc_notif o (NAfter t)) with (fst (alloc_notif o (NAfter t)), length (notifs o)) in Eq. cbv beta iota in Eq.
    destruct (alloc_post o (NAfter t) W I) as (W1 & E1 & L1 & K1).
    apply alloc_notif_eq in Eq. destruct Eq as [-> ->].
    destruct (alloc_post _ (NMoment t (length (notifs o))) W1) as (W' & E' & L' & K').
    { cbn [node_ok]. split; auto. rewrite kind_of_alloc. destruct (Nat.eqb_spec (length (notifs o)) (length (notifs (fst (alloc_notif o (NAfter t)))))); [lia|exact K1]. }
    split; [exact W'|]. split; [eapply ext_trans; eauto|]. split; [lia|]. split; [|discriminate].
    rewrite (cond_true_eq _ _ (wf_graph _ W')). unfold cond_step. rewrite K'. reflexivity.
  - (* Instant *) leaf_alloc W Eq. reflexivity.
  - (* Eternity *) leaf_alloc W Eq. reflexivity.
  - (* Flag *) inversion Eq; subst. apply Nat.ltb_lt in OK. destruct (wf_flag _ W f OK) as [A B].
    split; auto. split; [apply ext_refl|]. split; [apply kind_range; rewrite A; discriminate|]. split.
    + rewrite (cond_true_eq _ _ (wf_graph _ W)). unfold cond_step. now rewrite A.
    + intros _. apply IvLeaf. now rewrite A.
  - (* Cmp *) apply Nat.ltb_lt in OK.
    pose (o2 := add_listener (fst (alloc_notif o (NCmp v op z))) v (length (notifs o))).
    assert (Eo : o' = o2 /\ n = length (notifs o))
      by (unfold alloc_notif in Eq; cbv beta iota in Eq; inversion Eq; split; reflexivity).
    destruct Eo as [-> ->]. destruct (wf_alloc_cmp o v op z W OK) as [W' E']. fold o2 in W', E'.
    split; [exact W'|]. split; [exact E'|]. split; [cbn; rewrite app_length; cbn; lia|].
    assert (K' : kind_of o2 (length (notifs o)) = NCmp v op z)
      by (unfold o2; now rewrite kind_of_add_listener, kind_of_alloc, Nat.eqb_refl).
    split.
    + rewrite (cond_true_eq _ _ (wf_graph _ W')). unfold cond_step. now rewrite K', (ext_tval _ _ E').
    + intros _. apply IvLeaf. now rewrite K'.
  - (* Cmp2 *) apply andb_true_iff in OK. destruct OK as [Hv Hv2]. apply Nat.ltb_lt in Hv, Hv2.
    pose (o2 := add_listener (add_listener (fst (alloc_notif o (NCmp2 v op v2))) v2 (length (notifs o))) v (length (notifs o))).
    assert (Eo : o' = o2 /\ n = length (notifs o))
      by (unfold alloc_notif in Eq; cbv beta iota in Eq; inversion Eq; split; reflexivity).
    destruct Eo as [-> ->]. destruct (wf_alloc_cmp2 o v op v2 W Hv Hv2) as [W' E']. fold o2 in W', E'.
    split; [exact W'|]. split; [exact E'|]. split; [cbn; rewrite app_length; cbn; lia|].
    assert (K' : kind_of o2 (length (notifs o)) = NCmp2 v op v2)
      by (unfold o2; now rewrite !kind_of_add_listener, kind_of_alloc, Nat.eqb_refl).
    split.
    + rewrite (cond_true_eq _ _ (wf_graph _ W')). unfold cond_step. now rewrite K', !(ext_tval _ _ E').
    + intros _. apply IvLeaf. now rewrite K'.
  - (* Done *) destruct (assoc_nat t (tnames o)) as [t'|] eqn:A.
    + inversion Eq; subst. apply (wf_tnames _ W) in A. destruct (wf_task _ W t' A) as [B C].
      split; auto. split; [apply ext_refl|]. split; [apply kind_range; rewrite B; discriminate|]. split.
      * rewrite (cond_true_eq _ _ (wf_graph _ W)). unfold cond_step. now rewrite B.
      * intros _. apply IvLeaf. now rewrite B.
    + leaf_alloc W Eq. reflexivity.
  - (* And *) destruct (mk_notif o w1) as [o1 na] eqn:Ea. destruct (mk_notif o1 w2) as [o2 nb] eqn:Eb.
    apply andb_true_iff in OK. destruct OK as [OK _]. apply andb_true_iff in OK. destruct OK as [OKa OKb].
    destruct (IHw1 _ _ _ W OKa Ea) as (W1 & E1 & L1 & T1 & I1).
    rewrite <- (wt_ok_ext _ _ _ E1) in OKb. destruct (IHw2 _ _ _ W1 OKb Eb) as (W2 & E2 & L2 & T2 & I2).
    assert (La : na < length (notifs o2)) by (pose proof (ext_len _ _ E2); lia).
    destruct (cca_spec o2 na W2 La) as (Ra & Na & Ta & Ia). destruct (cca_spec o2 nb W2 L2) as (Rb & Nb & Tb & Ib).
    apply alloc_notif_eq in Eq. destruct Eq as [-> ->].
    destruct (alloc_post o2 (NAll (conn_children_all o2 na ++ conn_children_all o2 nb)) W2) as (W' & E' & L' & K').
    { cbn [node_ok]. split; [intros H; apply app_eq_nil in H; tauto|]. intros c Hc. apply in_app_or in Hc. destruct Hc; auto. }
    split; [exact W'|]. split; [eauto using ext_trans|]. split; [lia|]. split.
    + rewrite (cond_true_eq _ _ (wf_graph _ W')). unfold cond_step. rewrite K'.
      rewrite (forallb_ext_in _ (cond_true o2)).
      2:{ intros c Hc. apply cond_true_ext; auto. apply in_app_or in Hc. destruct Hc; auto. }
      rewrite forallb_app, Ta, Tb, T2, (sem_ext _ _ _ E1), <- T1. f_equal. apply cond_true_ext; auto.
    + intros Hi. apply andb_true_iff in Hi. destruct Hi as [Hi1 Hi2]. apply IvConn; rewrite K'; auto. cbn [children].
      intros c Hc. apply (invable_ext _ _ _ E'). apply in_app_or in Hc. destruct Hc; [apply Ia|apply Ib]; auto.
      apply (invable_ext _ _ _ E2); auto.
  - (* Or *) destruct (mk_notif o w1) as [o1 na] eqn:Ea. destruct (mk_notif o1 w2) as [o2 nb] eqn:Eb.
    apply andb_true_iff in OK. destruct OK as [OK _]. apply andb_true_iff in OK. destruct OK as [OKa OKb].
    destruct (IHw1 _ _ _ W OKa Ea) as (W1 & E1 & L1 & T1 & I1).
    rewrite <- (wt_ok_ext _ _ _ E1) in OKb. destruct (IHw2 _ _ _ W1 OKb Eb) as (W2 & E2 & L2 & T2 & I2).
    assert (La : na < length (notifs o2)) by (pose proof (ext_len _ _ E2); lia).
    destruct (cco_spec o2 na W2 La) as (Ra & Na & Ta & Ia). destruct (cco_spec o2 nb W2 L2) as (Rb & Nb & Tb & Ib).
    apply alloc_notif_eq in Eq. destruct Eq as [-> ->].
    destruct (alloc_post o2 (NAny (conn_children_any o2 na ++ conn_children_any o2 nb)) W2) as (W' & E' & L' & K').
    { cbn [node_ok]. split; [intros H; apply app_eq_nil in H; tauto|]. intros c Hc. apply in_app_or in Hc. destruct Hc; auto. }
    split; [exact W'|]. split; [eauto using ext_trans|]. split; [lia|]. split.
    + rewrite (cond_true_eq _ _ (wf_graph _ W')). unfold cond_step. rewrite K'.
      rewrite (existsb_ext_in _ (cond_true o2)).
      2:{ intros c Hc. apply cond_true_ext; auto. apply in_app_or in Hc. destruct Hc; auto. }
      rewrite existsb_app, Ta, Tb, T2, (sem_ext _ _ _ E1), <- T1. f_equal. apply cond_true_ext; auto.
    + intros Hi. apply andb_true_iff in Hi. destruct Hi as [Hi1 Hi2]. apply IvConn; rewrite K'; auto. cbn [children].
      intros c Hc. apply (invable_ext _ _ _ E'). apply in_app_or in Hc. destruct Hc; [apply Ia|apply Ib]; auto.
      apply (invable_ext _ _ _ E2); auto.
  - (* Not *) destruct (mk_notif o w) as [o1 na] eqn:Ea.
    apply andb_true_iff in OK. destruct OK as [OK Hi].
    destruct (IHw _ _ _ W OK Ea) as (W1 & E1 & L1 & T1 & I1).
    destruct (invert_spec _ _ _ _ _ (Nat.lt_lt_succ_r _ _ L1) W1 (I1 Hi) Eq) as (W' & E' & L' & T' & I').
    split; [exact W'|]. split; [eauto using ext_trans|]. split; [exact L'|]. split; [now rewrite T', T1|auto].
Qed.
