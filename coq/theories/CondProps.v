(** C08 -- conditions: truth of derived conditions is boolean algebra on the current values, the fuel of
    [cond_true] is adequate, the false-leaf subscription of connectives (fix D4a) cannot miss a wake-up,
    subscribing to a true condition delivers immediately.  All statements are about the very functions the
    whole-program machine executes (Lib.v / Scenario.v), for all expression trees and all well-formed states. *)
From Coq Require Import ZArith List Bool Lia.
From RecordUpdate Require Import RecordSet.
From Usim Require Import XTime Tables Kernel Machine Lib Scenario.
Import ListNotations.
Import RecordSetNotations.

(** * list helpers *)
Lemma forallb_ext_in {A} (f g : A -> bool) l : (forall x, In x l -> f x = g x) -> forallb f l = forallb g l.
Proof. induction l as [|a l IH]; cbn; intros H; auto. rewrite (H a), IH; auto. Qed.
Lemma existsb_ext_in {A} (f g : A -> bool) l : (forall x, In x l -> f x = g x) -> existsb f l = existsb g l.
Proof. induction l as [|a l IH]; cbn; intros H; auto. rewrite (H a), IH; auto. Qed.
Lemma flat_map_ext_in {A B} (f g : A -> list B) l : (forall x, In x l -> f x = g x) -> flat_map f l = flat_map g l.
Proof. induction l as [|a l IH]; cbn; intros H; auto. rewrite (H a), IH; auto. Qed.
Lemma forallb_false_ex {A} (f : A -> bool) l : forallb f l = false -> exists x, In x l /\ f x = false.
Proof.
  induction l as [|a l IH]; cbn; [discriminate|]. destruct (f a) eqn:E; cbn; intros H.
  - destruct (IH H) as (x & Hx & Hf). exists x; auto.
  - exists a; auto.
Qed.
Lemma existsb_false_all {A} (f : A -> bool) l : existsb f l = false -> forall x, In x l -> f x = false.
Proof.
  induction l as [|a l IH]; cbn; [tauto|]. intros H x [->|Hx]; apply orb_false_iff in H; [tauto|]. apply IH; tauto.
Qed.

Lemma length_list_upd {A} (l : list A) i x : length (list_upd l i x) = length l.
Proof. revert i; induction l; destruct i; cbn; auto. Qed.
Lemma nth_list_upd_eq {A} (l : list A) i x d : i < length l -> nth i (list_upd l i x) d = x.
Proof. revert i; induction l; destruct i; cbn; intros; try lia; auto. apply IHl; lia. Qed.
Lemma nth_list_upd_ne {A} (l : list A) i j x d : i <> j -> nth i (list_upd l j x) d = nth i l d.
Proof. revert i j; induction l; destruct i, j; cbn; intros; try lia; auto. Qed.
Lemma list_upd_oob {A} (l : list A) i x : length l <= i -> list_upd l i x = l.
Proof. revert i; induction l; destruct i; cbn; intros; try lia; auto. f_equal. apply IHl; lia. Qed.

(** * the notification graph *)
Definition is_conn (k : nkind) : bool := match k with NAll _ | NAny _ => true | _ => false end.
Definition children (k : nkind) : list nid := match k with NAll cs | NAny cs => cs | _ => [] end.

(** operands are older objects than the connective that holds them *)
Definition graph_wf (o : objs) : Prop := forall n c, In c (children (kind_of o n)) -> c < n.

Lemma kind_oob o n : length (notifs o) <= n -> kind_of o n = NPlain.
Proof. intros H. unfold kind_of, get_notif. rewrite nth_overflow; auto. Qed.
Lemma kind_range o n : kind_of o n <> NPlain -> n < length (notifs o).
Proof. intros H. destruct (Nat.lt_ge_cases n (length (notifs o))); auto. elim H. now apply kind_oob. Qed.

(** one unfolding of [cond_true_f] *)
Definition cond_step (rec : nid -> bool) (o : objs) (n : nid) : bool :=
  match kind_of o n with
  | NPlain => false
  | NFlag f => fval (get_flag o f)
  | NInvFlag f => negb (fval (get_flag o f))
  | NAfter d => xleb d (onow o)
  | NBefore d => xltb (onow o) d
  | NMoment d _ => xeqb (onow o) d
  | NEternity => false
  | NInstant => true
  | NDelay _ => false
  | NCmp v op z => cmp_eval op (tval (get_track o v)) z
  | NCmp2 v op v2 => cmp_eval op (tval (get_track o v)) (tval (get_track o v2))
  | NDone t => t_doneval (get_task o t)
  | NNotDone t => negb (t_doneval (get_task o t))
  | NAll cs => forallb rec cs
  | NAny cs => existsb rec cs
  end.
Lemma cond_true_f_S fuel o n : cond_true_f (S fuel) o n = cond_step (cond_true_f fuel o) o n.
Proof. reflexivity. Qed.

(** ** fuel adequacy *)
Lemma cond_fuel o : graph_wf o -> forall f1 f2 n, n < f1 -> n < f2 -> cond_true_f f1 o n = cond_true_f f2 o n.
Proof.
  intros G. induction f1 as [|f1 IH]; intros f2 n H1 H2; [lia|]. destruct f2 as [|f2]; [lia|].
  rewrite !cond_true_f_S. unfold cond_step. destruct (kind_of o n) eqn:K; auto.
  - apply forallb_ext_in. intros c Hc. assert (c < n) by (apply G; rewrite K; exact Hc). apply IH; lia.
  - apply existsb_ext_in. intros c Hc. assert (c < n) by (apply G; rewrite K; exact Hc). apply IH; lia.
Qed.

Theorem cond_true_fuel o fuel n : graph_wf o -> n < fuel -> cond_true_f fuel o n = cond_true o n.
Proof.
  intros G H. unfold cond_true. destruct (Nat.lt_ge_cases n (S (length (notifs o)))) as [L|L].
  - apply cond_fuel; auto.
  - destruct fuel; [lia|]. rewrite !cond_true_f_S. unfold cond_step. rewrite kind_oob by lia. reflexivity.
Qed.

Lemma cond_true_eq o n : graph_wf o -> cond_true o n = cond_step (cond_true o) o n.
Proof.
  intros G. unfold cond_true at 1. rewrite cond_true_f_S. unfold cond_step. destruct (kind_of o n) eqn:K; auto.
  - apply forallb_ext_in. intros c Hc. assert (c < n) by (apply G; rewrite K; exact Hc).
    assert (n < length (notifs o)) by (apply kind_range; rewrite K; discriminate). apply cond_true_fuel; auto; lia.
  - apply existsb_ext_in. intros c Hc. assert (c < n) by (apply G; rewrite K; exact Hc).
    assert (n < length (notifs o)) by (apply kind_range; rewrite K; discriminate). apply cond_true_fuel; auto; lia.
Qed.

(** the same for [pending_children] *)
Definition pend_child (rec : nid -> list nid) (o : objs) (c : nid) : list nid :=
  if cond_true o c then [] else if is_conn (kind_of o c) then rec c else [c].
Lemma pending_f_S fuel o n :
  pending_f (S fuel) o n = if is_conn (kind_of o n) then flat_map (pend_child (pending_f fuel o) o) (children (kind_of o n)) else [].
Proof.
  cbn [pending_f]. change (nk (get_notif o n)) with (kind_of o n).
  destruct (kind_of o n); cbn [is_conn children]; auto; apply flat_map_ext_in; intros c _; unfold pend_child;
    change (nk (get_notif o c)) with (kind_of o c); destruct (cond_true o c); auto; destruct (kind_of o c); auto.
Qed.
Lemma pending_fuel o : graph_wf o -> forall f1 f2 n, n < f1 -> n < f2 -> pending_f f1 o n = pending_f f2 o n.
Proof.
  intros G. induction f1 as [|f1 IH]; intros f2 n H1 H2; [lia|]. destruct f2 as [|f2]; [lia|].
  rewrite !pending_f_S. destruct (is_conn (kind_of o n)); auto.
  apply flat_map_ext_in. intros c Hc. apply G in Hc. unfold pend_child.
  destruct (cond_true o c); auto. destruct (is_conn (kind_of o c)); auto. apply IH; lia.
Qed.
Lemma pending_eq o n : graph_wf o ->
  pending_children o n = if is_conn (kind_of o n) then flat_map (pend_child (pending_children o) o) (children (kind_of o n)) else [].
Proof.
  intros G. unfold pending_children at 1. rewrite pending_f_S. destruct (is_conn (kind_of o n)) eqn:K; auto.
  apply flat_map_ext_in. intros c Hc. apply G in Hc. unfold pend_child.
  destruct (cond_true o c); auto. destruct (is_conn (kind_of o c)); auto.
  assert (n < length (notifs o)) by (apply kind_range; intros E; rewrite E in K; discriminate).
  unfold pending_children. apply pending_fuel; auto; lia.
Qed.

(** ** truth depends only on the graph below the node and on the current values *)
Definition env_same (o o' : objs) : Prop :=
  onow o' = onow o /\ (forall f, fval (get_flag o' f) = fval (get_flag o f)) /\
  (forall v, tval (get_track o' v) = tval (get_track o v)) /\
  (forall t, t_doneval (get_task o' t) = t_doneval (get_task o t)).
Definition same_graph (o o' : objs) : Prop := forall n, kind_of o' n = kind_of o n.

Lemma cond_f_agree o o' : graph_wf o -> env_same o o' -> forall fuel n,
  (forall m, m <= n -> kind_of o' m = kind_of o m) -> cond_true_f fuel o' n = cond_true_f fuel o n.
Proof.
  intros G (E1 & E2 & E3 & E4). induction fuel as [|fuel IH]; intros n K; auto.
  rewrite !cond_true_f_S. unfold cond_step. rewrite (K n (le_n _)).
  destruct (kind_of o n) eqn:Kn; auto; rewrite ?E1, ?E2, ?E3, ?E4; auto.
  - apply forallb_ext_in. intros c Hc. assert (c < n) by (apply G; rewrite Kn; exact Hc). apply IH. intros; apply K; lia.
  - apply existsb_ext_in. intros c Hc. assert (c < n) by (apply G; rewrite Kn; exact Hc). apply IH. intros; apply K; lia.
Qed.
Lemma cond_true_agree o o' n : graph_wf o -> graph_wf o' -> env_same o o' ->
  (forall m, m <= n -> kind_of o' m = kind_of o m) -> cond_true o' n = cond_true o n.
Proof.
  intros G G' E K. rewrite <- (cond_true_fuel o (S n) n), <- (cond_true_fuel o' (S n) n); auto. apply cond_f_agree; auto.
Qed.
Lemma same_graph_wf o o' : same_graph o o' -> graph_wf o -> graph_wf o'.
Proof. intros S G n c. rewrite S. apply G. Qed.
Lemma cond_true_same o o' n : graph_wf o -> same_graph o o' -> env_same o o' -> cond_true o' n = cond_true o n.
Proof. intros G S E. apply cond_true_agree; auto. eapply same_graph_wf; eauto. Qed.

(** * states extended by constructing expressions *)
(** what [mk_notif] may do: append notification objects, register listeners; nothing else changes *)
Record ext (o o' : objs) : Prop := mk_ext {
  ext_notifs : exists l, notifs o' = notifs o ++ l;
  ext_kern : kern o' = kern o;
  ext_flags : flags o' = flags o;
  ext_tasks : tasks o' = tasks o;
  ext_tnames : tnames o' = tnames o;
  ext_tlen : length (tracked o') = length (tracked o);
  ext_tval : forall v, tval (get_track o' v) = tval (get_track o v);
  ext_tlis : forall v x, In x (tlisteners (get_track o v)) -> In x (tlisteners (get_track o' v)) }.

Lemma ext_refl o : ext o o.
Proof. split; auto. exists []. now rewrite app_nil_r. Qed.
Lemma ext_trans o1 o2 o3 : ext o1 o2 -> ext o2 o3 -> ext o1 o3.
Proof.
  intros [[l1 N1] K1 F1 T1 Tn1 L1 V1 I1] [[l2 N2] K2 F2 T2 Tn2 L2 V2 I2]. split; try (intros; congruence).
  - exists (l1 ++ l2). rewrite N2, N1, app_assoc. reflexivity.
  - intros v x H. apply I2, I1, H.
Qed.
Lemma ext_len o o' : ext o o' -> length (notifs o) <= length (notifs o').
Proof. intros [[l N] _ _ _ _ _ _ _]. rewrite N, app_length. lia. Qed.
Lemma ext_kind o o' n : ext o o' -> n < length (notifs o) -> kind_of o' n = kind_of o n.
Proof. intros [[l N] _ _ _ _ _ _ _] H. unfold kind_of, get_notif. rewrite N, app_nth1; auto. Qed.
Lemma ext_env o o' : ext o o' -> env_same o o'.
Proof.
  intros [_ K F T _ _ V _]. unfold env_same, onow, get_flag, get_task. rewrite K, F, T. auto.
Qed.
Lemma cond_true_ext o o' n : graph_wf o -> graph_wf o' -> ext o o' -> n < length (notifs o) ->
  cond_true o' n = cond_true o n.
Proof. intros G G' E H. apply cond_true_agree; auto using ext_env. intros m Hm. apply ext_kind; auto. lia. Qed.

Lemma ext_alloc o k : ext o (fst (alloc_notif o k)).
Proof. split; cbn; auto. eexists; reflexivity. Qed.
Lemma kind_of_alloc o k n :
  kind_of (fst (alloc_notif o k)) n = if Nat.eqb n (length (notifs o)) then k else kind_of o n.
Proof.
  unfold kind_of, get_notif. cbn. destruct (Nat.eqb_spec n (length (notifs o))) as [->|N].
  - rewrite app_nth2, Nat.sub_diag; auto.
  - destruct (Nat.lt_ge_cases n (length (notifs o))).
    + rewrite app_nth1; auto.
    + rewrite !nth_overflow; auto. rewrite app_length; cbn; lia.
Qed.
Lemma len_alloc o k : length (notifs (fst (alloc_notif o k))) = S (length (notifs o)).
Proof. cbn. rewrite app_length. cbn. lia. Qed.

Lemma get_track_add_listener o v m v' :
  get_track (add_listener o v m) v' =
  if Nat.eqb v' v && Nat.ltb v (length (tracked o))
  then (get_track o v) <| tlisteners := tlisteners (get_track o v) ++ [m] |> else get_track o v'.
Proof.
  unfold add_listener, get_track. cbn [tracked set]. destruct (Nat.ltb_spec v (length (tracked o))) as [L|L];
    destruct (Nat.eqb_spec v' v) as [->|N]; cbn [andb].
  - cbn. now rewrite nth_list_upd_eq.
  - cbn. now rewrite nth_list_upd_ne.
  - cbn. now rewrite list_upd_oob.
  - cbn. now rewrite nth_list_upd_ne.
Qed.
Lemma ext_add_listener o v m : ext o (add_listener o v m).
Proof.
  split; try reflexivity.
  - exists []. cbn. now rewrite app_nil_r.
  - cbn. apply length_list_upd.
  - intros v'. rewrite get_track_add_listener. destruct (_ && _) eqn:E; auto.
    apply andb_true_iff in E. destruct E as [E _]. apply Nat.eqb_eq in E. now subst.
  - intros v' x H. rewrite get_track_add_listener. destruct (_ && _) eqn:E; auto.
    apply andb_true_iff in E. destruct E as [E _]. apply Nat.eqb_eq in E. subst. cbn. apply in_or_app; auto.
Qed.
Lemma in_add_listener o v m : v < length (tracked o) -> In m (tlisteners (get_track (add_listener o v m) v)).
Proof.
  intros H. rewrite get_track_add_listener, Nat.eqb_refl. apply Nat.ltb_lt in H. rewrite H. cbn.
  apply in_or_app. right. now left.
Qed.
Lemma kind_of_add_listener o v m n : kind_of (add_listener o v m) n = kind_of o n.
Proof. reflexivity. Qed.

(** * well-formed states *)
Definition node_ok (o : objs) (n : nid) (k : nkind) : Prop :=
  match k with
  | NAll cs | NAny cs => cs <> [] /\ forall c, In c cs -> c < n
  | NMoment d na => na < n /\ kind_of o na = NAfter d
  | NFlag f | NInvFlag f => f < length (flags o)
  | NDone t | NNotDone t => t < length (tasks o)
  | NCmp v _ _ => v < length (tracked o) /\ In n (tlisteners (get_track o v))
  | NCmp2 v _ v2 => v < length (tracked o) /\ v2 < length (tracked o) /\
                    In n (tlisteners (get_track o v)) /\ In n (tlisteners (get_track o v2))
  | _ => True
  end.

Record wf (o : objs) : Prop := mk_wf {
  wf_node : forall n, node_ok o n (kind_of o n);
  wf_flag : forall f, f < length (flags o) ->
            kind_of o (fnid (get_flag o f)) = NFlag f /\ kind_of o (finv (get_flag o f)) = NInvFlag f;
  wf_task : forall t, t < length (tasks o) ->
            kind_of o (t_done (get_task o t)) = NDone t /\ kind_of o (t_notdone (get_task o t)) = NNotDone t;
  wf_tnames : forall k t, assoc_nat k (tnames o) = Some t -> t < length (tasks o) }.

Lemma wf_graph o : wf o -> graph_wf o.
Proof.
  intros W n c Hc. assert (N := wf_node _ W n). destruct (kind_of o n); cbn in Hc; try contradiction; apply N, Hc.
Qed.
#[export] Hint Resolve wf_graph : core.

Lemma node_ok_ext o o' n k : ext o o' -> node_ok o n k -> node_ok o' n k.
Proof.
  intros E. pose proof (ext_flags _ _ E) as F. pose proof (ext_tasks _ _ E) as T.
  pose proof (ext_tlen _ _ E) as L. pose proof (ext_tlis _ _ E) as I.
  destruct k; cbn; rewrite ?F, ?T, ?L; auto.
  - intros [H1 H2]; split; auto. rewrite (ext_kind _ _ _ E); auto. apply kind_range. rewrite H2. discriminate.
  - intros [H1 H2]; auto.
  - intros (H1 & H2 & H3 & H4); auto 6.
Qed.

Lemma wf_extend o o' : wf o -> ext o o' ->
  (forall n, length (notifs o) <= n -> node_ok o' n (kind_of o' n)) -> wf o'.
Proof.
  intros W E New. split.
  - intros n. destruct (Nat.lt_ge_cases n (length (notifs o))); auto.
    rewrite (ext_kind _ _ _ E); auto. apply node_ok_ext with o; auto. apply W.
  - intros f. unfold get_flag. rewrite (ext_flags _ _ E). intros Hf. destruct (wf_flag _ W f Hf) as [A B].
    fold (get_flag o f). rewrite !(ext_kind _ _ _ E); auto; apply kind_range; [rewrite B|rewrite A]; discriminate.
  - intros t. unfold get_task. rewrite (ext_tasks _ _ E). intros Ht. destruct (wf_task _ W t Ht) as [A B].
    fold (get_task o t). rewrite !(ext_kind _ _ _ E); auto; apply kind_range; [rewrite B|rewrite A]; discriminate.
  - rewrite (ext_tnames _ _ E), (ext_tasks _ _ E). apply W.
Qed.

Lemma wf_alloc o k : wf o -> node_ok (fst (alloc_notif o k)) (length (notifs o)) k -> wf (fst (alloc_notif o k)).
Proof.
  intros W N. apply wf_extend with o; auto using ext_alloc. intros n Hn. rewrite kind_of_alloc.
  destruct (Nat.eqb_spec n (length (notifs o))) as [->|]; auto. rewrite kind_oob by lia. exact I.
Qed.

Lemma wf_alloc_cmp o v op z : wf o -> v < length (tracked o) ->
  let o' := add_listener (fst (alloc_notif o (NCmp v op z))) v (length (notifs o)) in wf o' /\ ext o o'.
Proof.
  intros W Hv o'. assert (E : ext o o') by (eapply ext_trans; [apply ext_alloc | apply ext_add_listener]).
  split; auto. apply wf_extend with o; auto. intros n Hn. unfold o'. rewrite kind_of_add_listener, kind_of_alloc.
  destruct (Nat.eqb_spec n (length (notifs o))) as [->|]; [|rewrite kind_oob by lia; exact I].
  cbn [node_ok]. fold o'. rewrite (ext_tlen _ _ E). split; auto. apply in_add_listener. exact Hv.
Qed.

Lemma wf_alloc_cmp2 o v op v2 : wf o -> v < length (tracked o) -> v2 < length (tracked o) ->
  let m := length (notifs o) in
  let o' := add_listener (add_listener (fst (alloc_notif o (NCmp2 v op v2))) v2 m) v m in wf o' /\ ext o o'.
Proof.
  intros W Hv Hv2 m o'.
  assert (E : ext o o') by (eapply ext_trans; [apply ext_alloc | eapply ext_trans; apply ext_add_listener]).
  split; auto. apply wf_extend with o; auto. intros n Hn. unfold o'. rewrite !kind_of_add_listener, kind_of_alloc.
  destruct (Nat.eqb_spec n (length (notifs o))) as [->|]; [|rewrite kind_oob by lia; exact I].
  cbn [node_ok]. fold o'. rewrite (ext_tlen _ _ E). repeat split; auto.
  - apply in_add_listener. cbn. rewrite length_list_upd. exact Hv.
  - apply (ext_tlis _ _ (ext_add_listener _ v m)). apply in_add_listener. exact Hv2.
Qed.

(** * reference semantics of expressions *)
Fixpoint sem (o : objs) (w : wt) : bool :=
  match w with
  | WDelay d => xeqb d (Fin 0)
  | WAfter t => xleb t (onow o)
  | WBefore t => xltb (onow o) t
  | WMoment t => xeqb (onow o) t
  | WInstant => true
  | WEternity => false
  | WFlag f => fval (get_flag o f)
  | WCmp v op z => cmp_eval op (tval (get_track o v)) z
  | WCmp2 v op v2 => cmp_eval op (tval (get_track o v)) (tval (get_track o v2))
  | WDone t => match assoc_nat t (tnames o) with Some t' => t_doneval (get_task o t') | None => false end
  | WAnd a b => sem o a && sem o b
  | WOr a b => sem o a || sem o b
  | WNot a => negb (sem o a)
  end.

(** [~] is defined on everything but moments and delays (NotImplementedError / TypeError in the library) *)
Fixpoint invertible (w : wt) : bool :=
  match w with
  | WDelay d => xeqb d (Fin 0)
  | WMoment _ => false
  | WAnd a b | WOr a b => invertible a && invertible b
  | WNot a => invertible a
  | _ => true
  end.
Definition is_cond (w : wt) : bool := match w with WDelay d => xeqb d (Fin 0) | _ => true end.
(** flags / tracked values exist; no delay below a connective; only invertible operands below [~] *)
Fixpoint wt_ok (o : objs) (w : wt) : bool :=
  match w with
  | WFlag f => Nat.ltb f (length (flags o))
  | WCmp v _ _ => Nat.ltb v (length (tracked o))
  | WCmp2 v _ v2 => Nat.ltb v (length (tracked o)) && Nat.ltb v2 (length (tracked o))
  | WAnd a b | WOr a b => wt_ok o a && wt_ok o b && (is_cond a && is_cond b)
  | WNot a => wt_ok o a && invertible a
  | _ => true
  end.
Definition well_formed_wt (o : objs) (w : wt) : Prop := wt_ok o w = true.

Lemma sem_ext o o' w : ext o o' -> sem o' w = sem o w.
Proof.
  intros E. destruct (ext_env _ _ E) as (E1 & E2 & E3 & E4).
  induction w; cbn; rewrite ?E1, ?E2, ?E3, ?(ext_tnames _ _ E); auto; try congruence.
  destruct (assoc_nat t (tnames o)); auto.
Qed.
Lemma wt_ok_ext o o' w : ext o o' -> wt_ok o' w = wt_ok o w.
Proof. intros E. induction w; cbn; rewrite ?(ext_flags _ _ E), ?(ext_tlen _ _ E); congruence. Qed.

(** ** conditions on which [invert_f] is defined *)
Definition inv_leaf (k : nkind) : bool :=
  match k with NPlain | NMoment _ _ | NDelay _ | NAll _ | NAny _ => false | _ => true end.
Inductive invable (o : objs) : nid -> Prop :=
| IvLeaf n : inv_leaf (kind_of o n) = true -> invable o n
| IvConn n : is_conn (kind_of o n) = true -> (forall c, In c (children (kind_of o n)) -> invable o c) -> invable o n.

Lemma invable_kind o n : invable o n -> inv_leaf (kind_of o n) || is_conn (kind_of o n) = true.
Proof. intros [m H|m H _]; rewrite H; auto using orb_true_r. Qed.
Lemma invable_range o n : invable o n -> n < length (notifs o).
Proof. intros H. apply invable_kind in H. apply kind_range. intros E. rewrite E in H. discriminate. Qed.
Lemma invable_conn o n c : invable o n -> is_conn (kind_of o n) = true -> In c (children (kind_of o n)) -> invable o c.
Proof. intros [m H|m H Hc] C; auto. destruct (kind_of o m); discriminate. Qed.
Lemma invable_ext o o' n : ext o o' -> invable o n -> invable o' n.
Proof.
  intros E H. induction H as [n L|n C Hc IH].
  - apply IvLeaf. rewrite (ext_kind _ _ _ E); auto. apply invable_range. now apply IvLeaf.
  - assert (K : kind_of o' n = kind_of o n) by (apply (ext_kind _ _ _ E), invable_range; now apply IvConn).
    apply IvConn; rewrite K; auto.
Qed.

Lemma xltb_negb a b : xltb a b = negb (xleb b a).
Proof. destruct a, b; cbn; auto. apply Z.ltb_antisym. Qed.
Lemma xleb_negb a b : xleb a b = negb (xltb b a).
Proof. destruct a, b; cbn; auto. apply Z.leb_antisym. Qed.

Lemma alloc_notif_eq o k o' m : alloc_notif o k = (o', m) -> o' = fst (alloc_notif o k) /\ m = length (notifs o).
Proof. unfold alloc_notif. intros H. inversion H. split; reflexivity. Qed.
Lemma alloc_post o k : wf o -> node_ok (fst (alloc_notif o k)) (length (notifs o)) k ->
  let o' := fst (alloc_notif o k) in
  wf o' /\ ext o o' /\ length (notifs o) < length (notifs o') /\ kind_of o' (length (notifs o)) = k.
Proof.
  intros W N o'. split; [now apply wf_alloc|]. split; [apply ext_alloc|]. unfold o'. rewrite len_alloc. split; [lia|].
  now rewrite kind_of_alloc, Nat.eqb_refl.
Qed.

(** ** [~c] is the negation of [c] *)
Definition inv_post (o : objs) (n : nid) (o' : objs) (m : nid) : Prop :=
  wf o' /\ ext o o' /\ m < length (notifs o') /\ cond_true o' m = negb (cond_true o n) /\ invable o' m.

Definition inv_fold (fuel : nat) : objs * list nid -> nid -> objs * list nid :=
  fun '(o', acc) c => let '(o'', c') := invert_f fuel o' c in (o'', acc ++ [c']).

Lemma inv_all_spec fuel :
  (forall o n o' m, n < fuel -> wf o -> invable o n -> invert_f fuel o n = (o', m) -> inv_post o n o' m) ->
  forall cs oa acc o1 res, wf oa -> (forall c, In c cs -> c < fuel /\ invable oa c) ->
    fold_left (inv_fold fuel) cs (oa, acc) = (o1, res) ->
    wf o1 /\ ext oa o1 /\ exists cs', res = acc ++ cs' /\ length cs' = length cs /\
      (forall c', In c' cs' -> c' < length (notifs o1) /\ invable o1 c') /\
      existsb (cond_true o1) cs' = negb (forallb (cond_true oa) cs) /\
      forallb (cond_true o1) cs' = negb (existsb (cond_true oa) cs).
Proof.
  intros IHf. induction cs as [|c cs IH]; intros oa acc o1 res W Hcs Eq; cbn in Eq.
  - inversion Eq; subst. split; auto. split; [apply ext_refl|]. exists []. rewrite app_nil_r. cbn. tauto.
  - destruct (invert_f fuel oa c) as [ob c'] eqn:Ei.
    destruct (Hcs c (or_introl eq_refl)) as [Hc Ic].
    destruct (IHf _ _ _ _ Hc W Ic Ei) as (Wb & Eb & Lb & Tb & Ib).
    destruct (IH ob (acc ++ [c']) o1 res Wb) as (W1 & E1 & cs' & R & Len & Rg & Tex & Tall); auto.
    { intros c2 H2. destruct (Hcs c2 (or_intror H2)). split; auto. eapply invable_ext; eauto. }
    split; auto. split; [eapply ext_trans; eauto|]. exists (c' :: cs'). rewrite R, <- app_assoc. cbn [existsb forallb length app In].
    assert (Tc : cond_true o1 c' = negb (cond_true oa c)) by (rewrite <- Tb; apply cond_true_ext; auto).
    assert (Fa : forallb (cond_true ob) cs = forallb (cond_true oa) cs).
    { apply forallb_ext_in. intros c2 H2. apply cond_true_ext; auto. apply invable_range, Hcs. now right. }
    assert (Fe : existsb (cond_true ob) cs = existsb (cond_true oa) cs).
    { apply existsb_ext_in. intros c2 H2. apply cond_true_ext; auto. apply invable_range, Hcs. now right. }
    split; auto. split; [lia|]. split.
    { intros x [<-|Hx]; auto. split; [pose proof (ext_len _ _ E1); lia | eapply invable_ext; eauto]. }
    rewrite Tex, Tall, Tc, Fa, Fe, negb_andb, negb_orb. auto.
Qed.

Ltac leaf_alloc W Eq :=
  apply alloc_notif_eq in Eq; destruct Eq as [-> ->];
  match goal with |- wf (fst (alloc_notif ?o ?k)) /\ _ =>
    let W' := fresh "W'" in let E' := fresh "E'" in let L' := fresh "L'" in let K' := fresh "K'" in
    destruct (alloc_post o k W I) as (W' & E' & L' & K');
    split; [exact W'|]; split; [exact E'|]; split; [lia|]; split;
    [rewrite (cond_true_eq _ _ (wf_graph _ W')); unfold cond_step; rewrite K' | try (intros _; apply IvLeaf; rewrite K'; reflexivity); try (apply IvLeaf; rewrite K'; reflexivity)]
  end.

Lemma invert_spec : forall fuel o n o' m,
  n < fuel -> wf o -> invable o n -> invert_f fuel o n = (o', m) -> inv_post o n o' m.
Proof.
  induction fuel as [|fuel IH]; intros o n o' m Hn W Iv Eq; [lia|].
  cbn [invert_f] in Eq. assert (G := wf_graph _ W). assert (N := wf_node _ W n).
  unfold inv_post. rewrite (cond_true_eq o n G). unfold cond_step.
  destruct (kind_of o n) eqn:K;
    try (apply invable_kind in Iv; rewrite K in Iv; discriminate); cbn [node_ok] in N.
  - (* Flag *) inversion Eq; subst. destruct (wf_flag _ W f N) as [A B].
    split; auto. split; [apply ext_refl|]. split; [apply kind_range; rewrite B; discriminate|]. split.
    + rewrite (cond_true_eq _ _ G). unfold cond_step. now rewrite B.
    + apply IvLeaf. now rewrite B.
  - (* InverseFlag *) inversion Eq; subst. destruct (wf_flag _ W f N) as [A B].
    split; auto. split; [apply ext_refl|]. split; [apply kind_range; rewrite A; discriminate|]. split.
    + rewrite (cond_true_eq _ _ G). unfold cond_step. rewrite A. now rewrite negb_involutive.
    + apply IvLeaf. now rewrite A.
  - (* After *) leaf_alloc W Eq. apply xltb_negb.
  - (* Before *) leaf_alloc W Eq. apply xleb_negb.
  - (* Eternity *) leaf_alloc W Eq. reflexivity.
  - (* Instant *) leaf_alloc W Eq. reflexivity.
  - (* Cmp *) destruct N as [Hv _].
    pose (o2 := add_listener (fst (alloc_notif o (NCmp v (cmp_inverse op) rhs))) v (length (notifs o))).
    assert (Eo : o' = o2 /\ m = length (notifs o))
      by (unfold alloc_notif in Eq; cbv beta iota in Eq; inversion Eq; split; reflexivity).
    destruct Eo as [-> ->]. destruct (wf_alloc_cmp o v (cmp_inverse op) rhs W Hv) as [W' E']. fold o2 in W', E'.
    split; [exact W'|]. split; [exact E'|]. split; [cbn; rewrite app_length; cbn; lia|].
    assert (K' : kind_of o2 (length (notifs o)) = NCmp v (cmp_inverse op) rhs)
      by (unfold o2; now rewrite kind_of_add_listener, kind_of_alloc, Nat.eqb_refl).
    split.
    + rewrite (cond_true_eq _ _ (wf_graph _ W')). unfold cond_step. rewrite K', (ext_tval _ _ E'). apply cmp_inverse_spec.
    + apply IvLeaf. now rewrite K'.
  - (* Cmp2 *) destruct N as (Hv & Hv2 & _).
    pose (o2 := add_listener (add_listener (fst (alloc_notif o (NCmp2 v (cmp_inverse op) v2))) v2 (length (notifs o)))
                             v (length (notifs o))).
    assert (Eo : o' = o2 /\ m = length (notifs o))
      by (unfold alloc_notif in Eq; cbv beta iota in Eq; inversion Eq; split; reflexivity).
    destruct Eo as [-> ->]. destruct (wf_alloc_cmp2 o v (cmp_inverse op) v2 W Hv Hv2) as [W' E']. fold o2 in W', E'.
    split; [exact W'|]. split; [exact E'|]. split; [cbn; rewrite app_length; cbn; lia|].
    assert (K' : kind_of o2 (length (notifs o)) = NCmp2 v (cmp_inverse op) v2)
      by (unfold o2; now rewrite !kind_of_add_listener, kind_of_alloc, Nat.eqb_refl).
    split.
    + rewrite (cond_true_eq _ _ (wf_graph _ W')). unfold cond_step. rewrite K', !(ext_tval _ _ E'). apply cmp_inverse_spec.
    + apply IvLeaf. now rewrite K'.
  - (* Done *) inversion Eq; subst. destruct (wf_task _ W t N) as [A B].
    split; auto. split; [apply ext_refl|]. split; [apply kind_range; rewrite B; discriminate|]. split.
    + rewrite (cond_true_eq _ _ G). unfold cond_step. now rewrite B.
    + apply IvLeaf. now rewrite B.
  - (* NotDone *) inversion Eq; subst. destruct (wf_task _ W t N) as [A B].
    split; auto. split; [apply ext_refl|]. split; [apply kind_range; rewrite A; discriminate|]. split.
    + rewrite (cond_true_eq _ _ G). unfold cond_step. rewrite A. now rewrite negb_involutive.
    + apply IvLeaf. now rewrite A.
  - (* All *) destruct N as [Ne Lt].
    destruct (fold_left _ cs (o, [])) as [o1 cs'] eqn:Ef in Eq.
    apply (inv_all_spec fuel IH) in Ef; auto.
    2:{ intros c Hc. split; [specialize (Lt c Hc); lia|]. apply (invable_conn o n); rewrite ?K; auto. }
    destruct Ef as (W1 & E1 & cs2 & -> & Len & Rg & Tex & _). cbn [app] in *.
    apply alloc_notif_eq in Eq. destruct Eq as [-> ->].
    destruct (alloc_post o1 (NAny cs2) W1) as (W' & E' & L' & K').
    { cbn. split; [destruct cs2, cs; cbn in Len; congruence|]. intros c Hc. apply Rg, Hc. }
    split; [exact W'|]. split; [eapply ext_trans; eauto|]. split; [lia|]. split.
    + rewrite (cond_true_eq _ _ (wf_graph _ W')). unfold cond_step. rewrite K', <- Tex.
      apply existsb_ext_in. intros c Hc. apply cond_true_ext; auto. apply Rg, Hc.
    + apply IvConn; rewrite K'; auto. cbn. intros c Hc. eapply invable_ext; [exact E'|]. apply Rg, Hc.
  - (* Any *) destruct N as [Ne Lt].
    destruct (fold_left _ cs (o, [])) as [o1 cs'] eqn:Ef in Eq.
    apply (inv_all_spec fuel IH) in Ef; auto.
    2:{ intros c Hc. split; [specialize (Lt c Hc); lia|]. apply (invable_conn o n); rewrite ?K; auto. }
    destruct Ef as (W1 & E1 & cs2 & -> & Len & Rg & _ & Tall). cbn [app] in *.
    apply alloc_notif_eq in Eq. destruct Eq as [-> ->].
    destruct (alloc_post o1 (NAll cs2) W1) as (W' & E' & L' & K').
    { cbn. split; [destruct cs2, cs; cbn in Len; congruence|]. intros c Hc. apply Rg, Hc. }
    split; [exact W'|]. split; [eapply ext_trans; eauto|]. split; [lia|]. split.
    + rewrite (cond_true_eq _ _ (wf_graph _ W')). unfold cond_step. rewrite K', <- Tall.
      apply forallb_ext_in. intros c Hc. apply cond_true_ext; auto. apply Rg, Hc.
    + apply IvConn; rewrite K'; auto. cbn. intros c Hc. eapply invable_ext; [exact E'|]. apply Rg, Hc.
Qed.

(** ** [a & b], [a | b] with the flattening of [Condition.__and__/__or__] *)
Lemma cca_spec o n : wf o -> n < length (notifs o) ->
  (forall c, In c (conn_children_all o n) -> c < length (notifs o)) /\ conn_children_all o n <> [] /\
  forallb (cond_true o) (conn_children_all o n) = cond_true o n /\
  (invable o n -> forall c, In c (conn_children_all o n) -> invable o c).
Proof.
  intros W L.
  assert (D : (exists cs, kind_of o n = NAll cs /\ conn_children_all o n = cs) \/ conn_children_all o n = [n])
    by (unfold conn_children_all; destruct (kind_of o n); eauto).
  destruct D as [(cs & K & ->) | ->].
  - assert (N := wf_node _ W n). rewrite K in N. destruct N as [Ne Lt]. split; [intros c Hc; specialize (Lt c Hc); lia|].
    split; auto. split.
    + rewrite (cond_true_eq o n) by auto. unfold cond_step. now rewrite K.
    + intros Iv c Hc. apply (invable_conn o n); rewrite ?K; auto.
  - cbn. rewrite andb_true_r. repeat split; try discriminate; intros; intuition (subst; auto).
Qed.
Lemma cco_spec o n : wf o -> n < length (notifs o) ->
  (forall c, In c (conn_children_any o n) -> c < length (notifs o)) /\ conn_children_any o n <> [] /\
  existsb (cond_true o) (conn_children_any o n) = cond_true o n /\
  (invable o n -> forall c, In c (conn_children_any o n) -> invable o c).
Proof.
  intros W L.
  assert (D : (exists cs, kind_of o n = NAny cs /\ conn_children_any o n = cs) \/ conn_children_any o n = [n])
    by (unfold conn_children_any; destruct (kind_of o n); eauto).
  destruct D as [(cs & K & ->) | ->].
  - assert (N := wf_node _ W n). rewrite K in N. destruct N as [Ne Lt]. split; [intros c Hc; specialize (Lt c Hc); lia|].
    split; auto. split.
    + rewrite (cond_true_eq o n) by auto. unfold cond_step. now rewrite K.
    + intros Iv c Hc. apply (invable_conn o n); rewrite ?K; auto.
  - cbn. rewrite orb_false_r. repeat split; try discriminate; intros; intuition (subst; auto).
Qed.

(** * the main lemma: what evaluating an expression constructs *)
Definition mk_post (o : objs) (w : wt) (o' : objs) (n : nid) : Prop :=
  wf o' /\ ext o o' /\ n < length (notifs o') /\ cond_true o' n = sem o w /\ (invertible w = true -> invable o' n).

Lemma mk_notif_spec w : forall o o' n, wf o -> wt_ok o w = true -> mk_notif o w = (o', n) -> mk_post o w o' n.
Proof.
  induction w; intros o o' n W OK Eq; cbn [mk_notif] in Eq; cbn [wt_ok] in OK; unfold mk_post; cbn [sem invertible].
  - (* Delay *) destruct (xeqb d (Fin 0)) eqn:Ed; leaf_alloc W Eq; auto. discriminate.
  - (* After *) leaf_alloc W Eq. reflexivity.
  - (* Before *) leaf_alloc W Eq. reflexivity.
  - (* Moment *)
    change (alloc_notif o (NAfter t)) with (fst (alloc_notif o (NAfter t)), length (notifs o)) in Eq. cbv beta iota in Eq.
    destruct (alloc_post o (NAfter t) W I) as (W1 & E1 & L1 & K1).
    apply alloc_notif_eq in Eq. destruct Eq as [-> ->].
    destruct (alloc_post _ (NMoment t (length (notifs o))) W1) as (W' & E' & L' & K').
    { cbn [node_ok]. split; auto. rewrite kind_of_alloc. destruct (Nat.eqb_spec (length (notifs o)) (length (notifs (fst (alloc_notif o (NAfter t)))))); [lia|exact K1]. }
    split; [exact W'|]. split; [eapply ext_trans; eauto|]. split; [lia|]. split; [|discriminate].
    rewrite (cond_true_eq _ _ (wf_graph _ W')). unfold cond_step. rewrite K'. reflexivity.
  - (* Instant *) leaf_alloc W Eq. reflexivity.
  - (* Eternity *) leaf_alloc W Eq. reflexivity.
  - (* Flag *) inversion Eq; subst. apply Nat.ltb_lt in OK. destruct (wf_flag _ W f OK) as [A B].
    split; auto. split; [apply ext_refl|]. split; [apply kind_range; rewrite A; discriminate|]. split.
    + rewrite (cond_true_eq _ _ (wf_graph _ W)). unfold cond_step. now rewrite A.
    + intros _. apply IvLeaf. now rewrite A.
  - (* Cmp *) apply Nat.ltb_lt in OK.
    pose (o2 := add_listener (fst (alloc_notif o (NCmp v op z))) v (length (notifs o))).
    assert (Eo : o' = o2 /\ n = length (notifs o))
      by (unfold alloc_notif in Eq; cbv beta iota in Eq; inversion Eq; split; reflexivity).
    destruct Eo as [-> ->]. destruct (wf_alloc_cmp o v op z W OK) as [W' E']. fold o2 in W', E'.
    split; [exact W'|]. split; [exact E'|]. split; [cbn; rewrite app_length; cbn; lia|].
    assert (K' : kind_of o2 (length (notifs o)) = NCmp v op z)
      by (unfold o2; now rewrite kind_of_add_listener, kind_of_alloc, Nat.eqb_refl).
    split.
    + rewrite (cond_true_eq _ _ (wf_graph _ W')). unfold cond_step. now rewrite K', (ext_tval _ _ E').
    + intros _. apply IvLeaf. now rewrite K'.
  - (* Cmp2 *) apply andb_true_iff in OK. destruct OK as [Hv Hv2]. apply Nat.ltb_lt in Hv, Hv2.
    pose (o2 := add_listener (add_listener (fst (alloc_notif o (NCmp2 v op v2))) v2 (length (notifs o))) v (length (notifs o))).
    assert (Eo : o' = o2 /\ n = length (notifs o))
      by (unfold alloc_notif in Eq; cbv beta iota in Eq; inversion Eq; split; reflexivity).
    destruct Eo as [-> ->]. destruct (wf_alloc_cmp2 o v op v2 W Hv Hv2) as [W' E']. fold o2 in W', E'.
    split; [exact W'|]. split; [exact E'|]. split; [cbn; rewrite app_length; cbn; lia|].
    assert (K' : kind_of o2 (length (notifs o)) = NCmp2 v op v2)
      by (unfold o2; now rewrite !kind_of_add_listener, kind_of_alloc, Nat.eqb_refl).
    split.
    + rewrite (cond_true_eq _ _ (wf_graph _ W')). unfold cond_step. now rewrite K', !(ext_tval _ _ E').
    + intros _. apply IvLeaf. now rewrite K'.
  - (* Done *) destruct (assoc_nat t (tnames o)) as [t'|] eqn:A.
    + inversion Eq; subst. apply (wf_tnames _ W) in A. destruct (wf_task _ W t' A) as [B C].
      split; auto. split; [apply ext_refl|]. split; [apply kind_range; rewrite B; discriminate|]. split.
      * rewrite (cond_true_eq _ _ (wf_graph _ W)). unfold cond_step. now rewrite B.
      * intros _. apply IvLeaf. now rewrite B.
    + leaf_alloc W Eq. reflexivity.
  - (* And *) destruct (mk_notif o w1) as [o1 na] eqn:Ea. destruct (mk_notif o1 w2) as [o2 nb] eqn:Eb.
    apply andb_true_iff in OK. destruct OK as [OK _]. apply andb_true_iff in OK. destruct OK as [OKa OKb].
    destruct (IHw1 _ _ _ W OKa Ea) as (W1 & E1 & L1 & T1 & I1).
    rewrite <- (wt_ok_ext _ _ _ E1) in OKb. destruct (IHw2 _ _ _ W1 OKb Eb) as (W2 & E2 & L2 & T2 & I2).
    assert (La : na < length (notifs o2)) by (pose proof (ext_len _ _ E2); lia).
    destruct (cca_spec o2 na W2 La) as (Ra & Na & Ta & Ia). destruct (cca_spec o2 nb W2 L2) as (Rb & Nb & Tb & Ib).
    apply alloc_notif_eq in Eq. destruct Eq as [-> ->].
    destruct (alloc_post o2 (NAll (conn_children_all o2 na ++ conn_children_all o2 nb)) W2) as (W' & E' & L' & K').
    { cbn [node_ok]. split; [intros H; apply app_eq_nil in H; tauto|]. intros c Hc. apply in_app_or in Hc. destruct Hc; auto. }
    split; [exact W'|]. split; [eauto using ext_trans|]. split; [lia|]. split.
    + rewrite (cond_true_eq _ _ (wf_graph _ W')). unfold cond_step. rewrite K'.
      rewrite (forallb_ext_in _ (cond_true o2)).
      2:{ intros c Hc. apply cond_true_ext; auto. apply in_app_or in Hc. destruct Hc; auto. }
      rewrite forallb_app, Ta, Tb, T2, (sem_ext _ _ _ E1), <- T1. f_equal. apply cond_true_ext; auto.
    + intros Hi. apply andb_true_iff in Hi. destruct Hi as [Hi1 Hi2]. apply IvConn; rewrite K'; auto. cbn [children].
      intros c Hc. apply (invable_ext _ _ _ E'). apply in_app_or in Hc. destruct Hc; [apply Ia|apply Ib]; auto.
      apply (invable_ext _ _ _ E2); auto.
  - (* Or *) destruct (mk_notif o w1) as [o1 na] eqn:Ea. destruct (mk_notif o1 w2) as [o2 nb] eqn:Eb.
    apply andb_true_iff in OK. destruct OK as [OK _]. apply andb_true_iff in OK. destruct OK as [OKa OKb].
    destruct (IHw1 _ _ _ W OKa Ea) as (W1 & E1 & L1 & T1 & I1).
    rewrite <- (wt_ok_ext _ _ _ E1) in OKb. destruct (IHw2 _ _ _ W1 OKb Eb) as (W2 & E2 & L2 & T2 & I2).
    assert (La : na < length (notifs o2)) by (pose proof (ext_len _ _ E2); lia).
    destruct (cco_spec o2 na W2 La) as (Ra & Na & Ta & Ia). destruct (cco_spec o2 nb W2 L2) as (Rb & Nb & Tb & Ib).
    apply alloc_notif_eq in Eq. destruct Eq as [-> ->].
    destruct (alloc_post o2 (NAny (conn_children_any o2 na ++ conn_children_any o2 nb)) W2) as (W' & E' & L' & K').
    { cbn [node_ok]. split; [intros H; apply app_eq_nil in H; tauto|]. intros c Hc. apply in_app_or in Hc. destruct Hc; auto. }
    split; [exact W'|]. split; [eauto using ext_trans|]. split; [lia|]. split.
    + rewrite (cond_true_eq _ _ (wf_graph _ W')). unfold cond_step. rewrite K'.
      rewrite (existsb_ext_in _ (cond_true o2)).
      2:{ intros c Hc. apply cond_true_ext; auto. apply in_app_or in Hc. destruct Hc; auto. }
      rewrite existsb_app, Ta, Tb, T2, (sem_ext _ _ _ E1), <- T1. f_equal. apply cond_true_ext; auto.
    + intros Hi. apply andb_true_iff in Hi. destruct Hi as [Hi1 Hi2]. apply IvConn; rewrite K'; auto. cbn [children].
      intros c Hc. apply (invable_ext _ _ _ E'). apply in_app_or in Hc. destruct Hc; [apply Ia|apply Ib]; auto.
      apply (invable_ext _ _ _ E2); auto.
  - (* Not *) destruct (mk_notif o w) as [o1 na] eqn:Ea.
    apply andb_true_iff in OK. destruct OK as [OK Hi].
    destruct (IHw _ _ _ W OK Ea) as (W1 & E1 & L1 & T1 & I1).
    destruct (invert_spec _ _ _ _ _ (Nat.lt_lt_succ_r _ _ L1) W1 (I1 Hi) Eq) as (W' & E' & L' & T' & I').
    split; [exact W'|]. split; [eauto using ext_trans|]. split; [exact L'|]. split; [now rewrite T', T1|auto].
Qed.

(** * C08, boolean algebra: the truth of a constructed expression *)
Definition truth (o : objs) (w : wt) : bool := let '(o', n) := mk_notif o w in cond_true o' n.

Theorem mk_notif_sem o w : wf o -> well_formed_wt o w -> let '(o', n) := mk_notif o w in cond_true o' n = sem o w.
Proof. intros W OK. destruct (mk_notif o w) as [o' n] eqn:E. destruct (mk_notif_spec w o o' n W OK E) as (_ & _ & _ & T & _). exact T. Qed.
Corollary truth_sem o w : wf o -> well_formed_wt o w -> truth o w = sem o w.
Proof. intros W OK. pose proof (mk_notif_sem o w W OK) as H. unfold truth. destruct (mk_notif o w). exact H. Qed.

Theorem mk_notif_wf o w : wf o -> well_formed_wt o w -> let '(o', n) := mk_notif o w in wf o' /\ ext o o' /\ n < length (notifs o').
Proof. intros W OK. destruct (mk_notif o w) as [o' n] eqn:E. destruct (mk_notif_spec w o o' n W OK E) as (A & B & C & _). auto. Qed.

(** constructing an expression only appends objects (and listeners): every existing object, including its
    waiting list, is untouched and every existing condition keeps its truth value *)
Theorem mk_notif_preserves o w : wf o -> well_formed_wt o w ->
  let '(o', _) := mk_notif o w in
  (exists l, notifs o' = notifs o ++ l) /\ forall m, m < length (notifs o) -> cond_true o' m = cond_true o m.
Proof.
  intros W OK. destruct (mk_notif o w) as [o' n] eqn:E. destruct (mk_notif_spec w o o' n W OK E) as (W' & E' & _).
  split; [apply E'|]. intros m Hm. apply cond_true_ext; auto.
Qed.

Lemma wt_ok_and o a b : wt_ok o (WAnd a b) = true -> wt_ok o a = true /\ wt_ok o b = true.
Proof. cbn. intros H. apply andb_true_iff in H. destruct H as [H _]. now apply andb_true_iff in H. Qed.
Theorem and_is_and o a b : wf o -> well_formed_wt o (WAnd a b) -> truth o (WAnd a b) = truth o a && truth o b.
Proof. intros W OK. destruct (wt_ok_and _ _ _ OK). rewrite !truth_sem; auto. Qed.
Theorem or_is_or o a b : wf o -> well_formed_wt o (WOr a b) -> truth o (WOr a b) = truth o a || truth o b.
Proof. intros W OK. destruct (wt_ok_and _ _ _ OK). rewrite !truth_sem; auto. Qed.
Theorem not_is_not o c : wf o -> well_formed_wt o (WNot c) -> truth o (WNot c) = negb (truth o c).
Proof. intros W OK. pose proof OK as OK'. cbn in OK'. apply andb_true_iff in OK'. destruct OK'. rewrite !truth_sem; auto. Qed.
Theorem double_inversion o c : wf o -> well_formed_wt o (WNot (WNot c)) -> truth o (WNot (WNot c)) = truth o c.
Proof.
  intros W OK. pose proof OK as OK'. cbn in OK'. apply andb_true_iff in OK'. destruct OK' as [OK' _].
  apply andb_true_iff in OK'. destruct OK'. rewrite !truth_sem; auto. cbn. apply negb_involutive.
Qed.
Lemma wt_ok_demorgan o a b (W1 W2 : wt -> wt -> wt) :
  (forall x y, wt_ok o (W1 x y) = wt_ok o x && wt_ok o y && (is_cond x && is_cond y)) ->
  (forall x y, wt_ok o (W2 x y) = wt_ok o x && wt_ok o y && (is_cond x && is_cond y)) ->
  (forall x y, invertible (W1 x y) = invertible x && invertible y) ->
  wt_ok o (WNot (W1 a b)) = true -> wt_ok o (W2 (WNot a) (WNot b)) = true.
Proof.
  intros H1 H2 H3. cbn [wt_ok]. rewrite H1, H2, H3. cbn [wt_ok is_cond]. intros H.
  repeat match goal with H : _ && _ = true |- _ => apply andb_true_iff in H; destruct H end.
  repeat (apply andb_true_iff; split); auto.
Qed.
Theorem de_morgan_and o a b : wf o -> well_formed_wt o (WNot (WAnd a b)) ->
  well_formed_wt o (WOr (WNot a) (WNot b)) /\ truth o (WNot (WAnd a b)) = truth o (WOr (WNot a) (WNot b)).
Proof.
  intros W OK. assert (OK' : well_formed_wt o (WOr (WNot a) (WNot b))) by (apply (wt_ok_demorgan o a b WAnd WOr); auto).
  split; auto. rewrite !truth_sem; auto. cbn. apply negb_andb.
Qed.
Theorem de_morgan_or o a b : wf o -> well_formed_wt o (WNot (WOr a b)) ->
  well_formed_wt o (WAnd (WNot a) (WNot b)) /\ truth o (WNot (WOr a b)) = truth o (WAnd (WNot a) (WNot b)).
Proof.
  intros W OK. assert (OK' : well_formed_wt o (WAnd (WNot a) (WNot b))) by (apply (wt_ok_demorgan o a b WOr WAnd); auto).
  split; auto. rewrite !truth_sem; auto. cbn. apply negb_orb.
Qed.

(** * initial states are well formed *)
Definition wf0 (o : objs) : Prop :=
  (forall n, match kind_of o n with NPlain => True | NFlag f | NInvFlag f => f < length (flags o) | _ => False end) /\
  (forall f, f < length (flags o) ->
             kind_of o (fnid (get_flag o f)) = NFlag f /\ kind_of o (finv (get_flag o f)) = NInvFlag f) /\
  tasks o = [] /\ tnames o = [].
Lemma wf0_wf o : wf0 o -> wf o.
Proof.
  intros (A & B & C & D). split; auto.
  - intros n. specialize (A n). destruct (kind_of o n); cbn; auto; contradiction.
  - rewrite C. cbn. intros; lia.
  - rewrite D. cbn. discriminate.
Qed.
Lemma nth_Forall {A} (P : A -> Prop) l d : Forall P l -> P d -> forall i, P (nth i l d).
Proof. intros H Hd. induction H; destruct i; cbn; auto. Qed.
Lemma kind_grow o o' l : notifs o' = notifs o ++ l -> Forall (fun x => nk x = NPlain) l -> forall n, kind_of o' n = kind_of o n.
Proof.
  intros N F n. unfold kind_of, get_notif. rewrite N. destruct (Nat.lt_ge_cases n (length (notifs o))).
  - now rewrite app_nth1.
  - rewrite app_nth2, (nth_overflow (notifs o)) by auto. apply (nth_Forall (fun x => nk x = NPlain)); auto.
Qed.
Lemma wf0_grow o o' l : wf0 o -> notifs o' = notifs o ++ l -> Forall (fun x => nk x = NPlain) l ->
  flags o' = flags o -> tasks o' = tasks o -> tnames o' = tnames o -> wf0 o'.
Proof.
  intros (A & B & C & D) N F Fl T Tn. pose proof (kind_grow o o' l N F) as K. unfold wf0, get_flag.
  rewrite Fl, T, Tn. repeat split; auto.
  - intros n. rewrite K. apply A.
  - rewrite K. apply B, H.
  - rewrite K. apply B, H.
Qed.
Lemma wf0_empty start nroots : wf0 (empty_objs start nroots).
Proof.
  split; [|split; [|split; reflexivity]].
  - intros n. unfold kind_of, get_notif. cbn. destruct n; exact I.
  - cbn. intros; lia.
Qed.
Lemma kind_alloc_flag o n :
  kind_of (fst (alloc_flag o)) n =
  if Nat.eqb n (S (length (notifs o))) then NInvFlag (length (flags o))
  else if Nat.eqb n (length (notifs o)) then NFlag (length (flags o)) else kind_of o n.
Proof.
  change (kind_of (fst (alloc_flag o)) n) with
    (kind_of (fst (alloc_notif (fst (alloc_notif o (NFlag (length (flags o))))) (NInvFlag (length (flags o))))) n).
  rewrite !kind_of_alloc, len_alloc. reflexivity.
Qed.
Lemma flags_alloc_flag o :
  flags (fst (alloc_flag o)) = flags o ++ [{| fval := false; fnid := length (notifs o); finv := S (length (notifs o)) |}].
Proof. cbn. rewrite app_length. cbn. now rewrite Nat.add_1_r. Qed.
Lemma wf0_alloc_flag o : wf0 o -> wf0 (fst (alloc_flag o)).
Proof.
  intros (A & B & C & D). unfold wf0, get_flag. rewrite flags_alloc_flag, app_length. cbn [length].
  split; [|split; [|split; reflexivity || assumption]].
  - intros n. rewrite kind_alloc_flag. destruct (Nat.eqb n (S (length (notifs o)))); [lia|].
    destruct (Nat.eqb n (length (notifs o))); [lia|]. specialize (A n). destruct (kind_of o n); auto; lia.
  - intros f Hf. rewrite !kind_alloc_flag. destruct (Nat.eq_dec f (length (flags o))) as [->|Ne].
    + rewrite app_nth2, Nat.sub_diag by auto. cbn [nth fnid finv]. rewrite !Nat.eqb_refl.
      destruct (Nat.eqb_spec (length (notifs o)) (S (length (notifs o)))); [lia|auto].
    + assert (Hf' : f < length (flags o)) by lia. rewrite app_nth1 by auto. destruct (B f Hf') as [B1 B2].
      fold (get_flag o f).
      assert (L1 : fnid (get_flag o f) < length (notifs o)) by (apply kind_range; rewrite B1; discriminate).
      assert (L2 : finv (get_flag o f) < length (notifs o)) by (apply kind_range; rewrite B2; discriminate).
      repeat match goal with |- context [Nat.eqb ?x ?y] => destruct (Nat.eqb_spec x y); [lia|] end. auto.
Qed.
Lemma iter_inv {A} (P : A -> Prop) f : (forall x, P x -> P (f x)) -> forall n x, P x -> P (iter n f x).
Proof. intros H. induction n; cbn; auto. Qed.
Lemma wf0_alloc_lock o : wf0 o -> wf0 (alloc_lock o).
Proof.
  intros H. apply wf0_grow with (o := o) (l := [{| nk := NPlain; waiting := []; trig := false |}]); auto; try reflexivity; repeat constructor.
Qed.
Lemma wf0_alloc_queue o : wf0 o -> wf0 (alloc_queue o).
Proof.
  intros H. apply wf0_grow with (o := alloc_lock (fst (alloc_notif o NPlain))) (l := []); try reflexivity; auto.
  - apply wf0_alloc_lock.
    apply wf0_grow with (o := o) (l := [{| nk := NPlain; waiting := []; trig := false |}]); auto; try reflexivity; repeat constructor.
  - cbn. now rewrite app_nil_r.
Qed.
Lemma wf0_alloc_chan o : wf0 o -> wf0 (alloc_chan o).
Proof.
  intros H. apply wf0_grow with (o := o) (l := [{| nk := NPlain; waiting := []; trig := false |}]); auto; try reflexivity; repeat constructor.
Qed.
Lemma alloc_static_res_frame rs : forall i o,
  notifs (alloc_static_res rs i o) = notifs o /\ flags (alloc_static_res rs i o) = flags o /\
  tasks (alloc_static_res rs i o) = tasks o /\ tnames (alloc_static_res rs i o) = tnames o.
Proof.
  induction rs as [|[cap c] r IH]; cbn; intros i o; [auto|].
  destruct cap;
    match goal with |- context [alloc_static_res r (S i) ?x] => destruct (IH (S i) x) as (A & B & C & D) end;
    rewrite A, B, C, D; cbn; auto.
Qed.
Lemma wf0_alloc_static_res rs i o : wf0 o -> wf0 (alloc_static_res rs i o).
Proof.
  intros H. destruct (alloc_static_res_frame rs i o) as (A & B & C & D).
  apply wf0_grow with (o := o) (l := []); auto. now rewrite app_nil_r.
Qed.
Theorem wf_init_objs s nroots : wf (init_objs s nroots).
Proof.
  apply wf0_wf. unfold init_objs. apply wf0_alloc_static_res.
  repeat (apply iter_inv; [first [apply wf0_alloc_chan | apply wf0_alloc_queue | apply wf0_alloc_lock]|]).
  eapply wf0_grow with (l := []); try reflexivity; auto.
  2:{ cbn. now rewrite app_nil_r. }
  apply iter_inv; [apply wf0_alloc_flag|]. apply wf0_empty.
Qed.

(** * C08, never missed: the false-leaf subscription of connectives (fix D4a) *)
(** soundness: only false leaves are subscribed to *)
Theorem pending_sound o : graph_wf o -> forall n c, In c (pending_children o n) ->
  cond_true o c = false /\ is_conn (kind_of o c) = false.
Proof.
  intros G n. induction n as [n IH] using lt_wf_ind. intros c. rewrite pending_eq by auto.
  destruct (is_conn (kind_of o n)); [|contradiction]. rewrite in_flat_map. intros (x & Hx & Hc).
  unfold pend_child in Hc. destruct (cond_true o x) eqn:Fx; [contradiction|].
  destruct (is_conn (kind_of o x)) eqn:Cx.
  - apply (IH x); auto.
  - destruct Hc as [<-|[]]. auto.
Qed.

Lemma in_pending o n x c : graph_wf o -> is_conn (kind_of o n) = true -> In x (children (kind_of o n)) ->
  cond_true o x = false ->
  (if is_conn (kind_of o x) then In c (pending_children o x) else c = x) -> In c (pending_children o n).
Proof.
  intros G C Hx Fx Hc. rewrite pending_eq, C by auto. apply in_flat_map. exists x. split; auto.
  unfold pend_child. rewrite Fx. destruct (is_conn (kind_of o x)); auto. subst. now left.
Qed.

(** completeness (the monotonicity argument): negations live in the leaves, so a connective is monotone in
    its leaves; if it is false now and true later (same objects), one of the leaves it was subscribed to
    has become true -- and a leaf that becomes true wakes its subscribers (lemmas below) *)
Theorem monotone_wake_complete o o' : graph_wf o -> same_graph o o' -> forall n,
  is_conn (kind_of o n) = true -> cond_true o n = false -> cond_true o' n = true ->
  exists c, In c (pending_children o n) /\ cond_true o c = false /\ cond_true o' c = true.
Proof.
  intros G S. assert (G' := same_graph_wf _ _ S G). intros n. induction n as [n IH] using lt_wf_ind. intros C F T.
  assert (Step : forall x, In x (children (kind_of o n)) -> cond_true o x = false -> cond_true o' x = true ->
                 exists c, In c (pending_children o n) /\ cond_true o c = false /\ cond_true o' c = true).
  { intros x Hx Fx Tx. destruct (is_conn (kind_of o x)) eqn:Cx.
    - destruct (IH x (G _ _ Hx) Cx Fx Tx) as (c & Hc & P). exists c. split; auto.
      apply (in_pending o n x c); auto. now rewrite Cx.
    - exists x. split; auto. apply (in_pending o n x x); auto. now rewrite Cx. }
  rewrite (cond_true_eq o n G) in F. rewrite (cond_true_eq o' n G') in T. unfold cond_step in F, T. rewrite S in T.
  destruct (kind_of o n) eqn:K; try discriminate C; cbn [children] in Step.
  - destruct (forallb_false_ex _ _ F) as (x & Hx & Fx). apply (Step x); auto.
    rewrite forallb_forall in T. auto.
  - apply existsb_exists in T. destruct T as (x & Hx & Tx). apply (Step x); auto.
    apply (existsb_false_all _ _ F); auto.
Qed.

(** a false connective of a well-formed state is subscribed to at least one leaf *)
Theorem pending_nonempty o : wf o -> forall n,
  is_conn (kind_of o n) = true -> cond_true o n = false -> pending_children o n <> [].
Proof.
  intros W. assert (G := wf_graph _ W). intros n. induction n as [n IH] using lt_wf_ind. intros C F.
  assert (Step : forall x, In x (children (kind_of o n)) -> cond_true o x = false -> exists c, In c (pending_children o n)).
  { intros x Hx Fx. destruct (is_conn (kind_of o x)) eqn:Cx.
    - specialize (IH x (G _ _ Hx) Cx Fx). destruct (pending_children o x) as [|c l] eqn:P; [congruence|].
      exists c. apply (in_pending o n x c); auto. rewrite Cx, P. now left.
    - exists x. apply (in_pending o n x x); auto. now rewrite Cx. }
  assert (N := wf_node _ W n). rewrite (cond_true_eq o n G) in F. unfold cond_step in F.
  assert (E : exists c, In c (pending_children o n)).
  { destruct (kind_of o n) eqn:K; try discriminate C; cbn [children node_ok] in *.
    - destruct (forallb_false_ex _ _ F) as (x & Hx & Fx). eauto.
    - destruct N as [Ne _]. destruct cs as [|x cs]; [congruence|]. apply (Step x); [now left|].
      apply (existsb_false_all _ _ F). now left. }
  destruct E as (c & Hc). intros P. rewrite P in Hc. contradiction.
Qed.

Lemma flat_map_nil {A B} (f : A -> list B) l : (forall x, In x l -> f x = []) -> flat_map f l = [].
Proof. induction l as [|a l IH]; cbn; intros H; auto. rewrite (H a), IH; auto. Qed.
(** for a conjunction: nothing pending iff true *)
Theorem pending_all_nil_iff o n cs : wf o -> kind_of o n = NAll cs ->
  (pending_children o n = [] <-> cond_true o n = true).
Proof.
  intros W K. assert (G := wf_graph _ W). split.
  - intros P. destruct (cond_true o n) eqn:F; auto. exfalso. apply (pending_nonempty o W n); auto. now rewrite K.
  - intros T. rewrite pending_eq, K by auto. cbn [is_conn children]. apply flat_map_nil. intros x Hx.
    rewrite (cond_true_eq o n G) in T. unfold cond_step in T. rewrite K, forallb_forall in T.
    unfold pend_child. now rewrite (T x Hx).
Qed.
(** without the non-emptiness invariant: a false connective with nothing pending can never become true *)
Corollary pending_nil_stuck o o' n : graph_wf o -> same_graph o o' -> is_conn (kind_of o n) = true ->
  cond_true o n = false -> pending_children o n = [] -> cond_true o' n = false.
Proof.
  intros G S C F P. destruct (cond_true o' n) eqn:T; auto.
  destruct (monotone_wake_complete o o' G S n C F T) as (c & Hc & _). rewrite P in Hc. contradiction.
Qed.

(** ** every leaf class wakes its whole waiting list when it becomes true *)
Definition wake_ops (l : list (aid * sid)) : list kop := map (fun '(a, s) => KNow a (Some s)) l.

Lemma get_set_notif o n x m :
  get_notif (set_notif o n x) m = if Nat.eqb m n && Nat.ltb n (length (notifs o)) then x else get_notif o m.
Proof.
  unfold set_notif, get_notif. cbn [notifs set]. destruct (Nat.ltb_spec n (length (notifs o))) as [L|L];
    destruct (Nat.eqb_spec m n) as [->|N]; cbn [andb].
  - cbn. now rewrite nth_list_upd_eq.
  - cbn. now rewrite nth_list_upd_ne.
  - cbn. now rewrite list_upd_oob.
  - cbn. now rewrite nth_list_upd_ne.
Qed.
Lemma set_notif_same_graph o n x : nk x = nk (get_notif o n) -> same_graph o (set_notif o n x).
Proof. intros H m. unfold kind_of. rewrite get_set_notif. destruct (_ && _) eqn:E; auto. apply andb_true_iff in E. destruct E as [E _]. apply Nat.eqb_eq in E. now subst. Qed.
Lemma set_notif_env o n x : env_same o (set_notif o n x).
Proof. repeat split. Qed.
Lemma get_notif_oob o n : length (notifs o) <= n -> get_notif o n = dnotif.
Proof. intros H. unfold get_notif. now rewrite nth_overflow. Qed.

Lemma awake_all_spec o n o' ks : awake_all o n = (o', ks) ->
  ks = wake_ops (waiting (get_notif o n)) /\ waiting (get_notif o' n) = [] /\ same_graph o o' /\ env_same o o' /\
  (forall m, m <> n -> get_notif o' m = get_notif o m).
Proof.
  unfold awake_all. intros H. inversion H; subst. split; [reflexivity|]. split.
  - rewrite get_set_notif, Nat.eqb_refl. cbn [andb]. destruct (Nat.ltb_spec n (length (notifs o))); auto.
    now rewrite get_notif_oob.
  - split; [now apply set_notif_same_graph|]. split; [apply set_notif_env|]. intros m Hm. rewrite get_set_notif.
    apply Nat.eqb_neq in Hm. now rewrite Hm.
Qed.

(** [Flag.set(True)] on a false flag: every waiter of the flag condition is scheduled, nobody stays parked *)
Theorem flag_set_rising o f o' ks : fval (get_flag o f) = false -> flag_set_sync o f true = (o', ks) ->
  let n := fnid (get_flag o f) in
  ks = wake_ops (waiting (get_notif o n)) /\ waiting (get_notif o' n) = [] /\ same_graph o o' /\
  (f < length (flags o) -> fval (get_flag o' f) = true).
Proof.
  intros F. unfold flag_set_sync. rewrite F. cbn [andb negb]. intros H. apply awake_all_spec in H.
  destruct H as (A & B & C & (_ & D & _) & _). repeat split; auto. intros Hf. rewrite D.
  unfold get_flag. cbn. now rewrite nth_list_upd_eq.
Qed.
(** [Flag.set(False)] on a true flag: the same for the waiters of [~flag] *)
Theorem flag_set_falling o f o' ks : fval (get_flag o f) = true -> flag_set_sync o f false = (o', ks) ->
  let n := finv (get_flag o f) in
  ks = wake_ops (waiting (get_notif o n)) /\ waiting (get_notif o' n) = [] /\ same_graph o o' /\
  (f < length (flags o) -> fval (get_flag o' f) = false).
Proof.
  intros F. unfold flag_set_sync. rewrite F. cbn [andb negb]. intros H. apply awake_all_spec in H.
  destruct H as (A & B & C & (_ & D & _) & _). repeat split; auto. intros Hf. rewrite D.
  unfold get_flag. cbn. now rewrite nth_list_upd_eq.
Qed.
(** [Done.__set_done__] *)
Theorem set_done_wakes o t o' ks : set_done o t = (o', ks) ->
  let n := t_done (get_task o t) in
  ks = wake_ops (waiting (get_notif o n)) /\ waiting (get_notif o' n) = [] /\ same_graph o o' /\
  (t < length (tasks o) -> t_doneval (get_task o' t) = true).
Proof.
  unfold set_done. intros H. apply awake_all_spec in H.
  destruct H as (A & B & C & (_ & _ & _ & D) & _). repeat split; auto. intros Ht. rewrite D.
  unfold get_task, set_task. cbn. now rewrite nth_list_upd_eq.
Qed.

(** [Tracked.set]: every registered comparison that is true for the new value wakes all its waiters *)
Definition tstep : objs * list kop -> nid -> objs * list kop :=
  fun '(o', ks) n => if cond_true o' n then let '(o'', ks') := awake_all o' n in (o'', ks ++ ks') else (o', ks).
Definition woken (o1 oc : objs) (ks : list kop) (m : nid) : Prop :=
  waiting (get_notif oc m) = [] /\ forall a w, In (a, w) (waiting (get_notif o1 m)) -> In (KNow a (Some w)) ks.
Definition tinv (o1 oc : objs) (ks : list kop) : Prop :=
  same_graph o1 oc /\ env_same o1 oc /\
  forall m, waiting (get_notif oc m) = waiting (get_notif o1 m) \/ woken o1 oc ks m.

Lemma env_same_trans a b c : env_same a b -> env_same b c -> env_same a c.
Proof. intros (A1 & A2 & A3 & A4) (B1 & B2 & B3 & B4). repeat split; intros; congruence. Qed.
Lemma in_wake_ops a w l : In (a, w) l -> In (KNow a (Some w)) (wake_ops l).
Proof. intros H. unfold wake_ops. apply in_map_iff. exists (a, w). auto. Qed.

Lemma tfold o1 : graph_wf o1 -> forall L oc ks o' ks', tinv o1 oc ks -> fold_left tstep L (oc, ks) = (o', ks') ->
  tinv o1 o' ks' /\ (forall m, woken o1 oc ks m -> woken o1 o' ks' m) /\
  forall m, In m L -> cond_true o1 m = true -> woken o1 o' ks' m.
Proof.
  intros G. induction L as [|n L IH]; intros oc ks o' ks' Inv Eq; cbn [fold_left] in Eq.
  - inversion Eq; subst. split; [exact Inv|]. split; [auto|]. intros m [].
  - destruct Inv as (S & E & Wt).
    assert (Tn : cond_true oc n = cond_true o1 n) by (apply cond_true_same; auto).
    unfold tstep at 2 in Eq. rewrite Tn in Eq. destruct (cond_true o1 n) eqn:T.
    + destruct (awake_all oc n) as [ob kb] eqn:Ea. destruct (awake_all_spec _ _ _ _ Ea) as (A & B & C & D & O).
      assert (Wn : woken o1 ob (ks ++ kb) n).
      { split; auto. intros a w H. apply in_or_app. destruct (Wt n) as [Q|[_ Q]]; [right|left; auto].
        subst kb. rewrite Q. now apply in_wake_ops. }
      assert (Mono : forall m, woken o1 oc ks m -> woken o1 ob (ks ++ kb) m).
      { intros m [Q1 Q2]. destruct (Nat.eq_dec m n) as [->|Ne]; auto. split; [now rewrite O|].
        intros a w H. apply in_or_app. left. auto. }
      assert (Inv' : tinv o1 ob (ks ++ kb)).
      { split; [intros m; now rewrite C|]. split; [eapply env_same_trans; eauto|]. intros m.
        destruct (Nat.eq_dec m n) as [->|Ne]; auto. destruct (Wt m) as [Q|Q]; auto. left. now rewrite O. }
      destruct (IH _ _ _ _ Inv' Eq) as (I1 & I2 & I3). split; auto. split; auto.
      intros m [<-|Hm] Tm; auto.
    + destruct (IH _ _ _ _ (conj S (conj E Wt)) Eq) as (I1 & I2 & I3). split; auto. split; auto.
      intros m [<-|Hm] Tm; [congruence|auto].
Qed.

Theorem tracked_set_wakes o v z o' ks : graph_wf o -> tracked_set_sync o v z = (o', ks) ->
  let o1 := o <| tracked := list_upd (tracked o) v ((get_track o v) <| tval := z |>) |> in
  same_graph o o' /\ env_same o1 o' /\
  forall n, In n (tlisteners (get_track o v)) -> cond_true o' n = true ->
    waiting (get_notif o' n) = [] /\ forall a w, In (a, w) (waiting (get_notif o n)) -> In (KNow a (Some w)) ks.
Proof.
  intros G H o1. unfold tracked_set_sync in H. fold o1 in H.
  assert (G1 : graph_wf o1) by exact G.
  assert (I0 : tinv o1 o1 []) by (repeat split; auto).
  destruct (tfold o1 G1 _ _ _ _ _ I0 H) as ((S & E & _) & _ & Wk). split; [exact S|]. split; [exact E|].
  intros n Hn T. apply (Wk n Hn). rewrite <- T. symmetry. apply cond_true_same; auto.
Qed.

(** [After]: subscribing to a date that has not come arms the one-shot trigger activity (fix D3), which
    runs [awake_all] on the condition when it executes (at the date: kernel theorem C01) *)
Theorem subscribe_after_false o n d a w : graph_wf o -> n < length (notifs o) -> kind_of o n = NAfter d ->
  cond_true o n = false ->
  exists o' ks sp, subscribe_pres o n a w = mkpres o' ks sp (inl VU) /\
    In (a, w) (waiting (get_notif o' n)) /\ trig (get_notif o' n) = true /\
    (trig (get_notif o n) = false ->
     In (KAt d (length (astat o)) None) ks /\ In (length (astat o), trigger_prog n) sp).
Proof.
  intros G L K F. unfold subscribe_pres. change (nk (get_notif o n)) with (kind_of o n). rewrite K, F.
  apply Nat.ltb_lt in L.
  unfold ensure_trigger. destruct (trig (get_notif o n)) eqn:Tr.
  - cbn. unfold cond_subscribe. rewrite F. cbn. eexists _, _, _. split; [reflexivity|].
    unfold plain_subscribe. rewrite get_set_notif, Nat.eqb_refl, L. cbn. split; [|split; [auto|discriminate]].
    apply in_or_app. right. now left.
  - assert (Lt : xltb (onow o) d = true).
    { rewrite (cond_true_eq o n G) in F. unfold cond_step in F. rewrite K in F. now apply xleb_false_xltb. }
    rewrite Lt. set (o1 := set_notif o n _).
    assert (F1 : cond_true o1 n = false).
    { rewrite <- F. apply cond_true_same; auto; [apply set_notif_same_graph; reflexivity | apply set_notif_env]. }
    unfold cond_subscribe. rewrite F1. cbn. eexists _, _, _. split; [reflexivity|].
    unfold plain_subscribe. rewrite get_set_notif, Nat.eqb_refl.
    assert (L1 : Nat.ltb n (length (notifs o1)) = true) by (unfold o1, set_notif; cbn; now rewrite length_list_upd).
    rewrite L1. cbn [andb]. unfold o1 at 1 2. rewrite get_set_notif, Nat.eqb_refl, L. cbn.
    split; [apply in_or_app; right; now left|]. split; auto.
    apply Nat.ltb_lt in L. now rewrite nth_list_upd_eq.
Qed.

(** * C08: subscribing to a true condition delivers immediately, nobody is parked on a true condition *)
Theorem subscribe_true_immediate o n a w : wf o -> cond_true o n = true ->
  subscribe_pres o n a w = okk o [KMark w; KNow a (Some w)].
Proof.
  intros W T. assert (G := wf_graph _ W). pose proof T as T0. rewrite (cond_true_eq o n G) in T0. unfold cond_step in T0.
  assert (N := wf_node _ W n).
  unfold subscribe_pres. change (nk (get_notif o n)) with (kind_of o n).
  destruct (kind_of o n) eqn:K; try discriminate T0; try (unfold cond_subscribe; rewrite T; reflexivity).
  destruct N as [_ Ka]. apply xeqb_eq in T0.
  assert (Ta : cond_true o after = true).
  { rewrite (cond_true_eq o after G). unfold cond_step. rewrite Ka, T0. apply xle_refl. }
  rewrite T0. destruct (xltb d d) eqn:X; [exfalso; exact (xlt_irrefl d X)|].
  rewrite Ta. unfold cond_subscribe. rewrite Ta. reflexivity.
Qed.
Corollary never_parked_on_true o n a w o' ks sp r : wf o -> cond_true o n = true ->
  subscribe_pres o n a w = mkpres o' ks sp r -> o' = o /\ In (KNow a (Some w)) ks /\ r = inl VU.
Proof. intros W T H. rewrite (subscribe_true_immediate o n a w W T) in H. inversion H; subst. cbn. auto. Qed.
(** and a condition-class subscription parks exactly when the condition is false *)
Theorem cond_subscribe_spec o n a w :
  cond_subscribe o n a w = if cond_true o n then okk o [KMark w; KNow a (Some w)] else oku (plain_subscribe o n a w).
Proof. reflexivity. Qed.

(** * [wf] is kept by the run-time allocation of flags and by the value setters / waiting-list operations *)
Record grows (o o' : objs) : Prop := mk_grows {
  gr_kind : forall n, n < length (notifs o) -> kind_of o' n = kind_of o n;
  gr_flags : length (flags o) <= length (flags o');
  gr_tasks : length (tasks o) <= length (tasks o');
  gr_tlen : length (tracked o) <= length (tracked o');
  gr_tlis : forall v x, In x (tlisteners (get_track o v)) -> In x (tlisteners (get_track o' v)) }.
Lemma node_ok_grows o o' n k : grows o o' -> node_ok o n k -> node_ok o' n k.
Proof.
  intros [K F T L I]. destruct k; cbn; auto; try lia.
  - intros [H1 H2]; split; auto. rewrite K; auto. apply kind_range. rewrite H2. discriminate.
  - intros [H1 H2]; split; auto. lia.
  - intros (H1 & H2 & H3 & H4). repeat split; auto; lia.
Qed.
Lemma grows_alloc_flag o : grows o (fst (alloc_flag o)).
Proof.
  split; auto.
  - intros n Hn. rewrite kind_alloc_flag.
    repeat match goal with |- context [Nat.eqb ?x ?y] => destruct (Nat.eqb_spec x y); [lia|] end. auto.
  - rewrite flags_alloc_flag, app_length. lia.
Qed.
Theorem wf_alloc_flag o : wf o -> wf (fst (alloc_flag o)).
Proof.
  intros W. pose proof (grows_alloc_flag o) as Gr. split.
  - intros n. rewrite kind_alloc_flag.
    destruct (Nat.eqb n (S (length (notifs o)))); [cbn [node_ok]; rewrite flags_alloc_flag, app_length; cbn; lia|].
    destruct (Nat.eqb n (length (notifs o))); [cbn [node_ok]; rewrite flags_alloc_flag, app_length; cbn; lia|].
    apply node_ok_grows with o; auto. apply W.
  - unfold get_flag. rewrite flags_alloc_flag, app_length. cbn [length].
    intros f Hf. rewrite !kind_alloc_flag. destruct (Nat.eq_dec f (length (flags o))) as [->|Ne].
    + rewrite app_nth2, Nat.sub_diag by auto. cbn [nth fnid finv]. rewrite !Nat.eqb_refl.
      destruct (Nat.eqb_spec (length (notifs o)) (S (length (notifs o)))); [lia|auto].
    + assert (Hf' : f < length (flags o)) by lia. rewrite app_nth1 by auto. destruct (wf_flag _ W f Hf') as [B1 B2].
      fold (get_flag o f).
      assert (L1 : fnid (get_flag o f) < length (notifs o)) by (apply kind_range; rewrite B1; discriminate).
      assert (L2 : finv (get_flag o f) < length (notifs o)) by (apply kind_range; rewrite B2; discriminate).
      repeat match goal with |- context [Nat.eqb ?x ?y] => destruct (Nat.eqb_spec x y); [lia|] end. auto.
  - intros t Ht. change (tasks (fst (alloc_flag o))) with (tasks o) in Ht.
    change (get_task (fst (alloc_flag o)) t) with (get_task o t). destruct (wf_task _ W t Ht) as [A B].
    rewrite !(gr_kind _ _ Gr); auto; apply kind_range; [rewrite B|rewrite A]; discriminate.
  - exact (wf_tnames _ W).
Qed.

Record shape_same (o o' : objs) : Prop := mk_shape {
  sh_graph : same_graph o o';
  sh_flen : length (flags o') = length (flags o);
  sh_flag : forall f, fnid (get_flag o' f) = fnid (get_flag o f) /\ finv (get_flag o' f) = finv (get_flag o f);
  sh_tlen : length (tasks o') = length (tasks o);
  sh_task : forall t, t_done (get_task o' t) = t_done (get_task o t) /\ t_notdone (get_task o' t) = t_notdone (get_task o t);
  sh_tnames : tnames o' = tnames o;
  sh_trlen : length (tracked o') = length (tracked o);
  sh_lis : forall v, tlisteners (get_track o' v) = tlisteners (get_track o v) }.
Lemma wf_shape o o' : wf o -> shape_same o o' -> wf o'.
Proof.
  intros W [S Fl Ff Tl Tt Tn Trl Li]. split.
  - intros n. rewrite S. assert (N := wf_node _ W n). destruct (kind_of o n); cbn in *; rewrite ?Fl, ?Tl, ?Trl, ?Li, ?S; auto.
  - intros f. rewrite Fl. intros Hf. destruct (Ff f) as [-> ->]. rewrite !S. apply W, Hf.
  - intros t. rewrite Tl. intros Ht. destruct (Tt t) as [-> ->]. rewrite !S. apply W, Ht.
  - rewrite Tn, Tl. apply W.
Qed.
Lemma shape_trans a b c : shape_same a b -> shape_same b c -> shape_same a c.
Proof.
  intros [S Fl Ff Tl Tt Tn Trl Li] [S' Fl' Ff' Tl' Tt' Tn' Trl' Li']. split.
  - intros n. now rewrite S', S.
  - congruence.
  - intros f. destruct (Ff f), (Ff' f). split; congruence.
  - congruence.
  - intros t. destruct (Tt t), (Tt' t). split; congruence.
  - congruence.
  - congruence.
  - intros v. now rewrite Li', Li.
Qed.
Lemma nth_list_upd_proj {A B} (p : A -> B) (l : list A) i j x d :
  p x = p (nth j l d) -> p (nth i (list_upd l j x) d) = p (nth i l d).
Proof.
  intros H. destruct (Nat.eq_dec i j) as [->|Ne]; [|now rewrite nth_list_upd_ne].
  destruct (Nat.lt_ge_cases j (length l)); [now rewrite nth_list_upd_eq | now rewrite list_upd_oob].
Qed.
Lemma shape_set_notif o n x : nk x = nk (get_notif o n) -> shape_same o (set_notif o n x).
Proof. intros H. split; auto; try reflexivity. now apply set_notif_same_graph. Qed.
Lemma shape_set_fval o f b : shape_same o (o <| flags := list_upd (flags o) f ((get_flag o f) <| fval := b |>) |>).
Proof.
  split; auto; try reflexivity; try (intros n; reflexivity).
  - cbn. apply length_list_upd.
  - intros f'. unfold get_flag. cbn. split; apply (nth_list_upd_proj _ (flags o)); reflexivity.
Qed.
Lemma shape_set_tval o v z : shape_same o (o <| tracked := list_upd (tracked o) v ((get_track o v) <| tval := z |>) |>).
Proof.
  split; auto; try reflexivity; try (intros n; reflexivity).
  - cbn. apply length_list_upd.
  - intros v'. unfold get_track. cbn. apply (nth_list_upd_proj _ (tracked o)); reflexivity.
Qed.
Lemma shape_set_doneval o t b : shape_same o (set_task o t ((get_task o t) <| t_doneval := b |>)).
Proof.
  split; auto; try reflexivity; try (intros n; reflexivity).
  - cbn. apply length_list_upd.
  - intros t'. unfold get_task, set_task. cbn. split; apply (nth_list_upd_proj _ (tasks o)); reflexivity.
Qed.
Lemma wf_awake_all o n : wf o -> wf (fst (awake_all o n)).
Proof. intros W. eapply wf_shape; eauto. apply shape_set_notif. reflexivity. Qed.
Lemma wf_plain_subscribe o n a w : wf o -> wf (plain_subscribe o n a w).
Proof. intros W. eapply wf_shape; eauto. apply shape_set_notif. reflexivity. Qed.
Theorem wf_flag_set o f b : wf o -> wf (fst (flag_set_sync o f b)).
Proof.
  intros W. unfold flag_set_sync. destruct (b && negb (fval (get_flag o f))); [|destruct (fval (get_flag o f) && negb b); auto];
    apply wf_awake_all; eapply wf_shape; eauto; apply shape_set_fval.
Qed.
Theorem wf_set_done o t : wf o -> wf (fst (set_done o t)).
Proof. intros W. unfold set_done. apply wf_awake_all. eapply wf_shape; eauto. apply shape_set_doneval. Qed.
Theorem wf_tracked_set o v z : wf o -> wf (fst (tracked_set_sync o v z)).
Proof.
  intros W. unfold tracked_set_sync.
  assert (F : forall L oc ks, wf oc -> wf (fst (fold_left tstep L (oc, ks)))).
  { induction L as [|n L IH]; intros oc ks Wc; cbn [fold_left]; auto. unfold tstep at 2.
    destruct (cond_true oc n); auto. destruct (awake_all oc n) as [ob kb] eqn:Ea. apply IH.
    change ob with (fst (ob, kb)). rewrite <- Ea. now apply wf_awake_all. }
  apply F. eapply wf_shape; eauto. apply shape_set_tval.
Qed.

(** a family of concrete well-formed states for the non-vacuity examples of props/C08.v *)
Definition ex_state (nflags : nat) (tr : list Z) : objs :=
  (iter nflags (fun o => fst (alloc_flag o)) (empty_objs (Fin 0) 1))
    <| tracked := map (fun z => {| tval := z; tlisteners := [] |}) tr |>.
Lemma wf_ex_state nflags tr : wf (ex_state nflags tr).
Proof.
  apply wf0_wf. unfold ex_state. eapply wf0_grow with (l := []); try reflexivity; auto.
  2:{ cbn. now rewrite app_nil_r. }
  apply iter_inv; [apply wf0_alloc_flag|]. apply wf0_empty.
Qed.
