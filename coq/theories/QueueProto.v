(* Layer P protocol model of usim.Queue (usim/_basics/streams.py:125-199): buffer + closed flag + the read
   mutex (a LockProto state, driven only through LockProto.step) + the waiting list of the queue's
   Notification.  Receiver phases = the suspension points of `_await_message`:
     RWaitMutex  waiting for the read mutex (`async with self._read_mutex`)
     RPostpone   holds the mutex, an item was buffered: `await postpone()`, THEN `popleft`
     RWaitItem   holds the mutex, nothing buffered, not closed: `await self._notification`, then popleft
   Transitions = atomic sections:
     Put x          closed ? raise StreamClosed : append, __awake_next__ (oldest waiter), [postpone]
     Close          first time: closed := True, __awake_all__; [postpone]
     Get r          `_await_message` up to its first suspension (or StreamClosed)
     MutexWake r    the mutex wake-up is delivered, continue to the next suspension (or StreamClosed)
     PostponeDone r the postponement ended: popleft, leave the mutex, return the item
     ItemWake r     the item wake-up is delivered: unsubscribe, popleft (empty => closed => StreamClosed)
     Foreign r      cancel / until-interrupt / close hits the receiver at ANY of its suspension points:
                    the `finally`s unsubscribe and leave the mutex; nothing is popped
   The postponements at the end of put/close have no effect on the queue whatever ends them, so a
   signal at a producer's suspension point is not a transition of the queue.
   Ghost: `accepted` (items stored by put, in order), `delivered` (receiver, item) in pop order, `served`
   (read-mutex tickets of the receivers in pop order). *)
From Coq Require Import List Bool Arith Lia.
From Usim Require Import LockProto.
Import ListNotations.

Inductive rphase := RIdle | RWaitMutex | RPostpone | RWaitItem.

Record qst := qmk {
  buf : list nat;              (* Queue._buffer *)
  closed : bool;               (* Queue._closed *)
  mutex : st;                  (* Queue._read_mutex *)
  nwait : list aid;            (* Queue._notification._waiting *)
  nwoken : list aid;           (* item wake-ups scheduled, not yet delivered, not revoked *)
  rph : aid -> rphase;
  accepted : list nat;
  delivered : list (aid * nat);
  served : list nat
}.

(* what the caller of the atomic section sees *)
Inductive out :=
| ONone                        (* suspended / nothing to report *)
| OGot (x : nat)               (* receive returned x *)
| OClosed                      (* StreamClosed raised *)
| ORaised                      (* the foreign signal is re-raised *)
| OCrash.                      (* IndexError / AssertionError: proved unreachable *)

Inductive qtr :=
| Put (x : nat) | Close
| Get (r : aid) | MutexWake (r : aid) | PostponeDone (r : aid) | ItemWake (r : aid) | Foreign (r : aid).

Definition set_mutex (q : qst) (m : st) : qst :=
  qmk (buf q) (closed q) m (nwait q) (nwoken q) (rph q) (accepted q) (delivered q) (served q).

Definition set_rph (q : qst) (r : aid) (p : rphase) : qst :=
  qmk (buf q) (closed q) (mutex q) (nwait q) (nwoken q) (upd (rph q) r p) (accepted q) (delivered q)
      (served q).

(* `__aexit__` of the read mutex when `_await_message` ends, whatever ends it *)
Definition leave (r : aid) (q : qst) (o : out) : option (qst * out) :=
  match step (mutex q) (Exit r) with
  | Some m => Some (set_rph (set_mutex q m) r RIdle, o)
  | None => None
  end.

(* the code after the mutex was acquired, up to the next suspension *)
Definition after_mutex (r : aid) (q : qst) : option (qst * out) :=
  match buf q with
  | _ :: _ => Some (set_rph q r RPostpone, ONone)
  | [] =>
      if closed q then leave r q OClosed
      else Some (qmk (buf q) (closed q) (mutex q) (nwait q ++ [r]) (nwoken q) (upd (rph q) r RWaitItem)
                     (accepted q) (delivered q) (served q), ONone)
  end.

(* popleft by receiver r (which holds the mutex) *)
Definition pop (r : aid) (q : qst) : option (nat * qst) :=
  match buf q with
  | [] => None
  | x :: b => Some (x, qmk b (closed q) (mutex q) (nwait q) (nwoken q) (rph q) (accepted q)
                           (delivered q ++ [(r, x)]) (served q ++ [tick (mutex q) r]))
  end.

Definition n_unsubscribe (r : aid) (q : qst) : qst :=
  if mem r (nwoken q)
  then qmk (buf q) (closed q) (mutex q) (nwait q) (rem1 r (nwoken q)) (rph q) (accepted q) (delivered q)
           (served q)
  else qmk (buf q) (closed q) (mutex q) (rem1 r (nwait q)) (nwoken q) (rph q) (accepted q) (delivered q)
           (served q).

Definition is_inside (m : st) (r : aid) : bool :=
  match ph m r with Inside _ => true | _ => false end.

Definition qstep (q : qst) (t : qtr) : option (qst * out) :=
  match t with
  | Put x =>
      if closed q then Some (q, OClosed)
      else
        let b := buf q ++ [x] in
        let acc := accepted q ++ [x] in
        match nwait q with
        | [] => Some (qmk b (closed q) (mutex q) [] (nwoken q) (rph q) acc (delivered q) (served q), ONone)
        | r :: w => Some (qmk b (closed q) (mutex q) w (nwoken q ++ [r]) (rph q) acc (delivered q) (served q),
                          ONone)
        end
  | Close =>
      if closed q then Some (q, ONone)
      else Some (qmk (buf q) true (mutex q) [] (nwoken q ++ nwait q) (rph q) (accepted q) (delivered q)
                     (served q), ONone)
  | Get r =>
      match rph q r with
      | RIdle =>
          match step (mutex q) (Request r) with
          | Some m =>
              if is_inside m r then after_mutex r (set_mutex q m)
              else Some (set_rph (set_mutex q m) r RWaitMutex, ONone)
          | None => None
          end
      | _ => None
      end
  | MutexWake r =>
      match rph q r with
      | RWaitMutex =>
          match step (mutex q) (DeliverWake r) with
          | Some m => after_mutex r (set_mutex q m)
          | None => None
          end
      | _ => None
      end
  | PostponeDone r =>
      match rph q r with
      | RPostpone =>
          match pop r q with
          | Some (x, q') => leave r q' (OGot x)
          | None => leave r q OCrash               (* IndexError would escape; unreachable *)
          end
      | _ => None
      end
  | ItemWake r =>
      match rph q r with
      | RWaitItem =>
          if mem r (nwoken q) then
            let q1 := n_unsubscribe r q in
            match pop r q1 with
            | Some (x, q') => leave r q' (OGot x)
            | None => if closed q1 then leave r q1 OClosed else leave r q1 OCrash  (* assert closed *)
            end
          else None
      | _ => None
      end
  | Foreign r =>
      match rph q r with
      | RIdle => None
      | RWaitMutex =>
          match step (mutex q) (DeliverForeign r) with
          | Some m => Some (set_rph (set_mutex q m) r RIdle, ORaised)
          | None => None
          end
      | RPostpone => leave r q ORaised
      | RWaitItem => leave r (n_unsubscribe r q) ORaised
      end
  end.

Definition qinit : qst := qmk [] false init [] [] (fun _ => RIdle) [] [] [].

Inductive qreachable : qst -> Prop :=
| qreach_init : qreachable qinit
| qreach_step q t q' o : qreachable q -> qstep q t = Some (q', o) -> qreachable q'.

Fixpoint qrun (q : qst) (l : list qtr) : option (qst * list out) :=
  match l with
  | [] => Some (q, [])
  | t :: r =>
      match qstep q t with
      | Some (q', o) => match qrun q' r with Some (q'', os) => Some (q'', o :: os) | None => None end
      | None => None
      end
  end.

(* ---------- event replay ---------- *)

(* projection logged by the harness: buffer, closed, notification waiting ids, ids with a scheduled
   item wake-up, projection of the read mutex *)
Definition qproj := (list nat * bool * list nat * list nat * proj)%type.

Definition qproject (q : qst) : qproj :=
  (buf q, closed q, nwait q, nwoken q, project (mutex q)).

Definition qproj_eqb (p p' : qproj) : bool :=
  let '(b1, c1, w1, k1, m1) := p in let '(b2, c2, w2, k2, m2) := p' in
  list_eqb b1 b2 && Bool.eqb c1 c2 && list_eqb w1 w2 && list_eqb k1 k2 && proj_eqb m1 m2.

Definition out_eqb (o o' : out) : bool :=
  match o, o' with
  | ONone, ONone | OClosed, OClosed | ORaised, ORaised | OCrash, OCrash => true
  | OGot x, OGot y => Nat.eqb x y
  | _, _ => false
  end.

Inductive qev := QEv (t : qtr) (o : out) (p : qproj).

Fixpoint qreplay_from (i : nat) (q : qst) (log : list qev) : nat :=
  match log with
  | [] => 0
  | QEv t o p :: r =>
      match qstep q t with
      | None => i
      | Some (q', o') =>
          if out_eqb o' o && qproj_eqb (qproject q') p then qreplay_from (S i) q' r else i
      end
  end.

Definition qreplay (log : list qev) : nat := qreplay_from 1 qinit log.
