(** The machine is a client of the kernel: every execution of every scenario program is an
    execution [kexec] of Kernel.v for a suitable client.  Hence the kernel theorems (time monotone,
    exact due times, FIFO order, minimum-first) hold for all machine executions. *)
From Coq Require Import ZArith List Bool Lia Sorted.
From RecordUpdate Require Import RecordSet.
From Usim Require Import XTime Tables Kernel KernelProps Machine.
Import ListNotations.
Import RecordSetNotations.

Definition kern_of (m : mstate) : loop := kern (ob m).

Lemma kapply_all_app l a b : kapply_all l (a ++ b) = kapply_all (kapply_all l a) b.
Proof. unfold kapply_all. apply fold_left_app. Qed.

(** the eagerly updated kernel equals the activation's start kernel plus the logged requests *)
Definition synced (k0 : loop) (m : mstate) : Prop := kern_of m = kapply_all k0 (klog m).

Lemma set_act_synced k0 m a s : synced k0 m -> synced k0 (set_act m a s).
Proof. unfold synced, kern_of, set_act. cbn. auto. Qed.

Lemma add_acts_synced k0 sp : forall m, synced k0 m -> synced k0 (add_acts m sp).
Proof.
  unfold add_acts. induction sp as [|[a p] sp IH]; cbn; intros m H; auto.
Qed.

Lemma set_result_synced k0 m r : synced k0 m -> synced k0 (m <| result := r |>).
Proof. unfold synced, kern_of. cbn. auto. Qed.

Definition sres_synced (k0 : loop) (r : sres) : Prop :=
  match r with SCont m _ _ _ => synced k0 m | SDone m => synced k0 m end.

Lemma finish_ctx_synced k0 m c outer r : synced k0 m -> sres_synced k0 (finish_ctx m c outer r).
Proof.
  intros H. unfold finish_ctx.
  assert (H' := set_act_synced k0 m (c_aid c) ADead H).
  destruct outer as [|c' outer'].
  - destruct r as [v|e]; [destruct v|]; cbn; auto using set_result_synced.
  - destruct r as [v|e]; [|destruct e]; cbn; auto.
Qed.

Lemma set_gen_synced k0 m g s : synced k0 m -> synced k0 (set_gen m g s).
Proof. unfold synced, kern_of, set_gen. cbn. auto. Qed.

Lemma add_gen_synced k0 m s : synced k0 m -> synced k0 (m <| gens := gens m ++ [s] |>).
Proof. unfold synced, kern_of. cbn. auto. Qed.

Ltac synced_tac H :=
  cbn;
  repeat first [ exact H
               | apply set_gen_synced
               | apply set_act_synced
               | apply add_gen_synced
               | apply set_result_synced ].

Lemma step1_synced k0 cur m md c outer : synced k0 m -> sres_synced k0 (step1 cur m md c outer).
Proof.
  intros H. unfold step1. destruct md as [p|v|e].
  - destruct p as [v|e|f k| |p k|p h|s body|b|f|body|g|v|g].
    + synced_tac H.
    + synced_tac H.
    + destruct (f (ob m) cur) as [o' ops sp r] eqn:E.
      assert (Hs : synced k0 (add_acts (m <| ob := set_kern o' (kapply_all (kern (ob m)) ops) |>
                                         <| klog := klog m ++ ops |>) sp)).
      { apply add_acts_synced. unfold synced, kern_of in *. cbn.
        change (fold_left kapply (klog m ++ ops) k0) with (kapply_all k0 (klog m ++ ops)).
        rewrite kapply_all_app. rewrite <- H. reflexivity. }
      destruct r; cbn; exact Hs.
    + destruct outer; synced_tac H.
    + synced_tac H.
    + synced_tac H.
    + synced_tac H.
    + destruct (nth_error (acts m) b) as [[p'|st'| |]|]; synced_tac H.
    + synced_tac H.
    + synced_tac H.
    + destruct (nth_error (gens m) g) as [[p'|fs| |]|]; synced_tac H.
    + destruct (split_gen (c_stack c) []) as [[[above [k|h|body|g|g]] below]|]; synced_tac H.
    + destruct (nth_error (gens m) g) as [[p'|fs| |]|]; synced_tac H.
  - destruct (c_stack c) as [|[k|h|body|g|g] st'].
    + apply finish_ctx_synced. exact H.
    + synced_tac H.
    + synced_tac H.
    + destruct v; synced_tac H.
    + synced_tac H.
    + synced_tac H.
  - destruct (c_stack c) as [|[k|h|body|g|g] st'].
    + apply finish_ctx_synced. exact H.
    + synced_tac H.
    + synced_tac H.
    + synced_tac H.
    + synced_tac H.
    + synced_tac H.
Qed.

Lemma exec_synced k0 fuel : forall cur m md c outer,
  synced k0 m -> synced k0 (exec fuel cur m md c outer).
Proof.
  induction fuel as [|fuel IH]; cbn; intros cur m md c outer H.
  - apply set_result_synced. exact H.
  - assert (Hs := step1_synced k0 cur m md c outer H).
    destruct (step1 cur m md c outer) as [m' md' c' outer'|m']; cbn in Hs; auto.
Qed.

Lemma resume_synced fuel m act :
  klog m = [] -> kern_of (resume fuel m act) = kapply_all (kern_of m) (klog (resume fuel m act)).
Proof.
  intros Hk. assert (H0 : synced (kern_of m) m) by (unfold synced; rewrite Hk; reflexivity).
  unfold resume.
  destruct (nth_error (acts m) (a_tgt act)) as [[p|st| |]|].
  - destruct (a_sig act); apply exec_synced; apply set_act_synced; exact H0.
  - destruct (a_sig act); apply exec_synced; apply set_act_synced; exact H0.
  - exact (set_result_synced _ _ _ H0).
  - exact (set_result_synced _ _ _ H0).
  - exact (set_result_synced _ _ _ H0).
Qed.

(** ** the machine as a kernel client *)
Definition mclient (fuel : nat) (m : mstate) (l : loop) (a : activation) : mstate * list kop :=
  let m' := resume fuel (m <| ob := set_kern (ob m) l |> <| klog := [] |>) a in (m', klog m').

(** the activations a machine executes (the run may stop earlier when an exception leaves [run()];
    what it executes is then a prefix of this list) *)
Fixpoint mtrace (n fuel : nat) (m : mstate) : list exec_event :=
  match n with
  | O => []
  | S n' =>
      match next (kern_of m) with
      | None => []
      | Some (a, k') => {| e_time := now k'; e_act := a |} :: mtrace n' fuel (mstep fuel m)
      end
  end.

Theorem machine_refines_kernel fuel n : forall m,
  mtrace n fuel m = kexec mstate (mclient fuel) n m (kern_of m).
Proof.
  induction n as [|n IH]; cbn; intros m; [reflexivity|].
  destruct (next (kern_of m)) as [[a k']|] eqn:E; [|reflexivity].
  unfold mclient at 1. cbn.
  f_equal.
  assert (Hstep : mstep fuel m = resume fuel (m <| ob := set_kern (ob m) k' |> <| klog := [] |>) a).
  { unfold mstep. unfold kern_of in E. rewrite E. reflexivity. }
  rewrite Hstep. rewrite IH. f_equal.
  rewrite resume_synced by reflexivity. reflexivity.
Qed.

(** consequences for every machine execution, from a state whose kernel satisfies the invariant *)
Corollary machine_exec_sorted fuel n m :
  inv (kern_of m) -> StronglySorted ev_lt (mtrace n fuel m).
Proof. intros H. rewrite machine_refines_kernel. apply exec_sorted. exact H. Qed.

Corollary machine_exec_at_due fuel n m :
  inv (kern_of m) ->
  Forall (fun e => e_time e = a_due (e_act e) /\ xle (now (kern_of m)) (e_time e)) (mtrace n fuel m).
Proof. intros H. rewrite machine_refines_kernel. apply exec_at_due. exact H. Qed.

Corollary machine_time_monotone fuel n m :
  inv (kern_of m) -> StronglySorted (fun x y => xle (e_time x) (e_time y)) (mtrace n fuel m).
Proof. intros H. rewrite machine_refines_kernel. apply time_monotone. exact H. Qed.

(** ** run(): how it ends *)

(** the first exception escaping a root activity is the outcome of the run, unchanged *)
Lemma escape_is_result m c e :
  finish_ctx m c [] (inr e) = SDone ((set_act m (c_aid c) ADead) <| result := RRaised e |>).
Proof. reflexivity. Qed.

(** a root activity's unreceived return value is reported as an error *)
Lemma leak_reported m c v :
  v <> VU -> finish_ctx m c [] (inl v) = SDone ((set_act m (c_aid c) ADead) <| result := RRaised EActivityLeak |>).
Proof. intros H. destruct v; try reflexivity. congruence. Qed.

(** once the run has ended (quiescent, or an exception escaped) nothing executes any more *)
Lemma mrun_stops n fuel m : result m <> RGoing -> mrun (S n) fuel m = m.
Proof. cbn. destruct (result m); congruence. Qed.

(** the run ends normally exactly at quiescence: [mstep] reports [RQuiet] iff no unrevoked activation is queued *)
Lemma mstep_quiet_iff (m : mstate) :
  next (kern_of m) = None <-> Forall (fun b => is_revoked (revoked (kern_of m)) b = true) (queued (kern_of m)).
Proof. apply next_none_iff_quiescent. Qed.

Lemma mstep_quiet fuel m : next (kern_of m) = None -> mstep fuel m = m <| result := RQuiet |>.
Proof. unfold mstep, kern_of. intros H. rewrite H. reflexivity. Qed.
